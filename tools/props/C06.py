"""C06 — byte input is decoded with the encoding the documented precedence selects."""
import io
import itertools
import re

from h5 import lean, trees, wire

ID = "C06"
PROPS_MODULE = "H5.Props.C06"
GEN_MODULES = ["Encodings"]
CORRESPONDENCE_OPS = ["enc:determine", "enc:prescan", "enc:content", "enc:lookup", "enc:change", "enc:latemeta"]
SOURCES = ["html5lib/_inputstream.py", "html5lib/html5parser.py"]
LEVEL = "proof"
TRUSTED = ["hand model H5.Model.Encoding of detectBOM / determineEncoding / lookupEncoding / EncodingBytes / "
           "EncodingParser / ContentAttrParser / changeEncoding / startTagMeta, tied by the ops enc:* on the real classes",
           "webencodings.labels.LABELS is THE label table of the Encoding standard (extracted, shared by model and spec); "
           "webencodings.lookup = strip ASCII whitespace + ASCII lower-case + table",
           "chardet is not importable in this environment: the chardet branch of determineEncoding is pruned "
           "(H5.Gen.Encodings.chardetInstalled = false is regenerated on every run)",
           "the raw byte stream is seekable and read(n) returns n bytes when available (bytes/BytesIO); short reads "
           "and non-seekable sources are exercised by C05's oracle",
           "codecs: StreamReader(rawStream, 'replace') decodes like codec.decode(bytes, 'replace') except for an "
           "incomplete sequence at end of input (see findings) - used by the tree oracle only",
           "reference prescan H5.Spec.Sniff written from the HTML standard (without the newer UTF-16 XML-declaration "
           "check); the tokenizer/tree builder are exercised by the oracle on the real code only"]
RULE = ("regressions: witnesses of the repaired findings (must pass); enc:determine: all 4^5 assignments of the five arguments over {valid, invalid, utf-16, None} x BOM in {none, "
        "UTF-8, UTF-16LE/BE, UTF-32LE/BE} x bodies (quick: all assignments without BOM + seeded sample with BOM); "
        "enc:prescan: token-exhaustive meta tags (length <= 4 quick / 6 thorough), byte-exhaustive tag soup before a "
        "meta, meta at offsets 0 and 1000..1030, in comments, after bogus tags, seeded mutations; enc:content: "
        "token-exhaustive; oracle: initial encoding vs the documented precedence with the WHATWG prescan (Lean Spec), "
        "final documentEncoding after late <meta>, certain never changed, tree(bytes) = tree(decode(bytes, reported)); "
        "non-trivial = a declaration / BOM / argument is present; distinct by request")

VALID = {"override": "koi8-r", "transport": "iso-8859-2", "parent": "windows-1251", "likely": "euc-jp",
         "default": "iso-8859-5"}
ARGN = ["override", "transport", "parent", "likely", "default"]
KW = {"override": "override_encoding", "transport": "transport_encoding", "parent": "same_origin_parent_encoding",
      "likely": "likely_encoding", "default": "default_encoding"}
BOMS = {"none": b"", "utf-8": b"\xef\xbb\xbf", "utf-16le": b"\xff\xfe", "utf-16be": b"\xfe\xff",
        "utf-32le": b"\xff\xfe\x00\x00", "utf-32be": b"\x00\x00\xfe\xff"}
# deviations of the CURRENT library from the standard's prescan (H5.Spec.Sniff.html5libDev): none is left after the
# repairs COMMIT_noUserDefinedMap ... COMMIT_eagerMeta; the switches stay for attribution: a difference that returns is
# explained by the flags below and reported under its old class, which is no longer a known finding -> VIOLATION
CURRENT_DEV = set()
FLAGS = ["commentNoOverlap", "metaNeedsSpace", "endTagOffByOne", "skipByteAfterLt", "ltTerminates", "eagerMeta",
         "noDedup", "contentNoRetry", "contentNoSemicolon", "noUserDefinedMap"]


def eb(b):
    return wire.enc_bytes(b)


def dec_ostr(word):
    if word == "~":
        return None
    if word == "-":
        return ""
    return "".join(chr(int(h, 16)) for h in word.split("."))


# ------------------------------------------------------------------------------------------------------------------
# the real code
def real_determine(data, args):
    from html5lib._inputstream import HTMLBinaryInputStream
    kw = {KW[k]: v for k, v in args.items()}
    try:
        s = HTMLBinaryInputStream(data, **kw)
        return "ok %s %s %d" % (wire.enc_str(s.charEncoding[0].name), s.charEncoding[1], s.rawStream.tell())
    except Exception as e:
        return wire.exc_tag(e)


def real_prescan(data):
    from html5lib._inputstream import EncodingParser
    try:
        e = EncodingParser(data).getEncoding()
        return "ok " + wire.enc_ostr(None if e is None else e.name)
    except Exception as e:
        return wire.exc_tag(e)


_META_STREAM = []


def real_meta(data):
    """the REAL HTMLBinaryInputStream.detectEncodingMeta() (prescan of the first 1024 bytes + its UTF-16 -> UTF-8
    rule) on `data`, as an encoding name or None; one stream object is reused, only its raw stream is replaced"""
    from html5lib._inputstream import HTMLBinaryInputStream
    if not _META_STREAM:
        _META_STREAM.append(HTMLBinaryInputStream(b""))
    s = _META_STREAM[0]
    s.rawStream = io.BytesIO(data)
    e = s.detectEncodingMeta()
    return None if e is None else e.name


def real_content(data):
    from html5lib._inputstream import ContentAttrParser, EncodingBytes
    try:
        r = ContentAttrParser(EncodingBytes(data)).parse()
        return "ok " + ("~" if r is None else eb(r))
    except Exception as e:
        return wire.exc_tag(e)


def real_lookup(kind, s):
    from html5lib._inputstream import lookupEncoding
    try:
        e = lookupEncoding(s.encode("latin-1") if kind == "b" else s)
        return "ok " + wire.enc_ostr(None if e is None else e.name)
    except Exception as e:
        return wire.exc_tag(e)


def real_change(cur, conf, kind, label):
    from html5lib._inputstream import HTMLBinaryInputStream, lookupEncoding
    from html5lib.constants import _ReparseException
    s = HTMLBinaryInputStream(b"x")
    s.charEncoding = (lookupEncoding(cur), "certain" if conf == "c" else "tentative")
    arg = None if kind == "n" else (label.encode("latin-1") if kind == "b" else label)
    try:
        s.changeEncoding(arg)
    except _ReparseException:
        return "ok reparse " + wire.enc_str(s.charEncoding[0].name)
    except Exception as e:
        return wire.exc_tag(e)
    if s.charEncoding[0].name != cur:
        return "ok CHANGED-WITHOUT-REPARSE"
    return "ok certain" if (s.charEncoding[1] == "certain" and conf != "c") else "ok unchanged"


class _Recorder(object):
    def __init__(self, conf):
        from html5lib._inputstream import lookupEncoding
        self.charEncoding = (lookupEncoding("windows-1252"), conf)
        self.calls = []

    def changeEncoding(self, x):
        self.calls.append(x)


def real_latemeta(conf, attrs):
    """which argument InHeadPhase.startTagMeta hands to stream.changeEncoding"""
    import html5lib
    from collections import OrderedDict
    p = html5lib.HTMLParser()
    p.parse(b"")
    rec = _Recorder("certain" if conf == "c" else "tentative")
    p.tokenizer.stream = rec
    tok = {"type": 3, "name": "meta", "data": OrderedDict(attrs), "selfClosing": False, "selfClosingAcknowledged": False,
           "namespace": "http://www.w3.org/1999/xhtml"}
    try:
        p.phases["inHead"].startTagMeta(tok)
    except Exception as e:
        return wire.exc_tag(e)
    if not rec.calls:
        return "ok nocall"
    x = rec.calls[0]
    if x is None:
        return "ok none"
    if isinstance(x, bytes):
        return "ok b " + eb(x)
    return "ok s " + wire.enc_str(x)


# ------------------------------------------------------------------------------------------------------------------
# generators
def arg_values(name):
    return [VALID[name], "bogus", "utf-16", None]


def all_assignments():
    for combo in itertools.product(*[arg_values(n) for n in ARGN]):
        yield dict(zip(ARGN, combo))


def args_words(args):
    return " ".join(wire.enc_ostr(args.get(n)) for n in ARGN)


META_TOK = [b"charset", b"=", b'"', b"'", b"/", b" ", b";", b">", b"utf-8", b"<", b"bogus", b"x"]
PRAGMA_TOK = [b"content", b"=", b'"', b"'", b"charset", b" ", b";", b"koi8-r", b"text/html", b">",
              b"http-equiv=content-type"]
SOUP = [b"<", b"/", b"!", b"?", b"-", b">", b"a", b" ", b"=", b"'"]
CONTENT_TOK = [b"charset", b"=", b" ", b'"', b"'", b"utf-8", b"x", b";", b"text/html", b"CHARSET", b"\t"]
FRAG = [b"<meta", b" charset", b"=", b"utf-8", b'"', b"'", b" ", b">", b"/", b"<!--", b"-->", b"<", b"</", b"a",
        b" http-equiv", b"content-type", b" content", b"text/html; charset=", b"x", b";", b"<?", b"<!", b"koi8-r",
        b"utf-16", b"x-user-defined", b"-", b"charset", b"bogus", b"=", b"=", b"\x80", b"\x00", b"META", b"\t", b"\r\n"]
TEMPLATES = [b"<meta charset=utf-8>", b'<meta http-equiv=content-type content="text/html; charset=koi8-r">',
             b"<meta content='text/html;charset=koi8-r' http-equiv='Content-Type'>", b"<META CHARSET = 'Big5' >",
             b'<meta name=x content="charset=utf-8"><meta charset="shift_jis"/>']
PROBES = [b"<meta/charset=utf-8>", b"<meta charset=x-user-defined>", b"<meta charset=utf-16>", b"<meta charset=utf-16be>",
          b"<meta charset=bogus charset=utf-8>", b"<!--><meta charset=utf-8>", b"<!---><meta charset=utf-8>",
          b"<<meta charset=utf-8>", b"<meta content='text/html; charset=utf-8; x' http-equiv=content-type>",
          b"<meta content='charset charset=utf-8' http-equiv=content-type>", b"<meta charset=utf-8<>",
          b"<a<meta charset=utf-8>", b"<meta charset=utf-8 ", b"<meta charset='utf-8'", b"</a b='>'><meta charset=utf-8>",
          b"</1a b='><meta charset=utf-8>'>", b"</a b='><meta charset=utf-8>'>", b"<meta content='charset=koi8-r' charset=big5 http-equiv=content-type>",
          b"<metax a='<meta charset=utf-8>'>", b"<a b='<meta charset=utf-8>'>", b"<!-- <meta charset=utf-8> -->",
          b"<!-- --><meta charset=utf-8>", b"<?x <meta charset=utf-8>?><meta charset=big5>", b"<meta charset=utf-8",
          b"<meta http-equiv=refresh content='charset=utf-8'>", b"<meta http-equiv=content-type content=charset=utf-8>",
          b"<meta content=charset=utf-8 http-equiv=content-type>", b"<meta charset= utf-8 >", b"<meta charset = 'utf-8' >",
          # quotes inside the content value: matched, unmatched (no declaration), mixed, empty
          b'<meta http-equiv="Content-Type" content="text/html; charset=\'utf-8">', b"<meta http-equiv=content-type content='text/html; charset=\"koi8-r'>",
          b'<meta http-equiv=content-type content="charset=\'utf-8\' x">', b'<meta http-equiv=content-type content="charset=\'\'">',
          b"<meta http-equiv=content-type content='charset=\"utf-8 koi8-r\"'>", b'<meta content="charset = \'big5" http-equiv=content-type>',
          b'<meta http-equiv=content-type content="charset=\'utf-8\'koi8-r">', b'<meta http-equiv=content-type content="charset=\' utf-8 \'">']


def prescan_inputs(ctx):
    out = []
    thorough = ctx.tier == "thorough"
    L = 6 if thorough else 4
    for n in range(0, L + 1):
        if n <= 4:
            seqs = itertools.product(META_TOK, repeat=n)
        else:
            seqs = (tuple(ctx.rng.choice(META_TOK) for _ in range(n)) for _ in range(60000))
        for t in seqs:
            body = b"".join(t)
            out.append((b"<meta " + body, "tok-meta"))
            if n <= 3 or thorough:
                out.append((b"<meta " + body + b">", "tok-meta"))
    for n in range(0, (5 if thorough else 4) + 1):
        for t in itertools.product(PRAGMA_TOK, repeat=n):
            if n == 4 and not thorough and ctx.rng.random() < 0.6:
                continue
            out.append((b"<meta http-equiv=content-type " + b"".join(t) + b">", "tok-pragma"))
    for n in range(0, (6 if thorough else 4) + 1):
        for t in itertools.product(SOUP, repeat=n):
            out.append((b"".join(t) + b"<meta charset=utf-8>", "soup-before-meta"))
    for _ in range(ctx.scale(4000, 80000)):
        out.append((b"".join(ctx.rng.choice(FRAG) for _ in range(ctx.rng.randint(1, 12))), "frag"))
    for _ in range(ctx.scale(4000, 80000)):
        t = bytearray(ctx.rng.choice(TEMPLATES))
        for _ in range(ctx.rng.randint(1, 3)):
            k = ctx.rng.randrange(len(t) + 1)
            r = ctx.rng.random()
            ins = ctx.rng.choice(FRAG)
            if r < 0.5:
                t[k:k] = ins
            elif r < 0.8 and k < len(t):
                del t[k]
            else:
                t[k:k + 1] = ins
        pre = ctx.rng.choice([b"", b"<a>", b"<!-- x -->", b"<", b"</x>", b"<!x>", b"<p a=b c>", b"</", b'</a b=">"'])
        post = ctx.rng.choice([b"", b">", b" ", b"<meta charset=big5>"])
        out.append((pre + bytes(t) + post, "mutated"))
    # every label of the Encoding standard's table (so every encoding, all UTF-16 flavours and aliases), as
    # charset= and as http-equiv/content declaration, plain and with upper case / padding
    from webencodings.labels import LABELS
    for lab in sorted(LABELS):
        lb = lab.encode("ascii")
        out.append((b"<meta charset=" + lb + b">", "label-charset"))
        out.append((b'<meta http-equiv="Content-Type" content="text/html; charset=' + lb + b'">', "label-pragma"))
        out.append((b"<meta content='text/html;charset=" + lb + b"' http-equiv=content-type>", "label-pragma"))
        out.append((b'<META CHARSET=" ' + lb.upper() + b'\t">', "label-charset"))
    for p in PROBES + TEMPLATES:
        out.append((p, "probe"))
        out.append((b"<!doctype html><html><head><title>x</title>" + p + b"</head>", "probe"))
    # meta at offsets 0, 1000..1030 (the 1024-byte window), behind comments / bogus tags
    for off in [0] + list(range(1000, 1031)):
        for pad in (b" ", b"x"):
            for m in (b"<meta charset=utf-8>", b'<meta http-equiv="Content-Type" content="text/html; charset=koi8-r">'):
                out.append((pad * off + m, "offset"))
        c = b"<!--" + b"-" * max(off - 7, 0) + b"-->"
        out.append((c + b"<meta charset=utf-8>", "offset-comment"))
        out.append((b"<a " + b"b " * (off // 2) + b">" + b"<meta charset=utf-8>", "offset-tag"))
    return out


def bodies(ctx):
    pad = b"<!-- " + b"p" * 1030 + b" -->"
    return [b"", b"x", b"<meta charset=big5>x", b"<meta charset=utf-16>x", b"<meta charset=bogus>",
            b"<meta charset=utf-16be>x", b"<meta charset=unicodefffe>", b"<meta charset=ucs-2>x",
            b'<meta http-equiv=content-type content="text/html; charset=UTF-16BE">',
            b'<meta http-equiv=content-type content="text/html; charset=csunicode">',
            b"<meta charset=iso-10646-ucs-2><meta charset=koi8-r>",
            b'<meta http-equiv=content-type content="text/html; charset=shift_jis">', pad + b"<meta charset=big5>",
            b"<title>t</title>" + b" " * 1000 + b"<meta charset=gbk>", b"\x00\x00\x00", b"a\xe9b"]


# ------------------------------------------------------------------------------------------------------------------
def correspondence(ctx):
    reqs, reals = [], []

    def add(op, rq, real, nt=True, sample=None, src=None):
        reqs.append(rq)
        reals.append(real)
        ctx.case(op, rq, nontrivial=nt, sample=sample)
        if src:
            ctx.count(src)

    # --- determineEncoding
    dets = []
    bs = bodies(ctx)
    for args in all_assignments():
        for body in (bs[0], bs[2]):
            dets.append((body, args, "none"))
    for bom in BOMS:
        if bom == "none":
            continue
        for args in all_assignments():
            if ctx.tier == "thorough" or ctx.rng.random() < 0.06:
                dets.append((BOMS[bom] + ctx.rng.choice(bs), args, bom))
    for body in bs:
        for bom in BOMS:
            for args in ({}, {"override": "koi8-r"}, {"likely": "utf-16"}, {"parent": "utf-16be", "default": None},
                         {"transport": " KOI8-R\t"}, {"default": "bogus"}, {"override": "\ud800"}, {"default": "x-user-defined"}):
                full = dict.fromkeys(ARGN[:4])
                full["default"] = "windows-1252"
                full.update(args)
                dets.append((BOMS[bom] + body, full, bom))
    for short in (b"\xff", b"\xff\xfe", b"\xfe\xff", b"\xef\xbb", b"\xef\xbb\xbf", b"\xff\xfe\x00", b"\x00\x00\xfe", b"\xff\xfea"):
        dets.append((short, dict(dict.fromkeys(ARGN[:4]), default="windows-1252"), "short"))
    for data, args, bom in dets:
        rq = "enc:determine %s %s" % (eb(data), args_words(args))
        add("enc:determine", rq, real_determine(data, args), nt=(bom != "none" or any(args[n] for n in ARGN[:4])),
            src="determine:bom-" + bom)
    ctx.determine_cases = dets
    # --- prescan
    pres = prescan_inputs(ctx)
    seen = set()
    ctx.prescan_cases = []
    for data, src in pres:
        if data in seen:
            continue
        seen.add(data)
        ctx.prescan_cases.append(data)
        real = real_prescan(data)
        add("enc:prescan", "enc:prescan " + eb(data), real, nt=(real != "ok ~"),
            sample=repr(data) + " -> " + repr(dec_ostr(real.split()[1])) if real not in ("ok ~",) and len(data) < 70 else None,
            src="prescan:" + src)
    # --- ContentAttrParser
    for n in range(0, ctx.scale(5, 6) + 1):
        for t in itertools.product(CONTENT_TOK, repeat=n):
            if n >= 5 and ctx.rng.random() < (0.9 if ctx.tier != "thorough" else 0.5):
                continue
            data = b"".join(t)
            real = real_content(data)
            add("enc:content", "enc:content " + eb(data), real, nt=(real != "ok ~"))
    # --- lookupEncoding
    from webencodings.labels import LABELS
    labs = sorted(LABELS)
    for lab in labs + ["bogus", "", "utf8 x", "utf-32", "utf-32le", "K", "utf-8\x00", "\ud800", " \ud800 ", "utf‐ 8", "é"]:
        variants = {lab, lab.upper(), " " + lab + "\t", "\n\x0c" + lab.title() + "\r ", lab + "\x0b", "\xa0" + lab}
        for v in sorted(variants):
            add("enc:lookup", "enc:lookup s " + wire.enc_str(v), real_lookup("s", v))
            if all(ord(c) < 256 for c in v):
                add("enc:lookup", "enc:lookup b " + wire.enc_str(v), real_lookup("b", v))
    # --- changeEncoding / startTagMeta
    for cur in ("windows-1252", "utf-8", "koi8-r", "utf-16le"):
        for conf in ("t", "c"):
            for kind, label in [("n", ""), ("s", "utf-8"), ("s", "UTF-16"), ("s", "utf-16be"), ("s", "koi8-r"), ("s", "bogus"),
                                ("b", "utf-8"), ("b", "koi8-r"), ("b", "utf-16le"), ("b", "\xe9"), ("s", ""), ("b", ""),
                                ("s", " Windows-1252 "), ("s", "x-user-defined"), ("s", "\ud800")]:
                add("enc:change", "enc:change %s %s %s %s" % (wire.enc_str(cur), conf, kind, wire.enc_str(label)),
                    real_change(cur, conf, kind, label))
    attr_pool = [("charset", "utf-8"), ("charset", ""), ("content", "text/html; charset=koi8-r"), ("content", "charset = 'big5'"),
                 ("content", "text/html"), ("http-equiv", "Content-Type"), ("http-equiv", "content-type"), ("http-equiv", "refresh"),
                 ("http-equiv", "CONTENT-TİPE"), ("content", "charset=€ x"), ("name", "x"), ("content", "CHARSET=UTF-8;"),
                 ("http-equiv", "Kontent-type"), ("content", "charset=\ud800")]
    for conf in ("t", "c"):
        for n in range(0, 4):
            for combo in itertools.permutations(attr_pool, n) if n <= 2 else \
                    (tuple(ctx.rng.sample(attr_pool, 3)) for _ in range(ctx.scale(300, 3000))):
                if len({k for k, _ in combo}) != len(combo):
                    continue
                rq = "enc:latemeta %s %s" % (conf, wire.enc_list("%s %s" % (wire.enc_str(k), wire.enc_str(v)) for k, v in combo))
                add("enc:latemeta", rq, real_latemeta(conf, list(combo)))
    if ctx.driver_ok:
        ctx.compare("enc", reqs, reals, lean.run_driver(reqs))


# ------------------------------------------------------------------------------------------------------------------
# oracle
def spec_prescan_batch(datas, flags=None):
    if flags is None:
        reqs = ["enc:specprescan " + eb(d) for d in datas]
    else:
        fw = " ".join("1" if f in flags else "0" for f in FLAGS)
        reqs = ["enc:specprescan:dev %s %s" % (fw, eb(d)) for d in datas]
    out = lean.run_driver(reqs) if reqs else []
    return [dec_ostr(w.split()[1]) for w in out]


def shrink_prescan(cases):
    """batch greedy byte deletion keeping real != spec"""
    cur = list(cases)
    for _ in range(80):
        cands, idx = [], []
        for i, b in enumerate(cur):
            for k in range(len(b)):
                cands.append(b[:k] + b[k + 1:])
                idx.append(i)
        if not cands:
            break
        sp = spec_prescan_batch(cands)
        done = set()
        for c, i, s in zip(cands, idx, sp):
            if i in done:
                continue
            if real_meta(c) != s:
                cur[i] = c
                done.add(i)
        if not done:
            break
    return cur


def explain_prescan(ctx, diffs, src):
    """diffs: inputs where the real prescan differs from the standard's; attribute each to a minimal set of the
    documented deviations (the Lean Spec with those flags on reproduces the real result)"""
    if not diffs:
        return
    small = sorted(set(shrink_prescan(diffs)))
    todo = list(small)
    explained = {}
    for size in (1, 2, 3):
        if not todo:
            break
        subsets = list(itertools.combinations(FLAGS, size))
        for fs in subsets:
            if not todo:
                break
            sp = spec_prescan_batch(todo, set(fs))
            still = []
            for b, s in zip(todo, sp):
                if s == real_meta(b):
                    explained[b] = fs
                else:
                    still.append(b)
            todo = still
    for b in small:
        inp = {"kind": "prescan", "data": b.decode("latin-1"), "real": real_meta(b), "source": src}
        if b in explained:
            for f in explained[b]:
                ctx.fail("prescan:" + f, "the prescan result differs from the standard's algorithm",
                         dict(inp, deviations=list(explained[b])))
        else:
            ctx.fail("prescan:unexplained", "the prescan result differs from the standard's algorithm and no set of up to "
                     "three documented deviations reproduces it", inp)


def parse_bytes(data, args, tb="etree"):
    import html5lib
    builder = html5lib.getTreeBuilder("etree", fullTree=True)
    p = html5lib.HTMLParser(tree=builder)
    doc = p.parse(data, **{KW[k]: v for k, v in args.items()})
    return trees.from_etree(doc), p.documentEncoding, p.tokenizer.stream.charEncoding[1]


def parse_text(text):
    import html5lib
    builder = html5lib.getTreeBuilder("etree", fullTree=True)
    p = html5lib.HTMLParser(tree=builder)
    return trees.from_etree(p.parse(text))


def spec_bom(data):
    if data[:3] == b"\xef\xbb\xbf":
        return "utf-8", 3
    if data[:2] == b"\xfe\xff":
        return "utf-16be", 2
    if data[:2] == b"\xff\xfe":
        return "utf-16le", 2
    return None, 0


def decode(data, name):
    import webencodings
    return webencodings.lookup(name).codec_info.decode(data, "replace")[0]


def classify_determine(data, args, real, spec):
    """real/spec: (name, conf); the prescan part is explained separately"""
    if data[:4] == b"\xff\xfe\x00\x00" and real[0] != "utf-16le":
        return "bom:utf32le-bom-is-utf16le-bom-plus-nul"
    if real[1] != spec[1] and real[0] == spec[0]:
        return "determine:confidence-differs"
    return "determine:encoding-differs"


def oracle_determine(ctx):
    """initial determination vs the documented precedence (Lean Spec: BOM sniff + prescan + firstSome)"""
    cases = ctx.determine_cases
    reqs = ["enc:specdetermine %s %s" % (eb(d), args_words(a)) for d, a, _ in cases]
    out = lean.run_driver(reqs)
    meta_diffs = []
    for (data, args, bom), line in zip(cases, out):
        real = real_determine(data, args).split()
        if real[0] != "ok":
            if any(v and any(0xD800 <= ord(c) <= 0xDFFF for c in v) for v in args.values()):
                ctx.fail("lookup:surrogate-label-raises", "an encoding argument containing a lone surrogate raises "
                         "UnicodeEncodeError instead of being treated as an unknown label",
                         {"kind": "determine", "data": data.decode("latin-1"), "args": args})
            else:
                ctx.fail("determine-raises:" + real[1], "HTMLBinaryInputStream raised", {"kind": "determine", "data": data.decode("latin-1"), "args": args})
            continue
        w = line.split()
        spec = (dec_ostr(w[1]), w[2])
        r = (dec_ostr(real[1]), real[2])
        ctx.case("oracle:determine", reqs[0], nontrivial=True)
        if r == spec:
            continue
        body = data[spec_bom(data)[1]:]
        sp_meta = spec_prescan_batch([body])[0]
        if spec_bom(data)[0] is None and real_meta(body) != sp_meta and not any(
                lookup_ok(args.get(n)) for n in ("override", "transport")):
            meta_diffs.append(body)
            continue
        ctx.fail(classify_determine(data, args, r, spec), "the encoding chosen differs from the documented precedence",
                 {"kind": "determine", "data": data.decode("latin-1"), "args": args, "real": r, "expected": spec})
    explain_prescan(ctx, meta_diffs, "determine")


def lookup_ok(label):
    import webencodings
    try:
        return label is not None and webencodings.lookup(label) is not None
    except Exception:
        return False


def oracle_prescan(ctx):
    cases = ctx.prescan_cases
    sp = spec_prescan_batch(cases)
    diffs = []
    for b, s in zip(cases, sp):
        ctx.case("oracle:prescan", repr(b), nontrivial=(s is not None))
        try:
            r = real_meta(b)
        except Exception as e:
            ctx.fail("prescan-raises:" + type(e).__name__, "EncodingParser raised", {"kind": "prescan", "data": b.decode("latin-1")})
            continue
        if r != s:
            diffs.append(b)
    ctx.count("prescan-differs-from-standard", len(diffs))
    # explaining is the expensive part (batched shrinking): all probes + a seeded sample
    budget = ctx.scale(140, 4000)
    if len(diffs) > budget:
        short = sorted(diffs, key=len)
        keep = [d for d in diffs if d in PROBES] + short[:budget // 4]
        rest = [d for d in diffs if len(d) < 80 and d not in keep]
        diffs = keep + ctx.rng.sample(rest, min(len(rest), budget - len(keep)))
    explain_prescan(ctx, diffs, "prescan")
    # conformance of the reference configured like the current library (CURRENT_DEV): it must reproduce the real prescan
    cur = spec_prescan_batch(cases, CURRENT_DEV) if CURRENT_DEV else sp
    for b, s in zip(cases, cur):
        if real_meta(b) != s and b not in diffs:
            ctx.fail("prescan:not-covered-by-documented-deviations", "the reference with the library's documented deviations "
                     "differs from the real prescan", {"kind": "prescan", "data": b.decode("latin-1"), "real": real_meta(b), "spec+dev": s})


LATE_LABELS = ["utf-8", "koi8-r", "utf-16", "utf-16le", "UTF-16BE", "bogus", "windows-1252", "x-user-defined", "big5", " latin1 "]


def expected_late(cur, label):
    """HTML standard, 'changing the encoding while parsing' (new encoding from a meta met by the tree builder)"""
    import webencodings
    e = webencodings.lookup(label)
    if e is None:
        return cur, "tentative"          # not an encoding label: "change the encoding" is not invoked
    if cur in ("utf-16le", "utf-16be"):
        return cur, "certain"
    new = e.name
    if new in ("utf-16le", "utf-16be"):
        new = "utf-8"
    if new == "x-user-defined":
        new = "windows-1252"
    return new, "certain"


def oracle_late(ctx):
    pad = b"<!doctype html><html><head><title>t</title><!-- " + b"p" * 1100 + b" -->"
    forms = [lambda l: b"<meta charset=" + l + b">",
             lambda l: b'<meta http-equiv="Content-Type" content="text/html; charset=' + l + b'">',
             lambda l: b"<meta content='text/html;charset=" + l + b"' http-equiv=content-type>"]
    for label in LATE_LABELS:
        for fi, form in enumerate(forms):
            for args in ({}, {"likely": "koi8-r"}, {"default": "utf-8"}, {"override": "koi8-r"}, {"transport": "big5"},
                         {"parent": "windows-1252"}):
                data = pad + form(label.encode("ascii")) + b"</head><body>\xe9\xc1</body>"
                run_late(ctx, data, args, label, "late-form%d" % fi)
    # the standard's in-head rule: "if the element has a charset attribute AND getting an encoding from its value results in an
    # encoding ... change the encoding; OTHERWISE, if it has http-equiv=content-type and a content attribute that yields an
    # encoding ... change the encoding" - a charset attribute that names no encoding does not suppress the pragma
    for bad in (b"charset=bogus", b'charset=""', b"charset"):
        for label in ("koi8-r", "utf-8", "bogus"):
            for args in ({}, {"likely": "iso-8859-2"}):
                data = pad + b"<meta " + bad + b' http-equiv="Content-Type" content="text/html; charset=' + label.encode("ascii") + \
                    b'"></head><body>\xe9\xc1</body>'
                run_late(ctx, data, args, label, "late-pragma-after-invalid-charset")
    # a late declaration under a tentative UTF-16 (likely_encoding): the standard keeps UTF-16
    text = (pad + b"<meta charset=koi8-r></head><body>x</body>").decode("ascii")
    run_late(ctx, text.encode("utf-16le"), {"likely": "utf-16le"}, "koi8-r", "late-under-utf16")
    # tentative UTF-16 (both flavours, via likely_encoding / default_encoding), bytes really UTF-16 encoded, and a
    # <meta> declaring UTF-16 (matching / other flavour / generic labels) that the byte-level prescan cannot see -
    # inside and after the first 1024 bytes.  Property clause: a declared UTF-16 in <meta> means UTF-8.
    for cur in ("utf-16le", "utf-16be"):
        for argname in ("likely", "default"):
            for label in ("utf-16", "utf-16le", "utf-16be", "unicode", "UTF-16BE ", "koi8-r", "bogus"):
                for npad in (3, 600):
                    for fi, form in enumerate(forms[:2]):
                        doc = (b"<!doctype html><html><head><title>t</title><!-- " + b"p" * npad + b" -->" +
                               form(label.encode("ascii")) + b"</head><body>caf\xc3\xa9 x</body>").decode("utf-8")
                        run_late(ctx, doc.encode(cur), {argname: cur}, label, "late-utf16-doc-form%d" % fi)


def run_late(ctx, data, args, label, src):
    full = dict.fromkeys(ARGN[:4])
    full["default"] = "windows-1252"
    full.update(args)
    d0 = real_determine(data, full).split()
    cur, conf = dec_ostr(d0[1]), d0[2]
    ctx.case("oracle:late", repr((data[-80:], sorted(args.items()))), nontrivial=True)
    try:
        tree, final, fconf = parse_bytes(data, full)
    except Exception as e:
        ctx.fail("late-meta-raises:" + type(e).__name__, "parse raised", {"kind": "late", "data": data.decode("latin-1"), "args": full, "label": label})
        return
    if conf == "certain":
        if (final, fconf) != (cur, "certain"):
            ctx.fail("certain-encoding-changed", "a certain encoding was changed by document content",
                     {"kind": "late", "data": data.decode("latin-1"), "args": full, "label": label, "initial": cur, "final": final})
        return
    exp = expected_late(cur, label)
    lit = literal_late(cur, label)
    inp = {"kind": "late", "data": data.decode("latin-1"), "args": full, "label": label, "initial": (cur, conf),
           "final": (final, fconf), "expected": exp, "source": src}
    if (final, fconf) != exp:
        import webencodings
        e = webencodings.lookup(label)
        # the two recorded defects are kept narrow: the result must be exactly what the recorded defect predicts
        # (changeEncoding applied literally: no "a UTF-16 document keeps its encoding", no x-user-defined mapping)
        if cur in ("utf-16le", "utf-16be") and (final, fconf) == lit:
            cls = "late-meta:changes-a-tentative-utf16"
        elif e is not None and e.name in ("utf-16le", "utf-16be") and (final, fconf) == (cur, conf):
            cls = "late-meta:utf16-ignored"
        elif e is not None and e.name == "x-user-defined" and (final, fconf) == lit:
            cls = "late-meta:x-user-defined-not-mapped"
        else:
            cls = "late-meta:final-encoding-differs"
            # recorded only when the defect explains everything: nothing was changed, and the same element WITHOUT its
            # charset attribute gives exactly the expected result
            m = re.search(rb"<meta (charset=bogus|charset=\"\"|charset) http-equiv", data)
            if m and (final, fconf) == (cur, conf):
                try:
                    _, f2, c2 = parse_bytes(data[:m.start()] + b"<meta http-equiv" + data[m.end():], full)
                    if (f2, c2) == exp:
                        cls = "late-meta:pragma-ignored-after-charset-attribute-without-encoding"
                except Exception:
                    pass
        ctx.fail(cls, "after a <meta> declaration met during tree construction the reported encoding differs from the "
                 "standard's 'changing the encoding while parsing'", inp)
    # the property's clause "a declared UTF-16 in <meta> means UTF-8": unless the document is itself being read as
    # UTF-16 (then it keeps its encoding, repair COMMIT_late-under-utf16), a declaration of UTF-16 that is acted upon
    # must never leave a UTF-16 encoding reported
    import webencodings
    e = webencodings.lookup(label)
    if e is not None and e.name in ("utf-16le", "utf-16be") and cur not in ("utf-16le", "utf-16be") \
            and final in ("utf-16le", "utf-16be"):
        ctx.fail("late-meta:declared-utf16-not-taken-as-utf8", "a <meta> declaring UTF-16 left a UTF-16 encoding reported "
                 "instead of being taken as UTF-8", dict(inp, expected=lit))
    # documentEncoding reports the encoding finally used: the tree is the tree of the bytes decoded with it
    try:
        text = decode(data, final)
        ref = parse_text(text)
    except Exception:
        return
    if tree != ref:
        ctx.fail(classify_tree(data, full, final, data, text, tree), "the tree differs from the tree of the bytes decoded "
                 "with the reported encoding (late <meta>)", {"kind": "tree", "data": data.decode("latin-1"), "args": full,
                                                              "reported": final, "source": src})


def literal_late(cur, label):
    """what html5lib's changeEncoding does read literally (the property's wording): unknown label - nothing; a declared
    UTF-16 means UTF-8; the current encoding - just certain; otherwise restart with the declared encoding"""
    import webencodings
    e = webencodings.lookup(label)
    if e is None:
        return cur, "tentative"
    new = "utf-8" if e.name in ("utf-16le", "utf-16be") else e.name
    return new, "certain"


TREE_DOCS = [b"<p>caf\xe9</p>", b"<p>\xc1\xc2\xc3</p>", b"<title>\x93x\x94</title>", b"a\xe2\x82\xacb", b"a\xe2\x82", b"\xe2\x82",
             b"<p>\x81\x40\x82\xa0</p>", b"<p>\x82</p>", b"x\x00y", b"<p>a\r\nb</p>", b"\xf0\x9f\x98\x80", b"\xf0\x9f\x98", b"<b>\xff\xfe</b>",
             b"<p>\xa4\xa2</p>\xa4", b"\x1b$B", b"\x1b$\xac\x81  $\x00\x00", b"ab", b"a", b""]


def oracle_tree(ctx):
    """tree(parse(bytes, args)) == tree(parse(bytes after the BOM decoded with the reported encoding))"""
    metas = [b"", b"<meta charset=koi8-r>", b"<meta charset=utf-8>", b"<meta charset=shift_jis>", b"<meta charset=utf-16>",
             b"<meta charset=hz-gb-2312>", b"<meta charset=x-user-defined>", b"<meta charset=gbk>", b"<meta charset=euc-jp>"]
    late_pad = b"<!-- " + b"p" * 1100 + b" -->"
    argsets = [{}, {"override": "koi8-r"}, {"transport": "utf-8"}, {"likely": "shift_jis"}, {"default": "utf-8"},
               {"parent": "utf-16"}, {"override": "utf-16le"}, {"default": "gbk"}, {"override": "utf-8"},
               {"likely": "big5"}, {"transport": "euc-kr"}, {"override": "iso-2022-jp"}, {"default": "replacement"},
               {"override": "x-user-defined"}, {"transport": "hz-gb-2312"}]
    cases = []
    for doc in TREE_DOCS:
        for m in metas:
            for a in argsets:
                for bom in ("none", "utf-8", "utf-16le", "utf-16be", "utf-32le", "utf-32be"):
                    cases.append((BOMS[bom] + m + doc, a))
                cases.append((late_pad + m + doc, a))
    if ctx.tier != "thorough":
        cases = ctx.rng.sample(cases, min(len(cases), 2500))
    for _ in range(ctx.scale(300, 6000)):
        n = ctx.rng.randint(0, 12)
        doc = bytes(ctx.rng.choice([0x3c, 0x3e, 0x61, 0x20, 0x80, 0x81, 0xe9, 0xa4, 0xe2, 0x82, 0xac, 0xf0, 0x9f, 0x1b, 0x24, 0x00, 0xff, 0xfe, 0x0d, 0x0a])
                    for _ in range(n))
        cases.append((ctx.rng.choice(list(BOMS.values())) + ctx.rng.choice(metas) + doc, ctx.rng.choice(argsets)))
    for data, a in cases:
        full = dict.fromkeys(ARGN[:4])
        full["default"] = "windows-1252"
        full.update(a)
        ctx.case("oracle:tree", repr((data, sorted(a.items()))), nontrivial=True)
        try:
            tree, final, fconf = parse_bytes(data, full)
        except Exception as e:
            ctx.fail(classify_raise(e), "parse of a byte string raised",
                     {"kind": "tree", "data": data.decode("latin-1"), "args": full, "exc": str(e)[:200]})
            continue
        body = data[spec_bom(data)[1]:]
        try:
            text = decode(body, final)
            ref = parse_text(text)
        except Exception as e:
            continue
        if tree != ref:
            ctx.fail(classify_tree(data, full, final, body, text, tree), "the tree differs from the tree of the bytes decoded with the "
                     "reported encoding", {"kind": "tree", "data": data.decode("latin-1"), "args": full, "reported": final})


def classify_raise(e):
    if isinstance(e, UnicodeError) and "pending buffer overflow" in str(e):
        # CPython's C multibyte incremental decoders (iso-2022-*) raise this for a long invalid escape sequence
        return "decode:multibyte-streamreader-raises-pending-buffer-overflow"
    return "parse-bytes-raises:" + type(e).__name__


def classify_tree(data, args, final, body, text, tree):
    import webencodings
    ci = webencodings.lookup(final).codec_info
    # (1) decode level: the same StreamReader class html5lib uses, on the same bytes, explains the tree
    try:
        text2 = ci.streamreader(io.BytesIO(body), "replace").read()
    except Exception:
        text2 = None
    if text2 is not None and text2 != text and parse_text(text2) == tree:
        if final == "x-user-defined":
            return "decode:x-user-defined-streamreader-is-latin1"
        if final == "replacement":
            return "decode:replacement-streamreader-is-latin1"
        if text.startswith(text2):
            return "decode:incomplete-sequence-at-eof-dropped"
        return "decode:streamreader-differs:" + final
    # (2) BOM level
    if data[:4] == BOMS["utf-32le"] and final != "utf-16le":
        return "bom:utf32le-bom-is-utf16le-bom-plus-nul"
    if data[:4] == BOMS["utf-32be"] and any(lookup_ok(args.get(n)) for n in ("override", "transport")):
        return "bom:utf32-bom-bytes-dropped-before-certain-encoding"
    return "tree-differs:" + final


def oracle(ctx):
    oracle_determine(ctx)
    oracle_prescan(ctx)
    oracle_late(ctx)
    oracle_tree(ctx)


def witness_case(ctx, w):
    data = w["data"].encode("latin-1")
    k = w["kind"]
    if k == "prescan":
        sp = spec_prescan_batch([data])[0]
        if real_meta(data) != sp:
            explain_prescan(ctx, [data], "witness")
    elif k == "determine":
        ctx.determine_cases = [(data, w["args"], "witness")]
        oracle_determine(ctx)
    elif k == "late":
        run_late(ctx, data, w["args"], w["label"], "witness")
    elif k == "tree":
        full = w["args"]
        try:
            tree, final, fconf = parse_bytes(data, full)
        except Exception as e:
            ctx.fail(classify_raise(e), "parse of a byte string raised", dict(w, exc=str(e)[:200]))
            return
        body = data[spec_bom(data)[1]:]
        text = decode(body, final)
        if tree != parse_text(text):
            ctx.fail(classify_tree(data, full, final, body, text, tree), "the tree differs from the tree of the bytes decoded with "
                     "the reported encoding", dict(w, reported=final))


# witnesses of repaired defects (known_findings.json "fixed"): replayed on every run and EXPECTED TO PASS; if one of
# the defects returns, its class is no longer a known finding and the check reports a VIOLATION with this input
REGRESSIONS = [
    {
        "kind": "determine",
        "data": "\u00ff\u00fe\u0000\u0000a\u0000",
        "args": {
            "override": None,
            "transport": None,
            "parent": None,
            "likely": None,
            "default": "windows-1252"
        }
    },
    {
        "kind": "tree",
        "data": "\u0000\u0000\u00fe\u00ffabc",
        "args": {
            "override": "utf-8",
            "transport": None,
            "parent": None,
            "likely": None,
            "default": "windows-1252"
        }
    },
    {
        "kind": "late",
        "data": "<!doctype html><html><head><title>t</title><!-- pppppppppppppppppppppppppppppppppppppppppppppppppppppppppppppppppppppppppppppppppppppppppppppppppppppppppppppppppppppppppppppppppppppppppppppppppppppppppppppppppppppppppppppppppppppppppppppppppppppppppppppppppppppppppppppppppppppppppppppppppppppppppppppppppppppppppppppppppppppppppppppppppppppppppppppppppppppppppppppppppppppppppppppppppppppppppppppppppppppppppppppppppppppppppppppppppppppppppppppppppppppppppppppppppppppppppppppppppppppppppppppppppppppppppppppppppppppppppppppppppppppppppppppppppppppppppppppppppppppppppppppppppppppppppppppppppppppppppppppppppppppppppppppppppppppppppppppppppppppppppppppppppppppppppppppppppppppppppppppppppppppppppppppppppppppppppppppppppppppppppppppppppppppppppppppppppppppppppppppppppppppppppppppppppppppppppppppppppppppppppppppppppppppppppppppppppppppppppppppppppppppppppppppppppppppppppppppppppppppppppppppppppppppppppppppppppppppppppppppppppppppppppppppppppppppppppppppppppppppppppppppppppppppppppppppppppppppppppppppppppppppppppppppppppppppppppppppppppppppppppppppppppppppppppppppppppppppppppppppppppppppppppppppppppppppppppppppppppppppppppppppppppppppppppppp --><meta charset=utf-16></head><body>\u00e9\u00c1</body>",
        "args": {
            "override": None,
            "transport": None,
            "parent": None,
            "likely": None,
            "default": "windows-1252"
        },
        "label": "utf-16"
    },
    {
        "kind": "determine",
        "data": "",
        "args": {
            "override": "\ud800",
            "transport": None,
            "parent": None,
            "likely": None,
            "default": "windows-1252"
        }
    }
] + [
    {
        "kind": "prescan",
        "data": "<meta charset=bogus charset=utf-8>"
    },
    {
        "kind": "prescan",
        "data": "<meta/charset=utf-8>"
    },
    {
        "kind": "prescan",
        "data": "<meta charset=x-user-defined>"
    },
    {
        "kind": "prescan",
        "data": "<!--><meta charset=utf-8>"
    },
    {
        "kind": "prescan",
        "data": "<<meta charset=utf-8>"
    },
    {
        "kind": "prescan",
        "data": "<a<meta charset=utf-8>"
    },
    {
        "kind": "prescan",
        "data": "<meta charset=utf-8 "
    },
    {
        "kind": "prescan",
        "data": "</a b='><meta charset=utf-8>'>"
    },
    {
        "kind": "prescan",
        "data": "<meta http-equiv=content-type content='charset charset=utf-8'>"
    },
    {
        "kind": "prescan",
        "data": "<meta http-equiv=content-type content=charset=utf-8;>"
    },
    {
        "kind": "late",
        "data": "<!doctype html><html><head><title>t</title><!-- pppppppppppppppppppppppppppppppppppppppppppppppppppppppppppppppppppppppppppppppppppppppppppppppppppppppppppppppppppppppppppppppppppppppppppppppppppppppppppppppppppppppppppppppppppppppppppppppppppppppppppppppppppppppppppppppppppppppppppppppppppppppppppppppppppppppppppppppppppppppppppppppppppppppppppppppppppppppppppppppppppppppppppppppppppppppppppppppppppppppppppppppppppppppppppppppppppppppppppppppppppppppppppppppppppppppppppppppppppppppppppppppppppppppppppppppppppppppppppppppppppppppppppppppppppppppppppppppppppppppppppppppppppppppppppppppppppppppppppppppppppppppppppppppppppppppppppppppppppppppppppppppppppppppppppppppppppppppppppppppppppppppppppppppppppppppppppppppppppppppppppppppppppppppppppppppppppppppppppppppppppppppppppppppppppppppppppppppppppppppppppppppppppppppppppppppppppppppppppppppppppppppppppppppppppppppppppppppppppppppppppppppppppppppppppppppppppppppppppppppppppppppppppppppppppppppppppppppppppppppppppppppppppppppppppppppppppppppppppppppppppppppppppppppppppppppppppppppppppppppppppppppppppppppppppppppppppppppppppppppppppppppppppppppppppppppppppppppppppppppppppppppppppppppppppp --><meta charset=x-user-defined></head><body>\u00e9\u00c1</body>",
        "args": {
            "override": None,
            "transport": None,
            "parent": None,
            "likely": None,
            "default": "windows-1252"
        },
        "label": "x-user-defined"
    },
    {
        "kind": "late",
        "data": "<\u0000!\u0000d\u0000o\u0000c\u0000t\u0000y\u0000p\u0000e\u0000 \u0000h\u0000t\u0000m\u0000l\u0000>\u0000<\u0000h\u0000t\u0000m\u0000l\u0000>\u0000<\u0000h\u0000e\u0000a\u0000d\u0000>\u0000<\u0000t\u0000i\u0000t\u0000l\u0000e\u0000>\u0000t\u0000<\u0000/\u0000t\u0000i\u0000t\u0000l\u0000e\u0000>\u0000<\u0000!\u0000-\u0000-\u0000 \u0000p\u0000p\u0000p\u0000p\u0000p\u0000p\u0000p\u0000p\u0000p\u0000p\u0000p\u0000p\u0000p\u0000p\u0000p\u0000p\u0000p\u0000p\u0000p\u0000p\u0000p\u0000p\u0000p\u0000p\u0000p\u0000p\u0000p\u0000p\u0000p\u0000p\u0000p\u0000p\u0000p\u0000p\u0000p\u0000p\u0000p\u0000p\u0000p\u0000p\u0000p\u0000p\u0000p\u0000p\u0000p\u0000p\u0000p\u0000p\u0000p\u0000p\u0000p\u0000p\u0000p\u0000p\u0000p\u0000p\u0000p\u0000p\u0000p\u0000p\u0000p\u0000p\u0000p\u0000p\u0000p\u0000p\u0000p\u0000p\u0000p\u0000p\u0000p\u0000p\u0000p\u0000p\u0000p\u0000p\u0000p\u0000p\u0000p\u0000p\u0000p\u0000p\u0000p\u0000p\u0000p\u0000p\u0000p\u0000p\u0000p\u0000p\u0000p\u0000p\u0000p\u0000p\u0000p\u0000p\u0000p\u0000p\u0000p\u0000p\u0000p\u0000p\u0000p\u0000p\u0000p\u0000p\u0000p\u0000p\u0000p\u0000p\u0000p\u0000p\u0000p\u0000p\u0000p\u0000p\u0000p\u0000p\u0000p\u0000p\u0000p\u0000p\u0000p\u0000p\u0000p\u0000p\u0000p\u0000p\u0000p\u0000p\u0000p\u0000p\u0000p\u0000p\u0000p\u0000p\u0000p\u0000p\u0000p\u0000p\u0000p\u0000p\u0000p\u0000p\u0000p\u0000p\u0000p\u0000p\u0000p\u0000p\u0000p\u0000p\u0000p\u0000p\u0000p\u0000p\u0000p\u0000p\u0000p\u0000p\u0000p\u0000p\u0000p\u0000p\u0000p\u0000p\u0000p\u0000p\u0000p\u0000p\u0000p\u0000p\u0000p\u0000p\u0000p\u0000p\u0000p\u0000p\u0000p\u0000p\u0000p\u0000p\u0000p\u0000p\u0000p\u0000p\u0000p\u0000p\u0000p\u0000p\u0000p\u0000p\u0000p\u0000p\u0000p\u0000p\u0000p\u0000p\u0000p\u0000p\u0000p\u0000p\u0000p\u0000p\u0000p\u0000p\u0000p\u0000p\u0000p\u0000p\u0000p\u0000p\u0000p\u0000p\u0000p\u0000p\u0000p\u0000p\u0000p\u0000p\u0000p\u0000p\u0000p\u0000p\u0000p\u0000p\u0000p\u0000p\u0000p\u0000p\u0000p\u0000p\u0000p\u0000p\u0000p\u0000p\u0000p\u0000p\u0000p\u0000p\u0000p\u0000p\u0000p\u0000p\u0000p\u0000p\u0000p\u0000p\u0000p\u0000p\u0000p\u0000p\u0000p\u0000p\u0000p\u0000p\u0000p\u0000p\u0000p\u0000p\u0000p\u0000p\u0000p\u0000p\u0000p\u0000p\u0000p\u0000p\u0000p\u0000p\u0000p\u0000p\u0000p\u0000p\u0000p\u0000p\u0000p\u0000p\u0000p\u0000p\u0000p\u0000p\u0000p\u0000p\u0000p\u0000p\u0000p\u0000p\u0000p\u0000p\u0000p\u0000p\u0000p\u0000p\u0000p\u0000p\u0000p\u0000p\u0000p\u0000p\u0000p\u0000p\u0000p\u0000p\u0000p\u0000p\u0000p\u0000p\u0000p\u0000p\u0000p\u0000p\u0000p\u0000p\u0000p\u0000p\u0000p\u0000p\u0000p\u0000p\u0000p\u0000p\u0000p\u0000p\u0000p\u0000p\u0000p\u0000p\u0000p\u0000p\u0000p\u0000p\u0000p\u0000p\u0000p\u0000p\u0000p\u0000p\u0000p\u0000p\u0000p\u0000p\u0000p\u0000p\u0000p\u0000p\u0000p\u0000p\u0000p\u0000p\u0000p\u0000p\u0000p\u0000p\u0000p\u0000p\u0000p\u0000p\u0000p\u0000p\u0000p\u0000p\u0000p\u0000p\u0000p\u0000p\u0000p\u0000p\u0000p\u0000p\u0000p\u0000p\u0000p\u0000p\u0000p\u0000p\u0000p\u0000p\u0000p\u0000p\u0000p\u0000p\u0000p\u0000p\u0000p\u0000p\u0000p\u0000p\u0000p\u0000p\u0000p\u0000p\u0000p\u0000p\u0000p\u0000p\u0000p\u0000p\u0000p\u0000p\u0000p\u0000p\u0000p\u0000p\u0000p\u0000p\u0000p\u0000p\u0000p\u0000p\u0000p\u0000p\u0000p\u0000p\u0000p\u0000p\u0000p\u0000p\u0000p\u0000p\u0000p\u0000p\u0000p\u0000p\u0000p\u0000p\u0000p\u0000p\u0000p\u0000p\u0000p\u0000p\u0000p\u0000p\u0000p\u0000p\u0000p\u0000p\u0000p\u0000p\u0000p\u0000p\u0000p\u0000p\u0000p\u0000p\u0000p\u0000p\u0000p\u0000p\u0000p\u0000p\u0000p\u0000p\u0000p\u0000p\u0000p\u0000p\u0000p\u0000p\u0000p\u0000p\u0000p\u0000p\u0000p\u0000p\u0000p\u0000p\u0000p\u0000p\u0000p\u0000p\u0000p\u0000p\u0000p\u0000p\u0000p\u0000p\u0000p\u0000p\u0000p\u0000p\u0000p\u0000p\u0000p\u0000p\u0000p\u0000p\u0000p\u0000p\u0000p\u0000p\u0000p\u0000p\u0000p\u0000p\u0000p\u0000p\u0000p\u0000p\u0000p\u0000p\u0000p\u0000p\u0000p\u0000p\u0000p\u0000p\u0000p\u0000p\u0000p\u0000p\u0000p\u0000p\u0000p\u0000p\u0000p\u0000p\u0000p\u0000p\u0000p\u0000p\u0000p\u0000p\u0000p\u0000p\u0000p\u0000p\u0000p\u0000p\u0000p\u0000p\u0000p\u0000p\u0000p\u0000p\u0000p\u0000p\u0000p\u0000p\u0000p\u0000p\u0000p\u0000p\u0000p\u0000p\u0000p\u0000p\u0000p\u0000p\u0000p\u0000p\u0000p\u0000p\u0000p\u0000p\u0000p\u0000p\u0000p\u0000p\u0000p\u0000p\u0000p\u0000p\u0000p\u0000p\u0000p\u0000p\u0000p\u0000p\u0000p\u0000p\u0000p\u0000p\u0000p\u0000p\u0000p\u0000p\u0000p\u0000p\u0000p\u0000p\u0000p\u0000p\u0000p\u0000p\u0000p\u0000p\u0000p\u0000p\u0000p\u0000p\u0000p\u0000p\u0000p\u0000p\u0000p\u0000p\u0000p\u0000p\u0000p\u0000p\u0000p\u0000p\u0000p\u0000p\u0000p\u0000p\u0000p\u0000p\u0000p\u0000p\u0000p\u0000p\u0000p\u0000p\u0000p\u0000p\u0000p\u0000p\u0000p\u0000p\u0000p\u0000p\u0000p\u0000p\u0000p\u0000p\u0000p\u0000p\u0000p\u0000p\u0000p\u0000p\u0000p\u0000p\u0000p\u0000p\u0000p\u0000p\u0000p\u0000p\u0000p\u0000p\u0000p\u0000p\u0000p\u0000p\u0000p\u0000p\u0000p\u0000p\u0000p\u0000p\u0000p\u0000p\u0000p\u0000p\u0000p\u0000p\u0000p\u0000p\u0000p\u0000p\u0000p\u0000p\u0000p\u0000p\u0000p\u0000p\u0000p\u0000p\u0000p\u0000p\u0000p\u0000p\u0000p\u0000p\u0000p\u0000p\u0000p\u0000p\u0000p\u0000p\u0000p\u0000p\u0000p\u0000p\u0000p\u0000p\u0000p\u0000p\u0000p\u0000p\u0000p\u0000p\u0000p\u0000p\u0000p\u0000p\u0000p\u0000p\u0000p\u0000p\u0000p\u0000p\u0000p\u0000p\u0000p\u0000p\u0000p\u0000p\u0000p\u0000p\u0000p\u0000p\u0000p\u0000p\u0000p\u0000p\u0000p\u0000p\u0000p\u0000p\u0000p\u0000p\u0000p\u0000p\u0000p\u0000p\u0000p\u0000p\u0000p\u0000p\u0000p\u0000p\u0000p\u0000p\u0000p\u0000p\u0000p\u0000p\u0000p\u0000p\u0000p\u0000p\u0000p\u0000p\u0000p\u0000p\u0000p\u0000p\u0000p\u0000p\u0000p\u0000p\u0000p\u0000p\u0000p\u0000p\u0000p\u0000p\u0000p\u0000p\u0000p\u0000p\u0000p\u0000p\u0000p\u0000p\u0000p\u0000p\u0000p\u0000p\u0000p\u0000p\u0000p\u0000p\u0000p\u0000p\u0000p\u0000p\u0000p\u0000p\u0000p\u0000p\u0000p\u0000p\u0000p\u0000p\u0000p\u0000p\u0000p\u0000p\u0000p\u0000p\u0000p\u0000p\u0000p\u0000p\u0000p\u0000p\u0000p\u0000p\u0000p\u0000p\u0000p\u0000p\u0000p\u0000p\u0000p\u0000p\u0000p\u0000p\u0000p\u0000p\u0000p\u0000p\u0000p\u0000p\u0000p\u0000p\u0000p\u0000p\u0000p\u0000p\u0000p\u0000p\u0000p\u0000p\u0000p\u0000p\u0000p\u0000p\u0000p\u0000p\u0000p\u0000p\u0000p\u0000p\u0000p\u0000p\u0000p\u0000p\u0000p\u0000p\u0000p\u0000p\u0000p\u0000p\u0000p\u0000p\u0000p\u0000p\u0000p\u0000p\u0000p\u0000p\u0000p\u0000p\u0000p\u0000p\u0000p\u0000p\u0000p\u0000p\u0000p\u0000p\u0000p\u0000p\u0000p\u0000p\u0000p\u0000p\u0000p\u0000p\u0000p\u0000p\u0000p\u0000p\u0000p\u0000p\u0000p\u0000p\u0000p\u0000p\u0000p\u0000p\u0000p\u0000p\u0000p\u0000p\u0000p\u0000p\u0000p\u0000p\u0000p\u0000p\u0000p\u0000p\u0000p\u0000p\u0000p\u0000p\u0000p\u0000p\u0000p\u0000p\u0000p\u0000p\u0000p\u0000p\u0000p\u0000p\u0000p\u0000p\u0000p\u0000p\u0000p\u0000p\u0000p\u0000p\u0000p\u0000p\u0000p\u0000p\u0000p\u0000p\u0000p\u0000p\u0000p\u0000p\u0000p\u0000p\u0000p\u0000p\u0000p\u0000p\u0000p\u0000p\u0000p\u0000p\u0000p\u0000p\u0000p\u0000p\u0000p\u0000p\u0000p\u0000p\u0000p\u0000p\u0000p\u0000p\u0000p\u0000p\u0000p\u0000p\u0000p\u0000p\u0000p\u0000p\u0000p\u0000p\u0000p\u0000p\u0000p\u0000p\u0000p\u0000p\u0000p\u0000p\u0000p\u0000p\u0000p\u0000p\u0000p\u0000p\u0000p\u0000p\u0000p\u0000p\u0000p\u0000p\u0000p\u0000p\u0000p\u0000p\u0000p\u0000p\u0000p\u0000p\u0000p\u0000p\u0000p\u0000p\u0000p\u0000p\u0000p\u0000p\u0000p\u0000p\u0000p\u0000p\u0000p\u0000p\u0000p\u0000p\u0000p\u0000p\u0000p\u0000p\u0000p\u0000p\u0000p\u0000p\u0000p\u0000p\u0000p\u0000p\u0000p\u0000p\u0000p\u0000p\u0000p\u0000p\u0000p\u0000p\u0000p\u0000p\u0000p\u0000p\u0000p\u0000p\u0000p\u0000p\u0000p\u0000p\u0000p\u0000p\u0000p\u0000p\u0000p\u0000p\u0000p\u0000p\u0000p\u0000p\u0000p\u0000p\u0000p\u0000p\u0000p\u0000p\u0000p\u0000p\u0000p\u0000p\u0000p\u0000p\u0000p\u0000p\u0000p\u0000p\u0000p\u0000p\u0000p\u0000p\u0000p\u0000p\u0000p\u0000p\u0000p\u0000p\u0000p\u0000p\u0000p\u0000p\u0000p\u0000p\u0000p\u0000p\u0000p\u0000p\u0000p\u0000p\u0000p\u0000p\u0000p\u0000p\u0000p\u0000p\u0000p\u0000p\u0000p\u0000p\u0000p\u0000p\u0000p\u0000p\u0000 \u0000-\u0000-\u0000>\u0000<\u0000m\u0000e\u0000t\u0000a\u0000 \u0000c\u0000h\u0000a\u0000r\u0000s\u0000e\u0000t\u0000=\u0000k\u0000o\u0000i\u00008\u0000-\u0000r\u0000>\u0000<\u0000/\u0000h\u0000e\u0000a\u0000d\u0000>\u0000<\u0000b\u0000o\u0000d\u0000y\u0000>\u0000x\u0000<\u0000/\u0000b\u0000o\u0000d\u0000y\u0000>\u0000",
        "args": {
            "override": None,
            "transport": None,
            "parent": None,
            "likely": "utf-16le",
            "default": "windows-1252"
        },
        "label": "koi8-r"
    },
    {
        "kind": "prescan",
        "data": "<meta charset=utf-8 "
    },
    {
        "kind": "prescan",
        "data": "<meta content='charset=koi8-r' charset=big5 http-equiv=content-type>"
    },
    {
        "kind": "prescan",
        "data": "<meta charset=bogus content='charset=koi8-r' http-equiv=content-type>"
    },
    {
        "kind": "prescan",
        "data": "<metax a='<meta charset=utf-8>'>"
    },
    {
        "kind": "prescan",
        "data": "<meta/ charset=utf-8/>"
    },
    {
        "kind": "prescan",
        "data": "<!---><meta charset=utf-8>"
    },
    {
        "kind": "prescan",
        "data": "<a<meta charset=utf-8>"
    },
    {
        "kind": "prescan",
        "data": "<meta charset=utf-8<>"
    },
    {
        "kind": "prescan",
        "data": "</1a b='><meta charset=utf-8>'>"
    },
    {
        "kind": "prescan",
        "data": "<meta http-equiv=content-type content='charset charset=koi8-r'>"
    },
    {
        "kind": "prescan",
        "data": "<meta http-equiv=content-type content=charset=koi8-r;x>"
    },
    {
        "kind": "prescan",
        "data": "<meta http-equiv=x http-equiv=content-type content=charset=koi8-r>"
    },
    {
        "kind": "prescan",
        "data": "<<<meta charset=utf-8>"
    }
]


def regressions(ctx):
    for w in REGRESSIONS:
        witness_case(ctx, w)


def run(ctx):
    regressions(ctx)
    correspondence(ctx)
    oracle(ctx)


def replay(path):
    import json
    print(json.dumps(json.load(open(path)), indent=1)[:4000])
    return 0
