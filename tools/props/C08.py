"""C08 — serializer output is lexically faithful or an error is reported."""
import sys

from h5 import gen, lean, lexical, wire

ID = "C08"
PROPS_MODULE = "H5.Props.C08"
EXTRA_PROPS_MODULES = ["H5.Props.C08b", "H5.Props.C08cAttr", "H5.Props.C08cTag", "H5.Props.C08cMarkup", "H5.Props.C08c"]
GEN_MODULES = ["Serializer", "Constants", "Entities"]
CORRESPONDENCE_OPS = ["ser"]
SOURCES = ["html5lib/serializer.py", "html5lib/constants.py", "html5lib/treewalkers/base.py"]
LEVEL = "proof"
TRUSTED = ["hand model H5.Model.Serializer of HTMLSerializer.serialize (text mode), tied by op ser over option combinations",
           "reference reading of the output: H5.Spec.Tokenizer (WHATWG tokenizer written from the standard) driven by the "
           "known element context (H5.Spec.Retokenize); the switch plan is computed by tools/h5/lexical.py",
           "encode()/htmlentityreplace (output encodings) are covered by C14/C15, not here"]
RULE = ("ser: token streams walked from seeded soup parses (both walkers; foreign content, raw-text, RCDATA) x random option "
        "combinations (orthogonal sample in quick); oracle: when .errors is empty the output re-tokenised in context must "
        "give back tags, attribute names/values, text, comments, doctype; non-trivial = stream has an attribute or text "
        "needing escaping; distinct by (options, stream)")


def real_ser(toks, opts):
    from html5lib.serializer import HTMLSerializer
    s = HTMLSerializer(**opts)
    out = s.render([wire.copy_tok(t) for t in toks])
    return out, list(s.errors)


def retok_request(toks, out, scripting):
    exp, sw = lexical.plan(toks, scripting=scripting)
    text = out.replace("\r\n", "\n").replace("\r", "\n")
    return "retok dataState 0 %s %s" % (wire.enc_list(sw), wire.enc_str(text)), exp


def fails(cases):
    """cases: [(toks, opts, scripting)] -> list of (bool failing, exp, act)"""
    import spec_corr
    reqs, metas = [], []
    res = [None] * len(cases)
    for i, (toks, opts, scripting) in enumerate(cases):
        try:
            out, errs = real_ser(toks, opts)
        except Exception:
            res[i] = (False, None, None)
            continue
        if errs:
            res[i] = (False, None, None)
            continue
        rq, exp = retok_request(toks, out, scripting)
        reqs.append(rq)
        metas.append((i, exp))
    lines = lean.run_driver(reqs, shards=1 if len(reqs) < 400 else None)
    for line, (i, exp) in zip(lines, metas):
        try:
            act = lexical.norm_actual(spec_corr.dec_line(line))
        except Exception:
            act = [("ERR", line[:80])]
        res[i] = (act != exp, exp, act)
    return res


def candidates(toks):
    """streams with one token, one element shell (start+end) or one subtree removed"""
    out = []
    match = {}
    stack = []
    for i, t in enumerate(toks):
        if t["type"] == "StartTag":
            stack.append(i)
        elif t["type"] == "EndTag" and stack:
            match[stack.pop()] = i
    for i, t in enumerate(toks):
        if t["type"] == "StartTag":
            if i in match:
                j = match[i]
                out.append(toks[:i] + toks[j + 1:])                       # whole subtree
                out.append(toks[:i] + toks[i + 1:j] + toks[j + 1:])       # shell only
                if t["data"]:
                    for k in list(t["data"]):
                        t2 = wire.copy_tok(t)
                        del t2["data"][k]
                        out.append(toks[:i] + [t2] + toks[i + 1:])
        elif t["type"] == "EndTag":
            continue
        else:
            out.append(toks[:i] + toks[i + 1:])
            if t["type"] in ("Characters", "SpaceCharacters", "Comment") and len(t["data"]) > 1:
                h = len(t["data"]) // 2
                for part in (t["data"][:h], t["data"][h:]):
                    t2 = dict(t)
                    t2["data"] = part
                    out.append(toks[:i] + [t2] + toks[i + 1:])
    return out


def shrink(toks, opts, scripting):
    for _ in range(40):
        cands = candidates(toks)
        if not cands:
            break
        r = fails([(c, opts, scripting) for c in cands])
        nxt = next((c for c, x in zip(cands, r) if x[0]), None)
        if nxt is None:
            break
        toks = nxt
    return toks


def classify(toks, opts, scripting):
    """class of a MINIMAL failing stream"""
    RAW = {"style", "script", "xmp", "iframe", "noembed", "noframes", "noscript"}
    tags = [t for t in toks if t["type"] in ("StartTag", "EmptyTag")]
    names = [(t.get("namespace"), t.get("name")) for t in tags]
    texts = [t["data"] for t in toks if t["type"] in ("Characters", "SpaceCharacters")]
    if any(any(k[0] is not None for k in t["data"]) for t in tags):
        return "namespaced-attribute-prefix-lost"
    if any("\r" in x for x in texts) or any("\r" in v for t in tags for v in t["data"].values()):
        return "carriage-return-not-escaped"
    if any(n == "noscript" and ns in (None, gen.HTML_NS) for ns, n in names) and len(toks) > 2:
        return "noscript-content-depends-on-reader-scripting"
    from html5lib.constants import booleanAttributes as BA
    if opts.get("minimize_boolean_attributes", True) and any(
            k[1] in BA.get(t["name"], ()) or k[1] in BA.get("", ()) for t in tags for k in t["data"]):
        return "boolean-attribute-value-minimised"
    if any(n in RAW for ns, n in names) and any(t["type"] == "Comment" for t in toks):
        return "comment-child-of-rawtext-element"
    if any(ns not in (None, gen.HTML_NS) and n in RAW for ns, n in names) and texts:
        return "foreign-rawtext-by-bare-name"
    if opts.get("escape_rcdata") and any(n in RAW for ns, n in names) and texts:
        return "escape-rcdata-option-alters-rawtext"
    if any(n == "plaintext" and ns in (None, gen.HTML_NS) for ns, n in names):
        return "plaintext-element"
    if any(t["type"] == "Doctype" for t in toks):
        return "doctype-identifier-or-name-not-representable"
    if any(n == "script" for ns, n in names) and any("<!--" in x for x in texts):
        return "script-double-escaped-state"
    if any(t["type"] == "Comment" for t in toks) and not tags and not texts:
        return "comment-text-not-representable"
    if any("\x00" in x for x in texts):
        return "nul-in-text"
    if any(n in ("textarea", "pre", "listing") for ns, n in names) and any(x.startswith("\n") for x in texts):
        return "leading-newline-in-pre-textarea"
    return "lexical-differs"


def run(ctx):
    sys.path.insert(0, lean.VERIF + "/tools")
    reqs, reals = [], []
    ocases = []
    n = ctx.scale(1500, 40000)
    for i in range(n):
        text = gen.soup(ctx.rng)
        kind = "dom" if i % 3 == 0 else "etree"
        frag = ctx.rng.choice([None, None, "div", "svg", "select"])
        try:
            toks = gen.walk_real(gen.parse_real(text, tb=kind, fragment=frag, full=True), kind)
        except Exception:
            continue
        if i % 7 == 0 and toks:
            toks.insert(ctx.rng.randrange(len(toks) + 1), {"type": "Entity", "name": ctx.rng.choice(["amp", "nbsp", "bogus", "lt"])})
        opts = lexical.random_opts(ctx.rng)
        req = "ser %s %s" % (lexical.opts_word(opts), wire.enc_toks(toks))
        try:
            out, errs = real_ser(toks, opts)
            real = "ok %s %s" % (wire.enc_str(out), wire.enc_list(wire.enc_str(e) for e in errs))
        except Exception as e:
            out, errs = None, None
            real = wire.exc_tag(e)
        reqs.append(req)
        reals.append(real)
        nt = any(t["type"] in ("StartTag", "EmptyTag") and t["data"] for t in toks) or \
            any(t["type"] == "Characters" and any(c in t["data"] for c in "<>&") for t in toks)
        ctx.case("ser", req, nontrivial=nt, sample=req if nt and len(req) < 500 else None)
        if out is not None and not errs and not any(t["type"] == "Entity" for t in toks):
            ocases.append((toks, opts, True, text))
            if any(t.get("name") == "noscript" for t in toks):
                ocases.append((toks, opts, False, text))
    if ctx.driver_ok:
        ctx.compare("ser", reqs, reals, lean.run_driver(reqs))
        res = fails([(t, o, s) for t, o, s, _ in ocases])
        ctx.ops["retok-oracle"] = len(ocases)
        ctx.evaluations += len(ocases)
        budget = ctx.scale(120, 600)
        for (toks, opts, scripting, text), (bad, exp, act) in zip(ocases, res):
            if not bad:
                continue
            if budget <= 0:
                ctx.count("failing-streams-not-shrunk")
                continue
            budget -= 1
            small = shrink(toks, opts, scripting)
            _, exp2, act2 = fails([(small, opts, scripting)])[0]
            cls = classify(small, opts, scripting)
            ctx.fail(cls, "serializer reported no error but its output does not re-tokenise to the tokens it was given",
                     {"input": text, "options": opts, "scripting": scripting, "minimal_tokens": repr(small)[:1200],
                      "expected": repr(exp2)[:500], "retokenised": repr(act2)[:500]})


def witness_case(ctx, w):
    sys.path.insert(0, lean.VERIF + "/tools")
    toks = gen.walk_real(gen.parse_real(w["html"], tb="etree", full=True), "etree")
    opts = dict(w.get("options", {}), omit_optional_tags=False)
    scripting = w.get("scripting", True)
    bad, exp, act = fails([(toks, opts, scripting)])[0]
    if bad:
        small = shrink(toks, opts, scripting)
        ctx.fail(classify(small, opts, scripting), "serializer reported no error but its output does not re-tokenise to the tokens it was given",
                 {"input": w["html"], "options": opts, "scripting": scripting, "minimal_tokens": repr(small)[:800]})


def replay(path):
    import json
    print(json.dumps(json.load(open(path)), indent=1)[:3000])
    return 0
