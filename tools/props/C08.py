"""C08 — serializer output is lexically faithful or an error is reported."""
import sys

from h5 import gen, lean, lexical, wire

ID = "C08"
PROPS_MODULE = "H5.Props.C08"
EXTRA_PROPS_MODULES = ["H5.Props.C08Tables", "H5.Props.C08b", "H5.Props.C08cAttr", "H5.Props.C08cTag", "H5.Props.C08cMarkup", "H5.Props.C08c"]
GEN_MODULES = ["Serializer", "Constants", "Entities"]
CORRESPONDENCE_OPS = ["ser"]
SOURCES = ["html5lib/serializer.py", "html5lib/constants.py", "html5lib/treewalkers/base.py"]
LEVEL = "proof"
TRUSTED = ["hand model H5.Model.Serializer of HTMLSerializer.serialize (text mode), tied by op ser over option combinations",
           "reference reading of the output: H5.Spec.Tokenizer (WHATWG tokenizer written from the standard) driven by the "
           "known element context (H5.Spec.Retokenize); the switch plan is computed by tools/h5/lexical.py",
           "encode()/htmlentityreplace (output encodings) are covered by C14/C15, not here"]
RULE = ("ser: token streams walked from seeded soup parses (both walkers; foreign content, raw-text, RCDATA) x random option "
        "combinations (orthogonal sample in quick); oracle: when .errors is empty the output re-tokenised in context must "
        "give back tags, attribute names/values, text, comments, doctype; non-trivial = stream has an attribute or text "
        "needing escaping; distinct by (options, stream)")


def real_ser(toks, opts):
    from html5lib.serializer import HTMLSerializer
    s = HTMLSerializer(**opts)
    out = s.render([wire.copy_tok(t) for t in toks])
    return out, list(s.errors)


def retok_request(toks, out, scripting):
    exp, sw = lexical.plan(toks, scripting=scripting)
    text = out.replace("\r\n", "\n").replace("\r", "\n")
    return "retok dataState 0 %s %s" % (wire.enc_list(sw), wire.enc_str(text)), exp


def fails(cases):
    """cases: [(toks, opts, scripting)] -> list of (bool failing, exp, act)"""
    import spec_corr
    reqs, metas = [], []
    res = [None] * len(cases)
    for i, (toks, opts, scripting) in enumerate(cases):
        try:
            out, errs = real_ser(toks, opts)
        except Exception:
            res[i] = (False, None, None)
            continue
        if errs:
            res[i] = (False, None, None)
            continue
        rq, exp = retok_request(toks, out, scripting)
        reqs.append(rq)
        metas.append((i, exp))
    lines = lean.run_driver(reqs, shards=1 if len(reqs) < 400 else None)
    for line, (i, exp) in zip(lines, metas):
        try:
            act = lexical.norm_actual(spec_corr.dec_line(line))
        except Exception:
            act = [("ERR", line[:80])]
        res[i] = (act != exp, exp, act)
    return res


def candidates(toks):
    """streams with one token, one element shell (start+end) or one subtree removed"""
    out = []
    match = {}
    stack = []
    for i, t in enumerate(toks):
        if t["type"] == "StartTag":
            stack.append(i)
        elif t["type"] == "EndTag" and stack:
            match[stack.pop()] = i
    for i, t in enumerate(toks):
        if t["type"] == "StartTag":
            if i in match:
                j = match[i]
                out.append(toks[:i] + toks[j + 1:])                       # whole subtree
                out.append(toks[:i] + toks[i + 1:j] + toks[j + 1:])       # shell only
                if t["data"]:
                    for k in list(t["data"]):
                        t2 = wire.copy_tok(t)
                        del t2["data"][k]
                        out.append(toks[:i] + [t2] + toks[i + 1:])
        elif t["type"] == "EndTag":
            continue
        else:
            out.append(toks[:i] + toks[i + 1:])
            if t["type"] in ("Characters", "SpaceCharacters", "Comment") and len(t["data"]) > 1:
                h = len(t["data"]) // 2
                for part in (t["data"][:h], t["data"][h:]):
                    t2 = dict(t)
                    t2["data"] = part
                    out.append(toks[:i] + [t2] + toks[i + 1:])
    return out


def shrink(toks, opts, scripting):
    for _ in range(40):
        cands = candidates(toks)
        if not cands:
            break
        r = fails([(c, opts, scripting) for c in cands])
        nxt = next((c for c, x in zip(cands, r) if x[0]), None)
        if nxt is None:
            break
        toks = nxt
    return toks


RAW = {"style", "script", "xmp", "iframe", "noembed", "noframes", "noscript"}     # the serializer's rcdataElements
HTML = (None, gen.HTML_NS)


def _is_tag(t):
    return t["type"] in ("StartTag", "EmptyTag")


def _map_tokens(toks, f):
    """apply f(token copy, stack of open (ns, name)) -> token or None (unchanged) to every token; None if nothing changed"""
    out, stack, changed = [], [], False
    for t in toks:
        r = f(wire.copy_tok(t), stack)
        if r is not None:
            changed = True
        out.append(r if r is not None else t)
        if t["type"] == "StartTag":
            stack.append((t.get("namespace"), t["name"]))
        elif t["type"] == "EndTag" and stack:
            stack.pop()
    return out if changed else None


# ---- recorded defects that are a precise function of the token stream: each returns the stream the OUTPUT actually spells
# ---- (what a reader gets), or None when the defect does not apply to this stream
def d_ns_attr(toks, opts, scripting):
    """namespaced attributes are written with their local name only"""
    def f(t, stack):
        if _is_tag(t) and any(k[0] is not None and lexical.qname(k[0], k[1]) != k[1] for k in t["data"]):
            t["data"] = type(t["data"])(((None, k[1]), v) for k, v in t["data"].items())
            return t
    return _map_tokens(toks, f)


def _nl(x):
    return x.replace("\r\n", "\n").replace("\r", "\n")


def d_cr(toks, opts, scripting):
    """a carriage return in text / attribute values is written raw; any reader turns it into a line feed"""
    def f(t, stack):
        if t["type"] in ("Characters", "SpaceCharacters") and "\r" in t["data"]:
            t["data"] = _nl(t["data"])
            return t
        if _is_tag(t) and any("\r" in v for v in t["data"].values()):
            t["data"] = type(t["data"])((k, _nl(v)) for k, v in t["data"].items())
            return t
    return _map_tokens(toks, f)


def d_bool(toks, opts, scripting):
    """minimize_boolean_attributes: the value of an attribute listed in booleanAttributes (for this tag name or for '') is dropped"""
    from h5.lexical import BOOLEAN_ATTRIBUTES_PINNED as BA   # pinned: see lexical.py
    if not opts.get("minimize_boolean_attributes", True):
        return None

    def f(t, stack):
        if _is_tag(t):
            hit = [k for k, v in t["data"].items() if v != "" and (k[1] in BA.get(t["name"], ()) or k[1] in BA.get("", ()))]
            if hit:
                t["data"] = type(t["data"])((k, "" if k in hit else v) for k, v in t["data"].items())
                return t
    return _map_tokens(toks, f)


def d_escape_rcdata(toks, opts, scripting):
    """escape_rcdata=True: text is escaped everywhere; inside an HTML element whose content a reader takes as raw text
    (RAWTEXT / script data; noscript when scripting is on) the references are not decoded again"""
    from xml.sax.saxutils import escape
    if not opts.get("escape_rcdata"):
        return None
    raw = lexical.RAWTEXT | {"script"} | ({"noscript"} if scripting else set())

    def f(t, stack):
        if t["type"] == "Characters" and stack and stack[-1][0] in HTML and stack[-1][1] in raw and escape(t["data"]) != t["data"]:
            t["data"] = escape(t["data"])
            return t
    return _map_tokens(toks, f)


def d_doctype_quote(toks, opts, scripting):
    """the public identifier is always written between double quotes: a '"' inside it ends it there, and what follows
    makes the reader drop the rest of the doctype (bogus doctype state)"""
    def f(t, stack):
        if t["type"] == "Doctype" and t["publicId"] and '"' in t["publicId"]:
            t["publicId"] = t["publicId"].split('"', 1)[0]
            t["systemId"] = None
            return t
    return _map_tokens(toks, f)


def d_doctype_empty_id(toks, opts, scripting):
    """an EMPTY public / system identifier is not written at all (the serializer tests the identifier's truth value):
    it reads back as missing"""
    def f(t, stack):
        if t["type"] == "Doctype" and (t["publicId"] == "" or t["systemId"] == ""):
            t["publicId"] = t["publicId"] or None
            t["systemId"] = t["systemId"] or None
            return t
    return _map_tokens(toks, f)


def d_doctype_none_name(toks, opts, scripting):
    """the dom walker reports a missing doctype name as None (minidom), which '%s' writes as the name 'None'"""
    def f(t, stack):
        if t["type"] == "Doctype" and t["name"] is None:
            t["name"] = "none"
            return t
    return _map_tokens(toks, f)


TOKEN_DEFECTS = [("namespaced-attribute-prefix-lost", d_ns_attr), ("carriage-return-not-escaped", d_cr),
                 ("boolean-attribute-value-minimised", d_bool), ("escape-rcdata-option-alters-rawtext", d_escape_rcdata),
                 ("doctype-identifier-or-name-not-representable", d_doctype_quote),
                 ("doctype-empty-identifier-not-written", d_doctype_empty_id),
                 ("doctype-name-none-written-as-None", d_doctype_none_name)]
TIGHTENED = {c for c, _ in TOKEN_DEFECTS} | {"plaintext-element", "noscript-content-depends-on-reader-scripting",
                                             "foreign-rawtext-by-bare-name", "script-double-escaped-state"}


def first_bad(toks, act, scripting):
    """(index of the first token at which the expected reading leaves `act`, open elements before that token)"""
    stack = []
    for i, t in enumerate(toks):
        e = lexical.plan(toks[:i + 1], scripting=scripting)[0]
        ok = len(e) <= len(act) and e[:-1] == act[:len(e) - 1]
        if ok and e:
            x, y = e[-1], act[len(e) - 1]
            ok = (x == y) or (x[0] == "C" and y[0] == "C" and y[1].startswith(x[1]))
        if not ok:
            return i, list(stack)
        if t["type"] == "StartTag":
            stack.append((t.get("namespace"), t["name"]))
        elif t["type"] == "EndTag" and stack:
            stack.pop()
    return len(toks), list(stack)


def passes(toks, opts, scripting):
    bad, exp, _ = fails([(toks, opts, scripting)])[0]
    return exp is not None and not bad


def plaintext_prediction(toks, opts, scripting):
    """recorded: after an HTML <plaintext> start tag the reader never leaves the PLAINTEXT state: everything the
    serializer writes after that tag (escaped text, tags, the end tag) is one run of text"""
    k = next((i for i, t in enumerate(toks) if t["type"] == "StartTag" and t["name"] == "plaintext" and t.get("namespace") in HTML), None)
    if k is None:
        return None
    try:
        head, e1 = real_ser(toks[:k + 1], opts)
        out, e2 = real_ser(toks, opts)
    except Exception:
        return None
    if e1 or e2 or not out.startswith(head):
        return None
    rest = _nl(out[len(head):]).replace("\x00", "�")
    return lexical.plan(toks[:k + 1], scripting=scripting)[0] + ([("C", rest)] if rest else [])


def rcdata_child_prediction(toks, opts, scripting):
    """recorded (C08-rcdata-child): a title / textarea element with a child element or comment (html5lib's own tree builder
    makes one: '<div><a></div><textarea>x' reconstructs the <a> INSIDE the textarea) is written as markup without an error;
    a reader is in the RCDATA state there: all of the content is one run of text, with the character references decoded"""
    import html
    for k, t in enumerate(toks):
        if t["type"] == "StartTag" and t["name"] in lexical.RCDATA and t.get("namespace") in HTML:
            depth, j = 0, None
            for m in range(k + 1, len(toks)):
                if toks[m]["type"] == "StartTag":
                    depth += 1
                elif toks[m]["type"] == "EndTag":
                    if depth == 0:
                        j = m
                        break
                    depth -= 1
            if j is None or all(x["type"] in ("Characters", "SpaceCharacters") for x in toks[k + 1:j]):
                continue
            try:
                head, e1 = real_ser(toks[:k + 1], opts)
                upto, e2 = real_ser(toks[:j], opts)
            except Exception:
                return None
            if e1 or e2 or not upto.startswith(head):
                return None
            inner = html.unescape(_nl(upto[len(head):]))
            seen = [{"type": "Characters", "data": inner}] if inner else []
            return lexical.plan(toks[:k + 1] + seen + toks[j:], scripting=scripting)[0]
    return None


def classify(toks, opts, scripting, exp=None, act=None):
    """class of a MINIMAL failing stream.  A recorded (known-finding) class is returned only when that recorded defect
    explains the WHOLE difference between the expected and the actual reading of the output; otherwise a generic class."""
    if exp is None or act is None:
        _, exp, act = fails([(toks, opts, scripting)])[0]
    if exp is not None and act is not None:
        # 1. one recorded token-level defect turns the expected reading into exactly the actual one
        for cls, f in TOKEN_DEFECTS:
            t2 = f(toks, opts, scripting)
            if t2 is not None and lexical.plan(t2, scripting=scripting)[0] == act:
                return cls
        # 2. several of them together (a stream that could not be shrunk to a single cause), and nothing else
        t2, applied = toks, []
        for cls, f in TOKEN_DEFECTS:
            r = f(t2, opts, scripting)
            if r is not None:
                t2, applied = r, applied + [cls]
        if len(applied) > 1 and lexical.plan(t2, scripting=scripting)[0] == act:
            return applied[0]
        # 3. recorded defects of an element context
        if plaintext_prediction(toks, opts, scripting) == act:
            return "plaintext-element"
        if rcdata_child_prediction(toks, opts, scripting) == act:
            return "element-child-of-rcdata-element-no-error"
        i, stack = first_bad(toks, act, scripting)
        inside = lambda pred: any(pred(ns, n) for ns, n in stack)
        if inside(lambda ns, n: n == "noscript" and ns in HTML):
            # the reading leaves the expectation INSIDE a noscript element, and the same stream with that element renamed reads back
            ren = [dict(t, name="div") if t.get("name") == "noscript" and t.get("namespace") in HTML else t for t in toks]
            if passes(ren, opts, scripting):
                return "noscript-content-depends-on-reader-scripting"
        if stack and stack[-1][0] not in HTML and stack[-1][1] in RAW and i < len(toks) and \
                toks[i]["type"] == "Characters" and not opts.get("escape_rcdata"):
            # REPAIRED by COMMIT_A (no longer a known class: a VIOLATION if it comes back; kept so that a regression is labelled):
            # text of a FOREIGN style/script/... written raw: escaping it (escape_rcdata) makes the same stream read back
            if passes(toks, dict(opts, escape_rcdata=True), scripting):
                return "foreign-rawtext-by-bare-name"
        if stack and stack[-1] in ((None, "script"), (gen.HTML_NS, "script")):
            # script text containing '<!--' that swallows the end tag: without the comment opener the stream reads back
            txt = [t for t in toks if t["type"] == "Characters" and "<!--" in t["data"]]
            if txt:
                cut = [dict(t, data=t["data"].replace("<!--", "<!-")) if t["type"] == "Characters" else t for t in toks]
                if passes(cut, opts, scripting):
                    return "script-double-escaped-state"
    cls = classify_features(toks, opts, scripting)
    return cls + ":not-explained-by-the-recorded-defect" if cls in TIGHTENED else cls


def classify_features(toks, opts, scripting):
    """descriptive label from the features of a minimal failing stream (never used for a recorded class)"""
    tags = [t for t in toks if t["type"] in ("StartTag", "EmptyTag")]
    names = [(t.get("namespace"), t.get("name")) for t in tags]
    texts = [t["data"] for t in toks if t["type"] in ("Characters", "SpaceCharacters")]
    if any(any(k[0] is not None for k in t["data"]) for t in tags):
        return "namespaced-attribute-prefix-lost"
    if any("\r" in x for x in texts) or any("\r" in v for t in tags for v in t["data"].values()):
        return "carriage-return-not-escaped"
    if any(n == "noscript" and ns in (None, gen.HTML_NS) for ns, n in names) and len(toks) > 2:
        return "noscript-content-depends-on-reader-scripting"
    from h5.lexical import BOOLEAN_ATTRIBUTES_PINNED as BA   # pinned: see lexical.py
    if opts.get("minimize_boolean_attributes", True) and any(
            k[1] in BA.get(t["name"], ()) or k[1] in BA.get("", ()) for t in tags for k in t["data"]):
        return "boolean-attribute-value-minimised"
    if any(n in RAW for ns, n in names) and any(t["type"] == "Comment" for t in toks):
        return "comment-child-of-rawtext-element"
    if any(ns not in (None, gen.HTML_NS) and n in RAW for ns, n in names) and texts:
        return "foreign-rawtext-by-bare-name"
    if opts.get("escape_rcdata") and any(n in RAW for ns, n in names) and texts:
        return "escape-rcdata-option-alters-rawtext"
    if any(n == "plaintext" and ns in (None, gen.HTML_NS) for ns, n in names):
        return "plaintext-element"
    if any(t["type"] == "Doctype" for t in toks):
        return "doctype-identifier-or-name-not-representable"
    if any(n == "script" for ns, n in names) and any("<!--" in x for x in texts):
        return "script-double-escaped-state"
    if any(t["type"] == "Comment" for t in toks) and not tags and not texts:
        return "comment-text-not-representable"
    if any("\x00" in x for x in texts):
        return "nul-in-text"
    if any(n in ("textarea", "pre", "listing") for ns, n in names) and any(x.startswith("\n") for x in texts):
        return "leading-newline-in-pre-textarea"
    return "lexical-differs"


# regression inputs of the repaired finding C08-foreign-raw (COMMIT_A): the old witness and variants.  Its class is no longer
# a known finding: an input of this list that does not read back is a VIOLATION.
REGRESSION_HTML = ["<svg><style>&lt;b&gt;</style></svg>", "<svg><script>a&lt;b&amp;c</script></svg>", "<math><xmp>&lt;i&gt;x</xmp></math>",
                   "<svg><style>&lt;/style&gt;&lt;img src=x onerror=alert(1)&gt;</style></svg>", "<svg><title>&lt;b&gt;</title></svg>",
                   "<svg><style>x</style><p>&lt;y&gt;</p></svg>", "<style>a&lt;b</style><svg><style>c&lt;d</style></svg>",
                   "<math><noscript>&lt;&amp;</noscript><iframe>&lt;i&gt;</iframe></math>"]


def regressions(ctx, reqs, reals, ocases):
    for text in REGRESSION_HTML:
        for kind in ("etree", "dom"):
            toks = gen.walk_real(gen.parse_real(text, tb=kind, fragment="div", full=True), kind)
            for opts in ({}, {"quote_attr_values": "always", "quote_char": "'"}, {"quote_attr_values": "spec", "escape_lt_in_attrs": True}):
                opts = dict(opts, omit_optional_tags=False)
                out, errs = real_ser(toks, opts)
                reqs.append("ser %s %s" % (lexical.opts_word(opts), wire.enc_toks(toks)))
                reals.append("ok %s %s" % (wire.enc_str(out), wire.enc_list(wire.enc_str(e) for e in errs)))
                ctx.case("ser", reqs[-1], nontrivial=True)
                ctx.count("regression-COMMIT_A")
                if errs:
                    ctx.fail("regression-input-reports-an-error", "a regression input of the repaired finding is now reported as an error",
                             {"input": text, "options": opts, "errors": errs})
                else:
                    ocases.append((toks, opts, True, text))


VOID_WITH_CHILDREN = ["<p><event-source src=a>x&lt;y</event-source>z", "<event-source><b>k</b></event-source>",
                      "<div><event-source>t<i>u</i>v</event-source>w</div>", "<event-source> </event-source>q",
                      "<table><tr><td><event-source>c<br>d</event-source>", "<event-source><event-source>n</event-source></event-source>"]


def tree_level(ctx):
    """The statement is about the TREE the serializer is given (through a walker): a tree element whose name is on the void
    list but which has children (the parser does this for `event-source`) cannot be written faithfully, so an error must be
    reported; nothing of the tree may disappear silently.  Expected content = the abstract tree in document order."""
    import html5lib
    from html5lib.serializer import HTMLSerializer
    from html5lib._tokenizer import HTMLTokenizer
    from html5lib.constants import tokenTypes
    from h5 import trees

    def flat(t, out):
        if t[0] == "elem":
            out.append(("tag", t[2]))
            for k in t[4]:
                flat(k, out)
        elif t[0] == "text":
            if t[1]:
                if out and out[-1][0] == "text":
                    out[-1] = ("text", out[-1][1] + t[1])
                else:
                    out.append(("text", t[1]))
        elif t[0] in ("doc", "frag"):
            for k in t[1]:
                flat(k, out)
        return out
    for text in VOID_WITH_CHILDREN:
        for kind in ("etree", "dom"):
            for nshtml in (True, False):
                tree = gen.parse_real(text, tb=kind, full=True, ns=nshtml)
                abstract = trees.from_dom(tree) if kind == "dom" else trees.from_etree(tree)
                want = flat(trees.merge_text(abstract), [])
                ser = HTMLSerializer(omit_optional_tags=False, quote_attr_values="always")
                try:
                    out = ser.render(html5lib.getTreeWalker(kind)(tree))
                except Exception as e:
                    ctx.fail("serializer-raises:%s" % type(e).__name__, "serializing a parsed tree raised", {"input": text, "walker": kind})
                    continue
                got = []
                for tok in HTMLTokenizer(out):
                    ty = tok["type"]
                    if ty == tokenTypes["StartTag"]:
                        got.append(("tag", tok["name"]))
                    elif ty in (tokenTypes["Characters"], tokenTypes["SpaceCharacters"]):
                        if got and got[-1][0] == "text":
                            got[-1] = ("text", got[-1][1] + tok["data"])
                        else:
                            got.append(("text", tok["data"]))
                ctx.case("void-element-with-children", "%s|%s|%s" % (text, kind, nshtml), nontrivial=True)
                ctx.count("void-element-with-children")
                if not ser.errors and got != want:
                    ctx.fail("tree-content-dropped-without-error", "the serializer reports no error but the tags and text of the tree are not "
                             "all in its output (void-named element with children)",
                             {"input": text, "walker": kind, "namespaceHTMLElements": nshtml, "serialized": out,
                              "tree_content": repr(want)[:500], "re-read": repr(got)[:500]})


def run(ctx):
    sys.path.insert(0, lean.VERIF + "/tools")
    reqs, reals = [], []
    ocases = []
    regressions(ctx, reqs, reals, ocases)
    tree_level(ctx)
    n = ctx.scale(1500, 40000)
    for i in range(n):
        text = gen.soup(ctx.rng)
        kind = "dom" if i % 3 == 0 else "etree"
        frag = ctx.rng.choice([None, None, "div", "svg", "select"])
        try:
            toks = gen.walk_real(gen.parse_real(text, tb=kind, fragment=frag, full=True), kind)
        except Exception:
            continue
        if i % 7 == 0 and toks:
            toks.insert(ctx.rng.randrange(len(toks) + 1), {"type": "Entity", "name": ctx.rng.choice(["amp", "nbsp", "bogus", "lt"])})
        opts = lexical.random_opts(ctx.rng)
        req = "ser %s %s" % (lexical.opts_word(opts), wire.enc_toks(toks))
        try:
            out, errs = real_ser(toks, opts)
            real = "ok %s %s" % (wire.enc_str(out), wire.enc_list(wire.enc_str(e) for e in errs))
        except Exception as e:
            out, errs = None, None
            real = wire.exc_tag(e)
        reqs.append(req)
        reals.append(real)
        nt = any(t["type"] in ("StartTag", "EmptyTag") and t["data"] for t in toks) or \
            any(t["type"] == "Characters" and any(c in t["data"] for c in "<>&") for t in toks)
        ctx.case("ser", req, nontrivial=nt, sample=req if nt and len(req) < 500 else None)
        if out is not None and not errs and not any(t["type"] == "Entity" for t in toks):
            ocases.append((toks, opts, True, text))
            if any(t.get("name") == "noscript" for t in toks):
                ocases.append((toks, opts, False, text))
    if ctx.driver_ok:
        ctx.compare("ser", reqs, reals, lean.run_driver(reqs))
        res = fails([(t, o, s) for t, o, s, _ in ocases])
        ctx.ops["retok-oracle"] = len(ocases)
        ctx.evaluations += len(ocases)
        budget = ctx.scale(120, 600)
        for (toks, opts, scripting, text), (bad, exp, act) in zip(ocases, res):
            if not bad:
                continue
            if budget <= 0:
                ctx.count("failing-streams-not-shrunk")
                continue
            budget -= 1
            small = shrink(toks, opts, scripting)
            _, exp2, act2 = fails([(small, opts, scripting)])[0]
            cls = classify(small, opts, scripting, exp2, act2)
            ctx.fail(cls, "serializer reported no error but its output does not re-tokenise to the tokens it was given",
                     {"input": text, "options": opts, "scripting": scripting, "minimal_tokens": repr(small)[:1200],
                      "expected": repr(exp2)[:500], "retokenised": repr(act2)[:500]})


def witness_case(ctx, w):
    sys.path.insert(0, lean.VERIF + "/tools")
    kind = w.get("walker", "etree")
    toks = gen.walk_real(gen.parse_real(w["html"], tb=kind, full=True), kind)
    opts = dict(w.get("options", {}), omit_optional_tags=False)
    scripting = w.get("scripting", True)
    bad, exp, act = fails([(toks, opts, scripting)])[0]
    if bad:
        small = shrink(toks, opts, scripting)
        ctx.fail(classify(small, opts, scripting), "serializer reported no error but its output does not re-tokenise to the tokens it was given",
                 {"input": w["html"], "options": opts, "scripting": scripting, "minimal_tokens": repr(small)[:800]})


def replay(path):
    import json
    print(json.dumps(json.load(open(path)), indent=1)[:3000])
    return 0
