"""C01 — tree construction follows the WHATWG algorithm (model = pinned reference, tied to the code)."""
from h5 import lean
from props import _tree
from props import _whatwg

ID = "C01"
PROPS_MODULE = "H5.Props.C01"
EXTRA_PROPS_MODULES = ["H5.Spec.TreeProps", "H5.Props.C01b"]
GEN_MODULES = ["Dispatch", "ParserLiterals", "Constants"]
CORRESPONDENCE_OPS = ["treev", "parse", "treecmp"]
SOURCES = ["html5lib/html5parser.py", "html5lib/treebuilders/base.py", "html5lib/constants.py", "html5lib/_tokenizer.py"]
LEVEL = "translation_validation"
TRUSTED = ["hand model H5.Model.TreeBuilder (one Lean function per Python handler, all 23 phases, dispatch through the tables "
           "extracted from /repo on every run) tied by exact comparison of tree, parse-error codes + datavars, tokenizer "
           "state switches and cdataAllowed after every token",
           "reference for the WHATWG clause: H5.Spec.TreeConstruction, an independent executable Lean transcription of the "
           "standard's tree-construction stage (mid-2020 revision, incl. template), written from memory of the standard's "
           "prose; the real tree is compared with it through `treecmp` on the token sequence the real parser consumed; "
           "every difference is shrunk and classified (class confirmed by a NON-STANDARD switch of the specification that "
           "reproduces html5lib's tree, or `whatwg:unexplained`); recorded deviations are in known_findings.json",
           "minidom/ElementTree read by direct traversal (tools/tree_corr.py)"]
RULE = ("fixed hard cases + seeded soup built from the extracted dispatch tables (formatting mis-nesting x table/select/"
        "foreign, foster parenting, adoption agency with >= 8 nested blocks, fragments in every container, scripting on/off, "
        "both builders) + injected token lists + all tag sequences of length <= 2 (quick) / 3 (thorough); non-trivial = "
        "every case (distinct (input, config)); disagreement = any difference in tree, errors, switches")


def run(ctx):
    thorough = ctx.tier == "thorough"
    T, recs, hits = _tree.run(ctx, 400000 if thorough else 12000, modes=("soup", "tokens", "exh"),
                              exh_len=3 if thorough else 2, exh_limit=0 if thorough else 4000)
    for r in recs:
        case = r["case"]
        ctx.case("treev", repr(case), nontrivial=True,
                 sample={"input": case[0][:80] if isinstance(case[0], str) else "<token list>", "container": case[1],
                         "scripting": case[2]})
        if "model" not in r:
            continue
        if not T.same_response(r["dom"], r["model"], dom=True):
            # the model is the pinned reference of the WHATWG algorithm (minus recorded deviations): a difference on a
            # concrete input is a failing input for C01, replayable on the real code
            ctx.fail("differs-from-pinned-reference", "tree / errors of the real parser differ from the reference model",
                     {"case": T.describe(case), "real": T.pretty(r["dom"])[:800], "model": T.pretty(r["model"])[:800]})
            ctx.disagree("treev", r["req"], r["dom"], r["model"])
    # ---- end to end: characters -> tree through the composed Lean parser (tokenizer model + tree model)
    from html5lib._inputstream import invalid_unicode_re
    from h5 import wire
    preqs, preals = [], []
    for r in recs:
        case = r["case"]
        text = case[0]
        if not isinstance(text, str) or "\r" in text or invalid_unicode_re.search(text) or not r["dom"].startswith("ok "):
            continue
        parts = r["dom"].split(" | ")
        ws = parts[1].split()
        n, i, codes = int(ws[0]), 1, []
        for _ in range(n):
            codes.append(ws[i])
            i += 2 + 2 * int(ws[i + 1])
        preals.append("%s | %s" % (parts[0], " ".join([str(n)] + codes)))
        preqs.append("parse %s %s %s %s" % (wire.enc_ostr(case[1].lower() if case[1] is not None else None), wire.enc_bool(case[2]), wire.enc_bool(case[3]), wire.enc_str(text)))
        if len(preqs) >= ctx.scale(4000, 100000):
            break
    if ctx.driver_ok and preqs:
        out = lean.run_driver(preqs)
        for rq, a, b in zip(preqs, preals, out):
            ctx.evaluations += 1
            if a != b and T.dom_view(b) != a:
                ctx.disagree("parse", rq, a, b)
        ctx.ops["parse(end-to-end)"] = len(preqs)
    # ---- WHATWG clause: real tree vs the executable specification of the standard (tools/props/_whatwg.py)
    _whatwg.clause(ctx)
    ctx.dist["phase_functions_reached"] = len(hits)
    ctx.notes.append("phase functions reached: %d" % len(hits))


def witness_case(ctx, w):
    _whatwg.witness_case(ctx, w)


def replay(path):
    import json
    print(json.dumps(json.load(open(path)), indent=1)[:3000])
    return 0
