"""Add-on generators for C05 / C06: H5.Gen.Stream (input-stream constants) and H5.Gen.Encodings
(webencodings label table, BOM literals, prescan byte classes, dispatch order), all by EVALUATING the installed
modules / reading the AST of /repo's working tree."""
import ast
import codecs

from extract import (register, HEADER, FOOTER, lean_str_c, ranges_of, lean_ranges, regex_class, blocks, sha, src,
                     TranslationError)
import pylite


def _bytes_lit(b):
    return "[" + ", ".join(str(c) for c in b) + "]"


def _byteset(s):
    """frozenset of 1-byte bytes objects -> sorted list of byte values"""
    out = []
    for item in s:
        if not (isinstance(item, bytes) and len(item) == 1):
            raise TranslationError("byte class holds %r (not a single byte)" % (item,))
        out.append(item[0])
    return "[" + ", ".join(str(c) for c in sorted(out)) + "]"


@register("Stream")
def gen_stream():
    rel = "html5lib/_inputstream.py"
    from html5lib import _inputstream as I
    from html5lib import _utils
    tree = ast.parse(src(rel))
    out = HEADER % (rel + " (evaluated)")
    if not _utils.supports_lone_surrogates or len("\U0010FFFF") != 1:
        raise TranslationError("the model covers the UCS4 + lone-surrogate build only (characterErrorsUCS4)")
    out += "/-- exact class of `invalid_unicode_re` (one code point per match; evaluated on every code point) -/\n"
    out += "def invalidUnicode : List (Nat × Nat) := %s\n" % lean_ranges(regex_class(I.invalid_unicode_re))
    out += "def defaultChunkSize : Nat := %d\n" % I.HTMLUnicodeInputStream._defaultChunkSize
    # the carry-over test of readChunk: `lastv == 0x0D or 0xD800 <= lastv <= 0xDBFF`, read from the AST
    rc = pylite.find_function(tree, "HTMLUnicodeInputStream.readChunk")
    consts = sorted({n.value for n in ast.walk(rc) if isinstance(n, ast.Constant) and isinstance(n.value, int)
                     and not isinstance(n.value, bool)})
    if consts != [0, 1, 0x0D, 0xD800, 0xDBFF]:
        raise TranslationError("readChunk: unexpected integer constants %r" % consts)
    strs = [n.value for n in ast.walk(rc) if isinstance(n, ast.Constant) and isinstance(n.value, str)]
    if sorted(strs) != sorted(["", "\r\n", "\n", "\r", "\n"]):
        raise TranslationError("readChunk: unexpected string constants %r" % strs)
    out += "def carryCR : Nat := 13\ndef carryLeadLo : Nat := %d\ndef carryLeadHi : Nat := %d\n" % (0xD800, 0xDBFF)
    # charsUntil: the assert bound
    cu = pylite.find_function(tree, "HTMLUnicodeInputStream.charsUntil")
    bound = [n.value for n in ast.walk(cu) if isinstance(n, ast.Constant) and isinstance(n.value, int)
             and not isinstance(n.value, bool)]
    if bound != [128]:
        raise TranslationError("charsUntil: unexpected integer constants %r" % bound)
    out += "def charsUntilAsciiBound : Nat := 128\n"
    for fn in ("HTMLUnicodeInputStream.reset", "HTMLUnicodeInputStream._position", "HTMLUnicodeInputStream.position",
               "HTMLUnicodeInputStream.char", "HTMLUnicodeInputStream.readChunk",
               "HTMLUnicodeInputStream.characterErrorsUCS4", "HTMLUnicodeInputStream.charsUntil",
               "HTMLUnicodeInputStream.unget"):
        out += "-- fingerprint %s %s\n" % (fn, sha(ast.dump(pylite.find_function(tree, fn))))
    return out + FOOTER


@register("Encodings")
def gen_encodings():
    rel = "html5lib/_inputstream.py"
    import webencodings
    from webencodings.labels import LABELS
    from html5lib import _inputstream as I
    tree = ast.parse(src(rel))
    out = HEADER % ("webencodings %s LABELS (evaluated) + %s (evaluated / AST)" % (webencodings.VERSION, rel))
    # -- label table: exactly what webencodings.lookup consults after normalisation
    for k, v in LABELS.items():
        if not (k.isascii() and v.isascii()):
            raise TranslationError("non-ASCII label %r" % k)
        enc = webencodings.lookup(k)
        if enc is None or enc.name != v:
            raise TranslationError("lookup(%r).name != LABELS[%r]" % (k, k))
    items = ["(%s, %s)" % (lean_str_c(k), lean_str_c(v)) for k, v in sorted(LABELS.items())]
    out += "/-- webencodings.labels.LABELS: normalised label ↦ canonical encoding name -/\n"
    out += blocks("encodingLabels", "Str × Str", items, per=32)
    # the strip set of webencodings.lookup, from its source
    import inspect
    wtree = ast.parse(inspect.getsource(webencodings))
    lk = pylite.find_function(wtree, "lookup")
    strip = [n.args[0].value for n in ast.walk(lk)
             if isinstance(n, ast.Call) and isinstance(n.func, ast.Attribute) and n.func.attr == "strip"
             and n.args and isinstance(n.args[0], ast.Constant)]
    if len(strip) != 1:
        raise TranslationError("webencodings.lookup: cannot find the strip() call")
    out += "/-- characters stripped by webencodings.lookup before the table lookup -/\n"
    out += "def labelStripChars : List Nat := [%s]\n" % ", ".join(str(ord(c)) for c in sorted(strip[0]))
    probe = "BacKground"
    if webencodings.ascii_lower(probe) != "bacKground":
        raise TranslationError("webencodings.ascii_lower is not ASCII-only lower-casing")
    # -- BOM dictionary of detectBOM, evaluated from its AST (keys are codecs.BOM_* constants)
    fn = pylite.find_function(tree, "HTMLBinaryInputStream.detectBOM")
    dicts = [n for n in ast.walk(fn) if isinstance(n, ast.Dict)]
    if len(dicts) != 1:
        raise TranslationError("detectBOM: expected exactly one dict literal")
    bom = eval(compile(ast.Expression(dicts[0]), rel, "eval"), {"codecs": codecs})
    out += "/-- bomDict of detectBOM in source order: BOM bytes ↦ label handed to lookupEncoding -/\n"
    out += "def bomDict : List (List Nat × Str) := [\n  %s]\n" % ",\n  ".join(
        "(%s, %s)" % (_bytes_lit(k), lean_str_c(v)) for k, v in bom.items())
    # the two probes string[:3], string[:2], the read size and the seek values, from the AST
    consts = [n.value for n in ast.walk(fn) if isinstance(n, ast.Constant) and isinstance(n.value, int)
              and not isinstance(n.value, bool)]
    if sorted(consts) != [0, 2, 2, 3, 3, 4]:
        raise TranslationError("detectBOM: unexpected integer constants %r" % consts)
    # the seek past the BOM is clamped to what read(4) returned: `seek(min(seek, len(string)))`
    mins = [n for n in ast.walk(fn) if isinstance(n, ast.Call) and getattr(n.func, "id", None) == "min"]
    if len(mins) != 1:
        raise TranslationError("detectBOM: expected exactly one min(...) call (clamped seek)")
    # -- prescan byte classes
    out += "def spaceBytes : List Nat := %s\n" % _byteset(I.spaceCharactersBytes)
    out += "def asciiLetterBytes : List Nat := %s\n" % _byteset(I.asciiLettersBytes)
    out += "def asciiUpperBytes : List Nat := %s\n" % _byteset(I.asciiUppercaseBytes)
    out += "def spacesClosingBracket : List Nat := %s\n" % _byteset(I.spacesClosingBracket)
    s = I.HTMLBinaryInputStream(b"")
    out += "def numBytesMeta : Nat := %d\n" % s.numBytesMeta
    # -- dispatch table of EncodingParser.getEncoding in source order
    ge = pylite.find_function(tree, "EncodingParser.getEncoding")
    disp = None
    for n in ast.walk(ge):
        if isinstance(n, ast.Assign) and getattr(n.targets[0], "id", None) == "methodDispatch":
            disp = n.value
    if disp is None:
        raise TranslationError("getEncoding: methodDispatch not found")
    rows = []
    for el in disp.elts:
        key, meth = el.elts
        if not (isinstance(key, ast.Constant) and isinstance(key.value, bytes) and isinstance(meth, ast.Attribute)):
            raise TranslationError("getEncoding: unexpected dispatch row")
        rows.append((key.value, meth.attr))
    out += "/-- methodDispatch of EncodingParser.getEncoding, in order: key bytes ↦ handler name -/\n"
    out += "def methodDispatch : List (List Nat × String) := [\n  %s]\n" % ",\n  ".join(
        '(%s, "%s")' % (_bytes_lit(k), m) for k, m in rows)
    # default of default_encoding and the final fallback literal
    init = pylite.find_function(tree, "HTMLBinaryInputStream.__init__")
    names = [a.arg for a in init.args.args]
    defaults = dict(zip(names[-len(init.args.defaults):], [ast.literal_eval(d) for d in init.args.defaults]))
    if names[1:] != ["source", "override_encoding", "transport_encoding", "same_origin_parent_encoding",
                     "likely_encoding", "default_encoding", "useChardet"]:
        raise TranslationError("HTMLBinaryInputStream.__init__: unexpected signature %r" % names)
    out += "def defaultEncodingDefault : Str := %s\n" % lean_str_c(defaults["default_encoding"])
    de = pylite.find_function(tree, "HTMLBinaryInputStream.determineEncoding")
    last = de.body[-1]
    if not (isinstance(last, ast.Return) and isinstance(last.value, ast.Tuple)
            and isinstance(last.value.elts[0], ast.Call) and isinstance(last.value.elts[0].args[0], ast.Constant)):
        raise TranslationError("determineEncoding: last statement is not `return lookupEncoding(<literal>), ...`")
    out += "def finalFallbackLabel : Str := %s\n" % lean_str_c(last.value.elts[0].args[0].value)
    try:
        import chardet  # noqa: F401
        has_chardet = True
    except ImportError:
        has_chardet = False
    out += "/-- whether `chardet` is importable in this environment (the model prunes the branch when false) -/\n"
    out += "def chardetInstalled : Bool := %s\n" % ("true" if has_chardet else "false")
    for f in ("HTMLBinaryInputStream.__init__", "HTMLBinaryInputStream.determineEncoding",
              "HTMLBinaryInputStream.changeEncoding", "HTMLBinaryInputStream.detectBOM",
              "HTMLBinaryInputStream.detectEncodingMeta", "EncodingBytes.__next__", "EncodingBytes.previous",
              "EncodingBytes.setPosition", "EncodingBytes.getPosition", "EncodingBytes.getCurrentByte",
              "EncodingBytes.skip", "EncodingBytes.skipUntil", "EncodingBytes.matchBytes", "EncodingBytes.jumpTo",
              "EncodingParser.getEncoding", "EncodingParser.handleComment", "EncodingParser.handleMeta",
              "EncodingParser.handlePossibleStartTag", "EncodingParser.handlePossibleEndTag",
              "EncodingParser.handlePossibleTag", "EncodingParser.handleOther", "EncodingParser.getAttribute",
              "ContentAttrParser.parse", "lookupEncoding"):
        out += "-- fingerprint %s %s\n" % (f, sha(ast.dump(pylite.find_function(tree, f))))
    ptree = ast.parse(src("html5lib/html5parser.py"))
    for f in ("InHeadPhase.startTagMeta", "HTMLParser._parse"):
        try:
            node = pylite.find_function(ptree, f)
        except TranslationError:
            node = None
        if node is None:
            # phases are defined inside getPhases(): search by name anywhere
            nm = f.split(".")[-1]
            node = next((n for n in ast.walk(ptree) if isinstance(n, ast.FunctionDef) and n.name == nm), None)
        if node is None:
            raise TranslationError("html5parser.py: %s not found" % f)
        out += "-- fingerprint %s %s\n" % (f, sha(ast.dump(node)))
    return out + FOOTER
