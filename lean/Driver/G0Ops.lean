/- op `g0 <tree>`: is the document in the grammar `G0` of the C07 identity theorem (H5.Props.C07bGrammar)?
   The harness (tools/props/C07.py, oracle family G0-identity) asks this for every generated document, so that the
   class the theorem speaks about is decided by the Lean definition itself, not by a Python copy of it. -/
import H5.Wire
import H5.Props.C07bGrammar
open H5 H5.Wire

def handleG0 (ws : List String) : Option String :=
  match ws with
  | "g0" :: rest =>
    match run tree rest with
    | some t => some ("ok " ++ encBool (H5.Props.C07b.G0 t))
    | none => some "bad-request"
  | _ => none
