/- input-stream ops of the line-protocol driver (property C05)

  stream <segments: list of str> <script: list of calls>
      call ::= c | u | p | t <set:str> <opposite:0|1>
  response: ok <n> <result>… | <chunk:str> <chunkSize> <chunkOffset> <buffered:ostr> <prevNumLines> <prevNumCols> <errors>
      result ::= c <char:ostr>  |  u  |  p <line> <col>  |  t <str>
  `u` ungets the most recent character returned by a `c` call that has not been ungotten yet
  (the tokenizer's `charStack.pop()` discipline); with no such character it calls `unget(EOF)`.
  A Python exception in any call makes the whole response `err <tag>`.

  stream:drain <segments>          → ok <str> <errors>          (all characters until EOF, number of stream errors)
  stream:norm <str>                → ok <str>                   (Spec: newline normalisation)

  bufstream <data:bytes> <caps: list of nat> <script: list of calls>      (BufferedStream over a raw stream with short reads)
      call ::= r <n> | s <pos> | t
  response: ok <n> <result>… | <k> <chunk:bytes>… <position[0]> <position[1]>
      result ::= r <bytes> | s | t <int>
-/
import H5.Wire
import H5.Model.Stream
import H5.Model.BufferedStream
import H5.Spec.Stream
open H5 H5.Wire

namespace StreamOps
open H5.Model.InputStream

def call : R Call := do
  let w ← word
  match w with
  | "c" => pure .c
  | "u" => pure .u
  | "p" => pure .p
  | "t" => do let s ← str; let o ← bool; pure (.t s o)
  | _ => failure

def encChar : Option Nat → String
  | none => "~"
  | some c => encStr [c]

def encRes : Res → String
  | .ch c => "c " ++ encChar c
  | .unit => "u"
  | .pos l c => s!"p {l} {c}"
  | .str s => "t " ++ encStr s

def encState (s : St) : String :=
  s!"| {encStr s.chunk} {s.chunkSize} {s.chunkOffset} {encChar s.buffered} {s.prevNumLines} {s.prevNumCols} {s.errors}"

def bcall : R H5.Model.BufferedStream.Call := do
  let w ← word
  match w with
  | "r" => do let n ← nat; pure (.read n)
  | "s" => do let n ← nat; pure (.seek n)
  | "t" => pure .tell
  | _ => failure

def encBRes : H5.Model.BufferedStream.Res → String
  | .bytes b => "r " ++ encStr b
  | .unit => "s"
  | .int n => s!"t {n}"

end StreamOps

def handleStream (ws : List String) : Option String :=
  open H5.Model.InputStream in
  match ws with
  | "stream" :: rest =>
    match run (do let segs ← list str; let sc ← list StreamOps.call; pure (segs, sc)) rest with
    | some (segs, sc) =>
      some <| encExcept (fun r => s!"{encList StreamOps.encRes r.1} {StreamOps.encState r.2}") (H5.Model.InputStream.run segs sc)
    | none => some "bad-request"
  | "stream:drain" :: rest =>
    match run (list str) rest with
    | some segs =>
      let fuel := drainFuel segs
      some <| match drain fuel (init segs), drainState fuel (init segs) with
        | .ok r, .ok s => s!"ok {encStr r} {s.errors}"
        | .error e, _ => "err " ++ e.tag
        | _, .error e => "err " ++ e.tag
    | none => some "bad-request"
  | "bufstream" :: rest =>
    match run (do let d ← str; let caps ← list nat; let sc ← list StreamOps.bcall; pure (d, caps, sc)) rest with
    | some (d, caps, sc) =>
      some <| encExcept (fun r => s!"{encList StreamOps.encBRes r.1} | {encList encStr r.2.buffer} {r.2.posChunk} {r.2.posOff}")
        (H5.Model.BufferedStream.run d caps sc)
    | none => some "bad-request"
  | "stream:norm" :: rest =>
    match run str rest with
    | some s => some ("ok " ++ encStr (H5.Spec.Stream.normNewlines s))
    | none => some "bad-request"
  | _ => none
