/- Spec ops of the line-protocol driver: the standard's tokenizer and its comparison with the Model -/
import H5.Wire
import H5.Model.Tokenizer
import H5.Spec.Tokenizer
import H5.Spec.Compare
open H5 H5.Wire

/-- html5lib's five entry states ↦ the standard's -/
def specStateOfName? : String → Option H5.Spec.Tokenizer.State
  | "dataState" => some .data
  | "rcdataState" => some .RCDATA
  | "rawtextState" => some .RAWTEXT
  | "scriptDataState" => some .scriptData
  | "plaintextState" => some .PLAINTEXT
  | _ => none

structure SpecArgs where
  name : String
  state : H5.Spec.Tokenizer.State
  lst : Option Str
  cdata : Bool
  input : Str

/-- `<stateName> <lastStartTag:ostr> <cdataAllowed:0|1> <input:str>` -/
def specArgs : R SpecArgs := do
  let name ← word
  let lst ← ostr
  let cd ← bool
  let input ← str
  match specStateOfName? name with
  | some st => pure { name, state := st, lst, cdata := cd, input }
  | none => failure

def runSpec (a : SpecArgs) : Except PyErr (List TTok) :=
  (H5.Spec.tokenize a.state a.lst a.cdata a.input).map H5.Spec.canon

def runModel (a : SpecArgs) : Except PyErr (List TTok) :=
  match H5.Model.Tokenizer.State.ofName? a.name with
  | some st =>
    let s := H5.Model.Tokenizer.St.init st a.lst a.cdata a.input
    (H5.Model.Tokenizer.tokenize (H5.Model.Tokenizer.fuelFor s.input) s).map H5.Spec.canon
  | none => .error (.valueError "state")

def handleSpec (ws : List String) : Option String :=
  match ws with
  | "spec-tok" :: rest =>
    match run specArgs rest with
    | some a => some <| encExcept encTToks (runSpec a)
    | none => some "bad-request"
  | "spec-raw" :: rest =>
    match run specArgs rest with
    | some a => some <| encExcept encTToks (H5.Spec.tokenize a.state a.lst a.cdata a.input)
    | none => some "bad-request"
  | "spec-steps" :: rest =>
    match run specArgs rest with
    | some a => some <| encExcept toString (H5.Spec.tokenizeSteps a.state a.lst a.cdata a.input)
    | none => some "bad-request"
  | "model-canon" :: rest =>
    match run specArgs rest with
    | some a => some <| encExcept encTToks (runModel a)
    | none => some "bad-request"
  | "spec-numref" :: rest =>
    match run nat rest with
    | some n =>
      let r := H5.Spec.Tokenizer.numericRef n
      some s!"ok {encStr [r.1]} {r.2.getD "~"}"
    | none => some "bad-request"
  | "tokcmp" :: rest =>
    match run specArgs rest with
    | some a =>
      let m := encExcept encTToks (runModel a)
      let s := encExcept encTToks (runSpec a)
      some <| if m == s then "same" else s!"diff {m} || {s}"
    | none => some "bad-request"
  | _ => none
