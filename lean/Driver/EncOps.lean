/- encoding ops of the line-protocol driver (property C06)

  enc:determine <bytes> <override:ostr> <transport:ostr> <parent:ostr> <likely:ostr> <default:ostr>
                                         → ok <encoding name> <certain|tentative> <raw stream offset>
  enc:prescan <bytes>                    → ok <ostr>      EncodingParser(bytes).getEncoding() (.name)
  enc:content <bytes>                    → ok <ostr>      ContentAttrParser(EncodingBytes(bytes)).parse()
  enc:lookup <s|b> <str>                 → ok <ostr>      lookupEncoding(str / bytes)
  enc:change <cur:str> <c|t> <n|s|b> <label:str>
                                         → ok unchanged | ok certain | ok reparse <name>
  enc:specprescan <bytes>                → ok <ostr>      Spec: WHATWG prescan of the first 1024 bytes
  enc:specdetermine <bytes> <5 × ostr>   → ok <name> <certain|tentative> <bom length>     Spec: documented precedence
  enc:specprescan:dev <10 flags> <bytes> → ok <ostr>    Spec prescan with the given html5lib deviations switched on
  enc:speccontent <bytes>                → ok <ostr>      Spec: extracting a character encoding from a meta element
  enc:latemeta <c|t> <attrs: list of name value>
                                         → ok nocall | ok none | ok s <str> | ok b <bytes>   (argument of changeEncoding)
-/
import H5.Wire
import H5.Model.Encoding
import H5.Spec.Sniff
open H5 H5.Wire

namespace EncOps
open H5.Model.Encoding

def conf : H5.Wire.R Conf := do
  let w ← word
  match w with
  | "c" => pure .certain
  | "t" => pure .tentative
  | _ => failure

def label : H5.Wire.R Label := do
  let k ← word
  let s ← str
  match k with
  | "n" => pure .none
  | "s" => pure (.str s)
  | "b" => pure (.bytes s)
  | _ => failure

def encConf : Conf → String
  | .certain => "certain"
  | .tentative => "tentative"

def encChange : Change → String
  | .unchanged => "unchanged"
  | .nowCertain => "certain"
  | .reparse e => "reparse " ++ encStr e

def encLabelArg : Option Label → String
  | none => "nocall"
  | some .none => "none"
  | some (.str s) => "s " ++ encStr s
  | some (.bytes b) => "b " ++ encStr b

end EncOps

def handleEnc (ws : List String) : Option String :=
  open H5.Model.Encoding EncOps in
  match ws with
  | "enc:determine" :: rest =>
    match run (do let b ← str; let o ← ostr; let t ← ostr; let p ← ostr; let l ← ostr; let d ← ostr
                  pure (b, ({ override := o, transport := t, parent := p, likely := l, default := d } : Args))) rest with
    | some (b, a) => some <| encExcept (fun r => s!"{encStr r.encoding} {encConf r.conf} {r.offset}") (determineEncoding b a)
    | none => some "bad-request"
  | "enc:prescan" :: rest =>
    match run str rest with
    | some b => some <| encExcept encOStr (getEncoding b)
    | none => some "bad-request"
  | "enc:content" :: rest =>
    match run str rest with
    | some b => some <| encExcept encOStr (contentAttrParse (mkEB b))
    | none => some "bad-request"
  | "enc:lookup" :: rest =>
    match run (do let k ← word; let s ← str; pure (k, s)) rest with
    | some ("s", s) => some <| encExcept encOStr (lookupEncodingStr (some s))
    | some ("b", s) => some <| "ok " ++ encOStr (lookupEncodingBytes s)
    | _ => some "bad-request"
  | "enc:change" :: rest =>
    match run (do let cur ← str; let c ← conf; let l ← label; pure (cur, c, l)) rest with
    | some (cur, c, l) => some <| encExcept encChange (changeEncoding cur c l)
    | none => some "bad-request"
  | "enc:latemeta" :: rest =>
    match run (do let c ← conf; let a ← list pair; pure (c, a)) rest with
    | some (c, a) => some <| encExcept encLabelArg (startTagMetaArg c a)
    | none => some "bad-request"
  | "enc:specprescan" :: rest =>
    match run str rest with
    | some b => some <| "ok " ++ encOStr (H5.Spec.Sniff.prescan b)
    | none => some "bad-request"
  | "enc:specprescan:dev" :: rest =>
    -- ten flags in the order of the structure fields
    match run (do let f ← listN bool 10; let b ← str; pure (f, b)) rest with
    | some ([a1, a2, a3, a4, a5, a6, a7, a8, a9, a10], b) =>
      let dev : H5.Spec.Sniff.Dev :=
        { commentNoOverlap := a1, metaNeedsSpace := a2, endTagOffByOne := a3, skipByteAfterLt := a4, ltTerminates := a5,
          eagerMeta := a6, noDedup := a7, contentNoRetry := a8, contentNoSemicolon := a9, noUserDefinedMap := a10 }
      some <| "ok " ++ encOStr (H5.Spec.Sniff.prescanWith dev b)
    | _ => some "bad-request"
  | "enc:speccontent" :: rest =>
    match run str rest with
    | some b => some <| "ok " ++ encOStr (H5.Spec.Sniff.extractCharset {} b)
    | none => some "bad-request"
  | "enc:specdetermine" :: rest =>
    match run (do let b ← str; let o ← ostr; let t ← ostr; let p ← ostr; let l ← ostr; let d ← ostr
                  pure (b, o, t, p, l, d)) rest with
    | some (b, o, t, p, l, d) =>
      let bom := H5.Spec.Sniff.bomSniff b
      let body := b.drop ((bom.map (·.2)).getD 0)
      let r := H5.Spec.Sniff.precedence { bom := bom.map (·.1), override := o, transport := t,
                                          metaDecl := H5.Spec.Sniff.prescan body, parent := p, likely := l, default := d }
      let c := match r.2 with | .certain => "certain" | .tentative => "tentative"
      some s!"ok {encStr r.1} {c} {(bom.map (·.2)).getD 0}"
    | none => some "bad-request"
  | _ => none
