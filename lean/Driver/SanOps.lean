/- sanitizer / regex ops of the line-protocol driver (property C09) -/
import H5.Wire
import H5.Model.Sanitizer
import H5.Spec.Url
open H5 H5.Wire H5.Model.Regex H5.Model.Sanitizer

def sanKey : R Key := do let ns ← ostr; let n ← str; pure (ns, n)

/-- `default` | `custom` followed by the ten lists in the order of `Filter.__init__` -/
def sanLists : R Lists := do
  let w ← word
  match w with
  | "default" => pure defaultLists
  | "custom" => do
    let el ← list sanKey; let att ← list sanKey
    let cp ← list str; let ck ← list str; let sp ← list str; let pr ← list str; let ct ← list str
    let uri ← list sanKey; let ref ← list sanKey; let loc ← list sanKey
    pure { allowedElements := el, allowedAttributes := att, allowedCssProperties := cp, allowedCssKeywords := ck,
           allowedSvgProperties := sp, allowedProtocols := pr, allowedContentTypes := ct, attrValIsUri := uri,
           svgAttrValAllowsRef := ref, svgAllowLocalHref := loc }
  | _ => failure

def scTok : R (Tok × Bool) := do let sc ← bool; let t ← tok; pure (t, sc)

def encMatch (m : Match) : String := s!"{m.start} {encStr m.text} {encOStr (m.group 1)} {encOStr (m.group 2)}"

def encOMatch : Option Match → String
  | none => "~"
  | some m => encMatch m

def handleSan (ws : List String) : Option String :=
  match ws with
  | "san" :: rest =>
    match run (do let l ← sanLists; let ts ← list scTok; pure (l, ts)) rest with
    | some (l, ts) => some <| encExcept encToks (filterSC l ts)
    | none => some "bad-request"
  | "san:css" :: rest =>
    match run (do let l ← sanLists; let s ← str; pure (l, s)) rest with
    | some (l, s) => some <| encExcept encStr (sanitizeCss l s)
    | none => some "bad-request"
  | "san:uri" :: rest =>
    match run (do let l ← sanLists; let s ← str; pure (l, s)) rest with
    | some (l, s) => some <| encExcept encBool (uriKeep l s)
    | none => some "bad-request"
  | "san:scheme" :: rest =>
    match run str rest with
    | some s => some <| encExcept (fun u => s!"{encStr u.scheme} {encStr u.netloc} {encStr u.path}") (urlsplit s)
    | none => some "bad-request"
  | "san:clean" :: rest =>
    match run str rest with
    | some s => some ("ok " ++ encStr (cleanUri s))
    | none => some "bad-request"
  | "spec:browserScheme" :: rest =>
    match run str rest with
    | some s => some ("ok " ++ encOStr (H5.Spec.Url.browserScheme s))
    | none => some "bad-request"
  | "san:lower" :: rest =>
    match run str rest with
    | some s => some ("ok " ++ encStr (pyLower s))
    | none => some "bad-request"
  | "san:split" :: rest =>
    match run str rest with
    | some s => some ("ok " ++ encList encStr (pySplit s))
    | none => some "bad-request"
  | op :: rest =>
    if op.startsWith "re:" then
      match H5.Gen.San.regexTable.lookup (op.drop 3).toString with
      | none => some "bad-op"
      | some r =>
        match rest with
        | ["search", w] =>
          match decStr? w with
          | some s => some <| encExcept encOMatch (search cl r s)
          | none => some "bad-request"
        | ["match", w] =>
          match decStr? w with
          | some s => some <| encExcept encOMatch (matchAt cl r s)
          | none => some "bad-request"
        | ["findall", w] =>
          match decStr? w with
          | some s => some <| encExcept (fun (p : List (Str × Match) × Str) =>
              encList (fun (pm : Str × Match) => s!"{encStr pm.1} {encMatch pm.2}") p.1 ++ " " ++ encStr p.2) (allMatches cl r s)
          | none => some "bad-request"
        | ["sub", rw, w] =>
          match decStr? rw, decStr? w with
          | some repl, some s => some <| encExcept encStr (sub cl r repl s)
          | _, _ => some "bad-request"
        | _ => some "bad-request"
    else none
  | _ => none
