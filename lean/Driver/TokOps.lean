/- tokenizer ops of the line-protocol driver -/
import H5.Wire
import H5.Model.Tokenizer
open H5 H5.Wire

/-! ### tokenizer ops -/
section Tok
open H5.Model H5.Model.Tokenizer

/-- `<stateName> <lastStartTag:ostr> <cdataAllowed:0|1> <input:str>` -/
def tokArgs : R St := do
  let name ← word
  let lst ← ostr
  let cd ← bool
  let input ← str
  match State.ofName? name with
  | some st => pure (St.init st lst cd input)
  | none => failure

/-- what a parser does to the tokenizer between two pulled tokens, reduced to a fixed rule
on the tag name (mirrored by `parser_rule` in tools/tok_corr.py) -/
def pullRule (t : TTok) (s : St) : St :=
  match t with
  | .startTag n _ _ =>
    if n = lit "title" ∨ n = lit "textarea" then setState s .rcdataState
    else if n = lit "style" ∨ n = lit "xmp" ∨ n = lit "iframe" ∨ n = lit "noembed"
        ∨ n = lit "noframes" ∨ n = lit "noscript" then setState s .rawtextState
    else if n = lit "script" then setState s .scriptDataState
    else if n = lit "plaintext" then setState s .plaintextState
    else if n = lit "svg" ∨ n = lit "math" then setCdataAllowed s true
    else s
  | .endTag n _ _ => if n = lit "svg" ∨ n = lit "math" then setCdataAllowed s false else s
  | _ => s

def pullAll : Nat → St → Except PyErr (List TTok)
  | 0, _ => .error (.outOfFuel "pullAll")
  | fuel + 1, s => do
    match ← Tokenizer.next s with
    | none => pure []
    | some (t, s) =>
      let rest ← pullAll fuel (pullRule t s)
      pure (t :: rest)

def encNumCharRef (r : Str × Option TTok) : String :=
  match r.2 with
  | none => s!"{encStr r.1} ~"
  | some t => s!"{encStr r.1} {encTTok t}"

end Tok

def handleTok (ws : List String) : Option String :=
  match ws with
  | "tok" :: rest =>
    match run tokArgs rest with
    | some s => some <| encExcept encTToks (H5.Model.Tokenizer.tokenize (H5.Model.Tokenizer.fuelFor s.input) s)
    | none => some "bad-request"
  | "toksteps" :: rest =>
    match run tokArgs rest with
    | some s => some <| encExcept (fun r => toString r.2)
        (H5.Model.Tokenizer.tokenizeCount (H5.Model.Tokenizer.fuelFor s.input) s 0)
    | none => some "bad-request"
  | "tokpull" :: rest =>
    match run tokArgs rest with
    | some s => some <| encExcept encTToks (pullAll (16 * s.input.length + 128) s)
    | none => some "bad-request"
  | "numcharref" :: rest =>
    match run nat rest with
    | some n => some <| "ok " ++ encNumCharRef (H5.Model.numCharRef n)
    | none => some "bad-request"
  | _ => none
