/- back-end primitive scripts: `prims:etree <script>` / `prims:dom <script>`

   script  = <nsHtml:0|1> <fullTree:0|1> <n> call_1 … call_n      (node 0 is the document, created first)
   call    = E <ostr ns> <str name>            elementClass(name, ns)                     -> new handle
           | C <str data>                      commentClass(data)                         -> new handle
           | F                                 fragmentClass()                            -> new handle
           | Y <ostr> <ostr> <ostr>            insertDoctype({name, publicId, systemId})  -> new handle
           | M <p> <str data>                  insertComment({data}, parent p)            -> new handle
           | a <p> <c>                         p.appendChild(c)
           | t <p> <str data> <~|ref>          p.insertText(data, ref)
           | b <p> <n> <ref>                   p.insertBefore(n, ref)
           | r <p> <n>                         p.removeChild(n)
           | m <a> <b>                         a.reparentChildren(b)
           | k <a>                             a.cloneNode()                              -> new handle
           | s <a> <list key>                  a.attributes = {…}    key = p <name> <value> | q <opfx> <local> <uri> <value>
           | i <a> <name> <value>              a.attributes[name] = value
           | g <a>                             list(a.attributes.items())
           | q <a> <name>                      name in a.attributes
           | h <a>                             a.hasContent()
           | P <a>                             a.parent
           | c <a>                             a.childNodes
           | D                                 getDocument()
           | G <a>                             openElements[0] = a; getFragment()         -> new handle
   response = ok <result words> [!<ExceptionClass>] # <tree of node 0> # <tree of node 1> …
              (!UNMODELLED: the script reached a minidom behaviour that the model declares out of scope)
   Execution stops at the first exception; no trees are printed then. -/
import H5.Wire
import H5.Model.Backend.ETree
import H5.Model.Backend.MiniDom
open H5 H5.Wire
open H5.Model.Dom (AttrKey)
open H5.Model.Backend

inductive PCall where
  | mkElem (ns : Option Str) (name : Str)
  | mkComment (d : Str)
  | mkFrag
  | doctype (name pub sys : Option Str)
  | insComment (p : Nat) (d : Str)
  | append (p c : Nat)
  | insText (p : Nat) (d : Str) (before : Option Nat)
  | insBefore (p n r : Nat)
  | remove (p n : Nat)
  | reparent (a b : Nat)
  | clone (a : Nat)
  | setAttrs (a : Nat) (attrs : List (AttrKey × Str))
  | setItem (a : Nat) (name value : Str)
  | getAttrs (a : Nat)
  | hasAttr (a : Nat) (name : Str)
  | hasContent (a : Nat)
  | parent (a : Nat)
  | childNodes (a : Nat)
  | getDocument
  | getFragment (a : Nat)

def onat : R (Option Nat) := do
  let w ← word
  if w == "~" then pure none else ((w.toNat?).map some : Option (Option Nat))

def attrKV : R (AttrKey × Str) := do
  let k ← word
  match k with
  | "p" => do let n ← str; let v ← str; pure (.plain n, v)
  | "q" => do let p ← ostr; let l ← str; let u ← str; let v ← str; pure (.qual p l u, v)
  | _ => failure

def pcall : R PCall := do
  let k ← word
  match k with
  | "E" => do let ns ← ostr; let n ← str; pure (.mkElem ns n)
  | "C" => do let d ← str; pure (.mkComment d)
  | "F" => pure .mkFrag
  | "Y" => do let n ← ostr; let p ← ostr; let s ← ostr; pure (.doctype n p s)
  | "M" => do let p ← nat; let d ← str; pure (.insComment p d)
  | "a" => do let p ← nat; let c ← nat; pure (.append p c)
  | "t" => do let p ← nat; let d ← str; let b ← onat; pure (.insText p d b)
  | "b" => do let p ← nat; let n ← nat; let r ← nat; pure (.insBefore p n r)
  | "r" => do let p ← nat; let n ← nat; pure (.remove p n)
  | "m" => do let a ← nat; let b ← nat; pure (.reparent a b)
  | "k" => do let a ← nat; pure (.clone a)
  | "s" => do let a ← nat; let l ← list attrKV; pure (.setAttrs a l)
  | "i" => do let a ← nat; let n ← str; let v ← str; pure (.setItem a n v)
  | "g" => do let a ← nat; pure (.getAttrs a)
  | "q" => do let a ← nat; let n ← str; pure (.hasAttr a n)
  | "h" => do let a ← nat; pure (.hasContent a)
  | "P" => do let a ← nat; pure (.parent a)
  | "c" => do let a ← nat; pure (.childNodes a)
  | "D" => pure .getDocument
  | "G" => do let a ← nat; pure (.getFragment a)
  | _ => failure

def script : R (Bool × Bool × List PCall) := do
  let ns ← bool; let full ← bool; let cs ← list pcall
  pure (ns, full, cs)

def rHandle (i : Nat) : String := s!"n{i}"
def rOHandle : Option Nat → String
  | none => "~"
  | some i => rHandle i
def rItems (l : List (Str × Str)) : String := "I" ++ ";".intercalate (l.map fun p => encStr p.1 ++ "=" ++ encStr p.2)
def rList (l : List Nat) : String := "L" ++ ",".intercalate (l.map toString)

/-- exception class as the real side names it -/
def errWord (e : PyErr) : String :=
  let t := e.tag
  let pre := "ValueError:xml.dom."
  if t.startsWith pre then "!" ++ (t.drop pre.length).toString
  else if t.startsWith "LookupError:unmodelled" then "!UNMODELLED"
  else "!" ++ (t.takeWhile (· != ':')).toString

def htmlNs : Str := lit "http://www.w3.org/1999/xhtml"

def stepE (nsHtml full : Bool) (s : ETree.St) : PCall → Except PyErr (ETree.St × String)
  | .mkElem ns n => let (s, i) := s.mkElement n ns; pure (s, rHandle i)
  | .mkComment d => let (s, i) := s.mkComment d; pure (s, rHandle i)
  | .mkFrag => let (s, i) := s.mkFragment; pure (s, rHandle i)
  | .doctype n p sy => do let (s, i) ← s.insertDoctype 0 n p sy; pure (s, rHandle i)
  | .insComment p d => do let (s, i) ← s.insertComment p d; pure (s, rHandle i)
  | .append p c => do let s ← s.appendChild p c; pure (s, "-")
  | .insText p d b => do let s ← s.insertText p d b; pure (s, "-")
  | .insBefore p n r => do let s ← s.insertBefore p n r; pure (s, "-")
  | .remove p n => do let s ← s.removeChild p n; pure (s, "-")
  | .reparent a b => do let s ← s.reparentChildren a b; pure (s, "-")
  | .clone a => do let (s, i) ← s.cloneNode a; pure (s, rHandle i)
  | .setAttrs a l => do let s ← s.setAttributes a l; pure (s, "-")
  | .setItem a n v => do let s ← s.setAttrItem a n v; pure (s, "-")
  | .getAttrs a => do let l ← s.getAttributes a; pure (s, rItems l)
  | .hasAttr a n => do let b ← s.hasAttr a n; pure (s, encBool b)
  | .hasContent a => do let b ← s.hasContent a; pure (s, encBool b)
  | .parent a => do let p ← s.parentOf a; pure (s, rOHandle p)
  | .childNodes a => do let l ← s.childNodesOf a; pure (s, rList l)
  | .getDocument => do let r ← s.getDocument 0 full (if nsHtml then some htmlNs else none); pure (s, rOHandle r)
  | .getFragment a => do let (s, i) ← s.getFragment a; pure (s, rHandle i)

def stepD (s : MiniDom.St) : PCall → Except PyErr (MiniDom.St × String)
  | .mkElem ns n => let (s, i) := s.mkElement n ns; pure (s, rHandle i)
  | .mkComment d => let (s, i) := s.mkComment d; pure (s, rHandle i)
  | .mkFrag => let (s, i) := s.mkFragment; pure (s, rHandle i)
  | .doctype n p sy => do let (s, i) ← s.insertDoctype 0 n p sy; pure (s, rHandle i)
  | .insComment p d => do let (s, i) ← s.insertComment p d; pure (s, rHandle i)
  | .append p c => do let s ← s.appendChild p c; pure (s, "-")
  | .insText p d b => do let s ← s.insertText p d b; pure (s, "-")
  | .insBefore p n r => do let s ← s.insertBefore p n r; pure (s, "-")
  | .remove p n => do let s ← s.removeChild p n; pure (s, "-")
  | .reparent a b => do let s ← s.reparentChildren a b; pure (s, "-")
  | .clone a => do let (s, i) ← s.cloneNode a; pure (s, rHandle i)
  | .setAttrs a l => do let s ← s.setAttributes a l; pure (s, "-")
  | .setItem a n v => do let s ← s.setAttrItem a n v; pure (s, "-")
  | .getAttrs a => do let l ← s.getAttributes a; pure (s, rItems l)
  | .hasAttr a n => do let b ← s.hasAttr a n; pure (s, encBool b)
  | .hasContent a => do let b ← s.hasContent a; pure (s, encBool b)
  | .parent a => do let p ← s.parentOf a; pure (s, rOHandle p)
  | .childNodes a => do let l ← s.childNodesOf a; pure (s, rList l)
  | .getDocument => pure (s, rHandle 0)
  | .getFragment a => do let (s, i) ← s.getFragment a; pure (s, rHandle i)

/-- run the calls until the first exception: final state (if no exception) and the result words -/
def runCalls {σ : Type} (step : σ → PCall → Except PyErr (σ × String)) : σ → List PCall → List String → Option σ × List String
  | s, [], acc => (some s, acc.reverse)
  | s, c :: cs, acc =>
    match step s c with
    | .ok (s, r) => runCalls step s cs (r :: acc)
    | .error e => (none, (errWord e :: acc).reverse)

def handleBackend (ws : List String) : Option String :=
  match ws with
  | "prims:etree" :: rest =>
    match run script rest with
    | none => some "bad-request"
    | some (ns, full, cs) =>
      let (s0, _) := ETree.St.mkDocument {}
      match runCalls (stepE ns full) s0 cs [] with
      | (none, rs) => some ("ok " ++ " ".intercalate rs)
      | (some s, rs) =>
        let trees := (List.range s.size).map fun i =>
          if ETree.absOkE s (s.size + 1) i then encTree (ETree.absE s (s.size + 1) i) else "cyc"
        some ("ok " ++ " ".intercalate rs ++ " # " ++ " # ".intercalate trees)
  | "prims:dom" :: rest =>
    match run script rest with
    | none => some "bad-request"
    | some (_, _, cs) =>
      let (s0, _) := MiniDom.St.mkDocument {}
      match runCalls stepD s0 cs [] with
      | (none, rs) => some ("ok " ++ " ".intercalate rs)
      | (some s, rs) =>
        let trees := (List.range s.size).map fun i =>
          if MiniDom.absOkD s (s.size + 1) i then encTree (MiniDom.absD s (s.size + 1) i) else "cyc"
        some ("ok " ++ " ".intercalate rs ++ " # " ++ " # ".intercalate trees)
  | _ => none
