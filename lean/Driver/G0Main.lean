/- driver_g0: a separate executable for the one op (`g0`) whose definition lives next to theorem modules (H5.Props.C07bGrammar
   imports the C08c development).  The main driver must not import theorem modules: an obligation broken by a change to
   /repo (e.g. a table fact) would otherwise take the model of EVERY property down with it. -/
import Driver.G0Ops

partial def g0loop (h : IO.FS.Stream) (out : IO.FS.Stream) : IO Unit := do
  let line ← h.getLine
  if line.isEmpty then return ()
  let ws := (line.trimAscii.toString.splitOn " ").filter (· ≠ "")
  out.putStrLn ((handleG0 ws).getD "bad-op")
  g0loop h out

def main : IO Unit := do
  g0loop (← IO.getStdin) (← IO.getStdout)
