/- ops of the tree-construction SPECIFICATION (H5.Spec.TreeConstruction) and its comparison with the
   model (H5.Model.TreeBuilder) -/
import H5.Wire
import H5.Spec.TreeConstruction
import Driver.TreeOps
open H5 H5.Wire

def specTreeReq : R (Option Str × Bool × List TTok) := do
  let container ← ostr
  let scripting ← bool
  let toks ← list ttok
  pure (container, scripting, toks)

def encSpecSwitches (sws : List (Nat × H5.Spec.TC.TokSwitch)) : String :=
  encList (fun p => toString p.1 ++ " " ++ p.2.name) sws

def encSpecInit : Option H5.Spec.TC.TokSwitch → String
  | none => "data"
  | some s => s.name

/-- representation differences that are normalised before comparing (NOTES.md, class (c)):
a missing DOCTYPE name / identifier is `None` in html5lib and the empty string in the DOM -/
partial def normModelTree : Tree → Tree
  | .doc cs => .doc (cs.map normModelTree)
  | .frag cs => .frag (cs.map normModelTree)
  | .doctype n p s => .doctype (some (n.getD [])) (some (p.getD [])) (some (s.getD []))
  | .elem ns n a cs => .elem ns n a (cs.map normModelTree)
  | t => t

/-- NON-STANDARD switches of the specification, by name (`-` = none) -/
def devOfWord (w : String) : Option H5.Spec.TC.Dev :=
  if w == "-" then some {} else
  (w.splitOn ",").foldlM (fun (d : H5.Spec.TC.Dev) (f : String) =>
    match f with
    | "special" => some { d with specialHtml5lib := true }
    | "dialog" => some { d with dialogUnknown := true }
    | "ruby" => some { d with rubyOld := true }
    | "breakout" => some { d with breakoutInFragment := true }
    | "xmlbase" => some { d with xmlBase := true }
    | "svgattrs" => some { d with svgLegacyAttrs := true }
    | "fedropshadow" => some { d with noFeDropShadow := true }
    | "endbr" => some { d with endBrKeepsFramesetOk := true }
    | "inner3" => some { d with aaaInnerLoop3 := true }
    | "bookmark" => some { d with aaaBookmarkStale := true }
    | "notinscope" => some { d with aaaNotInScopeOther := true }
    | "cellctx" => some { d with cellContextInCell := true }
    | "formctx" => some { d with noFormContext := true }
    | "command" => some { d with commandHead := true }
    | "scriptctx" => some { d with contextScriptRawtext := true }
    | "nameonly" => some { d with nameOnly := true }
    | "charsrun" => some { d with charsRunUnit := true }
    | "ttdoctype" => some { d with tableTextDoctypeNoFlush := true }
    | "wsnorec" => some { d with wsNoReconstruct := true }
    | "textareabody" => some { d with textareaInBody := true }
    | "dropnl" => some { d with dropNewlineHtml5lib := true }
    | "tabletext" => some { d with tableTextAlways := true }
    | "tablestart" => some { d with tableStartTagViaCurrentMode := true }
    | "buttonlost" => some { d with buttonLostInTable := true }
    | "fosterreset" => some { d with fosterFlagReset := true }
    | _ => none) {}

def specRun (container : Option Str) (scripting : Bool) (toks : List TTok) (dev : H5.Spec.TC.Dev := {}) : String :=
  match H5.Spec.TC.runTokens { context := container, scripting := scripting, dev := dev } toks with
  | .error e => "err " ++ e.tag
  | .ok r => "ok " ++ encTree r.tree ++ " | " ++ encSpecSwitches r.switches ++ " | " ++ encSpecInit r.initial

def modelRun (container : Option Str) (scripting : Bool) (toks : List TTok) : String :=
  let cfg : H5.Model.TB.Cfg := { innerHTML := container, scripting := scripting, namespaceHTMLElements := true }
  match (do
    let (st, sws, _) ← treeRun cfg toks
    let t ← H5.Model.TB.resultE st
    pure (sws, t) : Except PyErr _) with
  | .error e => "err " ++ e.tag
  | .ok (sws, t) =>
    "ok " ++ encTree (normModelTree t) ++ " | " ++
      encList (fun p => toString p.1 ++ " " ++ p.2.name) sws ++ " | " ++
      (H5.Model.TB.initialTokState cfg).name

def handleSpecTree (ws : List String) : Option String :=
  match ws with
  | "spec-tree" :: rest =>
    match run specTreeReq rest with
    | some (c, sc, toks) => some (specRun c sc toks)
    | none => some "bad-request"
  | "treecmp" :: rest =>
    match run specTreeReq rest with
    | some (c, sc, toks) =>
      let m := modelRun c sc toks
      let s := specRun c sc toks
      some (if m == s then "same" else "diff " ++ m ++ " || " ++ s)
    | none => some "bad-request"
  | "treecmpv" :: rest =>
    -- `treecmp` that also returns the model's result when both agree (to tie the REAL tree to it)
    match run specTreeReq rest with
    | some (c, sc, toks) =>
      let m := modelRun c sc toks
      let s := specRun c sc toks
      some (if m == s then "same " ++ m else "diff " ++ m ++ " || " ++ s)
    | none => some "bad-request"
  | "treecmp-dev" :: flags :: rest =>
    -- `treecmp` with NON-STANDARD switches of the specification turned on (classification only)
    match devOfWord flags, run specTreeReq rest with
    | some dev, some (c, sc, toks) =>
      let m := modelRun c sc toks
      let s := specRun c sc toks dev
      some (if m == s then "same" else "diff " ++ m ++ " || " ++ s)
    | _, _ => some "bad-request"
  | _ => none
