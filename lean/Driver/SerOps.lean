/- serializer / retokenizer ops of the line-protocol driver -/
import H5.Wire
import H5.Model.Serializer
import H5.Spec.Retokenize
import Driver.SpecOps
import H5.Model.Pipeline
open H5 H5.Wire

/-- `<mode:l|s|a> <quoteChar:nat> <best> <minimize> <solidus> <space> <lt> <rcdata> <resolve>` -/
def serOpts : R H5.Model.Serializer.Opts := do
  let m ← word
  let q ← nat
  let best ← bool; let mn ← bool; let sol ← bool; let sp ← bool; let lt ← bool; let rc ← bool; let re ← bool
  let mode ← match m with
    | "l" => pure H5.Model.Serializer.QuoteMode.legacy
    | "s" => pure .spec
    | "a" => pure .always
    | _ => failure
  pure { quoteAttrValues := mode, quoteChar := q, useBestQuoteChar := best, minimizeBooleanAttributes := mn,
         useTrailingSolidus := sol, spaceBeforeTrailingSolidus := sp, escapeLtInAttrs := lt, escapeRcdata := rc,
         resolveEntities := re }

def switch : R (Option H5.Spec.Tokenizer.State × Bool) := do
  let w ← word
  let cd ← bool
  if w == "-" then pure (none, cd) else
  match specStateOfName? w with
  | some s => pure (some s, cd)
  | none => failure

def handleSer (ws : List String) : Option String :=
  match ws with
  | "ser" :: rest =>
    match run (do let o ← serOpts; let ts ← list tok; pure (o, ts)) rest with
    | some (o, ts) => some <| encExcept (fun r => s!"{encStr r.1} {encList encStr r.2}") (H5.Model.Serializer.serialize o ts)
    | none => some "bad-request"
  | "roundtrip" :: rest =>
    match run (do let o ← serOpts; let om ← bool; let al ← bool; let ws ← bool; let t ← tree; pure (o, om, al, ws, t)) rest with
    | some (o, om, al, ws, t) =>
      some <| encExcept (fun r => s!"{encTree r.1} | {encStr r.2.1} | {encList encStr r.2.2}")
        (H5.Model.Pipeline.roundTrip o { omitOptionalTags := om, alphabeticalAttributes := al, stripWhitespace := ws } t)
    | none => some "bad-request"
  | "retok" :: rest =>
    match run (do let st ← word; let cd ← bool; let sw ← list switch; let input ← str; pure (st, cd, sw, input)) rest with
    | some (st, cd, sw, input) =>
      match specStateOfName? st with
      | some s => some <| encExcept encTToks ((H5.Spec.retokenize s cd sw input).map H5.Spec.canon)
      | none => some "bad-request"
    | none => some "bad-request"
  | _ => none
