/-
  Line-protocol driver: one request per line, one response per line (DESIGN 2.2 / app. C).
  Imports only Gen + Model (+ Spec): no Mathlib, so it is compiled as a `lean_exe`.
-/
import H5.Wire
import H5.Model.OptionalTags
import H5.Model.Alphabetical
import H5.Model.Whitespace
import H5.Model.Infoset
import Driver.TokOps
import Driver.SpecOps
import Driver.SerOps
import Driver.TreeOps
import Driver.SanOps
import Driver.StreamOps
import Driver.EncOps
import Driver.BackendOps
import Driver.SpecTreeOps
import H5.Model.Walker
import H5.Model.Sax
import H5.Model.InjectMeta
open H5 H5.Wire

def otok : R (Option Tok) := do
  let w ← word
  if w == "~" then pure none else do
    -- push the word back: token reader expects the kind word first
    let rest ← get
    set (w :: rest)
    let t ← tok
    pure (some t)

def flags : R H5.Model.Infoset.Flags := do
  let a ← bool; let b ← bool; let c ← bool; let d ← bool; let e ← bool; let f ← bool
  pure { dropXmlnsLocalName := a, dropXmlnsAttrNs := b, preventDoubleDashComments := c,
         preventDashAtCommentEnd := d, replaceFormFeedCharacters := e, preventSingleQuotePubid := f }

def handleXml (ws : List String) : String :=
  open H5.Model.Infoset in
  match ws with
  | "xml:toXmlName" :: rest =>
    match run str rest with
    | some s => encExcept encStr (toXmlName s)
    | none => "bad-request"
  | "xml:fromXmlName" :: rest =>
    match run str rest with
    | some s => encExcept encStr (fromXmlName s)
    | none => "bad-request"
  | "xml:comment" :: rest =>
    match run (do let f ← flags; let s ← str; pure (f, s)) rest with
    | some (f, s) => encExcept encStr (coerceComment f s)
    | none => "bad-request"
  | "xml:pubid" :: rest =>
    match run (do let f ← flags; let s ← str; pure (f, s)) rest with
    | some (f, s) => "ok " ++ encStr (coercePubid f s)
    | none => "bad-request"
  | "xml:chars" :: rest =>
    match run (do let f ← flags; let s ← str; pure (f, s)) rest with
    | some (f, s) => "ok " ++ encStr (coerceCharacters f s)
    | none => "bad-request"
  | "xml:attr" :: rest =>
    match run (do let f ← flags; let s ← str; let ns ← ostr; pure (f, s, ns)) rest with
    | some (f, s, ns) => encExcept encOStr (coerceAttribute f s ns)
    | none => "bad-request"
  | _ => "bad-op"

def encEv : H5.Model.Sax.Ev → String
  | .startDocument => "SD"
  | .endDocument => "ED"
  | .startPrefixMapping p ns => s!"SP {encStr p} {encStr ns}"
  | .endPrefixMapping p => s!"EP {encStr p}"
  | .startElementNS ns n a => s!"SE {encOStr ns} {encStr n} " ++
      encList (fun x => s!"{encAttr x} {encOStr (H5.Model.Sax.qnameOf x)}") a
  | .endElementNS ns n => s!"EE {encOStr ns} {encStr n}"
  | .characters s => s!"CH {encStr s}"

def handle (ws : List String) : String :=
  match ws with
  | "optfilter" :: rest =>
    match run (list tok) rest with
    | some ts => encExcept encToks (H5.Model.OptionalTags.filter ts)
    | none => "bad-request"
  | "fn:isOptionalStart" :: rest =>
    match run (do let n ← str; let p ← otok; let x ← otok; pure (n, p, x)) rest with
    | some (n, p, x) => encExcept encBool (H5.Gen.isOptionalStart n p x)
    | none => "bad-request"
  | "fn:isOptionalEnd" :: rest =>
    match run (do let n ← str; let x ← otok; pure (n, x)) rest with
    | some (n, x) => encExcept encBool (H5.Gen.isOptionalEnd n x)
    | none => "bad-request"
  | "alpha" :: rest =>
    match run (list tok) rest with
    | some ts => "ok " ++ encToks (H5.Model.Alphabetical.filter ts)
    | none => "bad-request"
  | "ws" :: rest =>
    match run (list tok) rest with
    | some ts => "ok " ++ encToks (H5.Model.Whitespace.filter ts)
    | none => "bad-request"
  | "inject" :: rest =>
    match run (do let e ← str; let ts ← list tok; pure (e, ts)) rest with
    | some (e, ts) => "ok " ++ encToks (H5.Model.InjectMeta.inject e ts)
    | none => "bad-request"
  | "sax" :: rest =>
    match run (list tok) rest with
    | some ts => encExcept (encList encEv) (H5.Model.Sax.toSax ts)
    | none => "bad-request"
  | "walk" :: rest =>
    match run tree rest with
    | some t => encExcept encToks (H5.Model.Walker.walk t)
    | none => "bad-request"
  | op :: rest =>
    if op.startsWith "xml:" then handleXml (op :: rest) else
    -- add-on op files: one `List String → Option String` handler each
    match [handleTok, handleSpec, handleSer, handleTreeOps, handleSan, handleStream, handleEnc, handleBackend, handleSpecTree].findSome? (fun h => h (op :: rest)) with
    | some r => r
    | none => "bad-op"
  | _ => "bad-op"

partial def loop (h : IO.FS.Stream) (out : IO.FS.Stream) : IO Unit := do
  let line ← h.getLine
  if line.isEmpty then return ()
  let ws := (line.trimAscii.toString.splitOn " ").filter (· ≠ "")
  out.putStrLn (handle ws)
  -- interactive clients (shrinking loops of tools/spec_tree_corr.py) keep one driver open and read each answer at once
  if (ws.head?.getD "").startsWith "treecmp" || (ws.head?.getD "").startsWith "spec-tree" then out.flush
  loop h out

def main : IO Unit := do
  let stdin ← IO.getStdin
  let stdout ← IO.getStdout
  loop stdin stdout
