/- tree-construction ops of the line-protocol driver -/
import H5.Wire
import H5.Model.TreeBuilder
import H5.Model.Parser
open H5 H5.Wire

/-- request of the `tree` / `treev` ops -/
def treeReq : R (H5.Model.TB.Cfg × List TTok) := do
  let container ← ostr
  let scripting ← bool
  let nsHtml ← bool
  let toks ← list ttok
  pure ({ innerHTML := container, scripting := scripting, namespaceHTMLElements := nsHtml }, toks)

/-- fold `step`, recording the tokenizer-state switches `(token index, state)` and the value of
`cdataAllowed` after every step -/
def treeRun (cfg : H5.Model.TB.Cfg) (toks : List TTok) :
    Except PyErr (H5.Model.TB.PState × List (Nat × H5.Model.TB.TokStateSwitch) × List Bool) := do
  let st ← H5.Model.TB.init cfg
  let rec go (st : H5.Model.TB.PState) (i : Nat) (acc : List (Nat × H5.Model.TB.TokStateSwitch))
      (cd : List Bool) :
      List TTok → Except PyErr (H5.Model.TB.PState × List (Nat × H5.Model.TB.TokStateSwitch) × List Bool)
    | [] => pure (st, acc.reverse, cd.reverse)
    | t :: ts => do
      let (st, sw) ← H5.Model.TB.step cfg st t
      go st (i + 1) (match sw with | some s => (i, s) :: acc | none => acc)
        (H5.Model.TB.cdataAllowed st :: cd) ts
  let (st, sws, cd) ← go st 0 [] [] toks
  let st ← H5.Model.TB.finish cfg st
  pure (st, sws, cd)

def handleTree (verbose : Bool) (rest : List String) (maxRec : Option Nat := none) : String :=
  match run treeReq rest with
  | none => "bad-request"
  | some (cfg, toks) =>
    let cfg := match maxRec with
      | some k => { cfg with maxRecursion := k }
      | none => cfg
    match (do
      let (st, sws, cd) ← treeRun cfg toks
      let t ← H5.Model.TB.resultE st
      pure (st, sws, cd, t) : Except PyErr _) with
    | .error e => "err " ++ e.tag
    | .ok (st, sws, cd, t) =>
      if verbose then
        "ok " ++ encTree t ++ " | " ++
          encList (fun e => encStr e.1 ++ " " ++ encList encPair e.2) st.errors.toList ++ " | " ++
          encList (fun p => toString p.1 ++ " " ++ p.2.name) sws ++ " | " ++
          (H5.Model.TB.initialTokState cfg).name ++ " | " ++
          (if cd.isEmpty then "-" else String.ofList (cd.map fun b => if b then '1' else '0'))
      else
        "ok " ++ encTree t ++ " | " ++ encList encStr (H5.Model.TB.errorCodes st)


def handleTreeOps (ws : List String) : Option String :=
  match ws with
  | "parse" :: rest =>
    match run (do let c ← ostr; let sc ← bool; let ns ← bool; let input ← str; pure (c, sc, ns, input)) rest with
    | some (c, sc, ns, input) =>
      let cfg : H5.Model.TB.Cfg := { innerHTML := c, scripting := sc, namespaceHTMLElements := ns }
      some <| encExcept (fun r => encTree r.1 ++ " | " ++ encList encStr r.2) (H5.Model.Parser.parse cfg input)
    | none => some "bad-request"
  | "parsex" :: rest =>
    -- `parse` with the strict flag first: `HTMLParser(strict=…)`; a strict run answers `err ParseError`
    match run (do let st ← bool; let c ← ostr; let sc ← bool; let ns ← bool; let input ← str; pure (st, c, sc, ns, input)) rest with
    | some (st, c, sc, ns, input) =>
      let cfg : H5.Model.TB.Cfg := { innerHTML := c, scripting := sc, namespaceHTMLElements := ns, strict := st }
      some <| match H5.Model.Parser.parse cfg input with
        | .ok r => "ok " ++ encTree r.1 ++ " | " ++ encList encStr r.2
        | .error (.parseError c) => "err ParseError:" ++ encStr c     -- the code of the error that was raised
        | .error e => "err " ++ e.tag
    | none => some "bad-request"
  | "tree" :: rest => some (handleTree false rest)
  | "treev" :: rest => some (handleTree true rest)
  | "treer" :: n :: rest =>
    -- `tree` with an explicit bound on the Python recursion depth (Cfg.maxRecursion)
    match n.toNat? with
    | some k => some (handleTree false rest (some k))
    | none => some "bad-request"
  | _ => none
