import H5.Basic
import H5.Wire
