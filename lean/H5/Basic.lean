/-
  H5.Basic — carrier types shared by every model (import-free).

  Strings are lists of code points (`Nat`), because Python `str` may hold lone
  surrogates (a Lean `Char` cannot) and because kernel decisions on `List Nat`
  are cheap.  Nothing here is specific to one property.
-/
namespace H5

abbrev Str := List Nat

/-- Python exception classes that the models make explicit. -/
inductive PyErr where
  | typeError (site : String)
  | keyError (site : String)
  | indexError (site : String)
  | assertFail (site : String)
  | valueError (site : String)
  | recursion (site : String)
  | outOfFuel (site : String)
  | parseError (code : Str)
  | unicodeEncode (site : String)
  | lookupError (site : String)
  | attributeError (site : String)
  deriving Repr, DecidableEq, BEq

def PyErr.tag : PyErr → String
  | .typeError s => "TypeError:" ++ s
  | .keyError s => "KeyError:" ++ s
  | .indexError s => "IndexError:" ++ s
  | .assertFail s => "AssertionError:" ++ s
  | .valueError s => "ValueError:" ++ s
  | .recursion s => "RecursionError:" ++ s
  | .outOfFuel s => "OutOfFuel:" ++ s
  | .parseError _ => "ParseError"
  | .unicodeEncode s => "UnicodeEncodeError:" ++ s
  | .lookupError s => "LookupError:" ++ s
  | .attributeError s => "AttributeError:" ++ s

/-- A namespaced attribute as tree walkers emit it: key `(namespace, name)` and value. -/
structure Attr where
  ns : Option Str
  name : Str
  value : Str
  deriving Repr, DecidableEq, BEq

/-- Tree-walker / filter token (the dicts of `treewalkers/base.py`). -/
inductive Tok where
  | doctype (name : Option Str) (pub sys : Option Str)
  | chars (s : Str)
  | space (s : Str)
  | startTag (ns : Option Str) (name : Str) (attrs : List Attr)
  | endTag (ns : Option Str) (name : Str)
  | emptyTag (ns : Option Str) (name : Str) (attrs : List Attr)
  | comment (s : Str)
  | entity (name : Str)
  | serr (msg : Str)
  deriving Repr, DecidableEq, BEq


/-- Tokenizer token (the dicts of `_tokenizer.py`). `vars` of a parse error are the
`datavars` rendered as strings (an `int` in decimal). -/
inductive TTok where
  | doctype (name : Option Str) (pub sys : Option Str) (correct : Bool)
  | chars (s : Str)
  | space (s : Str)
  | startTag (name : Str) (attrs : List (Str × Str)) (selfClosing : Bool)
  | endTag (name : Str) (attrs : List (Str × Str)) (selfClosing : Bool)
  | comment (s : Str)
  | parseError (code : Str) (vars : List (Str × Str))
  deriving Repr, DecidableEq, BEq

/-- Abstract tree (what every tree builder is abstracted to). -/
inductive Tree where
  | doc (children : List Tree)
  | frag (children : List Tree)
  | doctype (name : Option Str) (pub sys : Option Str)
  | elem (ns : Option Str) (name : Str) (attrs : List Attr) (children : List Tree)
  | text (s : Str)
  | comment (s : Str)
  deriving Repr, BEq

/-! ### String helpers mirroring the Python `str` methods the code uses -/

def Str.startsWith (s p : Str) : Bool := p.isPrefixOf s

/-- Python `needle in hay` for strings: substring test (`""` is in every string). -/
def Str.isInfix (needle hay : Str) : Bool :=
  match hay with
  | [] => needle.isEmpty
  | c :: rest => needle.isPrefixOf (c :: rest) || Str.isInfix needle rest

/-- ASCII lower-casing (`asciiUpper2Lower` translate table). -/
def asciiLowerChar (c : Nat) : Nat := if 65 ≤ c ∧ c ≤ 90 then c + 32 else c
def Str.asciiLower (s : Str) : Str := s.map asciiLowerChar

/-- `s.replace(old, new)` for a one-character `old`. -/
def Str.replaceChar (s : Str) (old : Nat) (new : Str) : Str :=
  s.flatMap fun c => if c = old then new else [c]

/-- `s.replace(old, new)` for a non-empty `old` (left-to-right, non-overlapping). -/
def Str.replaceSub (s old new : Str) : Str :=
  go s s.length
where
  go (s : Str) : Nat → Str
    | 0 => s
    | fuel + 1 =>
      match s with
      | [] => []
      | c :: rest =>
        if old ≠ [] ∧ old.isPrefixOf (c :: rest) then new ++ go ((c :: rest).drop old.length) fuel
        else c :: go rest fuel

/-- `s.find(sub) >= 0` -/
def Str.contains (s sub : Str) : Bool := Str.isInfix sub s

def hexDigitChar (n : Nat) : Nat := if n < 10 then 48 + n else 87 + n       -- lower-case
def hexDigitCharU (n : Nat) : Nat := if n < 10 then 48 + n else 55 + n      -- upper-case

def toHexAux (digit : Nat → Nat) : Nat → Nat → Str → Str
  | 0, _, acc => acc
  | fuel + 1, n, acc =>
    if n < 16 then digit n :: acc else toHexAux digit fuel (n / 16) (digit (n % 16) :: acc)

/-- `hex(n)[2:]` -/
def toHexLower (n : Nat) : Str := toHexAux hexDigitChar (n + 1) n []
def toHexUpper (n : Nat) : Str := toHexAux hexDigitCharU (n + 1) n []

/-- left-pad with `'0'` to `w` characters -/
def padZero (w : Nat) (s : Str) : Str := List.replicate (w - s.length) 48 ++ s


/-! ### Token field access as the Python dict subscripts behave -/

def Tok.typeName : Tok → Str
  | .doctype .. => [68, 111, 99, 116, 121, 112, 101]                                   -- "Doctype"
  | .chars .. => [67, 104, 97, 114, 97, 99, 116, 101, 114, 115]                        -- "Characters"
  | .space .. => [83, 112, 97, 99, 101, 67, 104, 97, 114, 97, 99, 116, 101, 114, 115]  -- "SpaceCharacters"
  | .startTag .. => [83, 116, 97, 114, 116, 84, 97, 103]                               -- "StartTag"
  | .endTag .. => [69, 110, 100, 84, 97, 103]                                          -- "EndTag"
  | .emptyTag .. => [69, 109, 112, 116, 121, 84, 97, 103]                              -- "EmptyTag"
  | .comment .. => [67, 111, 109, 109, 101, 110, 116]                                  -- "Comment"
  | .entity .. => [69, 110, 116, 105, 116, 121]                                        -- "Entity"
  | .serr .. => [83, 101, 114, 105, 97, 108, 105, 122, 101, 69, 114, 114, 111, 114]    -- "SerializeError"

/-- `token["name"]`; `KeyError` where the dict has no such key. -/
def Tok.nameE : Tok → Except PyErr Str
  | .startTag _ n _ => .ok n
  | .endTag _ n => .ok n
  | .emptyTag _ n _ => .ok n
  | .entity n => .ok n
  | .doctype (some n) _ _ => .ok n
  | _ => .error (.keyError "name")

/-- `X and X["type"] or None` for an optional token -/
def otokType (t : Option Tok) : Option Str := t.map Tok.typeName

/-- `X["name"]` for an optional token: `TypeError` on `None`. -/
def otokName (t : Option Tok) : Except PyErr Str :=
  match t with
  | none => .error (.typeError "NoneType is not subscriptable")
  | some t => t.nameE

def otokTypeE (t : Option Tok) : Except PyErr Str :=
  match t with
  | none => .error (.typeError "NoneType is not subscriptable")
  | some t => .ok t.typeName

def Tok.isTag : Tok → Bool
  | .startTag .. | .endTag .. | .emptyTag .. => true
  | _ => false

/-- membership in a character class given as inclusive ranges -/
def inRanges (rs : List (Nat × Nat)) (c : Nat) : Bool := rs.any fun r => r.1 ≤ c && c ≤ r.2

def lit (s : String) : Str := s.toList.map Char.toNat

end H5
