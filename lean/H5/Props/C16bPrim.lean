/-
  C16 simulation — `Ob` specifications of the primitives (State.lean), the arena operations (`PP`) and the
  algorithms of Helpers.lean.  The only places where the flag and the error list are touched are
  `raiseIfStrict` and the three `parseError*` primitives (`Ob_parseError…`, proved by hand); everything else is
  derived structurally by `ob_auto`.
-/
import H5.Props.C16bCore
set_option linter.unusedSimpArgs false
set_option linter.unusedVariables false
namespace H5.Props.C16b
open H5 H5.Model H5.Model.TB H5.Model.Dom

/-- the nested dispatcher is oblivious -/
structure RecOb (r : Rec) : Prop where
  S : ∀ ph tok, Ob (r.processStartTag ph tok)
  E : ∀ ph tok, Ob (r.processEndTag ph tok)
  Ch : ∀ ph tok, Ob (r.processCharacters ph tok)
  Sp : ∀ ph tok, Ob (r.processSpaceCharacters ph tok)
  Cm : ∀ ph tok, Ob (r.processComment ph tok)
  D : ∀ ph tok, Ob (r.processDoctype ph tok)
  EOF : ∀ ph, Ob (r.processEOF ph)

/-! ### pure `Except` helpers and arena operations -/

instance PP_nsE (k) : PP (nsE k) := by unfold nsE; pp_auto
instance PP_listElements (v) : PP (listElements v) := by unfold listElements; pp_auto
instance PP_tag (t : Token) (s) : PP (t.tag s) := by unfold Token.tag; pp_auto
instance PP_text (t : Token) (s) : PP (t.text s) := by unfold Token.text; pp_auto
instance PP_ofKey (s k) : PP (Phase.ofKey s k) := by unfold Phase.ofKey; pp_auto
instance PP_className (p : Phase) : PP p.className := by unfold Phase.className; pp_auto

instance PP_arena_get (a : Arena) (i) : PP (a.get i) := by unfold Arena.get; pp_auto
instance PP_arena_modify (a : Arena) (i f) : PP (a.modify i f) := by unfold Arena.modify; pp_auto
instance PP_arena_parentOf (a : Arena) (i) : PP (a.parentOf i) := by unfold Arena.parentOf; pp_auto
instance PP_arena_childrenOf (a : Arena) (i) : PP (a.childrenOf i) := by unfold Arena.childrenOf; pp_auto
instance PP_arena_detach (a : Arena) (i) : PP (a.detach i) := by unfold Arena.detach; pp_auto
instance PP_arena_appendChild (a : Arena) (p c) : PP (a.appendChild p c) := by unfold Arena.appendChild; pp_auto
instance PP_arena_insertBefore (a : Arena) (p n r) : PP (a.insertBefore p n r) := by
  unfold Arena.insertBefore; pp_auto
instance PP_arena_insertText (a : Arena) (p d b) : PP (a.insertText p d b) := by unfold Arena.insertText; pp_auto
instance PP_arena_removeChild (a : Arena) (p n) : PP (a.removeChild p n) := by unfold Arena.removeChild; pp_auto
instance PP_arena_cloneNode (a : Arena) (n) : PP (a.cloneNode n) := by unfold Arena.cloneNode; pp_auto
instance PP_arena_hasContent (a : Arena) (n) : PP (a.hasContent n) := by unfold Arena.hasContent; pp_auto
instance PP_arena_attrsOf (a : Arena) (n) : PP (a.attrsOf n) := by unfold Arena.attrsOf; pp_auto
instance PP_arena_setAttr (a : Arena) (n k v) : PP (a.setAttr n k v) := by unfold Arena.setAttr; pp_auto

theorem PP_foldlM {α β : Type} (f : β → α → Except PyErr β) (h : ∀ b a, PP (f b a)) (l : List α) (b : β) :
    PP (l.foldlM f b) := by
  induction l generalizing b with
  | nil => exact ⟨trivial⟩
  | cons x r ih =>
    simp only [List.foldlM_cons]
    haveI := h b x
    haveI : ∀ b', PP (List.foldlM f b' r) := ih
    infer_instance

instance PP_arena_reparentChildren (a : Arena) (n p) : PP (a.reparentChildren n p) := by
  unfold Arena.reparentChildren
  haveI : ∀ (l : List NodeId) (b : Arena),
      PP (l.foldlM (fun a c => a.modify c fun cn => { cn with parent := some p }) b) :=
    fun l b => PP_foldlM _ (fun _ _ => inferInstance) l b
  pp_auto

/-! ### the parse-error primitives: the ONLY code that looks at the flag or writes the error list -/

theorem raiseIfStrict_run (c : Str) (st : PState) :
    (raiseIfStrict c).run st = if st.cfg.strict = true then .error (.parseError c) else .ok ((), st) := by
  have : (raiseIfStrict c).run st = (if st.cfg.strict = true then throw (.parseError c) else pure () : M Unit).run st :=
    rfl
  rw [this]
  split <;> rfl

/-- push one error, then raise it when strict -/
theorem Ob_pushRaise (e : Str × List (Str × Str)) :
    Ob (do modify (fun st => { st with errors := st.errors.push e }); raiseIfStrict e.1 : M Unit) :=
  ⟨fun st hs => by
    have hrun : ∀ s : PState, (do modify (fun st => { st with errors := st.errors.push e }); raiseIfStrict e.1 : M Unit).run s
        = (raiseIfStrict e.1).run { s with errors := s.errors.push e } := fun _ => rfl
    rw [hrun, hrun, raiseIfStrict_run, raiseIfStrict_run]
    have hs' : ({ st with errors := st.errors.push e } : PState).cfg.strict = false := hs
    have hf' : ({ flip st with errors := (flip st).errors.push e } : PState).cfg.strict = true := rfl
    rw [hs', hf']
    exact ⟨rfl, [e], by simp, rfl⟩⟩

instance Ob_parseError (c v) : Ob (parseError c v) := by unfold parseError; exact Ob_pushRaise (lit c, _)
instance Ob_parseErrorDefault : Ob parseErrorDefault := by
  unfold parseErrorDefault; exact Ob_pushRaise (Gen.Lit.parseErrorDefaultCode, [])
instance Ob_parseErrorS (c v) : Ob (parseErrorS c v) := by unfold parseErrorS; exact Ob_pushRaise (c, v)

/-! ### State.lean -/

instance Ob_pyAssert (c s) : Ob (pyAssert c s) := by unfold pyAssert; ob_auto

instance Ob_getNode (i) : Ob (getNode i) := ⟨fun st _ => by
  have hp := (PP_arena_get st.arena i).out
  have hrun : ∀ s : PState, (getNode i).run s = match s.arena.get i with
      | .ok n => .ok (n, s)
      | .error e => .error e := by
    intro s
    show (match s.arena.get i with | .ok n => pure n | .error e => throw e : M Node).run s = _
    cases s.arena.get i <;> rfl
  rw [hrun, hrun]
  show Rel st (match st.arena.get i with | .ok n => .ok (n, st) | .error e => .error e)
    (match st.arena.get i with | .ok n => .ok (n, flip st) | .error e => .error e)
  cases hg : st.arena.get i with
  | ok n => exact ⟨rfl, [], by simp, rfl⟩
  | error e => rw [hg] at hp; exact ⟨hp, Or.inl rfl⟩⟩

instance Ob_modifyArena (f : Arena → Except PyErr Arena) [h : ∀ a, PP (f a)] : Ob (modifyArena f) := ⟨fun st _ => by
  have hp := (h st.arena).out
  have hrun : ∀ s : PState, (modifyArena f).run s = match f s.arena with
      | .ok a => .ok ((), { s with arena := a })
      | .error e => .error e := by
    intro s
    show (match f s.arena with | .ok a => set { s with arena := a } | .error e => throw e : M Unit).run s = _
    cases f s.arena <;> rfl
  rw [hrun, hrun]
  show Rel st (match f st.arena with | .ok a => .ok ((), { st with arena := a }) | .error e => .error e)
    (match f st.arena with | .ok a => .ok ((), { flip st with arena := a }) | .error e => .error e)
  cases hg : f st.arena with
  | ok a => exact ⟨rfl, [], by simp, rfl⟩
  | error e => rw [hg] at hp; exact ⟨hp, Or.inl rfl⟩⟩

instance Ob_allocNode (k a) : Ob (allocNode k a) := ⟨fun st _ => ⟨rfl, [], by
  show (st.errors.toList = st.errors.toList ++ [])
  simp, rfl⟩⟩

instance Ob_elemInfo (i) : Ob (elemInfo i) := by unfold elemInfo; ob_auto
instance Ob_nodeName (i) : Ob (nodeName i) := by unfold nodeName; ob_auto
instance Ob_nodeNs (i) : Ob (nodeNs i) := by unfold nodeNs; ob_auto
instance Ob_nameTuple (i) : Ob (nameTuple i) := by unfold nameTuple; ob_auto
instance Ob_nodeAttrs (i) : Ob (nodeAttrs i) := by unfold nodeAttrs; ob_auto
instance Ob_nodeParent (i) : Ob (nodeParent i) := by unfold nodeParent; ob_auto
instance Ob_nameIs (i s) : Ob (nameIs i s) := by unfold nameIs; ob_auto

instance Ob_openElems : Ob openElems := by unfold openElems; ob_auto
instance Ob_setOpen (l) : Ob (setOpen l) := by unfold setOpen; ob_auto
instance Ob_openLast (s) : Ob (openLast s) := by unfold openLast; ob_auto
instance Ob_openAt (i s) : Ob (openAt i s) := by unfold openAt; ob_auto
instance Ob_openPop (s) : Ob (openPop s) := by unfold openPop; ob_auto
instance Ob_openPush (x) : Ob (openPush x) := by unfold openPush; ob_auto
instance Ob_inOpen (x) : Ob (inOpen x) := by unfold inOpen; ob_auto
instance Ob_openRemove (x s) : Ob (openRemove x s) := by unfold openRemove; ob_auto
instance Ob_openIndex (x s) : Ob (openIndex x s) := by unfold openIndex; ob_auto

instance Ob_afe : Ob afe := by unfold afe; ob_auto
instance Ob_setAfe (l) : Ob (setAfe l) := by unfold setAfe; ob_auto
instance Ob_inAfe (x) : Ob (inAfe x) := by unfold inAfe; ob_auto
instance Ob_afeRemove (x s) : Ob (afeRemove x s) := by unfold afeRemove; ob_auto
instance Ob_afeIndex (x s) : Ob (afeIndex x s) := by unfold afeIndex; ob_auto

instance Ob_getPhase : Ob getPhase := by unfold getPhase; ob_auto
instance Ob_setPhase (p) : Ob (setPhase p) := by unfold setPhase; ob_auto
instance Ob_setPhaseO (p) : Ob (setPhaseO p) := by unfold setPhaseO; ob_auto
instance Ob_curPhase (s) : Ob (curPhase s) := by unfold curPhase; ob_auto
instance Ob_setFramesetOK (b) : Ob (setFramesetOK b) := by unfold setFramesetOK; ob_auto
instance Ob_setTokState (s) : Ob (setTokState s) := by unfold setTokState; ob_auto
instance Ob_setInsertFromTable (b) : Ob (setInsertFromTable b) := by unfold setInsertFromTable; ob_auto
instance Ob_innerHTMLTruthy : Ob innerHTMLTruthy := by unfold innerHTMLTruthy; ob_auto
instance Ob_acknowledgeSelfClosing (d) : Ob (acknowledgeSelfClosing d) := by unfold acknowledgeSelfClosing; ob_auto

end H5.Props.C16b
