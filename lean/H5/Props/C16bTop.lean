/-
  C16 simulation — `mainLoop`: the reprocess loop, one token (`stepM`), the EOF loop are oblivious.
-/
import H5.Props.C16bDispatch
set_option linter.unusedSimpArgs false
set_option linter.unusedVariables false
namespace H5.Props.C16b
open H5 H5.Model H5.Model.TB H5.Model.Dom

instance Ob_useCurrentPhase (tok) : Ob (useCurrentPhase tok) := by unfold useCurrentPhase; ob_auto

theorem Ob_reprocessLoop {r : Rec} (hr : RecOb r) : ∀ fuel tok, Ob (reprocessLoop r fuel tok)
  | 0, tok => by unfold reprocessLoop; ob_auto
  | fuel + 1, tok => by
    unfold reprocessLoop
    haveI : ∀ t, Ob (reprocessLoop r fuel t) := Ob_reprocessLoop hr fuel
    ob_auto

instance Ob_stepM (t : TTok) : Ob (stepM t) := by
  unfold stepM
  haveI : ∀ n fuel tok, Ob (reprocessLoop (mkRec n) fuel tok) := fun n => Ob_reprocessLoop (mkRec_ob n)
  ob_auto

theorem Ob_eofLoop {r : Rec} (hr : RecOb r) : ∀ fuel phases, Ob (eofLoop r fuel phases)
  | 0, phases => by unfold eofLoop; ob_auto
  | fuel + 1, phases => by
    unfold eofLoop
    haveI : ∀ p, Ob (eofLoop r fuel p) := Ob_eofLoop hr fuel
    ob_auto

end H5.Props.C16b
