/-
  C03c — the stack primitives seen through the invariant: what `nodeName`, `elementInScope`, `openPop`, `insertElement`, …
  compute on a state whose open elements are element nodes, and which classes (`SV`, `KP`, `KS`) they belong to.
-/
import H5.Props.C03cCore
set_option linter.unusedSimpArgs false
set_option linter.unusedVariables false
namespace H5.Props.C03c
open H5 H5.Model H5.Model.TB H5.Model.Dom
open H5.Props.C02c (NF Post Post_bind Post_mono Post_pure Post_ok Post_error Post_throw Post_ite
  NF_typeError NF_keyError NF_indexError NF_assertFail NF_valueError NF_lookupError)
open H5.Props.C03b

/-! ### reading a node -/

theorem kindAt_node {a : Arena} {i : NodeId} {k : Kind} (h : kindAt a i = some k) :
    ∃ n, a.nodes[i]? = some n ∧ n.kind = k := by
  unfold kindAt at h
  cases hn : a.nodes[i]? with
  | none => rw [hn] at h; cases h
  | some n => rw [hn] at h; simp only [Option.map_some, Option.some.injEq] at h; exact ⟨n, rfl, h⟩

theorem Tr_getNode {st : PState} {i : NodeId} {n : Node} (h : st.arena.nodes[i]? = some n) (Q : Node → PState → Prop) :
    Tr (getNode i) st Q ↔ Q n st := by
  unfold getNode
  simp only [Tr_bind, Tr_get]
  unfold Arena.get
  rw [h]
  exact Iff.rfl

theorem Tr_elemInfo {st : PState} {i : NodeId} (h : IsEl st.arena i) (Q : Option Str × Str → PState → Prop) :
    Tr (elemInfo i) st Q ↔ Q (elemK st.arena i) st := by
  obtain ⟨ns, nm, hk⟩ := h
  obtain ⟨n, hn, hkind⟩ := kindAt_node hk
  unfold elemInfo
  simp only [Tr_bind, Tr_getNode hn]
  unfold elemK
  rw [hk, hkind]
  exact Iff.rfl

theorem Tr_nodeName {st : PState} {i : NodeId} (h : IsEl st.arena i) (Q : Str → PState → Prop) :
    Tr (nodeName i) st Q ↔ Q (elemK st.arena i).2 st := by
  unfold nodeName
  simp only [Tr_bind, Tr_elemInfo h, Tr_pure]

theorem Tr_nodeNs {st : PState} {i : NodeId} (h : IsEl st.arena i) (Q : Option Str → PState → Prop) :
    Tr (nodeNs i) st Q ↔ Q (elemK st.arena i).1 st := by
  unfold nodeNs
  simp only [Tr_bind, Tr_elemInfo h, Tr_pure]

theorem nsE_html : nsE "html" = .ok htmlNs := by decide

theorem Tr_nameTuple {st : PState} {i : NodeId} (h : IsEl st.arena i) (Q : Str × Str → PState → Prop) :
    Tr (nameTuple i) st Q ↔ Q (tup (elemK st.arena i)) st := by
  unfold nameTuple
  simp only [Tr_bind, Tr_elemInfo h]
  unfold tup
  cases hns : (elemK st.arena i).1 with
  | some n => simp only [Tr_pure, Option.getD_some]
  | none =>
    simp only [Option.getD_none]
    show Tr (liftM (nsE "html") >>= _) st Q ↔ _
    simp only [Tr_bind, Tr_lift, nsE_html, Post_ok, Tr_pure]

theorem Tr_nameIs {st : PState} {i : NodeId} (h : IsEl st.arena i) (s : String) (Q : Bool → PState → Prop) :
    Tr (nameIs i s) st Q ↔ Q ((elemK st.arena i).2 == lit s) st := by
  unfold nameIs
  simp only [Tr_bind, Tr_nodeName h, Tr_pure]

/-! ### arena operations keep the kinds of the nodes -/

class AE (f : Arena → Except PyErr Arena) : Prop where
  out : ∀ a a', f a = .ok a' → Ext a a'

instance AE_appendChild (p c) : AE (·.appendChild p c) := ⟨fun _ _ h => Ext_appendChild h⟩
instance AE_insertBefore (p n r) : AE (·.insertBefore p n r) := ⟨fun _ _ h => Ext_insertBefore h⟩
instance AE_insertText (p d b) : AE (·.insertText p d b) := ⟨fun _ _ h => Ext_insertText h⟩
instance AE_removeChild (p n) : AE (·.removeChild p n) := ⟨fun _ _ h => Ext_removeChild h⟩
instance AE_reparentChildren (n p) : AE (·.reparentChildren n p) := ⟨fun _ _ h => Ext_reparentChildren h⟩
instance AE_setAttr (i k v) : AE (·.setAttr i k v) := ⟨fun _ _ h => Ext_setAttr h⟩

theorem Same_arena (st : PState) (a : Arena) (h : Ext st.arena a) : Same st { st with arena := a } :=
  ⟨rfl, rfl, rfl, rfl, rfl, rfl, h⟩

theorem Tr_modifyArena (f : Arena → Except PyErr Arena) (st : PState) (Q : Unit → PState → Prop)
    (hnf : ENF (f st.arena)) (h : ∀ a, f st.arena = .ok a → Q () { st with arena := a }) :
    Tr (modifyArena f) st Q := by
  unfold modifyArena
  simp only [Tr_bind, Tr_get]
  cases hf : f st.arena with
  | ok a => exact h a hf
  | error e =>
    have := hnf.out
    rw [hf] at this
    simp only [Tr_throw]
    exact this

instance SV_modifyArena (f : Arena → Except PyErr Arena) [h : ∀ a, ENF (f a)] [he : AE f] : SV (modifyArena f) :=
  ⟨fun st => Tr_modifyArena f st _ (h _) (fun a hf => Same_arena st a (he.out _ _ hf))⟩

theorem Tr_allocNode (k : Kind) (attrs : Attrs) (st : PState) (Q : NodeId → PState → Prop) :
    Tr (allocNode k attrs) st Q ↔ Q st.arena.nodes.size { st with arena := (st.arena.alloc k attrs).1 } := Iff.rfl

instance SV_allocNode (k a) : SV (allocNode k a) :=
  ⟨fun st => (Tr_allocNode ..).2 (Same_arena st _ (Ext_alloc _ _ _))⟩

instance SV_setFramesetOK (b) : SV (setFramesetOK b) := SV_modify _ (fun st => ⟨rfl, rfl, rfl, rfl, rfl, rfl, Ext.refl _⟩)
instance SV_setTokState (s) : SV (setTokState s) := SV_modify _ (fun st => ⟨rfl, rfl, rfl, rfl, rfl, rfl, Ext.refl _⟩)
instance SV_setInsertFromTable (b) : SV (setInsertFromTable b) :=
  SV_modify _ (fun st => ⟨rfl, rfl, rfl, rfl, rfl, rfl, Ext.refl _⟩)

instance SV_parseError (c v) : SV (parseError c v) := by
  unfold parseError
  exact @SV_bind _ _ _ _ (SV_modify _ (fun st => ⟨rfl, rfl, rfl, rfl, rfl, rfl, Ext.refl _⟩)) (fun _ => inferInstance)
instance SV_parseErrorDefault : SV parseErrorDefault := by
  unfold parseErrorDefault
  exact @SV_bind _ _ _ _ (SV_modify _ (fun st => ⟨rfl, rfl, rfl, rfl, rfl, rfl, Ext.refl _⟩)) (fun _ => inferInstance)
instance SV_parseErrorS (c v) : SV (parseErrorS c v) := by
  unfold parseErrorS
  exact @SV_bind _ _ _ _ (SV_modify _ (fun st => ⟨rfl, rfl, rfl, rfl, rfl, rfl, Ext.refl _⟩)) (fun _ => inferInstance)
instance SV_acknowledgeSelfClosing (d) : SV (acknowledgeSelfClosing d) := by
  unfold acknowledgeSelfClosing
  split
  · exact SV_modify _ (fun st => ⟨rfl, rfl, rfl, rfl, rfl, rfl, Ext.refl _⟩)
  · infer_instance

/-! ### the structural part under stack operations -/

/-- the state with another stack of open elements -/
abbrev wo (st : PState) (l : List NodeId) : PState := { st with openElements := l }

theorem wo_self (st : PState) : wo st st.openElements = st := rfl

theorem stackK_wo (st : PState) (l : List NodeId) : stackK (wo st l) = l.map (elemK st.arena) := rfl

theorem Keep_wo (st : PState) (l : List NodeId) : Keep st (wo st l) := ⟨rfl, rfl, Ext.refl _⟩

/-- a prefix of the stack -/
theorem ST_prefix {st : PState} {pre post : List NodeId} (hs : ST (wo st (pre ++ post))) : ST (wo st pre) := by
  refine ⟨fun i hi => hs.elem i (List.mem_append_left _ hi), (List.nodup_append.1 hs.nodup).1, hs.hp, hs.fp, ?_, ?_, ?_, hs.afe⟩
  · intro e he
    refine hs.ns e ?_
    rw [stackK_wo] at he ⊢
    rw [List.map_append]; exact List.mem_append_left _ he
  · have := hs.adj
    rw [stackK_wo, List.map_append] at this
    exact adjJ_append_left _ _ this
  · intro e he
    refine hs.bot e ?_
    rw [stackK_wo] at he ⊢
    cases pre with
    | nil => simp at he
    | cons x pre => simpa using he

theorem P_prefix {st : PState} {pre post : List NodeId}
    (hp : ∀ y ∈ post, prot (elemK st.arena y) = false) :
    P (stackK (wo st pre)) = P (stackK (wo st (pre ++ post))) := by
  rw [stackK_wo, stackK_wo, List.map_append, P_append_unprot]
  intro e he
  obtain ⟨y, hy, rfl⟩ := List.mem_map.1 he
  exact hp y hy

theorem list_snoc_of_getLast? {α : Type} {l : List α} {x : α} (h : l.getLast? = some x) : l = l.dropLast ++ [x] := by
  obtain ⟨ys, rfl⟩ := List.getLast?_eq_some_iff.1 h
  simp

/-- `openElements.pop()` -/
theorem ST_pop {st : PState} (hs : ST st) : ST (wo st st.openElements.dropLast) := by
  cases hl : st.openElements.getLast? with
  | none =>
    have : st.openElements = [] := List.getLast?_eq_none_iff.1 hl
    rw [this]; simp only [List.dropLast_nil]; rw [← this]; exact hs
  | some x =>
    have h := list_snoc_of_getLast? hl
    have hs' : ST (wo st (st.openElements.dropLast ++ [x])) := by rw [← h]; exact hs
    exact ST_prefix hs'

instance KS_openPop (site) : KS (openPop site) :=
  ⟨fun st hs => by
    simp only [Tr_openPop]
    intro x _
    exact ⟨ST_pop hs, Keep_wo _ _⟩⟩

/-- popping an unprotected current node -/
theorem KP_pop {st : PState} (hs : ST st) {x : NodeId} (hx : st.openElements.getLast? = some x)
    (hp : prot (elemK st.arena x) = false) :
    ST (wo st st.openElements.dropLast) ∧ Keep st (wo st st.openElements.dropLast) ∧
      P (stackK (wo st st.openElements.dropLast)) = P (stackK st) := by
  refine ⟨ST_pop hs, Keep_wo _ _, ?_⟩
  have h := list_snoc_of_getLast? hx
  have := P_prefix (st := st) (pre := st.openElements.dropLast) (post := [x]) (by simpa using hp)
  rw [this, ← h]

/-- the current node, as an element -/
theorem top_el {st : PState} (hs : ST st) {x : NodeId} (hx : st.openElements.getLast? = some x) :
    IsEl st.arena x := hs.elem x (List.mem_of_getLast? hx)

theorem stackK_getLast? {st : PState} {x : NodeId} (hx : st.openElements.getLast? = some x) :
    (stackK st).getLast? = some (elemK st.arena x) := by
  unfold stackK
  rw [List.getLast?_map, hx]; rfl

/-- pushing an unprotected element onto a non-empty stack -/
theorem ST_push {st : PState} (hs : ST st) {x : NodeId} (hx : IsEl st.arena x)
    (hu : okU (dnsOf st) (elemK st.arena x)) (hne : st.openElements ≠ []) (hnin : x ∉ st.openElements) :
    ST (wo st (st.openElements ++ [x])) ∧ Keep st (wo st (st.openElements ++ [x])) ∧
      stackK (wo st (st.openElements ++ [x])) = stackK st ++ [elemK st.arena x] ∧
      P (stackK (wo st (st.openElements ++ [x]))) = P (stackK st) := by
  have hsk : stackK (wo st (st.openElements ++ [x])) = stackK st ++ [elemK st.arena x] := by
    rw [stackK_wo, List.map_append]; rfl
  refine ⟨⟨?_, ?_, hs.hp, hs.fp, ?_, ?_, ?_, hs.afe⟩, Keep_wo _ _, hsk, ?_⟩
  · intro i hi
    rcases List.mem_append.1 hi with h | h
    · exact hs.elem i h
    · simp only [List.mem_singleton] at h; subst h; exact hx
  · exact List.nodup_append.2 ⟨hs.nodup, (by simp), by
      intro a ha b hb; simp only [List.mem_singleton] at hb; subst hb; intro hab; subst hab; exact hnin ha⟩
  · intro e he
    rw [hsk] at he
    rcases List.mem_append.1 he with h | h
    · exact hs.ns e h
    · simp only [List.mem_singleton] at h; subst h; exact hu.2
  · rw [hsk]; exact adjJ_push_unprot _ _ hs.adj hu.1
  · intro e he
    rw [hsk] at he
    refine hs.bot e ?_
    cases hst : stackK st with
    | nil =>
      unfold stackK at hst
      exact absurd (List.map_eq_nil_iff.1 hst) hne
    | cons y r => rw [hst] at he; simpa using he
  · rw [hsk, P_append_unprot]
    intro e he; simp only [List.mem_singleton] at he; subst he; exact hu.1

/-! ### pop loops -/

theorem implied_unprot : ∀ nm, Gen.Lit.TB_TreeBuilder_generateImpliedEndTags_0.contains nm = true →
    PN.contains nm = false := by
  have h : Gen.Lit.TB_TreeBuilder_generateImpliedEndTags_0.all (fun n => !PN.contains n) = true := by decide
  intro nm hn
  have := List.all_eq_true.1 h nm (by simpa using hn)
  simpa using this

theorem prot_of_name {e : El} (h : PN.contains e.2 = false) : prot e = false := by
  unfold prot; rw [h]; simp

/-- `generateImpliedEndTags`: the popped elements have implied names other than `exclude` -/
theorem generateImpliedEndTagsAux_spec (exclude : Option Str) (st : PState) :
    ∀ fuel (l : List NodeId), (∀ i ∈ l, IsEl st.arena i) → l.length + 1 ≤ fuel →
      Tr (generateImpliedEndTagsAux exclude fuel) (wo st l) (fun _ st' => ∃ pre post, l = pre ++ post ∧
        st' = wo st pre ∧ ∀ y ∈ post, Gen.Lit.TB_TreeBuilder_generateImpliedEndTags_0.contains (elemK st.arena y).2 = true ∧
          some (elemK st.arena y).2 ≠ exclude) := by
  intro fuel
  induction fuel with
  | zero => intro l _ h; omega
  | succ fuel ih =>
    intro l hel h
    unfold generateImpliedEndTagsAux
    simp only [Tr_bind, Tr_openLast]
    intro x hx
    have hxe : IsEl (wo st l).arena x := hel x (List.mem_of_getLast? hx)
    simp only [Tr_nodeName hxe]
    split
    · rename_i hc
      simp only [Tr_bind, Tr_openPop]
      intro y hy
      have hxy : x = y := by rw [hx] at hy; exact Option.some.inj hy
      subst hxy
      have hl : l = l.dropLast ++ [x] := list_snoc_of_getLast? hx
      have hlen : l.dropLast.length + 1 ≤ fuel := by
        have := getLast?_length_pos hx
        simp; omega
      refine Tr_mono (ih l.dropLast (fun i hi => hel i (List.dropLast_subset _ hi)) hlen) ?_
      intro _ st' ⟨pre, post, h1, h2, h3⟩
      refine ⟨pre, post ++ [x], ?_, h2, ?_⟩
      · rw [← List.append_assoc, ← h1]; exact hl
      · intro y hy
        rcases List.mem_append.1 hy with hy | hy
        · exact h3 y hy
        · simp only [List.mem_singleton] at hy; subst hy
          simp only [Bool.and_eq_true, bne_iff_ne, ne_eq] at hc
          exact hc
    · exact ⟨l, [], by simp, rfl, by simp⟩

theorem generateImpliedEndTags_spec (exclude : Option Str) (st : PState) (hs : ∀ i ∈ st.openElements, IsEl st.arena i) :
    Tr (generateImpliedEndTags exclude) st (fun _ st' => ∃ pre post, st.openElements = pre ++ post ∧
        st' = wo st pre ∧ ∀ y ∈ post, Gen.Lit.TB_TreeBuilder_generateImpliedEndTags_0.contains (elemK st.arena y).2 = true ∧
          some (elemK st.arena y).2 ≠ exclude) := by
  unfold generateImpliedEndTags
  simp only [Tr_bind, Tr_openElems]
  exact generateImpliedEndTagsAux_spec exclude st _ st.openElements hs (by omega)

instance KP_generateImpliedEndTags (exclude) : KP (generateImpliedEndTags exclude) :=
  ⟨fun st hs => Tr_mono (generateImpliedEndTags_spec exclude st hs.elem) (by
    intro _ st' ⟨pre, post, h1, h2, h3⟩
    subst h2
    have hs' : ST (wo st (pre ++ post)) := by rw [← h1]; exact hs
    refine ⟨ST_prefix hs', Keep_wo _ _, ?_⟩
    rw [P_prefix (post := post) (fun y hy => prot_of_name (implied_unprot _ (h3 y hy).1)), ← h1])⟩

/-- `popWhile` with a test that is a function `c` of the element -/
theorem popWhileLoop_spec (cond : NodeId → M Bool) (site : String) (st : PState) (c : El → Bool)
    (hc : ∀ l n, IsEl st.arena n → ∀ Q, Tr (cond n) (wo st l) Q ↔ Q (c (elemK st.arena n)) (wo st l)) :
    ∀ fuel (l : List NodeId), (∀ i ∈ l, IsEl st.arena i) → l.length + 1 ≤ fuel →
      Tr (popWhileLoop cond (fun _ => pure ()) site fuel) (wo st l) (fun _ st' => ∃ pre post, l = pre ++ post ∧
        st' = wo st pre ∧ (∃ x, pre.getLast? = some x ∧ c (elemK st.arena x) = false) ∧
        ∀ y ∈ post, c (elemK st.arena y) = true) := by
  intro fuel
  induction fuel with
  | zero => intro l _ h; omega
  | succ fuel ih =>
    intro l hel h
    unfold popWhileLoop
    simp only [Tr_bind, Tr_openLast]
    intro x hx
    have hxe : IsEl st.arena x := hel x (List.mem_of_getLast? hx)
    rw [hc l x hxe]
    split
    · rename_i hcx
      simp only [Tr_bind, Tr_pure, Tr_openPop]
      intro y hy
      have hxy : x = y := by rw [hx] at hy; exact Option.some.inj hy
      subst hxy
      have hl : l = l.dropLast ++ [x] := list_snoc_of_getLast? hx
      have hlen : l.dropLast.length + 1 ≤ fuel := by
        have := getLast?_length_pos hx
        simp; omega
      refine Tr_mono (ih l.dropLast (fun i hi => hel i (List.dropLast_subset _ hi)) hlen) ?_
      intro _ st' ⟨pre, post, h1, h2, h3, h4⟩
      refine ⟨pre, post ++ [x], ?_, h2, h3, ?_⟩
      · rw [← List.append_assoc, ← h1]; exact hl
      · intro y hy
        rcases List.mem_append.1 hy with hy | hy
        · exact h4 y hy
        · simp only [List.mem_singleton] at hy; subst hy; exact hcx
    · rename_i hcx
      simp only [Tr_pure]
      exact ⟨l, [], by simp, rfl, ⟨x, hx, by simpa using hcx⟩, by simp⟩

theorem popWhile_spec (cond : NodeId → M Bool) (site : String) (st : PState) (c : El → Bool)
    (hc : ∀ l n, IsEl st.arena n → ∀ Q, Tr (cond n) (wo st l) Q ↔ Q (c (elemK st.arena n)) (wo st l))
    (hs : ∀ i ∈ st.openElements, IsEl st.arena i) :
    Tr (popWhile cond site) st (fun _ st' => ∃ pre post, st.openElements = pre ++ post ∧
        st' = wo st pre ∧ (∃ x, pre.getLast? = some x ∧ c (elemK st.arena x) = false) ∧
        ∀ y ∈ post, c (elemK st.arena y) = true) := by
  unfold popWhile
  simp only [Tr_bind, Tr_openElems]
  exact popWhileLoop_spec cond site st c hc _ st.openElements hs (by omega)

/-- `popUntil` with a test that is a function `p` of the node -/
theorem popUntilLoop_spec (pred : NodeId → M Bool) (site : String) (st : PState) (p : NodeId → Bool)
    (hp : ∀ l n, IsEl st.arena n → ∀ Q, Tr (pred n) (wo st l) Q ↔ Q (p n) (wo st l)) :
    ∀ fuel (l : List NodeId), (∀ i ∈ l, IsEl st.arena i) → l.length + 1 ≤ fuel →
      Tr (popUntilLoop pred site fuel) (wo st l) (fun r st' => ∃ pre post, l = pre ++ r :: post ∧
        st' = wo st pre ∧ p r = true ∧ ∀ y ∈ post, p y = false) := by
  intro fuel
  induction fuel with
  | zero => intro l _ h; omega
  | succ fuel ih =>
    intro l hel h
    unfold popUntilLoop
    simp only [Tr_bind, Tr_openPop]
    intro x hx
    have hxe : IsEl st.arena x := hel x (List.mem_of_getLast? hx)
    have hl : l = l.dropLast ++ [x] := list_snoc_of_getLast? hx
    have := hp l.dropLast x hxe
    simp only [wo] at this
    rw [this]
    split
    · rename_i hpx
      simp only [Tr_pure]
      exact ⟨l.dropLast, [], hl, rfl, hpx, by simp⟩
    · rename_i hpx
      have hlen : l.dropLast.length + 1 ≤ fuel := by
        have := getLast?_length_pos hx
        simp; omega
      refine Tr_mono (ih l.dropLast (fun i hi => hel i (List.dropLast_subset _ hi)) hlen) ?_
      intro r st' ⟨pre, post, h1, h2, h3, h4⟩
      refine ⟨pre, post ++ [x], ?_, h2, h3, ?_⟩
      · rw [← List.cons_append, ← List.append_assoc, ← h1]; exact hl
      · intro y hy
        rcases List.mem_append.1 hy with hy | hy
        · exact h4 y hy
        · simp only [List.mem_singleton] at hy; subst hy; simpa using hpx

theorem popUntil_spec (pred : NodeId → M Bool) (site : String) (st : PState) (p : NodeId → Bool)
    (hp : ∀ l n, IsEl st.arena n → ∀ Q, Tr (pred n) (wo st l) Q ↔ Q (p n) (wo st l))
    (hs : ∀ i ∈ st.openElements, IsEl st.arena i) :
    Tr (popUntil pred site) st (fun r st' => ∃ pre post, st.openElements = pre ++ r :: post ∧
        st' = wo st pre ∧ p r = true ∧ ∀ y ∈ post, p y = false) := by
  unfold popUntil
  simp only [Tr_bind, Tr_openElems]
  exact popUntilLoop_spec pred site st p hp _ st.openElements hs (by omega)

/-- any pop loop keeps the structural part -/
theorem KS_of_Popped {α : Type} (m : M α) (h : ∀ st, Tr m st (fun _ st' => Popped st st')) : KS m :=
  ⟨fun st hs => Tr_mono (h st) (by
    intro _ st' ⟨k, _, hk⟩
    subst hk
    have hs' : ST (wo st (st.openElements.take k ++ st.openElements.drop k)) := by
      rw [List.take_append_drop]; exact hs
    exact ⟨ST_prefix hs', Keep_wo _ _⟩)⟩

instance KS_popUntil (pred : NodeId → M Bool) [hp : ∀ n, RO (pred n)] (site) : KS (popUntil pred site) :=
  KS_of_Popped _ (fun st => Tr_mono (popUntil_tr pred site st) (fun _ _ h => h.1))

/-! ### automation for `SV` / `KP` / `KS` -/

macro "sv_step" : tactic => `(tactic| first
  | assumption
  | (with_reducible refine @SV_bind _ _ _ _ ?_ ?_)
  | (intro _)
  | exact SV_modify _ (fun _ => ⟨rfl, rfl, rfl, rfl, rfl, rfl, Ext.refl _⟩)
  | (dsimp only)
  | infer_instance
  | split)
macro "sv_auto" : tactic => `(tactic| repeat' sv_step)

instance SV_insertText (d) : SV (insertText d) := by unfold insertText; sv_auto
instance SV_insertDoctype (n p s) : SV (insertDoctype n p s) := by unfold insertDoctype; sv_auto
instance SV_insertComment (d p) : SV (insertComment d p) := by unfold insertComment; sv_auto
instance SV_mergeAttrsInto (idx : Nat) (site : String) : ∀ l, SV (mergeAttrsInto idx site l)
  | [] => by unfold mergeAttrsInto; infer_instance
  | (a, v) :: rest => by
    haveI := SV_mergeAttrsInto idx site rest
    unfold mergeAttrsInto; sv_auto

/-! ### `elementInScope` -/

theorem Tr_elementInScopeLoop (tgt : Str × Str) (elems : List (Str × Str)) (invert : Bool) (st : PState) :
    ∀ (l : List NodeId), (∀ i ∈ l, IsEl st.arena i) → ∀ (Q : Bool → PState → Prop),
      Tr (elementInScopeLoop (fun n => do return (← nameTuple n) == tgt) elems invert l) st Q ↔
        ∀ b, scopeRev tgt elems invert (l.map (elemK st.arena)) = some b → Q b st
  | [], _, Q => by
    unfold elementInScopeLoop
    simp only [Tr_throw, List.map_nil, scopeRev]
    constructor
    · intro _ b h; cases h
    · intro _; exact NF_assertFail _
  | node :: rest, hel, Q => by
    have hn : IsEl st.arena node := hel node (List.mem_cons_self ..)
    have ih := Tr_elementInScopeLoop tgt elems invert st rest (fun i hi => hel i (List.mem_cons_of_mem _ hi)) Q
    unfold elementInScopeLoop
    simp only [Tr_bind, Tr_nameTuple hn, Tr_pure, List.map_cons, scopeRev]
    by_cases h1 : (tup (elemK st.arena node) == tgt) = true
    · simp only [h1, if_true, Tr_pure, Option.some.injEq]
      exact ⟨fun h b hb => hb ▸ h, fun h => h true rfl⟩
    · simp only [h1, Bool.false_eq_true, if_false, Tr_bind, Tr_nameTuple hn]
      by_cases h2 : (invert != elems.contains (tup (elemK st.arena node))) = true
      · simp only [h2, if_true, Tr_pure, Option.some.injEq]
        exact ⟨fun h b hb => hb ▸ h, fun h => h false rfl⟩
      · simp only [h2, Bool.false_eq_true, if_false]
        exact ih

theorem Tr_elementInScope (nm : Str) (v : Option String) (elems : List (Str × Str)) (invert : Bool)
    (hv : listElements (v.map lit) = .ok (elems, invert)) (st : PState)
    (hel : ∀ i ∈ st.openElements, IsEl st.arena i) (Q : Bool → PState → Prop) :
    Tr (elementInScope nm v) st Q ↔
      ∀ b, scopeRev (htmlNs, nm) elems invert (stackK st).reverse = some b → Q b st := by
  unfold elementInScope
  show Tr (liftM (nsE "html") >>= _) st Q ↔ _
  simp only [Tr_bind, Tr_lift, nsE_html, Post_ok]
  simp only [hv, Post_ok, Tr_openElems]
  rw [Tr_elementInScopeLoop (htmlNs, nm) elems invert st st.openElements.reverse
    (fun i hi => hel i (List.mem_reverse.1 hi)) Q]
  unfold stackK
  rw [List.map_reverse]

/-- the five scopes -/
def scDefault : List (Str × Str) × Bool := match listElements none with | .ok p => p | .error _ => ([], false)
def scButton : List (Str × Str) × Bool := match listElements (some (lit "button")) with | .ok p => p | .error _ => ([], false)
def scList : List (Str × Str) × Bool := match listElements (some (lit "list")) with | .ok p => p | .error _ => ([], false)
def scTable : List (Str × Str) × Bool := match listElements (some (lit "table")) with | .ok p => p | .error _ => ([], false)
def scSelect : List (Str × Str) × Bool := match listElements (some (lit "select")) with | .ok p => p | .error _ => ([], false)

theorem listElements_default : listElements ((none : Option String).map lit) = .ok (scDefault.1, scDefault.2) := by decide
theorem listElements_button : listElements ((some "button").map lit) = .ok (scButton.1, scButton.2) := by decide
theorem listElements_list : listElements ((some "list").map lit) = .ok (scList.1, scList.2) := by decide
theorem listElements_table : listElements ((some "table").map lit) = .ok (scTable.1, scTable.2) := by decide
theorem listElements_select : listElements ((some "select").map lit) = .ok (scSelect.1, scSelect.2) := by decide

theorem scDefault_markers : scDefault.2 = false ∧ scDefault.1.contains mHtml = true ∧ scDefault.1.contains mTable = true ∧
    scDefault.1.contains mTd = true ∧ scDefault.1.contains mTh = true := by decide
theorem scButton_markers : scButton.2 = false ∧ scButton.1.contains mHtml = true ∧ scButton.1.contains mTable = true ∧
    scButton.1.contains mTd = true ∧ scButton.1.contains mTh = true := by decide
theorem scList_markers : scList.2 = false ∧ scList.1.contains mHtml = true ∧ scList.1.contains mTable = true ∧
    scList.1.contains mTd = true ∧ scList.1.contains mTh = true := by decide
theorem scTable_eq : scTable = ([mHtml, mTable], false) := by decide
theorem scSelect_eq : scSelect = ([(htmlNs, nOptgroup), (htmlNs, nOption)], true) := by decide

/-! ### `insertElement` -/

/-- the element that `createElement` makes from a token -/
def dEl (dns : Option Str) (d : TagData) : El := ((match d.ns with | some n => n | none => dns), d.name)

/-- `x`, a new element node of kind `e`, was pushed onto the (non-empty) stack; otherwise only the arena changed -/
def Pushed (st st' : PState) (x : NodeId) (e : El) : Prop :=
  ∃ st1, Same st st1 ∧ IsEl st1.arena x ∧ elemK st1.arena x = e ∧ st.openElements ≠ [] ∧
    st' = wo st1 (st.openElements ++ [x]) ∧ st.arena.nodes.size ≤ x

theorem IsEl_lt {a : Arena} {i : NodeId} (h : IsEl a i) : i < a.nodes.size := by
  obtain ⟨ns, nm, hk⟩ := h; exact kindAt_lt hk

theorem Ext_size {a a' : Arena} (h : Ext a a') : a.nodes.size ≤ a'.nodes.size := by
  cases hn : a.nodes.size with
  | zero => exact Nat.zero_le _
  | succ n =>
    have hlt : n < a.nodes.size := by omega
    have hk : kindAt a n = some (a.nodes[n]).kind := by
      unfold kindAt; simp [Array.getElem?_eq_getElem hlt]
    exact kindAt_lt (h n _ hk)

theorem IsEl_alloc (a : Arena) (ns : Option Str) (nm : Str) (attrs : Attrs) :
    IsEl (a.alloc (.element ns nm) attrs).1 a.nodes.size ∧
      elemK (a.alloc (.element ns nm) attrs).1 a.nodes.size = (ns, nm) := by
  have h := kindAt_alloc a (.element ns nm) attrs
  exact ⟨⟨ns, nm, h⟩, by unfold elemK; rw [h]⟩

theorem insertElementNormal_spec (d : TagData) (st : PState) :
    Tr (insertElementNormal d) st (fun x st' => Pushed st st' x (dEl (dnsOf st) d)) := by
  unfold insertElementNormal createElement
  simp only [Tr_bind, Tr_getCfg, Tr_allocNode, Tr_openLast]
  intro cur hcur
  have hne : st.openElements ≠ [] := by intro h; rw [h] at hcur; cases hcur
  obtain ⟨hel, hk⟩ := IsEl_alloc st.arena (match d.ns with | some n => n | none => st.cfg.defaultNamespace) d.name d.attrs
  refine Tr_modifyArena _ _ _ inferInstance ?_
  intro a ha
  unfold openPush
  simp only [Tr_modify, Tr_pure]
  have hext : Ext (st.arena.alloc (.element (match d.ns with | some n => n | none => st.cfg.defaultNamespace) d.name) d.attrs).1 a :=
    Ext_appendChild ha
  obtain ⟨h1, h2⟩ := hel.ext hext
  exact ⟨{ st with arena := a }, Same_arena st a ((Ext_alloc _ _ _).trans hext), h1, by rw [h2, hk]; rfl, hne, rfl,
    Nat.le_refl _⟩

theorem Pushed_of_Same {st st0 st' : PState} {x : NodeId} {e : El} (h0 : Same st st0) (h : Pushed st0 st' x e) :
    Pushed st st' x e := by
  obtain ⟨st1, h1, h2, h3, h4, h5, h6⟩ := h
  exact ⟨st1, h0.trans h1, h2, h3, by rw [← h0.op]; exact h4, by rw [← h0.op]; exact h5,
    Nat.le_trans (Ext_size h0.ar) h6⟩

theorem insertElementTable_spec (d : TagData) (st : PState) (hs : ∀ i ∈ st.openElements, IsEl st.arena i) :
    Tr (insertElementTable d) st (fun x st' => Pushed st st' x (dEl (dnsOf st) d)) := by
  unfold insertElementTable createElement
  simp only [Tr_bind, Tr_getCfg, Tr_allocNode, Tr_openLast]
  intro cur hcur
  have hne : st.openElements ≠ [] := by intro h; rw [h] at hcur; cases hcur
  obtain ⟨hel, hk⟩ := IsEl_alloc st.arena (match d.ns with | some n => n | none => st.cfg.defaultNamespace) d.name d.attrs
  apply Tr_RO
  intro nm
  have hsame : Same st { st with arena := (st.arena.alloc (.element (match d.ns with | some n => n | none => st.cfg.defaultNamespace) d.name) d.attrs).1 } :=
    Same_arena st _ (Ext_alloc _ _ _)
  split
  · refine Tr_mono (insertElementNormal_spec d _) ?_
    intro x st' hp
    exact Pushed_of_Same hsame hp
  · simp only [Tr_bind]
    apply Tr_RO
    rintro ⟨parent, insertBefore⟩
    dsimp only
    have fin : ∀ a, Ext (st.arena.alloc (.element (match d.ns with | some n => n | none => st.cfg.defaultNamespace) d.name) d.attrs).1 a →
        Tr (do openPush st.arena.nodes.size; pure st.arena.nodes.size : M NodeId)
          { st with arena := a } (fun x st' => Pushed st st' x (dEl (dnsOf st) d)) := by
      intro a hext
      unfold openPush
      simp only [Tr_bind, Tr_modify, Tr_pure]
      obtain ⟨h1, h2⟩ := hel.ext hext
      exact ⟨{ st with arena := a }, Same_arena st a ((Ext_alloc _ _ _).trans hext), h1, by rw [h2, hk]; rfl, hne, rfl,
        Nat.le_refl _⟩
    split
    · simp only [Tr_bind]
      refine Tr_modifyArena _ _ _ inferInstance ?_
      intro a ha
      exact fin a (Ext_appendChild ha)
    · simp only [Tr_bind]
      refine Tr_modifyArena _ _ _ inferInstance ?_
      intro a ha
      exact fin a (Ext_insertBefore ha)

theorem insertElement_spec (d : TagData) (st : PState) (hs : ∀ i ∈ st.openElements, IsEl st.arena i) :
    Tr (insertElement d) st (fun x st' => Pushed st st' x (dEl (dnsOf st) d)) := by
  unfold insertElement
  simp only [Tr_bind, Tr_get]
  split
  · exact insertElementTable_spec d st hs
  · exact insertElementNormal_spec d st

/-- what a push of an unprotected element does to the structural part -/
structure PushedU (st st' : PState) (x : NodeId) (e : El) : Prop where
  str : ST st'
  keep : Keep st st'
  stack : stackK st' = stackK st ++ [e]
  p : P (stackK st') = P (stackK st)
  op : st'.openElements = st.openElements ++ [x]
  af : st'.activeFormattingElements = st.activeFormattingElements
  fm : st'.formPointer = st.formPointer
  hd : st'.headPointer = st.headPointer
  el : IsEl st'.arena x
  k : elemK st'.arena x = e
  fresh : st.arena.nodes.size ≤ x

theorem ST_pushed {st st' : PState} {x : NodeId} {e : El} (hs : ST st) (hp : Pushed st st' x e)
    (hu : okU (dnsOf st) e) : PushedU st st' x e := by
  obtain ⟨st1, h1, h2, h3, h4, h5, h6⟩ := hp
  have hs1 : ST st1 := ST_of_Same h1 hs
  have hd1 : dnsOf st1 = dnsOf st := dnsOf_of_cfg h1.cf
  have hne1 : st1.openElements ≠ [] := by rw [h1.op]; exact h4
  have hu1 : okU (dnsOf st1) (elemK st1.arena x) := by rw [hd1, h3]; exact hu
  have hnin : x ∉ st1.openElements := by
    rw [h1.op]; intro hm; exact absurd (IsEl_lt (hs.elem x hm)) (Nat.not_lt.2 h6)
  obtain ⟨g1, g2, g3, g4⟩ := ST_push hs1 h2 hu1 hne1 hnin
  have hst' : st' = wo st1 (st1.openElements ++ [x]) := by rw [h1.op]; exact h5
  subst hst'
  have hsk : stackK st1 = stackK st := stackK_of_Same h1 hs
  exact ⟨g1, (Keep_of_Same h1).trans g2, by rw [g3, hsk, h3], by rw [g4, hsk], by show st1.openElements ++ [x] = _; rw [h1.op],
    h1.af, h1.fm, h1.hd, h2, h3, h6⟩

/-- an unprotected tag: not one of the protected names, or with an explicit foreign namespace -/
def dOK (dns : Option Str) (d : TagData) : Prop := okU dns (dEl dns d)

theorem KP_insertElement (d : TagData) (h : ∀ dns, dOK dns d) : KP (insertElement d) :=
  ⟨fun st hs => Tr_mono (insertElement_spec d st hs.elem) (fun x st' hp =>
    let r := ST_pushed hs hp (h _); ⟨r.str, r.keep, r.p⟩)⟩

/-! ### the list of active formatting elements -/

def KPpost (st st' : PState) : Prop := ST st' ∧ Keep st st' ∧ P (stackK st') = P (stackK st)

theorem KPpost.trans {a b c : PState} (h1 : KPpost a b) (h2 : KPpost b c) : KPpost a c :=
  ⟨h2.1, h1.2.1.trans h2.2.1, h2.2.2.trans h1.2.2⟩

theorem KPpost.refl {a : PState} (h : ST a) : KPpost a a := ⟨h, Keep.refl _, rfl⟩

/-- an HTML formatting element -/
def okF (st : PState) (i : NodeId) : Prop :=
  IsEl st.arena i ∧ (elemK st.arena i).1 = dnsOf st ∧ FMT.contains (elemK st.arena i).2 = true

theorem FMT_unprot : ∀ nm, FMT.contains nm = true → PN.contains nm = false := by
  have h : FMT.all (fun n => !PN.contains n) = true := by decide
  intro nm hn
  have := List.all_eq_true.1 h nm (by simpa using hn)
  simpa using this

theorem okU_of_okF {st : PState} {i : NodeId} (h : okF st i) : okU (dnsOf st) (elemK st.arena i) :=
  ⟨prot_of_name (FMT_unprot _ h.2.2), fun _ => h.2.1⟩

/-- another list of active formatting elements -/
theorem ST_setAfe {st : PState} (hs : ST st) (l : List (Option NodeId))
    (h : ∀ i, some i ∈ l → okF st i) : ST { st with activeFormattingElements := l } :=
  ⟨hs.elem, hs.nodup, hs.hp, hs.fp, hs.ns, hs.adj, hs.bot, h⟩

theorem KPpost_setAfe {st : PState} (hs : ST st) (l : List (Option NodeId))
    (h : ∀ i, some i ∈ l → okF st i) : KPpost st { st with activeFormattingElements := l } :=
  ⟨ST_setAfe hs l h, ⟨rfl, rfl, Ext.refl _⟩, rfl⟩

instance KP_afeRemove (x site) : KP (afeRemove x site) :=
  ⟨fun st hs => by
    unfold afeRemove
    simp only [Tr_bind, Tr_afe]
    split
    · simp only [Tr_setAfe]
      exact KPpost_setAfe hs _ (fun i hi => hs.afe i (List.mem_of_mem_erase hi))
    · exact NF_valueError _⟩

theorem clearAfe_loop_sub : ∀ (rest : List (Option NodeId)) (entry : Option NodeId),
    ∀ y ∈ clearActiveFormattingElements.loop rest entry, y ∈ rest
  | [], _, y, h => by simp [clearActiveFormattingElements.loop] at h
  | x :: rest, entry, y, h => by
    unfold clearActiveFormattingElements.loop at h
    split at h
    · exact List.mem_cons_of_mem _ (clearAfe_loop_sub rest x y h)
    · exact h

instance KP_clearActiveFormattingElements : KP clearActiveFormattingElements :=
  ⟨fun st hs => by
    unfold clearActiveFormattingElements
    simp only [Tr_bind, Tr_afe]
    split
    · exact NF_indexError _
    · rename_i entry rest hrev
      simp only [Tr_setAfe]
      refine KPpost_setAfe hs _ (fun i hi => hs.afe i ?_)
      have h1 := clearAfe_loop_sub rest entry (some i) (List.mem_reverse.1 hi)
      have : some i ∈ st.activeFormattingElements.reverse := by rw [hrev]; exact List.mem_cons_of_mem _ h1
      exact List.mem_reverse.1 this⟩

/-- `ActiveFormattingElements.append(node)` for a Marker or an HTML formatting element -/
theorem afeAppend_kp (node : Option NodeId) (st : PState) (hs : ST st) (hn : ∀ n, node = some n → okF st n) :
    Tr (afeAppend node) st (fun _ st' => KPpost st st' ∧ st'.openElements = st.openElements ∧
      st'.formPointer = st.formPointer ∧ st'.headPointer = st.headPointer ∧ st'.arena = st.arena) := by
  have fin : ∀ l, (∀ i, some i ∈ l → some i ∈ st.activeFormattingElements) →
      KPpost st { st with activeFormattingElements := l ++ [node] } := by
    intro l hl
    refine KPpost_setAfe hs _ ?_
    intro i hi
    rcases List.mem_append.1 hi with h | h
    · exact hs.afe i (hl i h)
    · simp only [List.mem_singleton] at h; exact hn i h.symm
  unfold afeAppend
  simp only [Tr_bind]
  cases node with
  | none =>
    simp only [Tr_pure, Tr_afe, Tr_setAfe]
    first | exact ⟨fin _ (fun _ h => h), rfl, rfl, rfl, rfl⟩ | exact fin _ (fun _ h => h)
  | some n =>
    dsimp only
    simp only [Tr_bind, Tr_afe]
    apply Tr_RO
    intro r
    cases r with
    | none =>
      simp only [Tr_pure, Tr_afe, Tr_setAfe]
      first | exact ⟨fin _ (fun _ h => h), rfl, rfl, rfl, rfl⟩ | exact fin _ (fun _ h => h)
    | some e =>
      dsimp only
      unfold afeRemove
      simp only [Tr_bind, Tr_afe]
      split
      · simp only [Tr_setAfe, Tr_afe]
        first
          | exact ⟨fin _ (fun i hi => List.mem_of_mem_erase hi), rfl, rfl, rfl, rfl⟩
          | exact ⟨fin _ (fun i hi => List.mem_of_mem_erase hi), trivial, trivial, trivial, trivial⟩
          | exact fin _ (fun i hi => List.mem_of_mem_erase hi)
      · exact NF_valueError _

instance KP_afeAppend_none : KP (afeAppend none) :=
  ⟨fun st hs => Tr_mono (afeAppend_kp none st hs (fun _ h => by cases h)) (fun _ _ h => h.1)⟩

/-! ### `reconstructActiveFormattingElements` -/

theorem okF_of_Keep {st st' : PState} (hk : Keep st st') {i : NodeId} (h : okF st i) : okF st' i := by
  obtain ⟨h1, h2, h3⟩ := h
  obtain ⟨g1, g2⟩ := h1.ext hk.ar
  exact ⟨g1, by rw [g2, dnsOf_of_cfg hk.cf]; exact h2, by rw [g2]; exact h3⟩

/-- the stack grew: nothing was popped -/
def Grown (st st' : PState) : Prop := ∃ extra, st'.openElements = st.openElements ++ extra

theorem Grown.refl (st : PState) : Grown st st := ⟨[], by simp⟩
theorem Grown.trans {a b c : PState} (h1 : Grown a b) (h2 : Grown b c) : Grown a c := by
  obtain ⟨e1, h1⟩ := h1; obtain ⟨e2, h2⟩ := h2
  exact ⟨e1 ++ e2, by rw [h2, h1, List.append_assoc]⟩
theorem Grown_of_Same {st st' : PState} (h : Same st st') : Grown st st' := ⟨[], by rw [h.op]; simp⟩

theorem reconstructLoop_kp :
    ∀ fuel i st, ST st → i ≤ st.activeFormattingElements.length → st.activeFormattingElements.length + 1 ≤ fuel + i →
      Tr (reconstructLoop fuel i) st (fun _ st' => KPpost st st' ∧ Grown st st') := by
  intro fuel
  induction fuel with
  | zero => intro i st _ h1 h2; omega
  | succ fuel ih =>
    intro i st hs h1 h2
    unfold reconstructLoop
    simp only [Tr_bind, Tr_afe]
    split
    · exact NF_indexError _
    · exact NF_attributeError _
    · rename_i entry hentry
      have hmem : some entry ∈ st.activeFormattingElements := List.mem_of_getElem? hentry
      have hF : okF st entry := hs.afe entry hmem
      simp only [Tr_bind, Tr_get, Tr_monadLift, Tr_lift, Post_bind]
      cases hcl : st.arena.cloneNode entry with
      | error e =>
        have := (ENF_arena_cloneNode st.arena entry).out
        rw [hcl] at this
        exact this
      | ok r =>
        obtain ⟨a, clone⟩ := r
        simp only [Post_ok, Tr_bind, Tr_set]
        obtain ⟨hext, _, hkc⟩ := Ext_cloneNode hcl
        have hsame : Same st { st with arena := a } := Same_arena st a hext
        have hs1 : ST { st with arena := a } := ST_of_Same hsame hs
        have hcl_el : IsEl a clone ∧ elemK a clone = elemK st.arena entry := by
          obtain ⟨ns, nm, hk⟩ := hF.1
          have : kindAt a clone = some (.element ns nm) := by rw [hkc, hk]
          exact ⟨⟨ns, nm, this⟩, by unfold elemK; rw [this, hk]⟩
        have hci : IsEl ({ st with arena := a } : PState).arena clone := hcl_el.1
        simp only [Tr_elemInfo hci]
        apply Tr_RO
        intro attrs
        have hdok : okU (dnsOf ({ st with arena := a } : PState))
            (dEl (dnsOf ({ st with arena := a } : PState))
              { name := (elemK a clone).2, attrs := attrs, ns := some (elemK a clone).1 }) := by
          have hu := okU_of_okF hF
          show okU (dnsOf st) ((elemK a clone).1, (elemK a clone).2)
          rw [hcl_el.2]; exact hu
        refine Tr_mono (insertElement_spec _ _ hs1.elem) ?_
        intro element st1 hp
        have hpu := ST_pushed hs1 hp hdok
        have hk1 : Keep st st1 := (Keep_of_Same hsame).trans hpu.keep
        have hkp1 : KPpost st st1 := ⟨hpu.str, hk1, by rw [hpu.p, stackK_of_Same hsame hs]⟩
        have hFel : okF st1 element := by
          refine ⟨hpu.el, ?_, ?_⟩
          · rw [hpu.k, dnsOf_of_cfg hk1.cf]
            show (elemK a clone).1 = dnsOf st
            rw [hcl_el.2]; exact hF.2.1
          · rw [hpu.k]
            show FMT.contains (elemK a clone).2 = true
            rw [hcl_el.2]; exact hF.2.2
        have haf1 : st1.activeFormattingElements = st.activeFormattingElements := hpu.af
        simp only [Tr_afe]
        split
        · simp only [Tr_bind, Tr_setAfe, Tr_afe]
          have hs2 : ST { st1 with activeFormattingElements := st1.activeFormattingElements.set i (some element) } := by
            refine ST_setAfe hpu.str _ ?_
            intro j hj
            rcases List.mem_or_eq_of_mem_set hj with h | h
            · exact hpu.str.afe j h
            · cases h; exact hFel
          have hkp2 : KPpost st { st1 with activeFormattingElements := st1.activeFormattingElements.set i (some element) } :=
            ⟨hs2, ⟨hk1.f, hk1.cf, hk1.ar⟩, hkp1.2.2⟩
          have hgr2 : Grown st { st1 with activeFormattingElements := st1.activeFormattingElements.set i (some element) } :=
            ⟨[element], hpu.op⟩
          split
          · exact NF_indexError _
          · split
            · exact ⟨hkp2, hgr2⟩
            · refine Tr_mono (ih (i + 1) _ hs2 ?_ ?_) ?_
              · have hlt : i < st1.activeFormattingElements.length := by assumption
                simp; exact hlt
              · simp [haf1]; omega
              · intro _ st' h; exact ⟨hkp2.trans h.1, hgr2.trans h.2⟩
        · exact NF_indexError _

theorem reconstruct_spec (st : PState) (hs : ST st) :
    Tr reconstructActiveFormattingElements st (fun _ st' => KPpost st st' ∧ Grown st st') := by
    unfold reconstructActiveFormattingElements
    simp only [Tr_bind, Tr_afe]
    split
    · exact ⟨KPpost.refl hs, Grown.refl _⟩
    · split
      · exact NF_indexError _
      · rename_i entry hentry
        simp only [Tr_bind]
        refine Tr_mono (Q := fun _ st' => st' = st) (by split <;> exact RO.out _) ?_
        intro done st' hst'; rw [hst']
        split
        · exact ⟨KPpost.refl hs, Grown.refl _⟩
        · have hlen : st.activeFormattingElements.length - 1 < st.activeFormattingElements.length := by
            have := List.getElem?_eq_some_iff.1 hentry
            obtain ⟨h, _⟩ := this
            exact h
          simp only [Tr_bind]
          refine Tr_mono (reconstructRewind_tr _ _ entry st hlen) ?_
          rintro start st' ⟨hst', hss⟩
          rw [hst']
          exact reconstructLoop_kp _ _ _ hs hss (by omega)

instance KP_reconstructActiveFormattingElements : KP reconstructActiveFormattingElements :=
  ⟨fun st hs => Tr_mono (reconstruct_spec st hs) (fun _ _ h => h.1)⟩

end H5.Props.C03c
