/-
  Property C08 (continued, markup) — comments and DOCTYPEs written by the serializer re-tokenise to themselves.

  `C08_comment_roundtrip`: `<!--data-->` is read back as exactly the comment token `data` when `data` has no NUL, does
  not contain `--` (the case the serializer reports: `C08_comment_reported`), and does not start with `>` or `->`
  (NOT reported by the serializer: see the counter-examples at the end of H5.Props.C08c).  A data ending in `<!-`
  is read back correctly too, with one `nested-comment` parse error; a data ending in `-` is read back correctly.
  `C08_doctype_roundtrip`: `<!DOCTYPE name>`;  `C08_doctype_ids_roundtrip`: with PUBLIC / SYSTEM identifiers.
-/
import H5.Props.C08cTag
namespace H5.Props.C08c
open H5 H5.Gen H5.Spec H5.Spec.Tokenizer
open H5.Model.Serializer

/-! ### The comment states as a five-plus-two phase automaton -/

/-- where the machine is inside `<!-- … -->`: comment start, comment start dash, comment, comment less-than sign,
comment less-than sign bang, comment less-than sign bang dash, comment end dash -/
inductive CPh where | s | sd | c | lt | bang | bangDash | endDash
  deriving DecidableEq, Repr

def CPh.st : CPh → State
  | .s => .commentStart | .sd => .commentStartDash | .c => .comment | .lt => .commentLessThanSign
  | .bang => .commentLessThanSignBang | .bangDash => .commentLessThanSignBangDash | .endDash => .commentEndDash

/-- a `-` has been consumed but not yet appended to the comment token's data -/
def CPh.pendDash : CPh → Bool
  | .sd | .bangDash | .endDash => true
  | _ => false

def CPh.pend (ph : CPh) : Str := if ph.pendDash then [45] else []

def CPh.isStart : CPh → Bool
  | .s | .sd => true
  | _ => false

/-- the phase after one more character of comment data -/
def CPh.next (ph : CPh) (c : Nat) : CPh :=
  if c = 45 then (match ph with | .bang => .bangDash | .s => .sd | _ => .endDash)
  else if c = 60 then .lt
  else if c = 33 then (if ph = .lt then .bang else .c)
  else .c

/-- comment data the walk goes through from phase `ph`: no NUL, no `-` right after a pending `-` (no `--`),
no `>` while still in the comment start (dash) state -/
def cwf : CPh → Str → Bool
  | _, [] => true
  | ph, c :: r => c != 0 && !(ph.pendDash && c == 45) && !(ph.isStart && c == 62) && cwf (ph.next c) r

def setC (m : M) (s : State) (cm : Str) : M := { m with state := s, comment := cm }

@[simp] theorem setC_state (m : M) (s : State) (cm : Str) : (setC m s cm).state = s := rfl
@[simp] theorem setC_done (m : M) (s : State) (cm : Str) : (setC m s cm).done = m.done := rfl
@[simp] theorem setC_out (m : M) (s : State) (cm : Str) : (setC m s cm).out = m.out := rfl
@[simp] theorem setC_comment (m : M) (s : State) (cm : Str) : (setC m s cm).comment = cm := rfl
@[simp] theorem setC_last (m : M) (s : State) (cm : Str) : (setC m s cm).lastStartTagName = m.lastStartTagName := rfl
@[simp] theorem setC_setC (m : M) (s s2 : State) (cm cm2 : Str) : setC (setC m s cm) s2 cm2 = setC m s2 cm2 := rfl

theorem setC_same (m : M) (s : State) (hs : m.state = s) (cm : Str) : setC m s cm = { m with comment := cm } := by
  subst hs; rfl

/-- one character in the comment state -/
theorem reach_C (m : M) (hs : m.state = .comment) (hd : m.done = false) (c : Nat) (h0 : c ≠ 0) (rest : Str) :
    ReachLe 1 m (c :: rest) (setC m (CPh.next .c c).st (if c = 45 then m.comment else m.comment ++ [c])) rest := by
  refine ReachLe.single hd ?_
  by_cases h1 : c = 60
  · subst h1; simp [Tokenizer.step, hs, commentState, setC, CPh.next, CPh.st, M.appendComment, M.switchTo]
  · by_cases h2 : c = 45
    · subst h2; simp [Tokenizer.step, hs, commentState, setC, CPh.next, CPh.st, M.switchTo]
    · by_cases h3 : c = 33
      · subst h3
        have e : (CPh.next .c 33).st = .comment := by decide
        rw [e, setC_same m _ hs]
        simp [Tokenizer.step, hs, commentState, M.appendComment]
      · have e : (CPh.next .c c).st = .comment := by simp [CPh.next, h1, h2, h3, CPh.st]
        rw [e, setC_same m _ hs]
        simp [Tokenizer.step, hs, commentState, M.appendComment, h0, h1, h2]

/-- **one character of comment data** from any phase: at most three passes, the logical data (token data plus the
pending dash) grows by exactly that character -/
theorem reach_comment_char (ph : CPh) (m : M) (hs : m.state = ph.st) (hd : m.done = false) (c : Nat) (h0 : c ≠ 0)
    (hdd : ¬ (ph.pendDash = true ∧ c = 45)) (hgt : ¬ (ph.isStart = true ∧ c = 62)) (rest : Str) :
    ReachLe 3 m (c :: rest) (setC m (ph.next c).st (if c = 45 then m.comment else m.comment ++ ph.pend ++ [c])) rest := by
  cases ph with
  | c =>
    have := reach_C m hs hd c h0 rest
    simpa [CPh.pend, CPh.pendDash] using this.mono (by omega)
  | s =>
    have hgt2 : c ≠ 62 := fun h => hgt ⟨rfl, h⟩
    by_cases h1 : c = 45
    · subst h1
      refine (ReachLe.single hd ?_).mono (by omega)
      simp [Tokenizer.step, hs, CPh.st, commentStartState, setC, CPh.next, M.switchTo]
    · have s1 : Tokenizer.step m (c :: rest) = (setC m .comment m.comment, c :: rest) := by
        simp [Tokenizer.step, hs, CPh.st, commentStartState, setC, M.switchTo, h1, hgt2]
      have r2 := reach_C (setC m .comment m.comment) rfl hd c h0 rest
      have e : CPh.next .s c = CPh.next .c c := by simp [CPh.next, h1]
      have r := (ReachLe.single hd s1).trans r2
      simp only [setC_setC, setC_comment, h1, if_false, CPh.pend, CPh.pendDash, e] at r ⊢
      simpa using r.mono (by omega)
  | sd =>
    have hgt2 : c ≠ 62 := fun h => hgt ⟨rfl, h⟩
    have h1 : c ≠ 45 := fun h => hdd ⟨rfl, h⟩
    have s1 : Tokenizer.step m (c :: rest) = (setC m .comment (m.comment ++ [45]), c :: rest) := by
      simp [Tokenizer.step, hs, CPh.st, commentStartDashState, setC, M.switchTo, M.appendComment, h1, hgt2]
    have r2 := reach_C (setC m .comment (m.comment ++ [45])) rfl hd c h0 rest
    have e : CPh.next .sd c = CPh.next .c c := by simp [CPh.next, h1]
    have r := (ReachLe.single hd s1).trans r2
    simp only [setC_setC, setC_comment, h1, if_false, CPh.pend, CPh.pendDash, e] at r ⊢
    simpa using r.mono (by omega)
  | lt =>
    by_cases h1 : c = 33
    · subst h1
      refine (ReachLe.single hd ?_).mono (by omega)
      simp [Tokenizer.step, hs, CPh.st, commentLessThanSignState, setC, CPh.next, M.switchTo, M.appendComment,
        CPh.pend, CPh.pendDash]
    · by_cases h2 : c = 60
      · subst h2
        refine (ReachLe.single hd ?_).mono (by omega)
        have e : (CPh.next .lt 60).st = .commentLessThanSign := by decide
        have hs2 : m.state = .commentLessThanSign := hs
        rw [e, setC_same m _ hs2]
        simp [Tokenizer.step, hs2, commentLessThanSignState, M.appendComment, CPh.pend, CPh.pendDash]
      · have s1 : Tokenizer.step m (c :: rest) = (setC m .comment m.comment, c :: rest) := by
          simp [Tokenizer.step, hs, CPh.st, commentLessThanSignState, setC, M.switchTo, h1, h2]
        have r2 := reach_C (setC m .comment m.comment) rfl hd c h0 rest
        have e : CPh.next .lt c = CPh.next .c c := by simp [CPh.next, h1]
        have r := (ReachLe.single hd s1).trans r2
        simp only [setC_setC, setC_comment, CPh.pend, CPh.pendDash, e] at r ⊢
        simpa using r.mono (by omega)
  | bang =>
    by_cases h1 : c = 45
    · subst h1
      refine (ReachLe.single hd ?_).mono (by omega)
      simp [Tokenizer.step, hs, CPh.st, commentLessThanSignBangState, setC, CPh.next, M.switchTo]
    · have s1 : Tokenizer.step m (c :: rest) = (setC m .comment m.comment, c :: rest) := by
        simp [Tokenizer.step, hs, CPh.st, commentLessThanSignBangState, setC, M.switchTo, h1]
      have r2 := reach_C (setC m .comment m.comment) rfl hd c h0 rest
      have e : CPh.next .bang c = CPh.next .c c := by simp [CPh.next, h1]
      have r := (ReachLe.single hd s1).trans r2
      simp only [setC_setC, setC_comment, CPh.pend, CPh.pendDash, e] at r ⊢
      simpa using r.mono (by omega)
  | bangDash =>
    have h1 : c ≠ 45 := fun h => hdd ⟨rfl, h⟩
    have s1 : Tokenizer.step m (c :: rest) = (setC m .commentEndDash m.comment, c :: rest) := by
      simp [Tokenizer.step, hs, CPh.st, commentLessThanSignBangDashState, setC, M.switchTo, h1]
    have s2 : Tokenizer.step (setC m .commentEndDash m.comment) (c :: rest) = (setC m .comment (m.comment ++ [45]), c :: rest) := by
      simp [Tokenizer.step, commentEndDashState, setC, M.switchTo, M.appendComment, h1]
    have r3 := reach_C (setC m .comment (m.comment ++ [45])) rfl hd c h0 rest
    have e : CPh.next .bangDash c = CPh.next .c c := by simp [CPh.next, h1]
    have r := ((ReachLe.single hd s1).trans (ReachLe.single (by exact hd) s2)).trans r3
    simp only [setC_setC, setC_comment, h1, if_false, CPh.pend, CPh.pendDash, e] at r ⊢
    simpa using r.mono (by omega)
  | endDash =>
    have h1 : c ≠ 45 := fun h => hdd ⟨rfl, h⟩
    have s2 : Tokenizer.step m (c :: rest) = (setC m .comment (m.comment ++ [45]), c :: rest) := by
      simp [Tokenizer.step, hs, CPh.st, commentEndDashState, setC, M.switchTo, M.appendComment, h1]
    have r3 := reach_C (setC m .comment (m.comment ++ [45])) rfl hd c h0 rest
    have e : CPh.next .endDash c = CPh.next .c c := by simp [CPh.next, h1]
    have r := (ReachLe.single hd s2).trans r3
    simp only [setC_setC, setC_comment, h1, if_false, CPh.pend, CPh.pendDash, e] at r ⊢
    simpa using r.mono (by omega)

/-! ### The closing `-->` -/

/-- the parse errors of the closing `-->`: `nested-comment` when the data ends in `<!-` -/
def cerr (ph : CPh) : List TTok := if ph = .bangDash then [.parseError (lit "nested-comment") []] else []

theorem step_commentEnd_gt (m : M) (hs : m.state = .commentEnd) (rest : Str) :
    Tokenizer.step m (62 :: rest) = ((m.switchTo .data).emitComment, rest) := by
  simp [Tokenizer.step, hs, commentEndState]

theorem step_commentEnd_dash (m : M) (hs : m.state = .commentEnd) (rest : Str) :
    Tokenizer.step m (45 :: rest) = (setC m .commentEnd (m.comment ++ [45]), rest) := by
  rw [setC_same m _ hs]
  simp [Tokenizer.step, hs, commentEndState, M.appendComment]

/-- `->` from the comment end dash state (a `-` pending): the token is emitted with the pending dash… -/
theorem reach_end_from_endDashLike (m : M) (hd : m.done = false) (cm : Str) (rest : Str) :
    ReachLe 2 (setC m .commentEnd cm) (45 :: 62 :: rest) ((setC m .data (cm ++ [45])).emitComment) rest := by
  have s1 := step_commentEnd_dash (setC m .commentEnd cm) rfl (62 :: rest)
  have s2 := step_commentEnd_gt (setC m .commentEnd (cm ++ [45])) rfl rest
  exact ⟨_, by omega, (Reach.single (by exact hd) s1).trans (Reach.single (by exact hd) s2)⟩

/-- **the closing `-->`** from any phase: the comment token (data = logical data) is emitted, data state -/
theorem reach_comment_end (ph : CPh) (m : M) (hs : m.state = ph.st) (hd : m.done = false) (rest : Str) :
    ∃ m', ReachLe 5 m (45 :: 45 :: 62 :: rest) m' rest ∧ m'.state = .data ∧ m'.done = false ∧
      m'.lastStartTagName = m.lastStartTagName ∧ m'.out = .comment (m.comment ++ ph.pend) :: (cerr ph ++ m.out) := by
  cases ph with
  | s =>
    have s1 : Tokenizer.step m (45 :: 45 :: 62 :: rest) = (setC m .commentStartDash m.comment, 45 :: 62 :: rest) := by
      simp [Tokenizer.step, hs, CPh.st, commentStartState, setC, M.switchTo]
    have s2 : Tokenizer.step (setC m .commentStartDash m.comment) (45 :: 62 :: rest) = (setC m .commentEnd m.comment, 62 :: rest) := by
      simp [Tokenizer.step, commentStartDashState, setC, M.switchTo]
    have s3 := step_commentEnd_gt (setC m .commentEnd m.comment) rfl rest
    refine ⟨_, ⟨_, by omega, ((Reach.single hd s1).trans (Reach.single (by exact hd) s2)).trans (Reach.single (by exact hd) s3)⟩,
      rfl, hd, rfl, ?_⟩
    simp [M.emitComment, M.emit, M.switchTo, setC, CPh.pend, CPh.pendDash, cerr]
  | sd =>
    have s1 : Tokenizer.step m (45 :: 45 :: 62 :: rest) = (setC m .commentEnd m.comment, 45 :: 62 :: rest) := by
      simp [Tokenizer.step, hs, CPh.st, commentStartDashState, setC, M.switchTo]
    have r := (ReachLe.single hd s1).trans (reach_end_from_endDashLike m hd m.comment rest)
    refine ⟨_, r.mono (by omega), rfl, hd, rfl, ?_⟩
    simp [M.emitComment, M.emit, setC, CPh.pend, CPh.pendDash, cerr]
  | c =>
    have s1 : Tokenizer.step m (45 :: 45 :: 62 :: rest) = (setC m .commentEndDash m.comment, 45 :: 62 :: rest) := by
      simp [Tokenizer.step, hs, CPh.st, commentState, setC, M.switchTo]
    have s2 : Tokenizer.step (setC m .commentEndDash m.comment) (45 :: 62 :: rest) = (setC m .commentEnd m.comment, 62 :: rest) := by
      simp [Tokenizer.step, commentEndDashState, setC, M.switchTo]
    have s3 := step_commentEnd_gt (setC m .commentEnd m.comment) rfl rest
    refine ⟨_, ⟨_, by omega, ((Reach.single hd s1).trans (Reach.single (by exact hd) s2)).trans (Reach.single (by exact hd) s3)⟩,
      rfl, hd, rfl, ?_⟩
    simp [M.emitComment, M.emit, M.switchTo, setC, CPh.pend, CPh.pendDash, cerr]
  | lt =>
    have s0 : Tokenizer.step m (45 :: 45 :: 62 :: rest) = (setC m .comment m.comment, 45 :: 45 :: 62 :: rest) := by
      simp [Tokenizer.step, hs, CPh.st, commentLessThanSignState, setC, M.switchTo]
    have s1 : Tokenizer.step (setC m .comment m.comment) (45 :: 45 :: 62 :: rest) = (setC m .commentEndDash m.comment, 45 :: 62 :: rest) := by
      simp [Tokenizer.step, commentState, setC, M.switchTo]
    have s2 : Tokenizer.step (setC m .commentEndDash m.comment) (45 :: 62 :: rest) = (setC m .commentEnd m.comment, 62 :: rest) := by
      simp [Tokenizer.step, commentEndDashState, setC, M.switchTo]
    have s3 := step_commentEnd_gt (setC m .commentEnd m.comment) rfl rest
    refine ⟨_, ⟨_, by omega, (((Reach.single hd s0).trans (Reach.single (by exact hd) s1)).trans
      (Reach.single (by exact hd) s2)).trans (Reach.single (by exact hd) s3)⟩, rfl, hd, rfl, ?_⟩
    simp [M.emitComment, M.emit, M.switchTo, setC, CPh.pend, CPh.pendDash, cerr]
  | bang =>
    have s0 : Tokenizer.step m (45 :: 45 :: 62 :: rest) = (setC m .commentLessThanSignBangDash m.comment, 45 :: 62 :: rest) := by
      simp [Tokenizer.step, hs, CPh.st, commentLessThanSignBangState, setC, M.switchTo]
    have s1 : Tokenizer.step (setC m .commentLessThanSignBangDash m.comment) (45 :: 62 :: rest)
        = (setC m .commentLessThanSignBangDashDash m.comment, 62 :: rest) := by
      simp [Tokenizer.step, commentLessThanSignBangDashState, setC, M.switchTo]
    have s2 : Tokenizer.step (setC m .commentLessThanSignBangDashDash m.comment) (62 :: rest) = (setC m .commentEnd m.comment, 62 :: rest) := by
      simp [Tokenizer.step, commentLessThanSignBangDashDashState, setC, M.switchTo]
    have s3 := step_commentEnd_gt (setC m .commentEnd m.comment) rfl rest
    refine ⟨_, ⟨_, by omega, (((Reach.single hd s0).trans (Reach.single (by exact hd) s1)).trans
      (Reach.single (by exact hd) s2)).trans (Reach.single (by exact hd) s3)⟩, rfl, hd, rfl, ?_⟩
    simp [M.emitComment, M.emit, M.switchTo, setC, CPh.pend, CPh.pendDash, cerr]
  | bangDash =>
    have s1 : Tokenizer.step m (45 :: 45 :: 62 :: rest) = (setC m .commentLessThanSignBangDashDash m.comment, 45 :: 62 :: rest) := by
      simp [Tokenizer.step, hs, CPh.st, commentLessThanSignBangDashState, setC, M.switchTo]
    have s2 : Tokenizer.step (setC m .commentLessThanSignBangDashDash m.comment) (45 :: 62 :: rest)
        = (setC (m.err "nested-comment") .commentEnd m.comment, 45 :: 62 :: rest) := by
      simp [Tokenizer.step, commentLessThanSignBangDashDashState, setC, M.switchTo, M.err, M.emit]
    have r3 := reach_end_from_endDashLike (m.err "nested-comment") hd m.comment rest
    have r := ((ReachLe.single hd s1).trans (ReachLe.single (by exact hd) s2)).trans r3
    refine ⟨_, r.mono (by omega), rfl, hd, rfl, ?_⟩
    simp [M.emitComment, M.emit, M.err, setC, CPh.pend, CPh.pendDash, cerr]
  | endDash =>
    have s1 : Tokenizer.step m (45 :: 45 :: 62 :: rest) = (setC m .commentEnd m.comment, 45 :: 62 :: rest) := by
      simp [Tokenizer.step, hs, CPh.st, commentEndDashState, setC, M.switchTo]
    have r := (ReachLe.single hd s1).trans (reach_end_from_endDashLike m hd m.comment rest)
    refine ⟨_, r.mono (by omega), rfl, hd, rfl, ?_⟩
    simp [M.emitComment, M.emit, setC, CPh.pend, CPh.pendDash, cerr]

/-- the phase after the whole data -/
def CPh.final (ph : CPh) (d : Str) : CPh := d.foldl CPh.next ph

theorem pend_next (ph : CPh) (c : Nat) (hdd : ¬ (ph.pendDash = true ∧ c = 45)) (cm : Str) :
    (if c = 45 then cm else cm ++ ph.pend ++ [c]) ++ (ph.next c).pend = cm ++ ph.pend ++ [c] := by
  by_cases h : c = 45
  · subst h
    have hp : ph.pendDash = false := by cases hx : ph.pendDash <;> simp_all
    cases ph <;> simp_all [CPh.pend, CPh.pendDash, CPh.next]
  · simp only [h, if_false]
    have : (ph.next c).pendDash = false := by
      unfold CPh.next; simp only [h, if_false]; repeat' split
      all_goals rfl
    simp [CPh.pend, this]

/-- **the comment body**: data and the closing `-->`, from any phase -/
theorem reach_comment_body : ∀ (d : Str) (ph : CPh) (m : M), m.state = ph.st → m.done = false → cwf ph d = true →
    ∀ (rest : Str), ∃ m', ReachLe (3 * d.length + 5) m (d ++ [45, 45, 62] ++ rest) m' rest ∧ m'.state = .data ∧
      m'.done = false ∧ m'.lastStartTagName = m.lastStartTagName ∧
      m'.out = .comment (m.comment ++ ph.pend ++ d) :: (cerr (ph.final d) ++ m.out) := by
  intro d
  induction d with
  | nil =>
    intro ph m hs hd _ rest
    obtain ⟨m', r, h1, h2, h3, h4⟩ := reach_comment_end ph m hs hd rest
    exact ⟨m', by simpa using r, h1, h2, h3, by simpa [CPh.final] using h4⟩
  | cons c d ih =>
    intro ph m hs hd hw rest
    simp only [cwf, Bool.and_eq_true, Bool.not_eq_true', bne_iff_ne, ne_eq, Bool.and_eq_false_iff, beq_eq_false_iff_ne] at hw
    obtain ⟨⟨⟨h0, hdd⟩, hgt⟩, hw2⟩ := hw
    have hdd2 : ¬ (ph.pendDash = true ∧ c = 45) := by
      rintro ⟨a, b⟩; rcases hdd with h | h
      · rw [a] at h; exact absurd h (by decide)
      · exact h b
    have hgt2 : ¬ (ph.isStart = true ∧ c = 62) := by
      rintro ⟨a, b⟩; rcases hgt with h | h
      · rw [a] at h; exact absurd h (by decide)
      · exact h b
    have r1 := reach_comment_char ph m hs hd c h0 hdd2 hgt2 (d ++ [45, 45, 62] ++ rest)
    obtain ⟨m', r2, e1, e2, e3, e4⟩ := ih (ph.next c)
      (setC m (ph.next c).st (if c = 45 then m.comment else m.comment ++ ph.pend ++ [c])) rfl hd hw2 rest
    refine ⟨m', ?_, e1, e2, e3, ?_⟩
    · have r := r1.trans r2
      simp only [List.cons_append, List.append_assoc] at r ⊢
      exact r.mono (by simp; omega)
    · rw [e4, setC_comment, pend_next ph c hdd2]
      simp [CPh.final]

/-! ### The predicate on comment data, in terms of the data itself -/

/-- comment data the round trip holds for: no NUL/CR, no `--` (reported by the serializer), not starting with `>`
or `->` (NOT reported by the serializer) -/
def commentOK (d : Str) : Bool :=
  d.all (fun c => c != 0 && c != 13) && !d.contains [45, 45] && !d.startsWith [62] && !d.startsWith [45, 62]

/-- no two adjacent dashes (`p`: the previous character was a dash) -/
def noDD : Bool → Str → Bool
  | _, [] => true
  | p, c :: r => !(p && c == 45) && noDD (c == 45) r

theorem noDD_of_not_infix : ∀ (d : Str) (p : Bool), Str.isInfix [45, 45] d = false →
    (p = true → d.head? ≠ some 45) → noDD p d = true
  | [], _, _, _ => rfl
  | c :: r, p, h, hp => by
    simp only [Str.isInfix, Bool.or_eq_false_iff] at h
    simp only [noDD, Bool.and_eq_true, Bool.not_eq_true', Bool.and_eq_false_iff, beq_eq_false_iff_ne]
    refine ⟨?_, noDD_of_not_infix r (c == 45) h.2 ?_⟩
    · cases p with
      | false => exact Or.inl rfl
      | true => right; intro hc; exact hp rfl (by simp [hc])
    · intro hc
      have hc2 : c = 45 := by simpa using hc
      subst hc2
      intro hr
      cases r with
      | nil => simp at hr
      | cons x r' =>
        simp only [List.head?_cons, Option.some.injEq] at hr
        subst hr
        have := h.1
        simp [List.isPrefixOf] at this

theorem pendDash_next (ph : CPh) (c : Nat) : (ph.next c).pendDash = (c == 45) := by
  by_cases h : c = 45
  · subst h; cases ph <;> rfl
  · unfold CPh.next
    simp only [h, if_false]
    have : (c == 45) = false := by simpa using h
    rw [this]
    repeat' split
    all_goals rfl

theorem isStart_next (ph : CPh) (c : Nat) (h : (ph.next c).isStart = true) : ph = .s ∧ c = 45 := by
  unfold CPh.next at h
  by_cases hc : c = 45
  · subst hc; cases ph <;> simp_all [CPh.isStart]
  · simp only [hc, if_false] at h
    revert h
    repeat' split
    all_goals simp [CPh.isStart]

theorem cwf_of : ∀ (d : Str) (ph : CPh), (∀ c ∈ d, c ≠ 0) → noDD ph.pendDash d = true →
    (ph.isStart = true → d.head? ≠ some 62) → (ph = .s → ¬ [45, 62].isPrefixOf d = true) → cwf ph d = true
  | [], _, _, _, _, _ => rfl
  | c :: r, ph, h0, hdd, hst, hs2 => by
    simp only [noDD, Bool.and_eq_true, Bool.not_eq_true'] at hdd
    simp only [cwf, Bool.and_eq_true, Bool.not_eq_true', bne_iff_ne, ne_eq]
    refine ⟨⟨⟨h0 c (by simp), hdd.1⟩, ?_⟩, cwf_of r (ph.next c) (fun x hx => h0 x (List.mem_cons_of_mem _ hx)) ?_ ?_ ?_⟩
    · cases hi : ph.isStart with
      | false => simp
      | true =>
        have := hst hi
        simp only [List.head?_cons, ne_eq, Option.some.injEq] at this
        simp [this]
    · rw [pendDash_next]; exact hdd.2
    · intro hi
      obtain ⟨hph, hc⟩ := isStart_next ph c hi
      subst hph; subst hc
      intro hr
      apply hs2 rfl
      cases r with
      | nil => simp at hr
      | cons x r' =>
        simp only [List.head?_cons, Option.some.injEq] at hr
        subst hr
        simp [List.isPrefixOf]
    · intro hph
      exfalso
      unfold CPh.next at hph
      revert hph
      repeat' split
      all_goals simp

theorem commentOK_cwf {d : Str} (h : commentOK d = true) : cwf .s d = true := by
  simp only [commentOK, Bool.and_eq_true, Bool.not_eq_true', List.all_eq_true, bne_iff_ne, ne_eq, Str.contains,
    Str.startsWith] at h
  obtain ⟨⟨⟨h0, hdd⟩, hgt⟩, hdgt⟩ := h
  refine cwf_of d .s (fun c hc => (h0 c hc).1) (noDD_of_not_infix d false hdd (by simp)) ?_ ?_
  · intro _ hh
    cases d with
    | nil => simp at hh
    | cons x r =>
      simp only [List.head?_cons, Option.some.injEq] at hh
      subst hh
      simp [List.isPrefixOf] at hgt
  · intro _; simp [hdgt]

/-! ### When the `nested-comment` error occurs: the data ends in `<!-` -/

theorem final_snoc (ph : CPh) (d : Str) (c : Nat) : ph.final (d ++ [c]) = (ph.final d).next c := by
  simp [CPh.final, List.foldl_append]

theorem next_eq_lt (ph : CPh) (c : Nat) : ph.next c = .lt ↔ c = 60 := by
  unfold CPh.next
  by_cases h1 : c = 45
  · subst h1; cases ph <;> simp
  · by_cases h2 : c = 60
    · simp [h2]
    · by_cases h3 : c = 33
      · subst h3; simp; split <;> simp
      · simp [h1, h2, h3]

theorem next_eq_bang (ph : CPh) (c : Nat) : ph.next c = .bang ↔ c = 33 ∧ ph = .lt := by
  unfold CPh.next
  by_cases h1 : c = 45
  · subst h1; cases ph <;> simp
  · by_cases h2 : c = 60
    · simp [h2]
    · by_cases h3 : c = 33
      · subst h3; simp
      · simp [h1, h2, h3]

theorem next_eq_bangDash (ph : CPh) (c : Nat) : ph.next c = .bangDash ↔ c = 45 ∧ ph = .bang := by
  unfold CPh.next
  by_cases h1 : c = 45
  · subst h1; cases ph <;> simp
  · by_cases h2 : c = 60
    · simp [h2]
    · by_cases h3 : c = 33
      · subst h3; simp; split <;> simp
      · simp [h1, h2, h3]

theorem final_lt_iff (d : Str) : CPh.final .s d = .lt ↔ ∃ p, d = p ++ [60] := by
  rcases List.eq_nil_or_concat d with h | ⟨p, c, h⟩
  · subst h; simp [CPh.final]
  · subst h
    rw [List.concat_eq_append, final_snoc, next_eq_lt]
    constructor
    · intro hc; exact ⟨p, by rw [hc]⟩
    · rintro ⟨p', hp⟩
      have := List.append_inj' hp rfl
      simpa using this.2

theorem final_bang_iff (d : Str) : CPh.final .s d = .bang ↔ ∃ p, d = p ++ [60, 33] := by
  rcases List.eq_nil_or_concat d with h | ⟨p, c, h⟩
  · subst h; simp [CPh.final]
  · subst h
    rw [List.concat_eq_append, final_snoc, next_eq_bang, final_lt_iff]
    constructor
    · rintro ⟨hc, p', hp⟩; exact ⟨p', by rw [hc, hp]; simp⟩
    · rintro ⟨p', hp⟩
      have e : p' ++ [60, 33] = (p' ++ [60]) ++ [33] := by simp
      rw [e] at hp
      have := List.append_inj' hp rfl
      exact ⟨by simpa using this.2, p', this.1⟩

/-- the `nested-comment` parse error of `C08_comment_roundtrip` occurs exactly when the data ends in `<!-` -/
theorem final_bangDash_iff (d : Str) : CPh.final .s d = .bangDash ↔ ∃ p, d = p ++ [60, 33, 45] := by
  rcases List.eq_nil_or_concat d with h | ⟨p, c, h⟩
  · subst h; simp [CPh.final]
  · subst h
    rw [List.concat_eq_append, final_snoc, next_eq_bangDash, final_bang_iff]
    constructor
    · rintro ⟨hc, p', hp⟩; exact ⟨p', by rw [hc, hp]; simp⟩
    · rintro ⟨p', hp⟩
      have e : p' ++ [60, 33, 45] = (p' ++ [60, 33]) ++ [45] := by simp
      rw [e] at hp
      have := List.append_inj' hp rfl
      exact ⟨by simpa using this.2, p', this.1⟩

/-! ### Theorem 4b: the comment -/

def commentText (d : Str) : Str := [60, 33, 45, 45] ++ d ++ [45, 45, 62]

theorem step_tagOpen_bang (m : M) (hs : m.state = .tagOpen) (rest : Str) :
    Tokenizer.step m (33 :: rest) = (m.switchTo .markupDeclarationOpen, rest) := by
  simp [Tokenizer.step, hs, tagOpenState]

theorem step_mdo_comment (m : M) (hs : m.state = .markupDeclarationOpen) (rest : Str) :
    Tokenizer.step m (45 :: 45 :: rest) = (setC m .commentStart [], rest) := by
  simp [Tokenizer.step, hs, markupDeclarationOpenState, M.newComment, M.switchTo, setC]

/-- **comment, spec side.**  From the data state, `<!--d-->` leads back to the data state having emitted exactly the
comment token `d` (preceded by a `nested-comment` parse error iff `d` ends in `<!-`). -/
theorem reach_comment (d : Str) (hok : commentOK d = true) (m : M) (hs : m.state = .data) (hd : m.done = false)
    (rest : Str) :
    ∃ m', ReachLe (3 * (commentText d).length) m (commentText d ++ rest) m' rest ∧
      m'.state = .data ∧ m'.done = false ∧ m'.lastStartTagName = m.lastStartTagName ∧
      m'.out = .comment d :: (cerr (CPh.final .s d) ++ m.out) := by
  have r1 := ReachLe.single hd (step_data_lt m hs (33 :: 45 :: 45 :: (d ++ [45, 45, 62] ++ rest)))
  have r2 := ReachLe.single (m := m.switchTo .tagOpen) hd (step_tagOpen_bang _ rfl (45 :: 45 :: (d ++ [45, 45, 62] ++ rest)))
  have r3 := ReachLe.single (m := (m.switchTo .tagOpen).switchTo .markupDeclarationOpen) hd
    (step_mdo_comment _ rfl (d ++ [45, 45, 62] ++ rest))
  obtain ⟨m', r4, e1, e2, e3, e4⟩ := reach_comment_body d .s
    (setC ((m.switchTo .tagOpen).switchTo .markupDeclarationOpen) .commentStart []) rfl hd (commentOK_cwf hok) rest
  refine ⟨m', ?_, e1, e2, e3, ?_⟩
  · have r := ((r1.trans r2).trans r3).trans r4
    simp only [commentText, List.cons_append, List.append_assoc, List.nil_append] at r ⊢
    exact r.mono (by simp; omega)
  · rw [e4]
    simp [CPh.pend, CPh.pendDash, M.switchTo]

/-- **Model.** what `step` does on a comment token -/
theorem step_comment (o : Opts) (s : St) (d : Str) :
    ∃ s', H5.Model.Serializer.step o s (.comment d) = .ok s' ∧ s'.out = s.out ++ commentText d ∧
      s'.inCdata = s.inCdata ∧ (d.contains [45, 45] = false → s'.errors = s.errors) := by
  simp only [H5.Model.Serializer.step]
  have e1 : lit "<!--" = [60, 33, 45, 45] := by decide
  have e2 : lit "-->" = [45, 45, 62] := by decide
  have e3 : lit "--" = [45, 45] := by decide
  rw [e1, e2, e3]
  refine ⟨_, rfl, ?_, ?_, ?_⟩
  · cases d.contains [45, 45] <;> simp [St.emit, St.err, commentText]
  · cases d.contains [45, 45] <;> simp [St.emit, St.err]
  · intro h; simp [h, St.emit]

theorem cerr_reverse (ph : CPh) : (cerr ph).reverse = cerr ph := by
  unfold cerr; split <;> rfl

/-- **C08c (4b) — comment round trip.**  For comment data without NUL/CR, without `--`, not starting with `>` or
`->`: the serializer model writes `<!--data-->` without reporting an error, and the standard's tokenizer reads it
back from the data state as exactly the comment token `data`, ending in the data state; the only parse error
possible is one `nested-comment`, exactly when the data ends in `<!-` (`final_bangDash_iff`). -/
theorem C08_comment_roundtrip (o : Opts) (d : Str) (hok : commentOK d = true) :
    ∃ out, serialize o [.comment d] = .ok (out, []) ∧
      Spec.tokenize .data none false out = .ok (cerr (CPh.final .s d) ++ [.comment d]) ∧
      (Spec.tokenize .data none false out).map canon = .ok [.comment d] := by
  obtain ⟨s', hstep, hout, _, herr⟩ := step_comment o {} d
  have hdd : d.contains [45, 45] = false := by
    simp only [commentOK, Bool.and_eq_true, Bool.not_eq_true'] at hok
    exact hok.1.1.2
  obtain ⟨m', r, hs, hd, _, hout'⟩ := reach_comment d hok (initial .data none false) rfl rfl []
  rw [List.append_nil] at r
  have ht := tokenize_of_reach r (Nat.le_refl _) hs hd
  rw [hout'] at ht
  have ht2 : Spec.tokenize .data none false (commentText d) = .ok (cerr (CPh.final .s d) ++ [.comment d]) := by
    rw [ht]
    show Except.ok ((TTok.comment d :: (cerr (CPh.final .s d) ++ [])).reverse) = _
    simp [cerr_reverse]
  refine ⟨commentText d, ?_, ht2, ?_⟩
  · rw [serialize_single o _ s' hstep, hout, herr hdd]
    rfl
  · rw [ht2]
    unfold cerr
    split <;> simp [Except.map, canon, canonTok, mergeChars, List.filterMap]

/-! ### Theorem 4c: the DOCTYPE (name only) -/

/-- a character the DOCTYPE name state appends unchanged: not whitespace, `>`, NUL, CR, upper-case ASCII -/
def doctypeNameChar (c : Nat) : Bool := !(isWhitespace c || c == 62 || c == 0 || c == 13 || isASCIIUpperAlpha c)

def doctypeNameOK (n : Str) : Bool := !n.isEmpty && n.all doctypeNameChar

theorem doctypeNameChar_spec {c : Nat} (h : doctypeNameChar c = true) :
    isWhitespace c = false ∧ c ≠ 62 ∧ c ≠ 0 ∧ isASCIIUpperAlpha c = false := by
  simp [doctypeNameChar] at h
  simp [h]

def doctypeText (name : Str) : Str := [60, 33, 68, 79, 67, 84, 89, 80, 69, 32] ++ name ++ [62]

def setD (m : M) (s : State) (dt : DoctypeToken) : M := { m with state := s, doctype := dt }

theorem step_mdo_doctype (m : M) (hs : m.state = .markupDeclarationOpen) (rest : Str) :
    Tokenizer.step m (68 :: 79 :: 67 :: 84 :: 89 :: 80 :: 69 :: rest) = (m.switchTo .DOCTYPE, rest) := by
  have e : asciiLowercase [68, 79, 67, 84, 89, 80, 69] = doctypeStr := by decide
  simp [Tokenizer.step, hs, markupDeclarationOpenState, e]

theorem step_DOCTYPE_space (m : M) (hs : m.state = .DOCTYPE) (rest : Str) :
    Tokenizer.step m (32 :: rest) = (m.switchTo .beforeDOCTYPEName, rest) := by
  simp [Tokenizer.step, hs, DOCTYPEState, isWhitespace]

theorem step_beforeName (m : M) (hs : m.state = .beforeDOCTYPEName) (c : Nat) (rest : Str) (h : doctypeNameChar c = true) :
    Tokenizer.step m (c :: rest) = (setD m .DOCTYPEName { name := some [c] }, rest) := by
  have := doctypeNameChar_spec h
  simp [Tokenizer.step, hs, beforeDOCTYPENameState, this, M.newDoctype, M.setDoctypeName, M.switchTo, setD]

theorem step_DOCTYPEName_char (m : M) (hs : m.state = .DOCTYPEName) (c : Nat) (rest : Str) (h : doctypeNameChar c = true) :
    Tokenizer.step m (c :: rest) = (m.appendDoctypeName c, rest) := by
  have := doctypeNameChar_spec h
  simp [Tokenizer.step, hs, DOCTYPENameState, this]

theorem reach_doctypeName : ∀ (n : Str), n.all doctypeNameChar = true → ∀ (m : M), m.state = .DOCTYPEName →
    m.done = false → ∀ (acc : Str), m.doctype.name = some acc → ∀ (rest : Str),
    Reach n.length m (n ++ rest) (setD m .DOCTYPEName { m.doctype with name := some (acc ++ n) }) rest := by
  intro n
  induction n with
  | nil =>
    intro _ m hs _ acc hacc rest
    have e : setD m .DOCTYPEName { m.doctype with name := some (acc ++ []) } = m := by
      rw [List.append_nil, ← hacc, ← hs]; rfl
    rw [e]
    exact Reach.refl m rest
  | cons c n ih =>
    intro h m hs hd acc hacc rest
    simp only [List.all_cons, Bool.and_eq_true] at h
    have r1 := Reach.single hd (step_DOCTYPEName_char m hs c (n ++ rest) h.1)
    have r2 := ih h.2 (m.appendDoctypeName c) hs hd (acc ++ [c]) (by simp [M.appendDoctypeName, hacc]) rest
    have e : setD (m.appendDoctypeName c) .DOCTYPEName { (m.appendDoctypeName c).doctype with name := some (acc ++ [c] ++ n) }
        = setD m .DOCTYPEName { m.doctype with name := some (acc ++ c :: n) } := by
      simp [setD, M.appendDoctypeName]
    rw [e] at r2
    exact r1.trans r2

/-- **DOCTYPE, spec side** -/
theorem reach_doctype (name : Str) (hok : doctypeNameOK name = true) (m : M) (hs : m.state = .data) (hd : m.done = false)
    (rest : Str) :
    ∃ m', ReachLe (3 * (doctypeText name).length) m (doctypeText name ++ rest) m' rest ∧
      m'.state = .data ∧ m'.done = false ∧ m'.lastStartTagName = m.lastStartTagName ∧
      m'.out = .doctype (some name) none none true :: m.out := by
  simp only [doctypeNameOK, Bool.and_eq_true, Bool.not_eq_true', List.isEmpty_eq_false_iff] at hok
  obtain ⟨hne, hall⟩ := hok
  cases name with
  | nil => exact absurd rfl hne
  | cons c n =>
    simp only [List.all_cons, Bool.and_eq_true] at hall
    have r1 := ReachLe.single hd (step_data_lt m hs (33 :: 68 :: 79 :: 67 :: 84 :: 89 :: 80 :: 69 :: 32 :: c :: (n ++ (62 :: rest))))
    have r2 := ReachLe.single (m := m.switchTo .tagOpen) hd
      (step_tagOpen_bang _ rfl (68 :: 79 :: 67 :: 84 :: 89 :: 80 :: 69 :: 32 :: c :: (n ++ (62 :: rest))))
    have r3 := ReachLe.single (m := (m.switchTo .tagOpen).switchTo .markupDeclarationOpen) hd
      (step_mdo_doctype _ rfl (32 :: c :: (n ++ (62 :: rest))))
    have r4 := ReachLe.single (m := ((m.switchTo .tagOpen).switchTo .markupDeclarationOpen).switchTo .DOCTYPE) hd
      (step_DOCTYPE_space _ rfl (c :: (n ++ (62 :: rest))))
    have r5 := ReachLe.single
      (m := (((m.switchTo .tagOpen).switchTo .markupDeclarationOpen).switchTo .DOCTYPE).switchTo .beforeDOCTYPEName) hd
      (step_beforeName _ rfl c (n ++ (62 :: rest)) hall.1)
    have r6 := reach_doctypeName n hall.2
      (setD ((((m.switchTo .tagOpen).switchTo .markupDeclarationOpen).switchTo .DOCTYPE).switchTo .beforeDOCTYPEName)
        .DOCTYPEName { name := some [c] }) rfl hd [c] rfl (62 :: rest)
    have s7 : Tokenizer.step (setD (setD ((((m.switchTo .tagOpen).switchTo .markupDeclarationOpen).switchTo .DOCTYPE).switchTo
        .beforeDOCTYPEName) .DOCTYPEName { name := some [c] }) .DOCTYPEName { name := some ([c] ++ n) }) (62 :: rest)
        = ((setD m .data { name := some (c :: n) }).emitDoctype, rest) := by
      simp [Tokenizer.step, setD, DOCTYPENameState, isWhitespace, M.switchTo]
    refine ⟨(setD m .data { name := some (c :: n) }).emitDoctype, ?_, rfl, hd, rfl, ?_⟩
    · have r := (((((r1.trans r2).trans r3).trans r4).trans r5).trans (ReachLe.of_reach r6)).trans
        (ReachLe.single (by exact hd) s7)
      simp only [doctypeText, List.cons_append, List.append_assoc, List.nil_append] at r ⊢
      exact r.mono (by simp; omega)
    · simp [M.emitDoctype, M.emit, setD]

/-- **Model.** what `step` does on a DOCTYPE token with a name and no identifiers -/
theorem step_doctype (o : Opts) (s : St) (name : Str) :
    H5.Model.Serializer.step o s (.doctype (some name) none none) = .ok (s.emit (doctypeText name)) := by
  have e : lit "<!DOCTYPE " = [60, 33, 68, 79, 67, 84, 89, 80, 69, 32] := by decide
  simp [H5.Model.Serializer.step, truthyO, fmtO, e, doctypeText]

/-- **C08c (4c) — DOCTYPE round trip (name only).**  `<!DOCTYPE name>` for a non-empty name without whitespace, `>`,
NUL, CR, upper-case ASCII is read back as exactly the DOCTYPE token (name, identifiers missing, force-quirks off),
no parse error, ending in the data state. -/
theorem C08_doctype_roundtrip (o : Opts) (name : Str) (hok : doctypeNameOK name = true) :
    ∃ out, serialize o [.doctype (some name) none none] = .ok (out, []) ∧
      Spec.tokenize .data none false out = .ok [.doctype (some name) none none true] := by
  refine ⟨doctypeText name, ?_, ?_⟩
  · rw [serialize_single o _ _ (step_doctype o {} name)]
    simp [St.emit]
  · obtain ⟨m', r, hs, hd, _, hout'⟩ := reach_doctype name hok (initial .data none false) rfl rfl []
    rw [List.append_nil] at r
    rw [tokenize_of_reach r (Nat.le_refl _) hs hd, hout']
    rfl

/-! ### Theorem 4d: the DOCTYPE with public / system identifiers -/

/-- the quote the serializer puts around a system identifier -/
def sysQuote (sysId : Str) : Nat := if sysId.elem 34 then 39 else 34

def pubIdOK (p : Str) : Bool := !p.isEmpty && p.all fun c => c != 0 && c != 13 && c != 62 && c != 34
def sysIdOK (s : Str) : Bool := !s.isEmpty && (s.all fun c => c != 0 && c != 13 && c != 62) && !(s.elem 34 && s.elem 39)

/-- a DOCTYPE token the round trip holds for: a name (`doctypeNameOK`); identifiers missing, or non-empty without
NUL/CR/`>`; no `"` in the public identifier (always written in double quotes); not both quotes in the system identifier -/
def doctypeOK : Option Str → Option Str → Option Str → Bool
  | some n, pub, sys =>
    doctypeNameOK n && (match pub with | none => true | some p => pubIdOK p) && (match sys with | none => true | some s => sysIdOK s)
  | none, _, _ => false

def doctypeTail (pub sys : Option Str) : Str :=
  (match pub with
    | some p => [32, 80, 85, 66, 76, 73, 67, 32, 34] ++ p ++ [34]
    | none => match sys with | some _ => [32, 83, 89, 83, 84, 69, 77] | none => []) ++
  (match sys with | some s => [32, sysQuote s] ++ s ++ [sysQuote s] | none => []) ++ [62]

def doctypeFullText (name : Str) (pub sys : Option Str) : Str :=
  [60, 33, 68, 79, 67, 84, 89, 80, 69, 32] ++ name ++ doctypeTail pub sys

theorem doctypeFullText_none (name : Str) : doctypeFullText name none none = doctypeText name := rfl

/-- the system identifier state for quote `q` -/
def sysState (q : Nat) : State :=
  if q = 39 then .DOCTYPESystemIdentifierSingleQuoted else .DOCTYPESystemIdentifierDoubleQuoted

theorem stepD_name_space (m : M) (dt : DoctypeToken) (rest : Str) :
    Tokenizer.step (setD m .DOCTYPEName dt) (32 :: rest) = (setD m .afterDOCTYPEName dt, rest) := by
  simp [Tokenizer.step, setD, DOCTYPENameState, isWhitespace, M.switchTo]

theorem stepD_afterName_public (m : M) (dt : DoctypeToken) (rest : Str) :
    Tokenizer.step (setD m .afterDOCTYPEName dt) (80 :: 85 :: 66 :: 76 :: 73 :: 67 :: rest)
      = (setD m .afterDOCTYPEPublicKeyword dt, rest) := by
  have e : asciiLowercase [80, 85, 66, 76, 73, 67] = publicStr := by decide
  simp [Tokenizer.step, setD, afterDOCTYPENameState, isWhitespace, M.switchTo, e]

theorem stepD_afterName_system (m : M) (dt : DoctypeToken) (rest : Str) :
    Tokenizer.step (setD m .afterDOCTYPEName dt) (83 :: 89 :: 83 :: 84 :: 69 :: 77 :: rest)
      = (setD m .afterDOCTYPESystemKeyword dt, rest) := by
  have e : asciiLowercase [83, 89, 83, 84, 69, 77] = systemStr := by decide
  have e2 : (asciiLowercase [83, 89, 83, 84, 69, 77] == publicStr) = false := by decide
  simp [Tokenizer.step, setD, afterDOCTYPENameState, isWhitespace, M.switchTo, e2]
  simp [e]

theorem stepD_pubkw_space (m : M) (dt : DoctypeToken) (rest : Str) :
    Tokenizer.step (setD m .afterDOCTYPEPublicKeyword dt) (32 :: rest) = (setD m .beforeDOCTYPEPublicIdentifier dt, rest) := by
  simp [Tokenizer.step, setD, afterDOCTYPEPublicKeywordState, isWhitespace, M.switchTo]

theorem stepD_beforePub_quote (m : M) (dt : DoctypeToken) (rest : Str) :
    Tokenizer.step (setD m .beforeDOCTYPEPublicIdentifier dt) (34 :: rest)
      = (setD m .DOCTYPEPublicIdentifierDoubleQuoted { dt with publicId := some [] }, rest) := by
  simp [Tokenizer.step, setD, beforeDOCTYPEPublicIdentifierState, isWhitespace, M.switchTo, M.setPublicIdEmpty]

theorem stepD_pub_char (m : M) (dt : DoctypeToken) (c : Nat) (rest : Str) (h1 : c ≠ 34) (h2 : c ≠ 0) (h3 : c ≠ 62) :
    Tokenizer.step (setD m .DOCTYPEPublicIdentifierDoubleQuoted dt) (c :: rest)
      = (setD m .DOCTYPEPublicIdentifierDoubleQuoted { dt with publicId := some (dt.publicId.getD [] ++ [c]) }, rest) := by
  simp [Tokenizer.step, setD, DOCTYPEPublicIdentifierDoubleQuotedState, DOCTYPEPublicIdentifierQuotedGeneric, h1, h2, h3,
    M.appendPublicId]

theorem stepD_pub_close (m : M) (dt : DoctypeToken) (rest : Str) :
    Tokenizer.step (setD m .DOCTYPEPublicIdentifierDoubleQuoted dt) (34 :: rest)
      = (setD m .afterDOCTYPEPublicIdentifier dt, rest) := by
  simp [Tokenizer.step, setD, DOCTYPEPublicIdentifierDoubleQuotedState, DOCTYPEPublicIdentifierQuotedGeneric, M.switchTo]

theorem stepD_afterPub_space (m : M) (dt : DoctypeToken) (rest : Str) :
    Tokenizer.step (setD m .afterDOCTYPEPublicIdentifier dt) (32 :: rest)
      = (setD m .betweenDOCTYPEPublicAndSystemIdentifiers dt, rest) := by
  simp [Tokenizer.step, setD, afterDOCTYPEPublicIdentifierState, isWhitespace, M.switchTo]

theorem stepD_between_quote (m : M) (dt : DoctypeToken) (q : Nat) (hq : q = 34 ∨ q = 39) (rest : Str) :
    Tokenizer.step (setD m .betweenDOCTYPEPublicAndSystemIdentifiers dt) (q :: rest)
      = (setD m (sysState q) { dt with systemId := some [] }, rest) := by
  rcases hq with h | h <;> subst h <;>
    simp [Tokenizer.step, setD, betweenDOCTYPEPublicAndSystemIdentifiersState, isWhitespace, M.switchTo,
      M.setSystemIdEmpty, sysState]

theorem stepD_syskw_space (m : M) (dt : DoctypeToken) (rest : Str) :
    Tokenizer.step (setD m .afterDOCTYPESystemKeyword dt) (32 :: rest) = (setD m .beforeDOCTYPESystemIdentifier dt, rest) := by
  simp [Tokenizer.step, setD, afterDOCTYPESystemKeywordState, isWhitespace, M.switchTo]

theorem stepD_beforeSys_quote (m : M) (dt : DoctypeToken) (q : Nat) (hq : q = 34 ∨ q = 39) (rest : Str) :
    Tokenizer.step (setD m .beforeDOCTYPESystemIdentifier dt) (q :: rest)
      = (setD m (sysState q) { dt with systemId := some [] }, rest) := by
  rcases hq with h | h <;> subst h <;>
    simp [Tokenizer.step, setD, beforeDOCTYPESystemIdentifierState, isWhitespace, M.switchTo,
      M.setSystemIdEmpty, sysState]

theorem stepD_sys (m : M) (dt : DoctypeToken) (q : Nat) (hq : q = 34 ∨ q = 39) (i : Str) :
    Tokenizer.step (setD m (sysState q) dt) i = DOCTYPESystemIdentifierQuotedGeneric q (setD m (sysState q) dt) i := by
  rcases hq with h | h <;> subst h <;>
    simp [Tokenizer.step, setD, sysState, DOCTYPESystemIdentifierDoubleQuotedState, DOCTYPESystemIdentifierSingleQuotedState]

theorem stepD_sys_char (m : M) (dt : DoctypeToken) (q : Nat) (hq : q = 34 ∨ q = 39) (c : Nat) (rest : Str)
    (h1 : c ≠ q) (h2 : c ≠ 0) (h3 : c ≠ 62) :
    Tokenizer.step (setD m (sysState q) dt) (c :: rest)
      = (setD m (sysState q) { dt with systemId := some (dt.systemId.getD [] ++ [c]) }, rest) := by
  rw [stepD_sys m dt q hq]
  simp [DOCTYPESystemIdentifierQuotedGeneric, h1, h2, h3, M.appendSystemId, setD]

theorem stepD_sys_close (m : M) (dt : DoctypeToken) (q : Nat) (hq : q = 34 ∨ q = 39) (rest : Str) :
    Tokenizer.step (setD m (sysState q) dt) (q :: rest) = (setD m .afterDOCTYPESystemIdentifier dt, rest) := by
  rw [stepD_sys m dt q hq]
  simp [DOCTYPESystemIdentifierQuotedGeneric, M.switchTo, setD]

theorem stepD_gt (m : M) (dt : DoctypeToken) (S : State)
    (hS : S = .DOCTYPEName ∨ S = .afterDOCTYPEPublicIdentifier ∨ S = .afterDOCTYPESystemIdentifier) (rest : Str) :
    Tokenizer.step (setD m S dt) (62 :: rest) = ((setD m .data dt).emitDoctype, rest) := by
  rcases hS with h | h | h <;> subst h
  · simp [Tokenizer.step, setD, DOCTYPENameState, isWhitespace, M.switchTo]
  · simp [Tokenizer.step, setD, afterDOCTYPEPublicIdentifierState, isWhitespace, M.switchTo]
  · simp [Tokenizer.step, setD, afterDOCTYPESystemIdentifierState, isWhitespace, M.switchTo]

theorem reach_pubchars : ∀ (p : Str), (∀ c ∈ p, c ≠ 34 ∧ c ≠ 0 ∧ c ≠ 62) → ∀ (m : M), m.done = false →
    ∀ (dt : DoctypeToken) (acc : Str), dt.publicId = some acc → ∀ (rest : Str),
    Reach p.length (setD m .DOCTYPEPublicIdentifierDoubleQuoted dt) (p ++ rest)
      (setD m .DOCTYPEPublicIdentifierDoubleQuoted { dt with publicId := some (acc ++ p) }) rest := by
  intro p
  induction p with
  | nil =>
    intro _ m _ dt acc hacc rest
    rw [List.append_nil, ← hacc]
    exact Reach.refl _ rest
  | cons c p ih =>
    intro h m hd dt acc hacc rest
    obtain ⟨h1, h2, h3⟩ := h c (by simp)
    have r1 := Reach.single (m := setD m .DOCTYPEPublicIdentifierDoubleQuoted dt) hd (stepD_pub_char m dt c (p ++ rest) h1 h2 h3)
    have r2 := ih (fun x hx => h x (List.mem_cons_of_mem _ hx)) m hd
      { dt with publicId := some (dt.publicId.getD [] ++ [c]) } (acc ++ [c]) (by simp [hacc]) rest
    have r := r1.trans r2
    simpa [List.append_assoc] using r

theorem reach_syschars (q : Nat) (hq : q = 34 ∨ q = 39) : ∀ (p : Str), (∀ c ∈ p, c ≠ q ∧ c ≠ 0 ∧ c ≠ 62) →
    ∀ (m : M), m.done = false → ∀ (dt : DoctypeToken) (acc : Str), dt.systemId = some acc → ∀ (rest : Str),
    Reach p.length (setD m (sysState q) dt) (p ++ rest) (setD m (sysState q) { dt with systemId := some (acc ++ p) }) rest := by
  intro p
  induction p with
  | nil =>
    intro _ m _ dt acc hacc rest
    rw [List.append_nil, ← hacc]
    exact Reach.refl _ rest
  | cons c p ih =>
    intro h m hd dt acc hacc rest
    obtain ⟨h1, h2, h3⟩ := h c (by simp)
    have r1 := Reach.single (m := setD m (sysState q) dt) hd (stepD_sys_char m dt q hq c (p ++ rest) h1 h2 h3)
    have r2 := ih (fun x hx => h x (List.mem_cons_of_mem _ hx)) m hd
      { dt with systemId := some (dt.systemId.getD [] ++ [c]) } (acc ++ [c]) (by simp [hacc]) rest
    have r := r1.trans r2
    simpa [List.append_assoc] using r

/-- `<!DOCTYPE name`: up to the end of the name -/
theorem reach_doctype_prefix (name : Str) (hok : doctypeNameOK name = true) (m : M) (hs : m.state = .data)
    (hd : m.done = false) (tl : Str) :
    ReachLe (name.length + 5) m ([60, 33, 68, 79, 67, 84, 89, 80, 69, 32] ++ name ++ tl)
      (setD m .DOCTYPEName { name := some name }) tl := by
  simp only [doctypeNameOK, Bool.and_eq_true, Bool.not_eq_true', List.isEmpty_eq_false_iff] at hok
  obtain ⟨hne, hall⟩ := hok
  cases name with
  | nil => exact absurd rfl hne
  | cons c n =>
    simp only [List.all_cons, Bool.and_eq_true] at hall
    have r1 := ReachLe.single hd (step_data_lt m hs (33 :: 68 :: 79 :: 67 :: 84 :: 89 :: 80 :: 69 :: 32 :: c :: (n ++ tl)))
    have r2 := ReachLe.single (m := m.switchTo .tagOpen) hd
      (step_tagOpen_bang _ rfl (68 :: 79 :: 67 :: 84 :: 89 :: 80 :: 69 :: 32 :: c :: (n ++ tl)))
    have r3 := ReachLe.single (m := (m.switchTo .tagOpen).switchTo .markupDeclarationOpen) hd
      (step_mdo_doctype _ rfl (32 :: c :: (n ++ tl)))
    have r4 := ReachLe.single (m := ((m.switchTo .tagOpen).switchTo .markupDeclarationOpen).switchTo .DOCTYPE) hd
      (step_DOCTYPE_space _ rfl (c :: (n ++ tl)))
    have r5 := ReachLe.single
      (m := (((m.switchTo .tagOpen).switchTo .markupDeclarationOpen).switchTo .DOCTYPE).switchTo .beforeDOCTYPEName) hd
      (step_beforeName _ rfl c (n ++ tl) hall.1)
    have r6 := reach_doctypeName n hall.2
      (setD ((((m.switchTo .tagOpen).switchTo .markupDeclarationOpen).switchTo .DOCTYPE).switchTo .beforeDOCTYPEName)
        .DOCTYPEName { name := some [c] }) rfl hd [c] rfl tl
    have r := ((((r1.trans r2).trans r3).trans r4).trans r5).trans (ReachLe.of_reach r6)
    simp only [List.cons_append, List.nil_append] at r ⊢
    exact r.mono (by simp; omega)

theorem sysQuote_ok (s : Str) : sysQuote s = 34 ∨ sysQuote s = 39 := by
  unfold sysQuote; split <;> simp

theorem sysIdOK_chars {s : Str} (h : sysIdOK s = true) : ∀ c ∈ s, c ≠ sysQuote s ∧ c ≠ 0 ∧ c ≠ 62 := by
  simp only [sysIdOK, Bool.and_eq_true, Bool.not_eq_true', List.all_eq_true, bne_iff_ne, ne_eq,
    Bool.and_eq_false_iff] at h
  obtain ⟨⟨_, hall⟩, hq⟩ := h
  intro c hc
  refine ⟨?_, (hall c hc).1.1, (hall c hc).2⟩
  unfold sysQuote
  split
  · rename_i h34
    rcases hq with h | h
    · rw [h34] at h; exact absurd h (by decide)
    · intro hc39; subst hc39
      have : List.elem 39 s = true := by simpa using hc
      rw [this] at h; exact absurd h (by decide)
  · rename_i h34
    intro hc34; subst hc34
    exact h34 (by simpa using hc)

/-- ` q sysId q` after the public identifier or the SYSTEM keyword -/
theorem reach_sysid (m : M) (hd : m.done = false) (dt : DoctypeToken) (S : State)
    (hS : S = .afterDOCTYPEPublicIdentifier ∨ S = .afterDOCTYPESystemKeyword) (s : Str) (hs : sysIdOK s = true) (rest : Str) :
    ReachLe (s.length + 3) (setD m S dt) ([32, sysQuote s] ++ s ++ [sysQuote s] ++ rest)
      (setD m .afterDOCTYPESystemIdentifier { dt with systemId := some s }) rest := by
  have hq := sysQuote_ok s
  have r3 := reach_syschars (sysQuote s) hq s (sysIdOK_chars hs) m hd { dt with systemId := some [] } [] rfl
    (sysQuote s :: rest)
  have r4 := ReachLe.single (m := setD m (sysState (sysQuote s)) { dt with systemId := some ([] ++ s) }) hd
    (stepD_sys_close m _ (sysQuote s) hq rest)
  rcases hS with h | h <;> subst h
  · have r1 := ReachLe.single (m := setD m .afterDOCTYPEPublicIdentifier dt) hd
      (stepD_afterPub_space m dt (sysQuote s :: (s ++ (sysQuote s :: rest))))
    have r2 := ReachLe.single (m := setD m .betweenDOCTYPEPublicAndSystemIdentifiers dt) hd
      (stepD_between_quote m dt (sysQuote s) hq (s ++ (sysQuote s :: rest)))
    have r := ((r1.trans r2).trans (ReachLe.of_reach r3)).trans r4
    simp only [List.cons_append, List.append_assoc, List.nil_append] at r ⊢
    exact r.mono (by omega)
  · have r1 := ReachLe.single (m := setD m .afterDOCTYPESystemKeyword dt) hd
      (stepD_syskw_space m dt (sysQuote s :: (s ++ (sysQuote s :: rest))))
    have r2 := ReachLe.single (m := setD m .beforeDOCTYPESystemIdentifier dt) hd
      (stepD_beforeSys_quote m dt (sysQuote s) hq (s ++ (sysQuote s :: rest)))
    have r := ((r1.trans r2).trans (ReachLe.of_reach r3)).trans r4
    simp only [List.cons_append, List.append_assoc, List.nil_append] at r ⊢
    exact r.mono (by omega)

/-- ` PUBLIC "pubId"` after the name -/
theorem reach_pubid (m : M) (hd : m.done = false) (dt : DoctypeToken) (p : Str) (hp : pubIdOK p = true) (rest : Str) :
    ReachLe (p.length + 5) (setD m .DOCTYPEName dt) ([32, 80, 85, 66, 76, 73, 67, 32, 34] ++ p ++ [34] ++ rest)
      (setD m .afterDOCTYPEPublicIdentifier { dt with publicId := some p }) rest := by
  have hch : ∀ c ∈ p, c ≠ 34 ∧ c ≠ 0 ∧ c ≠ 62 := by
    simp only [pubIdOK, Bool.and_eq_true, List.all_eq_true, bne_iff_ne, ne_eq] at hp
    intro c hc
    exact ⟨(hp.2 c hc).2, (hp.2 c hc).1.1.1, (hp.2 c hc).1.2⟩
  have r1 := ReachLe.single (m := setD m .DOCTYPEName dt) hd
    (stepD_name_space m dt (80 :: 85 :: 66 :: 76 :: 73 :: 67 :: 32 :: 34 :: (p ++ (34 :: rest))))
  have r2 := ReachLe.single (m := setD m .afterDOCTYPEName dt) hd
    (stepD_afterName_public m dt (32 :: 34 :: (p ++ (34 :: rest))))
  have r3 := ReachLe.single (m := setD m .afterDOCTYPEPublicKeyword dt) hd (stepD_pubkw_space m dt (34 :: (p ++ (34 :: rest))))
  have r4 := ReachLe.single (m := setD m .beforeDOCTYPEPublicIdentifier dt) hd (stepD_beforePub_quote m dt (p ++ (34 :: rest)))
  have r5 := reach_pubchars p hch m hd { dt with publicId := some [] } [] rfl (34 :: rest)
  have r6 := ReachLe.single (m := setD m .DOCTYPEPublicIdentifierDoubleQuoted { dt with publicId := some ([] ++ p) }) hd
    (stepD_pub_close m _ rest)
  have r := ((((r1.trans r2).trans r3).trans r4).trans (ReachLe.of_reach r5)).trans r6
  simp only [List.cons_append, List.append_assoc, List.nil_append] at r ⊢
  exact r.mono (by omega)

/-- **DOCTYPE with identifiers, spec side** -/
theorem reach_doctype_full (name : Str) (pub sys : Option Str) (hok : doctypeOK (some name) pub sys = true) (m : M)
    (hs : m.state = .data) (hd : m.done = false) (rest : Str) :
    ∃ m', ReachLe (3 * (doctypeFullText name pub sys).length) m (doctypeFullText name pub sys ++ rest) m' rest ∧
      m'.state = .data ∧ m'.done = false ∧ m'.lastStartTagName = m.lastStartTagName ∧
      m'.out = .doctype (some name) pub sys true :: m.out := by
  simp only [doctypeOK, Bool.and_eq_true] at hok
  obtain ⟨⟨hname, hpub⟩, hsys⟩ := hok
  have r0 := fun tl => reach_doctype_prefix name hname m hs hd tl
  have fin : ∀ (dt : DoctypeToken) (S : State)
      (hS : S = .DOCTYPEName ∨ S = .afterDOCTYPEPublicIdentifier ∨ S = .afterDOCTYPESystemIdentifier),
      ReachLe 1 (setD m S dt) (62 :: rest) (setD m .data dt).emitDoctype rest :=
    fun dt S hS => ReachLe.single (m := setD m S dt) hd (stepD_gt m dt S hS rest)
  cases pub with
  | none =>
    cases sys with
    | none =>
      refine ⟨(setD m .data { name := some name, publicId := none, systemId := none }).emitDoctype, ?_, rfl, hd, rfl,
        by simp [M.emitDoctype, M.emit, setD]⟩
      have r := (r0 (62 :: rest)).trans (fin _ _ (Or.inl rfl))
      simp only [doctypeFullText, doctypeTail, List.cons_append, List.append_assoc, List.nil_append] at r ⊢
      exact r.mono (by simp; omega)
    | some s =>
      have hq := sysQuote_ok s
      have r1 := ReachLe.single (m := setD m .DOCTYPEName { name := some name }) hd
        (stepD_name_space m _ (83 :: 89 :: 83 :: 84 :: 69 :: 77 :: ([32, sysQuote s] ++ s ++ [sysQuote s] ++ (62 :: rest))))
      have r2 := ReachLe.single (m := setD m .afterDOCTYPEName { name := some name }) hd
        (stepD_afterName_system m _ ([32, sysQuote s] ++ s ++ [sysQuote s] ++ (62 :: rest)))
      have r3 := reach_sysid m hd { name := some name } _ (Or.inr rfl) s hsys (62 :: rest)
      refine ⟨(setD m .data { name := some name, publicId := none, systemId := some s }).emitDoctype, ?_, rfl, hd, rfl,
        by simp [M.emitDoctype, M.emit, setD]⟩
      have r := ((((r0 _).trans r1).trans r2).trans r3).trans (fin _ _ (Or.inr (Or.inr rfl)))
      simp only [doctypeFullText, doctypeTail, List.cons_append, List.append_assoc, List.nil_append] at r ⊢
      exact r.mono (by simp; omega)
  | some p =>
    have r1 := reach_pubid m hd { name := some name } p hpub
    cases sys with
    | none =>
      refine ⟨(setD m .data { name := some name, publicId := some p, systemId := none }).emitDoctype, ?_, rfl, hd, rfl,
        by simp [M.emitDoctype, M.emit, setD]⟩
      have r := ((r0 _).trans (r1 (62 :: rest))).trans (fin _ _ (Or.inr (Or.inl rfl)))
      simp only [doctypeFullText, doctypeTail, List.cons_append, List.append_assoc, List.nil_append] at r ⊢
      exact r.mono (by simp; omega)
    | some s =>
      have r3 := reach_sysid m hd { name := some name, publicId := some p } _ (Or.inl rfl) s hsys (62 :: rest)
      refine ⟨(setD m .data { name := some name, publicId := some p, systemId := some s }).emitDoctype, ?_, rfl, hd, rfl,
        by simp [M.emitDoctype, M.emit, setD]⟩
      have r := (((r0 _).trans (r1 ([32, sysQuote s] ++ s ++ [sysQuote s] ++ (62 :: rest)))).trans r3).trans
        (fin _ _ (Or.inr (Or.inr rfl)))
      simp only [doctypeFullText, doctypeTail, List.cons_append, List.append_assoc, List.nil_append] at r ⊢
      exact r.mono (by simp; omega)

/-- **Model.** what `step` does on a `doctypeOK` DOCTYPE token: the text, and no error -/
theorem step_doctype_full (o : Opts) (s : St) (name : Str) (pub sys : Option Str)
    (hok : doctypeOK (some name) pub sys = true) :
    H5.Model.Serializer.step o s (.doctype (some name) pub sys) = .ok (s.emit (doctypeFullText name pub sys)) := by
  simp only [doctypeOK, Bool.and_eq_true] at hok
  obtain ⟨⟨_, hpub⟩, hsys⟩ := hok
  have e : lit "<!DOCTYPE " = [60, 33, 68, 79, 67, 84, 89, 80, 69, 32] := by decide
  have e2 : lit " PUBLIC \"" = [32, 80, 85, 66, 76, 73, 67, 32, 34] := by decide
  have e3 : lit " SYSTEM" = [32, 83, 89, 83, 84, 69, 77] := by decide
  cases pub with
  | none =>
    cases sys with
    | none => simp [H5.Model.Serializer.step, truthyO, fmtO, e, doctypeFullText, doctypeTail]
    | some sy =>
      have hne : sy.isEmpty = false := by
        simp only [sysIdOK, Bool.and_eq_true, Bool.not_eq_true'] at hsys; exact hsys.1.1
      have hboth : (sy.elem 34 && sy.elem 39) = false := by
        simp only [sysIdOK, Bool.and_eq_true, Bool.not_eq_true'] at hsys; exact hsys.2
      cases h34 : sy.elem 34 with
      | false =>
        have h34' : (34 ∈ sy) = False := by simpa using h34
        simp [H5.Model.Serializer.step, truthyO, fmtO, e, e3, doctypeFullText, doctypeTail, hne, h34', sysQuote, St.emit]
      | true =>
        have h39 : sy.elem 39 = false := by rw [h34] at hboth; simpa using hboth
        have h34' : (34 ∈ sy) = True := by simpa using h34
        have h39' : (39 ∈ sy) = False := by simpa using h39
        simp [H5.Model.Serializer.step, truthyO, fmtO, e, e3, doctypeFullText, doctypeTail, hne, h34', h39', sysQuote, St.emit]
  | some p =>
    have hpne : p.isEmpty = false := by
      simp only [pubIdOK, Bool.and_eq_true, Bool.not_eq_true'] at hpub; exact hpub.1
    cases sys with
    | none => simp [H5.Model.Serializer.step, truthyO, fmtO, e, e2, doctypeFullText, doctypeTail, hpne, St.emit]
    | some sy =>
      have hne : sy.isEmpty = false := by
        simp only [sysIdOK, Bool.and_eq_true, Bool.not_eq_true'] at hsys; exact hsys.1.1
      have hboth : (sy.elem 34 && sy.elem 39) = false := by
        simp only [sysIdOK, Bool.and_eq_true, Bool.not_eq_true'] at hsys; exact hsys.2
      cases h34 : sy.elem 34 with
      | false =>
        have h34' : (34 ∈ sy) = False := by simpa using h34
        simp [H5.Model.Serializer.step, truthyO, fmtO, e, e2, doctypeFullText, doctypeTail, hne, hpne, h34', sysQuote, St.emit]
      | true =>
        have h39 : sy.elem 39 = false := by rw [h34] at hboth; simpa using hboth
        have h34' : (34 ∈ sy) = True := by simpa using h34
        have h39' : (39 ∈ sy) = False := by simpa using h39
        simp [H5.Model.Serializer.step, truthyO, fmtO, e, e2, doctypeFullText, doctypeTail, hne, hpne, h34', h39', sysQuote, St.emit]

/-- **C08c (4d) — DOCTYPE round trip with public / system identifiers.** -/
theorem C08_doctype_ids_roundtrip (o : Opts) (name : Str) (pub sys : Option Str)
    (hok : doctypeOK (some name) pub sys = true) :
    ∃ out, serialize o [.doctype (some name) pub sys] = .ok (out, []) ∧
      Spec.tokenize .data none false out = .ok [.doctype (some name) pub sys true] := by
  refine ⟨doctypeFullText name pub sys, ?_, ?_⟩
  · rw [serialize_single o _ _ (step_doctype_full o {} name pub sys hok)]
    simp [St.emit]
  · obtain ⟨m', r, hs, hd, _, hout'⟩ := reach_doctype_full name pub sys hok (initial .data none false) rfl rfl []
    rw [List.append_nil] at r
    rw [tokenize_of_reach r (Nat.le_refl _) hs hd, hout']
    rfl

/-! ### Non-vacuity, and necessity of the hypotheses -/

-- `a-b<!x-` (single dashes, `<!`, trailing dash): round trip, no parse error
example : commentOK [97, 45, 98, 60, 33, 120, 45] = true ∧
    (serialize {} [.comment [97, 45, 98, 60, 33, 120, 45]]).bind (fun r => Spec.tokenize .data none false r.1)
      = .ok [.comment [97, 45, 98, 60, 33, 120, 45]] := by decide +kernel
-- data ending in `<!-`: read back correctly, with the `nested-comment` parse error
example : commentOK [120, 60, 33, 45] = true ∧
    (serialize {} [.comment [120, 60, 33, 45]]).bind (fun r => Spec.tokenize .data none false r.1)
      = .ok [.parseError (lit "nested-comment") [], .comment [120, 60, 33, 45]] := by decide +kernel
-- "does not start with `>`" is needed, and the serializer does NOT report it: `<!-->x-->` is an empty comment and text
example : serialize {} [.comment [62, 120]] = .ok ([60, 33, 45, 45, 62, 120, 45, 45, 62], []) ∧
    Spec.tokenize .data none false [60, 33, 45, 45, 62, 120, 45, 45, 62]
      = .ok [.parseError (lit "abrupt-closing-of-empty-comment") [], .comment [], .chars [120], .chars [45], .chars [45],
          .chars [62]] := by decide +kernel
-- "does not start with `->`" is needed, and the serializer does NOT report it
example : serialize {} [.comment [45, 62, 120]] = .ok ([60, 33, 45, 45, 45, 62, 120, 45, 45, 62], []) ∧
    Spec.tokenize .data none false [60, 33, 45, 45, 45, 62, 120, 45, 45, 62]
      = .ok [.parseError (lit "abrupt-closing-of-empty-comment") [], .comment [], .chars [120], .chars [45], .chars [45],
          .chars [62]] := by decide +kernel
-- "no `--`" is needed (`a-->b`), and this one IS reported by the serializer (`C08_comment_reported`);
-- the report is conservative: `a--b` is reported although the standard's tokenizer reads it back
example : (serialize {} [.comment [97, 45, 45, 62, 98]]).map (·.2) = .ok [lit "Comment contains --"] ∧
    (serialize {} [.comment [97, 45, 45, 62, 98]]).bind (fun r => Spec.tokenize .data none false r.1)
      = .ok [.comment [97], .chars [98], .chars [45], .chars [45], .chars [62]] := by decide +kernel
example : (serialize {} [.comment [97, 45, 45, 98]]).map (·.2) = .ok [lit "Comment contains --"] ∧
    (serialize {} [.comment [97, 45, 45, 98]]).bind (fun r => Spec.tokenize .data none false r.1)
      = .ok [.comment [97, 45, 45, 98]] := by decide +kernel
-- DOCTYPE
example : doctypeNameOK [104, 116, 109, 108] = true ∧
    (serialize {} [.doctype (some [104, 116, 109, 108]) none none]).bind (fun r => Spec.tokenize .data none false r.1)
      = .ok [.doctype (some [104, 116, 109, 108]) none none true] := by decide +kernel
-- `doctypeNameChar` is needed: `<!DOCTYPE H>` is read back as `h`
example : (serialize {} [.doctype (some [72]) none none]).bind (fun r => Spec.tokenize .data none false r.1)
    = .ok [.doctype (some [104]) none none true] := by decide +kernel
-- a missing name is written as the text `None` (Python `"%s" % None`) and read back as the name `none`
example : (serialize {} [.doctype none none none]).bind (fun r => Spec.tokenize .data none false r.1)
    = .ok [.doctype (some [110, 111, 110, 101]) none none true] := by decide +kernel

-- DOCTYPE with identifiers: `<!DOCTYPE h PUBLIC "a'b" 'c"d'>` (the system identifier contains `"`: single quotes)
example : doctypeOK (some [104]) (some [97, 39, 98]) (some [99, 34, 100]) = true ∧
    (serialize {} [.doctype (some [104]) (some [97, 39, 98]) (some [99, 34, 100])]).bind
      (fun r => Spec.tokenize .data none false r.1)
      = .ok [.doctype (some [104]) (some [97, 39, 98]) (some [99, 34, 100]) true] := by decide +kernel
-- "no `\"` in the public identifier" is needed, and NOT reported (recorded finding C08-doctype)
example : serialize {} [.doctype (some [104]) (some [97, 34, 98]) none]
      = .ok ([60, 33, 68, 79, 67, 84, 89, 80, 69, 32, 104, 32, 80, 85, 66, 76, 73, 67, 32, 34, 97, 34, 98, 34, 62], []) ∧
    Spec.tokenize .data none false [60, 33, 68, 79, 67, 84, 89, 80, 69, 32, 104, 32, 80, 85, 66, 76, 73, 67, 32, 34, 97, 34, 98, 34, 62]
      = .ok [.parseError (lit "missing-quote-before-doctype-system-identifier") [],
             .doctype (some [104]) (some [97]) none false] := by decide +kernel
-- "non-empty identifier" is needed: an empty (not missing) public identifier is not written at all
example : (serialize {} [.doctype (some [104]) (some []) none]).bind (fun r => Spec.tokenize .data none false r.1)
    = .ok [.doctype (some [104]) none none true] := by decide +kernel
-- "not both quotes in the system identifier" is needed; this one IS reported by the serializer
example : (serialize {} [.doctype (some [104]) none (some [34, 39])]).map (·.2)
    = .ok [lit "System identifier contains both single and double quote characters"] := by decide

end H5.Props.C08c
