/-
  C07 identity — the serializer side: on a covered document the walker + serializer (no filter) write exactly
  `serDoc cs`, report nothing, and the text contains no CR (so the parser's newline normalisation keeps it).
-/
import H5.Props.C07bDoc
import H5.Props.C11
import H5.Model.Pipeline
set_option linter.unusedSimpArgs false
set_option linter.unusedVariables false
namespace H5.Props.C07b
open H5 H5.Model H5.Model.Dom H5.Spec
open H5.Props.C08c (tagNameOK startTagOK valueOK startTagText endTagText commentText tokOK tokText commentOK)
open H5.Model.Serializer (escape)
open H5.Model.Walker (textToks isSpaceCh isVoid)

/-! ### text nodes -/

theorem escape_append (a b : Str) : escape (a ++ b) = escape a ++ escape b := by
  simp [C08.C08_escape_flatMap]

theorem escape_spaces (s : Str) (h : s.all isSpaceCh = true) : escape s = s := by
  induction s with
  | nil => rfl
  | cons c s ih =>
    simp only [List.all_cons, Bool.and_eq_true] at h
    rw [C08.escape_cons, ih h.2]
    have : c = 9 ∨ c = 10 ∨ c = 12 ∨ c = 13 ∨ c = 32 := by
      have := h.1; simp [isSpaceCh, Gen.spaceCharacters] at this; omega
    rcases this with rfl | rfl | rfl | rfl | rfl <;> rfl

theorem take_sub_dropWhile (p : Nat → Bool) (d : Str) :
    d.take (d.length - (d.dropWhile p).length) = d.takeWhile p := by
  have h := List.takeWhile_append_dropWhile (p := p) (l := d)
  have hl : d.length - (d.dropWhile p).length = (d.takeWhile p).length := by
    have := congrArg List.length h
    simp only [List.length_append] at this
    omega
  rw [hl]
  have key : ∀ (a b : Str), List.take a.length (a ++ b) = a := by intro a b; simp
  have := key (d.takeWhile p) (d.dropWhile p)
  rw [h] at this
  exact this

theorem all_takeWhile (p : Nat → Bool) (d : Str) : (d.takeWhile p).all p = true := by
  induction d with
  | nil => rfl
  | cons c d ih =>
    by_cases hc : p c = true
    · simp [List.takeWhile_cons, hc, ih]
    · simp [List.takeWhile_cons, hc]

/-- `TreeWalker.text`: the space / characters / space tokens of a text node are serialized as `escape d` -/
theorem textToks_ok (o : Serializer.Opts) (d : Str) (hok : valueOK d = true) :
    (textToks d).flatMap (tokText o) = escape d ∧ ∀ t ∈ textToks d, tokOK o t = true := by
  -- the three pieces
  let m := d.dropWhile isSpaceCh
  let l := d.takeWhile isSpaceCh
  let tw := m.reverse.takeWhile isSpaceCh
  let dw := m.reverse.dropWhile isSpaceCh
  have hd : d = l ++ m := (List.takeWhile_append_dropWhile).symm
  have hm : m = dw.reverse ++ tw.reverse := by
    have : m.reverse = tw ++ dw := (List.takeWhile_append_dropWhile).symm
    have := congrArg List.reverse this
    simpa using this
  have hr : m.drop dw.reverse.length = tw.reverse := by
    conv => lhs; rw [hm]
    simp
  have hl : l.all isSpaceCh = true := all_takeWhile _ _
  have htw : tw.reverse.all isSpaceCh = true := by
    rw [List.all_reverse]; exact all_takeWhile isSpaceCh m.reverse
  have hokl : valueOK l = true ∧ valueOK m = true := by rw [hd] at hok; exact valueOK_append hok
  have hokm : valueOK dw.reverse = true ∧ valueOK tw.reverse = true := by
    have := hokl.2; rw [hm] at this; exact valueOK_append this
  have hws : ∀ s : Str, s.all isSpaceCh = true → valueOK s = true → s.all Spec.Tokenizer.isWhitespace = true := by
    intro s h1 h2
    simp only [List.all_eq_true] at h1 h2 ⊢
    simp only [valueOK, List.all_eq_true] at h2
    intro x hx
    have a := h1 x hx
    have b := h2 x hx
    simp [isSpaceCh, Gen.spaceCharacters] at a
    simp at b
    simp [Spec.Tokenizer.isWhitespace]
    omega
  have hT : textToks d = (if l.isEmpty then [] else [Tok.space l]) ++
      (if dw.reverse.isEmpty then [] else [Tok.chars dw.reverse]) ++
      (if tw.reverse.isEmpty then [] else [Tok.space tw.reverse]) := by
    unfold textToks
    simp only [take_sub_dropWhile]
    rw [show (List.drop (List.dropWhile isSpaceCh (List.dropWhile isSpaceCh d).reverse).reverse.length
      (List.dropWhile isSpaceCh d)) = tw.reverse from hr]
  rw [hT]
  constructor
  · have e : escape d = l ++ escape dw.reverse ++ tw.reverse := by
      conv => lhs; rw [hd, hm]
      rw [escape_append, escape_append, escape_spaces l hl, escape_spaces _ htw, List.append_assoc]
    rw [e]
    simp only [List.flatMap_append]
    congr 1
    congr 1
    · by_cases h : l.isEmpty = true
      · simp only [h, if_true]; simp at h; simp [h]
      · simp [h, tokText]
    · by_cases h : dw.reverse.isEmpty = true
      · simp only [h, if_true]
        have : dw.reverse = [] := by simpa using h
        rw [this]; rfl
      · simp [h, tokText]
    · by_cases h : tw.reverse.isEmpty = true
      · simp only [h, if_true]
        have : tw.reverse = [] := by simpa using h
        rw [this]; rfl
      · simp [h, tokText]
  · intro t ht
    simp only [List.mem_append] at ht
    rcases ht with (ht | ht) | ht
    · by_cases h : l.isEmpty = true
      · simp [h] at ht
      · simp [h] at ht; subst ht; exact hws l hl hokl.1
    · by_cases h : dw.reverse.isEmpty = true
      · simp only [h, if_true] at ht; simp at ht
      · simp only [h] at ht; simp at ht; subst ht; exact hokm.1
    · by_cases h : tw.reverse.isEmpty = true
      · simp only [h, if_true] at ht; simp at ht
      · simp only [h] at ht; simp at ht; subst ht; exact hws _ htw hokm.2

/-! ### the walker's token stream of covered content -/

theorem htmlNs_eq : Walker.htmlNs = htmlNs := by decide

theorem isVoid_html (nm : Str) : isVoid (some htmlNs) nm = Gen.voidElements.elem nm := by
  simp [isVoid, htmlNs_eq]

theorem commentOK_of_m {d : Str} (h : commentOKm d = true) : commentOK d = true := by
  simp only [commentOKm, Bool.and_eq_true] at h
  exact h.1

mutual
theorem walk_node (x : Ctx) : ∀ (u : Tree), okNode commentOKm x u = true →
    (walkRec u).flatMap (tokText {}) = serNode u ∧ ∀ t ∈ walkRec u, tokOK {} t = true
  | .text d, hu => by
    simp only [okNode, Bool.and_eq_true] at hu
    simp only [walkRec, serNode]
    exact textToks_ok {} d hu.2
  | .comment d, hu => by
    simp only [walkRec, serNode, List.flatMap_cons, List.flatMap_nil, List.append_nil, tokText]
    refine ⟨by first | rfl | trivial, ?_⟩
    intro t ht
    simp only [List.mem_singleton] at ht
    subst ht
    exact commentOK_of_m hu
  | .elem ns nm attrs cs, hu => by
    simp only [okNode, Bool.and_eq_true, beq_iff_eq] at hu
    obtain ⟨⟨⟨hns, hplain⟩, hst⟩, hbody⟩ := hu
    have hnameOK : tagNameOK nm = true := by
      simp only [startTagOK, Bool.and_eq_true] at hst
      exact hst.1.1
    subst hns
    by_cases hv : voidName nm = true
    · simp only [hv, if_true, List.isEmpty_iff, Bool.and_eq_true] at hbody
      obtain ⟨hbody, _⟩ := hbody
      subst hbody
      have hsp : C08c.specialElements.elem nm = false := by
        simp only [voidName, Bool.and_eq_true, Bool.not_eq_true'] at hv; exact hv.2
      simp only [walkRec, isVoid_html, voidName_void hv, if_true, serNode, List.isEmpty_nil, List.flatMap_cons,
        List.flatMap_nil, List.append_nil, tokText]
      refine ⟨by first | rfl | trivial, ?_⟩
      intro t ht
      simp only [List.mem_cons, List.not_mem_nil, or_false] at ht
      subst ht
      simp only [tokOK, hst, hsp, Bool.not_false, Bool.true_or, Bool.and_self]
    · have hv' : voidName nm = false := by simpa using hv
      simp only [hv', Bool.false_eq_true, if_false] at hbody
      cases hc : catOf nm with
      | none => simp [hc] at hbody
      | some c =>
        simp only [hc, Bool.and_eq_true] at hbody
        obtain ⟨hal, hcs⟩ := hbody
        obtain ⟨hvoid, hsp⟩ := catOf_facts hc
        obtain ⟨ih1, ih2⟩ := walk_forest (x.inner c nm) cs hcs
        simp only [walkRec, isVoid_html, hvoid, Bool.false_eq_true, if_false, serNode, List.flatMap_cons,
          List.flatMap_append, List.flatMap_nil, List.append_nil, tokText, ih1, List.append_assoc]
        refine ⟨by first | rfl | trivial, ?_⟩
        intro t ht
        simp only [List.mem_cons, List.mem_append, List.mem_singleton, List.not_mem_nil, or_false] at ht
        rcases ht with rfl | ht | rfl
        · simp only [tokOK, hst, hsp, Bool.not_false, Bool.true_or, Bool.and_self]
        · exact ih2 t ht
        · simp [tokOK, hnameOK]
  | .doc _, hu => by simp [okNode] at hu
  | .frag _, hu => by simp [okNode] at hu
  | .doctype _ _ _, hu => by simp [okNode] at hu
theorem walk_forest (x : Ctx) : ∀ (cs : List Tree), okForest commentOKm x cs = true →
    (walkList cs).flatMap (tokText {}) = serForest cs ∧ ∀ t ∈ walkList cs, tokOK {} t = true
  | [], _ => by simp [walkList, serForest]
  | u :: rest, h => by
    simp only [okForest, Bool.and_eq_true] at h
    obtain ⟨a1, a2⟩ := walk_node x u h.1.1
    obtain ⟨b1, b2⟩ := walk_forest x rest h.2
    simp only [walkList, serForest, List.flatMap_append, a1, b1]
    refine ⟨by first | rfl | trivial, ?_⟩
    intro t ht
    rcases List.mem_append.1 ht with ht | ht
    · exact a2 t ht
    · exact b2 t ht
end

/-! ### the `title` start tag: outside C08c's token class (the tokenizer leaves the data state after it), but the
serializer treats it like any other start tag -/

/-- a token of the stream of a covered document -/
def TokOKT (t : Tok) : Prop := tokOK {} t = true ∨ t = .startTag (some htmlNs) sTitle []

theorem step_okT (t : Tok) (ht : TokOKT t) (s : Serializer.St) (hc : s.inCdata = false) :
    ∃ s', Serializer.step {} s t = .ok s' ∧ s'.out = s.out ++ tokText {} t ∧ s'.errors = s.errors ∧ s'.inCdata = false := by
  rcases ht with ht | rfl
  · exact C08c.step_ok {} t ht s hc
  · obtain ⟨s', h1, h2, h3, h4⟩ := C08c.step_startTag {} s (some htmlNs) sTitle []
    refine ⟨s', h1, h2, h3 hc, ?_⟩
    rw [h4, hc]
    decide

theorem foldlM_okT : ∀ (ts : List Tok) (s : Serializer.St), s.inCdata = false → (∀ t ∈ ts, TokOKT t) →
    ∃ s', ts.foldlM (Serializer.step {}) s = .ok s' ∧ s'.out = s.out ++ ts.flatMap (tokText {}) ∧
      s'.errors = s.errors ∧ s'.inCdata = false := by
  intro ts
  induction ts with
  | nil => intro s hc _; exact ⟨s, rfl, by simp, rfl, hc⟩
  | cons t ts ih =>
    intro s hc hall
    obtain ⟨s1, h1, h2, h3, h4⟩ := step_okT t (hall t (by simp)) s hc
    obtain ⟨s2, g1, g2, g3, g4⟩ := ih s1 h4 (fun x hx => hall x (List.mem_cons_of_mem _ hx))
    refine ⟨s2, ?_, ?_, g3.trans h3, g4⟩
    · simp [List.foldlM, h1, g1, bind, Except.bind]
    · rw [g2, h2]; simp

/-- the walker's stream of the covered head content -/
theorem walk_head : ∀ (hd : List Tree), headOK hd = true →
    (walkList hd).flatMap (tokText {}) = serForest hd ∧ ∀ t ∈ walkList hd, TokOKT t
  | [], _ => by simp [walkList, serForest]
  | [.elem ns nm attrs cs], hok => by
    simp only [headOK, Bool.and_eq_true, beq_iff_eq, List.isEmpty_iff] at hok
    obtain ⟨⟨⟨hns, hnm⟩, hattrs⟩, hcs⟩ := hok
    subst hns hnm hattrs
    have hv : isVoid (some htmlNs) sTitle = false := by decide
    have hnv : Gen.voidElements.elem sTitle = false := by decide
    cases cs with
    | nil =>
      simp only [walkList, walkRec, hv, Bool.false_eq_true, if_false, serForest, serNode, hnv, List.append_nil,
        List.nil_append, List.flatMap_cons, List.flatMap_nil, tokText]
      refine ⟨by first | rfl | trivial, ?_⟩
      intro t ht
      simp only [List.mem_cons, List.not_mem_nil, or_false] at ht
      rcases ht with rfl | rfl
      · exact Or.inr rfl
      · exact Or.inl (by decide)
    | cons c crest =>
      cases c with
      | text d =>
        cases crest with
        | cons _ _ => simp at hcs
        | nil =>
          simp only [Bool.and_eq_true] at hcs
          obtain ⟨e1, e2⟩ := textToks_ok {} d hcs.2
          simp only [walkList, walkRec, hv, Bool.false_eq_true, if_false, serForest, serNode, hnv, List.append_nil,
            List.flatMap_cons, List.flatMap_append, List.flatMap_nil, tokText, e1, List.append_assoc]
          refine ⟨by first | rfl | trivial, ?_⟩
          intro t ht
          simp only [List.mem_cons, List.mem_append, List.not_mem_nil, or_false] at ht
          rcases ht with rfl | ht | rfl
          · exact Or.inr rfl
          · exact Or.inl (e2 t ht)
          · exact Or.inl (by decide)
      | _ => simp at hcs
  | _ :: _ :: _, hok => by simp [headOK] at hok
  | [.doc _], hok => by simp [headOK] at hok
  | [.frag _], hok => by simp [headOK] at hok
  | [.doctype _ _ _], hok => by simp [headOK] at hok
  | [.text _], hok => by simp [headOK] at hok
  | [.comment _], hok => by simp [headOK] at hok

/-- the walker's stream of a covered document is serialized as `serDoc hd cs` -/
theorem walk_doc (hd cs : List Tree) (hhd : headOK hd = true) (hcs : okForest commentOKm {} cs = true) :
    (walkRec (docTree hd cs)).flatMap (tokText {}) = serDoc hd cs ∧ ∀ t ∈ walkRec (docTree hd cs), TokOKT t := by
  obtain ⟨a1, a2⟩ := walk_forest {} cs hcs
  obtain ⟨b1, b2⟩ := walk_head hd hhd
  have v1 : isVoid (some htmlNs) sHtml = false := by decide
  have v2 : isVoid (some htmlNs) sHead = false := by decide
  have v3 : isVoid (some htmlNs) sBody = false := by decide
  have hw : walkRec (docTree hd cs) = [Tok.doctype (some sHtml) none none, .startTag (some htmlNs) sHtml [],
      .startTag (some htmlNs) sHead []] ++ walkList hd ++ [.endTag (some htmlNs) sHead, .startTag (some htmlNs) sBody []] ++
      walkList cs ++ [.endTag (some htmlNs) sBody, .endTag (some htmlNs) sHtml] := by
    simp [docTree, walkRec, walkList, v1, v2, v3]
  rw [hw]
  constructor
  · simp only [List.flatMap_append, a1, b1]
    simp only [List.flatMap_cons, List.flatMap_nil, tokText, serDoc, List.append_assoc, List.append_nil]
    rfl
  · intro t ht
    simp only [List.mem_append, List.mem_cons, List.mem_singleton, List.not_mem_nil, or_false] at ht
    rcases ht with (((h | h) | h) | h) | h
    · rcases h with rfl | rfl | rfl <;> exact Or.inl (by decide)
    · exact b2 t h
    · rcases h with rfl | rfl <;> exact Or.inl (by decide)
    · exact Or.inl (a2 t h)
    · rcases h with rfl | rfl <;> exact Or.inl (by decide)

/-- **render.** walker, no filter, serializer: exactly `serDoc hd cs`, nothing reported -/
theorem render_doc (hd cs : List Tree) (hhd : headOK hd = true) (hcs : okForest commentOKm {} cs = true) :
    Pipeline.render {} { omitOptionalTags := false } (docTree hd cs) = .ok (serDoc hd cs, []) := by
  obtain ⟨a1, a2⟩ := walk_doc hd cs hhd hcs
  obtain ⟨s', h1, h2, h3, _⟩ := foldlM_okT (walkRec (docTree hd cs)) {} rfl a2
  unfold Pipeline.render
  rw [C11.C11_walk]
  simp only [ok_bind, Bool.false_eq_true, if_false]
  show (pure (walkRec (docTree hd cs)) >>= fun toks => Serializer.serialize {} toks) = _
  show Serializer.serialize {} (walkRec (docTree hd cs)) = _
  unfold Serializer.serialize
  rw [h1]
  simp only [ok_bind]
  show Except.ok (s'.out, s'.errors) = _
  rw [h2, h3, a1]
  rfl

end H5.Props.C07b
