/-
  Property C03b (parser fuel), tokenizer part — per-state lemmas (script-data escaped states and attribute states).
  Each lemma: a call of the state method from a state of weight `w` with `n` characters left and `q` queued tokens
  either stops, fails with an error that is not `outOfFuel`, or leaves
  `8·|input'| + 3·w state' + |queue'| ≤ 8·n + 3·w + q`: the call pays for the tokens it queues.
-/
import H5.Props.C03bTokHelpers
set_option linter.unusedSimpArgs false
namespace H5.Props.C03b
open H5 H5.Gen H5.Model H5.Model.Tokenizer
open H5.Props.C02c

theorem scriptDataEscapedDashState_pay (s : St) (hs : s.state = .scriptDataEscapedDashState) :
    Post (scriptDataEscapedDashState s) (Pay s.input.length (w s.state) s.tokenQueue.length) := by
  state_pay scriptDataEscapedDashState

theorem scriptDataEscapedDashDashState_pay (s : St) (hs : s.state = .scriptDataEscapedDashDashState) :
    Post (scriptDataEscapedDashDashState s) (Pay s.input.length (w s.state) s.tokenQueue.length) := by
  state_pay scriptDataEscapedDashDashState

theorem scriptDataEscapedLessThanSignState_pay (s : St) (hs : s.state = .scriptDataEscapedLessThanSignState) :
    Post (scriptDataEscapedLessThanSignState s) (Pay s.input.length (w s.state) s.tokenQueue.length) := by
  state_pay scriptDataEscapedLessThanSignState

theorem scriptDataEscapedEndTagOpenState_pay (s : St) (hs : s.state = .scriptDataEscapedEndTagOpenState) :
    Post (scriptDataEscapedEndTagOpenState s) (Pay s.input.length (w s.state) s.tokenQueue.length) := by
  state_pay scriptDataEscapedEndTagOpenState

theorem scriptDataEscapedEndTagNameState_pay (s : St) (hs : s.state = .scriptDataEscapedEndTagNameState) :
    Post (scriptDataEscapedEndTagNameState s) (Pay s.input.length (w s.state) s.tokenQueue.length) := by
  state_pay scriptDataEscapedEndTagNameState

theorem scriptDataDoubleEscapeStartState_pay (s : St) (hs : s.state = .scriptDataDoubleEscapeStartState) :
    Post (scriptDataDoubleEscapeStartState s) (Pay s.input.length (w s.state) s.tokenQueue.length) := by
  state_pay scriptDataDoubleEscapeStartState

theorem scriptDataDoubleEscapedState_pay (s : St) (hs : s.state = .scriptDataDoubleEscapedState) :
    Post (scriptDataDoubleEscapedState s) (Pay s.input.length (w s.state) s.tokenQueue.length) := by
  state_pay scriptDataDoubleEscapedState

theorem scriptDataDoubleEscapedDashState_pay (s : St) (hs : s.state = .scriptDataDoubleEscapedDashState) :
    Post (scriptDataDoubleEscapedDashState s) (Pay s.input.length (w s.state) s.tokenQueue.length) := by
  state_pay scriptDataDoubleEscapedDashState

theorem scriptDataDoubleEscapedDashDashState_pay (s : St) (hs : s.state = .scriptDataDoubleEscapedDashDashState) :
    Post (scriptDataDoubleEscapedDashDashState s) (Pay s.input.length (w s.state) s.tokenQueue.length) := by
  state_pay scriptDataDoubleEscapedDashDashState

theorem scriptDataDoubleEscapedLessThanSignState_pay (s : St) (hs : s.state = .scriptDataDoubleEscapedLessThanSignState) :
    Post (scriptDataDoubleEscapedLessThanSignState s) (Pay s.input.length (w s.state) s.tokenQueue.length) := by
  state_pay scriptDataDoubleEscapedLessThanSignState

theorem scriptDataDoubleEscapeEndState_pay (s : St) (hs : s.state = .scriptDataDoubleEscapeEndState) :
    Post (scriptDataDoubleEscapeEndState s) (Pay s.input.length (w s.state) s.tokenQueue.length) := by
  state_pay scriptDataDoubleEscapeEndState

theorem beforeAttributeNameState_pay (s : St) (hs : s.state = .beforeAttributeNameState) :
    Post (beforeAttributeNameState s) (Pay s.input.length (w s.state) s.tokenQueue.length) := by
  state_pay beforeAttributeNameState

theorem attributeNameState_pay (s : St) (hs : s.state = .attributeNameState) :
    Post (attributeNameState s) (Pay s.input.length (w s.state) s.tokenQueue.length) := by
  state_pay attributeNameState

theorem afterAttributeNameState_pay (s : St) (hs : s.state = .afterAttributeNameState) :
    Post (afterAttributeNameState s) (Pay s.input.length (w s.state) s.tokenQueue.length) := by
  state_pay afterAttributeNameState

theorem beforeAttributeValueState_pay (s : St) (hs : s.state = .beforeAttributeValueState) :
    Post (beforeAttributeValueState s) (Pay s.input.length (w s.state) s.tokenQueue.length) := by
  state_pay beforeAttributeValueState

theorem attributeValueDoubleQuotedState_pay (s : St) (hs : s.state = .attributeValueDoubleQuotedState) :
    Post (attributeValueDoubleQuotedState s) (Pay s.input.length (w s.state) s.tokenQueue.length) := by
  state_pay attributeValueDoubleQuotedState

theorem attributeValueSingleQuotedState_pay (s : St) (hs : s.state = .attributeValueSingleQuotedState) :
    Post (attributeValueSingleQuotedState s) (Pay s.input.length (w s.state) s.tokenQueue.length) := by
  state_pay attributeValueSingleQuotedState

theorem attributeValueUnQuotedState_pay (s : St) (hs : s.state = .attributeValueUnQuotedState) :
    Post (attributeValueUnQuotedState s) (Pay s.input.length (w s.state) s.tokenQueue.length) := by
  state_pay attributeValueUnQuotedState

theorem afterAttributeValueState_pay (s : St) (hs : s.state = .afterAttributeValueState) :
    Post (afterAttributeValueState s) (Pay s.input.length (w s.state) s.tokenQueue.length) := by
  state_pay afterAttributeValueState

theorem selfClosingStartTagState_pay (s : St) (hs : s.state = .selfClosingStartTagState) :
    Post (selfClosingStartTagState s) (Pay s.input.length (w s.state) s.tokenQueue.length) := by
  state_pay selfClosingStartTagState

theorem commentStartState_pay (s : St) (hs : s.state = .commentStartState) :
    Post (commentStartState s) (Pay s.input.length (w s.state) s.tokenQueue.length) := by
  state_pay commentStartState

end H5.Props.C03b
