/-
  Property C02 "total" — specifications (in `Post` form) of the helpers the state methods are built from,
  and the tactic `state_dec` that proves the per-state decrease lemmas.

  Every helper specification says: the result keeps (or bounds) `input` and says what `state` is; an error is
  never `outOfFuel`.
-/
import H5.Props.C02cCore
set_option linter.unusedSimpArgs false
namespace H5.Props.C02c
open H5 H5.Gen H5.Model H5.Model.Tokenizer

/-! ### non-definitional rewriting lemmas (so that `simp` rebuilds `Decidable` instances of `if`s) -/

theorem St_char_nil (st : State) (cur : Option CurTok) (tb : Option Str) (q : List TTok) (cd : Bool) :
    St.char ⟨st, [], cur, tb, q, cd⟩ = (none, ⟨st, [], cur, tb, q, cd⟩) := by
  simp [St.char, Stream.char]

theorem St_char_cons (st : State) (c : Nat) (r : List Nat) (cur : Option CurTok) (tb : Option Str)
    (q : List TTok) (cd : Bool) :
    St.char ⟨st, c :: r, cur, tb, q, cd⟩ = (some c, ⟨st, r, cur, tb, q, cd⟩) := by
  simp [St.char, Stream.char]

/-- number of characters `charsUntil` consumes -/
def cuN (i cs : List Nat) (o : Bool) : Nat :=
  (i.takeWhile fun c => if o then cs.contains c else !cs.contains c).length

theorem span_loop_snd {α : Type} (p : α → Bool) (i acc : List α) :
    (List.span.loop p i acc).2 = i.drop (i.takeWhile p).length := by
  induction i generalizing acc with
  | nil => simp [List.span.loop]
  | cons a r ih =>
    simp only [List.span.loop]
    cases h : p a
    · simp [List.takeWhile, h]
    · simp [List.takeWhile, h, ih]

theorem St_charsUntil_eq (s : St) (cs : List Nat) (o : Bool) :
    s.charsUntil cs o =
      ((Stream.charsUntil s.input cs o).1, { s with input := s.input.drop (cuN s.input cs o) }) := by
  simp only [St.charsUntil, Stream.charsUntil, List.span, cuN, span_loop_snd]

/-! ### `CurTok` mutators never run out of fuel -/

theorem nf_attrsE (t : CurTok) : Post t.attrsE (fun _ => True) := by
  cases t <;> simp [CurTok.attrsE, Post, NF_keyError, NF_typeError]
theorem nf_setAttrs (d : List (Str × Str)) (t : CurTok) : Post (t.setAttrs d) (fun _ => True) := by
  cases t <;> simp [CurTok.setAttrs, Post, NF_typeError]
theorem nf_nameE (t : CurTok) : Post t.nameE (fun _ => True) := by
  cases t <;> simp [CurTok.nameE, Post, NF_keyError]
theorem nf_modName (f : Str → Str) (t : CurTok) : Post (t.modName f) (fun _ => True) := by
  cases t <;> simp [CurTok.modName, Post, NF_keyError]
theorem nf_appendAttr (n : Str) (t : CurTok) : Post (t.appendAttr n) (fun _ => True) := by
  cases t <;> simp [CurTok.appendAttr, CurTok.attrsE, CurTok.setAttrs, Post, NF_keyError, NF_typeError, bind,
    Except.bind]
theorem nf_modLastAttr (f : Str × Str → Str × Str) (t : CurTok) : Post (t.modLastAttr f) (fun _ => True) := by
  unfold CurTok.modLastAttr
  simp only [Post_bind]
  refine Post_mono (nf_attrsE t) ?_
  intro d _
  split
  · exact NF_indexError _
  · exact nf_setAttrs _ _
theorem nf_addAttrName (x : Str) (t : CurTok) : Post (t.addAttrName x) (fun _ => True) := nf_modLastAttr _ _
theorem nf_addAttrValue (x : Str) (t : CurTok) : Post (t.addAttrValue x) (fun _ => True) := nf_modLastAttr _ _
theorem nf_addData (x : Str) (t : CurTok) : Post (t.addData x) (fun _ => True) := by
  cases t <;> simp [CurTok.addData, Post, NF_keyError, NF_typeError]
theorem nf_setSelfClosing (t : CurTok) : Post t.setSelfClosing (fun _ => True) := by
  cases t <;> simp [CurTok.setSelfClosing, Post, NF_typeError]
theorem nf_setIncorrect (t : CurTok) : Post t.setIncorrect (fun _ => True) := by
  cases t <;> simp [CurTok.setIncorrect, Post, NF_typeError]
theorem nf_initPublicId (t : CurTok) : Post t.initPublicId (fun _ => True) := by
  cases t <;> simp [CurTok.initPublicId, Post, NF_typeError]
theorem nf_initSystemId (t : CurTok) : Post t.initSystemId (fun _ => True) := by
  cases t <;> simp [CurTok.initSystemId, Post, NF_typeError]
theorem nf_addPublicId (x : Str) (t : CurTok) : Post (t.addPublicId x) (fun _ => True) := by
  rcases t with _ | _ | _ | _ | ⟨_, _ | _, _, _⟩ <;> simp [CurTok.addPublicId, Post, NF_typeError, NF_keyError]
theorem nf_addSystemId (x : Str) (t : CurTok) : Post (t.addSystemId x) (fun _ => True) := by
  rcases t with _ | _ | _ | _ | ⟨_, _, _ | _, _⟩ <;> simp [CurTok.addSystemId, Post, NF_typeError, NF_keyError]
theorem nf_toTTok (t : CurTok) : Post t.toTTok (fun _ => True) := by
  cases t <;> simp [CurTok.toTTok, Post, NF_keyError]

/-! ### `St` helpers -/

theorem cur_post (s : St) : Post s.cur (fun _ => True) := by
  unfold St.cur; split <;> simp [Post, NF_typeError]

theorem modCur_post (s : St) (g : CurTok → Except PyErr CurTok) (hg : ∀ t, Post (g t) (fun _ => True)) :
    Post (s.modCur g) (fun s' => s'.input = s.input ∧ s'.state = s.state) := by
  unfold St.modCur
  simp only [Post_bind]
  refine Post_mono (cur_post s) ?_
  intro t _
  refine Post_mono (hg t) ?_
  intro t' _
  exact ⟨rfl, rfl⟩

theorem emitCur_post (s : St) : Post s.emitCur (fun s' => s'.input = s.input ∧ s'.state = s.state) := by
  unfold St.emitCur
  simp only [Post_bind]
  refine Post_mono (cur_post s) ?_
  intro t _
  refine Post_mono (nf_toTTok t) ?_
  intro t' _
  exact ⟨rfl, rfl⟩

theorem tempBuf_post (s : St) : Post s.tempBuf (fun _ => True) := by
  unfold St.tempBuf; split <;> simp [Post, NF_lookupError]

theorem addTempBuf_post (s : St) (x : Str) :
    Post (s.addTempBuf x) (fun s' => s'.input = s.input ∧ s'.state = s.state) := by
  unfold St.addTempBuf
  simp only [Post_bind]
  refine Post_mono (tempBuf_post s) ?_
  intro b _
  exact ⟨rfl, rfl⟩

theorem newEndTagFromBuffer_post (s : St) :
    Post s.newEndTagFromBuffer (fun s' => s'.input = s.input ∧ s'.state = s.state) := by
  unfold St.newEndTagFromBuffer
  simp only [Post_bind]
  refine Post_mono (tempBuf_post s) ?_
  intro b _
  exact ⟨rfl, rfl⟩

theorem bufferIsScript_post (s : St) : Post s.bufferIsScript (fun _ => True) := by
  unfold St.bufferIsScript
  simp only [Post_bind]
  refine Post_mono (tempBuf_post s) ?_
  intro b _
  trivial

theorem appropriate_post (s : St) : Post (appropriate s) (fun _ => True) := by
  unfold appropriate
  split
  · trivial
  · simp only [Post_bind]
    refine Post_mono (nf_nameE _) ?_
    intro n _
    refine Post_mono (tempBuf_post s) ?_
    intro b _
    trivial

theorem emitCurrentToken_post (s : St) :
    Post (emitCurrentToken s) (fun s' => s'.input = s.input ∧ s'.state = .dataState) := by
  unfold emitCurrentToken
  simp only [Post_bind]
  refine Post_mono (cur_post s) ?_
  intro t _
  split
  · exact ⟨rfl, rfl⟩
  · refine ⟨?_, rfl⟩
    simp only [St.to]
    split <;> split <;> rfl
  · exact NF_keyError _
  · simp only [Post_bind]
    refine Post_mono (emitCur_post s) ?_
    intro s' h
    exact ⟨h.1, rfl⟩
  · simp only [Post_bind]
    refine Post_mono (emitCur_post s) ?_
    intro s' h
    exact ⟨h.1, rfl⟩

theorem emitCurToData_post (s : St) :
    Post s.emitCurToData (fun r => r.2.input = s.input ∧ r.2.state = .dataState) := by
  unfold St.emitCurToData
  simp only [Post_bind]
  refine Post_mono (emitCur_post s) ?_
  intro s' h
  exact ⟨h.1, rfl⟩

theorem failDoctype_post (s : St) (code : String) :
    Post (s.failDoctype code) (fun r => r.2.input = s.input ∧ r.2.state = .dataState) := by
  unfold St.failDoctype
  simp only [Post_bind]
  refine Post_mono (modCur_post _ _ nf_setIncorrect) ?_
  intro s' h
  refine Post_mono (emitCurToData_post s') ?_
  intro r hr
  exact ⟨hr.1.trans h.1, hr.2⟩

theorem consumeEntity_post (s : St) (ac : Option Nat) (fa : Bool) :
    Post (consumeEntity s ac fa) (fun s' => s'.input.length ≤ s.input.length ∧ s'.state = s.state) := by
  unfold consumeEntity
  simp only [Post_bind]
  refine Post_mono (consumeEntityCore_post ac fa s.input) ?_
  rintro ⟨o, e, i⟩ h
  simp only at h ⊢
  split
  · refine Post_mono (modCur_post _ _ (nf_addAttrValue o)) ?_
    intro s' hs
    simp only at hs
    exact ⟨by rw [hs.1]; exact h, hs.2⟩
  · exact ⟨h, rfl⟩

theorem leaveAttributeName_post (s : St) :
    Post (leaveAttributeName s) (fun s' => s'.input = s.input ∧ s'.state = s.state) := by
  unfold leaveAttributeName
  simp only [Post_bind]
  refine Post_mono (modCur_post _ _ (nf_modLastAttr _)) ?_
  intro s1 h1
  refine Post_mono (cur_post s1) ?_
  intro t _
  refine Post_mono (nf_attrsE t) ?_
  intro d _
  split
  · exact NF_indexError _
  · split
    · exact h1
    · exact h1

theorem markupDeclarationOpenFail_post (s : St) (cs : List (Option Nat)) :
    Post (markupDeclarationOpenFail s cs)
      (fun r => r.2.input.length = s.input.length + somes cs ∧ r.2.state = .bogusCommentState) := by
  unfold markupDeclarationOpenFail
  have := foldl_unget_input cs.reverse (s.parseError "expected-dashes-or-doctype")
  rw [somes_reverse] at this
  exact ⟨this.1, rfl⟩

theorem afterDoctypeNameFail_post (s : St) (data : Option Nat) :
    Post (afterDoctypeNameFail s data)
      (fun r => r.2.input.length = s.input.length + somes [data] ∧ r.2.state = .bogusDoctypeState) := by
  unfold afterDoctypeNameFail
  simp only [Post_bind]
  refine Post_mono (modCur_post _ _ nf_setIncorrect) ?_
  intro s' h
  refine ⟨?_, rfl⟩
  simp only [St.to, h.1, St.emit, St.unget, unget_length]

macro_rules | `(tactic| post_helper) => `(tactic| with_reducible apply Post_mono (modCur_post _ _ (nf_modName _)))
macro_rules | `(tactic| post_helper) => `(tactic| with_reducible apply Post_mono (modCur_post _ _ (nf_appendAttr _)))
macro_rules | `(tactic| post_helper) => `(tactic| with_reducible apply Post_mono (modCur_post _ _ (nf_addAttrName _)))
macro_rules | `(tactic| post_helper) => `(tactic| with_reducible apply Post_mono (modCur_post _ _ (nf_addAttrValue _)))
macro_rules | `(tactic| post_helper) => `(tactic| with_reducible apply Post_mono (modCur_post _ _ (nf_addData _)))
macro_rules | `(tactic| post_helper) => `(tactic| with_reducible apply Post_mono (modCur_post _ _ nf_setSelfClosing))
macro_rules | `(tactic| post_helper) => `(tactic| with_reducible apply Post_mono (modCur_post _ _ nf_setIncorrect))
macro_rules | `(tactic| post_helper) => `(tactic| with_reducible apply Post_mono (modCur_post _ _ nf_initPublicId))
macro_rules | `(tactic| post_helper) => `(tactic| with_reducible apply Post_mono (modCur_post _ _ nf_initSystemId))
macro_rules | `(tactic| post_helper) => `(tactic| with_reducible apply Post_mono (modCur_post _ _ (nf_addPublicId _)))
macro_rules | `(tactic| post_helper) => `(tactic| with_reducible apply Post_mono (modCur_post _ _ (nf_addSystemId _)))
macro_rules | `(tactic| post_helper) => `(tactic| with_reducible apply Post_mono (emitCurrentToken_post _))
macro_rules | `(tactic| post_helper) => `(tactic| with_reducible apply Post_mono (emitCurToData_post _))
macro_rules | `(tactic| post_helper) => `(tactic| with_reducible apply Post_mono (failDoctype_post _ _))
macro_rules | `(tactic| post_helper) => `(tactic| with_reducible apply Post_mono (consumeEntity_post _ _ _))
macro_rules | `(tactic| post_helper) => `(tactic| with_reducible apply Post_mono (leaveAttributeName_post _))
macro_rules | `(tactic| post_helper) => `(tactic| with_reducible apply Post_mono (addTempBuf_post _ _))
macro_rules | `(tactic| post_helper) => `(tactic| with_reducible apply Post_mono (newEndTagFromBuffer_post _))
macro_rules | `(tactic| post_helper) => `(tactic| with_reducible apply Post_mono (tempBuf_post _))
macro_rules | `(tactic| post_helper) => `(tactic| with_reducible apply Post_mono (bufferIsScript_post _))
macro_rules | `(tactic| post_helper) => `(tactic| with_reducible apply Post_mono (appropriate_post _))
macro_rules | `(tactic| post_helper) => `(tactic| with_reducible apply Post_mono (markupDeclarationOpenFail_post _ _))
macro_rules | `(tactic| post_helper) => `(tactic| with_reducible apply Post_mono (afterDoctypeNameFail_post _ _))

/-! ### a few more stream facts used by the hand-proved states -/

theorem getLast_somes_opt (cs : List (Option Nat)) :
    match cs.getLast? with
    | some c => somes [c] ≤ somes cs
    | none => True := by
  split
  · rename_i c h; exact getLast_somes cs c h
  · trivial

theorem St_char_snd (s : St) : (s.char).2.input.length ≤ s.input.length ∧ (s.char).2.state = s.state := by
  obtain ⟨st, input, cur, tb, q, cd⟩ := s
  cases input <;> simp [St.char, Stream.char]

theorem foldl_emit_input (ts : List TTok) (s : St) :
    (ts.foldl (fun s t => s.emit t) s).input = s.input ∧ (ts.foldl (fun s t => s.emit t) s).state = s.state := by
  induction ts generalizing s with
  | nil => exact ⟨rfl, rfl⟩
  | cons t r ih => simp only [List.foldl_cons]; exact ih (s.emit t)

/-! ### the per-state tactic -/

/-- closes the arithmetic leaves `Dec n W (cont, s')` -/
macro "dec_finish" : tactic => `(tactic| (
  simp only [Dec, w, St.to, St.emit, St.parseError, St.emitChars, St.unget, St.setTempBuf, Stream.unget,
    List.length_cons, List.length_drop, List.length_nil, somes, somes_append, List.cons_append, List.nil_append,
    and_imp, Prod.forall, Bool.false_eq_true, false_implies, true_implies, forall_const] at *
  first
    | done
    | omega
    | (simp_all only [List.length_cons, List.length_drop, List.length_nil, w]; first | done | omega)
    | (simp_all; first | done | omega)))

/-- the simp set that evaluates the first `self.stream.char()` of a state method on a concrete input shape
(only non-definitional lemmas may rewrite inside `if` conditions, so that the `Decidable` instances follow) -/
macro "state_unfold" f:ident : tactic => `(tactic|
  simp only [$f:ident, endTagNameBody, doctypePublicIdentifierQuoted, doctypeSystemIdentifierQuoted,
    processEntityInAttribute, ok, St_char_nil, St_char_cons, St_charsUntil_eq, isIn_none, isIn_some, nonEOF,
    Option.some.injEq, reduceCtorEq, ↓reduceIte, Bool.false_and, Bool.and_false, false_and])

/-- proves `Post (f s) (Dec …)` for a state method `f` that starts with `self.stream.char()`;
expects `s : St` and `hs : s.state = .f` as the last two hypotheses -/
macro "state_dec" f:ident : tactic => `(tactic| (
  rename_i s hs
  obtain ⟨st, input, cur, tb, q, cd⟩ := s
  simp only at hs
  subst hs
  cases input
  all_goals state_unfold $f
  all_goals post_loop
  all_goals dec_finish))

end H5.Props.C02c
