/-
  C03c — `Inv` is an invariant of the tree-construction model: it holds after `reset()` (documents and fragments in any
  container) and is preserved by every token (`TB.step`), hence in every reachable state.
-/
import H5.Props.C03cDepth
import H5.Props.C03cRet
import H5.Props.C03cCfg
set_option linter.unusedSimpArgs false
set_option linter.unusedVariables false
namespace H5.Props.C03c
open H5 H5.Model H5.Model.TB H5.Model.Dom
open H5.Props.C02c (NF Post Post_bind Post_mono Post_pure Post_ok Post_error Post_throw Post_ite
  NF_typeError NF_keyError NF_indexError NF_assertFail NF_valueError NF_lookupError)
open H5.Props.C03b

/-- the states of the tree-construction model reachable by parsing with configuration `cfg` (a document, or a fragment
in the container `cfg.innerHTML`): the state after `reset()`, and every state after a token -/
inductive Reach (cfg : Cfg) : PState → Prop
  | init {st : PState} : TB.init cfg = .ok st → Reach cfg st
  | step {st st' : PState} {t : TTok} {sw : Option TokStateSwitch} :
      Reach cfg st → TB.step cfg st t = .ok (st', sw) → Reach cfg st'

/-- the tokens that `mainLoop` receives from the tokenizer have no `namespace` key -/
theorem NsNone_ofTTok {t : TTok} {tok : Token} (h : Token.ofTTok t = some tok) : NsNone tok := by
  cases t <;> simp only [Token.ofTTok, Option.some.injEq] at h <;> first | (subst h; first | rfl | trivial) | cases h

/-- `mainLoop` only selects `InForeignContentPhase` when the current node is not in the default namespace -/
theorem useCurrentPhase_spec (tok : Token) (st : PState) (hs : ST st) :
    Tr (useCurrentPhase tok) st (fun own st' => st' = st ∧ (own = false → (entryK .inForeignContent).holds st)) := by
  unfold useCurrentPhase
  refine (Tr_bind ..).2 ?_
  rw [Tr_openElems]
  cases hcur : st.openElements.getLast? with
  | none => simp [Tr_pure]
  | some cur =>
    have hel : IsEl st.arena cur := hs.elem cur (List.mem_of_getLast? hcur)
    dsimp only
    refine (Tr_bind ..).2 ?_
    rw [Tr_elemInfo hel]
    refine (Tr_bind ..).2 ?_
    rw [Tr_getCfg]
    by_cases hns : (elemK st.arena cur).1 = st.cfg.defaultNamespace
    · simp [hns, Tr_pure]
    · have hfg : (entryK .inForeignContent).holds st := ⟨elemK st.arena cur, stackK_getLast? hcur, hns⟩
      refine Tr_mono (RO.out st) ?_
      intro own st' hst'
      exact ⟨hst', fun _ => hfg⟩

/-- one round of the reprocess loop: the phase that `mainLoop` selects handles the token, and hands back nothing or
the same token -/
theorem round_inv {n : Nat} (hn : depthBound ≤ n) (tok : Token) (hNs : NsNone tok) (st : PState) (hi : Inv st) :
    Tr (reprocessRound (mkRec n) tok) st (fun a st' => Inv st' ∧ (a = none ∨ a = some tok)) := by
  have hr := mkRec_inv n
  have hrt := mkRec_RT n
  unfold depthBound at hn
  -- the returned token
  have hret : ∀ (m : M (Option Token)), RT tok m → Tr m st (fun _ st' => Inv st') →
      Tr m st (fun a st' => Inv st' ∧ (a = none ∨ a = some tok)) := by
    intro m h1 h2
    have h1' := h1.out st
    unfold Tr at h2 ⊢
    cases hm : m.run st with
    | error e => rw [hm] at h2; exact h2
    | ok p => rw [hm] at h1' h2; exact ⟨h2, h1'⟩
  unfold reprocessRound
  simp only [Tr_bind]
  refine Tr_mono (useCurrentPhase_spec tok st hi.str) ?_
  rintro own st0 ⟨hst0, hown⟩
  subst hst0
  have hph : ∀ Q : Phase → PState → Prop,
      (∀ ph, (entryK ph).holds st0 → (ph ≠ .inForeignContent → st0.phase = some ph) → Q ph st0) →
      Tr (if own = true then curPhase "HTMLParser.mainLoop" else pure Phase.inForeignContent) st0 Q := by
    intro Q hq
    split
    · simp only [Tr_curPhase]
      intro p hp
      exact hq p (entryK_cur hi hp) (fun _ => hp)
    · rename_i ho
      exact hq .inForeignContent (hown (by simpa using ho)) (fun h => absurd rfl h)
  refine hph _ ?_
  intro ph hp hcur
  have hce : CE ph tok st0 := by
    by_cases hf : ph = .inForeignContent
    · exact CE_of_ne (by rw [hf]; decide)
    · exact CE_of_phase (hcur hf)
  cases tok with
  | chars d => exact hret _ (hrt.Ch ph _) (hr.Ch ph _ (by have := needCh_le ph; omega) hNs st0 hi hp)
  | space d => exact hret _ (hrt.Sp ph _) (hr.Sp ph _ (by have := needSp_le ph; omega) hNs st0 hi hp)
  | startTag d => exact hret _ (hrt.S ph _) (hr.S ph _ (by have := needS_le ph (.startTag d); omega) hNs st0 hi hp)
  | endTag d => exact hret _ (hrt.E ph _) (hr.E ph _ (by have := needE_le ph (.endTag d); omega) hNs st0 hi hp hce)
  | comment d => exact hret _ (hrt.Cm ph _) (hr.Cm ph _ (by have := needCm_le ph; omega) hNs st0 hi hp)
  | doctype a b c d => exact hret _ (hrt.D ph _) (hr.D ph _ (by unfold maxNeed at hn; omega) hNs st0 hi hp)

/-- the reprocess loop preserves `Inv` (its only possible fuel error is its own) -/
theorem reprocessLoop_inv {n : Nat} (hn : depthBound ≤ n) :
    ∀ fuel tok st, NsNone tok → Inv st → TrX (reprocessLoop (mkRec n) fuel tok) st (fun _ st' => Inv st') := by
  intro fuel
  induction fuel with
  | zero =>
    intro tok st hNs hi
    unfold reprocessLoop
    intro site he
    cases he
    rfl
  | succ fuel ih =>
    intro tok st hNs hi
    have hround := round_inv hn tok hNs st hi
    unfold TrX
    rw [reprocessLoop_succ]
    unfold Tr at hround
    cases hr : (reprocessRound (mkRec n) tok).run st with
    | error e =>
      rw [hr] at hround
      exact NFx_of_NF hround
    | ok p =>
      rw [hr] at hround
      obtain ⟨nt, st'⟩ := p
      simp only [ok_bind]
      cases nt with
      | none => exact hround.1
      | some t =>
        have : t = tok := by
          rcases hround.2 with h | h
          · cases h
          · exact Option.some.inj h
        exact ih t st' (this ▸ hNs) hround.1

theorem stepM_inv (t : TTok) (st : PState) (hd : depthBound ≤ st.cfg.dispatchDepth) (hi : Inv st) :
    TrX (stepM t) st (fun _ st' => Inv st') := by
  unfold stepM
  simp only [TrX_bind]
  refine TrX_mono (TrX_of_Tr (Q := fun _ st' => Inv st' ∧ st'.cfg = st.cfg) ?_) ?_
  · simp only [Tr_modify]
    exact ⟨Inv_of_Same (st := st) ⟨rfl, rfl, rfl, rfl, rfl, rfl, Ext.refl _⟩ hi, by first | rfl | trivial⟩
  intro _ st1 ⟨hi1, hc1⟩
  split
  · exact TrX_of_Tr (Tr_of_Pu _ st1 hi1)
  · split
    · exact hi1
    · rename_i tok htok
      simp only [TrX_bind]
      refine TrX_mono (TrX_of_Tr (Q := fun c st' => st' = st1 ∧ c = st1.cfg) ?_) ?_
      · exact ⟨rfl, rfl⟩
      rintro cfg st2 ⟨hst2, hcfg⟩
      rw [hst2, hcfg]
      refine TrX_mono (reprocessLoop_inv (by rw [hc1]; exact hd) _ tok st1 (NsNone_ofTTok htok) hi1) ?_
      intro _ st3 hi3
      refine TrX_of_Tr ?_
      have : ∀ (m : M Unit), Pu m → Tr m st3 (fun _ st' => Inv st') := fun m h => h.out st3 hi3
      apply this
      pn_auto



/-- **preservation**: a token handled from a state with `Inv` ends in a state with `Inv` -/
theorem Inv_step (cfg : Cfg) (hd : depthBound ≤ cfg.dispatchDepth) {st st' : PState} {t : TTok}
    {sw : Option TokStateSwitch} (hc : st.cfg = cfg) (hi : Inv st) (h : TB.step cfg st t = .ok (st', sw)) :
    Inv st' ∧ st'.cfg = cfg := by
  unfold TB.step at h
  have hst : ({ st with cfg := cfg } : PState) = st := by rw [← hc]
  rw [hst] at h
  have := stepM_inv t st (by rw [hc]; exact hd) hi
  have hcfg := (KC_stepM cfg t).out st hc
  unfold TrX at this
  cases hs : (stepM t).run st with
  | ok r =>
    rw [hs] at h this hcfg
    cases h
    exact ⟨this, hcfg⟩
  | error e => rw [hs] at h; cases h

/-- the state before anything is inserted -/
theorem Inv_empty (st0 : PState) (h1 : st0.phase = none ∨ st0.phase = some .initial) (h2 : st0.originalPhase = none)
    (h3 : st0.tableTextOriginalPhase = none) (h4 : st0.openElements = []) (h5 : st0.activeFormattingElements = [])
    (h6 : st0.headPointer = none) (h7 : st0.formPointer = none) : Inv st0 ∧ NT st0 := by
  have hnt : NT st0 := by unfold NT; rcases h1 with h | h <;> (rw [h]; decide)
  have hK : stackK st0 = [] := by unfold stackK; rw [h4]; rfl
  have hs : ST st0 := by
    refine ⟨?_, ?_, ?_, ?_, ?_, ?_, ?_, ?_⟩
    · rw [h4]; intro i hi; cases hi
    · rw [h4]; exact List.nodup_nil
    · rw [h6]; intro i hi; cases hi
    · rw [h7]; intro i hi; cases hi
    · rw [hK]; intro e he; cases he
    · rw [hK]; rfl
    · rw [hK]; intro e he; cases he
    · rw [h5]; intro i hi; cases hi
  have hr : REG st0 := by
    refine ⟨⟨?_, by rw [h2]; simp, by rw [h3]; simp⟩, ?_, ?_⟩
    · rcases h1 with h | h <;> (rw [h]; simp)
    · intro h; rcases h1 with h' | h' <;> (rw [h'] at h; cases h)
    · intro h; rcases h1 with h' | h' <;> (rw [h'] at h; cases h)
  have hf : freeP st0.phase := by rcases h1 with h | h <;> (rw [h]; decide)
  exact ⟨Inv_of_free hs hr hnt hf, hnt⟩

/-- **initially**: after `reset()`, for a document and for a fragment in any container -/
theorem Inv_init (cfg : Cfg) {st : PState} (h : TB.init cfg = .ok st) : Inv st ∧ st.cfg = cfg := by
  unfold TB.init at h
  dsimp only at h
  have hpu : Pk (do setPhase .beforeHtml; BeforeHtml_insertHtmlElement; resetInsertionMode : M Unit) := by
    pk_auto
  split at h
  · generalize hst0 : ({ cfg := cfg, arena := (Arena.empty.alloc .document).1, document := (Arena.empty.alloc .document).2, phase := none } : PState) = st0 at h
    have h0 := Inv_empty st0 (Or.inl (by rw [← hst0])) (by rw [← hst0]) (by rw [← hst0]) (by rw [← hst0]) (by rw [← hst0]) (by rw [← hst0]) (by rw [← hst0])
    have := hpu.out _ h0.1 h0.2
    have hkc : KC cfg (do setPhase .beforeHtml; BeforeHtml_insertHtmlElement; resetInsertionMode : M Unit) := by
      kc_auto
    have hcfg := hkc.out st0 (by rw [← hst0])
    unfold Tr at this
    split at h
    · rename_i r st1 hrun
      rw [hrun] at this hcfg
      cases h
      exact ⟨Inv_of_Same (st := st1) ⟨rfl, rfl, rfl, rfl, rfl, rfl, Ext.refl _⟩ this, hcfg⟩
    · cases h
  · cases h
    exact ⟨(Inv_empty _ (Or.inr rfl) rfl rfl rfl rfl rfl rfl).1, rfl⟩

/-- **R0**: `Inv` holds in every reachable state -/
theorem Reach_Inv_cfg (cfg : Cfg) (hd : depthBound ≤ cfg.dispatchDepth) {st : PState} (h : Reach cfg st) :
    Inv st ∧ st.cfg = cfg := by
  induction h with
  | init h0 => exact Inv_init cfg h0
  | step _ hs ih => exact Inv_step cfg hd ih.2 ih.1 hs

theorem Reach_Inv (cfg : Cfg) (hd : depthBound ≤ cfg.dispatchDepth) {st : PState} (h : Reach cfg st) : Inv st :=
  (Reach_Inv_cfg cfg hd h).1

end H5.Props.C03c
