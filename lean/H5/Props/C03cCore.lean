/-
  C03c — reachability invariants of the tree-construction model: the invariant `Inv`, the classes of computations that
  preserve it, and their closure under the monad operations.

  * `NT st`  : the phase register holds an "ordinary" phase: none of `text`, `inTableText`, `inSelect`,
               `inSelectInTable` (those four have their own, small, sets of handlers) and not `inForeignContent`.
  * `Pn m`   : from a state with `Inv ∧ NT`, `m` ends in a state with `Inv ∧ NT` (or fails, not with a fuel error).
  * `Pu m`   : `m` preserves `Inv` from ANY state.
  * `Pk m`   : from `Inv ∧ NT`, `m` ends with `Inv` (the register may have left the ordinary phases).
  A handler body is a chain `Pn ; … ; Pn ; Pk ; Pu ; … ; Pu` (typically: bookkeeping, one nested dispatch or phase
  switch, bookkeeping).
-/
import H5.Props.C03cList
set_option linter.unusedSimpArgs false
set_option linter.unusedVariables false
namespace H5.Props.C03c
open H5 H5.Model H5.Model.TB H5.Model.Dom
open H5.Props.C02c (NF Post Post_bind Post_mono Post_pure Post_ok Post_error Post_throw Post_ite
  NF_typeError NF_keyError NF_indexError NF_assertFail NF_valueError NF_lookupError)
open H5.Props.C03b

/-! ### the registers -/

/-- a value that the registers `originalPhase` / `InTableTextPhase.originalPhase` may hold while they are in use -/
def NTp (p : Option Phase) : Prop := p ≠ some .text ∧ p ≠ some .inTableText ∧ p ≠ some .inForeignContent

def NSel (p : Option Phase) : Prop := p ≠ some .inSelect ∧ p ≠ some .inSelectInTable

instance (p : Option Phase) : Decidable (NTp p) := by unfold NTp; infer_instance
instance (p : Option Phase) : Decidable (NSel p) := by unfold NSel; infer_instance

/-- the three phases around the `head` element, with a clause on the position of the `head` element -/
def headish (p : Option Phase) : Prop := p = some .inHead ∨ p = some .inHeadNoscript ∨ p = some .afterHead
instance (p : Option Phase) : Decidable (headish p) := by unfold headish; infer_instance

/-- the phase register holds an ordinary phase: none of `text`, `inTableText`, `inForeignContent`, the select phases
and the phases around `head` -/
def NT (st : PState) : Prop := NTp st.phase ∧ NSel st.phase ∧ ¬ headish st.phase

/-- the registers: no register ever holds `inForeignContent` (C03b's `PhInv`); while the phase is `text` the phase to
return to is neither `text` nor `inTableText`; while it is `inTableText` the phase to return to is an ordinary one
(in particular NOT `inTableText` itself: guard G3 of the reprocess loop) -/
structure REG (st : PState) : Prop where
  ph : PhInv st
  oph : st.phase = some .text → NTp st.originalPhase
  tph : st.phase = some .inTableText → NTp st.tableTextOriginalPhase ∧ NSel st.tableTextOriginalPhase ∧
    ¬ headish st.tableTextOriginalPhase

/-! ### the stack of open elements through the arena -/

/-- (raw namespace, name) of node `i` (a dummy for a non-element / missing node: excluded by `Inv.elem`) -/
def elemK (a : Arena) (i : NodeId) : El :=
  match kindAt a i with
  | some (.element ns nm) => (ns, nm)
  | _ => (none, [])

def IsEl (a : Arena) (i : NodeId) : Prop := ∃ ns nm, kindAt a i = some (.element ns nm)

theorem IsEl.ext {a a' : Arena} {i : NodeId} (h : IsEl a i) (he : Ext a a') : IsEl a' i ∧ elemK a' i = elemK a i := by
  obtain ⟨ns, nm, hk⟩ := h
  have hk' := he i _ hk
  exact ⟨⟨ns, nm, hk'⟩, by unfold elemK; rw [hk, hk']⟩

def stackK (st : PState) : List El := st.openElements.map (elemK st.arena)

def dnsOf (st : PState) : Option Str := st.cfg.defaultNamespace

/-- the phase whose clause applies: the phase to return to, while in `text` / `inTableText` -/
def effP (st : PState) : Option Phase :=
  if st.phase = some .text then st.originalPhase
  else if st.phase = some .inTableText then st.tableTextOriginalPhase
  else st.phase

/-- the stack the select clause is about: without the `script` element while in the `text` phase -/
def selStack (st : PState) : List El := if st.phase = some .text then (stackK st).dropLast else stackK st

/-- an element that may be pushed / removed anywhere above `html`: not protected, and in the default namespace if it
has an HTML name tuple -/
def okU (dns : Option Str) (e : El) : Prop := prot e = false ∧ (isH e = true → e.1 = dns)

/-- the current node in the `text` phase: an unprotected element of the default namespace, not named `head` (what
`AfterHeadPhase.startTagFromHead` removes from the stack after the nested dispatch) -/
def txtOK (dns : Option Str) (e : El) : Prop := e.1 = dns ∧ prot e = false ∧ e.2 ≠ nHead

/-- **the structural part of the invariant** (independent of the phase registers) -/
structure ST (st : PState) : Prop where
  /-- every open element is an element node -/
  elem : ∀ i ∈ st.openElements, IsEl st.arena i
  /-- no node is twice on the stack -/
  nodup : st.openElements.Nodup
  /-- the head pointer is a `head` element, the form pointer an unprotected element -/
  hp : ∀ i, st.headPointer = some i → IsEl st.arena i ∧ elemK st.arena i = (dnsOf st, nHead)
  fp : ∀ i, st.formPointer = some i → IsEl st.arena i ∧ okU (dnsOf st) (elemK st.arena i)
  /-- an open element with an HTML name tuple is in the default namespace -/
  ns : ∀ e ∈ stackK st, isH e = true → e.1 = dnsOf st
  /-- table parts sit on their parents (clones of formatting elements, which the adoption agency may put anywhere
  above its furthest block, are ignored) -/
  adj : adjJ (stackK st) = true
  /-- the bottom of the stack is the `html` element -/
  bot : ∀ e, (stackK st).head? = some e → e = (dnsOf st, nHtml)
  /-- the list of active formatting elements only holds HTML formatting elements -/
  afe : ∀ i, some i ∈ st.activeFormattingElements →
    IsEl st.arena i ∧ (elemK st.arena i).1 = dnsOf st ∧ FMT.contains (elemK st.arena i).2 = true

/-- the clauses on the protected part of the stack, by (effective) phase: in `inCell` a cell is in table scope, unless
nothing of a table is (fragment case): guard G2; in `inRow` a `tr` is in table scope unless no `tbody`/`thead`/`tfoot`
is: guard G5; in `afterHead` the stack is not empty -/
def PCL (p : Option Phase) (ps : List Str) : Prop :=
  (p = some .inCell → CELL ps = true) ∧ (p = some .inRow → ROW ps = true) ∧ (p = some .afterHead → ps ≠ [])

/-- a phase without a stack clause -/
def freeP (p : Option Phase) : Prop :=
  p ≠ some .inCell ∧ p ≠ some .inRow ∧ p ≠ some .inSelectInTable ∧ ¬ headish p
instance (p : Option Phase) : Decidable (freeP p) := by unfold freeP; infer_instance

theorem PCL_free {p : Option Phase} (h : freeP p) (ps : List Str) : PCL p ps :=
  ⟨fun he => absurd he h.1, fun he => absurd he h.2.1, fun he => absurd (Or.inr (Or.inr he)) h.2.2.2⟩

/-- the stack without the `title` / `script` / … element of the `text` phase -/
def cIds (st : PState) : List NodeId := if st.phase = some .text then st.openElements.dropLast else st.openElements

/-- where the `head` element is in the phases around it: in `inHead` it is the current node, in `inHeadNoscript` the
node below the current one, in `afterHead` it is not on the stack (`AfterHeadPhase.startTagFromHead` pushes it) -/
def HSH (st : PState) : Prop :=
  (effP st = some .inHead → ∃ pre h, cIds st = pre ++ [h] ∧ st.headPointer = some h) ∧
  (effP st = some .inHeadNoscript → ∃ pre h n, cIds st = pre ++ [h, n] ∧ st.headPointer = some h ∧
    (elemK st.arena n).1 = dnsOf st) ∧
  (effP st = some .afterHead → ∀ h, st.headPointer = some h → h ∉ st.openElements)

theorem HSH_free {st : PState} (h : ¬ headish (effP st)) : HSH st :=
  ⟨fun he => absurd (Or.inl he) h, fun he => absurd (Or.inr (Or.inl he)) h, fun he => absurd (Or.inr (Or.inr he)) h⟩

/-- **the invariant** -/
structure Inv (st : PState) : Prop where
  /-- the registers (guards G3, G4) -/
  reg : REG st
  str : ST st
  /-- in the `text` phase the current node is an unprotected element of the default namespace (the `script`, `style`,
  … element) -/
  txt : st.phase = some .text → ∃ e, (stackK st).getLast? = some e ∧ txtOK (dnsOf st) e
  /-- the clauses of the (effective) phase on the protected part of the stack -/
  pcl : PCL (effP st) (P (stackK st))
  hsh : HSH st
  /-- in (a text excursion from) `inSelectInTable`, `select` is in select scope: guard G1 -/
  sel : effP st = some .inSelectInTable → SEL (dnsOf st) (selStack st) = true

/-- what the invariant depends on, besides the kinds of the existing nodes -/
structure Same (st st' : PState) : Prop where
  f : F st' = F st
  op : st'.openElements = st.openElements
  af : st'.activeFormattingElements = st.activeFormattingElements
  cf : st'.cfg = st.cfg
  hd : st'.headPointer = st.headPointer
  fm : st'.formPointer = st.formPointer
  ar : Ext st.arena st'.arena

theorem Same.refl (st : PState) : Same st st := ⟨rfl, rfl, rfl, rfl, rfl, rfl, Ext.refl _⟩
theorem Same.trans {a b c : PState} (h1 : Same a b) (h2 : Same b c) : Same a c :=
  ⟨h2.f.trans h1.f, h2.op.trans h1.op, h2.af.trans h1.af, h2.cf.trans h1.cf, h2.hd.trans h1.hd, h2.fm.trans h1.fm,
   h1.ar.trans h2.ar⟩

theorem stackK_of_ext {st st' : PState} (hop : st'.openElements = st.openElements) (har : Ext st.arena st'.arena)
    (hel : ∀ i ∈ st.openElements, IsEl st.arena i) : stackK st' = stackK st := by
  unfold stackK
  rw [hop]
  exact List.map_congr_left (fun i hi => ((hel i hi).ext har).2)

theorem effP_of_F {st st' : PState} (h : F st' = F st) : effP st' = effP st := by
  simp only [F, Prod.mk.injEq] at h
  unfold effP; rw [h.1, h.2.1, h.2.2]

theorem phase_of_F {st st' : PState} (h : F st' = F st) : st'.phase = st.phase := by
  simp only [F, Prod.mk.injEq] at h; exact h.1

theorem REG_of_F {st st' : PState} (h : F st' = F st) (hi : REG st) : REG st' := by
  have he := h
  simp only [F, Prod.mk.injEq] at h
  obtain ⟨h1, h2, h3⟩ := h
  exact ⟨PhInv_of_F he hi.ph, by rw [h1, h2]; exact hi.oph, by rw [h1, h3]; exact hi.tph⟩

/-- the structural part after a step that keeps the stack, the pointers, the list of active formatting elements, the
configuration and the kinds of the nodes -/
theorem ST_of_same {st st' : PState} (hop : st'.openElements = st.openElements)
    (haf : st'.activeFormattingElements = st.activeFormattingElements) (hcf : st'.cfg = st.cfg)
    (hhd : st'.headPointer = st.headPointer) (hfm : st'.formPointer = st.formPointer)
    (har : Ext st.arena st'.arena) (hi : ST st) : ST st' := by
  have hs : stackK st' = stackK st := stackK_of_ext hop har hi.elem
  have hd : dnsOf st' = dnsOf st := by unfold dnsOf; rw [hcf]
  refine ⟨?_, ?_, ?_, ?_, ?_, ?_, ?_, ?_⟩
  · intro i hi'; rw [hop] at hi'; exact ((hi.elem i hi').ext har).1
  · rw [hop]; exact hi.nodup
  · intro i hi'; rw [hhd] at hi'
    obtain ⟨h1, h2⟩ := hi.hp i hi'
    obtain ⟨g1, g2⟩ := h1.ext har
    exact ⟨g1, by rw [g2, hd]; exact h2⟩
  · intro i hi'; rw [hfm] at hi'
    obtain ⟨h1, h2⟩ := hi.fp i hi'
    obtain ⟨g1, g2⟩ := h1.ext har
    exact ⟨g1, by rw [g2, hd]; exact h2⟩
  · rw [hs, hd]; exact hi.ns
  · rw [hs]; exact hi.adj
  · rw [hs, hd]; exact hi.bot
  · intro i hi'
    rw [haf] at hi'
    obtain ⟨h1, h2, h3⟩ := hi.afe i hi'
    obtain ⟨g1, g2⟩ := h1.ext har
    exact ⟨g1, by rw [g2, hd]; exact h2, by rw [g2]; exact h3⟩

theorem ST_of_Same {st st' : PState} (h : Same st st') (hi : ST st) : ST st' :=
  ST_of_same h.op h.af h.cf h.hd h.fm h.ar hi

theorem stackK_of_Same {st st' : PState} (h : Same st st') (hi : ST st) : stackK st' = stackK st :=
  stackK_of_ext h.op h.ar hi.elem

theorem dnsOf_of_cfg {st st' : PState} (h : st'.cfg = st.cfg) : dnsOf st' = dnsOf st := by unfold dnsOf; rw [h]

/-- the invariant from its parts, when the stack (as a list of names) and the configuration are those of `st` -/
theorem Inv_of_regs {st st' : PState} (hs : stackK st' = stackK st) (hcf : st'.cfg = st.cfg) (hst : ST st')
    (hr : REG st')
    (ht : st'.phase = some .text → ∃ e, (stackK st).getLast? = some e ∧ txtOK (dnsOf st) e)
    (hc : PCL (effP st') (P (stackK st))) (hh : HSH st')
    (hsl : effP st' = some .inSelectInTable →
      SEL (dnsOf st) (if st'.phase = some .text then (stackK st).dropLast else stackK st) = true) : Inv st' := by
  have hd : dnsOf st' = dnsOf st := dnsOf_of_cfg hcf
  refine ⟨hr, hst, ?_, ?_, hh, ?_⟩
  · rw [hs, hd]; exact ht
  · rw [hs]; exact hc
  · intro he; unfold selStack; rw [hs, hd]; exact hsl he

theorem cIds_of {st st' : PState} (h1 : st'.phase = st.phase) (h2 : st'.openElements = st.openElements) :
    cIds st' = cIds st := by unfold cIds; rw [h1, h2]

theorem cIds_sub (st : PState) : ∀ i ∈ cIds st, i ∈ st.openElements := by
  intro i hi
  unfold cIds at hi
  split at hi
  · exact List.dropLast_subset _ hi
  · exact hi

theorem HSH_of_same {st st' : PState} (hf : F st' = F st) (hop : st'.openElements = st.openElements)
    (hhd : st'.headPointer = st.headPointer) (hcf : st'.cfg = st.cfg) (har : Ext st.arena st'.arena)
    (hel : ∀ i ∈ st.openElements, IsEl st.arena i) (h : HSH st) : HSH st' := by
  have hph : st'.phase = st.phase := phase_of_F hf
  unfold HSH at h ⊢
  rw [effP_of_F hf, cIds_of hph hop, hhd, hop]
  refine ⟨h.1, fun he => ?_, h.2.2⟩
  obtain ⟨pre, hd, n, h1, h2, h3⟩ := h.2.1 he
  refine ⟨pre, hd, n, h1, h2, ?_⟩
  have hn : n ∈ st.openElements := cIds_sub st n (by rw [h1]; simp)
  rw [((hel n hn).ext har).2, dnsOf_of_cfg hcf]; exact h3

theorem Inv_of_Same {st st' : PState} (h : Same st st') (hi : Inv st) : Inv st' := by
  have hph : st'.phase = st.phase := phase_of_F h.f
  refine Inv_of_regs (stackK_of_Same h hi.str) h.cf (ST_of_Same h hi.str) (REG_of_F h.f hi.reg) ?_ ?_
    (HSH_of_same h.f h.op h.hd h.cf h.ar hi.str.elem hi.hsh) ?_
  · rw [hph]; exact hi.txt
  · rw [effP_of_F h.f]; exact hi.pcl
  · rw [effP_of_F h.f, hph]; exact hi.sel

theorem NT_of_F {st st' : PState} (h : F st' = F st) (hn : NT st) : NT st' := by
  simp only [F, Prod.mk.injEq] at h
  unfold NT; rw [h.1]; exact hn

/-! ### the classes of computations that do not look at the phase registers -/

/-- computations that keep everything the invariant depends on -/
class SV {α : Type} (m : M α) : Prop where
  out : ∀ st, Tr m st (fun _ st' => Same st st')

instance (priority := 50) SV_of_RO {α : Type} (m : M α) [h : RO m] : SV m :=
  ⟨fun st => Tr_mono (h.out st) (fun _ _ e => by subst e; exact Same.refl _)⟩
instance SV_bind {α β : Type} (m : M α) (f : α → M β) [h1 : SV m] [h2 : ∀ a, SV (f a)] : SV (m >>= f) :=
  ⟨fun st => (Tr_bind ..).2 (Tr_mono (h1.out st)
    (fun a st' e => Tr_mono ((h2 a).out st') (fun _ _ e' => e.trans e')))⟩
instance SV_map {α β : Type} (g : α → β) (m : M α) [h1 : SV m] : SV (g <$> m) :=
  ⟨fun st => (Tr_map ..).2 (h1.out st)⟩
instance SV_ite {α : Type} (c : Prop) [Decidable c] (a b : M α) [h1 : SV a] [h2 : SV b] :
    SV (if c then a else b) := by split <;> assumption
theorem SV_modify (f : PState → PState) (h : ∀ st, Same st (f st)) : SV (modify f : M PUnit) := ⟨fun st => h st⟩

/-- the registers, the configuration and the kinds of the nodes stay -/
structure Keep (st st' : PState) : Prop where
  f : F st' = F st
  cf : st'.cfg = st.cfg
  ar : Ext st.arena st'.arena

theorem Keep.refl (st : PState) : Keep st st := ⟨rfl, rfl, Ext.refl _⟩
theorem Keep.trans {a b c : PState} (h1 : Keep a b) (h2 : Keep b c) : Keep a c :=
  ⟨h2.f.trans h1.f, h2.cf.trans h1.cf, h1.ar.trans h2.ar⟩
theorem Keep_of_Same {st st' : PState} (h : Same st st') : Keep st st' := ⟨h.f, h.cf, h.ar⟩

/-- computations that keep the structural part of the invariant and the registers (the stack may change in any
admissible way: elements of any kind may be popped) -/
class KS {α : Type} (m : M α) : Prop where
  out : ∀ st, ST st → Tr m st (fun _ st' => ST st' ∧ Keep st st')

/-- … and the protected part of the stack -/
class KP {α : Type} (m : M α) : Prop where
  out : ∀ st, ST st → Tr m st (fun _ st' => ST st' ∧ Keep st st' ∧ P (stackK st') = P (stackK st))

instance (priority := 45) KP_of_SV {α : Type} (m : M α) [h : SV m] : KP m :=
  ⟨fun st hi => Tr_mono (h.out st) (fun _ _ e => ⟨ST_of_Same e hi, Keep_of_Same e, by rw [stackK_of_Same e hi]⟩)⟩
instance (priority := 45) KS_of_KP {α : Type} (m : M α) [h : KP m] : KS m :=
  ⟨fun st hi => Tr_mono (h.out st hi) (fun _ _ e => ⟨e.1, e.2.1⟩)⟩

instance KP_bind {α β : Type} (m : M α) (f : α → M β) [h1 : KP m] [h2 : ∀ a, KP (f a)] : KP (m >>= f) :=
  ⟨fun st hi => (Tr_bind ..).2 (Tr_mono (h1.out st hi)
    (fun a st' e => Tr_mono ((h2 a).out st' e.1) (fun _ _ e' => ⟨e'.1, e.2.1.trans e'.2.1, e'.2.2.trans e.2.2⟩)))⟩
instance KS_bind {α β : Type} (m : M α) (f : α → M β) [h1 : KS m] [h2 : ∀ a, KS (f a)] : KS (m >>= f) :=
  ⟨fun st hi => (Tr_bind ..).2 (Tr_mono (h1.out st hi)
    (fun a st' e => Tr_mono ((h2 a).out st' e.1) (fun _ _ e' => ⟨e'.1, e.2.trans e'.2⟩)))⟩
instance KP_map {α β : Type} (g : α → β) (m : M α) [h1 : KP m] : KP (g <$> m) :=
  ⟨fun st hi => (Tr_map ..).2 (h1.out st hi)⟩
instance KS_map {α β : Type} (g : α → β) (m : M α) [h1 : KS m] : KS (g <$> m) :=
  ⟨fun st hi => (Tr_map ..).2 (h1.out st hi)⟩
instance KP_ite {α : Type} (c : Prop) [Decidable c] (a b : M α) [h1 : KP a] [h2 : KP b] :
    KP (if c then a else b) := by split <;> assumption
instance KS_ite {α : Type} (c : Prop) [Decidable c] (a b : M α) [h1 : KS a] [h2 : KS b] :
    KS (if c then a else b) := by split <;> assumption

/-! ### the classes -/

class Pn {α : Type} (m : M α) : Prop where
  out : ∀ st, Inv st → NT st → Tr m st (fun _ st' => Inv st' ∧ NT st')

class Pu {α : Type} (m : M α) : Prop where
  out : ∀ st, Inv st → Tr m st (fun _ st' => Inv st')

class Pk {α : Type} (m : M α) : Prop where
  out : ∀ st, Inv st → NT st → Tr m st (fun _ st' => Inv st')

/-- from the structural part and the registers alone (whatever the phase), `m` establishes the invariant: the
computations that end with an assignment to the phase register -/
class Pz {α : Type} (m : M α) : Prop where
  out : ∀ st, ST st → REG st → Tr m st (fun _ st' => Inv st')

/-- … and ends in an ordinary phase -/
class Pzn {α : Type} (m : M α) : Prop where
  out : ∀ st, ST st → REG st → Tr m st (fun _ st' => Inv st' ∧ NT st')

theorem effP_eq_phase {st : PState} (h : NTp st.phase) : effP st = st.phase := by
  unfold effP; rw [if_neg h.1, if_neg h.2.1]

/-- outside the `text` phase and the select phases the invariant only depends on the protected part of the stack -/
theorem Inv_of_KPg {st st' : PState} (hi : Inv st) (hnt : st.phase ≠ some .text)
    (hns : effP st ≠ some .inSelectInTable) (hnh : ¬ headish (effP st)) (hst : ST st') (hk : Keep st st')
    (hp : P (stackK st') = P (stackK st)) : Inv st' := by
  have hph : st'.phase = st.phase := phase_of_F hk.f
  have he : effP st' = effP st := effP_of_F hk.f
  refine ⟨REG_of_F hk.f hi.reg, hst, fun h => absurd (hph ▸ h) hnt, ?_, HSH_free (by rw [he]; exact hnh), ?_⟩
  · rw [he, hp]; exact hi.pcl
  · rw [he]; intro h; exact absurd h hns

/-- in an ordinary phase the invariant only depends on the protected part of the stack -/
theorem Inv_of_KP {st st' : PState} (hi : Inv st) (hn : NT st) (hst : ST st') (hk : Keep st st')
    (hp : P (stackK st') = P (stackK st)) : Inv st' :=
  Inv_of_KPg hi hn.1.1 (by rw [effP_eq_phase hn.1]; exact hn.2.1.2) (by rw [effP_eq_phase hn.1]; exact hn.2.2) hst hk hp

instance (priority := 40) Pn_of_KP {α : Type} (m : M α) [h : KP m] : Pn m :=
  ⟨fun st hi hn => Tr_mono (h.out st hi.str)
    (fun _ _ e => ⟨Inv_of_KP hi hn e.1 e.2.1 e.2.2, NT_of_F e.2.1.f hn⟩)⟩
instance (priority := 40) Pu_of_SV {α : Type} (m : M α) [h : SV m] : Pu m :=
  ⟨fun st hi => Tr_mono (h.out st) (fun _ _ e => Inv_of_Same e hi)⟩
instance (priority := 30) Pk_of_Pn {α : Type} (m : M α) [h : Pn m] : Pk m :=
  ⟨fun st hi hn => Tr_mono (h.out st hi hn) (fun _ _ e => e.1)⟩
instance (priority := 20) Pk_of_Pu {α : Type} (m : M α) [h : Pu m] : Pk m :=
  ⟨fun st hi _ => h.out st hi⟩
instance (priority := 20) Pu_of_Pz {α : Type} (m : M α) [h : Pz m] : Pu m :=
  ⟨fun st hi => h.out st hi.str hi.reg⟩

instance (priority := 25) Pn_of_Pzn {α : Type} (m : M α) [h : Pzn m] : Pn m :=
  ⟨fun st hi _ => h.out st hi.str hi.reg⟩
instance (priority := 25) Pz_of_Pzn {α : Type} (m : M α) [h : Pzn m] : Pz m :=
  ⟨fun st hs hr => Tr_mono (h.out st hs hr) (fun _ _ e => e.1)⟩
theorem Pzn_bind_s {α β : Type} (m : M α) (f : α → M β) [h1 : KS m] (h2 : ∀ a, Pzn (f a)) : Pzn (m >>= f) :=
  ⟨fun st hi hr => (Tr_bind ..).2 (Tr_mono (h1.out st hi)
    (fun a st' h => (h2 a).out st' h.1 (REG_of_F h.2.f hr)))⟩
theorem Pzn_bind_n {α β : Type} (m : M α) (f : α → M β) (h1 : Pzn m) [h2 : ∀ a, Pn (f a)] : Pzn (m >>= f) :=
  ⟨fun st hi hr => (Tr_bind ..).2 (Tr_mono (h1.out st hi hr) (fun a st' h => (h2 a).out st' h.1 h.2))⟩
theorem Pzn_ite {α : Type} (c : Prop) [Decidable c] (a b : M α) (h1 : Pzn a) (h2 : Pzn b) :
    Pzn (if c then a else b) := by split <;> assumption

instance Pn_bind {α β : Type} (m : M α) (f : α → M β) [h1 : Pn m] [h2 : ∀ a, Pn (f a)] : Pn (m >>= f) :=
  ⟨fun st hi hn => (Tr_bind ..).2 (Tr_mono (h1.out st hi hn) (fun a st' h => (h2 a).out st' h.1 h.2))⟩
instance Pu_bind {α β : Type} (m : M α) (f : α → M β) [h1 : Pu m] [h2 : ∀ a, Pu (f a)] : Pu (m >>= f) :=
  ⟨fun st hi => (Tr_bind ..).2 (Tr_mono (h1.out st hi) (fun a st' h => (h2 a).out st' h))⟩
/-- ordinary bookkeeping, then something that may leave the ordinary phases -/
theorem Pk_bind_n {α β : Type} (m : M α) (f : α → M β) [h1 : Pn m] (h2 : ∀ a, Pk (f a)) : Pk (m >>= f) :=
  ⟨fun st hi hn => (Tr_bind ..).2 (Tr_mono (h1.out st hi hn) (fun a st' h => (h2 a).out st' h.1 h.2))⟩
/-- something that may leave the ordinary phases, then phase-independent bookkeeping -/
theorem Pk_bind_u {α β : Type} (m : M α) (f : α → M β) (h1 : Pk m) [h2 : ∀ a, Pu (f a)] : Pk (m >>= f) :=
  ⟨fun st hi hn => (Tr_bind ..).2 (Tr_mono (h1.out st hi hn) (fun a st' h => (h2 a).out st' h))⟩
/-- stack manipulations, then an assignment to the phase register -/
theorem Pz_bind_s {α β : Type} (m : M α) (f : α → M β) [h1 : KS m] (h2 : ∀ a, Pz (f a)) : Pz (m >>= f) :=
  ⟨fun st hi hr => (Tr_bind ..).2 (Tr_mono (h1.out st hi)
    (fun a st' h => (h2 a).out st' h.1 (REG_of_F h.2.f hr)))⟩
theorem Pz_bind_u {α β : Type} (m : M α) (f : α → M β) (h1 : Pz m) [h2 : ∀ a, Pu (f a)] : Pz (m >>= f) :=
  ⟨fun st hi hr => (Tr_bind ..).2 (Tr_mono (h1.out st hi hr) (fun a st' h => (h2 a).out st' h))⟩
theorem Pz_ite {α : Type} (c : Prop) [Decidable c] (a b : M α) (h1 : Pz a) (h2 : Pz b) :
    Pz (if c then a else b) := by split <;> assumption

instance Pn_map {α β : Type} (g : α → β) (m : M α) [h1 : Pn m] : Pn (g <$> m) :=
  ⟨fun st hi hn => (Tr_map ..).2 (h1.out st hi hn)⟩
instance Pu_map {α β : Type} (g : α → β) (m : M α) [h1 : Pu m] : Pu (g <$> m) :=
  ⟨fun st hi => (Tr_map ..).2 (h1.out st hi)⟩
instance Pn_ite {α : Type} (c : Prop) [Decidable c] (a b : M α) [h1 : Pn a] [h2 : Pn b] :
    Pn (if c then a else b) := by split <;> assumption
instance Pu_ite {α : Type} (c : Prop) [Decidable c] (a b : M α) [h1 : Pu a] [h2 : Pu b] :
    Pu (if c then a else b) := by split <;> assumption
theorem Pk_ite {α : Type} (c : Prop) [Decidable c] (a b : M α) (h1 : Pk a) (h2 : Pk b) :
    Pk (if c then a else b) := by split <;> assumption

/-! ### the phase assignments -/

theorem REG_setPhase {st : PState} (hi : REG st) (p : Option Phase) (h : NTp p) : REG { st with phase := p } :=
  ⟨⟨h.2.2, hi.ph.2.1, hi.ph.2.2⟩, fun he => absurd he h.1, fun he => absurd he h.2.1⟩

/-- the general form: the register is set to `p` (not `text` / `inTableText`), the clause of `p` holds of the stack -/
theorem Inv_setPhase {st : PState} (hs : ST st) (hr : REG st) (p : Option Phase) (h : NTp p)
    (hc : PCL p (P (stackK st))) (hh : ¬ headish p)
    (hsl : p = some .inSelectInTable → SEL (dnsOf st) (stackK st) = true) : Inv { st with phase := p } := by
  have he : effP ({ st with phase := p } : PState) = p := effP_eq_phase (st := { st with phase := p }) h
  have hne : ¬ (({ st with phase := p } : PState).phase = some .text) := h.1
  refine Inv_of_regs (st := st) rfl rfl (ST_of_same (st := st) rfl rfl rfl rfl rfl (Ext.refl _) hs) (REG_setPhase hr p h)
    (fun h => absurd h hne) ?_ (HSH_free (by rw [he]; exact hh)) ?_
  · rw [he]; exact hc
  · rw [he]; intro hp
    rw [if_neg hne]; exact hsl hp

/-- `self.parser.phase = phases[p]` for a `p` other than `text`, `inTableText`, `inForeignContent` and without a
stack clause -/
theorem Pz_setPhase (p : Phase) (h : NTp (some p)) (hf : freeP (some p)) : Pz (setPhase p) :=
  ⟨fun st hs hr => by
    unfold setPhase
    simp only [Tr_modify]
    exact Inv_setPhase hs hr _ h (PCL_free hf _) hf.2.2.2 (fun he => absurd he hf.2.2.1)⟩

theorem Pzn_setPhase (p : Phase) (h : NTp (some p) ∧ NSel (some p)) (hf : freeP (some p)) : Pzn (setPhase p) :=
  ⟨fun st hs hr => by
    unfold setPhase
    simp only [Tr_modify]
    exact ⟨Inv_setPhase hs hr _ h.1 (PCL_free hf _) hf.2.2.2 (fun he => absurd he hf.2.2.1), h.1, h.2, hf.2.2.2⟩⟩

theorem Pn_setPhase (p : Phase) (h : NTp (some p) ∧ NSel (some p)) (hf : freeP (some p)) : Pn (setPhase p) :=
  ⟨fun st hi hn => by
    unfold setPhase
    simp only [Tr_modify]
    exact ⟨Inv_setPhase hi.str hi.reg _ h.1 (PCL_free hf _) hf.2.2.2 (fun he => absurd he hf.2.2.1), h.1, h.2, hf.2.2.2⟩⟩

theorem Pu_setPhase (p : Phase) (h : NTp (some p)) (hf : freeP (some p)) : Pu (setPhase p) :=
  ⟨fun st hi => (Pz_setPhase p h hf).out st hi.str hi.reg⟩

/-- entering `inTableText` from an ordinary phase: the effective phase stays -/
instance Pk_enterInTableText : Pk enterInTableText :=
  ⟨fun st hi hn => by
    unfold enterInTableText
    simp only [Tr_modify]
    have he : effP ({ st with tableTextOriginalPhase := st.phase, phase := some .inTableText } : PState) = effP st := by
      rw [effP_eq_phase hn.1]; rfl
    refine Inv_of_regs (st := st) rfl rfl (ST_of_same (st := st) rfl rfl rfl rfl rfl (Ext.refl _) hi.str)
      ⟨⟨by simp, hi.reg.ph.2.1, hn.1.2.2⟩, by simp, fun _ => hn⟩ (by simp) ?_
      (HSH_free (by rw [he, effP_eq_phase hn.1]; exact hn.2.2)) ?_
    · rw [he]; exact hi.pcl
    · rw [he]; intro hp
      rw [effP_eq_phase hn.1] at hp
      exact absurd hp hn.2.1.2⟩

end H5.Props.C03c
