/-
  Property C03b (parser fuel), tokenizer part — the four state methods that do not fit the `state_pay` pattern
  (`bogusCommentState`: charsUntil + char, always one Comment token, paid by the weight 1 → 0;
  `markupDeclarationOpenState`, `afterDoctypeNameState`: the `for expected in …` loops `matchExpected`;
  `cdataSectionState`: one `invalid-codepoint` error per NUL in the section — each NUL was consumed
  (`cdataLoop_post2`) — plus at most one Characters token).
-/
import H5.Props.C03bTokHelpers
set_option linter.unusedSimpArgs false
namespace H5.Props.C03b
open H5 H5.Gen H5.Model H5.Model.Tokenizer
open H5.Props.C02c

theorem bogusCommentState_pay (s : St) (hs : s.state = .bogusCommentState) :
    Post (bogusCommentState s) (Pay s.input.length (w s.state) s.tokenQueue.length) := by
  obtain ⟨st, input, cur, tb, q, cd⟩ := s
  simp only at hs
  subst hs
  simp only [bogusCommentState, ok, St_charsUntil_eq, Post_ok]
  generalize hX : St.emit _ _ = X
  have hXi : X.input.length ≤ input.length ∧ X.state = .bogusCommentState
      ∧ X.tokenQueue.length = q.length + 1 := by
    subst hX; simp only [St.emit, List.length_drop, List.length_append, List.length_cons, List.length_nil,
      true_and, and_true]; omega
  have h := St_char_snd X
  have hq := St_char_queue X
  generalize X.char = p at h hq ⊢
  obtain ⟨c, s'⟩ := p
  pay_finish

theorem markupDeclarationOpenState_pay (s : St) (hs : s.state = .markupDeclarationOpenState) :
    Post (markupDeclarationOpenState s) (Pay s.input.length (w s.state) s.tokenQueue.length) := by
  obtain ⟨st, input, cur, tb, q, cd⟩ := s
  simp only at hs
  subst hs
  rcases input with _ | ⟨c0, rest⟩
  · state_unfold markupDeclarationOpenState
    pay_loop
    all_goals pay_finish
  · generalize hm1 : matchExpected [[111, 79], [99, 67], [116, 84], [121, 89], [112, 80], [101, 69]] rest = p1
    generalize hm2 : matchExpected [[67], [68], [65], [84], [65], [91]] rest = p2
    obtain ⟨m1, cs1, i1⟩ := p1
    obtain ⟨m2, cs2, i2⟩ := p2
    have e1 := matchExpected_length _ _ _ _ _ hm1
    have e2 := matchExpected_length _ _ _ _ _ hm2
    rcases rest with _ | ⟨c1, r⟩
    all_goals state_unfold markupDeclarationOpenState
    all_goals simp only [hm1, hm2]
    all_goals pay_loop
    all_goals pay_finish

theorem afterDoctypeNameState_pay (s : St) (hs : s.state = .afterDoctypeNameState) :
    Post (afterDoctypeNameState s) (Pay s.input.length (w s.state) s.tokenQueue.length) := by
  obtain ⟨st, input, cur, tb, q, cd⟩ := s
  simp only at hs
  subst hs
  rcases input with _ | ⟨c0, rest⟩
  · state_unfold afterDoctypeNameState
    pay_loop
    all_goals pay_finish
  · generalize hm1 : matchExpected [[117, 85], [98, 66], [108, 76], [105, 73], [99, 67]] rest = p1
    generalize hm2 : matchExpected [[121, 89], [115, 83], [116, 84], [101, 69], [109, 77]] rest = p2
    obtain ⟨m1, cs1, i1⟩ := p1
    obtain ⟨m2, cs2, i2⟩ := p2
    have e1 := matchExpected_length _ _ _ _ _ hm1
    have e2 := matchExpected_length _ _ _ _ _ hm2
    have g1 := getLast_somes_opt cs1
    have g2 := getLast_somes_opt cs2
    state_unfold afterDoctypeNameState
    simp only [hm1, hm2]
    cases hl1 : cs1.getLast? <;> cases hl2 : cs2.getLast? <;> simp only [hl1, hl2] at g1 g2 ⊢
    all_goals pay_loop
    all_goals pay_finish

theorem cdataSectionState_pay (s : St) (hs : s.state = .cdataSectionState) :
    Post (cdataSectionState s) (Pay s.input.length (w s.state) s.tokenQueue.length) := by
  obtain ⟨st, input, cur, tb, q, cd⟩ := s
  simp only at hs
  subst hs
  simp only [cdataSectionState, ok, Post_bind]
  refine Post_mono (cdataLoop_post2 _ _ _ (Nat.lt_succ_self _)) ?_
  rintro ⟨pieces, i⟩ h
  simp only [Post_ok, List.flatten_nil, List.length_nil, Nat.zero_add] at h ⊢
  have hc : List.count Ch.nul pieces.flatten ≤ pieces.flatten.length := List.count_le_length
  have hf := foldl_emit_input (List.replicate (List.count Ch.nul pieces.flatten) (perr "invalid-codepoint"))
    { state := State.cdataSectionState, input := i, currentToken := cur,
      temporaryBuffer := tb, tokenQueue := q, cdataAllowed := cd }
  have hfq := foldl_emit_queue (List.replicate (List.count Ch.nul pieces.flatten) (perr "invalid-codepoint"))
    { state := State.cdataSectionState, input := i, currentToken := cur,
      temporaryBuffer := tb, tokenQueue := q, cdataAllowed := cd }
  simp only [List.length_replicate] at hfq
  generalize List.foldl _ _ _ = s' at hf hfq ⊢
  generalize List.count Ch.nul pieces.flatten = k at *
  repeat' split
  all_goals pay_finish

end H5.Props.C03b
