/-
  C03e — `reprocess_total_partial` of C03d extended to FAMILIES of keyed tags, with the same rank `psi` of the phase
  register (no stack component).

  * C03eRet: `InBodyPhase.endTagP` / `startTagCloseP` never hand their token back.
  * C03eLists (generated, tools/c03e/gen_lists.py): the tag handlers with an `RN` instance.
  * C03eEnd / C03eEndForeign / C03eEndRound / C03eEndTotal: the END tags of `famE` — the keyed end tag names for which, in
    EVERY phase, the handler selected by the dispatch table never hands the token back, is a tail call into
    `inBody`/`inTable`/`inSelect` where it is not handed back, or leaves a register of smaller rank (`okE`, evaluated on
    the generated tables).  The family (62 of the 74 keyed names, `famE_length`): noscript, address, article, aside,
    blockquote, button, center, details, dialog, dir, div, dl, fieldset, figcaption, figure, footer, header, hgroup,
    listing, main, menu, nav, ol, pre, section, summary, ul, form, p, dd, dt, li, h1–h6, a, b, big, code, em, font, i,
    nobr, s, small, strike, strong, tt, u, applet, marquee, object, script, col, colgroup, option, optgroup, select,
    frameset.  NOT in the family (they need the stack component of the measure): head, body, html, br, table, caption,
    tbody, td, tfoot, th, thead, tr.
  * C03eStart / C03eStartRound / C03eStartTotal: the START tags of `famS`, likewise (and not breakout elements of foreign
    content, whose handler pops without changing the register).  The family (42 of the 109 names of `keysS`,
    `famS_length`): noscript, frameset, address, article, aside, details, dir, fieldset, figcaption, figure, footer,
    header, hgroup, main, nav, section, summary, form, plaintext, a, button, applet, marquee, object, xmp, area, wbr,
    param, source, track, image, isindex, iframe, noembed, select, rp, rt, option, optgroup, math, svg, frame.
    NOT in the family: the breakout elements (b, div, p, h1–h6, table, …), the `head` family (title, style, script,
    meta, …: tail calls into `inHead`), html, body, the table family, input, keygen, textarea.
-/
import H5.Props.C03eStartTotal

namespace H5.Props.C03e
open H5 H5.Model H5.Model.TB H5.Props.C03b H5.Props.C03c H5.Props.C03d

theorem famE_length : famE.length = 62 := by decide +kernel

/-- the 12 keyed end tag names outside the family -/
theorem famE_complement : (keysE.eraseDups.filter (fun nm => !famE.contains nm)).length = 12 := by decide +kernel

theorem famS_length : famS.length = 42 := by decide +kernel

/-- a round for an end tag of `famE` decreases the rank of the phase register when it hands the token back -/
theorem C03e_round_rank_famE {n : Nat} (hn : depthBound ≤ n) (tok : Token) (ho : inFamE tok = true) (hNs : NsNone tok)
    (st : PState) (hi : C03c.Inv st) :
    Tr (reprocessRound (mkRec n) tok) st (fun a st' => a = some tok → psi st'.phase < psi st.phase) :=
  round_rankEF hn tok ho hNs st hi

/-- … and for a start tag of `famS` -/
theorem C03e_round_rank_famS {n : Nat} (hn : depthBound ≤ n) (tok : Token) (ho : inFamS tok = true) (hNs : NsNone tok)
    (st : PState) (hi : C03c.Inv st) :
    Tr (reprocessRound (mkRec n) tok) st (fun a st' => a = some tok → psi st'.phase < psi st.phase) :=
  round_rankSF hn tok ho hNs st hi

/-- **`C03e_reprocess_total_partial_famE`**: the reprocess loop for an end tag of `famE` (block, form, `p`, list item,
heading, formatting, applet/marquee/object, select, option, colgroup, frameset … end tags), or a token of C03d -/
theorem C03e_reprocess_total_partial_famE (cfg : Cfg) (hd : depthBound ≤ cfg.dispatchDepth) {st : PState}
    (h : Reach cfg st) (tok : Token) (he : easyTok3 tok = true) (hNs : NsNone tok) (fuel : Nat) (hf : 10 ≤ fuel)
    (site : String) :
    (reprocessLoop (mkRec cfg.dispatchDepth) fuel tok).run st ≠ .error (.outOfFuel site) :=
  reprocess_total_partial_famE cfg hd h tok he hNs fuel hf site

/-- **`C03e_reprocess_total_partial_fam`**: … and for a start tag of `famS` -/
theorem C03e_reprocess_total_partial_fam (cfg : Cfg) (hd : depthBound ≤ cfg.dispatchDepth) {st : PState}
    (h : Reach cfg st) (tok : Token) (he : easyTok4 tok = true) (hNs : NsNone tok) (fuel : Nat) (hf : 10 ≤ fuel)
    (site : String) :
    (reprocessLoop (mkRec cfg.dispatchDepth) fuel tok).run st ≠ .error (.outOfFuel site) :=
  reprocess_total_partial_fam cfg hd h tok he hNs fuel hf site

/-- one tokenizer token — anything but a start tag among the 67 names of `keysS` outside `famS` or an end tag among the
12 names outside `famE` — through the tree builder, in a state reachable by parsing: no exhausted-fuel error of any site -/
theorem C03e_step_total_easy4 (cfg : Cfg) (hd : depthBound ≤ cfg.dispatchDepth) (hf : 10 ≤ cfg.reprocessFuel)
    {st : PState} (h : Reach cfg st) (t : TTok) (hk : easyT4 t = true) (site : String) :
    TB.step cfg st t ≠ .error (.outOfFuel site) :=
  step_total_easy4 cfg hd hf h t hk site

end H5.Props.C03e
