/-
  C03c (reachability invariants of the tree-construction model) — the arena only grows: every arena operation keeps
  the kind (element namespace / name, …) of every existing node (`Ext`), so the names of the open elements are a
  function of their ids that never changes while they are open.
-/
import H5.Props.C03b
set_option linter.unusedSimpArgs false
set_option linter.unusedVariables false
namespace H5.Props.C03c
open H5 H5.Model H5.Model.TB H5.Model.Dom

/-- the kind of node `i`, if it exists -/
def kindAt (a : Arena) (i : NodeId) : Option Kind := (a.nodes[i]?).map (·.kind)

/-- `a'` has all nodes of `a` with the same kinds -/
def Ext (a a' : Arena) : Prop := ∀ i k, kindAt a i = some k → kindAt a' i = some k

theorem Ext.refl (a : Arena) : Ext a a := fun _ _ h => h
theorem Ext.trans {a b c : Arena} (h1 : Ext a b) (h2 : Ext b c) : Ext a c := fun i k h => h2 i k (h1 i k h)

theorem kindAt_lt {a : Arena} {i : NodeId} {k : Kind} (h : kindAt a i = some k) : i < a.nodes.size := by
  unfold kindAt at h
  cases hn : a.nodes[i]? with
  | none => rw [hn] at h; cases h
  | some n => exact (Array.getElem?_eq_some_iff.1 hn).1

theorem Ext_put (a : Arena) (i : NodeId) (n n0 : Node) (h0 : a.nodes[i]? = some n0) (hk : n.kind = n0.kind) :
    Ext a (a.put i n) := by
  intro j k hj
  unfold kindAt Arena.put at *
  by_cases hij : i = j
  · subst hij
    rw [h0] at hj
    have hlt : i < a.nodes.size := (Array.getElem?_eq_some_iff.1 h0).1
    simp only [Array.getElem?_setIfInBounds_self_of_lt hlt, Option.map_some]
    simpa [hk] using hj
  · simp only [Array.getElem?_setIfInBounds_ne hij]
    exact hj

theorem Ext_modify {a a' : Arena} {i : NodeId} {f : Node → Node} (h : a.modify i f = .ok a')
    (hf : ∀ n, (f n).kind = n.kind) : Ext a a' := by
  unfold Arena.modify Arena.get at h
  cases hn : a.nodes[i]? with
  | none => rw [hn] at h; cases h
  | some n =>
    rw [hn] at h
    simp only [bind, Except.bind, pure, Except.pure] at h
    cases h
    exact Ext_put a i (f n) n hn (hf n)

theorem Ext_alloc (a : Arena) (k : Kind) (attrs : Attrs) : Ext a (a.alloc k attrs).1 := by
  intro j kk hj
  have hlt := kindAt_lt hj
  unfold kindAt Arena.alloc at *
  simp only [Array.getElem?_push_lt hlt]
  simpa [Array.getElem?_eq_getElem hlt] using hj

theorem kindAt_alloc (a : Arena) (k : Kind) (attrs : Attrs) : kindAt (a.alloc k attrs).1 a.nodes.size = some k := by
  unfold kindAt Arena.alloc
  simp

/-! ### every arena operation is an extension -/

theorem get_ok {a : Arena} {i : NodeId} {n : Node} (h : a.get i = .ok n) : a.nodes[i]? = some n := by
  unfold Arena.get at h
  cases hn : a.nodes[i]? with
  | none => rw [hn] at h; cases h
  | some m => rw [hn] at h; cases h; rfl

theorem Ext_detach {a a' : Arena} {c : NodeId} (h : a.detach c = .ok a') : Ext a a' := by
  unfold Arena.detach at h
  obtain ⟨cn, _, h⟩ := bind_eq_ok.1 h
  split at h
  · cases h; exact Ext.refl a
  · obtain ⟨a1, h1, h2⟩ := bind_eq_ok.1 h
    exact (Ext_modify h1 (fun _ => rfl)).trans (Ext_modify h2 (fun _ => rfl))

theorem Ext_appendChild {a a' : Arena} {p c : NodeId} (h : a.appendChild p c = .ok a') : Ext a a' := by
  unfold Arena.appendChild at h
  obtain ⟨_, _, h⟩ := bind_eq_ok.1 h
  obtain ⟨a1, h1, h⟩ := bind_eq_ok.1 h
  obtain ⟨a2, h2, h3⟩ := bind_eq_ok.1 h
  exact ((Ext_detach h1).trans (Ext_modify h2 (fun _ => rfl))).trans (Ext_modify h3 (fun _ => rfl))

theorem Ext_insertBefore {a a' : Arena} {p n r : NodeId} (h : a.insertBefore p n r = .ok a') : Ext a a' := by
  unfold Arena.insertBefore at h
  obtain ⟨a1, h1, h⟩ := bind_eq_ok.1 h
  obtain ⟨pn, h2, h⟩ := bind_eq_ok.1 h
  split at h
  · cases h
  · rename_i cs _
    have h' : (a1.put p { pn with children := cs }).modify n (fun n => { n with parent := some p }) = .ok a' := h
    exact ((Ext_detach h1).trans (Ext_put a1 p { pn with children := cs } pn (get_ok h2) rfl)).trans (Ext_modify h' (fun _ => rfl))

theorem Ext_insertText {a a' : Arena} {p : NodeId} {d : Str} {b : Option NodeId} (h : a.insertText p d b = .ok a') :
    Ext a a' := by
  unfold Arena.insertText at h
  dsimp only at h
  split at h
  · exact (Ext_alloc a _ _).trans (Ext_appendChild h)
  · split at h
    · rename_i a2 h2
      cases h
      exact (Ext_alloc a _ _).trans (Ext_insertBefore h2)
    · cases h

theorem Ext_removeChild {a a' : Arena} {p n : NodeId} (h : a.removeChild p n = .ok a') : Ext a a' := by
  unfold Arena.removeChild at h
  obtain ⟨pn, h1, h⟩ := bind_eq_ok.1 h
  split at h
  · have h' : (a.put p { pn with children := pn.children.filter (· != n) }).modify n
        (fun n => { n with parent := none }) = .ok a' := h
    exact (Ext_put a p { pn with children := pn.children.filter (· != n) } pn (get_ok h1) rfl).trans (Ext_modify h' (fun _ => rfl))
  · cases h

theorem Ext_foldlM_modify (f : NodeId → Node → Node) (hf : ∀ c n, (f c n).kind = n.kind) :
    ∀ (l : List NodeId) (a a' : Arena), l.foldlM (fun a c => a.modify c (f c)) a = .ok a' → Ext a a'
  | [], a, a', h => by cases h; exact Ext.refl a
  | c :: l, a, a', h => by
    simp only [List.foldlM_cons] at h
    obtain ⟨a1, h1, h2⟩ := bind_eq_ok.1 h
    exact (Ext_modify h1 (hf c)).trans (Ext_foldlM_modify f hf l a1 a' h2)

theorem Ext_reparentChildren {a a' : Arena} {n p : NodeId} (h : a.reparentChildren n p = .ok a') : Ext a a' := by
  unfold Arena.reparentChildren at h
  obtain ⟨nn, _, h⟩ := bind_eq_ok.1 h
  obtain ⟨_, _, h⟩ := bind_eq_ok.1 h
  obtain ⟨a1, h1, h⟩ := bind_eq_ok.1 h
  obtain ⟨a2, h2, h3⟩ := bind_eq_ok.1 h
  exact ((Ext_foldlM_modify (fun _ cn => { cn with parent := some p }) (fun _ _ => rfl) _ _ _ h1).trans
    (Ext_modify h2 (fun _ => rfl))).trans (Ext_modify h3 (fun _ => rfl))

theorem Ext_cloneNode {a a' : Arena} {n c : NodeId} (h : a.cloneNode n = .ok (a', c)) :
    Ext a a' ∧ c = a.nodes.size ∧ kindAt a' c = kindAt a n := by
  unfold Arena.cloneNode at h
  obtain ⟨nn, h1, h⟩ := bind_eq_ok.1 h
  cases h
  refine ⟨Ext_alloc a _ _, rfl, ?_⟩
  show kindAt (a.alloc nn.kind nn.attrs).1 a.nodes.size = _
  rw [kindAt_alloc]
  unfold kindAt
  rw [get_ok h1]; rfl

theorem Ext_setAttr {a a' : Arena} {i : NodeId} {k : AttrKey} {v : Str} (h : a.setAttr i k v = .ok a') : Ext a a' :=
  Ext_modify h (fun _ => rfl)

end H5.Props.C03c
