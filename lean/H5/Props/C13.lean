/-
  Property C13 — the optional-tags filter removes only tags HTML allows to be omitted.
  Theorems are about `H5.Gen.OptionalTags` (translated from /repo on every run) and the
  hand model of the loop (`H5.Model.OptionalTags`, tied by correspondence op `optfilter`).
-/
import H5.Model.OptionalTags
import H5.Proofs.ExceptLemmas
import H5.Spec.OptionalTags
namespace H5.Props.C13
open H5 H5.Gen H5.Model.OptionalTags

/-- html head body colgroup tbody -/
def startNames : List Str :=
  [[104, 116, 109, 108], [104, 101, 97, 100], [98, 111, 100, 121],
   [99, 111, 108, 103, 114, 111, 117, 112], [116, 98, 111, 100, 121]]

/-- html head body li dt dd p rt rp optgroup option colgroup thead tbody tfoot tr td th -/
def endNames : List Str :=
  [[104,116,109,108],[104,101,97,100],[98,111,100,121],[108,105],[100,116],[100,100],[112],
   [114,116],[114,112],[111,112,116,103,114,111,117,112],[111,112,116,105,111,110],
   [99,111,108,103,114,111,117,112],[116,104,101,97,100],[116,98,111,100,121],
   [116,102,111,111,116],[116,114],[116,100],[116,104]]

/-- The rule functions never raise, whatever the neighbouring tokens are. -/
theorem C13_start_total (n : Str) (p x : Option Tok) : ∃ b, isOptionalStart n p x = .ok b := by
  rw [exists_ok_iff]
  unfold isOptionalStart
  rcases x with _ | x
  · simp [otokType, isOk_ite]
  · rcases p with _ | p
    · cases x <;> simp [otokType, otokName, Tok.typeName, Tok.nameE, isOk_ite]
    · cases x <;> cases p <;>
        simp [otokType, otokName, otokTypeE, Tok.typeName, Tok.nameE, isOk_ite]

theorem C13_end_total (n : Str) (x : Option Tok) : ∃ b, isOptionalEnd n x = .ok b := by
  rw [exists_ok_iff]
  unfold isOptionalEnd
  rcases x with _ | x
  · simp [otokType, isOk_ite]
  · cases x <;> simp [otokType, otokName, Tok.typeName, Tok.nameE, isOk_ite]

/-- A start tag is only ever declared omissible for the five element names. For **all** names. -/
theorem C13_start_names (n : Str) (p x : Option Tok) :
    isOptionalStart n p x = .ok true → n ∈ startNames := by
  intro h
  by_cases hn : n ∈ startNames
  · exact hn
  · exfalso
    simp [startNames] at hn
    simp [isOptionalStart, hn] at h

theorem C13_end_names (n : Str) (x : Option Tok) :
    isOptionalEnd n x = .ok true → n ∈ endNames := by
  intro h
  by_cases hn : n ∈ endNames
  · exact hn
  · exfalso
    simp [endNames] at hn
    simp [isOptionalEnd, hn] at h

/-- `out` is obtained from `ts` by deleting only tokens satisfying `P` (order kept). -/
inductive DelOnly (P : Tok → Prop) : List Tok → List Tok → Prop
  | nil : DelOnly P [] []
  | keep (t : Tok) {ts out : List Tok} : DelOnly P ts out → DelOnly P (t :: ts) (t :: out)
  | drop (t : Tok) {ts out : List Tok} : P t → DelOnly P ts out → DelOnly P (t :: ts) out

/-- attribute-less start tag of html/head/body/colgroup/tbody, or end tag of one of the 18 -/
def Removable : Tok → Prop
  | .startTag _ n attrs => attrs = [] ∧ n ∈ startNames
  | .endTag _ n => n ∈ endNames
  | _ => False

theorem keep_total (p : Option Tok) (t : Tok) (x : Option Tok) : ∃ b, keep p t x = .ok b := by
  cases t <;> simp [keep]
  case startTag ns n attrs =>
    obtain ⟨b, hb⟩ := C13_start_total n p x
    cases attrs <;> simp [keep, hb]
  case endTag ns n =>
    obtain ⟨b, hb⟩ := C13_end_total n x
    simp [hb]

theorem keep_false_removable (p : Option Tok) (t : Tok) (x : Option Tok) :
    keep p t x = .ok false → Removable t := by
  intro h
  cases t <;> simp [keep] at h
  case startTag ns n attrs =>
    obtain ⟨b, hb⟩ := C13_start_total n p x
    cases attrs with
    | nil =>
      simp [keep, hb] at h
      subst h
      exact ⟨rfl, C13_start_names n p x hb⟩
    | cons a as => simp [keep] at h
  case endTag ns n =>
    obtain ⟨b, hb⟩ := C13_end_total n x
    rw [hb] at h
    simp at h
    subst h
    exact C13_end_names n x hb

theorem slider_map (p : Option Tok) (ts : List Tok) : (sliderFrom p ts).map (·.2.1) = ts := by
  induction ts generalizing p with
  | nil => rfl
  | cons t rest ih =>
    cases rest with
    | nil => rfl
    | cons u rest => simp [sliderFrom, ih]

theorem filterW_delOnly (ws : List (Option Tok × Tok × Option Tok)) (out : List Tok) :
    filterW ws = .ok out → DelOnly Removable (ws.map (·.2.1)) out := by
  induction ws generalizing out with
  | nil => intro h; simp [filterW] at h; subst h; exact .nil
  | cons w rest ih =>
    obtain ⟨p, t, x⟩ := w
    intro h
    simp only [filterW] at h
    obtain ⟨k, hk⟩ := keep_total p t x
    rw [hk] at h
    simp at h
    cases hr : filterW rest with
    | error e => rw [hr] at h; simp at h
    | ok out' =>
      rw [hr] at h; simp at h
      subst h
      cases k with
      | true => exact .keep t (ih out' hr)
      | false => exact .drop t (keep_false_removable p t x hk) (ih out' hr)

/-- **C13 (removal clause).** The filter only ever removes tokens; every removed token is an
attribute-less start tag or an end tag of an element in the allowed name lists; everything
else passes through unchanged and in order. -/
theorem C13_only_removes (ts out : List Tok) :
    filter ts = .ok out → DelOnly Removable ts out := by
  intro h
  have := filterW_delOnly (slider ts) out h
  rwa [slider, slider_map] at this

theorem delOnly_sublist {P : Tok → Prop} {ts out : List Tok} (h : DelOnly P ts out) : out.Sublist ts := by
  induction h with
  | nil => exact .slnil
  | keep t _ ih => exact .cons_cons t ih
  | drop t _ _ ih => exact .cons t ih

theorem C13_sublist (ts out : List Tok) : filter ts = .ok out → out.Sublist ts :=
  fun h => delOnly_sublist (C13_only_removes ts out h)

/-- The filter itself never raises. -/
theorem C13_total (ts : List Tok) : ∃ out, filter ts = .ok out := by
  unfold filter
  generalize slider ts = ws
  induction ws with
  | nil => exact ⟨[], rfl⟩
  | cons w rest ih =>
    obtain ⟨p, t, x⟩ := w
    obtain ⟨k, hk⟩ := keep_total p t x
    obtain ⟨o, ho⟩ := ih
    exact ⟨if k then t :: o else o, by simp [filterW, hk, ho]⟩


/-! ### position clause: the rules agree with the HTML syntax's "optional tags" section -/

open H5.Spec.OptionalTags in
/-- deviations of the pinned rules from the 2020 syntax that are recorded as findings (each a specific window) -/
def knownDevEnd (n : Str) (x : Option Tok) : Bool :=
  (n = [112] && nextStartIn x [[100, 97, 116, 97, 103, 114, 105, 100], [100, 105, 97, 108, 111, 103], [100, 105, 114]]) ||
  (n = [116, 102, 111, 111, 116] && (match x with | some (.startTag _ m _) => m = [116, 98, 111, 100, 121] | _ => false))

/-- no recorded deviation is left for start tags (the `<body>` before meta/link/template window was repaired in /repo,
commit 4b13a1b) -/
def knownDevStart (_n : Str) (_x : Option Tok) : Bool := false

open H5.Spec.OptionalTags in
/-- **C13 (position, end tags).** whenever the rule function allows an end tag to be omitted, the HTML syntax allows
it in that position — except in the recorded windows `knownDevEnd`. For every name and every next token. -/
theorem C13_position_end (n : Str) (x : Option Tok) (h : isOptionalEnd n x = .ok true) :
    mayOmitEnd n x = true ∨ knownDevEnd n x = true := by
  have hn := C13_end_names n x h
  simp only [endNames, List.mem_cons, List.not_mem_nil, or_false] at hn
  rcases hn with rfl | rfl | rfl | rfl | rfl | rfl | rfl | rfl | rfl | rfl | rfl | rfl | rfl | rfl | rfl | rfl | rfl | rfl <;>
    (rcases x with _ | x
     · revert h; decide
     · cases x <;>
         simp [isOptionalEnd, mayOmitEnd, knownDevEnd, otokType, otokName, Tok.typeName, Tok.nameE, nextStartIn,
           nextIsComment, nextIsSpaceOrComment, noMoreContent, parentAllowsPOmission, pFollowers] at h ⊢ <;>
         (try (rcases h with h | h | h | h | h | h | h | h | h | h | h | h | h | h | h | h | h | h | h | h | h | h | h | h | h | h | h | h <;> simp [h])) <;>
         (try simp_all) <;> (try grind))

open H5.Spec.OptionalTags in
/-- **C13 (position, start tags).** -/
theorem C13_position_start (n : Str) (p x : Option Tok) (h : isOptionalStart n p x = .ok true) :
    mayOmitStart n x = true ∨ knownDevStart n x = true := by
  have hn := C13_start_names n p x h
  simp only [startNames, List.mem_cons, List.not_mem_nil, or_false] at hn
  rcases hn with rfl | rfl | rfl | rfl | rfl <;>
    (rcases x with _ | x
     · revert h; simp [isOptionalStart, mayOmitStart, otokType, nextIsComment, nextIsElement, noMoreContent,
         nextIsSpaceOrComment, nextStartIn]
     · cases x <;>
         simp [isOptionalStart, mayOmitStart, knownDevStart, otokType, otokName, Tok.typeName, Tok.nameE, nextStartIn,
           nextIsComment, nextIsElement, nextIsSpaceOrComment, noMoreContent] at h ⊢ <;>
         (try simp_all) <;> (try grind) <;>
         (rcases p with _ | pt
          · simp at h; exact h
          · cases pt <;> simp [otokTypeE, Tok.typeName] at h <;> first | exact h | (split at h <;> simp_all)))

/-- non-vacuity: a concrete stream on which tokens are removed and kept -/
example : filter [.startTag none [104,116,109,108] [], .startTag none [112] [], .chars [120],
                  .endTag none [112], .endTag none [104,116,109,108]]
          = .ok [.startTag none [112] [], .chars [120]] := by decide

end H5.Props.C13
