/-
  C03c — the static checks on the GENERATED dispatch tables (by kernel evaluation): the handlers that a phase can
  select only need what is known about the state when that phase is entered (`entryK ph ≤ hkOf handler`), the facts on
  the tag name that their lemmas need hold of the names they are selected for (`factsOf`), and the special entry points
  of `RecInv` only reach handlers with the right kind of lemma.
-/
import H5.Props.C03cDispatch
set_option linter.unusedSimpArgs false
set_option linter.unusedVariables false
namespace H5.Props.C03c
open H5 H5.Model H5.Model.TB H5.Model.Dom
open H5.Props.C03b

/-- start tags: every handler selectable in phase `ph` accepts the states of `entryK ph` -/
theorem gK_S : ∀ ph ∈ Phase.all, ∀ h ∈ otherCands Gen.startTagHandlers ph [], (entryK ph).le (hkOf h) = true := by
  decide +kernel

theorem gK_E : ∀ ph ∈ Phase.all, ∀ h ∈ otherCands Gen.endTagHandlers ph [], (entryK ph).le (hkOf h) = true := by
  decide +kernel

def methods7 : List String := ["processStartTag", "processEndTag", "processCharacters", "processSpaceCharacters",
  "processComment", "processDoctype", "processEOF"]

/-- the method `m` of phase `ph`, when it is not a generic one, accepts the states of `entryK ph` -/
def plainK (ph : Phase) (m : String) : Bool :=
  match resolveMethod ph m with
  | .ok q => q == "Phase.processStartTag" || q == "Phase.processEndTag" || q == "InBodyPhase.<slot>" ||
      ((entryK ph).le (hkOf q) && (factsOf q).isEmpty && q != "InBodyPhase.endTagOther")
  | .error _ => true

theorem gK_plain : ∀ ph ∈ Phase.all, ∀ m ∈ methods7, plainK ph m = true := by decide +kernel

def eofK (ph : Phase) : Bool :=
  match resolveMethod ph "processEOF" with
  | .ok q => (entryK ph).le (hkOf q) && (factsOf q).isEmpty && q != "InBodyPhase.endTagOther"
  | .error _ => true

theorem gK_eof : ∀ ph ∈ Phase.all, eofK ph = true := by decide +kernel

/-- the slot `InBodyPhase.processSpaceCharacters` -/
theorem gK_slot : ∀ ph ∈ Phase.all, ∀ m ∈ methods7, resolveMethod ph m = .ok "InBodyPhase.<slot>" →
    (entryK ph).le .nt = true := by decide +kernel

/-! ### names -/

def itemsOf (tbl : List (String × (List (Str × String) × Option String))) (ph : Phase) : List (Str × String) :=
  match ph.className with
  | .ok cls => match tbl.find? (fun p => p.1 == cls) with
    | some (_, (items, _)) => items
    | none => []
  | .error _ => []

def dfltOf (tbl : List (String × (List (Str × String) × Option String))) (ph : Phase) : Option String :=
  match ph.className with
  | .ok cls => match tbl.find? (fun p => p.1 == cls) with
    | some (_, (_, d)) => d
    | none => none
  | .error _ => none

theorem lookup_item {tbl attr ph nm h} (hl : lookupHandler tbl attr ph nm = .ok h) :
    (nm, h) ∈ itemsOf tbl ph ∨ (dfltOf tbl ph = some h ∧ ∀ it ∈ itemsOf tbl ph, (it.1 == nm) = false) := by
  unfold lookupHandler at hl
  unfold itemsOf dfltOf
  cases hc : ph.className with
  | error e => rw [hc] at hl; cases hl
  | ok cls =>
    rw [hc] at hl
    simp only [bind, Except.bind] at hl
    dsimp only
    split at hl
    · cases hl
    · rename_i items dflt hfind
      rw [hfind]
      dsimp only
      split at hl
      · rename_i k hd hf
        cases hl
        have hmem := List.mem_of_find?_eq_some hf
        have hk := List.find?_some hf
        simp only [beq_iff_eq] at hk
        left; rw [← hk]; exact hmem
      · rename_i hnone
        split at hl
        · cases hl
          right
          refine ⟨rfl, ?_⟩
          intro it hit
          have := List.find?_eq_none.1 hnone it hit
          simpa using this
        · cases hl

/-- a negative fact holds of every name that is not a key of the table -/
def dfltOK (f : Fk) (items : List (Str × String)) : Bool :=
  match f.neg with
  | some l => l.all (fun x => items.any (fun it => it.1 == x))
  | none => false

theorem dfltOK_spec {f : Fk} {items : List (Str × String)} {nm : Str} (h : dfltOK f items = true)
    (hn : ∀ it ∈ items, (it.1 == nm) = false) : f.ok nm = true := by
  unfold dfltOK at h
  split at h
  · rename_i l hl
    refine Fk.ok_of_neg hl ?_
    cases hc : l.contains nm with
    | false => rfl
    | true =>
      exfalso
      have hm : nm ∈ l := by simpa using hc
      have := List.all_eq_true.1 h nm hm
      obtain ⟨it, hit, he⟩ := List.any_eq_true.1 this
      rw [hn it hit] at he; cases he
  · cases h

/-- the facts that the lemma of a handler needs hold of the names it is listed under; a default handler only needs
negative facts, excluding names that are keys -/
theorem gF_S : ∀ ph ∈ Phase.all,
    (∀ it ∈ itemsOf Gen.startTagHandlers ph, ∀ f ∈ factsOf it.2, f.ok it.1 = true) ∧
    (∀ h, dfltOf Gen.startTagHandlers ph = some h → ∀ f ∈ factsOf h, dfltOK f (itemsOf Gen.startTagHandlers ph) = true) := by
  decide +kernel

theorem gF_E : ∀ ph ∈ Phase.all,
    (∀ it ∈ itemsOf Gen.endTagHandlers ph, ∀ f ∈ factsOf it.2, f.ok it.1 = true) ∧
    (∀ h, dfltOf Gen.endTagHandlers ph = some h → ∀ f ∈ factsOf h, dfltOK f (itemsOf Gen.endTagHandlers ph) = true) := by
  decide +kernel

theorem facts_of_lookup_S {ph nm h} (hl : lookupHandler Gen.startTagHandlers "startTagHandler" ph nm = .ok h) :
    ∀ f ∈ factsOf h, f.ok nm = true := by
  intro f hf
  obtain ⟨g1, g2⟩ := gF_S ph (Phase.mem_all ph)
  rcases lookup_item hl with hi | ⟨hd, hn⟩
  · exact g1 (nm, h) hi f hf
  · exact dfltOK_spec (g2 h hd f hf) hn

theorem facts_of_lookup_E {ph nm h} (hl : lookupHandler Gen.endTagHandlers "endTagHandler" ph nm = .ok h) :
    ∀ f ∈ factsOf h, f.ok nm = true := by
  intro f hf
  obtain ⟨g1, g2⟩ := gF_E ph (Phase.mem_all ph)
  rcases lookup_item hl with hi | ⟨hd, hn⟩
  · exact g1 (nm, h) hi f hf
  · exact dfltOK_spec (g2 h hd f hf) hn

/-- `InBodyPhase.endTagOther` is only the end tag handler of `InBodyPhase` -/
theorem gCE_E : ∀ ph ∈ Phase.all, "InBodyPhase.endTagOther" ∈ otherCands Gen.endTagHandlers ph [] → ph = .inBody := by
  decide +kernel
theorem gCE_S : ∀ ph ∈ Phase.all, "InBodyPhase.endTagOther" ∉ otherCands Gen.startTagHandlers ph [] := by
  decide +kernel

/-! ### the special entry points -/

/-- `<html>` in `InBodyPhase`: from any state -/
theorem gK_html : ∀ h ∈ exactCand Gen.startTagHandlers "startTagHandler" .inBody nmHtml,
    hkOf h = .any ∧ factsOf h = [] ∧ h ≠ "InBodyPhase.endTagOther" := by decide +kernel

/-- the start tags handed to `InHeadPhase` -/
theorem gK_headLeaf : ∀ nm ∈ headLeaf, ∀ h ∈ exactCand Gen.startTagHandlers "startTagHandler" .inHead nm,
    PreK.le .ntp (hkOf h) = true ∧ (∀ f ∈ factsOf h, f.ok nm = true) ∧ h ∈ fhList ∧ h ≠ "InBodyPhase.endTagOther" := by
  decide +kernel

/-- comments and space characters handed to `InHeadPhase` -/
theorem gK_cmHead : resolveMethod .inHead "processComment" = .ok "Phase.processComment" ∧
    hkOf "Phase.processComment" = .any ∧ factsOf "Phase.processComment" = [] := by decide +kernel
theorem gK_spHead : resolveMethod .inHead "processSpaceCharacters" = .ok "Phase.processSpaceCharacters" ∧
    hkOf "Phase.processSpaceCharacters" = .any ∧ factsOf "Phase.processSpaceCharacters" = [] := by decide +kernel

/-- `InBodyPhase.processCharacters` -/
theorem gK_chBody : resolveMethod .inBody "processCharacters" = .ok "InBodyPhase.processCharacters" := by decide

/-- an ordinary phase, as a Boolean -/
def ntPhase (ph : Phase) : Bool :=
  ph != .text && ph != .inTableText && ph != .inForeignContent && ph != .inSelect && ph != .inSelectInTable &&
    ph != .inHead && ph != .inHeadNoscript && ph != .afterHead

theorem ntPhase_of_NT {st : PState} {ph : Phase} (hn : NT st) (hp : st.phase = some ph) : ntPhase ph = true := by
  unfold NT NTp NSel headish at hn
  rw [hp] at hn
  cases ph <;> simp_all [ntPhase]

/-- the implied end tags `li`, `dd`, `dt`, `p`, `option` in an ordinary phase: handlers that stay in the ordinary
phases -/
def enCurOK (ph : Phase) : Bool :=
  match resolveMethod ph "processEndTag" with
  | .ok q =>
    if q == "Phase.processEndTag" then
      impliedNames.all (fun nm => (exactCand Gen.endTagHandlers "endTagHandler" ph nm).all (fun h =>
        pnList.contains h && (factsPn h).all (fun f => f.ok nm)))
    else pnList.contains q && (factsPn q).isEmpty && q != "InBodyPhase.endTagOther" && q != "Phase.processStartTag" &&
      q != "InBodyPhase.<slot>"
  | .error _ => true

theorem gPn_enCur : ∀ ph ∈ Phase.all, ntPhase ph = true → enCurOK ph = true := by decide +kernel

/-- all end tag handlers of `InBodyPhase` stay in the ordinary phases (for unprotected names) -/
theorem gPn_enBody : ∀ h ∈ otherCands Gen.endTagHandlers .inBody [], h ∈ pnList ∧ factsPn h = factsOf h := by
  decide +kernel

/-- its start tag handlers for `html`, `img`, `form`, `hr`, `label`, `input` too -/
theorem gPn_snBody : ∀ nm ∈ leafInBody, ∀ h ∈ exactCand Gen.startTagHandlers "startTagHandler" .inBody nm,
    h ∈ pnList ∧ (∀ f ∈ factsPn h, f.ok nm = true) ∧ h ≠ "InBodyPhase.endTagOther" := by decide +kernel

theorem gRes_S_inBody : resolveMethod .inBody "processStartTag" = .ok "Phase.processStartTag" := by decide
theorem gRes_E_inBody : resolveMethod .inBody "processEndTag" = .ok "Phase.processEndTag" := by decide
theorem gRes_S_inHead : resolveMethod .inHead "processStartTag" = .ok "Phase.processStartTag" := by decide

end H5.Props.C03c
