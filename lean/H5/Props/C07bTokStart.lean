/-
  Property C07b (tokenizer side), stage 3 — one attribute, the attribute list, the start tag.
-/
import H5.Props.C07bTokAttr
set_option linter.unusedSimpArgs false
namespace H5.Props.C07b
open H5 H5.Gen H5.Model H5.Model.Tokenizer
open H5.Model.Serializer (escape Opts attrOut)
open H5.Spec.Tokenizer (isWhitespace isASCIILowerAlpha isASCIIUpperAlpha)
open H5.Props.C08c

/-- the attributes as the tokenizer yields them -/
def pairs (l : List Attr) : List (Str × Str) := l.map fun a => (a.name, a.value)

theorem pairs_append (a b : List Attr) : pairs (a ++ b) = pairs a ++ pairs b := by simp [pairs]

theorem pairs_names (l : List Attr) : (pairs l).map (·.1) = l.map (·.name) := by simp [pairs]

theorem attrNameOK_spec {n : Str} (h : attrNameOK n = true) :
    ∃ c nr, n = c :: nr ∧ attrNameChar c = true ∧ nr.all attrNameChar = true ∧ ∀ x ∈ n, isASCIIUpperAlpha x = false := by
  simp only [attrNameOK, Bool.and_eq_true, Bool.not_eq_true', List.isEmpty_eq_false_iff] at h
  cases n with
  | nil => exact absurd rfl h.1
  | cons c nr =>
    have h2 := h.2
    simp only [List.all_cons, Bool.and_eq_true] at h2
    refine ⟨c, nr, rfl, h2.1, h2.2, ?_⟩
    intro x hx
    have := List.all_eq_true.mp h.2 x hx
    simp [attrNameChar] at this
    simp [this]

theorem attrOK_parts {name : Str} {a : Attr} (h : attrOK {} name a = true) :
    attrNameOK a.name = true ∧ valueOK a.value = true ∧ (minimized {} name a = true → a.value = []) := by
  simp only [attrOK, Bool.and_eq_true, Bool.or_eq_true, Bool.not_eq_true', List.isEmpty_iff] at h
  refine ⟨h.1.1, h.1.2, ?_⟩
  intro hm
  rcases h.2 with h' | h'
  · rw [hm] at h'; cases h'
  · exact h'

theorem nodup_last {d0 : List Attr} {b : Attr} (h : ((d0 ++ [b]).map (·.name)).Nodup) : ∀ x ∈ pairs d0, x.1 ≠ b.name := by
  intro x hx e
  rw [List.map_append, List.nodup_append] at h
  simp only [pairs, List.mem_map] at hx
  obtain ⟨y, hy, rfl⟩ := hx
  exact h.2.2 y.name (List.mem_map_of_mem hy) b.name (by simp) e

theorem escUnq_len (c : Nat) : 1 ≤ (escUnq c).length := by
  unfold escUnq; split <;> simp

theorem escAttr_len (q c : Nat) : 1 ≤ (escAttr false q c).length := by
  unfold escAttr; split
  · simp
  · split
    · simp
    · split
      · split <;> simp
      · split <;> simp

section
variable (name : Str) (tb : Option Str) (cd : Bool)

/-- an attribute (or the tag name) has just ended -/
def Btw (S : State) (done : List Attr) : Prop := isAfter S ∨ (S = .attributeNameState ∧ done ≠ [])

/-- the unquoted value after `=` -/
theorem steps_unq_value (pre : List (Str × Str)) (n : Str) (rest : Str) (hrest : ∃ x t, rest = x :: t ∧ (x = 32 ∨ x = 62))
    (v : Str) (hne : v ≠ []) (hv : ∀ c ∈ v, c ≠ 0 ∧ inRanges quoteAttributeSpec c = false) :
    StepsLe (1 + v.length) (tst name tb cd .beforeAttributeValueState (v.flatMap escUnq ++ rest) (pre ++ [(n, [])]))
      (tst name tb cd .attributeValueUnQuotedState rest (pre ++ [(n, v)])) := by
  cases v with
  | nil => exact absurd rfl hne
  | cons c v' =>
    by_cases h38 : c = 38
    · subst h38
      have s1 := StepsLe.single rfl (step_beforeValue_amp name tb cd
        ([97, 109, 112, 59] ++ v'.flatMap escUnq ++ rest) (pre ++ [(n, [])]))
      have s2 := steps_unq name tb cd pre n rest hrest (38 :: v') hv []
      simp only [List.flatMap_cons, escUnq, if_true, List.cons_append, List.nil_append, List.append_assoc] at s1 s2 ⊢
      exact s1.trans s2
    · have hc := hv c (by simp)
      have s1 := StepsLe.single rfl (step_beforeValue_char name tb cd c ⟨hc.1, h38, hc.2⟩ (v'.flatMap escUnq ++ rest) pre n [])
      have s2 := steps_unq name tb cd pre n rest hrest v' (fun x hx => hv x (List.mem_cons_of_mem _ hx)) [c]
      have := s1.trans s2
      simp only [List.flatMap_cons, escUnq, h38, if_false, List.cons_append, List.nil_append, List.append_assoc] at this ⊢
      exact this.mono (by simp)

/-- **one attribute** as the default serializer writes it -/
theorem steps_attr (done : List Attr) (a : Attr) (S : State) (hS : Btw S done)
    (hok : ∀ x ∈ done ++ [a], attrOK {} name x = true) (hnd : ((done ++ [a]).map (·.name)).Nodup)
    (rest : Str) (hrest : ∃ x t, rest = x :: t ∧ (x = 32 ∨ x = 62)) :
    ∃ S', Btw S' (done ++ [a]) ∧
      StepsLe (2 * (attrOut {} name a).1.length) (tst name tb cd S ((attrOut {} name a).1 ++ rest) (pairs done))
        (tst name tb cd S' rest (pairs (done ++ [a]))) := by
  obtain ⟨hname, hval, hminv⟩ := attrOK_parts (hok a (by simp))
  obtain ⟨c, nr, hn, hc, hnr, hup⟩ := attrNameOK_spec hname
  have hnew : ∀ x ∈ pairs done, x.1 ≠ a.name := nodup_last hnd
  have hrest3 : ∃ x t, rest = x :: t ∧ (x = 61 ∨ x = 32 ∨ x = 62) := by
    obtain ⟨x, t, e, h⟩ := hrest
    exact ⟨x, t, e, Or.inr h⟩
  -- the space before the attribute
  have sp : ∀ i, ∃ S1, (S1 = .beforeAttributeNameState ∨ S1 = .afterAttributeNameState) ∧
      StepsLe 1 (tst name tb cd S (32 :: i) (pairs done)) (tst name tb cd S1 i (pairs done)) := by
    intro i
    rcases hS with h | ⟨rfl, hne⟩
    · exact ⟨_, Or.inl rfl, StepsLe.single rfl (step_after_space name tb cd S h i _)⟩
    · rcases List.eq_nil_or_concat done with h | ⟨d0, b, h⟩
      · exact absurd h hne
      · rw [List.concat_eq_append] at h
        subst h
        have hb := attrOK_parts (hok b (by simp))
        obtain ⟨_, _, _, _, _, hbup⟩ := attrNameOK_spec hb.1
        have hnd0 : ((d0 ++ [b]).map (·.name)).Nodup := by
          rw [List.map_append] at hnd
          exact (List.nodup_append.mp hnd).1
        refine ⟨_, Or.inr rfl, StepsLe.single rfl ?_⟩
        rw [pairs_append]
        exact step_attrName_space name tb cd i (pairs d0) b.name b.value hbup (nodup_last hnd0)
  -- space, first character, rest of the name
  have nm : ∀ tail, (∃ x t, tail = x :: t ∧ (x = 61 ∨ x = 32 ∨ x = 62)) →
      StepsLe (2 + nr.length) (tst name tb cd S (32 :: a.name ++ tail) (pairs done))
        (tst name tb cd .attributeNameState tail (pairs done ++ [(a.name, [])])) := by
    intro tail htail
    obtain ⟨S1, hS1, s1⟩ := sp (a.name ++ tail)
    rw [hn] at s1 ⊢
    have s2 := StepsLe.single rfl (step_attr_start name tb cd S1 hS1 c hc (nr ++ tail) (pairs done))
    have s3 := steps_attrName name tb cd (pairs done) tail htail nr hnr [c]
    have := (s1.trans s2).trans s3
    simp only [List.cons_append, List.nil_append] at this ⊢
    exact this.mono (by omega)
  rw [pairs_append]
  cases hmin : minimized {} name a with
  | true =>
    rw [attrOut_minimized {} name a hmin]
    have hv := hminv hmin
    refine ⟨.attributeNameState, Or.inr ⟨rfl, by simp⟩, ?_⟩
    have := nm rest hrest3
    simp only [pairs, List.map_cons, List.map_nil, hv, List.cons_append, List.nil_append, List.append_assoc] at this ⊢
    exact this.mono (by rw [hn]; simp only [List.length_append, List.length_cons, List.length_nil]; omega)
  | false =>
    cases hq : quotes {} a.value with
    | false =>
      rw [attrOut_unquoted {} name a hmin hq]
      obtain ⟨hcls, hne, _⟩ := quotes_false {} a.value hq
      have hv0 := valueOK_spec hval
      refine ⟨.attributeValueUnQuotedState, Or.inl (Or.inr (Or.inl rfl)), ?_⟩
      have e : unquotedBody a.value = a.value.flatMap escUnq := rfl
      rw [e]
      have s1 := nm (61 :: (a.value.flatMap escUnq ++ rest)) ⟨61, _, rfl, Or.inl rfl⟩
      have s2 := StepsLe.single rfl (step_attrName_eq name tb cd (a.value.flatMap escUnq ++ rest) (pairs done) a.name [] hup hnew)
      have s3 := steps_unq_value name tb cd (pairs done) a.name rest hrest a.value hne
        (fun x hx => ⟨(hv0 x hx).1, hcls x hx⟩)
      have := (s1.trans s2).trans s3
      have hl := length_le_flatMap escUnq escUnq_len a.value
      simp only [pairs, List.map_cons, List.map_nil, List.cons_append, List.nil_append, List.append_assoc] at this ⊢
      exact this.mono (by rw [hn]; simp only [List.length_append, List.length_cons, List.length_nil]; omega)
    | true =>
      rw [attrOut_quoted {} name a hmin hq]
      have hqq := chooseQuote_ok {} a.value (by decide)
      have hv0 := valueOK_spec hval
      refine ⟨.afterAttributeValueState, Or.inl (Or.inr (Or.inr rfl)), ?_⟩
      have e : quotedBody {} a.value = a.value.flatMap (escAttr false (chooseQuote {} a.value)) := rfl
      rw [e]
      generalize chooseQuote {} a.value = q at hqq ⊢
      have s1 := nm (61 :: q :: (a.value.flatMap (escAttr false q) ++ q :: rest)) ⟨61, _, rfl, Or.inl rfl⟩
      have s2 := StepsLe.single rfl (step_attrName_eq name tb cd (q :: (a.value.flatMap (escAttr false q) ++ q :: rest))
        (pairs done) a.name [] hup hnew)
      have s3 := StepsLe.single rfl (step_beforeValue_quote name tb cd q hqq (a.value.flatMap (escAttr false q) ++ q :: rest)
        (pairs done ++ [(a.name, [])]))
      have s4 := steps_quoted name tb cd q hqq (pairs done) a.name rest a.value (fun x hx => (hv0 x hx).1) []
      have s5 := StepsLe.single rfl (step_q_close name tb cd q hqq rest (pairs done ++ [(a.name, [] ++ a.value)]))
      have := (((s1.trans s2).trans s3).trans s4).trans s5
      have hl := length_le_flatMap (escAttr false q) (escAttr_len q) a.value
      simp only [pairs, List.map_cons, List.map_nil, List.cons_append, List.nil_append, List.append_assoc] at this ⊢
      exact this.mono (by rw [hn]; simp only [List.length_append, List.length_cons, List.length_nil]; omega)

theorem attrOut_head (a : Attr) : ∃ t, (attrOut {} name a).1 = 32 :: t := by
  cases hmin : minimized {} name a with
  | true => rw [attrOut_minimized {} name a hmin]; exact ⟨_, rfl⟩
  | false =>
    cases hq : quotes {} a.value with
    | false => rw [attrOut_unquoted {} name a hmin hq]; exact ⟨_, rfl⟩
    | true => rw [attrOut_quoted {} name a hmin hq]; exact ⟨_, rfl⟩

theorem attrsText_head (todo : List Attr) (r : Str) :
    ∃ x t, attrsText {} name todo ++ 62 :: r = x :: t ∧ (x = 32 ∨ x = 62) := by
  cases todo with
  | nil => exact ⟨62, r, rfl, Or.inr rfl⟩
  | cons a todo =>
    obtain ⟨t, e⟩ := attrOut_head name a
    refine ⟨32, t ++ attrsText {} name todo ++ 62 :: r, ?_, Or.inl rfl⟩
    simp [attrsText, e]

/-- **the attribute list** -/
theorem steps_attrs (r : Str) : ∀ (todo done : List Attr) (S : State), Btw S done →
    (∀ x ∈ done ++ todo, attrOK {} name x = true) → ((done ++ todo).map (·.name)).Nodup →
    ∃ S', Btw S' (done ++ todo) ∧
      StepsLe (2 * (attrsText {} name todo).length) (tst name tb cd S (attrsText {} name todo ++ 62 :: r) (pairs done))
        (tst name tb cd S' (62 :: r) (pairs (done ++ todo))) := by
  intro todo
  induction todo with
  | nil =>
    intro done S hS _ _
    exact ⟨S, by simpa using hS, by simpa [attrsText] using StepsLe.refl _⟩
  | cons a todo ih =>
    intro done S hS hok hnd
    have e1 : done ++ a :: todo = (done ++ [a]) ++ todo := by simp
    have hok1 : ∀ x ∈ done ++ [a], attrOK {} name x = true := fun x hx => hok x (by
      rw [e1]; exact List.mem_append_left _ hx)
    have hnd1 : ((done ++ [a]).map (·.name)).Nodup := by
      rw [e1, List.map_append] at hnd
      exact (List.nodup_append.mp hnd).1
    obtain ⟨S1, hS1, s1⟩ := steps_attr name tb cd done a S hS hok1 hnd1 (attrsText {} name todo ++ 62 :: r)
      (attrsText_head name todo r)
    obtain ⟨S2, hS2, s2⟩ := ih (done ++ [a]) S1 hS1 (by rw [← e1]; exact hok) (by rw [← e1]; exact hnd)
    refine ⟨S2, by rw [e1]; exact hS2, ?_⟩
    have := s1.trans s2
    have e2 : attrsText {} name (a :: todo) = (attrOut {} name a).1 ++ attrsText {} name todo := by simp [attrsText]
    rw [e1, e2]
    simp only [List.append_assoc] at this ⊢
    exact this.mono (by simp only [List.length_append]; omega)

end

/-- **start tags** (stage 1: `attrs = []`; stage 3: any attributes the default serializer can write back), with what
the pull leaves in the other fields (`currentToken` is what the RCDATA end-tag states compare with) -/
theorem next_startTag_frame (ts : St) (name : Str) (attrs : List Attr) (rest : Str)
    (hok : startTagOK {} name attrs = true) (h : DataAt ts (startTagText {} name attrs ++ rest)) :
    ∃ ts', next ts = .ok (some (.startTag name (attrs.map fun a => (a.name, a.value)) false, ts')) ∧ DataAt ts' rest ∧
      ts'.currentToken = some (.emittedStartTag name) ∧ ts'.temporaryBuffer = ts.temporaryBuffer ∧
      ts'.cdataAllowed = ts.cdataAllowed := by
  simp only [startTagOK, Bool.and_eq_true, namesDistinct, decide_eq_true_eq, List.all_eq_true] at hok
  obtain ⟨⟨hname, hattrs⟩, hnd⟩ := hok
  obtain ⟨c, r, rfl, hc, hr, hl⟩ := tagNameOK_spec hname
  rw [h.eq]
  have e : startTagText {} (c :: r) attrs ++ rest = 60 :: c :: (r ++ (attrsText {} (c :: r) attrs ++ 62 :: rest)) := by
    simp [startTagText, solidusText]
  rw [e]
  generalize ts.currentToken = cur
  generalize ts.temporaryBuffer = tb
  generalize ts.cdataAllowed = cd
  have s1 := StepsLe.single rfl (step_data_lt (c :: (r ++ (attrsText {} (c :: r) attrs ++ 62 :: rest))) cur tb cd)
  have s2 := StepsLe.single rfl (step_tagOpen_alpha c hc (r ++ (attrsText {} (c :: r) attrs ++ 62 :: rest)) cur tb cd)
  have s3 := steps_tagName false r hr [c] (attrsText {} (c :: r) attrs ++ 62 :: rest) [] tb cd
  obtain ⟨S', hS', s4⟩ := steps_attrs (c :: r) tb cd rest attrs [] .tagNameState (Or.inl (Or.inl rfl))
    (by simpa using hattrs) (by simpa using hnd)
  have hndp : ((pairs attrs).map (·.1)).Nodup := by rw [pairs_names]; exact hnd
  have s5 : StepsLe 1 (tst (c :: r) tb cd S' (62 :: rest) (pairs attrs))
      ⟨.dataState, rest, some (.emittedStartTag (c :: r)), tb, [.startTag (c :: r) (pairs attrs) false], cd⟩ := by
    rcases hS' with h' | ⟨rfl, hne⟩
    · exact StepsLe.single rfl (step_after_gt (c :: r) tb cd S' h' rest (pairs attrs) hl hndp)
    · simp only [List.nil_append] at hne
      rcases List.eq_nil_or_concat attrs with h0 | ⟨d0, b, h0⟩
      · exact absurd h0 hne
      · rw [List.concat_eq_append] at h0
        subst h0
        have hb := attrOK_parts (hattrs b (by simp))
        obtain ⟨_, _, _, _, _, hbup⟩ := attrNameOK_spec hb.1
        rw [pairs_append] at hndp ⊢
        exact StepsLe.single rfl (step_attrName_gt (c :: r) tb cd rest (pairs d0) b.name b.value hl hndp hbup)
  have run := (((s1.trans s2).trans s3).trans (by simpa [tst, tagTok_false, show pairs [] = [] from rfl] using s4)).trans s5
  exact ⟨_, next_of_steps run rfl (by simp only [List.length_append, List.length_cons]; omega), ⟨rfl, rfl, rfl⟩, rfl, rfl, rfl⟩

theorem next_startTag (ts : St) (name : Str) (attrs : List Attr) (rest : Str) (hok : startTagOK {} name attrs = true)
    (h : DataAt ts (startTagText {} name attrs ++ rest)) :
    ∃ ts', next ts = .ok (some (.startTag name (attrs.map fun a => (a.name, a.value)) false, ts')) ∧ DataAt ts' rest := by
  obtain ⟨ts', h1, h2, _⟩ := next_startTag_frame ts name attrs rest hok h
  exact ⟨ts', h1, h2⟩

end H5.Props.C07b
