/-
  C01b — what `G1` leaves out of `G0`: exactly the documents with an element named `template`, `rb` or `rtc`
  (html5lib treats them as ordinary elements, the standard has rules of their own for them).
-/
import H5.Props.C01bNames
set_option linter.unusedSimpArgs false
set_option linter.unusedVariables false
namespace H5.Props.C01b
open H5 H5.Model H5.Model.TB
open H5.Spec.TC (among strs)
open H5.Props.C07b (fmtName fmtNames catOf voidName Cat okNode okForest G0 headOK docTree commentOKm htmlNs
  ordinaryName blockName headingName itemName sP ordinaryStart ordinaryEnd closePStart blockEnd voidFmtStart
  paramSourceStart)

/-- the names with an entry in a dispatch table of a phase -/
def keysOf (tbl : List (String × (List (Str × String) × Option String))) (cls : String) : List Str :=
  ((tbl.find? (fun p => p.1 == cls)).map (fun p => p.2.1.map (·.1))).getD []

theorem find?_key_none {items : List (Str × String)} {nm : Str} (h : nm ∉ items.map (·.1)) :
    items.find? (fun p => p.1 == nm) = none := by
  rw [List.find?_eq_none]
  intro p hp heq
  have : p.1 = nm := by simpa using heq
  exact h (this ▸ List.mem_map_of_mem hp)

/-- a name without an entry gets the default handler, whatever the name -/
theorem lookupHandler_default (tbl : List (String × (List (Str × String) × Option String))) (attr : String) (nm nm' : Str)
    (h : nm ∉ keysOf tbl "InBodyPhase") (h' : nm' ∉ keysOf tbl "InBodyPhase") :
    lookupHandler tbl attr .inBody nm = lookupHandler tbl attr .inBody nm' := by
  have hc : Phase.className .inBody = .ok "InBodyPhase" := by decide +kernel
  unfold lookupHandler
  simp only [hc, ok_bind]
  unfold keysOf at h h'
  cases hf : tbl.find? (fun p => p.1 == "InBodyPhase") with
  | none => rfl
  | some e =>
    obtain ⟨c, items, dflt⟩ := e
    rw [hf] at h h'
    simp only [Option.map_some, Option.getD_some] at h h'
    simp only [find?_key_none h, find?_key_none h']

/-- every name one of the tables or lists that classify a tag name mentions -/
def knownNames : List Str :=
  keysOf Gen.startTagHandlers "InBodyPhase" ++ keysOf Gen.endTagHandlers "InBodyPhase" ++ specStartNames ++ specEndNames ++
    C08c.specialElements ++ Gen.voidElements ++ Gen.Lit.TB_TreeBuilder_generateImpliedEndTags_0 ++ Gen.headingElements ++
    fmtNames ++ [sP, lit "pre", lit "hr", lit "li", lit "dt", lit "dd"]

def unknownName : Str := lit "x-unknown-name"

theorem unknown_notin : unknownName ∉ knownNames := by decide +kernel

theorem notin_of_known {nm : Str} {L : List Str} (h : nm ∉ knownNames) (hs : L.all (fun x => knownNames.contains x) = true) :
    nm ∉ L := by
  intro hm
  rw [List.all_eq_true] at hs
  exact h (by simpa using hs nm hm)

/-- a name that no table mentions is an ordinary element for html5lib and for the specification -/
theorem specAgrees_unknown {nm : Str} (h : nm ∉ knownNames) : specAgrees nm = true := by
  have hu := unknown_notin
  have kS : nm ∉ keysOf Gen.startTagHandlers "InBodyPhase" := notin_of_known h (by decide +kernel)
  have kE : nm ∉ keysOf Gen.endTagHandlers "InBodyPhase" := notin_of_known h (by decide +kernel)
  have uS : unknownName ∉ keysOf Gen.startTagHandlers "InBodyPhase" := notin_of_known hu (by decide +kernel)
  have uE : unknownName ∉ keysOf Gen.endTagHandlers "InBodyPhase" := notin_of_known hu (by decide +kernel)
  have hS := lookupHandler_default Gen.startTagHandlers "startTagHandler" nm unknownName kS uS
  have hE := lookupHandler_default Gen.endTagHandlers "endTagHandler" nm unknownName kE uE
  have e1 : C08c.specialElements.elem nm = false := by
    have := notin_of_known (L := C08c.specialElements) h (by decide +kernel); simpa using this
  have e2 : Gen.voidElements.elem nm = false := by
    have := notin_of_known (L := Gen.voidElements) h (by decide +kernel); simpa using this
  have e3 : among nm specStartNames = false := by
    have := notin_of_known (L := specStartNames) h (by decide +kernel); simpa [among] using this
  have e4 : among nm specEndNames = false := by
    have := notin_of_known (L := specEndNames) h (by decide +kernel); simpa [among] using this
  have hv : voidName nm = false := by
    simp only [voidName, e2, Bool.and_false, Bool.false_and]
  have ho : ordinaryName nm = true := by
    have hos : ordinaryStart nm := by
      unfold ordinaryStart; rw [hS]; decide +kernel
    have hoe : ordinaryEnd nm := by
      unfold ordinaryEnd; rw [hE]; decide +kernel
    have m1 : nm ∉ C08c.specialElements := notin_of_known h (by decide +kernel)
    have m2 : nm ∉ Gen.voidElements := notin_of_known h (by decide +kernel)
    simp [ordinaryName, hos, hoe, m1, m2]
  unfold specAgrees
  rw [hv]
  simp only [Bool.false_eq_true, ↓reduceIte, catOf, ho, specOrdinary, e3, e4, Bool.not_false, Bool.and_self]

/-- the names of `G0` on which the two classifications differ -/
def exceptions : List Str := strs ["template", "rb", "rtc"]

/-- on every name that a table mentions the classifications agree, except for `template`, `rb`, `rtc` -/
theorem specAgrees_known : knownNames.all (fun nm => specAgrees nm || exceptions.contains nm) = true := by
  decide +kernel

theorem specAgrees_or_exception (nm : Str) : specAgrees nm = true ∨ nm ∈ exceptions := by
  by_cases h : nm ∈ knownNames
  · have := List.all_eq_true.1 specAgrees_known nm h
    simp only [Bool.or_eq_true, List.contains_eq_mem, decide_eq_true_eq] at this
    exact this
  · exact Or.inl (specAgrees_unknown h)

mutual
/-- no element of the tree is named `template`, `rb`, `rtc` -/
def plainNode : Tree → Bool
  | .elem _ nm _ cs => !exceptions.contains nm && plainForest cs
  | _ => true
def plainForest : List Tree → Bool
  | [] => true
  | t :: rest => plainNode t && plainForest rest
end

mutual
theorem specNode_of_plain : ∀ (u : Tree), plainNode u = true → specNode u = true
  | .elem _ nm _ cs, h => by
    simp only [plainNode, Bool.and_eq_true, Bool.not_eq_true', List.contains_eq_mem, decide_eq_false_iff_not] at h
    simp only [specNode, Bool.and_eq_true]
    refine ⟨?_, specForest_of_plain cs h.2⟩
    rcases specAgrees_or_exception nm with h1 | h1
    · exact h1
    · exact absurd h1 h.1
  | .text _, _ => rfl
  | .comment _, _ => rfl
  | .doc _, _ => rfl
  | .frag _, _ => rfl
  | .doctype _ _ _, _ => rfl
theorem specForest_of_plain : ∀ (cs : List Tree), plainForest cs = true → specForest cs = true
  | [], _ => rfl
  | t :: rest, h => by
    simp only [plainForest, Bool.and_eq_true] at h
    simp only [specForest, Bool.and_eq_true]
    exact ⟨specNode_of_plain t h.1, specForest_of_plain rest h.2⟩
end

/-- **`G1` = `G0` without `template`, `rb`, `rtc`**: a document of `G0` whose body has no element of these names is in `G1` -/
theorem G1_of_G0_plain (hd cs : List Tree) (h : G0 (docTree hd cs) = true) (hp : plainForest cs = true) :
    G1 (docTree hd cs) = true := by
  show (G0 (docTree hd cs) && specForest cs) = true
  rw [h, specForest_of_plain cs hp]
  rfl

end H5.Props.C01b
