/-
  Property C17 (part b) — the preserve counter, preserve regions of balanced streams, and the cross-token clause.
  Model: H5.Model.Whitespace (`step`, `filterFrom`, `filter`, `collapse`); base theorems: H5.Props.C17.
-/
import H5.Props.C17
namespace H5.Props.C17b
open H5 H5.Gen H5.Model.Whitespace H5.Props.C17

/-! ### 1. the preserve counter -/

/-- the three rules of `whitespace.Filter.__iter__` for `preserve` (lines 25-31): a start tag increments when the
counter is already positive or its name is in `spacePreserveElements`; an end tag decrements a positive counter;
everything else leaves it. -/
def bump (p : Nat) : Tok → Nat
  | .startTag _ name _ => if 0 < p ∨ name ∈ spacePreserveElements then p + 1 else p
  | .endTag _ _ => if 0 < p then p - 1 else p
  | _ => p

/-- the counter after a prefix of the stream, starting from `p` -/
def depthAfter (p : Nat) (ts : List Tok) : Nat := ts.foldl bump p

theorem step_fst (p : Nat) (t : Tok) : (step p t).1 = bump p t := by
  cases t with
  | startTag ns n a =>
    by_cases hp : p = 0 <;> by_cases hn : n ∈ spacePreserveElements <;>
      simp [step, bump, hp, hn, Nat.pos_iff_ne_zero]
  | endTag ns n =>
    by_cases hp : p = 0 <;> simp [step, bump, hp, Nat.pos_iff_ne_zero]
  | chars s => simp only [step, bump]; split <;> rfl
  | space s => simp only [step, bump]; split <;> rfl
  | _ => rfl

theorem depthAfter_nil (p : Nat) : depthAfter p [] = p := rfl
theorem depthAfter_cons (p : Nat) (t : Tok) (ts : List Tok) : depthAfter p (t :: ts) = depthAfter (bump p t) ts := rfl
theorem depthAfter_append (p : Nat) (a b : List Tok) : depthAfter p (a ++ b) = depthAfter (depthAfter p a) b := by
  simp [depthAfter, List.foldl_append]

theorem filterFrom_nil (p : Nat) : filterFrom p [] = [] := rfl
theorem filterFrom_cons (p : Nat) (t : Tok) (ts : List Tok) :
    filterFrom p (t :: ts) = (step p t).2 :: filterFrom (bump p t) ts := by
  simp [filterFrom, step_fst]

/-- the filter over a concatenation: the second part starts with the counter reached after the first -/
theorem filterFrom_append (p : Nat) (a b : List Tok) :
    filterFrom p (a ++ b) = filterFrom p a ++ filterFrom (depthAfter p a) b := by
  induction a generalizing p with
  | nil => rfl
  | cons t a ih => simp [filterFrom_cons, depthAfter_cons, ih]

theorem filterFrom_length (p : Nat) (ts : List Tok) : (filterFrom p ts).length = ts.length := by
  induction ts generalizing p with
  | nil => rfl
  | cons t ts ih => simp [filterFrom, ih]

/-- **C17 (counter).** the output is the input with `step` applied to every token under the running counter:
token `i` is processed with the counter reached after the first `i` tokens. -/
theorem C17_counter (p : Nat) (ts : List Tok) (i : Nat) :
    (filterFrom p ts)[i]? = ts[i]?.map fun t => (step (depthAfter p (ts.take i)) t).2 := by
  induction ts generalizing p i with
  | nil => simp [filterFrom]
  | cons t ts ih =>
    cases i with
    | zero => simp [filterFrom, depthAfter]
    | succ i => simp [filterFrom_cons, depthAfter_cons, ih]

/-- the same as one equation between lists: zip the tokens with their indices -/
theorem C17_counter_list (p : Nat) (ts : List Tok) :
    filterFrom p ts = ts.zipIdx.map fun ti => (step (depthAfter p (ts.take ti.2)) ti.1).2 := by
  apply List.ext_getElem?
  intro i
  rw [C17_counter]
  simp [List.getElem?_zipIdx]
  cases ts[i]? <;> simp

/-- for the whole filter: the counter starts at 0 -/
theorem C17_counter_filter (ts : List Tok) (i : Nat) :
    (filter ts)[i]? = ts[i]?.map fun t => (step (depthAfter 0 (ts.take i)) t).2 := C17_counter 0 ts i

/-- a token processed under a positive counter is unchanged; under counter 0 it is `step 0` -/
theorem C17_counter_pos (p : Nat) (ts : List Tok) (i : Nat) (h : 0 < depthAfter p (ts.take i)) :
    (filterFrom p ts)[i]? = ts[i]? := by
  rw [C17_counter]
  cases ts[i]? with
  | none => rfl
  | some t => simp [C17_preserved _ t (by omega : depthAfter p (ts.take i) ≠ 0)]

/-! ### 2. balanced streams and preserve regions -/

/-- stack discipline on start/end tag names (innermost open element first); empty tags and all other tokens are
ignored; at the end of the stream the stack must be empty again -/
def balFrom : List Str → List Tok → Bool
  | st, [] => st.isEmpty
  | st, .startTag _ n _ :: r => balFrom (n :: st) r
  | [], .endTag _ _ :: _ => false
  | n' :: st, .endTag _ n :: r => n' == n && balFrom st r
  | st, _ :: r => balFrom st r

def Balanced (ts : List Tok) : Prop := balFrom [] ts = true
instance (ts : List Tok) : Decidable (Balanced ts) := inferInstanceAs (Decidable (balFrom [] ts = true))

/-- inside a region entered with a positive counter `q` larger than the number of elements the stream still
closes, the counter stays positive and ends `st.length` lower -/
theorem bal_depth (body : List Tok) : ∀ (st : List Str) (q : Nat), balFrom st body = true → st.length < q →
    depthAfter q body = q - st.length ∧ ∀ i, i ≤ body.length → 0 < depthAfter q (body.take i) := by
  induction body with
  | nil =>
    intro st q h hq
    cases st with
    | nil => simp [depthAfter]; omega
    | cons a st => simp [balFrom] at h
  | cons t body ih =>
    intro st q h hq
    have key : ∀ (st' : List Str) (q' : Nat), bump q t = q' → balFrom st' body = true → st'.length < q' →
        q' - st'.length = q - st.length →
        depthAfter q (t :: body) = q - st.length ∧ ∀ i, i ≤ (t :: body).length → 0 < depthAfter q ((t :: body).take i) := by
      intro st' q' hb hbal hlt heq
      obtain ⟨h1, h2⟩ := ih st' q' hbal hlt
      refine ⟨by rw [depthAfter_cons, hb, h1, heq], ?_⟩
      intro i hi
      cases i with
      | zero => simp [depthAfter]; omega
      | succ i =>
        simp only [List.take_succ_cons, depthAfter_cons, hb]
        exact h2 i (by simpa using hi)
    have hq0 : 0 < q := by omega
    cases t with
    | startTag ns n a =>
      simp only [balFrom] at h
      exact key (n :: st) (q + 1) (by simp [bump, hq0]) h (by simp; omega) (by simp)
    | endTag ns n =>
      cases st with
      | nil => simp [balFrom] at h
      | cons n' st =>
        simp only [balFrom, Bool.and_eq_true] at h
        simp only [List.length_cons] at hq
        exact key st (q - 1) (by simp [bump, hq0]) h.2 (by omega) (by simp; omega)
    | doctype a b c => exact key st q rfl (by simpa [balFrom] using h) hq rfl
    | chars s => exact key st q rfl (by simpa [balFrom] using h) hq rfl
    | space s => exact key st q rfl (by simpa [balFrom] using h) hq rfl
    | emptyTag ns n a => exact key st q rfl (by simpa [balFrom] using h) hq rfl
    | comment s => exact key st q rfl (by simpa [balFrom] using h) hq rfl
    | entity s => exact key st q rfl (by simpa [balFrom] using h) hq rfl
    | serr s => exact key st q rfl (by simpa [balFrom] using h) hq rfl

/-- a stream that closes the open elements `st` and is otherwise balanced lowers ANY counter by `st.length`
(truncated at 0): under counter 0 an element of `spacePreserveElements` raises it and its end tag lowers it again,
every other end tag leaves 0 alone -/
theorem bal_depth_any (body : List Tok) : ∀ (st : List Str) (q : Nat), balFrom st body = true →
    depthAfter q body = q - st.length := by
  induction body with
  | nil =>
    intro st q h
    cases st with
    | nil => simp [depthAfter]
    | cons a st => simp [balFrom] at h
  | cons t body ih =>
    intro st q h
    rw [depthAfter_cons]
    cases t with
    | startTag ns n a =>
      simp only [balFrom] at h
      rw [ih (n :: st) _ h]
      simp only [bump, List.length_cons]
      split <;> omega
    | endTag ns n =>
      cases st with
      | nil => simp [balFrom] at h
      | cons n' st =>
        simp only [balFrom, Bool.and_eq_true] at h
        rw [ih st _ h.2]
        simp only [bump, List.length_cons]
        split <;> omega
    | doctype a b c => simpa [bump] using ih st q (by simpa [balFrom] using h)
    | chars s => simpa [bump] using ih st q (by simpa [balFrom] using h)
    | space s => simpa [bump] using ih st q (by simpa [balFrom] using h)
    | emptyTag ns n a => simpa [bump] using ih st q (by simpa [balFrom] using h)
    | comment s => simpa [bump] using ih st q (by simpa [balFrom] using h)
    | entity s => simpa [bump] using ih st q (by simpa [balFrom] using h)
    | serr s => simpa [bump] using ih st q (by simpa [balFrom] using h)

/-- **a balanced stream leaves the counter where it was** -/
theorem balanced_depth (body : List Tok) (h : Balanced body) (q : Nat) : depthAfter q body = q := by
  simpa using bal_depth_any body [] q h

/-- with a positive counter, it stays positive at every position of a balanced stream -/
theorem balanced_pos (body : List Tok) (h : Balanced body) (q : Nat) (hq : 0 < q) (i : Nat) (hi : i ≤ body.length) :
    0 < depthAfter q (body.take i) := (bal_depth body [] q h (by simpa using hq)).2 i hi

/-- a whole stream processed under a positive counter that never reaches 0 is unchanged -/
theorem filterFrom_pos (body : List Tok) (q : Nat) (h : ∀ i, i ≤ body.length → 0 < depthAfter q (body.take i)) :
    filterFrom q body = body := by
  apply List.ext_getElem?
  intro i
  by_cases hi : i ≤ body.length
  · exact C17_counter_pos q body i (h i hi)
  · have h1 : body[i]? = none := by simp; omega
    have h2 : (filterFrom q body)[i]? = none := by simp [filterFrom_length]; omega
    rw [h1, h2]

theorem depth_start (p : Nat) (ns : Option Str) (n : Str) (a : List Attr) :
    bump p (.startTag ns n a) = if 0 < p ∨ n ∈ spacePreserveElements then p + 1 else p := rfl

/-- **C17 (balanced regions).** for an element `<n> body </n>` with balanced content, entered with counter `p`
(`p = depthAfter p0 pre`):
 1. the counter after the end tag is `p` again;
 2. the counter is positive at every token of `body` iff `p > 0 ∨ n ∈ spacePreserveElements` (or `body` is empty);
 3. if `p > 0 ∨ n ∈ spacePreserveElements` the whole element is passed through unchanged;
 4. otherwise the counter is 0 after the start tag and `body` is filtered like a top-level stream (`filter body`),
    so nested `pre`… elements inside it are again preserve regions of their own.
("every token of `body` is unchanged" alone cannot be an *iff*: a body that is already collapsed is unchanged under
counter 0 too — see the example below; the counter is what the code decides on.) -/
theorem C17_balanced_regions (p0 : Nat) (pre body post : List Tok) (ns ns2 : Option Str) (n : Str) (a : List Attr)
    (hb : Balanced body) :
    let p := depthAfter p0 pre
    let ts := pre ++ [Tok.startTag ns n a] ++ body ++ [Tok.endTag ns2 n] ++ post
    depthAfter p0 (pre ++ [Tok.startTag ns n a] ++ body ++ [Tok.endTag ns2 n]) = p ∧
    ((∀ i, i < body.length → 0 < depthAfter p0 (pre ++ [Tok.startTag ns n a] ++ body.take i)) ↔
      (body = [] ∨ 0 < p ∨ n ∈ spacePreserveElements)) ∧
    ((0 < p ∨ n ∈ spacePreserveElements) →
      filterFrom p0 ts = filterFrom p0 pre ++ [Tok.startTag ns n a] ++ body ++ [Tok.endTag ns2 n] ++ filterFrom p post) ∧
    (¬ (0 < p ∨ n ∈ spacePreserveElements) →
      depthAfter p0 (pre ++ [Tok.startTag ns n a]) = 0 ∧
      filterFrom p0 ts = filterFrom p0 pre ++ [Tok.startTag ns n a] ++ filter body ++ [Tok.endTag ns2 n] ++ filterFrom 0 post) := by
  intro p ts
  have hstart : ∀ l, depthAfter p0 (pre ++ [Tok.startTag ns n a] ++ l) =
      depthAfter (bump p (.startTag ns n a)) l := by
    intro l; simp [depthAfter_append, depthAfter_cons, p]
  have hts : filterFrom p0 ts = filterFrom p0 pre ++ [Tok.startTag ns n a] ++
      filterFrom (bump p (.startTag ns n a)) body ++
      [(step (bump p (.startTag ns n a)) (Tok.endTag ns2 n)).2] ++
      filterFrom (bump (bump p (.startTag ns n a)) (Tok.endTag ns2 n)) post := by
    have e : (step p (Tok.startTag ns n a)).2 = Tok.startTag ns n a := by
      simp only [step]; split <;> rfl
    simp only [ts, List.append_assoc, filterFrom_append, filterFrom_cons, List.cons_append,
      List.nil_append, balanced_depth body hb, e, p]
  have hend : ∀ q, (step q (Tok.endTag ns2 n)).2 = Tok.endTag ns2 n := by
    intro q; simp only [step]; split <;> rfl
  by_cases hc : 0 < p ∨ n ∈ spacePreserveElements
  · have hbump : bump p (.startTag ns n a) = p + 1 := by simp [bump, hc]
    refine ⟨?_, ?_, ?_, fun h => absurd hc h⟩
    · rw [List.append_assoc, hstart, depthAfter_append, balanced_depth body hb, hbump]
      simp [depthAfter, bump]
    · constructor
      · intro _; exact Or.inr hc
      · intro _ i hi
        rw [hstart, hbump]
        exact balanced_pos body hb (p + 1) (by omega) i (by omega)
    · intro _
      rw [hts, hbump, hend, filterFrom_pos body (p + 1) (fun i hi => balanced_pos body hb (p + 1) (by omega) i hi)]
      simp [bump]
  · have hbump : bump p (.startTag ns n a) = p := by simp [bump, hc]
    have hp0 : p = 0 := by omega
    refine ⟨?_, ?_, fun h => absurd h hc, ?_⟩
    · rw [List.append_assoc, hstart, depthAfter_append, balanced_depth body hb, hbump, hp0]
      simp [depthAfter, bump]
    · constructor
      · intro h
        cases hbody : body with
        | nil => exact Or.inl rfl
        | cons t r =>
          have := h 0 (by simp [hbody])
          rw [hstart, hbump, hp0] at this
          simp [depthAfter] at this
      · rintro (h | h)
        · intro i hi; simp [h] at hi
        · exact absurd h hc
    · intro _
      refine ⟨by have := hstart []; rw [List.append_nil] at this; rw [this, hbump, depthAfter_nil, hp0], ?_⟩
      rw [hts, hbump, hend, hp0]
      simp [bump, filter]

/-! ### 3. single-token clause -/

/-- **C17 (runs, single token).** a `Characters` token outside preserve regions comes out with no two adjacent
whitespace characters and every whitespace character is U+0020. -/
theorem C17_runs_single_token (s : Str) :
    ∃ d, (step 0 (.chars s)).2 = .chars d ∧ NoAdjWs d ∧ (∀ c ∈ d, isWs c = true → c = 32) ∧
      d.filter (fun c => !isWs c) = s.filter (fun c => !isWs c) :=
  ⟨collapse s, by simp [step], collapse_noAdj s, collapse_ws_is_space s, C17_collapse_nonws s⟩

/-- the same, located in the stream: token `i` of the output when the running counter is 0 there -/
theorem C17_runs_single_token_at (ts : List Tok) (i : Nat) (s : Str) (hi : ts[i]? = some (.chars s))
    (h0 : depthAfter 0 (ts.take i) = 0) :
    ∃ d, (filter ts)[i]? = some (.chars d) ∧ NoAdjWs d ∧ (∀ c ∈ d, isWs c = true → c = 32) := by
  refine ⟨collapse s, ?_, collapse_noAdj s, collapse_ws_is_space s⟩
  rw [C17_counter_filter, hi, h0]
  simp [step]

/-! ### 4. the cross-token clause -/

/-- **C17 (runs, cross-token): the full-strength clause is FALSE.**  "between two non-text tokens the concatenated
text has every maximal whitespace run replaced by one space" fails: `a`, ` `, ` `, `b` keeps two spaces (each
token is collapsed on its own; the filter never looks across token boundaries). -/
theorem C17_runs_cross_token_witness :
    filter [.chars [97], .space [32], .space [32], .chars [98]] = [.chars [97], .space [32], .space [32], .chars [98]] ∧
    (filter [.chars [97], .space [32], .space [32], .chars [98]]).flatMap tokText = [97, 32, 32, 98] ∧
    collapse [97, 32, 32, 98] = [97, 32, 98] ∧
    filter [.chars [97, 32], .chars [32, 98]] = [.chars [97, 32], .chars [32, 98]] := by decide

def lastWs (s : Str) : Bool := match s.getLast? with | some c => isWs c | none => false
def headWs (s : Str) : Bool := match s.head? with | some c => isWs c | none => false

/-- no whitespace run continues across a token boundary: a piece that ends in whitespace is not followed (after
possibly empty pieces) by text that starts with whitespace -/
def CrossOk : List Str → Prop
  | [] => True
  | a :: r => ¬ (lastWs a = true ∧ headWs r.flatten = true) ∧ CrossOk r

theorem collapse_cons_nonws (c : Nat) (r : Str) (hc : isWs c = false) : collapse (c :: r) = c :: collapse r := by
  simp [collapse, hc]

/-- `collapse` distributes over a concatenation whose boundary does not split a whitespace run -/
theorem collapse_append (a b : Str) (h : ¬ (lastWs a = true ∧ headWs b = true)) :
    collapse (a ++ b) = collapse a ++ collapse b := by
  induction a with
  | nil => rfl
  | cons c a ih =>
    cases a with
    | nil =>
      by_cases hc : isWs c = true
      · have hb : headWs b = false := by
          cases hb : headWs b with
          | false => rfl
          | true => exact absurd ⟨by simp [lastWs, hc], hb⟩ h
        cases b with
        | nil => simp [collapse]
        | cons d b =>
          have hd : isWs d = false := by simpa [headWs] using hb
          simp [collapse, hc, hd]
      · simp only [Bool.not_eq_true] at hc
        simp [collapse, hc]
    | cons d a =>
      have h2 : ¬ (lastWs (d :: a) = true ∧ headWs b = true) := by
        simpa [lastWs, List.getLast?_cons_cons] using h
      have ih2 := ih h2
      by_cases hc : isWs c = true
      · by_cases hd : isWs d = true
        · have e1 : collapse (c :: d :: a ++ b) = collapse (d :: a ++ b) := by
            simp [collapse, hc, hd]
          have e2 : collapse (c :: d :: a) = collapse (d :: a) := by simp [collapse, hc, hd]
          rw [e1, e2]; exact ih2
        · simp only [Bool.not_eq_true] at hd
          have e1 : collapse (c :: d :: a ++ b) = 32 :: collapse (d :: a ++ b) := by
            simp [collapse, hc, hd]
          have e2 : collapse (c :: d :: a) = 32 :: collapse (d :: a) := by simp [collapse, hc, hd]
          rw [e1, e2, ih2]; rfl
      · simp only [Bool.not_eq_true] at hc
        rw [List.cons_append, collapse_cons_nonws c _ hc, collapse_cons_nonws c _ hc, ih2]; rfl

theorem collapse_flatten (l : List Str) (h : CrossOk l) : collapse l.flatten = (l.map collapse).flatten := by
  induction l with
  | nil => rfl
  | cons a r ih =>
    simp only [List.flatten_cons, List.map_cons]
    rw [collapse_append a r.flatten h.1, ih h.2]

theorem collapse_allWs (s : Str) (hs : s ≠ []) (h : ∀ c ∈ s, isWs c = true) : collapse s = [32] := by
  induction s with
  | nil => exact absurd rfl hs
  | cons c r ih =>
    have hc := h c List.mem_cons_self
    cases r with
    | nil => simp [collapse, hc]
    | cons d r =>
      have hd := h d (by simp)
      have := ih (by simp) (fun x hx => h x (List.mem_cons_of_mem _ hx))
      simpa [collapse, hc, hd] using this

def isText : Tok → Bool
  | .chars _ | .space _ => true
  | _ => false

/-- under counter 0 a text token (a `SpaceCharacters` token holding only whitespace) comes out as the collapse of
its own data -/
theorem step0_text (t : Tok) (ht : isText t = true) (hs : SpaceOk t) :
    tokText (step 0 t).2 = collapse (tokText t) ∧ isText (step 0 t).2 = true ∧ bump 0 t = 0 := by
  cases t with
  | chars s => simp [step, tokText, isText, bump]
  | space s =>
    by_cases he : s = []
    · simp [step, tokText, isText, bump, he, collapse]
    · simp [step, tokText, isText, bump, he, collapse_allWs s he hs]
  | _ => simp [isText] at ht

theorem filter_textrun (run : List Tok) (ht : ∀ t ∈ run, isText t = true) (hs : ∀ t ∈ run, SpaceOk t) :
    (filterFrom 0 run).map tokText = (run.map tokText).map collapse ∧ depthAfter 0 run = 0 ∧
    ∀ t ∈ filterFrom 0 run, isText t = true := by
  induction run with
  | nil => simp [filterFrom, depthAfter]
  | cons t run ih =>
    obtain ⟨h1, h2, h3⟩ := step0_text t (ht t List.mem_cons_self) (hs t List.mem_cons_self)
    obtain ⟨i1, i2, i3⟩ := ih (fun x hx => ht x (List.mem_cons_of_mem _ hx)) (fun x hx => hs x (List.mem_cons_of_mem _ hx))
    rw [filterFrom_cons, depthAfter_cons, h3]
    refine ⟨by simp [h1, i1], i2, ?_⟩
    intro x hx
    rcases List.mem_cons.mp hx with rfl | hx
    · exact h2
    · exact i3 x hx

/-- **C17 (runs, cross-token, positive version).** for a run of text tokens outside preserve regions (counter 0
after `pre`), whose `SpaceCharacters` tokens hold only whitespace, and such that no whitespace run continues across
a token boundary (`CrossOk`): the run is replaced by as many text tokens whose concatenated text is the collapse of
the concatenated input text — every maximal whitespace run of the concatenation became one U+0020
(`C17_collapse_spec`), no two whitespace characters are adjacent. -/
theorem C17_runs_cross_token (p0 : Nat) (pre run post : List Tok) (h0 : depthAfter p0 pre = 0)
    (ht : ∀ t ∈ run, isText t = true) (hs : ∀ t ∈ run, SpaceOk t) (hx : CrossOk (run.map tokText)) :
    ∃ run', filterFrom p0 (pre ++ run ++ post) = filterFrom p0 pre ++ run' ++ filterFrom 0 post ∧
      run'.length = run.length ∧ (∀ t ∈ run', isText t = true) ∧
      run'.flatMap tokText = collapse (run.flatMap tokText) ∧
      run'.flatMap tokText = specCollapse (run.flatMap tokText) ∧
      NoAdjWs (run'.flatMap tokText) := by
  obtain ⟨e1, e2, e3⟩ := filter_textrun run ht hs
  have e4 : (filterFrom 0 run).flatMap tokText = collapse (run.flatMap tokText) := by
    rw [List.flatMap_def, List.flatMap_def, e1, collapse_flatten _ hx]
  refine ⟨filterFrom 0 run, ?_, filterFrom_length 0 run, e3, e4, ?_, ?_⟩
  · rw [filterFrom_append, filterFrom_append, h0, depthAfter_append, h0, e2]
  · rw [e4, C17_collapse_spec]
  · rw [e4]; exact collapse_noAdj _

/-- for non-empty pieces `CrossOk` is the condition on ADJACENT tokens only: no two adjacent text tokens both have
whitespace at their common boundary -/
def AdjOk : List Str → Prop
  | [] => True
  | [_] => True
  | a :: b :: r => ¬ (lastWs a = true ∧ headWs b = true) ∧ AdjOk (b :: r)

theorem crossOk_of_adjOk (l : List Str) (hne : ∀ s ∈ l, s ≠ []) (h : AdjOk l) : CrossOk l := by
  induction l with
  | nil => trivial
  | cons a r ih =>
    cases r with
    | nil => simp [CrossOk, headWs]
    | cons b r =>
      refine ⟨?_, ih (fun s hs => hne s (List.mem_cons_of_mem _ hs)) h.2⟩
      have hb : b ≠ [] := hne b (by simp)
      cases b with
      | nil => exact absurd rfl hb
      | cons c b => simpa [headWs] using h.1

/-- the positive version stated with the adjacent-token hypothesis (text tokens are non-empty: `lint` asserts it) -/
theorem C17_runs_cross_token_adj (p0 : Nat) (pre run post : List Tok) (h0 : depthAfter p0 pre = 0)
    (ht : ∀ t ∈ run, isText t = true) (hs : ∀ t ∈ run, SpaceOk t) (hne : ∀ t ∈ run, tokText t ≠ [])
    (hx : AdjOk (run.map tokText)) :
    ∃ run', filterFrom p0 (pre ++ run ++ post) = filterFrom p0 pre ++ run' ++ filterFrom 0 post ∧
      run'.length = run.length ∧ run'.flatMap tokText = specCollapse (run.flatMap tokText) := by
  have hc : CrossOk (run.map tokText) := by
    apply crossOk_of_adjOk _ _ hx
    intro s hs'
    obtain ⟨t, ht', rfl⟩ := List.mem_map.mp hs'
    exact hne t ht'
  obtain ⟨run', h1, h2, -, -, h5, -⟩ := C17_runs_cross_token p0 pre run post h0 ht hs hc
  exact ⟨run', h1, h2, h5⟩

/-! ### non-vacuity -/

example : Balanced [.chars [97], .startTag none [98] [], .emptyTag none [98, 114] [], .endTag none [98], .space [32]] := by
  decide
example : ¬ Balanced [.startTag none [98] [], .endTag none [105]] := by decide
example : ¬ Balanced [.endTag none [98]] := by decide
/-- `<div>` at counter 0 around a balanced body with a nested `<pre>`: the body is filtered, `<pre>` content kept -/
example : filter [.startTag none [100, 105, 118] [], .chars [97, 32, 32], .startTag none [112, 114, 101] [],
      .chars [32, 32], .endTag none [112, 114, 101], .endTag none [100, 105, 118], .chars [32, 32]]
    = [.startTag none [100, 105, 118] [], .chars [97, 32], .startTag none [112, 114, 101] [],
      .chars [32, 32], .endTag none [112, 114, 101], .endTag none [100, 105, 118], .chars [32]] := by decide
/-- why "every body token unchanged" is not an *iff*: an already collapsed body is unchanged under counter 0 -/
example : filter [.startTag none [112] [], .chars [97, 32, 98], .endTag none [112]]
    = [.startTag none [112] [], .chars [97, 32, 98], .endTag none [112]] ∧ [112] ∉ spacePreserveElements := by decide
/-- the hypotheses of the cross-token theorem are satisfiable and the conclusion is not trivial -/
example : CrossOk ([Tok.chars [97, 32, 32], Tok.chars [98], Tok.space [10, 10], Tok.chars [99]].map tokText) := by
  simp [CrossOk, tokText, lastWs, headWs]; decide
example : (filter [Tok.chars [97, 32, 32], Tok.chars [98], Tok.space [10, 10], Tok.chars [99]]).flatMap tokText
    = [97, 32, 98, 32, 99] := by decide
example : ¬ CrossOk ([Tok.chars [97], Tok.space [32], Tok.space [32], Tok.chars [98]].map tokText) := by
  simp [CrossOk, tokText, lastWs, headWs]; decide

end H5.Props.C17b
