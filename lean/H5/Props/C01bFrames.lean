/-
  C01b — the stack of open nodes of the SPECIFICATION as frames: every open node with the trees of its completed
  children and, for the current node, an optional pending Text node (the specification appends characters to the Text
  node that is the last child); effect of the arena events: open an element, add a leaf, start / extend a Text node,
  close the current element.
-/
import H5.Props.C01bArena
set_option linter.unusedSimpArgs false
set_option linter.unusedVariables false
namespace H5.Props.C01b
open H5 H5.Spec.TC

/-- an open node: its index, its arena record, the trees of its completed children, the data of a pending Text node -/
structure SFrame where
  id : Nat
  node : Node
  kids : List Tree
  txt : Option Str := none

/-- the frames below the top one; `nxt` is the index of the open node that follows the last of them -/
def PrefixOK (a : Arena) : List SFrame → Nat → Prop
  | [], _ => True
  | f :: rest, nxt =>
    a[f.id]? = some f.node ∧ (∀ c ∈ f.node.children, f.id < c) ∧ f.txt = none ∧
    (∃ done, f.node.children = done ++ [((rest.head?.map (·.id)).getD nxt)] ∧
      SShapeList a ((rest.head?.map (·.id)).getD nxt) done f.kids) ∧
    PrefixOK a rest nxt

/-- the top frame: all its children are complete, except a pending Text node, which is the newest node of the arena -/
def TopOK (a : Arena) (f : SFrame) : Prop :=
  a[f.id]? = some f.node ∧ (∀ c ∈ f.node.children, f.id < c) ∧
  match f.txt with
  | none => SShapeList a a.size f.node.children f.kids
  | some d => ∃ done tn, f.node.children = done ++ [a.size - 1] ∧ SShapeList a (a.size - 1) done f.kids ∧
      a[a.size - 1]? = some tn ∧ tn.kind = .text d

def FramesOK (a : Arena) (fs : List SFrame) (f : SFrame) : Prop := PrefixOK a fs f.id ∧ TopOK a f

theorem lt_of_mem_append_singleton {l : List Nat} {x i : Nat} {cs : List Nat}
    (h : ∀ c ∈ cs, i < c) (he : cs = l ++ [x]) : i < x := h x (by rw [he]; simp)

theorem PrefixOK.head_lt {a : Arena} : ∀ {fs : List SFrame} {f : SFrame} {nxt : Nat}, PrefixOK a (f :: fs) nxt → f.id < nxt
  | [], f, nxt, ⟨_, h2, _, ⟨done, h3, _⟩, _⟩ => lt_of_mem_append_singleton h2 h3
  | g :: rest, f, nxt, ⟨_, h2, _, ⟨done, h3, _⟩, h4⟩ =>
    Nat.lt_trans (lt_of_mem_append_singleton h2 h3) (PrefixOK.head_lt h4)

theorem PrefixOK.local {a a' : Arena} : ∀ {fs : List SFrame} {nxt : Nat}, PrefixOK a fs nxt →
    (∀ j, j < nxt → a'[j]? = a[j]?) → PrefixOK a' fs nxt
  | [], _, _, _ => trivial
  | f :: rest, nxt, h, hl => by
    obtain ⟨h1, h2, ht, ⟨done, h3, h4⟩, h5⟩ := h
    have hlt : f.id < nxt := PrefixOK.head_lt ⟨h1, h2, ht, ⟨done, h3, h4⟩, h5⟩
    have hg : (rest.head?.map (·.id)).getD nxt ≤ nxt := by
      cases rest with
      | nil => exact Nat.le_refl _
      | cons g r => exact Nat.le_of_lt (PrefixOK.head_lt h5)
    refine ⟨by rw [hl _ hlt]; exact h1, h2, ht, ⟨done, h3, ?_⟩, PrefixOK.local h5 hl⟩
    exact SShapeList.local h4 (fun c _ j _ hj => hl j (Nat.lt_of_lt_of_le hj hg))

theorem PrefixOK.snoc {a : Arena} : ∀ {fs : List SFrame} {f : SFrame} {nxt : Nat}, PrefixOK a fs f.id →
    a[f.id]? = some f.node → (∀ c ∈ f.node.children, f.id < c) → f.txt = none →
    (∃ done, f.node.children = done ++ [nxt] ∧ SShapeList a nxt done f.kids) → PrefixOK a (fs ++ [f]) nxt
  | [], f, nxt, _, h1, h2, ht, h3 => ⟨h1, h2, ht, h3, trivial⟩
  | e :: rest, f, nxt, ⟨e1, e2, et, ⟨done, e3, e4⟩, e5⟩, h1, h2, ht, h3 => by
    refine ⟨e1, e2, et, ⟨done, ?_, ?_⟩, PrefixOK.snoc e5 h1 h2 ht h3⟩
    · cases rest <;> simpa using e3
    · cases rest <;> simpa using e4

theorem PrefixOK.unsnoc {a : Arena} : ∀ {fs : List SFrame} {f : SFrame} {nxt : Nat}, PrefixOK a (fs ++ [f]) nxt →
    PrefixOK a fs f.id ∧ a[f.id]? = some f.node ∧ (∀ c ∈ f.node.children, f.id < c) ∧ f.txt = none ∧
      (∃ done, f.node.children = done ++ [nxt] ∧ SShapeList a nxt done f.kids)
  | [], f, nxt, ⟨h1, h2, ht, h3, _⟩ => ⟨trivial, h1, h2, ht, h3⟩
  | e :: rest, f, nxt, ⟨e1, e2, et, ⟨done, e3, e4⟩, e5⟩ => by
    obtain ⟨p1, p2, p3, pt, p4⟩ := PrefixOK.unsnoc e5
    refine ⟨⟨e1, e2, et, ⟨done, ?_, ?_⟩, p1⟩, p2, p3, pt, p4⟩
    · cases rest <;> simpa using e3
    · cases rest <;> simpa using e4

theorem PrefixOK.node_of_mem {a : Arena} : ∀ {fs : List SFrame} {nxt : Nat}, PrefixOK a fs nxt →
    ∀ e ∈ fs, a[e.id]? = some e.node
  | [], _, _, e, he => by cases he
  | f :: rest, nxt, ⟨h1, _, _, _, h5⟩, e, he => by
    rcases List.mem_cons.1 he with rfl | he
    · exact h1
    · exact PrefixOK.node_of_mem h5 e he

theorem PrefixOK.lt_of_mem {a : Arena} : ∀ {fs : List SFrame} {nxt : Nat}, PrefixOK a fs nxt → ∀ e ∈ fs, e.id < nxt
  | [], _, _, e, he => by cases he
  | f :: rest, nxt, h, e, he => by
    rcases List.mem_cons.1 he with rfl | he
    · exact PrefixOK.head_lt h
    · exact PrefixOK.lt_of_mem h.2.2.2.2 e he

/-! ### arena updates -/

/-- a fresh node of kind `k` appended as the last child of node `p` -/
def addChild (a : Arena) (p : Nat) (k : Kind) : Arena :=
  ((a.push { kind := k }).modify a.size fun n => { n with parent := some p }).modify p
    fun n => { n with children := n.children ++ [a.size] }

theorem addChild_size (a p k) : (addChild a p k).size = a.size + 1 := by simp [addChild]

theorem addChild_get (a : Arena) (p : Nat) (k : Kind) (hp : p < a.size) (j : Nat) :
    (addChild a p k)[j]? =
      if j = p then a[p]?.map (fun n => { n with children := n.children ++ [a.size] })
      else if j = a.size then some { kind := k, parent := some p } else a[j]? := by
  have hne : p ≠ a.size := Nat.ne_of_lt hp
  unfold addChild
  rw [Array.getElem?_modify]
  by_cases h1 : j = p
  · subst h1
    simp only [if_true]
    rw [Array.getElem?_modify, if_neg (fun h => hne h.symm), Array.getElem?_push, if_neg hne]
  · rw [if_neg (fun h => h1 h.symm), if_neg h1, Array.getElem?_modify]
    by_cases h2 : j = a.size
    · subst h2; simp
    · rw [if_neg (fun h => h2 h.symm), if_neg h2, Array.getElem?_push, if_neg h2]

theorem addChild_top_get (a : Arena) (f : SFrame) (k) (h : a[f.id]? = some f.node) :
    (addChild a f.id k)[f.id]? = some { f.node with children := f.node.children ++ [a.size] } := by
  have hlt : f.id < a.size := (Array.getElem?_eq_some_iff.1 h).1
  rw [addChild_get a f.id k hlt, if_pos rfl, h]; rfl

theorem addChild_new_get (a : Arena) (p : Nat) (k) (h : p < a.size) :
    (addChild a p k)[a.size]? = some { kind := k, parent := some p } := by
  rw [addChild_get a p k h, if_neg (Nat.ne_of_gt h), if_pos rfl]

theorem addChild_other_get (a : Arena) (p : Nat) (k) (h : p < a.size) (j : Nat)
    (h1 : j ≠ p) (h2 : j ≠ a.size) : (addChild a p k)[j]? = a[j]? := by
  rw [addChild_get a p k h, if_neg h1, if_neg h2]

theorem ne_of_le_lt_aux (c j n : Nat) (h1 : c ≤ j) (h2 : j < n) (p : Nat) (h3 : p < c) : j ≠ p ∧ j ≠ n := by omega

/-- a pending Text node becomes a completed child -/
theorem TopOK.seal {a : Arena} {f : SFrame} {d : Str} (h : TopOK a f) (ht : f.txt = some d) :
    TopOK a { f with kids := f.kids ++ [.text d], txt := none } := by
  obtain ⟨h1, h2, h3⟩ := h
  rw [ht] at h3
  obtain ⟨done, tn, e1, e2, e3, e4⟩ := h3
  have hlt : a.size - 1 < a.size := (Array.getElem?_eq_some_iff.1 e3).1
  refine ⟨h1, h2, ?_⟩
  show SShapeList a a.size f.node.children (f.kids ++ [.text d])
  rw [e1]
  exact SShapeList.append (SShapeList.mono (Nat.le_of_lt hlt) e2) (.text e3 e4 hlt)

/-- the frame with its pending Text node sealed -/
def SFrame.sealed (f : SFrame) : SFrame :=
  match f.txt with
  | none => f
  | some d => { f with kids := f.kids ++ [.text d], txt := none }

theorem SFrame.sealed_txt (f : SFrame) : f.sealed.txt = none := by
  unfold SFrame.sealed; split <;> simp_all

theorem SFrame.sealed_id (f : SFrame) : f.sealed.id = f.id := by unfold SFrame.sealed; split <;> rfl
theorem SFrame.sealed_node (f : SFrame) : f.sealed.node = f.node := by unfold SFrame.sealed; split <;> rfl

theorem FramesOK.sealed {a : Arena} {fs : List SFrame} {f : SFrame} (h : FramesOK a fs f) : FramesOK a fs f.sealed := by
  unfold SFrame.sealed
  split
  · exact h
  · rename_i d hd
    exact ⟨h.1, h.2.seal hd⟩

/-- **open a new element** under the top node (no pending text) -/
theorem FramesOK.push {a : Arena} {fs : List SFrame} {f : SFrame} (h : FramesOK a fs f) (ht : f.txt = none) (k : Kind) :
    FramesOK (addChild a f.id k)
      (fs ++ [{ f with node := { f.node with children := f.node.children ++ [a.size] } }])
      { id := a.size, node := { kind := k, parent := some f.id }, kids := [] } := by
  obtain ⟨hp, h1, h2, h3⟩ := h
  rw [ht] at h3
  have hlt : f.id < a.size := (Array.getElem?_eq_some_iff.1 h1).1
  refine ⟨?_, ?_, ?_, ?_⟩
  · refine PrefixOK.snoc (f := { f with node := { f.node with children := f.node.children ++ [a.size] } }) ?_ ?_ ?_ ht ?_
    · exact PrefixOK.local hp (fun j hj => addChild_other_get a f.id k hlt j (Nat.ne_of_lt hj)
        (Nat.ne_of_lt (Nat.lt_trans hj hlt)))
    · exact addChild_top_get a f k h1
    · intro c hc
      rcases List.mem_append.1 hc with hc | hc
      · exact h2 c hc
      · simp at hc; rw [hc]; exact hlt
    · refine ⟨f.node.children, rfl, ?_⟩
      exact SShapeList.local h3 (fun c hc j hj hj' => by
        have := ne_of_le_lt_aux c j a.size hj hj' f.id (h2 c hc)
        exact addChild_other_get a f.id k hlt j this.1 this.2)
  · exact addChild_new_get a f.id k hlt
  · intro c hc; cases hc
  · exact .nil

/-- **add a leaf** (comment, void element) under the top node (no pending text) -/
theorem FramesOK.leaf {a : Arena} {fs : List SFrame} {f : SFrame} (h : FramesOK a fs f) (ht : f.txt = none) (k : Kind)
    (t : Tree) (hk : SShape (addChild a f.id k) (a.size + 1) a.size t) :
    FramesOK (addChild a f.id k) fs
      { f with node := { f.node with children := f.node.children ++ [a.size] }, kids := f.kids ++ [t] } := by
  obtain ⟨hp, h1, h2, h3⟩ := h
  rw [ht] at h3
  have hlt : f.id < a.size := (Array.getElem?_eq_some_iff.1 h1).1
  refine ⟨?_, ?_, ?_, ?_⟩
  · exact PrefixOK.local hp (fun j hj => addChild_other_get a f.id k hlt j (Nat.ne_of_lt hj)
      (Nat.ne_of_lt (Nat.lt_trans hj hlt)))
  · exact addChild_top_get a f k h1
  · intro c hc
    rcases List.mem_append.1 hc with hc | hc
    · exact h2 c hc
    · simp at hc; rw [hc]; exact hlt
  · show (match f.txt with | none => _ | some d => _)
    rw [ht]
    show SShapeList (addChild a f.id k) (addChild a f.id k).size (f.node.children ++ [a.size]) (f.kids ++ [t])
    rw [addChild_size]
    refine SShapeList.append (SShapeList.mono (Nat.le_succ _) ?_) hk
    exact SShapeList.local h3 (fun c hc j hj hj' => by
      have := ne_of_le_lt_aux c j a.size hj hj' f.id (h2 c hc)
      exact addChild_other_get a f.id k hlt j this.1 this.2)

/-- **start a Text node** under the top node (no pending text) -/
theorem FramesOK.textNew {a : Arena} {fs : List SFrame} {f : SFrame} (h : FramesOK a fs f) (ht : f.txt = none) (d : Str) :
    FramesOK (addChild a f.id (.text d)) fs
      { f with node := { f.node with children := f.node.children ++ [a.size] }, txt := some d } := by
  obtain ⟨hp, h1, h2, h3⟩ := h
  rw [ht] at h3
  have hlt : f.id < a.size := (Array.getElem?_eq_some_iff.1 h1).1
  refine ⟨?_, ?_, ?_, ?_⟩
  · exact PrefixOK.local hp (fun j hj => addChild_other_get a f.id _ hlt j (Nat.ne_of_lt hj)
      (Nat.ne_of_lt (Nat.lt_trans hj hlt)))
  · exact addChild_top_get a f _ h1
  · intro c hc
    rcases List.mem_append.1 hc with hc | hc
    · exact h2 c hc
    · simp at hc; rw [hc]; exact hlt
  · show ∃ done tn, _
    rw [addChild_size]
    refine ⟨f.node.children, { kind := .text d, parent := some f.id }, by simp, ?_, ?_, rfl⟩
    · simp only [Nat.add_sub_cancel]
      exact SShapeList.local h3 (fun c hc j hj hj' => by
        have := ne_of_le_lt_aux c j a.size hj hj' f.id (h2 c hc)
        exact addChild_other_get a f.id _ hlt j this.1 this.2)
    · simp only [Nat.add_sub_cancel]
      exact addChild_new_get a f.id _ hlt

/-- **extend the pending Text node** -/
theorem FramesOK.textAppend {a : Arena} {fs : List SFrame} {f : SFrame} {d : Str} (h : FramesOK a fs f)
    (ht : f.txt = some d) (d' : Str) :
    FramesOK (a.modify (a.size - 1) fun n => { n with kind := .text d' }) fs { f with txt := some d' } := by
  obtain ⟨hp, h1, h2, h3⟩ := h
  rw [ht] at h3
  obtain ⟨done, tn, e1, e2, e3, e4⟩ := h3
  have hlt : f.id < a.size - 1 := by
    have := h2 (a.size - 1) (by rw [e1]; simp)
    exact this
  have hother : ∀ j, j ≠ a.size - 1 → (a.modify (a.size - 1) fun n => { n with kind := .text d' })[j]? = a[j]? := by
    intro j hj
    rw [Array.getElem?_modify, if_neg (fun h => hj h.symm)]
  refine ⟨?_, ?_, h2, ?_⟩
  · exact PrefixOK.local hp (fun j hj => hother j (by have : j < f.id := hj; omega))
  · show (a.modify (a.size - 1) fun n => { n with kind := .text d' })[f.id]? = some f.node
    rw [hother f.id (by omega)]; exact h1
  · show ∃ done tn, _
    rw [Array.size_modify]
    refine ⟨done, { tn with kind := .text d' }, e1, ?_, ?_, rfl⟩
    · exact SShapeList.local e2 (fun c hc j hj hj' => hother j (by omega))
    · rw [Array.getElem?_modify, if_pos rfl, e3]; rfl

/-- the tree of a completed frame (no pending text) -/
def SFrame.tree (g : SFrame) : Tree :=
  match g.node.kind with
  | .element ns nm attrs => .elem (some ns.uri) nm attrs (mergeText g.kids)
  | .document => .doc (mergeText g.kids)
  | _ => .doc []

theorem TopOK.shape {a : Arena} {g : SFrame} (h : TopOK a g) (ht : g.txt = none) (hc : g.node.content = none)
    (hk : (∃ ns nm attrs, g.node.kind = .element ns nm attrs) ∨ g.node.kind = .document) :
    SShape a a.size g.id g.tree := by
  obtain ⟨h1, h2, h3⟩ := h
  rw [ht] at h3
  have hlt : g.id < a.size := (Array.getElem?_eq_some_iff.1 h1).1
  rcases hk with ⟨ns, nm, attrs, hk⟩ | hk
  · unfold SFrame.tree; rw [hk]; exact .elem h1 hk hc hlt h2 h3
  · unfold SFrame.tree; rw [hk]; exact .doc h1 hk hc hlt h2 h3

/-- **close the current element**: its tree becomes the last completed child of the frame below -/
theorem FramesOK.pop {a : Arena} {fs : List SFrame} {f g : SFrame} (h : FramesOK a (fs ++ [f]) g) (ht : g.txt = none)
    (hc : g.node.content = none)
    (hk : (∃ ns nm attrs, g.node.kind = .element ns nm attrs) ∨ g.node.kind = .document) :
    FramesOK a fs { f with kids := f.kids ++ [g.tree] } := by
  obtain ⟨hp, htop⟩ := h
  obtain ⟨p1, p2, p3, pt, ⟨done, p4, p5⟩⟩ := PrefixOK.unsnoc hp
  refine ⟨p1, p2, p3, ?_⟩
  show (match f.txt with | none => _ | some d => _)
  rw [pt]
  show SShapeList a a.size f.node.children (f.kids ++ [g.tree])
  rw [p4]
  have hlt : g.id < a.size := (Array.getElem?_eq_some_iff.1 htop.1).1
  exact SShapeList.append (SShapeList.mono (Nat.le_of_lt hlt) p5) (htop.shape ht hc hk)

/-- the result tree of the document frame -/
theorem FramesOK.result {a : Arena} {f : SFrame} (h : FramesOK a [] f) (ht : f.txt = none) (hc : f.node.content = none)
    (hk : (∃ ns nm attrs, f.node.kind = .element ns nm attrs) ∨ f.node.kind = .document) :
    toTreeAux a (a.size + 1) f.id = [f.tree] :=
  (h.2.shape ht hc hk).toTree _ (by omega)

end H5.Props.C01b
