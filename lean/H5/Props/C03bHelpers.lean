/-
  C03 fuel part — specifications of the algorithms of `H5.Model.TreeBuilder.Helpers`
  (treebuilders/base.py and the HTMLParser helper methods).
-/
import H5.Props.C03bLoops
set_option linter.unusedSimpArgs false
set_option linter.unusedVariables false
namespace H5.Props.C03b
open H5 H5.Model H5.Model.TB H5.Model.Dom
open H5.Props.C02c (NF Post Post_bind Post_mono Post_pure Post_ok Post_error Post_throw Post_ite
  NF_typeError NF_keyError NF_indexError NF_assertFail NF_valueError NF_lookupError)

/-! ### computations that keep the list of active formatting elements (and the phase registers) -/

class KA {α : Type} (m : M α) : Prop where
  out : ∀ st, Tr m st (fun _ st' => st'.activeFormattingElements = st.activeFormattingElements ∧ F st' = F st)

instance (priority := 50) KA_of_RO {α : Type} (m : M α) [h : RO m] : KA m :=
  ⟨fun st => Tr_mono (h.out st) (fun _ _ e => by subst e; exact ⟨rfl, rfl⟩)⟩
instance KA_bind {α β : Type} (m : M α) (f : α → M β) [h1 : KA m] [h2 : ∀ a, KA (f a)] : KA (m >>= f) :=
  ⟨fun st => (Tr_bind ..).2 (Tr_mono (h1.out st)
    (fun a st' e => Tr_mono ((h2 a).out st') (fun _ _ e' => ⟨e'.1.trans e.1, e'.2.trans e.2⟩)))⟩
instance KA_map {α β : Type} (g : α → β) (m : M α) [h1 : KA m] : KA (g <$> m) :=
  ⟨fun st => (Tr_map ..).2 (h1.out st)⟩
instance KA_ite {α : Type} (c : Prop) [Decidable c] (a b : M α) [h1 : KA a] [h2 : KA b] :
    KA (if c then a else b) := by split <;> assumption
theorem KA_modify (f : PState → PState)
    (h : ∀ st, (f st).activeFormattingElements = st.activeFormattingElements ∧ F (f st) = F st) :
    KA (modify f : M PUnit) := ⟨fun st => h st⟩
instance KA_modifyArena (f : Arena → Except PyErr Arena) [h : ∀ a, ENF (f a)] : KA (modifyArena f) := ⟨fun st => by
  unfold modifyArena
  tr_simp
  have := (h st.arena).out
  split
  · exact ⟨rfl, rfl⟩
  · rename_i e he; rw [he] at this; exact this⟩
instance KA_allocNode (k a) : KA (allocNode k a) := ⟨fun st => by
  unfold allocNode
  tr_simp
  simp [F]⟩
instance KA_openPush (x) : KA (openPush x) := KA_modify _ (fun _ => ⟨rfl, rfl⟩)

macro "ka_step" : tactic => `(tactic| first
  | assumption
  | (with_reducible refine @KA_bind _ _ _ _ ?_ ?_)
  | (with_reducible refine @KeepsOpen_bind _ _ _ _ ?_ ?_)
  | (intro _)
  | (dsimp only)
  | infer_instance
  | split)
macro "ka_auto" : tactic => `(tactic| repeat' ka_step)

/-! ### treebuilders/base.py -/

instance RO_nodesEqual (a b) : RO (nodesEqual a b) := by unfold nodesEqual; tb_auto

instance RO_afeAppendScan (node) : ∀ l n, RO (afeAppendScan node l n)
  | [], n => by unfold afeAppendScan; tb_auto
  | none :: _, n => by unfold afeAppendScan; tb_auto
  | some e :: rest, n => by
    unfold afeAppendScan
    haveI : ∀ k, RO (afeAppendScan node rest k) := RO_afeAppendScan node rest
    tb_auto

instance Fr_afeAppend (node) : Fr (afeAppend node) := by unfold afeAppend; tb_auto

instance RO_elementInScopeLoop (isTarget : NodeId → M Bool) [h : ∀ n, RO (isTarget n)] (elems invert) :
    ∀ l, RO (elementInScopeLoop isTarget elems invert l)
  | [] => by unfold elementInScopeLoop; tb_auto
  | node :: rest => by
    unfold elementInScopeLoop
    haveI := RO_elementInScopeLoop isTarget elems invert rest
    tb_auto

instance RO_elementInScope (t v) : RO (elementInScope t v) := by unfold elementInScope; tb_auto
instance RO_elementInScopeNode (t v) : RO (elementInScopeNode t v) := by unfold elementInScopeNode; tb_auto

instance RO_findTable : ∀ l, RO (getTableMisnestedNodePosition.findTable l)
  | [] => by unfold getTableMisnestedNodePosition.findTable; tb_auto
  | e :: rest => by
    unfold getTableMisnestedNodePosition.findTable
    haveI := RO_findTable rest
    tb_auto

instance RO_getTableMisnestedNodePosition : RO getTableMisnestedNodePosition := by
  unfold getTableMisnestedNodePosition; tb_auto

instance KA_createElement (d) : KA (createElement d) := by unfold createElement; ka_auto
instance KA_insertElementNormal (d) : KA (insertElementNormal d) := by unfold insertElementNormal; ka_auto
instance KA_insertElementTable (d) : KA (insertElementTable d) := by unfold insertElementTable; ka_auto
instance KA_insertElement (d) : KA (insertElement d) := by unfold insertElement; ka_auto

instance (priority := 40) Fr_of_KA {α : Type} (m : M α) [h : KA m] : Fr m :=
  ⟨fun st => Tr_mono (h.out st) (fun _ _ e => e.2)⟩

instance Fr_insertElementTok (t s) : Fr (insertElementTok t s) := by unfold insertElementTok; tb_auto
instance Fr_insertText (d) : Fr (insertText d) := by unfold insertText; tb_auto
instance Fr_insertRoot (d) : Fr (insertRoot d) := by unfold insertRoot; tb_auto
instance Fr_insertDoctype (n p s) : Fr (insertDoctype n p s) := by unfold insertDoctype; tb_auto
instance Fr_insertComment (d p) : Fr (insertComment d p) := by unfold insertComment; tb_auto

/-! ### `reconstructActiveFormattingElements` -/

/-- the rewind loop returns an index `≤ len(afe)` -/
theorem reconstructRewind_tr (l : List (Option NodeId)) :
    ∀ i entry st, i < l.length → Tr (reconstructRewind l i entry) st (fun r st' => st' = st ∧ r ≤ l.length) := by
  intro i
  induction i with
  | zero =>
    intro entry st hi
    unfold reconstructRewind
    simp only [Tr_bind]
    refine Tr_mono (Q := fun _ st' => st' = st) (by split <;> exact RO.out _) ?_
    intro stop st' hst'; rw [hst']
    split
    · exact ⟨rfl, by omega⟩
    · exact ⟨rfl, by omega⟩
  | succ i ih =>
    intro entry st hi
    unfold reconstructRewind
    simp only [Tr_bind]
    refine Tr_mono (Q := fun _ st' => st' = st) (by split <;> exact RO.out _) ?_
    intro stop st' hst'; rw [hst']
    split
    · exact ⟨rfl, by omega⟩
    · split
      · exact ih _ st (by omega)
      · exact NF_indexError _

theorem reconstructLoop_tr :
    ∀ fuel i st, i ≤ st.activeFormattingElements.length → st.activeFormattingElements.length + 1 ≤ fuel + i →
      Tr (reconstructLoop fuel i) st (fun _ st' => F st' = F st) := by
  intro fuel
  induction fuel with
  | zero => intro i st h1 h2; omega
  | succ fuel ih =>
    intro i st h1 h2
    unfold reconstructLoop
    simp only [Tr_bind, Tr_afe]
    split
    · exact NF_indexError _
    · exact NF_attributeError _
    · rename_i entry hentry
      simp only [Tr_bind, Tr_get, Tr_monadLift, Tr_lift, Post_bind]
      refine Post_mono (ENF_arena_cloneNode st.arena entry).out ?_
      rintro ⟨a, clone⟩ _
      simp only [Tr_bind, Tr_set]
      apply Tr_RO
      rintro ⟨cns, cname⟩
      simp only [Tr_bind]
      apply Tr_RO
      intro attrs
      refine Tr_mono ((KA_insertElement _).out _) ?_
      intro element st1 ⟨ha, hf⟩
      simp only at ha hf
      simp only [Tr_afe]
      split
      · simp only [Tr_bind, Tr_setAfe, Tr_afe]
        split
        · exact NF_indexError _
        · split
          · exact hf
          · refine Tr_mono (ih (i + 1) _ ?_ ?_) ?_
            · have hlt : i < st1.activeFormattingElements.length := by assumption
              simp [ha]; rw [ha] at hlt; exact hlt
            · simp [ha]; omega
            · intro _ st' h; exact h.trans hf
      · exact NF_indexError _

theorem reconstructActiveFormattingElements_tr (st : PState) :
    Tr reconstructActiveFormattingElements st (fun _ st' => F st' = F st) := by
  unfold reconstructActiveFormattingElements
  simp only [Tr_bind, Tr_afe]
  split
  · rfl
  · split
    · exact NF_indexError _
    · rename_i entry hentry
      simp only [Tr_bind]
      refine Tr_mono (Q := fun _ st' => st' = st) (by split <;> exact RO.out _) ?_
      intro done st' hst'; rw [hst']
      split
      · rfl
      · have hlen : st.activeFormattingElements.length - 1 < st.activeFormattingElements.length := by
          have := List.getElem?_eq_some_iff.1 hentry
          obtain ⟨h, _⟩ := this
          exact h
        simp only [Tr_bind]
        refine Tr_mono (reconstructRewind_tr _ _ entry st hlen) ?_
        rintro start st' ⟨hst', hs⟩
        rw [hst']
        exact reconstructLoop_tr _ _ _ hs (by omega)

instance Fr_reconstructActiveFormattingElements : Fr reconstructActiveFormattingElements :=
  ⟨reconstructActiveFormattingElements_tr⟩

/-- **level 1**: `reconstructActiveFormattingElements` never exhausts its fuel `len(afe) + 1` -/
theorem reconstructActiveFormattingElements_fuel (st : PState) (site : String) :
    reconstructActiveFormattingElements.run st ≠ .error (.outOfFuel site) :=
  Tr_run (reconstructActiveFormattingElements_tr st) site

instance Fr_clearActiveFormattingElements : Fr clearActiveFormattingElements := by
  unfold clearActiveFormattingElements; tb_auto

instance RO_elementInActiveFormattingElements_loop (name) :
    ∀ l, RO (elementInActiveFormattingElements.loop name l)
  | [] => by unfold elementInActiveFormattingElements.loop; tb_auto
  | none :: _ => by unfold elementInActiveFormattingElements.loop; tb_auto
  | some item :: rest => by
    unfold elementInActiveFormattingElements.loop
    haveI := RO_elementInActiveFormattingElements_loop name rest
    tb_auto

instance RO_elementInActiveFormattingElements (name) : RO (elementInActiveFormattingElements name) := by
  unfold elementInActiveFormattingElements; tb_auto

instance RO_getDocument : RO getDocument := by unfold getDocument; tb_auto
instance Fr_getFragment : Fr getFragment := by unfold getFragment; tb_auto

/-! ### html5parser.py helpers -/

instance RO_isHTMLIntegrationPoint (e) : RO (isHTMLIntegrationPoint e) := by
  unfold isHTMLIntegrationPoint; tb_auto
instance RO_isMathMLTextIntegrationPoint (e) : RO (isMathMLTextIntegrationPoint e) := by
  unfold isMathMLTextIntegrationPoint; tb_auto

/-- no entry of `newModes` names the `inForeignContent` phase -/
theorem newModes_not_foreign :
    ∀ p ∈ Gen.Lit.HTMLParser_resetInsertionMode_0,
      Phase.all.find? (fun q => q.key == String.ofList (p.2.map Char.ofNat)) ≠ some .inForeignContent := by
  decide

theorem ofKey_ok (site k p) (h : Phase.ofKey site k = .ok p) : Phase.all.find? (fun q => q.key == k) = some p := by
  unfold Phase.ofKey at h
  split at h
  · rename_i q hq; cases h; exact hq
  · cases h

theorem ofKey_newModes_tr (site : String) (s : Str) (p : Str × Str) (Q : Phase → Prop)
    (hp : List.find? (fun p => p.fst == s) Gen.Lit.HTMLParser_resetInsertionMode_0 = some p)
    (hq : ∀ a, a ≠ Phase.inForeignContent → Q a) :
    Post (Phase.ofKey site (String.ofList (List.map Char.ofNat p.snd))) Q := by
  have hmem := List.mem_of_find?_eq_some hp
  have hne := newModes_not_foreign p hmem
  cases h : Phase.ofKey site (String.ofList (List.map Char.ofNat p.snd)) with
  | ok a =>
    apply hq
    intro he
    rw [ofKey_ok _ _ _ h, he] at hne
    exact hne rfl
  | error e =>
    have := (ENF_ofKey site (String.ofList (List.map Char.ofNat p.snd))).out
    rw [h] at this
    exact this

theorem resetInsertionModeLoop_tr (bottom : NodeId) :
    ∀ l last st, Tr (resetInsertionModeLoop bottom l last) st
      (fun r st' => st' = st ∧ r ≠ some .inForeignContent) := by
  intro l
  induction l with
  | nil => intro last st; unfold resetInsertionModeLoop; exact ⟨rfl, by simp⟩
  | cons node rest ih =>
    intro last st
    unfold resetInsertionModeLoop
    simp only [Tr_bind, Tr_getCfg]
    apply Tr_RO
    intro nodeName
    repeat' (first
      | exact ih _ _
      | (refine ofKey_newModes_tr _ _ _ _ (by assumption) ?_; intro a ha; simp [ha]; done)
      | (simp only [Tr_bind, Tr_map, Tr_pure, Tr_throw, Tr_lift, Tr_monadLift, NF_assertFail, reduceCtorEq,
          ne_eq, not_false_eq_true, and_self, and_true])
      | exact NF_assertFail _
      | (intro _)
      | (apply Tr_RO)
      | split
      | (simp; done))

instance RO_resetInsertionModeLoop (bottom l last) : RO (resetInsertionModeLoop bottom l last) :=
  ⟨fun st => Tr_mono (resetInsertionModeLoop_tr bottom l last st) (fun _ _ h => h.1)⟩

instance Pv_resetInsertionMode : Pv resetInsertionMode := ⟨fun st hi => by
  unfold resetInsertionMode
  simp only [Tr_bind, Tr_openElems]
  split
  · exact (Pv_setPhaseO none (by simp)).out st hi
  · simp only [Tr_bind]
    refine Tr_mono (resetInsertionModeLoop_tr _ _ _ st) ?_
    rintro ph st' ⟨hst', hph⟩
    rw [hst']
    exact (Pv_setPhaseO ph hph).out st hi⟩

/-- `originalPhase := phase` -/
instance Pv_saveOriginalPhase : Pv (modify fun st => { st with originalPhase := st.phase } : M PUnit) :=
  ⟨fun st hi => ⟨hi.1, hi.1, hi.2.2⟩⟩

instance Pv_parseRCDataRawtext (t c) : Pv (parseRCDataRawtext t c) := by
  unfold parseRCDataRawtext
  haveI := Pv_setPhase .text (by decide)
  tb_auto

end H5.Props.C03b
