/-
  C07 identity, tree-construction side — the fixed prefix `<!DOCTYPE html><html><head></head><body>` and the fixed
  suffix `</body></html>` + EOF of the covered documents.  The prefix is evaluated by the kernel on the concrete
  initial state; the suffix symbolically on a `BodyInv` state.
-/
import H5.Props.C07bStep
set_option linter.unusedSimpArgs false
set_option linter.unusedVariables false
namespace H5.Props.C07b
open H5 H5.Model H5.Model.TB H5.Model.Dom

deriving instance DecidableEq for H5.Model.Dom.Node
deriving instance DecidableEq for H5.Model.Dom.Arena


/-- value of an `Except`, with a default -/
def getOk (x : Except PyErr PState) (d : PState) : PState :=
  match x with
  | .ok p => p
  | .error _ => d

def dflt : PState := { cfg := cfg0, arena := Arena.empty, document := 0, phase := none }

def stepSt (ps : PState) (t : TTok) : Except PyErr PState := (TB.step cfg0 ps t).map (·.1)

/-- the parser states after `reset()`, the DOCTYPE, `<html>`, `<head>`, `</head>`, `<body>` -/
def p0 : PState := getOk (TB.init cfg0) dflt
def p1 : PState := getOk (stepSt p0 (.doctype (some sHtml) none none true)) dflt
def p2 : PState := getOk (stepSt p1 (.startTag sHtml [] false)) dflt
def p3 : PState := getOk (stepSt p2 (.startTag sHead [] false)) dflt
def p4 : PState := getOk (stepSt p3 (.endTag sHead [] false)) dflt
def p5 : PState := getOk (stepSt p4 (.startTag sBody [] false)) dflt

/-- a step that succeeded without a tokenizer state switch -/
def stepOkNone (ps : PState) (t : TTok) : Bool :=
  match TB.step cfg0 ps t with
  | .ok (_, none) => true
  | _ => false

theorem step_of_okNone (ps : PState) (t : TTok) (h : stepOkNone ps t = true) :
    TB.step cfg0 ps t = .ok (getOk (stepSt ps t) dflt, none) := by
  unfold stepOkNone at h
  unfold stepSt getOk
  cases hs : TB.step cfg0 ps t with
  | error e => rw [hs] at h; cases h
  | ok r =>
    obtain ⟨a, sw⟩ := r
    rw [hs] at h
    cases sw with
    | none => rfl
    | some s => cases h

theorem init_p0 : TB.init cfg0 = .ok p0 := by
  have : (match TB.init cfg0 with | .ok _ => true | .error _ => false) = true := by decide +kernel
  unfold p0 getOk
  cases h : TB.init cfg0 with
  | ok p => rfl
  | error e => rw [h] at this; cases this

theorem step_p1 : TB.step cfg0 p0 (.doctype (some sHtml) none none true) = .ok (p1, none) :=
  step_of_okNone _ _ (by decide +kernel)
theorem step_p2 : TB.step cfg0 p1 (.startTag sHtml [] false) = .ok (p2, none) :=
  step_of_okNone _ _ (by decide +kernel)
theorem step_p3 : TB.step cfg0 p2 (.startTag sHead [] false) = .ok (p3, none) :=
  step_of_okNone _ _ (by decide +kernel)
theorem step_p4 : TB.step cfg0 p3 (.endTag sHead [] false) = .ok (p4, none) :=
  step_of_okNone _ _ (by decide +kernel)
theorem step_p5 : TB.step cfg0 p4 (.startTag sBody [] false) = .ok (p5, none) :=
  step_of_okNone _ _ (by decide +kernel)

/-- the four nodes below the body and the body node, as the prefix leaves them -/
def nDoc : Node := { kind := .document, children := [1, 2] }
def nDoctype : Node := { kind := .doctype (some sHtml) none none, parent := some 0 }
def nHtml : Node := { kind := .element (some htmlNs) sHtml, parent := some 0, children := [3, 4] }
def nHead : Node := { kind := .element (some htmlNs) sHead, parent := some 2 }
def nBody : Node := { kind := .element (some htmlNs) sBody, parent := some 2 }

theorem p5_arena : p5.arena = ⟨#[nDoc, nDoctype, nHtml, nHead, nBody]⟩ := by decide +kernel

theorem p5_fields : p5.phase = some .inBody ∧ p5.openElements = [2, 4] ∧ p5.activeFormattingElements = [] ∧
    p5.insertFromTable = false ∧ p5.errors = #[] ∧ p5.inBodyDropNewline = false ∧ p5.document = 0 ∧
    p5.cfg.innerHTML = none := by decide +kernel

def docFrame : Frame := { id := 0, node := nDoc, kids := [.doctype (some sHtml) none none] }
def htmlFrame : Frame := { id := 2, node := nHtml, kids := [.elem (some htmlNs) sHead [] []] }
def bodyFrame : Frame := { id := 4, node := nBody, kids := [] }

/-- the state after the prefix: the document and `html` are open below the current node `body` -/
theorem p5_inv : BodyInv p5 [docFrame, htmlFrame] bodyFrame := by
  obtain ⟨h1, h2, h3, h4, h5, h6, h7, _⟩ := p5_fields
  refine ⟨h1, by rw [h2]; rfl, h3, h4, h5, h6, h7, ?_, ⟨sBody, rfl⟩, by simp⟩
  rw [p5_arena]
  refine ⟨⟨rfl, by decide, ⟨[1], rfl, ?_⟩, ⟨rfl, by decide, ⟨[3], rfl, ?_⟩, trivial⟩⟩, ⟨rfl, by decide, .nil⟩⟩
  · exact .cons (.doctype (n := nDoctype) rfl rfl (by decide)) .nil
  · refine .cons ?_ .nil
    exact Shape.elem (n := nHead) (kids := []) rfl rfl (by decide) (by intro c hc; cases hc) .nil

/-- the state after `<head>`: the document and `html` are open below the current node `head` -/
def nHtml3 : Node := { kind := .element (some htmlNs) sHtml, parent := some 0, children := [3] }

theorem p3_arena : p3.arena = ⟨#[nDoc, nDoctype, nHtml3, nHead]⟩ := by decide +kernel

theorem p3_fields : p3.phase = some .inHead ∧ p3.openElements = [2, 3] ∧ p3.activeFormattingElements = [] ∧
    p3.insertFromTable = false ∧ p3.errors = #[] ∧ p3.inBodyDropNewline = false ∧ p3.document = 0 := by decide +kernel

def htmlFrame3 : Frame := { id := 2, node := nHtml3, kids := [] }
def headFrame : Frame := { id := 3, node := nHead, kids := [] }

theorem p3_inv : PhInv .inHead p3 [docFrame, htmlFrame3] headFrame := by
  obtain ⟨h1, h2, h3, h4, h5, h6, h7⟩ := p3_fields
  refine ⟨h1, by rw [h2]; rfl, h3, h4, h5, h6, h7, ?_, ⟨sHead, rfl⟩, by simp⟩
  rw [p3_arena]
  refine ⟨⟨rfl, by decide, ⟨[1], rfl, ?_⟩, ⟨rfl, by decide, ⟨[], rfl, .nil⟩, trivial⟩⟩, ⟨rfl, by decide, .nil⟩⟩
  exact .cons (.doctype (n := nDoctype) rfl rfl (by decide)) .nil

/-! ### the suffix `</body></html>` and EOF -/

theorem runTag_InBody_endTagBody (r : Rec) (tok : Token) :
    runTagHandler r "InBodyPhase.endTagBody" tok = InBody_endTagBody tok := by
  glue_eval runTagHandler runTagHandler.match_1

theorem runTag_AfterBody_endTagHtml (r : Rec) (tok : Token) :
    runTagHandler r "AfterBodyPhase.endTagHtml" tok = AfterBody_endTagHtml tok := by
  glue_eval runTagHandler runTagHandler.match_1

theorem runEOF_AfterAfterBody (r : Rec) : runEOF r "AfterAfterBodyPhase.processEOF" = AfterAfterBody_processEOF := by
  glue_eval runEOF runEOF.match_1

theorem resolve_afterBody_E : resolveMethod .afterBody "processEndTag" = .ok "Phase.processEndTag" := by decide
theorem resolve_afterAfterBody_EOF :
    resolveMethod .afterAfterBody "processEOF" = .ok "AfterAfterBodyPhase.processEOF" := by decide

theorem runProcess_afterBody_E (r : Rec) (tok : Token) :
    runProcess r .afterBody "processEndTag" tok = Phase_processEndTag r .afterBody tok := by
  unfold runProcess
  rw [resolve_afterBody_E]
  show (match "Phase.processEndTag" with
    | "Phase.processStartTag" => Phase_processStartTag r .afterBody tok
    | "Phase.processEndTag" => Phase_processEndTag r .afterBody tok
    | "InBodyPhase.<slot>" =>
      if "processEndTag" == "processSpaceCharacters" then InBody_processSpaceCharacters tok
      else throw (PyErr.lookupError ("no-model-for-slot:" ++ "processEndTag"))
    | _ => runProcessPlain r "Phase.processEndTag" tok) = _
  split
  · rename_i h; exact absurd h (by decide)
  · rfl
  · rename_i h; exact absurd h (by decide)
  · exact absurd rfl ‹"Phase.processEndTag" = "Phase.processEndTag" → False›

theorem nameTuple_run (st : PState) (i : Nat) (n : Node) (nm : Str) (h : st.arena.nodes[i]? = some n)
    (hk : n.kind = .element (some htmlNs) nm) : (nameTuple i).run st = .ok ((htmlNs, nm), st) := by
  unfold nameTuple
  simp only [run_bind, elemInfo_run st i n _ _ h hk, ok_bind]
  rfl

theorem nameIs_run (st : PState) (i : Nat) (n : Node) (ns : Option Str) (nm : Str) (s : String)
    (h : st.arena.nodes[i]? = some n) (hk : n.kind = .element ns nm) :
    (nameIs i s).run st = .ok (nm == lit s, st) := by
  unfold nameIs
  simp only [run_bind, nodeName_run st i n ns nm h hk, ok_bind]
  rfl

/-- `</body>` with `body` as the current node: the phase becomes `afterBody`, nothing else changes -/
theorem step_endBody {ps fs f} (h : BodyInv ps fs f) (hb : f.node.kind = .element (some htmlNs) sBody) :
    TB.step cfg0 ps (.endTag sBody [] false) = .ok ({ resetFor ps with phase := some .afterBody }, none) := by
  have hr := resetFor_BodyInv h
  let d : TagData := { name := sBody, attrs := attrsOfPairs [], selfClosing := false, orig := true }
  have hopen : (resetFor ps).openElements.reverse = f.id :: (fs.drop 1).reverse.map (·.id) := by
    show ps.openElements.reverse = _
    rw [h.opens]; simp
  have hcall : (callOf (mkRec 48) .inBody (.endTag d)).run (resetFor ps) =
      .ok (none, { resetFor ps with phase := some .afterBody }) := by
    show (runProcess (mkRec 47) .inBody "processEndTag" (.endTag d)).run (resetFor ps) = _
    rw [runProcess_inBody_E]
    unfold Phase_processEndTag
    have e1 : (Token.endTag d).tag "Phase.processEndTag" = .ok d := rfl
    have e2 : lookupHandler Gen.endTagHandlers "endTagHandler" .inBody d.name = .ok "InBodyPhase.endTagBody" := by
      decide
    simp only [run_bind, liftExcept_run _ _ _ e1, monadLift_run _ _ _ e1, ok_bind, liftExcept_run _ _ _ e2,
      monadLift_run _ _ _ e2, runTag_InBody_endTagBody]
    unfold InBody_endTagBody elementInScope
    have e3 : nsE "html" = .ok htmlNs := by decide
    have e4 : listElements (Option.map lit none) = .ok (Gen.Lit.listElementsMap.head!.2) := by decide
    simp only [run_bind, liftExcept_run _ _ _ e3, monadLift_run _ _ _ e3, ok_bind, liftExcept_run _ _ _ e4,
      monadLift_run _ _ _ e4, openElems_run, hopen]
    unfold elementInScopeLoop
    have e5 : (lit "body") = sBody := by decide
    simp only [run_bind, nameTuple_run (resetFor ps) f.id f.node sBody hr.topNode hb, ok_bind, run_pure, e5,
      beq_self_eq_true, ↓reduceIte, Bool.not_true, Bool.false_eq_true,
      openLast_run (resetFor ps) _ f.id hr.last, nameIs_run (resetFor ps) f.id f.node _ sBody "body" hr.topNode hb]
    rfl
  have := step_of_call ps _ (.endTag sBody [] false) (.endTag d) f.id f.node sBody .inBody rfl
    (fun d' hd' => by cases hd') h.phase h.last h.topNode hb hcall
  exact this

/-- `</html>` after `</body>` -/
theorem step_endHtml (ps : PState) (cur : Nat) (n : Node) (nm : Str) (hph : ps.phase = some .afterBody)
    (hl : ps.openElements.getLast? = some cur) (h : ps.arena.nodes[cur]? = some n)
    (hk : n.kind = .element (some htmlNs) nm) :
    TB.step cfg0 ps (.endTag sHtml [] false) = .ok ({ resetFor ps with phase := some .afterAfterBody }, none) := by
  let d : TagData := { name := sHtml, attrs := attrsOfPairs [], selfClosing := false, orig := true }
  have hcall : (callOf (mkRec 48) .afterBody (.endTag d)).run (resetFor ps) =
      .ok (none, { resetFor ps with phase := some .afterAfterBody }) := by
    show (runProcess (mkRec 47) .afterBody "processEndTag" (.endTag d)).run (resetFor ps) = _
    rw [runProcess_afterBody_E]
    unfold Phase_processEndTag
    have e1 : (Token.endTag d).tag "Phase.processEndTag" = .ok d := rfl
    have e2 : lookupHandler Gen.endTagHandlers "endTagHandler" .afterBody d.name = .ok "AfterBodyPhase.endTagHtml" := by
      decide
    simp only [run_bind, liftExcept_run _ _ _ e1, monadLift_run _ _ _ e1, ok_bind, liftExcept_run _ _ _ e2,
      monadLift_run _ _ _ e2, runTag_AfterBody_endTagHtml]
    rfl
  exact step_of_call ps _ (.endTag sHtml [] false) (.endTag d) cur n nm .afterBody rfl
    (fun d' hd' => by cases hd') hph hl h hk hcall

/-- EOF in `afterAfterBody`: nothing happens -/
theorem finish_afterAfterBody (ps : PState) (hph : ps.phase = some .afterAfterBody) :
    TB.finish cfg0 ps = .ok { ps with cfg := cfg0 } := by
  unfold TB.finish
  have : (eofLoop (mkRec cfg0.dispatchDepth) (Phase.all.length + 2) []).run { ps with cfg := cfg0 } =
      .ok ((), { ps with cfg := cfg0 }) := by
    show (eofLoop (mkRec 48) (24 + 1) []).run { ps with cfg := cfg0 } = _
    unfold eofLoop
    have hp' : ({ ps with cfg := cfg0 } : PState).phase = some .afterAfterBody := hph
    simp only [run_bind, getPhase_run, ok_bind, curPhase_run _ _ .afterAfterBody hp']
    show ((runProcessEOF (mkRec 47) .afterAfterBody).run { ps with cfg := cfg0 } >>= _) = _
    unfold runProcessEOF
    simp only [run_bind, liftExcept_run _ _ _ resolve_afterAfterBody_EOF, monadLift_run _ _ _ resolve_afterAfterBody_EOF,
      ok_bind, runEOF_AfterAfterBody]
    rfl
  rw [this]

end H5.Props.C07b
