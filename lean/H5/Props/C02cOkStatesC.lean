/-
  Property C02 "total", clean corollary — per-state preservation of the invariant `Inv`
  (each state method, started in its state with the token shape it expects, succeeds or raises `ValueError`,
  and leaves a state whose expectations are met).
-/
import H5.Props.C02cOkTactics
set_option linter.unusedSimpArgs false
namespace H5.Props.C02c
open H5 H5.Gen H5.Model H5.Model.Tokenizer

theorem commentStartDashState_ok (s : St) (hs : s.state = .commentStartDashState) (hi : Inv s) :
    OPost (commentStartDashState s) (fun r => r.1 = true → Inv r.2) := by
  state_ok commentStartDashState

theorem commentState_ok (s : St) (hs : s.state = .commentState) (hi : Inv s) :
    OPost (commentState s) (fun r => r.1 = true → Inv r.2) := by
  state_ok commentState

theorem commentEndDashState_ok (s : St) (hs : s.state = .commentEndDashState) (hi : Inv s) :
    OPost (commentEndDashState s) (fun r => r.1 = true → Inv r.2) := by
  state_ok commentEndDashState

theorem commentEndState_ok (s : St) (hs : s.state = .commentEndState) (hi : Inv s) :
    OPost (commentEndState s) (fun r => r.1 = true → Inv r.2) := by
  state_ok commentEndState

theorem commentEndBangState_ok (s : St) (hs : s.state = .commentEndBangState) (hi : Inv s) :
    OPost (commentEndBangState s) (fun r => r.1 = true → Inv r.2) := by
  state_ok commentEndBangState

theorem doctypeState_ok (s : St) (hs : s.state = .doctypeState) (hi : Inv s) :
    OPost (doctypeState s) (fun r => r.1 = true → Inv r.2) := by
  state_ok doctypeState

theorem beforeDoctypeNameState_ok (s : St) (hs : s.state = .beforeDoctypeNameState) (hi : Inv s) :
    OPost (beforeDoctypeNameState s) (fun r => r.1 = true → Inv r.2) := by
  state_ok beforeDoctypeNameState

theorem doctypeNameState_ok (s : St) (hs : s.state = .doctypeNameState) (hi : Inv s) :
    OPost (doctypeNameState s) (fun r => r.1 = true → Inv r.2) := by
  state_ok doctypeNameState

theorem afterDoctypePublicKeywordState_ok (s : St) (hs : s.state = .afterDoctypePublicKeywordState) (hi : Inv s) :
    OPost (afterDoctypePublicKeywordState s) (fun r => r.1 = true → Inv r.2) := by
  state_ok afterDoctypePublicKeywordState

theorem beforeDoctypePublicIdentifierState_ok (s : St) (hs : s.state = .beforeDoctypePublicIdentifierState) (hi : Inv s) :
    OPost (beforeDoctypePublicIdentifierState s) (fun r => r.1 = true → Inv r.2) := by
  state_ok beforeDoctypePublicIdentifierState

theorem doctypePublicIdentifierDoubleQuotedState_ok (s : St) (hs : s.state = .doctypePublicIdentifierDoubleQuotedState) (hi : Inv s) :
    OPost (doctypePublicIdentifierDoubleQuotedState s) (fun r => r.1 = true → Inv r.2) := by
  state_ok doctypePublicIdentifierDoubleQuotedState

theorem doctypePublicIdentifierSingleQuotedState_ok (s : St) (hs : s.state = .doctypePublicIdentifierSingleQuotedState) (hi : Inv s) :
    OPost (doctypePublicIdentifierSingleQuotedState s) (fun r => r.1 = true → Inv r.2) := by
  state_ok doctypePublicIdentifierSingleQuotedState

theorem afterDoctypePublicIdentifierState_ok (s : St) (hs : s.state = .afterDoctypePublicIdentifierState) (hi : Inv s) :
    OPost (afterDoctypePublicIdentifierState s) (fun r => r.1 = true → Inv r.2) := by
  state_ok afterDoctypePublicIdentifierState

theorem betweenDoctypePublicAndSystemIdentifiersState_ok (s : St) (hs : s.state = .betweenDoctypePublicAndSystemIdentifiersState) (hi : Inv s) :
    OPost (betweenDoctypePublicAndSystemIdentifiersState s) (fun r => r.1 = true → Inv r.2) := by
  state_ok betweenDoctypePublicAndSystemIdentifiersState

theorem afterDoctypeSystemKeywordState_ok (s : St) (hs : s.state = .afterDoctypeSystemKeywordState) (hi : Inv s) :
    OPost (afterDoctypeSystemKeywordState s) (fun r => r.1 = true → Inv r.2) := by
  state_ok afterDoctypeSystemKeywordState

theorem beforeDoctypeSystemIdentifierState_ok (s : St) (hs : s.state = .beforeDoctypeSystemIdentifierState) (hi : Inv s) :
    OPost (beforeDoctypeSystemIdentifierState s) (fun r => r.1 = true → Inv r.2) := by
  state_ok beforeDoctypeSystemIdentifierState

theorem doctypeSystemIdentifierDoubleQuotedState_ok (s : St) (hs : s.state = .doctypeSystemIdentifierDoubleQuotedState) (hi : Inv s) :
    OPost (doctypeSystemIdentifierDoubleQuotedState s) (fun r => r.1 = true → Inv r.2) := by
  state_ok doctypeSystemIdentifierDoubleQuotedState

theorem doctypeSystemIdentifierSingleQuotedState_ok (s : St) (hs : s.state = .doctypeSystemIdentifierSingleQuotedState) (hi : Inv s) :
    OPost (doctypeSystemIdentifierSingleQuotedState s) (fun r => r.1 = true → Inv r.2) := by
  state_ok doctypeSystemIdentifierSingleQuotedState

theorem afterDoctypeSystemIdentifierState_ok (s : St) (hs : s.state = .afterDoctypeSystemIdentifierState) (hi : Inv s) :
    OPost (afterDoctypeSystemIdentifierState s) (fun r => r.1 = true → Inv r.2) := by
  state_ok afterDoctypeSystemIdentifierState

theorem bogusDoctypeState_ok (s : St) (hs : s.state = .bogusDoctypeState) (hi : Inv s) :
    OPost (bogusDoctypeState s) (fun r => r.1 = true → Inv r.2) := by
  state_ok bogusDoctypeState

end H5.Props.C02c
