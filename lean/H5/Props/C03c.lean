/-
  C03c — reachability invariants of the tree-construction model (`H5.Model.TreeBuilder`): the stuck states of
  `reprocess_not_total` (C03bReprocess) are not reachable by parsing.

  * `Reach cfg st`  : `st` is the state after `reset()` (document, or fragment in any container) or after a token;
  * `Inv st`        : the invariant (C03cCore) — registers (`REG`), structure of the stack of open elements (`ST`),
                      and the clauses of the phase on the protected part of the stack (`PCL`, `HSH`, `sel`, `txt`);
  * `Reach_Inv`     : every reachable state satisfies `Inv` (C03cTop), by `mkRec_inv` (C03cDepth): every entry point of
                      the nested dispatcher preserves `Inv` from the states it can be entered in, each handler lemma
                      (C03cHand1–4, generated + hand-written) being selected by the generated dispatch proof
                      (C03cTab / C03cDispatch) under statically checked side conditions (C03cGraph);
  * `Reach_G1` … `Reach_G5`, `stuckState_unreachable` (C03cGuards): the guards of the reprocess loop in the terms of
                      `TreeBuilder.elementInScope`.
  Auxiliary: C03cRet (a handler returns `None` or its token), C03cCfg (the configuration is read-only).
  * `reprocessLoop_total_of_measure` (C03cFuel): what is left of `reprocess_total` (R4, not proved) — a measure that
                      decreases on the rounds handing their token back, from the states with `Inv`.

  FINDING F-AA (tools/c03c/replay_faa.py, confirmed on html5lib): "a `tr` sits directly on a `tbody`, a `tbody` on a
  `table`, a cell on a `tr`" is FALSE in reachable states — the adoption agency, which finds its formatting element by
  NAME, and `</td>`, which pops to the nearest element NAMED td (here an SVG one), leave a clone of `<b>` between table
  parts (`… table tbody b tr td …`, phase `inRow` with the cell still open).  The invariant therefore states adjacency
  modulo formatting elements (`adjJ`, C03cList); the clauses behind G1–G5 are not affected.
-/
import H5.Props.C03cFuel

namespace H5.Props.C03c
open H5 H5.Model H5.Model.TB H5.Props.C03b

/-- R0–R3 in one statement -/
theorem C03c_reachable_guards (cfg : Cfg) (hd : depthBound ≤ cfg.dispatchDepth) {st : PState} (h : Reach cfg st) :
    Inv st ∧ PhInv st ∧
    (st.phase = some .inTableText → st.tableTextOriginalPhase ≠ some .inTableText) ∧
    (st.phase = some .inSelectInTable → inSelectScope (stackK st) = some true) ∧
    (st.phase = some .inCell → ∀ nm, [nTable, nTbody, nTfoot, nThead, nTr].contains nm = true →
      inTableScope (stackK st) nm = some true →
      inTableScope (stackK st) nTd = some true ∨ inTableScope (stackK st) nTh = some true) ∧
    (st.phase = some .inRow → ∀ nm, [nTbody, nThead, nTfoot].contains nm = true →
      inTableScope (stackK st) nm = some true → inTableScope (stackK st) nTr = some true) :=
  ⟨Reach_Inv cfg hd h, Reach_G4 hd h, fun hp => (Reach_G3 hd h hp).1, fun hp => Reach_G1 hd h hp,
   fun hp nm hnm hsc => Reach_G2 hd h hp hnm hsc, fun hp nm hnm hsc => Reach_G5 hd h hp hnm hsc⟩

/-- R0: the invariant holds in every reachable state -/
theorem C03c_Reach_Inv (cfg : Cfg) (hd : depthBound ≤ cfg.dispatchDepth) {st : PState} (h : Reach cfg st) : Inv st :=
  Reach_Inv cfg hd h

/-- the stuck state of `reprocess_not_total` is not reachable -/
theorem C03c_stuckState_unreachable (cfg : Cfg) (hd : depthBound ≤ cfg.dispatchDepth) : ¬ Reach cfg stuckState :=
  stuckState_unreachable hd

/-- G1 in the terms of the model: in `inSelectInTable`, `elementInScope("select", variant="select")` returns `True` -/
theorem C03c_G1_model (cfg : Cfg) (hd : depthBound ≤ cfg.dispatchDepth) {st : PState} (h : Reach cfg st)
    (hp : st.phase = some .inSelectInTable) :
    Tr (elementInScope nSelect (some "select")) st (fun b _ => b = true) := Reach_G1_model hd h hp

/-- what is left of R4: a measure decreasing on the rounds that hand their token back, from the states with `Inv` -/
theorem C03c_reprocess_reduction {n : Nat} (hn : depthBound ≤ n) (μ : PState → Token → Nat)
    (hμ : ∀ st tok, Inv st → NsNone tok →
      Tr (reprocessRound (mkRec n) tok) st (fun a st' => a = some tok → μ st' tok < μ st tok)) :
    ∀ fuel tok st, NsNone tok → Inv st → μ st tok < fuel →
      Tr (reprocessLoop (mkRec n) fuel tok) st (fun _ st' => Inv st') :=
  reprocessLoop_total_of_measure hn μ hμ

end H5.Props.C03c
