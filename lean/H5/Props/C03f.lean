/-
  C03f — `reprocess_total_partial` extended to the HEAD-CONTENT start tags and `<html>` (`famS2`), still with the rank
  `psi` of the phase register alone.

  * C03fStart / C03fStartRound / C03fStartTotal: as the start tag family of C03e, with ALL the tail calls
    `phases[inBody|inTable|inSelect|inHead].processStartTag(token)` among the allowed handlers (`tailS2`:
    `InBodyPhase.startTagProcessInHead`, `InTablePhase.startTagStyleScript`, `InSelectPhase.startTagScript`,
    `*.startTagHtml`, `*.startTagNoframes`, `InHeadNoscriptPhase.startTagBaseLinkCommand`, …), the nested dispatches being
    shown never to hand the token back by induction on the dispatch depth (`mkRec_RecRNSG`).
    New names (`famS2_new`): html, title, noframes, style, script, base, basefont, bgsound, command, link.
    With `famS` of C03e: 52 of the 109 names of `keysS`.

  * C03fEnd / C03fEndForeign / C03fEndRound / C03fEndTotal: the end tag family `famE2` — as `famE` of C03e, with the
    handlers that imply an element and hand the token back to a phase of smaller rank among the allowed ones
    (`BeforeHtmlPhase.processEndTag`, `BeforeHeadPhase.endTagImplyHead`, `InHeadPhase.endTagHtmlBodyBr`,
    `InHeadNoscriptPhase.endTagBr`, `AfterHeadPhase.endTagHtmlBodyBr`): `</head>`, `</body>`, `</br>` join (65 of the 74
    keyed end tag names).

  STILL OPEN (the stack component `len(openElements)` of the measure is needed: the register does not decrease, or
  `resetInsertionMode` chooses it): the start tags that are breakout elements of foreign content (b, big, blockquote,
  body, br, center, code, dd, div, dl, dt, em, embed, h1–h6, head, hr, i, img, li, listing, menu, meta, nobr, ol, p, pre,
  ruby, s, small, span, strong, strike, sub, sup, table, tt, u, ul, var, font), the table family (caption, col, colgroup,
  tbody, td, tfoot, th, thead, tr), input, keygen, textarea; the end tags html (`inBody → afterBody`
  raises the rank), table, caption, tbody, td, tfoot, th, thead, tr.
-/
import H5.Props.C03fEndTotal

namespace H5.Props.C03f
open H5 H5.Model H5.Model.TB H5.Props.C03b H5.Props.C03c H5.Props.C03d H5.Props.C03e

theorem famS2_length : famS2.length = 11 := by decide +kernel

/-- the names of `famS2` that are not in `famS`: html and the head-content tags -/
theorem famS2_new : (famS2.filter (fun nm => !famS.contains nm)).length = 10 := by decide +kernel

/-- a round for a start tag of `famS2` decreases the rank of the phase register when it hands the token back -/
theorem C03f_round_rank_headContent {n : Nat} (hn : depthBound ≤ n) (tok : Token) (ho : inFamS2 tok = true)
    (hNs : NsNone tok) (st : PState) (hi : C03c.Inv st) :
    Tr (reprocessRound (mkRec n) tok) st (fun a st' => a = some tok → psi st'.phase < psi st.phase) :=
  round_rankSG hn tok ho hNs st hi

/-- **`C03f_reprocess_total_partial_headContent`**: the reprocess loop for a head-content start tag or `<html>`
(`inFamS2`), or a token of C03e / C03d -/
theorem C03f_reprocess_total_partial_headContent (cfg : Cfg) (hd : depthBound ≤ cfg.dispatchDepth) {st : PState}
    (h : Reach cfg st) (tok : Token) (he : easyTok5 tok = true) (hNs : NsNone tok) (fuel : Nat) (hf : 10 ≤ fuel)
    (site : String) :
    (reprocessLoop (mkRec cfg.dispatchDepth) fuel tok).run st ≠ .error (.outOfFuel site) :=
  reprocess_total_partial_fam2 cfg hd h tok he hNs fuel hf site

/-- **`C03f_step_total_easy5`**: one tokenizer token — anything but a start tag among the 57 names of `keysS` outside
`famS ∪ famS2` or an end tag among the 12 names outside `famE` — through the tree builder, in a state reachable by
parsing: no exhausted-fuel error of any site -/
theorem C03f_step_total_easy5 (cfg : Cfg) (hd : depthBound ≤ cfg.dispatchDepth) (hf : 10 ≤ cfg.reprocessFuel)
    {st : PState} (h : Reach cfg st) (t : TTok) (hk : easyT5 t = true) (site : String) :
    TB.step cfg st t ≠ .error (.outOfFuel site) :=
  step_total_easy5 cfg hd hf h t hk site

theorem famE2_length : famE2.length = 65 := by decide +kernel

/-- the keyed end tag names still outside: html and the 8 table-family names -/
theorem famE2_complement :
    (keysE.eraseDups.filter (fun nm => !famE.contains nm && !famE2.contains nm)).length = 9 := by decide +kernel

/-- a round for an end tag of `famE2` (`</head>`, `</body>`, `</br>` and the family of C03e) decreases the rank -/
theorem C03f_round_rank_famE2 {n : Nat} (hn : depthBound ≤ n) (tok : Token) (ho : inFamE2 tok = true) (hNs : NsNone tok)
    (st : PState) (hi : C03c.Inv st) :
    Tr (reprocessRound (mkRec n) tok) st (fun a st' => a = some tok → psi st'.phase < psi st.phase) :=
  round_rankEG hn tok ho hNs st hi

/-- **`C03f_reprocess_total_partial_impliedEnd`**: the reprocess loop for an end tag of `famE2`, or any token covered
before -/
theorem C03f_reprocess_total_partial_impliedEnd (cfg : Cfg) (hd : depthBound ≤ cfg.dispatchDepth) {st : PState}
    (h : Reach cfg st) (tok : Token) (he : easyTok6 tok = true) (hNs : NsNone tok) (fuel : Nat) (hf : 10 ≤ fuel)
    (site : String) :
    (reprocessLoop (mkRec cfg.dispatchDepth) fuel tok).run st ≠ .error (.outOfFuel site) :=
  H5.Props.C03f.reprocess_total_partial_famE cfg hd h tok he hNs fuel hf site

/-- **`C03f_step_total_easy6`**: one tokenizer token — anything but a start tag among the 57 names of `keysS` outside
`famS ∪ famS2` or one of the 9 end tags html, table, caption, tbody, td, tfoot, th, thead, tr — through the tree
builder, in a state reachable by parsing: no exhausted-fuel error of any site -/
theorem C03f_step_total_easy6 (cfg : Cfg) (hd : depthBound ≤ cfg.dispatchDepth) (hf : 10 ≤ cfg.reprocessFuel)
    {st : PState} (h : Reach cfg st) (t : TTok) (hk : easyT6 t = true) (site : String) :
    TB.step cfg st t ≠ .error (.outOfFuel site) :=
  step_total_easy6 cfg hd hf h t hk site

end H5.Props.C03f
