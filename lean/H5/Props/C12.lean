/-
  Property C12 — parser objects are reusable: no state leaks between parses.
  Abstract lifecycle model: an object is a valuation of its attributes; a call is `reset` (which overwrites the
  attributes that `_parse`/`reset` definitely assign, with values determined by the call's arguments) followed by an
  arbitrary body that may stop anywhere (abort) but only writes attributes the source writes outside `__init__`.
  WHICH attributes are written where is extracted from the AST of /repo on every run (H5.Gen.Lifecycle); the theorem is
  parametric in those lists and the extracted lists are shown to satisfy its side condition in the kernel.
-/
import H5.Gen.Lifecycle
namespace H5.Props.C12
open H5 H5.Gen

abbrev Field := Str
abbrev State := Field → Nat

/-- `reset`: every established attribute gets the value the call prescribes; the others are untouched -/
def reset (est : List Field) (init : Field → Nat) (s : State) : State :=
  fun f => if est.elem f then init f else s f

/-- a body (main loop, possibly aborted anywhere) writes only attributes in `mutable` -/
def MutatesOnly (mutable : List Field) (body : State → State × Nat) : Prop :=
  ∀ s f, f ∉ mutable → (body s).1 f = s f

/-- a body's result does not depend on the initial value of the write-before-read attributes -/
def IgnoresInitial (wbr : List Field) (body : State → State × Nat) : Prop :=
  ∀ s t, (∀ f, f ∉ wbr → s f = t f) → (body s).2 = (body t).2

structure Call where
  init : Field → Nat
  body : State → State × Nat

def runCall (est : List Field) (c : Call) (s : State) : State × Nat := c.body (reset est c.init s)

def runHistory (est : List Field) (h : List Call) (s : State) : State :=
  h.foldl (fun s c => (runCall est c s).1) s

theorem reset_preserves (est : List Field) (init : Field → Nat) (s : State) (f : Field) (h : est.elem f = false) :
    reset est init s f = s f := by
  unfold reset
  rw [h]
  rfl

theorem history_immutable (est mutable : List Field) (hsub : ∀ f, f ∈ est → f ∈ mutable)
    (h : List Call) (hb : ∀ c ∈ h, MutatesOnly mutable c.body) (s : State) (f : Field) (hf : f ∉ mutable) :
    runHistory est h s f = s f := by
  induction h generalizing s with
  | nil => rfl
  | cons c rest ih =>
    simp only [runHistory, List.foldl_cons]
    have := ih (fun x hx => hb x (List.mem_cons_of_mem _ hx)) (runCall est c s).1
    simp only [runHistory] at this
    rw [this]
    unfold runCall
    rw [hb c List.mem_cons_self _ f hf]
    apply reset_preserves
    cases he : est.elem f with
    | false => rfl
    | true => exact absurd (hsub f (by simpa using he)) hf

/-- **C12 (no leak).** whatever calls were made before on the same object — completed or aborted at any point —
the result of a call equals the result of the same call on the object as constructed, provided every attribute the
code writes outside `__init__` is re-established by `reset` (or is write-before-read). -/
theorem C12_history (est mutable wbr : List Field)
    (hcover : ∀ f, f ∈ mutable → f ∈ est ∨ f ∈ wbr) (hsub : ∀ f, f ∈ est → f ∈ mutable)
    (h : List Call) (hb : ∀ c ∈ h, MutatesOnly mutable c.body)
    (c : Call) (hi : IgnoresInitial wbr c.body) (s0 : State) :
    (runCall est c (runHistory est h s0)).2 = (runCall est c s0).2 := by
  unfold runCall
  apply hi
  intro f hf
  simp only [reset]
  cases he : est.elem f with
  | true => simp
  | false =>
    simp only [Bool.false_eq_true, if_false]
    have hm : f ∉ mutable := by
      intro hm
      rcases hcover f hm with h1 | h1
      · simp [h1] at he
      · exact hf h1
    exact history_immutable est mutable hsub h hb s0 f hm

/-- TableOK (HTMLParser): every attribute written outside `__init__` is definitely assigned by `_parse`/`reset` or is
write-before-read; `reset` resets the tree builder; the re-parse path resets again. Decided on the lists extracted from
/repo's AST. -/
theorem C12_parser_tables :
    (parserMutable.all fun f => parserEstablished.elem f || parserWriteBeforeRead.elem f) = true ∧
    (parserEstablished.all fun f => parserMutable.elem f) = true ∧
    parserResetCallsTreeReset = true ∧ parserReparseResets = true := by decide +kernel

/-- TableOK (TreeBuilder): every attribute written outside `__init__`/`reset` is assigned by `reset`, and `__init__`
itself calls `reset`. -/
theorem C12_tree_tables :
    (treeMutable.all fun f => treeReset.elem f) = true ∧ treeInitCallsReset = true := by decide +kernel

/-- TableOK (phase objects): they carry per-parse state (pending table text, swapped handlers, caches), so `reset` must
re-create them (or nothing may be written on them). -/
theorem C12_phase_tables : (phaseMutable.isEmpty || phasesRecreatedByReset) = true := by decide +kernel

/-- TableOK (HTMLSerializer): every attribute its methods write outside `__init__` is definitely re-assigned by
`serialize()` before the first token, so `C12_history` applies to reused serializers too (aborted calls included). -/
theorem C12_serializer_tables : (serializerMutable.all fun f => serializerEstablished.elem f) = true := by decide +kernel

/-- TableOK (shared entity trie): the lookups the tokenizer performs write nothing on the process-wide trie object. -/
theorem C12_trie_readonly : trieLookupWrites = [] := by decide +kernel

/-- TableOK (objects shared by every parser of the process): the classes instantiated at module level or in a class body
are the dispatch tables, the entity trie and the etree `Comment` factory; outside construction their methods write to
`self` only in `Trie.keys` (a prefix cache), which the parser never calls on the shared trie (`C12_trie_readonly` covers
the lookups it does call). A new write on a shared object breaks this obligation. -/
theorem C12_shared_readonly :
    sharedClasses = [[67, 111, 109, 109, 101, 110, 116], [77, 101, 116, 104, 111, 100, 68, 105, 115, 112, 97, 116, 99, 104, 101, 114],
                     [84, 114, 105, 101]] ∧
    sharedClassWrites = [[84, 114, 105, 101, 46, 107, 101, 121, 115, 46, 95, 99, 97, 99, 104, 101, 112, 111, 105, 110, 116, 115],
                         [84, 114, 105, 101, 46, 107, 101, 121, 115, 46, 95, 99, 97, 99, 104, 101, 115, 116, 114]] := by
  decide +kernel

/-! ### threads: independent parser objects only meet through read-only shared objects -/

/-- one atomic step of a thread: new private state from the private state and the (read-only) shared state -/
abbrev Step := State → State → State

/-- run a schedule (`true`: thread A makes its next step, `false`: thread B) over the two programs -/
def runSched (sh : State) : List Bool → List Step → List Step → State × State → State × State
  | [], _, _, s => s
  | true :: r, st :: pa, pb, (a, b) => runSched sh r pa pb (st a sh, b)
  | true :: r, [], pb, s => runSched sh r [] pb s
  | false :: r, pa, st :: pb, (a, b) => runSched sh r pa pb (a, st b sh)
  | false :: r, pa, [], s => runSched sh r pa [] s

/-- **C12 (threads).** under any schedule, what thread A has computed is what its own steps compute alone: the first
`n` steps of its program, `n` the number of times it was scheduled — independent of B's program, B's state and the
interleaving.  The side condition that steps write private state only is `C12_shared_readonly` + `C12_trie_readonly`
(+ `C12_memo` for the memo tables). -/
theorem C12_interleave (sh : State) (sched : List Bool) (pa pb : List Step) (a b : State) :
    (runSched sh sched pa pb (a, b)).1 = (pa.take (sched.count true)).foldl (fun x st => st x sh) a := by
  induction sched generalizing pa pb a b with
  | nil => simp [runSched]
  | cons x r ih =>
    cases x with
    | true =>
      cases pa with
      | nil => simp [runSched, ih]
      | cons st pa => simp [runSched, ih, List.count_cons]
    | false =>
      cases pb with
      | nil => simp [runSched, ih, List.count_cons]
      | cons st pb => simp [runSched, ih, List.count_cons]

/-- a complete run of A (scheduled at least as often as it has steps) equals A alone -/
theorem C12_interleave_complete (sh : State) (sched : List Bool) (pa pb : List Step) (a b : State)
    (h : pa.length ≤ sched.count true) :
    (runSched sh sched pa pb (a, b)).1 = pa.foldl (fun x st => st x sh) a := by
  rw [C12_interleave, List.take_of_length_le h]

/-- the instantiated statement for HTMLParser -/
theorem C12_parser (h : List Call) (hb : ∀ c ∈ h, MutatesOnly parserMutable c.body)
    (c : Call) (hi : IgnoresInitial parserWriteBeforeRead c.body) (s0 : State) :
    (runCall parserEstablished c (runHistory parserEstablished h s0)).2 = (runCall parserEstablished c s0).2 := by
  have t := C12_parser_tables
  apply C12_history parserEstablished parserMutable parserWriteBeforeRead _ _ h hb c hi s0
  · intro f hf
    have := List.all_eq_true.mp t.1 f hf
    simpa using this
  · intro f hf
    have := List.all_eq_true.mp t.2.1 f hf
    simpa using this

/-! ### process-wide memo tables (charsUntil regex cache, module factories): a memo never changes results -/

def MemoOk (f : Nat → Nat) (memo : List (Nat × Nat)) : Prop := ∀ k v, memo.lookup k = some v → v = f k

def memoGet (f : Nat → Nat) (memo : List (Nat × Nat)) (k : Nat) : Nat × List (Nat × Nat) :=
  match memo.lookup k with
  | some v => (v, memo)
  | none => (f k, (k, f k) :: memo)

/-- whatever interleaving of lookups (from any number of parser objects / threads, each lookup atomic) built the
table, a lookup returns `f k` and keeps the invariant -/
theorem C12_memo (f : Nat → Nat) (memo : List (Nat × Nat)) (k : Nat) (h : MemoOk f memo) :
    (memoGet f memo k).1 = f k ∧ MemoOk f (memoGet f memo k).2 := by
  unfold memoGet
  cases hl : memo.lookup k with
  | some v => exact ⟨h k v hl, h⟩
  | none =>
    refine ⟨rfl, ?_⟩
    intro k' v' hv
    simp only [List.lookup] at hv
    split at hv
    · rename_i heq
      have : k' = k := by simpa using heq
      injection hv with hv
      rw [← hv, this]
    · exact h k' v' hv

/-- non-vacuity: the extracted lists are non-trivial -/
example : parserMutable.length ≥ 10 ∧ treeMutable.length ≥ 4 := by decide +kernel

end H5.Props.C12
