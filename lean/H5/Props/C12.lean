/-
  Property C12 — parser objects are reusable: no state leaks between parses.
  Abstract lifecycle model: an object is a valuation of its attributes; a call is `reset` (which overwrites the
  attributes that `_parse`/`reset` definitely assign, with values determined by the call's arguments) followed by an
  arbitrary body that may stop anywhere (abort) but only writes attributes the source writes outside `__init__`.
  WHICH attributes are written where is extracted from the AST of /repo on every run (H5.Gen.Lifecycle); the theorem is
  parametric in those lists and the extracted lists are shown to satisfy its side condition in the kernel.
-/
import H5.Gen.Lifecycle
namespace H5.Props.C12
open H5 H5.Gen

abbrev Field := Str
abbrev State := Field → Nat

/-- `reset`: every established attribute gets the value the call prescribes; the others are untouched -/
def reset (est : List Field) (init : Field → Nat) (s : State) : State :=
  fun f => if est.elem f then init f else s f

/-- a body (main loop, possibly aborted anywhere) writes only attributes in `mutable` -/
def MutatesOnly (mutable : List Field) (body : State → State × Nat) : Prop :=
  ∀ s f, f ∉ mutable → (body s).1 f = s f

/-- a body's result does not depend on the initial value of the write-before-read attributes -/
def IgnoresInitial (wbr : List Field) (body : State → State × Nat) : Prop :=
  ∀ s t, (∀ f, f ∉ wbr → s f = t f) → (body s).2 = (body t).2

structure Call where
  init : Field → Nat
  body : State → State × Nat

def runCall (est : List Field) (c : Call) (s : State) : State × Nat := c.body (reset est c.init s)

def runHistory (est : List Field) (h : List Call) (s : State) : State :=
  h.foldl (fun s c => (runCall est c s).1) s

theorem reset_preserves (est : List Field) (init : Field → Nat) (s : State) (f : Field) (h : est.elem f = false) :
    reset est init s f = s f := by
  unfold reset
  rw [h]
  rfl

theorem history_immutable (est mutable : List Field) (hsub : ∀ f, f ∈ est → f ∈ mutable)
    (h : List Call) (hb : ∀ c ∈ h, MutatesOnly mutable c.body) (s : State) (f : Field) (hf : f ∉ mutable) :
    runHistory est h s f = s f := by
  induction h generalizing s with
  | nil => rfl
  | cons c rest ih =>
    simp only [runHistory, List.foldl_cons]
    have := ih (fun x hx => hb x (List.mem_cons_of_mem _ hx)) (runCall est c s).1
    simp only [runHistory] at this
    rw [this]
    unfold runCall
    rw [hb c List.mem_cons_self _ f hf]
    apply reset_preserves
    cases he : est.elem f with
    | false => rfl
    | true => exact absurd (hsub f (by simpa using he)) hf

/-- **C12 (no leak).** whatever calls were made before on the same object — completed or aborted at any point —
the result of a call equals the result of the same call on the object as constructed, provided every attribute the
code writes outside `__init__` is re-established by `reset` (or is write-before-read). -/
theorem C12_history (est mutable wbr : List Field)
    (hcover : ∀ f, f ∈ mutable → f ∈ est ∨ f ∈ wbr) (hsub : ∀ f, f ∈ est → f ∈ mutable)
    (h : List Call) (hb : ∀ c ∈ h, MutatesOnly mutable c.body)
    (c : Call) (hi : IgnoresInitial wbr c.body) (s0 : State) :
    (runCall est c (runHistory est h s0)).2 = (runCall est c s0).2 := by
  unfold runCall
  apply hi
  intro f hf
  simp only [reset]
  cases he : est.elem f with
  | true => simp
  | false =>
    simp only [Bool.false_eq_true, if_false]
    have hm : f ∉ mutable := by
      intro hm
      rcases hcover f hm with h1 | h1
      · simp [h1] at he
      · exact hf h1
    exact history_immutable est mutable hsub h hb s0 f hm

/-- TableOK (HTMLParser): every attribute written outside `__init__` is definitely assigned by `_parse`/`reset` or is
write-before-read; `reset` resets the tree builder; the re-parse path resets again. Decided on the lists extracted from
/repo's AST. -/
theorem C12_parser_tables :
    (parserMutable.all fun f => parserEstablished.elem f || parserWriteBeforeRead.elem f) = true ∧
    (parserEstablished.all fun f => parserMutable.elem f) = true ∧
    parserResetCallsTreeReset = true ∧ parserReparseResets = true := by decide +kernel

/-- TableOK (TreeBuilder): every attribute written outside `__init__`/`reset` is assigned by `reset`, and `__init__`
itself calls `reset`. -/
theorem C12_tree_tables :
    (treeMutable.all fun f => treeReset.elem f) = true ∧ treeInitCallsReset = true := by decide +kernel

/-- TableOK (phase objects): they carry per-parse state (pending table text, swapped handlers, caches), so `reset` must
re-create them (or nothing may be written on them). -/
theorem C12_phase_tables : (phaseMutable.isEmpty || phasesRecreatedByReset) = true := by decide +kernel

/-- TableOK (shared entity trie): the lookups the tokenizer performs write nothing on the process-wide trie object. -/
theorem C12_trie_readonly : trieLookupWrites = [] := by decide +kernel

/-- the instantiated statement for HTMLParser -/
theorem C12_parser (h : List Call) (hb : ∀ c ∈ h, MutatesOnly parserMutable c.body)
    (c : Call) (hi : IgnoresInitial parserWriteBeforeRead c.body) (s0 : State) :
    (runCall parserEstablished c (runHistory parserEstablished h s0)).2 = (runCall parserEstablished c s0).2 := by
  have t := C12_parser_tables
  apply C12_history parserEstablished parserMutable parserWriteBeforeRead _ _ h hb c hi s0
  · intro f hf
    have := List.all_eq_true.mp t.1 f hf
    simpa using this
  · intro f hf
    have := List.all_eq_true.mp t.2.1 f hf
    simpa using this

/-! ### process-wide memo tables (charsUntil regex cache, module factories): a memo never changes results -/

def MemoOk (f : Nat → Nat) (memo : List (Nat × Nat)) : Prop := ∀ k v, memo.lookup k = some v → v = f k

def memoGet (f : Nat → Nat) (memo : List (Nat × Nat)) (k : Nat) : Nat × List (Nat × Nat) :=
  match memo.lookup k with
  | some v => (v, memo)
  | none => (f k, (k, f k) :: memo)

/-- whatever interleaving of lookups (from any number of parser objects / threads, each lookup atomic) built the
table, a lookup returns `f k` and keeps the invariant -/
theorem C12_memo (f : Nat → Nat) (memo : List (Nat × Nat)) (k : Nat) (h : MemoOk f memo) :
    (memoGet f memo k).1 = f k ∧ MemoOk f (memoGet f memo k).2 := by
  unfold memoGet
  cases hl : memo.lookup k with
  | some v => exact ⟨h k v hl, h⟩
  | none =>
    refine ⟨rfl, ?_⟩
    intro k' v' hv
    simp only [List.lookup] at hv
    split at hv
    · rename_i heq
      have : k' = k := by simpa using heq
      injection hv with hv
      rw [← hv, this]
    · exact h k' v' hv

/-- non-vacuity: the extracted lists are non-trivial -/
example : parserMutable.length ≥ 10 ∧ treeMutable.length ≥ 4 := by decide +kernel

end H5.Props.C12
