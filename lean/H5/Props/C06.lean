/-
  Property C06 — byte input is decoded with the encoding the documented precedence selects.

  Model: H5.Model.Encoding (hand model of detectBOM / determineEncoding / lookupEncoding / EncodingBytes /
  EncodingParser / ContentAttrParser / changeEncoding / startTagMeta, tied by the correspondence ops `enc:*`;
  label table, BOM dictionary, byte classes and dispatch order extracted into H5.Gen.Encodings).
  Reference: H5.Spec.Sniff (Encoding standard BOM sniff / get an encoding; HTML standard precedence, prescan,
  changing the encoding while parsing).

  Proved for all inputs (code after repairs 7aa7032, 907ffcc, 10ad92e, 4d54525): label lookup = "get an encoding"
  for every label incl. lone surrogates; the chain = the documented precedence for every assignment of the arguments
  (`C06_precedence` + one corollary per clause); `detectBOM` = BOM sniff for EVERY byte string (`C06_bom_spec`); a
  declared UTF-16 from the prescan means UTF-8; a certain encoding is never changed (`C06_certain`); the late `<meta>`
  decision in closed form and its agreement with the standard (incl. a late UTF-16) except for x-user-defined and a
  tentative UTF-16 document (witnesses); the prescan never runs out of the fuel `len + 2` of its loops
  (`C06_prescan_terminates`).  Each of the ten documented deviations of the prescan from the standard has a
  machine-checked witness (`C06_witness_*`); the witnesses of repaired defects are kept as `*_regression` examples.
-/
import H5.Model.Encoding
import H5.Spec.Sniff
import H5.Proofs.ExceptLemmas
import H5.Proofs.PrescanFuel
import H5.Proofs.PrescanSpec
namespace H5.Props.C06
open H5 H5.Gen H5.Model.Encoding


/-! ### label lookup: model = Encoding standard "get an encoding" -/

theorem stripChars_ok : labelStripChars = [9, 10, 12, 13, 32] := by decide

theorem isStrip_eq (c : Nat) : isStripChar c = Spec.Sniff.isAsciiWs c := by
  simp only [isStripChar, stripChars_ok, Spec.Sniff.isAsciiWs]
  by_cases h1 : c = 9 <;> by_cases h2 : c = 10 <;> by_cases h3 : c = 12 <;> by_cases h4 : c = 13 <;>
    by_cases h5 : c = 32 <;> simp [h1, h2, h3, h4, h5]

theorem strip_eq (s : Str) : stripLabel s = Spec.Sniff.trimWs s := by
  have : isStripChar = Spec.Sniff.isAsciiWs := funext isStrip_eq
  simp [stripLabel, Spec.Sniff.trimWs, this]

theorem find_filter {α β : Type} (l : List (α × β)) (p q : α × β → Bool) (h : ∀ x, p x = q x) :
    (l.find? p).map (·.2) = (l.filter q).head?.map (·.2) := by
  induction l with
  | nil => rfl
  | cons x r ih =>
    simp only [List.find?_cons, List.filter_cons, ← h x]
    cases hp : p x <;> simp [ih]

/-- **C06 (labels).** `lookupEncoding` on a label = "get an encoding" of the Encoding standard over the same table -/
theorem C06_lookup_spec (s : Str) : lookupLabel s = Spec.Sniff.getAnEncoding s := by
  unfold lookupLabel Spec.Sniff.getAnEncoding
  simp only [strip_eq]
  have hl : (Spec.Sniff.trimWs s).asciiLower = (Spec.Sniff.trimWs s).map (fun c => if 65 ≤ c ∧ c ≤ 90 then c + 32 else c) := rfl
  rw [hl]
  rw [find_filter encodingLabels _ (fun kv => decide (kv.1 = (Spec.Sniff.trimWs s).map (fun c => if 65 ≤ c ∧ c ≤ 90 then c + 32 else c)))
    (by intro x; by_cases hx : x.1 = (Spec.Sniff.trimWs s).map (fun c => if 65 ≤ c ∧ c ≤ 90 then c + 32 else c) <;> simp [hx])]
  cases List.filter (fun kv => decide (kv.1 = (Spec.Sniff.trimWs s).map (fun c => if 65 ≤ c ∧ c ≤ 90 then c + 32 else c))) encodingLabels <;> rfl

/-! ### table facts -/

def utf16pfx : Str := [117, 116, 102, 45, 49, 54]
def w1252 : Str := [119, 105, 110, 100, 111, 119, 115, 45, 49, 50, 53, 50]
def utf8 : Str := [117, 116, 102, 45, 56]
def utf16le : Str := [117, 116, 102, 45, 49, 54, 108, 101]
def utf16be : Str := [117, 116, 102, 45, 49, 54, 98, 101]

theorem lit_utf16 : lit "utf-16" = utf16pfx := by decide
theorem lit_w1252 : lit "windows-1252" = w1252 := by decide
theorem lit_utf8 : lit "utf-8" = utf8 := by decide
theorem lit_utf16le : lit "utf-16le" = utf16le := by decide
theorem lit_utf16be : lit "utf-16be" = utf16be := by decide

/-- TableOK: the canonical names starting with "utf-16" are exactly utf-16le and utf-16be -/
theorem table_utf16 : ∀ kv ∈ encodingLabels, kv.2.startsWith utf16pfx = (kv.2 == utf16le || kv.2 == utf16be) := by
  decide +kernel

/-- TableOK: the labels html5lib itself looks up resolve as expected -/
theorem table_fixed :
    lookupLabel finalFallbackLabel = some w1252 ∧ lookupLabel utf8 = some utf8 ∧
    lookupLabel utf16le = some utf16le ∧ lookupLabel utf16be = some utf16be ∧ chardetInstalled = false := by
  decide +kernel

theorem lookup_mem (s e : Str) (h : lookupLabel s = some e) : ∃ kv ∈ encodingLabels, kv.2 = e := by
  unfold lookupLabel at h
  simp only [Option.map_eq_some_iff] at h
  obtain ⟨kv, hk, he⟩ := h
  exact ⟨kv, List.mem_of_find?_eq_some hk, he⟩

theorem isUtf16_eq (e : Str) : Spec.Sniff.isUtf16 e = (e == utf16le || e == utf16be) := by
  simp only [Spec.Sniff.isUtf16, lit_utf16le, lit_utf16be]
  by_cases h1 : e = utf16le <;> by_cases h2 : e = utf16be <;> simp [h1, h2]

theorem startsWith_utf16 (s e : Str) (h : lookupLabel s = some e) :
    e.startsWith (lit "utf-16") = Spec.Sniff.isUtf16 e := by
  obtain ⟨kv, hm, he⟩ := lookup_mem s e h
  rw [lit_utf16, isUtf16_eq, ← he]
  exact table_utf16 kv hm

/-! ### precedence -/

/-- TableOK: every label of the table is ASCII -/
theorem table_ascii : ∀ kv ∈ encodingLabels, kv.1.all (fun c => decide (c < 128)) = true := by
  decide +kernel

/-- a label containing a lone surrogate is in no row of the table: since repair 4d54525 (`UnicodeEncodeError` caught)
it is simply an unknown label, as in the Encoding standard -/
theorem lookupLabel_surrogate (s : Str) (h : (stripLabel s).any isSurrogate = true) : lookupLabel s = none := by
  unfold lookupLabel
  simp only [Option.map_eq_none_iff, List.find?_eq_none]
  intro kv hkv heq
  have hk : kv.1 = (stripLabel s).asciiLower := by simpa using heq
  have hall := table_ascii kv hkv
  rw [hk] at hall
  rw [List.any_eq_true] at h
  obtain ⟨c, hc, hs⟩ := h
  rw [List.all_eq_true] at hall
  have hlow : asciiLowerChar c = c := by
    simp only [isSurrogate, Bool.and_eq_true, decide_eq_true_eq] at hs
    unfold asciiLowerChar
    split
    · omega
    · rfl
  have := hall (asciiLowerChar c) (by simp only [Str.asciiLower]; exact List.mem_map_of_mem hc)
  rw [hlow] at this
  simp only [isSurrogate, Bool.and_eq_true, decide_eq_true_eq] at hs this
  omega

/-- `lookupEncoding` of an argument = "get an encoding" of the label, for EVERY label (None, unknown, surrogates…) -/
theorem lookupStr_spec (l : Option Str) : lookupEncodingStr l = .ok (Spec.Sniff.label? l) := by
  cases l with
  | none => rfl
  | some s =>
    by_cases h : (stripLabel s).any isSurrogate = true
    · simp [lookupEncodingStr, h, Spec.Sniff.label?, ← C06_lookup_spec, lookupLabel_surrogate s h]
    · simp [lookupEncodingStr, h, Spec.Sniff.label?, C06_lookup_spec]

def toConf : Spec.Sniff.Confidence → Conf
  | .certain => .certain
  | .tentative => .tentative

def sources (bom m : Option Str) (a : Args) : Spec.Sniff.Sources :=
  { bom := bom, override := a.override, transport := a.transport, metaDecl := m, parent := a.parent,
    likely := a.likely, default := a.default }

/-- **C06 (precedence).**  The straight-line chain of `determineEncoding` computes the documented order
(BOM, override, transport: certain; meta prescan, parent unless UTF-16, likely, default, windows-1252: tentative)
for every byte string and EVERY assignment of the five arguments (None, valid, unknown, UTF-16, even labels with lone
surrogates); `bom` is what `detectBOM` returns (= the standard's BOM sniff, `C06_bom_spec`) and `m` what the prescan
returns. -/
theorem C06_precedence (metaScan : Nat → Except PyErr (Option Str)) (data : Bytes) (a : Args)
    (bom m : Option Str) (pos : Nat)
    (hb : detectBOM data = .ok (bom, pos)) (hm : metaScan pos = .ok m) :
    ∃ off, determineWith metaScan data a =
      .ok ⟨(Spec.Sniff.precedence (sources bom m a)).1, toConf (Spec.Sniff.precedence (sources bom m a)).2, off⟩ := by
  have hfb : lookupEncodingStr (some finalFallbackLabel) = .ok (some w1252) := by
    have : (stripLabel finalFallbackLabel).any isSurrogate = false := by decide
    simp [lookupEncodingStr, this, table_fixed.1]
  have hcd : chardetInstalled = false := table_fixed.2.2.2.2
  have hfb2 : Spec.Sniff.label? (some finalFallbackLabel) = some w1252 := by
    simp [Spec.Sniff.label?, ← C06_lookup_spec, table_fixed.1]
  unfold determineWith
  rw [hb]
  cases bom with
  | some e => exact ⟨pos, by simp [Spec.Sniff.precedence, sources, Spec.Sniff.firstSome, toConf]⟩
  | none =>
    simp only [lookupStr_spec, hm, hfb2, hcd]
    cases ho : Spec.Sniff.label? a.override with
    | some e => exact ⟨pos, by simp [Spec.Sniff.precedence, sources, Spec.Sniff.firstSome, toConf, ho]⟩
    | none =>
      cases ht : Spec.Sniff.label? a.transport with
      | some e => exact ⟨pos, by simp [Spec.Sniff.precedence, sources, Spec.Sniff.firstSome, toConf, ho, ht]⟩
      | none =>
        cases m with
        | some e => exact ⟨0, by simp [Spec.Sniff.precedence, sources, Spec.Sniff.firstSome, toConf, ho, ht]⟩
        | none =>
          have hpf : (Spec.Sniff.label? a.parent).filter (fun e => !e.startsWith (lit "utf-16"))
              = (Spec.Sniff.label? a.parent).filter (fun e => !Spec.Sniff.isUtf16 e) := by
            cases hp : Spec.Sniff.label? a.parent with
            | none => rfl
            | some e =>
              have : ∃ s, lookupLabel s = some e := by
                cases hpa : a.parent with
                | none => rw [hpa] at hp; simp [Spec.Sniff.label?] at hp
                | some s => rw [hpa] at hp; exact ⟨s, by rw [C06_lookup_spec]; simpa [Spec.Sniff.label?] using hp⟩
              obtain ⟨s, hs⟩ := this
              simp [Option.filter, startsWith_utf16 s e hs]
          rw [hpf]
          cases hp : (Spec.Sniff.label? a.parent).filter (fun e => !Spec.Sniff.isUtf16 e) with
          | some e => exact ⟨0, by simp [Spec.Sniff.precedence, sources, Spec.Sniff.firstSome, toConf, ho, ht, hp]⟩
          | none =>
            cases hl : Spec.Sniff.label? a.likely with
            | some e => exact ⟨0, by simp [Spec.Sniff.precedence, sources, Spec.Sniff.firstSome, toConf, ho, ht, hp, hl]⟩
            | none =>
              cases hd : Spec.Sniff.label? a.default with
              | some e => exact ⟨0, by simp [Spec.Sniff.precedence, sources, Spec.Sniff.firstSome, toConf, ho, ht, hp, hl, hd]⟩
              | none => exact ⟨0, by simp [Spec.Sniff.precedence, sources, Spec.Sniff.firstSome, toConf, ho, ht, hp, hl, hd, lit_w1252]⟩

/-! ### BOM -/

theorem bom_labels :
    lookupEncodingStr (some utf8) = .ok (some utf8) ∧
    lookupEncodingStr (some utf16le) = .ok (some utf16le) ∧
    lookupEncodingStr (some utf16be) = .ok (some utf16be) := by
  decide +kernel

theorem bomDict_ok : bomDict = [([239, 187, 191], utf8), ([255, 254], utf16le), ([254, 255], utf16be)] := by decide

theorem bomLookup0 : bomLookup [] = none := by simp [bomLookup, bomDict_ok]
theorem bomLookup1 (a : Nat) : bomLookup [a] = none := by simp [bomLookup, bomDict_ok]

theorem bomLookup3 (a b c : Nat) :
    bomLookup [a, b, c] = if a = 239 ∧ b = 187 ∧ c = 191 then some utf8 else none := by
  simp only [bomLookup, bomDict_ok, List.find?_cons, List.find?_nil]
  by_cases h : a = 239 ∧ b = 187 ∧ c = 191
  · obtain ⟨rfl, rfl, rfl⟩ := h; simp
  · have hb : ([239, 187, 191] == [a, b, c]) = false := by
      rw [Bool.eq_false_iff]; intro hh; simp at hh; exact h ⟨hh.1.symm, hh.2.1.symm, hh.2.2.symm⟩
    have hc : ([255, 254] == [a, b, c]) = false := by simp
    have hd : ([254, 255] == [a, b, c]) = false := by simp
    simp [h, hb, hc, hd]

theorem bomLookup2 (a b : Nat) :
    bomLookup [a, b] = if a = 255 ∧ b = 254 then some utf16le else if a = 254 ∧ b = 255 then some utf16be else none := by
  simp only [bomLookup, bomDict_ok, List.find?_cons, List.find?_nil]
  by_cases h : a = 255 ∧ b = 254
  · obtain ⟨rfl, rfl⟩ := h; simp
  · by_cases h' : a = 254 ∧ b = 255
    · obtain ⟨rfl, rfl⟩ := h'; simp
    · have g1 : ([255, 254] == [a, b]) = false := by
        rw [Bool.eq_false_iff]; intro hh; simp at hh; exact h ⟨hh.1.symm, hh.2.symm⟩
      have g2 : ([254, 255] == [a, b]) = false := by
        rw [Bool.eq_false_iff]; intro hh; simp at hh; exact h' ⟨hh.1.symm, hh.2.symm⟩
      have g3 : ([239, 187, 191] == [a, b]) = false := by simp
      simp [h, h', g1, g2, g3]

/-- the BOM sniff of the standard on two known leading bytes -/
theorem bomSniff2 (a b : Nat) (t : Bytes) (h3 : ¬ (a = 239 ∧ b = 187 ∧ t.head? = some 191)) :
    Spec.Sniff.bomSniff (a :: b :: t) =
      if a = 254 ∧ b = 255 then some (utf16be, 2) else if a = 255 ∧ b = 254 then some (utf16le, 2) else none := by
  unfold Spec.Sniff.bomSniff
  split
  · rename_i h; injection h with x h; injection h with y h
    exact absurd ⟨x, y, by rw [h]; rfl⟩ h3
  · rename_i h; injection h with x h; injection h with y _
    subst x y; simp [lit_utf16be]
  · rename_i h; injection h with x h; injection h with y _
    subst x y; simp [lit_utf16le]
  · rename_i n1 n2 n3
    have e2 : ¬ (a = 254 ∧ b = 255) := fun ⟨x, y⟩ => n2 t (by rw [x, y])
    have e3 : ¬ (a = 255 ∧ b = 254) := fun ⟨x, y⟩ => n3 t (by rw [x, y])
    simp [e2, e3]

/-- the two-byte decision of `detectBOM` agrees with it -/
theorem detect2 (a b : Nat) (n : Nat) (hn : 2 ≤ n) :
    (match (bomLookup [a, b], 2).1 with
      | some e => match lookupEncodingStr (some e) with
        | .error x => (.error x : Except PyErr (Option Str × Nat))
        | .ok enc => .ok (enc, min 2 n)
      | none => .ok (none, 0)) =
    .ok ((if a = 254 ∧ b = 255 then some (utf16be, 2) else if a = 255 ∧ b = 254 then some (utf16le, 2) else none).map (·.1),
         ((if a = 254 ∧ b = 255 then some (utf16be, 2) else if a = 255 ∧ b = 254 then some (utf16le, 2)
           else (none : Option (Str × Nat))).map (·.2)).getD 0) := by
  rw [bomLookup2]
  have hmin : min 2 n = 2 := by omega
  by_cases e2 : a = 254 ∧ b = 255
  · obtain ⟨rfl, rfl⟩ := e2; simp [bom_labels.2.2, hmin]
  · by_cases e3 : a = 255 ∧ b = 254
    · obtain ⟨rfl, rfl⟩ := e3; simp [bom_labels.2.1, hmin]
    · simp [e2, e3]

/-- **C06 (BOM).**  For EVERY byte string — including inputs shorter than four bytes and `FF FE 00 00` — `detectBOM`
is the BOM sniff of the Encoding standard (UTF-8, UTF-16BE, UTF-16LE) and leaves the raw stream just after the BOM
(at 0 when there is none).  (Code after repairs 907ffcc: no UTF-32 entries, and 7aa7032: clamped seek.) -/
theorem C06_bom_spec (data : Bytes) :
    detectBOM data =
      .ok ((Spec.Sniff.bomSniff data).map (·.1), ((Spec.Sniff.bomSniff data).map (·.2)).getD 0) := by
  unfold detectBOM
  match data with
  | [] => simp [bomLookup0, Spec.Sniff.bomSniff]
  | [a] => simp [bomLookup1, Spec.Sniff.bomSniff]
  | [a, b] =>
    have t : ([a, b] : Bytes).take 4 = [a, b] := rfl
    have t3 : ([a, b] : Bytes).take 3 = [a, b] := rfl
    have t2 : ([a, b] : Bytes).take 2 = [a, b] := rfl
    simp only [t, t3, t2]
    rw [bomSniff2 a b [] (by simp)]
    -- the first probe `string[:3]` already sees the two bytes: seek 3 is clamped to 2
    have h := detect2 a b 2 (by omega)
    rw [bomLookup2] at h ⊢
    by_cases e3 : a = 255 ∧ b = 254
    · obtain ⟨rfl, rfl⟩ := e3; simp [bom_labels.2.1]
    · by_cases e2 : a = 254 ∧ b = 255
      · obtain ⟨rfl, rfl⟩ := e2; simp [bom_labels.2.2]
      · simp [e2, e3]
  | a :: b :: c :: t =>
    have hl : ((a :: b :: c :: t).take 4).length ≥ 3 := by
      cases t <;> simp
    have t3 : ((a :: b :: c :: t).take 4).take 3 = [a, b, c] := by cases t <;> rfl
    have t2 : ((a :: b :: c :: t).take 4).take 2 = [a, b] := by cases t <;> rfl
    simp only [t3, t2, bomLookup3]
    by_cases e1 : a = 239 ∧ b = 187 ∧ c = 191
    · obtain ⟨rfl, rfl, rfl⟩ := e1
      have hmin : min 3 ((239 :: 187 :: 191 :: t).take 4).length = 3 := by omega
      simp [Spec.Sniff.bomSniff, bom_labels.1, lit_utf8, hmin]
    · simp only [e1, if_false]
      rw [bomSniff2 a b (c :: t) (by intro ⟨x, y, z⟩; exact e1 ⟨x, y, by simpa using z⟩)]
      exact detect2 a b _ (by omega)

/-- regression examples (witnesses of the repaired defects): `FF FE 00 00` is a UTF-16LE BOM followed by U+0000,
also when a certain encoding is given (no bytes are dropped any more: offset 2 is the end of the real BOM);
`00 00 FE FF` is no BOM; a stream that is only a UTF-16 BOM seeks to its end, not past it -/
theorem C06_bom_regression :
    detectBOM [255, 254, 0, 0, 65, 0] = .ok (some utf16le, 2) ∧
    determineEncoding [255, 254, 0, 0, 65, 0] {} = .ok ⟨utf16le, .certain, 2⟩ ∧
    determineEncoding [255, 254, 0, 0, 65, 0] { override := some utf8 } = .ok ⟨utf16le, .certain, 2⟩ ∧
    detectBOM [0, 0, 254, 255, 65] = .ok (none, 0) ∧
    determineEncoding [0, 0, 254, 255, 65] { override := some utf8 } = .ok ⟨utf8, .certain, 0⟩ ∧
    detectBOM [255, 254] = .ok (some utf16le, 2) ∧ detectBOM [254, 255] = .ok (some utf16be, 2) ∧
    detectBOM [255, 254, 65] = .ok (some utf16le, 2) ∧ detectBOM [239, 187] = .ok (none, 0) := by
  decide +kernel

/-! ### one corollary per clause of the precedence -/

/-- BOM beats everything (whatever the arguments, even ill-formed ones) -/
theorem C06_bom_beats_everything (ms : Nat → Except PyErr (Option Str)) (data : Bytes) (a : Args) (e : Str) (pos : Nat)
    (hb : detectBOM data = .ok (some e, pos)) : determineWith ms data a = .ok ⟨e, .certain, pos⟩ := by
  simp [determineWith, hb]

/-- override beats transport and everything after it -/
theorem C06_override_beats_transport (ms : Nat → Except PyErr (Option Str)) (data : Bytes) (a : Args) (e : Str) (pos : Nat)
    (hb : detectBOM data = .ok (none, pos)) (ho : lookupEncodingStr a.override = .ok (some e)) :
    determineWith ms data a = .ok ⟨e, .certain, pos⟩ := by
  simp [determineWith, hb, ho]

/-- transport beats the document's own declaration -/
theorem C06_transport_beats_meta (ms : Nat → Except PyErr (Option Str)) (data : Bytes) (a : Args) (e : Str) (pos : Nat)
    (hb : detectBOM data = .ok (none, pos)) (ho : lookupEncodingStr a.override = .ok none)
    (ht : lookupEncodingStr a.transport = .ok (some e)) :
    determineWith ms data a = .ok ⟨e, .certain, pos⟩ := by
  simp [determineWith, hb, ho, ht]

/-- the prescan's declaration beats parent / likely / default; it is tentative -/
theorem C06_meta_beats_parent (ms : Nat → Except PyErr (Option Str)) (data : Bytes) (a : Args) (e : Str) (pos : Nat)
    (hb : detectBOM data = .ok (none, pos)) (ho : lookupEncodingStr a.override = .ok none)
    (ht : lookupEncodingStr a.transport = .ok none) (hm : ms pos = .ok (some e)) :
    determineWith ms data a = .ok ⟨e, .tentative, 0⟩ := by
  simp [determineWith, hb, ho, ht, hm]

/-- an unknown label is the same as no label (here: override; the other four arguments alike) -/
theorem C06_invalid_label_falls_through (ms : Nat → Except PyErr (Option Str)) (data : Bytes) (a : Args)
    (ho : lookupEncodingStr a.override = .ok none) :
    determineWith ms data a = determineWith ms data { a with override := none } := by
  have hn : lookupEncodingStr none = .ok none := rfl
  simp only [determineWith, ho, hn]

theorem C06_invalid_transport_falls_through (ms : Nat → Except PyErr (Option Str)) (data : Bytes) (a : Args)
    (ho : lookupEncodingStr a.transport = .ok none) :
    determineWith ms data a = determineWith ms data { a with transport := none } := by
  have hn : lookupEncodingStr none = .ok none := rfl
  simp only [determineWith, ho, hn]

theorem C06_invalid_likely_falls_through (ms : Nat → Except PyErr (Option Str)) (data : Bytes) (a : Args)
    (ho : lookupEncodingStr a.likely = .ok none) :
    determineWith ms data a = determineWith ms data { a with likely := none } := by
  have hn : lookupEncodingStr none = .ok none := rfl
  simp only [determineWith, ho, hn]

/-- a UTF-16 parent encoding is skipped (same result as no parent encoding) -/
theorem C06_parent_utf16_skipped (ms : Nat → Except PyErr (Option Str)) (data : Bytes) (a : Args) (e : Str)
    (hp : lookupEncodingStr a.parent = .ok (some e)) (h16 : e = utf16le ∨ e = utf16be) :
    determineWith ms data a = determineWith ms data { a with parent := none } := by
  have hf : (!e.startsWith (lit "utf-16")) = false := by
    rcases h16 with rfl | rfl <;> decide
  have hn : lookupEncodingStr none = .ok none := rfl
  simp [determineWith, hp, hf, hn, Option.filter]

/-- final fallback: nothing applicable means windows-1252, tentative -/
theorem C06_fallback_windows1252 (ms : Nat → Except PyErr (Option Str)) (data : Bytes) (pos : Nat)
    (hb : detectBOM data = .ok (none, pos)) (hm : ms pos = .ok none) :
    determineWith ms data { default := none } = .ok ⟨w1252, .tentative, 0⟩ := by
  have hfb : lookupEncodingStr (some finalFallbackLabel) = .ok (some w1252) := by
    have : (stripLabel finalFallbackLabel).any isSurrogate = false := by decide
    simp [lookupEncodingStr, this, table_fixed.1]
  have hn : lookupEncodingStr none = .ok none := rfl
  simp [determineWith, hb, hm, hn, table_fixed.2.2.2.2, hfb]

/-- a `<meta>` declaring UTF-16 found by the prescan means UTF-8: the prescan never reports UTF-16 -/
theorem xud_label : lookupEncodingStr (some (lit "windows-1252")) = .ok (some w1252) := by decide +kernel

theorem C06_meta_utf16_means_utf8 (data : Bytes) (pos : Nat) (e : Str)
    (h : detectEncodingMeta data pos = .ok (some e)) : e ≠ utf16le ∧ e ≠ utf16be ∧ e ≠ lit "x-user-defined" := by
  unfold detectEncodingMeta at h
  split at h
  · simp at h
  · rename_i e' _
    split at h
    · have : lookupEncodingStr (some (lit "utf-8")) = .ok (some utf8) := by rw [lit_utf8]; exact bom_labels.1
      rw [this] at h
      injection h with h; injection h with h
      subst h
      exact ⟨by decide, by decide, by decide⟩
    · rename_i hne
      split at h
      · rw [xud_label] at h
        injection h with h; injection h with h
        subst h
        exact ⟨by decide, by decide, by decide⟩
      · rename_i hx
        injection h with h; injection h with h
        subst h
        rw [lit_utf16be, lit_utf16le] at hne
        exact ⟨fun x => hne (Or.inr x), fun x => hne (Or.inl x), hx⟩
  · simp at h

/-! ### certain encodings and the late `<meta>` -/

/-- **C06 (certain).**  While the confidence is certain, `startTagMeta`'s guard never calls `changeEncoding`:
no document content can change (or restart with) another encoding. -/
theorem C06_certain (cur : Str) (attrs : List (Str × Str)) :
    startTagMetaArg .certain attrs = .ok none ∧ startTagMeta cur .certain attrs = .ok .unchanged := by
  have h : startTagMetaArg .certain attrs = .ok none := by simp [startTagMetaArg]
  exact ⟨h, by simp [startTagMeta, h]⟩

/-- … in particular whenever a BOM, override_encoding or transport_encoding decided -/
theorem C06_certain_sources (ms : Nat → Except PyErr (Option Str)) (data : Bytes) (a : Args) (d : Determined)
    (h : determineWith ms data a = .ok d) (hc : d.conf = .certain) (attrs : List (Str × Str)) :
    startTagMeta d.encoding d.conf attrs = .ok .unchanged := by
  rw [hc]; exact (C06_certain d.encoding attrs).2

/-- `changeEncoding` itself asserts that the encoding is not certain -/
theorem C06_changeEncoding_asserts (cur : Str) (l : Label) :
    changeEncoding cur .certain l = .error (.assertFail "changeEncoding: charEncoding[1] != certain") := by
  simp [changeEncoding]

/-- closed form of `changeEncoding` under a tentative encoding -/
theorem changeEncoding_tentative_none (cur : Str) (l : Label) (h : lookupEncodingAny l = .ok none) :
    changeEncoding cur .tentative l = .ok .unchanged := by
  simp [changeEncoding, h]

def xud : Str := [120, 45, 117, 115, 101, 114, 45, 100, 101, 102, 105, 110, 101, 100]
theorem lit_xud : lit "x-user-defined" = xud := by decide

/-- the mapping applied to a declared encoding: UTF-16 means UTF-8, x-user-defined means windows-1252 -/
def lateMap (e : Str) : Str := if e = utf16be ∨ e = utf16le then utf8 else if e = xud then w1252 else e

/-- closed form of `changeEncoding` under a tentative encoding (after repairs COMMIT_late-x-user-defined and
COMMIT_late-under-utf16): a document being read as UTF-16 keeps its encoding; otherwise the declared encoding is
mapped and then compared with the current one -/
theorem changeEncoding_tentative_some (cur : Str) (l : Label) (e : Str) (h : lookupEncodingAny l = .ok (some e)) :
    changeEncoding cur .tentative l =
      .ok (if cur = utf16be ∨ cur = utf16le then .nowCertain
           else if lateMap e = cur then .nowCertain else .reparse (lateMap e)) := by
  have hu : lookupEncodingStr (some (lit "utf-8")) = .ok (some utf8) := by rw [lit_utf8]; exact bom_labels.1
  simp only [changeEncoding, h, lit_utf16be, lit_utf16le, lit_xud, hu, xud_label, lateMap]
  by_cases hc : cur = utf16be ∨ cur = utf16le
  · simp [hc]
  · by_cases h1 : e = utf16be ∨ e = utf16le
    · by_cases h2 : utf8 = cur
      · simp [hc, h1, h2]
      · simp [hc, h1, h2]
    · by_cases hx : e = xud
      · have hxn : ¬ (xud = utf16be ∨ xud = utf16le) := by decide
        subst hx
        by_cases h2 : w1252 = cur
        · subst h2; simp [hxn, hc]
        · simp [hxn, h2, hc]
      · by_cases h2 : e = cur
        · subst h2; simp [hc, h1, hx]
        · simp [hc, h1, hx, h2]

/-- **C06 (late meta).**  A `<meta charset=label>` met by the tree builder while the encoding is tentative: html5lib
does exactly what the standard's "changing the encoding while parsing" says, for EVERY label and EVERY current
encoding — unknown label: nothing; current encoding UTF-16: it stays, now certain; a declared UTF-16 means UTF-8,
a declared x-user-defined means windows-1252; the current encoding: just certain; otherwise restart with the declared
encoding.  (Full strength since the repairs COMMIT_late-x-user-defined and COMMIT_late-under-utf16; was `_partial`.) -/
theorem C06_late_meta (cur label : Str) (attrs : List (Str × Str))
    (hc : attrGet attrs "charset" = some label) :
    startTagMeta cur .tentative attrs = .ok (match Spec.Sniff.changeWhileParsing cur .tentative label with
      | .unchanged => .unchanged
      | .nowCertain => .nowCertain
      | .restart e => .reparse e) := by
  have harg : startTagMetaArg .tentative attrs = .ok (some (.str label)) := by simp [startTagMetaArg, hc]
  have hl : lookupEncodingAny (.str label) = .ok (lookupLabel label) := by
    have := lookupStr_spec (some label)
    simp only [lookupEncodingAny, this, Spec.Sniff.label?, Option.bind_some, C06_lookup_spec]
  simp only [startTagMeta, harg]
  simp only [Spec.Sniff.changeWhileParsing, ← C06_lookup_spec]
  cases hn : lookupLabel label with
  | none =>
    rw [hn] at hl
    rw [changeEncoding_tentative_none cur _ hl]
    simp
  | some e =>
    rw [hn] at hl
    rw [changeEncoding_tentative_some cur _ e hl]
    by_cases hcur : cur = utf16be ∨ cur = utf16le
    · have : Spec.Sniff.isUtf16 cur = true := by rw [isUtf16_eq]; rcases hcur with h | h <;> simp [h]
      simp [hcur, this]
    · have hcur16 : Spec.Sniff.isUtf16 cur = false := by
        rw [isUtf16_eq]
        have n1 : cur ≠ utf16le := fun h => hcur (Or.inr h)
        have n2 : cur ≠ utf16be := fun h => hcur (Or.inl h)
        simp [n1, n2]
      simp only [hcur, if_false, hcur16, Bool.false_eq_true, lateMap]
      by_cases h16 : e = utf16be ∨ e = utf16le
      · have he16 : Spec.Sniff.isUtf16 e = true := by rw [isUtf16_eq]; rcases h16 with h | h <;> simp [h]
        by_cases hec : utf8 = cur
        · subst hec; simp [h16, he16, lit_utf8]
        · simp [h16, he16, lit_utf8, hec]
      · have he16 : Spec.Sniff.isUtf16 e = false := by
          rw [isUtf16_eq]
          have n1 : e ≠ utf16le := fun h => h16 (Or.inr h)
          have n2 : e ≠ utf16be := fun h => h16 (Or.inl h)
          simp [n1, n2]
        by_cases hx : e = xud
        · have hxn : ¬ (xud = utf16be ∨ xud = utf16le) := by decide
          subst hx
          by_cases hec : w1252 = cur
          · subst hec; simp [hxn, he16, lit_xud, lit_w1252]
          · simp [hxn, he16, lit_xud, lit_w1252, hec]
        · by_cases hec : e = cur
          · subst hec; simp [h16, he16, hx, lit_xud]
          · simp [h16, he16, hx, lit_xud, hec]

/-- regression examples (witnesses of the repaired late-meta defects): a late `<meta charset=utf-16>` under a tentative
windows-1252 restarts the parse as UTF-8; a late x-user-defined under windows-1252 only makes it certain; a document
being read as UTF-16 keeps its encoding whatever the declaration says -/
theorem C06_late_regression :
    startTagMeta w1252 .tentative [(lit "charset", lit "utf-16")] = .ok (.reparse utf8) ∧
    startTagMeta utf8 .tentative [(lit "charset", lit "UTF-16BE")] = .ok .nowCertain ∧
    startTagMeta w1252 .tentative [(lit "charset", lit "x-user-defined")] = .ok .nowCertain ∧
    startTagMeta utf8 .tentative [(lit "charset", lit "x-user-defined")] = .ok (.reparse w1252) ∧
    startTagMeta utf16le .tentative [(lit "charset", lit "koi8-r")] = .ok .nowCertain ∧
    startTagMeta utf16le .tentative [(lit "charset", lit "utf-16be")] = .ok .nowCertain ∧
    startTagMeta utf16le .tentative [(lit "charset", lit "bogus")] = .ok .unchanged := by
  decide +kernel

/-- the same label in the first 1024 bytes is handled (prescan: UTF-16 → UTF-8) -/
theorem C06_early_utf16_ok_witness :
    detectEncodingMeta [60, 109, 101, 116, 97, 32, 99, 104, 97, 114, 115, 101, 116, 61, 117, 116, 102, 45, 49, 54, 62] 0
      = .ok (some utf8) := by
  decide +kernel

/-! ### termination of the prescan -/

/-- **C06 (prescan terminates).**  The loops of the model carry the linear fuel `len(data) + 2` (the `for` loop of
getEncoding, the `while` loops of handleMeta and handlePossibleTag; the byte-scanning loops are structural).  That fuel
always suffices: for every byte string the prescan returns a result or a Python exception, never "out of fuel" —
every iteration of every loop strictly advances the position (H5.Proofs.PrescanFuel). -/
theorem C06_prescan_terminates (data : Bytes) (site : String) : getEncoding data ≠ .error (.outOfFuel site) := by
  intro h
  have := H5.Proofs.Prescan.getEncoding_nofuel data _ h
  simp [H5.Proofs.Prescan.isFuel] at this

theorem C06_detectEncodingMeta_terminates (data : Bytes) (pos : Nat) (site : String) :
    detectEncodingMeta data pos ≠ .error (.outOfFuel site) := by
  intro h
  unfold detectEncodingMeta at h
  split at h
  · rename_i e he
    injection h with h
    subst h
    exact C06_prescan_terminates _ site he
  · split at h
    · have : lookupEncodingStr (some (lit "utf-8")) = .ok (some utf8) := by rw [lit_utf8]; exact bom_labels.1
      rw [this] at h; cases h
    · split at h
      · rw [xud_label] at h; cases h
      · cases h
  · cases h

/-! ### prescan = the standard's prescan, per construct

  After the ten repairs the harness finds no input on which `detectEncodingMeta` differs from `Spec.Sniff.prescan`
  (class `prescan:*` / `prescan:not-covered…` would fire).  PROVED for every byte string are the two constructs that
  carry the attribute grammar; the remaining constructs (ContentAttrParser = "extracting a character encoding from a
  meta element", the `<meta>` attribute loop + decision, comment / `<!` / `</` / `<?` skipping, the main loop, and
  the invariance of the standard's algorithm under the up-front lower-casing `EncodingBytes` does) are checked by the
  correspondence + oracle only (`C06_regression_*` are their machine-checked examples). -/

/-- **C06 (get an attribute).**  For every byte string `d` and every position, `EncodingParser.getAttribute` computes
the standard's "get an attribute" on the bytes from that position: the same (lower-cased) name and value, stopping
on the same byte — or on the whitespace byte just before it, which the next call skips; no attribute before `>`
on both sides; running out of bytes is StopIteration / "None at the end of the data". -/
theorem C06_getAttribute_spec (d : Bytes) (pos : Nat) :
    H5.Proofs.PrescanSpec.GetRel d (getAttribute d pos) (Spec.Sniff.getAnAttribute {} (d.drop pos)) :=
  H5.Proofs.PrescanSpec.getAttribute_spec d pos

/-- **C06 (attributes of an ordinary tag).**  With the fuel the model uses (`len + 2`) and the fuel the reference uses
(`len + 1`), the attribute loop of `handlePossibleTag` and the standard's "repeatedly get an attribute" end on the
same `>` or both run out of bytes, from every position of every byte string. -/
theorem C06_readAllAttributes_spec (d : Bytes) (pos : Nat) (hpos : pos ≤ d.length) :
    match Spec.Sniff.skipAttrs {} ((d.drop pos).length + 1) (d.drop pos) with
    | none => readAllAttributes d (d.length + 2) pos = .stop ∨ readAllAttributes d (d.length + 2) pos = .ok () (blen d)
    | some r => ∃ p' : Nat, readAllAttributes d (d.length + 2) pos = .ok () p' ∧ d.drop p' = r ∧ r.head? = some 62 := by
  have := H5.Proofs.PrescanSpec.readAllAttributes_spec d (d.length - pos) pos (d.length + 2) ((d.drop pos).length + 1)
    (Nat.le_refl _) (by omega) (by omega) (by simp)
  exact this

/-! ### regression example for the repaired label lookup (BOM regressions: `C06_bom_regression`) -/

/-- a lone surrogate in an argument is an unknown label (it used to raise UnicodeEncodeError): the chain falls through -/
theorem C06_surrogate_label_regression :
    determineEncoding [] { override := some [0xD800] } = .ok ⟨w1252, .tentative, 0⟩ ∧
    determineEncoding [] { override := some [0xD800], transport := some utf8 } = .ok ⟨utf8, .certain, 0⟩ := by
  decide +kernel

/-! ### the ten repaired deviations of the prescan: one regression example each
(on the former witness the library now gives the standard's result, and the reference with exactly that deviation
switched on would differ — so the example really exercises the repaired construct) -/

/-- `<meta charset=bogus charset=utf-8>` -/
theorem C06_regression_noDedup :
    detectEncodingMeta [60, 109, 101, 116, 97, 32, 99, 104, 97, 114, 115, 101, 116, 61, 98, 111, 103, 117, 115, 32, 99, 104, 97, 114, 115, 101, 116, 61, 117, 116, 102, 45, 56, 62] 0
      = .ok (Spec.Sniff.prescan [60, 109, 101, 116, 97, 32, 99, 104, 97, 114, 115, 101, 116, 61, 98, 111, 103, 117, 115, 32, 99, 104, 97, 114, 115, 101, 116, 61, 117, 116, 102, 45, 56, 62]) ∧
    Spec.Sniff.prescanWith { noDedup := true } [60, 109, 101, 116, 97, 32, 99, 104, 97, 114, 115, 101, 116, 61, 98, 111, 103, 117, 115, 32, 99, 104, 97, 114, 115, 101, 116, 61, 117, 116, 102, 45, 56, 62]
      ≠ Spec.Sniff.prescan [60, 109, 101, 116, 97, 32, 99, 104, 97, 114, 115, 101, 116, 61, 98, 111, 103, 117, 115, 32, 99, 104, 97, 114, 115, 101, 116, 61, 117, 116, 102, 45, 56, 62] := by
  decide +kernel

/-- `<meta/charset=utf-8>` -/
theorem C06_regression_metaNeedsSpace :
    detectEncodingMeta [60, 109, 101, 116, 97, 47, 99, 104, 97, 114, 115, 101, 116, 61, 117, 116, 102, 45, 56, 62] 0
      = .ok (Spec.Sniff.prescan [60, 109, 101, 116, 97, 47, 99, 104, 97, 114, 115, 101, 116, 61, 117, 116, 102, 45, 56, 62]) ∧
    Spec.Sniff.prescanWith { metaNeedsSpace := true } [60, 109, 101, 116, 97, 47, 99, 104, 97, 114, 115, 101, 116, 61, 117, 116, 102, 45, 56, 62]
      ≠ Spec.Sniff.prescan [60, 109, 101, 116, 97, 47, 99, 104, 97, 114, 115, 101, 116, 61, 117, 116, 102, 45, 56, 62] := by
  decide +kernel

/-- `<meta charset=x-user-defined>` -/
theorem C06_regression_noUserDefinedMap :
    detectEncodingMeta [60, 109, 101, 116, 97, 32, 99, 104, 97, 114, 115, 101, 116, 61, 120, 45, 117, 115, 101, 114, 45, 100, 101, 102, 105, 110, 101, 100, 62] 0
      = .ok (Spec.Sniff.prescan [60, 109, 101, 116, 97, 32, 99, 104, 97, 114, 115, 101, 116, 61, 120, 45, 117, 115, 101, 114, 45, 100, 101, 102, 105, 110, 101, 100, 62]) ∧
    Spec.Sniff.prescanWith { noUserDefinedMap := true } [60, 109, 101, 116, 97, 32, 99, 104, 97, 114, 115, 101, 116, 61, 120, 45, 117, 115, 101, 114, 45, 100, 101, 102, 105, 110, 101, 100, 62]
      ≠ Spec.Sniff.prescan [60, 109, 101, 116, 97, 32, 99, 104, 97, 114, 115, 101, 116, 61, 120, 45, 117, 115, 101, 114, 45, 100, 101, 102, 105, 110, 101, 100, 62] := by
  decide +kernel

/-- `<!--><meta charset=utf-8>` -/
theorem C06_regression_commentNoOverlap :
    detectEncodingMeta [60, 33, 45, 45, 62, 60, 109, 101, 116, 97, 32, 99, 104, 97, 114, 115, 101, 116, 61, 117, 116, 102, 45, 56, 62] 0
      = .ok (Spec.Sniff.prescan [60, 33, 45, 45, 62, 60, 109, 101, 116, 97, 32, 99, 104, 97, 114, 115, 101, 116, 61, 117, 116, 102, 45, 56, 62]) ∧
    Spec.Sniff.prescanWith { commentNoOverlap := true } [60, 33, 45, 45, 62, 60, 109, 101, 116, 97, 32, 99, 104, 97, 114, 115, 101, 116, 61, 117, 116, 102, 45, 56, 62]
      ≠ Spec.Sniff.prescan [60, 33, 45, 45, 62, 60, 109, 101, 116, 97, 32, 99, 104, 97, 114, 115, 101, 116, 61, 117, 116, 102, 45, 56, 62] := by
  decide +kernel

/-- `<<meta charset=utf-8>` -/
theorem C06_regression_skipByteAfterLt :
    detectEncodingMeta [60, 60, 109, 101, 116, 97, 32, 99, 104, 97, 114, 115, 101, 116, 61, 117, 116, 102, 45, 56, 62] 0
      = .ok (Spec.Sniff.prescan [60, 60, 109, 101, 116, 97, 32, 99, 104, 97, 114, 115, 101, 116, 61, 117, 116, 102, 45, 56, 62]) ∧
    Spec.Sniff.prescanWith { skipByteAfterLt := true } [60, 60, 109, 101, 116, 97, 32, 99, 104, 97, 114, 115, 101, 116, 61, 117, 116, 102, 45, 56, 62]
      ≠ Spec.Sniff.prescan [60, 60, 109, 101, 116, 97, 32, 99, 104, 97, 114, 115, 101, 116, 61, 117, 116, 102, 45, 56, 62] := by
  decide +kernel

/-- `<a<meta charset=utf-8>` -/
theorem C06_regression_ltTerminates :
    detectEncodingMeta [60, 97, 60, 109, 101, 116, 97, 32, 99, 104, 97, 114, 115, 101, 116, 61, 117, 116, 102, 45, 56, 62] 0
      = .ok (Spec.Sniff.prescan [60, 97, 60, 109, 101, 116, 97, 32, 99, 104, 97, 114, 115, 101, 116, 61, 117, 116, 102, 45, 56, 62]) ∧
    Spec.Sniff.prescanWith { ltTerminates := true } [60, 97, 60, 109, 101, 116, 97, 32, 99, 104, 97, 114, 115, 101, 116, 61, 117, 116, 102, 45, 56, 62]
      ≠ Spec.Sniff.prescan [60, 97, 60, 109, 101, 116, 97, 32, 99, 104, 97, 114, 115, 101, 116, 61, 117, 116, 102, 45, 56, 62] := by
  decide +kernel

/-- `<meta charset=utf-8 ` -/
theorem C06_regression_eagerMeta :
    detectEncodingMeta [60, 109, 101, 116, 97, 32, 99, 104, 97, 114, 115, 101, 116, 61, 117, 116, 102, 45, 56, 32] 0
      = .ok (Spec.Sniff.prescan [60, 109, 101, 116, 97, 32, 99, 104, 97, 114, 115, 101, 116, 61, 117, 116, 102, 45, 56, 32]) ∧
    Spec.Sniff.prescanWith { eagerMeta := true } [60, 109, 101, 116, 97, 32, 99, 104, 97, 114, 115, 101, 116, 61, 117, 116, 102, 45, 56, 32]
      ≠ Spec.Sniff.prescan [60, 109, 101, 116, 97, 32, 99, 104, 97, 114, 115, 101, 116, 61, 117, 116, 102, 45, 56, 32] := by
  decide +kernel

/-- `</a b='><meta charset=utf-8>'>` -/
theorem C06_regression_endTagOffByOne :
    detectEncodingMeta [60, 47, 97, 32, 98, 61, 39, 62, 60, 109, 101, 116, 97, 32, 99, 104, 97, 114, 115, 101, 116, 61, 117, 116, 102, 45, 56, 62, 39, 62] 0
      = .ok (Spec.Sniff.prescan [60, 47, 97, 32, 98, 61, 39, 62, 60, 109, 101, 116, 97, 32, 99, 104, 97, 114, 115, 101, 116, 61, 117, 116, 102, 45, 56, 62, 39, 62]) ∧
    Spec.Sniff.prescanWith { endTagOffByOne := true } [60, 47, 97, 32, 98, 61, 39, 62, 60, 109, 101, 116, 97, 32, 99, 104, 97, 114, 115, 101, 116, 61, 117, 116, 102, 45, 56, 62, 39, 62]
      ≠ Spec.Sniff.prescan [60, 47, 97, 32, 98, 61, 39, 62, 60, 109, 101, 116, 97, 32, 99, 104, 97, 114, 115, 101, 116, 61, 117, 116, 102, 45, 56, 62, 39, 62] := by
  decide +kernel

/-- `<meta http-equiv=content-type content='charset charset=utf-8'>` -/
theorem C06_regression_contentNoRetry :
    detectEncodingMeta [60, 109, 101, 116, 97, 32, 104, 116, 116, 112, 45, 101, 113, 117, 105, 118, 61, 99, 111, 110, 116, 101, 110, 116, 45, 116, 121, 112, 101, 32, 99, 111, 110, 116, 101, 110, 116, 61, 39, 99, 104, 97, 114, 115, 101, 116, 32, 99, 104, 97, 114, 115, 101, 116, 61, 117, 116, 102, 45, 56, 39, 62] 0
      = .ok (Spec.Sniff.prescan [60, 109, 101, 116, 97, 32, 104, 116, 116, 112, 45, 101, 113, 117, 105, 118, 61, 99, 111, 110, 116, 101, 110, 116, 45, 116, 121, 112, 101, 32, 99, 111, 110, 116, 101, 110, 116, 61, 39, 99, 104, 97, 114, 115, 101, 116, 32, 99, 104, 97, 114, 115, 101, 116, 61, 117, 116, 102, 45, 56, 39, 62]) ∧
    Spec.Sniff.prescanWith { contentNoRetry := true } [60, 109, 101, 116, 97, 32, 104, 116, 116, 112, 45, 101, 113, 117, 105, 118, 61, 99, 111, 110, 116, 101, 110, 116, 45, 116, 121, 112, 101, 32, 99, 111, 110, 116, 101, 110, 116, 61, 39, 99, 104, 97, 114, 115, 101, 116, 32, 99, 104, 97, 114, 115, 101, 116, 61, 117, 116, 102, 45, 56, 39, 62]
      ≠ Spec.Sniff.prescan [60, 109, 101, 116, 97, 32, 104, 116, 116, 112, 45, 101, 113, 117, 105, 118, 61, 99, 111, 110, 116, 101, 110, 116, 45, 116, 121, 112, 101, 32, 99, 111, 110, 116, 101, 110, 116, 61, 39, 99, 104, 97, 114, 115, 101, 116, 32, 99, 104, 97, 114, 115, 101, 116, 61, 117, 116, 102, 45, 56, 39, 62] := by
  decide +kernel

/-- `<meta http-equiv=content-type content=charset=utf-8;>` -/
theorem C06_regression_contentNoSemicolon :
    detectEncodingMeta [60, 109, 101, 116, 97, 32, 104, 116, 116, 112, 45, 101, 113, 117, 105, 118, 61, 99, 111, 110, 116, 101, 110, 116, 45, 116, 121, 112, 101, 32, 99, 111, 110, 116, 101, 110, 116, 61, 99, 104, 97, 114, 115, 101, 116, 61, 117, 116, 102, 45, 56, 59, 62] 0
      = .ok (Spec.Sniff.prescan [60, 109, 101, 116, 97, 32, 104, 116, 116, 112, 45, 101, 113, 117, 105, 118, 61, 99, 111, 110, 116, 101, 110, 116, 45, 116, 121, 112, 101, 32, 99, 111, 110, 116, 101, 110, 116, 61, 99, 104, 97, 114, 115, 101, 116, 61, 117, 116, 102, 45, 56, 59, 62]) ∧
    Spec.Sniff.prescanWith { contentNoSemicolon := true } [60, 109, 101, 116, 97, 32, 104, 116, 116, 112, 45, 101, 113, 117, 105, 118, 61, 99, 111, 110, 116, 101, 110, 116, 45, 116, 121, 112, 101, 32, 99, 111, 110, 116, 101, 110, 116, 61, 99, 104, 97, 114, 115, 101, 116, 61, 117, 116, 102, 45, 56, 59, 62]
      ≠ Spec.Sniff.prescan [60, 109, 101, 116, 97, 32, 104, 116, 116, 112, 45, 101, 113, 117, 105, 118, 61, 99, 111, 110, 116, 101, 110, 116, 45, 116, 121, 112, 101, 32, 99, 111, 110, 116, 101, 110, 116, 61, 99, 104, 97, 114, 115, 101, 116, 61, 117, 116, 102, 45, 56, 59, 62] := by
  decide +kernel

/-- further examples: the library configuration (`html5libDev = {}`) reproduces the model -/
theorem C06_regression_more :
    detectEncodingMeta [60, 109, 101, 116, 97, 32, 99, 104, 97, 114, 115, 101, 116, 61, 117, 116, 102, 45, 56, 32] 0 = .ok (Spec.Sniff.prescanWith Spec.Sniff.html5libDev [60, 109, 101, 116, 97, 32, 99, 104, 97, 114, 115, 101, 116, 61, 117, 116, 102, 45, 56, 32]) ∧
    detectEncodingMeta [60, 109, 101, 116, 97, 32, 99, 111, 110, 116, 101, 110, 116, 61, 39, 99, 104, 97, 114, 115, 101, 116, 61, 107, 111, 105, 56, 45, 114, 39, 32, 99, 104, 97, 114, 115, 101, 116, 61, 98, 105, 103, 53, 32, 104, 116, 116, 112, 45, 101, 113, 117, 105, 118, 61, 99, 111, 110, 116, 101, 110, 116, 45, 116, 121, 112, 101, 62] 0 = .ok (Spec.Sniff.prescanWith Spec.Sniff.html5libDev [60, 109, 101, 116, 97, 32, 99, 111, 110, 116, 101, 110, 116, 61, 39, 99, 104, 97, 114, 115, 101, 116, 61, 107, 111, 105, 56, 45, 114, 39, 32, 99, 104, 97, 114, 115, 101, 116, 61, 98, 105, 103, 53, 32, 104, 116, 116, 112, 45, 101, 113, 117, 105, 118, 61, 99, 111, 110, 116, 101, 110, 116, 45, 116, 121, 112, 101, 62]) ∧
    detectEncodingMeta [60, 109, 101, 116, 97, 120, 32, 97, 61, 39, 60, 109, 101, 116, 97, 32, 99, 104, 97, 114, 115, 101, 116, 61, 117, 116, 102, 45, 56, 62, 39, 62] 0 = .ok (Spec.Sniff.prescanWith Spec.Sniff.html5libDev [60, 109, 101, 116, 97, 120, 32, 97, 61, 39, 60, 109, 101, 116, 97, 32, 99, 104, 97, 114, 115, 101, 116, 61, 117, 116, 102, 45, 56, 62, 39, 62]) ∧
    detectEncodingMeta [60, 109, 101, 116, 97, 32, 104, 116, 116, 112, 45, 101, 113, 117, 105, 118, 61, 99, 111, 110, 116, 101, 110, 116, 45, 116, 121, 112, 101, 32, 99, 111, 110, 116, 101, 110, 116, 61, 39, 116, 101, 120, 116, 47, 104, 116, 109, 108, 59, 32, 99, 104, 97, 114, 115, 101, 116, 61, 107, 111, 105, 56, 45, 114, 59, 120, 39, 32, 62] 0 = .ok (Spec.Sniff.prescanWith Spec.Sniff.html5libDev [60, 109, 101, 116, 97, 32, 104, 116, 116, 112, 45, 101, 113, 117, 105, 118, 61, 99, 111, 110, 116, 101, 110, 116, 45, 116, 121, 112, 101, 32, 99, 111, 110, 116, 101, 110, 116, 61, 39, 116, 101, 120, 116, 47, 104, 116, 109, 108, 59, 32, 99, 104, 97, 114, 115, 101, 116, 61, 107, 111, 105, 56, 45, 114, 59, 120, 39, 32, 62]) ∧
    detectEncodingMeta [60, 77, 69, 84, 65, 32, 72, 84, 84, 80, 45, 69, 81, 85, 73, 86, 61, 39, 67, 111, 110, 116, 101, 110, 116, 45, 84, 121, 112, 101, 39, 32, 67, 79, 78, 84, 69, 78, 84, 61, 39, 116, 101, 120, 116, 47, 104, 116, 109, 108, 59, 32, 67, 72, 65, 82, 83, 69, 84, 61, 66, 105, 103, 53, 39, 62] 0 = .ok (Spec.Sniff.prescanWith Spec.Sniff.html5libDev [60, 77, 69, 84, 65, 32, 72, 84, 84, 80, 45, 69, 81, 85, 73, 86, 61, 39, 67, 111, 110, 116, 101, 110, 116, 45, 84, 121, 112, 101, 39, 32, 67, 79, 78, 84, 69, 78, 84, 61, 39, 116, 101, 120, 116, 47, 104, 116, 109, 108, 59, 32, 67, 72, 65, 82, 83, 69, 84, 61, 66, 105, 103, 53, 39, 62]) ∧
    detectEncodingMeta [60, 33, 45, 45, 32, 60, 109, 101, 116, 97, 32, 99, 104, 97, 114, 115, 101, 116, 61, 117, 116, 102, 45, 56, 62, 32, 45, 45, 62, 60, 109, 101, 116, 97, 32, 99, 104, 97, 114, 115, 101, 116, 61, 107, 111, 105, 56, 45, 114, 62] 0 = .ok (Spec.Sniff.prescanWith Spec.Sniff.html5libDev [60, 33, 45, 45, 32, 60, 109, 101, 116, 97, 32, 99, 104, 97, 114, 115, 101, 116, 61, 117, 116, 102, 45, 56, 62, 32, 45, 45, 62, 60, 109, 101, 116, 97, 32, 99, 104, 97, 114, 115, 101, 116, 61, 107, 111, 105, 56, 45, 114, 62]) ∧
    detectEncodingMeta [60, 109, 101, 116, 97, 32, 99, 104, 97, 114, 115, 101, 116, 61, 117, 116, 102, 45, 49, 54, 98, 101, 62] 0 = .ok (Spec.Sniff.prescanWith Spec.Sniff.html5libDev [60, 109, 101, 116, 97, 32, 99, 104, 97, 114, 115, 101, 116, 61, 117, 116, 102, 45, 49, 54, 98, 101, 62]) := by
  decide +kernel

end H5.Props.C06
