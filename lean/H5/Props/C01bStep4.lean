/-
  C01b — step lemmas of the "in body" insertion mode of the SPECIFICATION: end tags of the current node.
-/
import H5.Props.C01bStep3
set_option linter.unusedSimpArgs false
set_option linter.unusedVariables false
namespace H5.Props.C01b
open H5 H5.Spec.TC
open H5.Props.C07b (fmtName fmtNames)

theorem popUntilHtml_run_top (s : St) (c : Nat) (rest : List Nat) (n : Node) (nm : Str) (attrs : List Attr)
    (hd : s.dev = {}) (hs : s.stack = c :: rest) (hn : s.arena[c]? = some n) (hk : n.kind = .element .html nm attrs) :
    (popUntilHtml nm).run s = .ok ((), { s with stack := rest }) := by
  unfold popUntilHtml popUntil
  simp only [run_bind, get_run, ok_bind, hs, popUntilAux, pop_run, List.tail_cons]
  rw [isHtml_run { s with stack := rest } c n _ nm attrs nm hd hn hk]
  simp only [ok_bind, beq_self_eq_true, ↓reduceIte, run_pure]

theorem popUntilHtmlAmong_run_top (s : St) (c : Nat) (rest : List Nat) (n : Node) (nm : Str) (attrs : List Attr)
    (names : List Str) (hs : s.stack = c :: rest) (hn : s.arena[c]? = some n) (hk : n.kind = .element .html nm attrs)
    (ha : among nm names = true) : (popUntilHtmlAmong names).run s = .ok ((), { s with stack := rest }) := by
  unfold popUntilHtmlAmong popUntil
  simp only [run_bind, get_run, ok_bind, hs, popUntilAux, pop_run, List.tail_cons]
  rw [isHtmlAmong_run { s with stack := rest } c n nm attrs names hn hk]
  simp only [ok_bind, ha, ↓reduceIte, run_pure]

theorem kindType_of {g : SFrame} {nm : Str} {attrs : List Attr} (hk : g.node.kind = .element .html nm attrs) :
    kindType g.node.kind = some (NS.html, nm) := by rw [hk]; rfl

theorem afeEntry_none_of {g : SFrame} {nm : Str} {attrs : List Attr} (hk : g.node.kind = .element .html nm attrs)
    (hf : fmtName nm = false) : afeEntry g = none := by
  unfold afeEntry; rw [hk]; simp [hf]

/-- the state after the current node was popped -/
def poppedSt (s : St) : St := { s with stack := s.stack.tail }

/-- "any other end tag" for the current node -/
theorem step_end_ordinary {s fs p g} (h : SInv .inBody s (fs ++ [p]) g) (hfs : fs ≠ []) (nm : Str) (gattrs : List Attr)
    (hk : g.node.kind = .element .html nm gattrs) (ho : among nm specEndNames = false) (hf : fmtName nm = false) :
    ∃ s', (processToken (.endTag nm)).run s = .ok ((), s') ∧ SInv .inBody s' fs (p.withDone g) := by
  have hsc : s.dev = {} := h.dev
  have hgi : (generateImpliedEndTags (some nm)).run s = .ok ((), s) :=
    h.generateImplied_none (some nm) nm (kindType_of hk) (by simp)
  refine ⟨poppedSt s, processToken_of_mode h _ (fun r => ?_),
    h.popped hfs ⟨rfl, rfl, rfl, rfl, rfl, rfl, rfl⟩ h.mode rfl (h.afe_pop_other hfs (afeEntry_none_of hk hf)) rfl⟩
  show (bodyEndTag r (.endTag nm) nm).run s = _
  unfold bodyEndTag
  simp (disch := decide +kernel) only [hsc, run_bind, get_run, ok_bind, among_notin ho, beq_notin _ ho, Bool.false_eq_true,
    ↓reduceIte, Bool.or_false, Bool.false_and, Bool.and_false, Bool.false_or]
  unfold anyOtherEndTag
  simp only [run_bind, get_run, ok_bind, h.stackCons, anyOtherEndTagAux,
    isHtml_run s g.id g.node _ nm gattrs nm hsc h.topNode hk, beq_self_eq_true, ↓reduceIte, hgi,
    popUntilNode_run_top s g.id _ h.stackCons]
  simp only [poppedSt, h.stackCons, List.tail_cons, hsc]

/-- the end tag of a block element that is the current node -/
theorem step_end_block {s fs p g} (h : SInv .inBody s (fs ++ [p]) g) (hfs : fs ≠ []) (nm : Str) (gattrs : List Attr)
    (hk : g.node.kind = .element .html nm gattrs) (hK : among nm specBlock = true) :
    ∃ s', (processToken (.endTag nm)).run s = .ok ((), s') ∧ SInv .inBody s' fs (p.withDone g) := by
  have hsc : s.dev = {} := h.dev
  have hf : fmtName nm = false := by
    have := among_disjoint (L := fmtNames) hK (by decide +kernel)
    simpa [fmtName, among] using this
  have hgi : (generateImpliedEndTags none).run s = .ok ((), s) :=
    h.generateImplied_none none nm (kindType_of hk) (by rw [among_disjoint hK (by decide +kernel)]; rfl)
  refine ⟨poppedSt s, processToken_of_mode h _ (fun r => ?_),
    h.popped hfs ⟨rfl, rfl, rfl, rfl, rfl, rfl, rfl⟩ h.mode rfl (h.afe_pop_other hfs (afeEntry_none_of hk hf)) rfl⟩
  show (bodyEndTag r (.endTag nm) nm).run s = _
  unfold bodyEndTag
  simp (disch := decide +kernel) only [hsc, run_bind, get_run, ok_bind, among_disjoint hK, among_sub hK, beq_disjoint _ hK,
    Bool.false_eq_true, ↓reduceIte, Bool.or_false, Bool.false_and, Bool.and_false, Bool.false_or, Bool.not_false,
    Bool.and_true, h.hasInScope_top .default nm (kindType_of hk), Bool.not_true, hgi,
    popUntilHtml_run_top s g.id _ g.node nm gattrs hsc h.stackCons h.topNode hk]
  simp only [poppedSt, h.stackCons, List.tail_cons, hsc]

/-- `</p>` for the current node -/
theorem step_end_p {s fs p g} (h : SInv .inBody s (fs ++ [p]) g) (hfs : fs ≠ []) (gattrs : List Attr)
    (hk : g.node.kind = .element .html (lit "p") gattrs) :
    ∃ s', (processToken (.endTag (lit "p"))).run s = .ok ((), s') ∧ SInv .inBody s' fs (p.withDone g) := by
  have hsc : s.dev = {} := h.dev
  have hK : among (lit "p") [lit "p"] = true := among_singleton _
  have hf : fmtName (lit "p") = false := by decide +kernel
  have hgi : (generateImpliedEndTags (some (lit "p"))).run s = .ok ((), s) :=
    h.generateImplied_none _ _ (kindType_of hk) (by simp)
  refine ⟨poppedSt s, processToken_of_mode h _ (fun r => ?_),
    h.popped hfs ⟨rfl, rfl, rfl, rfl, rfl, rfl, rfl⟩ h.mode rfl (h.afe_pop_other hfs (afeEntry_none_of hk hf)) rfl⟩
  show (bodyEndTag r (.endTag (lit "p")) (lit "p")).run s = _
  unfold bodyEndTag
  simp (disch := decide +kernel) only [hsc, run_bind, get_run, ok_bind, among_disjoint hK, beq_disjoint _ hK,
    beq_self_eq_true, Bool.false_eq_true, ↓reduceIte, Bool.or_false, Bool.false_and, Bool.and_false, Bool.false_or,
    Bool.not_false, Bool.and_true, h.hasInScope_top .button _ (kindType_of hk), Bool.not_true]
  unfold closeP
  simp only [run_bind, hgi, ok_bind, popUntilHtml_run_top s g.id _ g.node _ gattrs hsc h.stackCons h.topNode hk]
  simp only [poppedSt, h.stackCons, List.tail_cons, hsc]

/-- `</li>`, `</dd>`, `</dt>` for the current node -/
theorem step_end_item {s fs p g} (h : SInv .inBody s (fs ++ [p]) g) (hfs : fs ≠ []) (nm : Str) (gattrs : List Attr)
    (hk : g.node.kind = .element .html nm gattrs) (hK : among nm specItems = true) :
    ∃ s', (processToken (.endTag nm)).run s = .ok ((), s') ∧ SInv .inBody s' fs (p.withDone g) := by
  have hsc : s.dev = {} := h.dev
  have hf : fmtName nm = false := by
    have := among_disjoint (L := fmtNames) hK (by decide +kernel)
    simpa [fmtName, among] using this
  have hgi : (generateImpliedEndTags (some nm)).run s = .ok ((), s) :=
    h.generateImplied_none _ _ (kindType_of hk) (by simp)
  have hpop := popUntilHtml_run_top s g.id _ g.node nm gattrs hsc h.stackCons h.topNode hk
  refine ⟨poppedSt s, processToken_of_mode h _ (fun r => ?_),
    h.popped hfs ⟨rfl, rfl, rfl, rfl, rfl, rfl, rfl⟩ h.mode rfl (h.afe_pop_other hfs (afeEntry_none_of hk hf)) rfl⟩
  show (bodyEndTag r (.endTag nm) nm).run s = _
  unfold bodyEndTag
  by_cases hl : (nm == lit "li") = true
  · have hnm : nm = lit "li" := by simpa using hl
    subst hnm
    simp (disch := decide +kernel) only [hsc, run_bind, get_run, ok_bind, among_disjoint hK, beq_disjoint _ hK,
      beq_self_eq_true, Bool.false_eq_true, ↓reduceIte, Bool.or_false, Bool.false_and, Bool.and_false, Bool.false_or,
      Bool.not_false, Bool.and_true, h.hasInScope_top .listItem _ (kindType_of hk), Bool.not_true, hgi, hpop]
    simp only [poppedSt, h.stackCons, List.tail_cons, hsc]
  · have hl' : (nm == lit "li") = false := by simpa using hl
    have hdt : among nm (strs ["dd", "dt"]) = true := by
      have hm : nm ∈ specItems := by simpa [among] using hK
      have : nm ≠ lit "li" := by simpa using hl'
      simp only [specItems, strs, List.map_cons, List.map_nil, List.mem_cons, List.not_mem_nil, or_false] at hm
      rcases hm with hm | hm | hm
      · exact absurd hm this
      · subst hm; decide +kernel
      · subst hm; decide +kernel
    simp (disch := decide +kernel) only [hsc, run_bind, get_run, ok_bind, among_disjoint hK, beq_disjoint _ hK, hl', hdt,
      Bool.false_eq_true, ↓reduceIte, Bool.or_false, Bool.false_and, Bool.and_false, Bool.false_or,
      Bool.not_false, Bool.and_true, h.hasInScope_top .default _ (kindType_of hk), Bool.not_true, hgi, hpop]
    simp only [poppedSt, h.stackCons, List.tail_cons, hsc]

/-- a heading end tag for the current node (a heading of that name) -/
theorem step_end_heading {s fs p g} (h : SInv .inBody s (fs ++ [p]) g) (hfs : fs ≠ []) (nm : Str) (gattrs : List Attr)
    (hk : g.node.kind = .element .html nm gattrs) (hK : among nm specHeadings = true) :
    ∃ s', (processToken (.endTag nm)).run s = .ok ((), s') ∧ SInv .inBody s' fs (p.withDone g) := by
  have hsc : s.dev = {} := h.dev
  have hf : fmtName nm = false := by
    have := among_disjoint (L := fmtNames) hK (by decide +kernel)
    simpa [fmtName, among] using this
  have hgi : (generateImpliedEndTags none).run s = .ok ((), s) :=
    h.generateImplied_none none nm (kindType_of hk) (by rw [among_disjoint hK (by decide +kernel)]; rfl)
  have hin : (hasAnyInScope .default headingNames).run s = .ok (true, s) :=
    h.hasAnyInScope_top .default headingNames nm (kindType_of hk) hK
  have hpop := popUntilHtmlAmong_run_top s g.id _ g.node nm gattrs headingNames h.stackCons h.topNode hk hK
  refine ⟨poppedSt s, processToken_of_mode h _ (fun r => ?_),
    h.popped hfs ⟨rfl, rfl, rfl, rfl, rfl, rfl, rfl⟩ h.mode rfl (h.afe_pop_other hfs (afeEntry_none_of hk hf)) rfl⟩
  show (bodyEndTag r (.endTag nm) nm).run s = _
  unfold bodyEndTag
  simp (disch := decide +kernel) only [hsc, run_bind, get_run, ok_bind, among_disjoint hK, among_sub hK, beq_disjoint _ hK,
    Bool.false_eq_true, ↓reduceIte, Bool.or_false, Bool.false_and, Bool.and_false, Bool.false_or, Bool.not_false,
    Bool.and_true, hin, Bool.not_true, hgi, hpop]
  simp only [poppedSt, h.stackCons, List.tail_cons, hsc]

/-- the end tag of a formatting element that is the current node: the adoption agency algorithm pops it -/
theorem step_end_fmt {s fs p g} (h : SInv .inBody s (fs ++ [p]) g) (hfs : fs ≠ []) (nm : Str) (gattrs : List Attr)
    (hk : g.node.kind = .element .html nm gattrs) (hf : fmtName nm = true) :
    ∃ s', (processToken (.endTag nm)).run s = .ok ((), s') ∧ SInv .inBody s' fs (p.withDone g) := by
  have hsc : s.dev = {} := h.dev
  have hK : among nm fmtNames = true := by simpa [fmtName, among] using hf
  have hop : opens (fs ++ [p]) g = opens fs p ++ [g] := opens_snoc _ _ _ hfs
  have hge : afeEntry g = some (.elem g.id nm (pairsOf gattrs)) := by
    unfold afeEntry; rw [hk]; simp [hf]
  have hafe : s.afe = afeOf (opens fs p) ++ [.elem g.id nm (pairsOf gattrs)] := by
    rw [h.afe, hop, afeOf_append]
    simp [afeOf, hge]
  have hl : ∀ e ∈ afeOf (opens fs p), e ≠ .marker ∧ e.node? ≠ some g.id := by
    intro e he
    obtain ⟨x, hx, hxe⟩ := mem_afeOf he
    have hx' : x ∈ fs ++ [p] := by
      rcases List.mem_append.1 hx with hx | hx
      · exact List.mem_append_left _ (mem_of_mem_drop hx)
      · exact List.mem_append_right _ hx
    have hlt := PrefixOK.lt_of_mem h.frames.1 x hx'
    refine ⟨(afeEntry_node hxe).2, ?_⟩
    rw [(afeEntry_node hxe).1]
    intro heq
    have : x.id = g.id := by simpa using heq
    omega
  have haaa := adoptionAgency_run_top s g.id _ g.node nm gattrs _ _ hsc h.stackCons h.topNode hk hafe hl
    (h.hasNodeInScope_top .default)
  refine ⟨{ s with stack := ((fs.drop 1 ++ [p]).map (·.id)).reverse, afe := afeOf (opens fs p) },
    processToken_of_mode h _ (fun r => ?_),
    h.popped hfs ⟨rfl, rfl, rfl, rfl, rfl, rfl, rfl⟩ h.mode ?_ rfl rfl⟩
  · show (bodyEndTag r (.endTag nm) nm).run s = _
    unfold bodyEndTag
    simp (disch := decide +kernel) only [hsc, run_bind, get_run, ok_bind, among_disjoint hK, among_sub hK, beq_disjoint _ hK,
      Bool.false_eq_true, ↓reduceIte, Bool.or_false, Bool.false_and, Bool.and_false, Bool.false_or, Bool.not_false,
      Bool.and_true]
    rw [haaa]
    have : ((fs ++ [p]).drop 1) = fs.drop 1 ++ [p] := by
      cases fs with
      | nil => exact absurd rfl hfs
      | cons a rest => simp
    simp only [this, hsc]
  · show ((fs.drop 1 ++ [p]).map (·.id)).reverse = s.stack.tail
    rw [h.stack, hop]
    simp [opens]

end H5.Props.C01b
