/-
  C03c — what is left of `reprocess_total` (level R4, NOT proved): with the invariant, termination of the reprocess loop
  of `mainLoop` is reduced to a measure on (state, token) that every round handing its token back decreases — from the
  states with `Inv` only, i.e. with the guards G1–G5 available.
-/
import H5.Props.C03cGuards
set_option linter.unusedSimpArgs false
set_option linter.unusedVariables false
namespace H5.Props.C03c
open H5 H5.Model H5.Model.TB H5.Model.Dom
open H5.Props.C02c (NF Post Post_bind Post_mono Post_pure Post_ok Post_error Post_throw Post_ite
  NF_typeError NF_keyError NF_indexError NF_assertFail NF_valueError NF_lookupError)
open H5.Props.C03b

/-- **the reduction**: if every round of the reprocess loop that hands its token back decreases `μ` — from states
satisfying the invariant, for tokens as the tokenizer makes them — then with fuel `> μ st tok` the loop does not run
out of fuel (no fuel error of any site), and it preserves the invariant -/
theorem reprocessLoop_total_of_measure {n : Nat} (hn : depthBound ≤ n) (μ : PState → Token → Nat)
    (hμ : ∀ st tok, Inv st → NsNone tok →
      Tr (reprocessRound (mkRec n) tok) st (fun a st' => a = some tok → μ st' tok < μ st tok)) :
    ∀ fuel tok st, NsNone tok → Inv st → μ st tok < fuel →
      Tr (reprocessLoop (mkRec n) fuel tok) st (fun _ st' => Inv st') := by
  intro fuel
  induction fuel with
  | zero => intro tok st _ _ h; omega
  | succ fuel ih =>
    intro tok st hNs hi hlt
    have hround := round_inv hn tok hNs st hi
    have hdec := hμ st tok hi hNs
    unfold Tr
    rw [reprocessLoop_succ]
    unfold Tr at hround hdec
    cases hr : (reprocessRound (mkRec n) tok).run st with
    | error e =>
      rw [hr] at hround
      exact hround
    | ok p =>
      rw [hr] at hround hdec
      obtain ⟨nt, st'⟩ := p
      simp only [ok_bind]
      cases nt with
      | none => exact hround.1
      | some t =>
        have ht : t = tok := by
          rcases hround.2 with h | h
          · cases h
          · exact Option.some.inj h
        subst ht
        have hlt' : μ st' t < μ st t := hdec rfl
        exact ih t st' hNs hround.1 (by omega)

end H5.Props.C03c
