/-
  C07 identity — the whole parser on the serialization of a covered document:
  `Parser.parse cfg0 (serDoc cs) = .ok (docTree cs, [])`.
-/
import H5.Props.C07bLoop
import H5.Props.C07bHead
import H5.Props.C07bTok
set_option linter.unusedSimpArgs false
set_option linter.unusedVariables false
namespace H5.Props.C07b
open H5 H5.Model H5.Model.TB H5.Model.Dom
open H5.Props.C08c (tagNameOK startTagOK valueOK startTagText endTagText commentText)
open H5.Model.Serializer (escape)

/-- html5lib's tokenizer model provides what the induction needs (H5.Props.C07bTok) -/
theorem tokFacts : TokFacts commentOKm where
  eof := fun ts h => next_eof ts h
  doctype := fun ts rest h => next_doctype_html ts rest h
  endTag := fun ts name rest hn h => next_endTag ts name rest hn h
  startTag := fun ts name attrs rest hok h => next_startTag ts name attrs rest hok h
  text := fun ts d rest hd hok hrest h => next_text ts d rest hd hok hrest h
  comment := fun ts d rest hok h => next_comment ts d rest hok h

/-- its serialization -/
def serDoc (hd cs : List Tree) : Str :=
  lit "<!DOCTYPE html>" ++ (startTagText {} sHtml [] ++ (startTagText {} sHead [] ++ (serForest hd ++ (endTagText sHead ++
    (startTagText {} sBody [] ++ (serForest cs ++ (endTagText sBody ++ (endTagText sHtml ++ []))))))))

theorem lit_html : lit "html" = sHtml := by decide

/-! ### the head: an optional `title` (RCDATA) -/

theorem RcAt.setCdata {elem : Str} {ts : Model.Tokenizer.St} {inp : Str} (h : RcAt elem ts inp) (b : Bool) :
    RcAt elem (Model.Tokenizer.setCdataAllowed ts b) inp := h

/-- the text of `title`: one or more pulls in the RCDATA state, each appended as a text node in the `text` phase -/
theorem rc_text_run : ∀ (n : Nat) (d : Str), d.length = n → d ≠ [] →
    valueOK d = true → ∀ (ps : PState) (fs : List Frame) (f : Frame) (ts : Model.Tokenizer.St) (rest : Str),
    PhInv .text ps fs f → ps.originalPhase = some .inHead → RcAt sTitle ts (escape d ++ rest) →
    (rest = [] ∨ rest.head? = some 60) →
    ∃ k ps' ts' f' ds, PSteps k ps ts ps' ts' ∧ k ≤ d.length ∧ PhInv .text ps' fs f' ∧ ps'.originalPhase = some .inHead ∧
      RcAt sTitle ts' rest ∧ SameFrame f f' ∧
      f'.kids = f.kids ++ ds.map Tree.text ∧ ds.flatten = d ∧ (∀ x ∈ ds, x ≠ []) ∧ ds ≠ [] := by
  intro n
  induction n using Nat.strongRecOn with
  | ind n ih =>
    intro d hn hne hok ps fs f ts rest hinv horig hat hrest
    obtain ⟨d1, d2, tok, ts1, hd, hd1, htok, hnext, hat1⟩ := next_rcdata_text sTitle ts d rest hne hok hrest hat
    have hok12 : valueOK d1 = true ∧ valueOK d2 = true := by rw [hd] at hok; exact valueOK_append hok
    have hstep : ∃ ps1, TB.step cfg0 ps tok = .ok (ps1, none) ∧
        PhInv .text ps1 fs (withLeaf f ps.arena.nodes.size (.text d1)) ∧ ps1.originalPhase = some .inHead := by
      rcases htok with rfl | rfl
      · exact tb_text_chars hinv horig d1
      · exact tb_text_space hinv horig d1
    obtain ⟨ps1, hs1, hinv1, horig1⟩ := hstep
    have hone := PSteps.one hnext hs1
    have hlen1 : 0 < d1.length := List.length_pos_iff.2 hd1
    by_cases h2 : d2 = []
    · subst h2
      refine ⟨1, ps1, _, _, [d1], hone, by rw [hd]; simp; omega, hinv1, horig1, ?_, SameFrame.withLeaf _ _ _, rfl,
        by simp [hd], by simp [hd1], by simp⟩
      have he : escape [] = [] := by decide
      have := hat1.setCdata (cdataAllowed ps1)
      rw [he, List.nil_append] at this
      exact this
    · have hlt : d2.length < n := by rw [← hn, hd]; simp; omega
      obtain ⟨k, ps', ts', f', ds, hst, hk, hinv', horig', hat', hsf, hkids, hfl, hall, hdsne⟩ :=
        ih d2.length hlt d2 rfl h2 hok12.2 ps1 fs _ _ rest hinv1 horig1 (hat1.setCdata (cdataAllowed ps1)) hrest
      refine ⟨1 + k, ps', ts', f', d1 :: ds, hone.trans hst, by rw [hd]; simp; omega, hinv', horig', hat',
        (SameFrame.withLeaf _ _ _).trans hsf, ?_, by simp [hfl, hd], ?_, by simp⟩
      · rw [hkids]; simp [withLeaf]
      · intro x hx
        rcases List.mem_cons.1 hx with rfl | hx
        · exact hd1
        · exact hall x hx

theorem endTagText_title : endTagText sTitle = lit "</title>" := by decide

/-- the covered head content under the open `head` -/
theorem head_run : ∀ (hd : List Tree), headOK hd = true →
    ∀ (ps : PState) (fs : List Frame) (f : Frame) (ts : Model.Tokenizer.St) (rest : Str),
    PhInv .inHead ps fs f → DataAt ts (serForest hd ++ rest) →
    ∃ k ps' ts' f', PSteps k ps ts ps' ts' ∧ k ≤ (serForest hd).length ∧ PhInv .inHead ps' fs f' ∧ DataAt ts' rest ∧
      SameFrame f f' ∧ f'.kids = f.kids ++ hd := by
  intro hd hok ps fs f ts rest hinv hat
  match hd, hok with
  | [], _ => exact ⟨0, ps, ts, f, PSteps.refl ps ts, Nat.le_refl _, hinv, hat, SameFrame.refl f, by simp⟩
  | [.elem ns nm attrs cs], hok =>
    simp only [headOK, Bool.and_eq_true, beq_iff_eq, List.isEmpty_iff] at hok
    obtain ⟨⟨⟨hns, hnm⟩, hattrs⟩, hcs⟩ := hok
    subst hns hnm hattrs
    have hnv : Gen.voidElements.elem sTitle = false := by decide
    -- `<title>`
    have hat0 : DataAt ts (startTagText {} sTitle [] ++ (serForest cs ++ (endTagText sTitle ++ rest))) := by
      have := hat
      simp only [serForest, serNode, hnv, Bool.false_eq_true, if_false, List.append_assoc, List.append_nil] at this
      exact this
    obtain ⟨ts1, hn1, hat1, hcur1, _, _⟩ := next_startTag_frame ts sTitle [] _ (by decide) hat0
    obtain ⟨ps1, hs1, hinv1, horig1⟩ := step_head_title hinv
    have hone1 := PSteps.oneSw hn1 hs1
    have hrc1 : RcAt sTitle
        (Model.Tokenizer.setCdataAllowed (Model.Tokenizer.setState ts1 (Parser.tokStateOf .rcdata)) (cdataAllowed ps1))
        (serForest cs ++ (endTagText sTitle ++ rest)) := ⟨rfl, hcur1, hat1.2.1, hat1.2.2⟩
    -- the text, `</title>`
    have finish : ∀ (k : Nat) (ps2 : PState) (ts2 : Model.Tokenizer.St) (g : Frame),
        PSteps k ps1 (Model.Tokenizer.setCdataAllowed (Model.Tokenizer.setState ts1 (Parser.tokStateOf .rcdata))
          (cdataAllowed ps1)) ps2 ts2 → k ≤ (serForest cs).length →
        PhInv .text ps2 (fs ++ [withChild f ps.arena.nodes.size]) g → ps2.originalPhase = some .inHead →
        RcAt sTitle ts2 (endTagText sTitle ++ rest) →
        SameFrame (newFrame ps.arena.nodes.size f.id sTitle []) g → mergeText g.kids = cs →
        ∃ k ps' ts' f', PSteps k ps ts ps' ts' ∧ k ≤ (serForest [.elem (some htmlNs) sTitle [] cs]).length ∧
          PhInv .inHead ps' fs f' ∧ DataAt ts' rest ∧ SameFrame f f' ∧
          f'.kids = f.kids ++ [.elem (some htmlNs) sTitle [] cs] := by
      intro k ps2 ts2 g hsteps hk hinv2 horig2 hrc2 hsf hkids
      rw [endTagText_title] at hrc2
      obtain ⟨ts3, hn3, hat3⟩ := next_rcdata_endTitle ts2 rest hrc2
      have hgk : g.node.kind = .element (some htmlNs) sTitle := hsf.2.1
      obtain ⟨ps3, hs3, hinv3⟩ := step_text_endTitle hinv2 horig2 hinv.fsne hgk hinv.topk
      have htree : g.tree = .elem (some htmlNs) sTitle [] cs := by
        unfold Frame.tree
        rw [hgk]
        have ha : g.node.attrs = [] := hsf.2.2
        rw [ha, hkids]
        rfl
      refine ⟨1 + k + 1, ps3, _, _, (hone1.trans hsteps).trans (PSteps.one hn3 hs3), ?_, hinv3,
        DataAtI.setCdata hat3 _, ⟨rfl, rfl, rfl⟩, ?_⟩
      · have h1 := startTagText_length_pos sTitle []
        have h2 := endTagText_length_pos sTitle
        simp only [serForest, serNode, hnv, Bool.false_eq_true, if_false, List.length_append, List.append_nil]
        omega
      · show (withChild f ps.arena.nodes.size).kids ++ [g.tree] = _
        rw [htree]; rfl
    cases cs with
    | nil =>
      exact finish 0 ps1 _ _ (PSteps.refl _ _) (Nat.le_refl _) hinv1 horig1 (by simpa [serForest] using hrc1)
        (SameFrame.refl _) rfl
    | cons c crest =>
      cases c with
      | text d =>
        cases crest with
        | cons _ _ => simp at hcs
        | nil =>
          simp only [Bool.and_eq_true, Bool.not_eq_true', List.isEmpty_eq_false_iff] at hcs
          have hrc1' : RcAt sTitle (Model.Tokenizer.setCdataAllowed
              (Model.Tokenizer.setState ts1 (Parser.tokStateOf .rcdata)) (cdataAllowed ps1))
              (escape d ++ (endTagText sTitle ++ rest)) := by
            simpa [serForest, serNode] using hrc1
          obtain ⟨k, ps2, ts2, g, ds, hsteps, hk, hinv2, horig2, hrc2, hsf, hkids, hfl, hall, hdsne⟩ :=
            rc_text_run d.length d rfl hcs.1 hcs.2 ps1 _ _ _ (endTagText sTitle ++ rest) hinv1 horig1 hrc1'
              (Or.inr (endTagText_head sTitle rest))
          refine finish k ps2 ts2 g hsteps ?_ hinv2 horig2 hrc2 hsf ?_
          · simp only [serForest, serNode, List.append_nil]
            exact Nat.le_trans hk (escape_length_le d)
          · rw [hkids]
            have := mergeText_texts ds [] [] hdsne hall rfl rfl
            simp only [List.append_nil] at this
            show mergeText ([] ++ ds.map Tree.text) = _
            rw [List.nil_append, this, hfl]
      | _ => simp at hcs

theorem mergeText_head {hd : List Tree} (h : headOK hd = true) : mergeText hd = hd := by
  match hd, h with
  | [], _ => rfl
  | [.elem _ _ _ _], _ => rfl

/-! ### the body starts below `html`, `body` -/

theorem ctx_of_body {fs : List Frame} {h0 b : Frame} (hfs : fs.drop 1 = [h0])
    (hh : h0.node.kind = .element (some htmlNs) sHtml) (hb : b.node.kind = .element (some htmlNs) sBody) :
    CtxOK {} fs b := by
  constructor
  · intro _
    refine ⟨[sBody, sHtml], ?_, by decide, by decide⟩
    unfold Named
    rw [hfs]
    exact ⟨hb, hh, trivial⟩
  · refine ⟨?_, hb⟩
    intro g hg hf
    rw [hfs] at hg
    simp only [List.cons_append, List.nil_append, List.mem_cons, List.not_mem_nil, or_false] at hg
    rcases hg with rfl | rfl
    · rw [isFmt_of_kind hh] at hf; exact absurd hf (by decide)
    · rw [isFmt_of_kind hb] at hf; exact absurd hf (by decide)

theorem parse_doc (hd cs : List Tree) (hhd : headOK hd = true) (hcs : okForest commentOKm {} cs = true) :
    Parser.parse cfg0 (serDoc hd cs) = .ok (docTree hd cs, []) := by
  have F := tokFacts
  unfold Parser.parse
  rw [init_p0]
  simp only [ok_bind]
  -- the tokenizer starts in the data state
  have hat0 : DataAtI (Model.Tokenizer.St.init (Parser.tokStateOf (initialTokState cfg0)) none (cdataAllowed p0)
      (serDoc hd cs)) (serDoc hd cs) := ⟨rfl, rfl, rfl⟩
  -- prefix: DOCTYPE, `<html>`, `<head>`
  obtain ⟨t1, n1, a1⟩ := F.doctype _ _ hat0
  rw [lit_html] at n1
  have s1 := PSteps.one n1 step_p1
  obtain ⟨t2, n2, a2⟩ := F.startTag _ sHtml [] _ (by decide) (a1.setCdata (cdataAllowed p1))
  have s2 := PSteps.one n2 step_p2
  obtain ⟨t3, n3, a3⟩ := F.startTag _ sHead [] _ (by decide) (a2.setCdata (cdataAllowed p2))
  have s3 := PSteps.one n3 step_p3
  -- the head
  obtain ⟨kh, ps4, ts4, fh, hstepsH, hkh, hinv4, a4, hsfH, hkidsH⟩ :=
    head_run hd hhd p3 _ headFrame _ _ p3_inv (a3.setCdata (cdataAllowed p3))
  -- `</head>`, `<body>`
  obtain ⟨t5, n5, a5⟩ := F.endTag _ sHead _ (by decide) a4
  have hhk : fh.node.kind = .element (some htmlNs) sHead := hsfH.2.1
  obtain ⟨ps5, hs5, hinv5⟩ := step_head_end (fs := [docFrame]) (p := htmlFrame3) hinv4 (by simp) hhk ⟨sHtml, rfl⟩
  have s5 := PSteps.one n5 hs5
  obtain ⟨t6, n6, a6⟩ := F.startTag _ sBody [] _ (by decide) (a5.setCdata (cdataAllowed ps5))
  obtain ⟨ps6, hs6, hinv6⟩ := step_afterHead_body hinv5
  have s6 := PSteps.one n6 hs6
  -- body
  have hctx : CtxOK {} ([docFrame] ++ [withChild { htmlFrame3 with kids := htmlFrame3.kids ++ [fh.tree] } ps5.arena.nodes.size])
      (newFrame ps5.arena.nodes.size htmlFrame3.id sBody []) := ctx_of_body rfl rfl rfl
  obtain ⟨k, ps7, ts7, fb, ks, hsteps, hk, hinv7, a7, hsf, hkids, hpieces⟩ :=
    forest_run F {} cs hcs ps6 _ _ _ _ hinv6 hctx (a6.setCdata (cdataAllowed ps6)) (endTagText_head sBody _)
  -- suffix
  obtain ⟨t8, n8, a8⟩ := F.endTag _ sBody _ (by decide) a7
  have hbk : fb.node.kind = .element (some htmlNs) sBody := hsf.2.1
  have s8 := PSteps.one n8 (step_endBody hinv7 hbk)
  have hlast : ps7.openElements.getLast? = some fb.id := by rw [hinv7.opens]; simp
  have s9st := step_endHtml { resetFor ps7 with phase := some .afterBody } fb.id fb.node sBody rfl
    hlast hinv7.frames.2.1 hbk
  obtain ⟨t9, n9, a9⟩ := F.endTag _ sHtml _ (by decide)
    (a8.setCdata (cdataAllowed { resetFor ps7 with phase := some .afterBody }))
  have s9 := PSteps.one n9 s9st
  have n10 := F.eof _ (a9.setCdata (cdataAllowed
    { resetFor { resetFor ps7 with phase := some .afterBody } with phase := some .afterAfterBody }))
  -- compose the loop
  have hall := (((((((s1.trans s2).trans s3).trans hstepsH).trans s5).trans s6).trans hsteps).trans s8).trans s9
  have hlen : kh + k + 9 ≤ 8 * (serDoc hd cs).length + 64 := by
    have h1 : (serForest cs).length ≤ (serDoc hd cs).length := by
      unfold serDoc; simp only [List.length_append]; omega
    have h2 : (serForest hd).length ≤ (serDoc hd cs).length := by
      unfold serDoc; simp only [List.length_append]; omega
    omega
  obtain ⟨fuel, hfuel⟩ : ∃ fuel, 8 * (serDoc hd cs).length + 64 = (fuel + 1) + (1 + 1 + 1 + kh + 1 + 1 + k + 1 + 1) :=
    ⟨8 * (serDoc hd cs).length + 64 - (kh + k + 8), by omega⟩
  rw [hfuel, hall (fuel + 1)]
  conv => lhs; unfold Parser.loop
  simp only [n10, ok_bind]
  rw [finish_afterAfterBody _ rfl]
  simp only [ok_bind]
  -- the result tree
  have hfr := hinv7.frames
  have hpop1 := FramesOK.pop (fs := [docFrame]) hfr (Or.inl ⟨_, _, hbk⟩)
  have hpop2 := FramesOK.pop (fs := []) (f := docFrame) hpop1 (Or.inl ⟨_, _, rfl⟩)
  have hres := FramesOK.result hpop2 (Or.inr rfl)
  have hbody : fb.tree = .elem (some htmlNs) sBody [] cs := by
    unfold Frame.tree
    rw [hbk]
    have ha : fb.node.attrs = [] := hsf.2.2
    have hk' : fb.kids = ks := by rw [hkids]; rfl
    rw [ha, hk', hpieces.merge]
    rfl
  have hhead : fh.tree = .elem (some htmlNs) sHead [] hd := by
    unfold Frame.tree
    rw [hhk]
    have ha : fh.node.attrs = [] := hsfH.2.2
    have hk' : fh.kids = hd := by rw [hkidsH]; rfl
    rw [ha, hk', mergeText_head hhd]
    rfl
  rw [hbody, hhead] at hres
  unfold TB.resultE
  have hdoc : ps7.document = 0 := hinv7.docId
  have herr : ps7.errors = #[] := hinv7.errs
  show (toTreeE ps7.arena ps7.document >>= fun t => pure (t, errorCodes _)) = _
  rw [hdoc]
  have : toTreeE ps7.arena 0 = .ok (docTree hd cs) := hres
  rw [this]
  simp only [ok_bind]
  show Except.ok (docTree hd cs, ps7.errors.toList.map (·.1)) = _
  rw [herr]
  rfl

end H5.Props.C07b
