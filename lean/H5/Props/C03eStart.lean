/-
  C03e — the reprocess loop for a computed FAMILY of start tags with a handler of their own (`famS`): the keyed start tag
  names that are not breakout elements of foreign content and for which, in every phase, the selected handler never
  hands the token back or leaves a phase register of smaller rank `psi`.  Part 1: the handlers.
-/
import H5.Props.C03eEndTotal
set_option linter.unusedSimpArgs false
set_option linter.unusedVariables false
namespace H5.Props.C03e
open H5 H5.Model H5.Model.TB H5.Model.Dom
open H5.Props.C02c (NF Post Post_bind Post_mono Post_pure Post_ok Post_error Post_throw Post_ite
  NF_typeError NF_keyError NF_indexError NF_assertFail NF_valueError NF_lookupError)
open H5.Props.C03b H5.Props.C03c H5.Props.C03d

def tailS : List String :=
  ["InCaptionPhase.startTagOther", "InCellPhase.startTagOther", "InRowPhase.startTagOther",
   "InTableBodyPhase.startTagOther", "InSelectInTablePhase.startTagOther"]

def allowedS : List String := rnTag ++ tailS ++
  ["BeforeHeadPhase.startTagOther", "InHeadPhase.startTagOther", "InHeadNoscriptPhase.startTagOther",
   "AfterHeadPhase.startTagOther", "InColumnGroupPhase.startTagOther", "AfterBodyPhase.startTagOther",
   "AfterAfterBodyPhase.startTagOther"]

/-- the handler that phase `ph` selects for the start tag `nm` is fine -/
def okS (ph : Phase) (nm : Str) : Bool :=
  match lookupHandler Gen.startTagHandlers "startTagHandler" ph nm with
  | .ok h => allowedS.contains h && (!nestedPh ph || rnTag.contains h) &&
      (match retBoundS h with | some k => decide (k < psi (some ph)) | none => true)
  | .error _ => true

/-- **the family**: the keyed start tag names, not breakout elements, that are fine in every phase -/
def famS : List Str :=
  keysS.eraseDups.filter (fun nm => !Gen.Lit.breakoutElements.contains nm && !(nm == lit "font") &&
    Phase.all.all (fun ph => okS ph nm))

theorem famS_ok {nm : Str} (h : famS.contains nm = true) :
    Gen.Lit.breakoutElements.contains nm = false ∧ (nm == lit "font") = false ∧ ∀ ph, okS ph nm = true := by
  have hm : nm ∈ famS := by simpa using h
  unfold famS at hm
  have := (List.mem_filter.1 hm).2
  simp only [Bool.and_eq_true, Bool.not_eq_true', List.all_eq_true] at this
  exact ⟨this.1.1, this.1.2, fun ph => this.2 ph (Phase.mem_all ph)⟩

/-- a start tag of the family -/
def inFamS : Token → Bool
  | .startTag d => famS.contains d.name
  | _ => false

theorem inFamS_name {tok : Token} (h : inFamS tok = true) : famS.contains (tokName tok) = true := by
  cases tok <;> first | (simpa [inFamS, tokName] using h) | cases h

theorem RN_InForeignContent_processStartTag_fam (tok : Token) (ho : inFamS tok = true) :
    RN (InForeignContent_processStartTag tok) := by
  obtain ⟨hb0, hf0, _⟩ := famS_ok (inFamS_name ho)
  unfold InForeignContent_processStartTag
  dsimp only
  refine RN_bind _ _ ?_
  intro cur
  refine RN_liftE_bind _ _ ?_
  intro d hd
  have hn : d.name = tokName tok := tag_name hd
  have hb : Gen.Lit.breakoutElements.contains d.name = false := by rw [hn]; exact hb0
  have hf : (d.name == lit "font") = false := by rw [hn]; exact hf0
  rw [if_neg (by rw [hb, hf]; simp)]
  rn_auto

/-- the nested `processStartTag` dispatches that never hand a start tag of the family back -/
class RecRNSF (r : Rec) : Prop where
  S : ∀ ph tok, ph ∈ [Phase.inBody, .inTable, .inSelect] → inFamS tok = true → RN (r.processStartTag ph tok)

set_option maxHeartbeats 8000000 in
theorem tagSF_rank {r : Rec} [hrn : RecRN r] [hrs : RecRNSF r] (q : String) (hq : q ∈ allowedS) (tok : Token)
    (ho : inFamS tok = true) (st : PState) : RetLe (runTagHandler r q tok) st (retBoundS q) := by
  haveI h1 : RN (InCaption_startTagOther r tok) := by
    unfold InCaption_startTagOther; exact RecRNSF.S _ _ (by simp) ho
  haveI h2 : RN (InCell_startTagOther r tok) := by
    unfold InCell_startTagOther; exact RecRNSF.S _ _ (by simp) ho
  haveI h3 : RN (InRow_startTagOther r tok) := by
    unfold InRow_startTagOther; exact RecRNSF.S _ _ (by simp) ho
  haveI h4 : RN (InTableBody_startTagOther r tok) := by
    unfold InTableBody_startTagOther; exact RecRNSF.S _ _ (by simp) ho
  haveI h5 : RN (InSelectInTable_startTagOther r tok) := by
    unfold InSelectInTable_startTagOther; exact RecRNSF.S _ _ (by simp) ho
  have hr : True := trivial
  have hn : True := trivial
  have hi : True := trivial
  have hreg : q = "InTableTextPhase.processStartTag" → True := fun _ => trivial
  delta runTagHandler
  delta runTagHandler.match_1
  repeat (refine RetLe_dite _ _ _ _ (fun heq => ?_) (fun _ => ?_); (· subst heq; dsimp only [Eq.ndrec_symm]; rks_close))
  exact RetLe_none _ _ _

end H5.Props.C03e
