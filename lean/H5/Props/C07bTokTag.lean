/-
  Property C07b (tokenizer side), stage 1 — end of input, `<!DOCTYPE html>`, end tags, start tags without
  attributes.
-/
import H5.Props.C07bTokCore
set_option linter.unusedSimpArgs false
namespace H5.Props.C07b
open H5 H5.Gen H5.Model H5.Model.Tokenizer
open H5.Model.Serializer (escape Opts attrOut)
open H5.Spec.Tokenizer (isWhitespace isASCIILowerAlpha isASCIIUpperAlpha)
open H5.Props.C08c

/-- destructure a `DataAt` state -/
theorem DataAt.eq {ts : St} {inp : Str} (h : DataAt ts inp) :
    ts = ⟨.dataState, inp, ts.currentToken, ts.temporaryBuffer, [], ts.cdataAllowed⟩ := by
  obtain ⟨st, i, cur, tb, q, cd⟩ := ts
  obtain ⟨h1, h2, h3⟩ := h
  simp only at h1 h2 h3
  subst h1 h2 h3
  rfl

/-! ### End of input -/

theorem next_eof (ts : St) (h : DataAt ts []) : next ts = .ok none := by
  rw [h.eq]
  unfold next fuelFor
  rw [nextFuel]
  tok_simp [dataState]

/-! ### `<!DOCTYPE html>` -/

theorem run_doctype_html (rest : Str) (cur : Option CurTok) (tb : Option Str) (cd : Bool) :
    run 9 ⟨.dataState, [60, 33, 68, 79, 67, 84, 89, 80, 69, 32, 104, 116, 109, 108, 62] ++ rest, cur, tb, [], cd⟩
      = some ⟨.dataState, rest, some (.doctype [104, 116, 109, 108] none none true), tb,
          [.doctype (some [104, 116, 109, 108]) none none true], cd⟩ := by
  rfl

theorem next_doctype_html (ts : St) (rest : Str) (h : DataAt ts (lit "<!DOCTYPE html>" ++ rest)) :
    ∃ ts', next ts = .ok (some (.doctype (some (lit "html")) none none true, ts')) ∧ DataAt ts' rest := by
  have e1 : lit "<!DOCTYPE html>" = [60, 33, 68, 79, 67, 84, 89, 80, 69, 32, 104, 116, 109, 108, 62] := by decide
  have e2 : lit "html" = [104, 116, 109, 108] := by decide
  rw [e1] at h
  rw [e2, h.eq]
  have r := stepsLe_of_run (run_doctype_html rest ts.currentToken ts.temporaryBuffer ts.cdataAllowed)
  refine ⟨_, next_of_steps r rfl (by len_tac), rfl, rfl, rfl⟩

/-! ### Tags -/

/-- the token under construction: an end tag (`e = true`) or a start tag -/
def tagTok (e : Bool) (n : Str) (d : List (Str × Str)) : CurTok := if e then .endTag n d false else .startTag n d false

theorem step_data_lt (rest : Str) (cur : Option CurTok) (tb : Option Str) (cd : Bool) :
    step ⟨.dataState, 60 :: rest, cur, tb, [], cd⟩ = .ok (true, ⟨.tagOpenState, rest, cur, tb, [], cd⟩) := by
  tok_simp [dataState]

theorem step_tagOpen_slash (rest : Str) (cur : Option CurTok) (tb : Option Str) (cd : Bool) :
    step ⟨.tagOpenState, 47 :: rest, cur, tb, [], cd⟩ = .ok (true, ⟨.closeTagOpenState, rest, cur, tb, [], cd⟩) := by
  tok_simp [tagOpenState]

theorem step_closeTagOpen (c : Nat) (hc : isASCIILowerAlpha c = true) (rest : Str) (cur : Option CurTok)
    (tb : Option Str) (cd : Bool) :
    step ⟨.closeTagOpenState, c :: rest, cur, tb, [], cd⟩
      = .ok (true, ⟨.tagNameState, rest, some (tagTok true [c] []), tb, [], cd⟩) := by
  simp [isASCIILowerAlpha] at hc
  tok_simp [closeTagOpenState, hc, tagTok]

theorem step_tagOpen_alpha (c : Nat) (hc : isASCIILowerAlpha c = true) (rest : Str) (cur : Option CurTok)
    (tb : Option Str) (cd : Bool) :
    step ⟨.tagOpenState, c :: rest, cur, tb, [], cd⟩
      = .ok (true, ⟨.tagNameState, rest, some (tagTok false [c] []), tb, [], cd⟩) := by
  simp [isASCIILowerAlpha] at hc
  have h1 : c ≠ 33 := by omega
  have h2 : c ≠ 47 := by omega
  tok_simp [tagOpenState, hc, tagTok, h1, h2]

theorem step_tagName_char (e : Bool) (c : Nat) (hc : tagNameChar c = true) (rest nm : Str) (d : List (Str × Str))
    (tb : Option Str) (cd : Bool) :
    step ⟨.tagNameState, c :: rest, some (tagTok e nm d), tb, [], cd⟩
      = .ok (true, ⟨.tagNameState, rest, some (tagTok e (nm ++ [c]) d), tb, [], cd⟩) := by
  simp [tagNameChar, isWhitespace, isASCIIUpperAlpha] at hc
  cases e <;> tok_simp [tagNameState, hc, CurTok.modName, tagTok]

theorem steps_tagName (e : Bool) : ∀ (n : Str), n.all tagNameChar = true → ∀ (nm rest : Str) (d : List (Str × Str))
    (tb : Option Str) (cd : Bool),
    StepsLe n.length ⟨.tagNameState, n ++ rest, some (tagTok e nm d), tb, [], cd⟩
      ⟨.tagNameState, rest, some (tagTok e (nm ++ n) d), tb, [], cd⟩ := by
  intro n
  induction n with
  | nil => intro _ nm rest d tb cd; simpa using StepsLe.refl _
  | cons c n ih =>
    intro h nm rest d tb cd
    simp only [List.all_cons, Bool.and_eq_true] at h
    have s1 := StepsLe.single rfl (step_tagName_char e c h.1 (n ++ rest) nm d tb cd)
    have s2 := ih h.2 (nm ++ [c]) rest d tb cd
    have := s1.trans s2
    simp only [List.append_assoc, List.cons_append, List.nil_append] at this
    exact this.mono (by len_tac)

theorem tagNameOK_spec {name : Str} (h : tagNameOK name = true) :
    ∃ c r, name = c :: r ∧ isASCIILowerAlpha c = true ∧ r.all tagNameChar = true ∧
      ∀ x ∈ name, isASCIIUpperAlpha x = false := by
  cases name with
  | nil => simp [tagNameOK] at h
  | cons c r =>
    simp only [tagNameOK, Bool.and_eq_true] at h
    refine ⟨c, r, rfl, h.1, h.2, ?_⟩
    intro x hx
    rcases List.mem_cons.mp hx with rfl | hx
    · have := h.1
      simp [isASCIILowerAlpha] at this
      simp [isASCIIUpperAlpha]; omega
    · have := List.all_eq_true.mp h.2 x hx
      simp [tagNameChar] at this
      simp [this]

/-- `>` in the tag name state emits an end tag without attributes -/
theorem step_tagName_gt_end (nm rest : Str) (hl : ∀ x ∈ nm, isASCIIUpperAlpha x = false) (tb : Option Str) (cd : Bool) :
    step ⟨.tagNameState, 62 :: rest, some (tagTok true nm []), tb, [], cd⟩
      = .ok (true, ⟨.dataState, rest, some (.endTag nm [] false), tb, [.endTag nm [] false], cd⟩) := by
  tok_simp [tagNameState, tagTok, emitCurrentToken, translate_id nm hl]
  done

theorem next_endTag (ts : St) (name rest : Str) (hn : tagNameOK name = true) (h : DataAt ts (endTagText name ++ rest)) :
    ∃ ts', next ts = .ok (some (.endTag name [] false, ts')) ∧ DataAt ts' rest := by
  obtain ⟨c, r, rfl, hc, hr, hl⟩ := tagNameOK_spec hn
  rw [h.eq]
  have e : endTagText (c :: r) ++ rest = 60 :: 47 :: c :: (r ++ 62 :: rest) := by simp [endTagText]
  rw [e]
  have s1 := StepsLe.single rfl (step_data_lt (47 :: c :: (r ++ 62 :: rest)) ts.currentToken ts.temporaryBuffer ts.cdataAllowed)
  have s2 := StepsLe.single rfl (step_tagOpen_slash (c :: (r ++ 62 :: rest)) ts.currentToken ts.temporaryBuffer ts.cdataAllowed)
  have s3 := StepsLe.single rfl (step_closeTagOpen c hc (r ++ 62 :: rest) ts.currentToken ts.temporaryBuffer ts.cdataAllowed)
  have s4 := steps_tagName true r hr [c] (62 :: rest) [] ts.temporaryBuffer ts.cdataAllowed
  have s5 := StepsLe.single rfl (step_tagName_gt_end ([c] ++ r) rest hl ts.temporaryBuffer ts.cdataAllowed)
  have r := (((s1.trans s2).trans s3).trans s4).trans s5
  refine ⟨_, next_of_steps r rfl (by len_tac), rfl, rfl, rfl⟩

end H5.Props.C07b
