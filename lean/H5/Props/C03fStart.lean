/-
  C03f — a larger computed family of start tags (`famS2`): as `famS` of C03e, with ALL the tail calls
  `phases[inBody|inTable|inSelect|inHead].processStartTag(token)` allowed (`startTagProcessInHead`, `startTagStyleScript`,
  `startTagHtml`, `startTagNoframes`, …): the head-content start tags and `<html>` join the family.  Part 1.
-/
import H5.Props.C03e
set_option linter.unusedSimpArgs false
set_option linter.unusedVariables false
namespace H5.Props.C03f
open H5 H5.Model H5.Model.TB H5.Model.Dom
open H5.Props.C02c (NF Post Post_bind Post_mono Post_pure Post_ok Post_error Post_throw Post_ite
  NF_typeError NF_keyError NF_indexError NF_assertFail NF_valueError NF_lookupError)
open H5.Props.C03b H5.Props.C03c H5.Props.C03d H5.Props.C03e

def tailS2 : List String :=
  ["BeforeHeadPhase.startTagHtml", "InHeadPhase.startTagHtml", "InHeadNoscriptPhase.startTagHtml",
   "InHeadNoscriptPhase.startTagBaseLinkCommand", "AfterHeadPhase.startTagHtml", "InBodyPhase.startTagProcessInHead",
   "InTablePhase.startTagStyleScript", "InCaptionPhase.startTagOther", "InTableBodyPhase.startTagOther",
   "InRowPhase.startTagOther", "InCellPhase.startTagOther", "InSelectPhase.startTagScript",
   "InSelectInTablePhase.startTagOther", "AfterBodyPhase.startTagHtml", "InFramesetPhase.startTagNoframes",
   "AfterFramesetPhase.startTagNoframes", "AfterAfterBodyPhase.startTagHtml", "AfterAfterFramesetPhase.startTagHtml",
   "AfterAfterFramesetPhase.startTagNoFrames"]

/-- the phases that handlers hand start tags to -/
def nestedPh2 (p : Phase) : Bool := p == .inBody || p == .inTable || p == .inSelect || p == .inHead

def allowedS2 : List String := rnTag ++ tailS2 ++
  ["BeforeHeadPhase.startTagOther", "InHeadPhase.startTagOther", "InHeadNoscriptPhase.startTagOther",
   "AfterHeadPhase.startTagOther", "InColumnGroupPhase.startTagOther", "AfterBodyPhase.startTagOther",
   "AfterAfterBodyPhase.startTagOther"]

/-- the handler that phase `ph` selects for the start tag `nm` is fine -/
def okS2 (ph : Phase) (nm : Str) : Bool :=
  match lookupHandler Gen.startTagHandlers "startTagHandler" ph nm with
  | .ok h => allowedS2.contains h && (!nestedPh2 ph || (rnTag ++ tailS2).contains h) &&
      (match retBoundS h with | some k => decide (k < psi (some ph)) | none => true)
  | .error _ => true

/-- **the family**: the keyed start tag names, not breakout elements, that are fine in every phase -/
def famS2 : List Str :=
  keysS.eraseDups.filter (fun nm => !Gen.Lit.breakoutElements.contains nm && !(nm == lit "font") &&
    Phase.all.all (fun ph => okS2 ph nm))

theorem famS2_ok {nm : Str} (h : famS2.contains nm = true) :
    Gen.Lit.breakoutElements.contains nm = false ∧ (nm == lit "font") = false ∧ ∀ ph, okS2 ph nm = true := by
  have hm : nm ∈ famS2 := by simpa using h
  unfold famS2 at hm
  have := (List.mem_filter.1 hm).2
  simp only [Bool.and_eq_true, Bool.not_eq_true', List.all_eq_true] at this
  exact ⟨this.1.1, this.1.2, fun ph => this.2 ph (Phase.mem_all ph)⟩

/-- a start tag of the family -/
def inFamS2 : Token → Bool
  | .startTag d => famS2.contains d.name
  | _ => false

theorem inFamS2_name {tok : Token} (h : inFamS2 tok = true) : famS2.contains (tokName tok) = true := by
  cases tok <;> first | (simpa [inFamS2, tokName] using h) | cases h

theorem RN_InForeignContent_processStartTag_fam2 (tok : Token) (ho : inFamS2 tok = true) :
    RN (InForeignContent_processStartTag tok) := by
  obtain ⟨hb0, hf0, _⟩ := famS2_ok (inFamS2_name ho)
  unfold InForeignContent_processStartTag
  dsimp only
  refine RN_bind _ _ ?_
  intro cur
  refine RN_liftE_bind _ _ ?_
  intro d hd
  have hn : d.name = tokName tok := tag_name hd
  have hb : Gen.Lit.breakoutElements.contains d.name = false := by rw [hn]; exact hb0
  have hf : (d.name == lit "font") = false := by rw [hn]; exact hf0
  rw [if_neg (by rw [hb, hf]; simp)]
  rn_auto

/-- the nested `processStartTag` dispatches that never hand a start tag of the family back -/
class RecRNSG (r : Rec) : Prop where
  S : ∀ ph tok, ph ∈ [Phase.inBody, .inTable, .inSelect, .inHead] → inFamS2 tok = true → RN (r.processStartTag ph tok)

set_option maxHeartbeats 8000000 in
theorem tagSG_rank {r : Rec} [hrn : RecRN r] [hrs : RecRNSG r] (q : String) (hq : q ∈ allowedS2) (tok : Token)
    (ho : inFamS2 tok = true) (st : PState) : RetLe (runTagHandler r q tok) st (retBoundS q) := by
  haveI : RN (BeforeHead_startTagHtml r tok) := by
    unfold BeforeHead_startTagHtml; exact RecRNSG.S _ _ (by simp) ho
  haveI : RN (InHead_startTagHtml r tok) := by
    unfold InHead_startTagHtml; exact RecRNSG.S _ _ (by simp) ho
  haveI : RN (InHeadNoscript_startTagHtml r tok) := by
    unfold InHeadNoscript_startTagHtml; exact RecRNSG.S _ _ (by simp) ho
  haveI : RN (InHeadNoscript_startTagBaseLinkCommand r tok) := by
    unfold InHeadNoscript_startTagBaseLinkCommand; exact RecRNSG.S _ _ (by simp) ho
  haveI : RN (AfterHead_startTagHtml r tok) := by
    unfold AfterHead_startTagHtml; exact RecRNSG.S _ _ (by simp) ho
  haveI : RN (InBody_startTagProcessInHead r tok) := by
    unfold InBody_startTagProcessInHead; exact RecRNSG.S _ _ (by simp) ho
  haveI : RN (InTable_startTagStyleScript r tok) := by
    unfold InTable_startTagStyleScript; exact RecRNSG.S _ _ (by simp) ho
  haveI : RN (InSelect_startTagScript r tok) := by
    unfold InSelect_startTagScript; exact RecRNSG.S _ _ (by simp) ho
  haveI : RN (AfterBody_startTagHtml r tok) := by
    unfold AfterBody_startTagHtml; exact RecRNSG.S _ _ (by simp) ho
  haveI : RN (InFrameset_startTagNoframes r tok) := by
    unfold InFrameset_startTagNoframes; exact RecRNSG.S _ _ (by simp) ho
  haveI : RN (AfterFrameset_startTagNoframes r tok) := by
    unfold AfterFrameset_startTagNoframes; exact RecRNSG.S _ _ (by simp) ho
  haveI : RN (AfterAfterBody_startTagHtml r tok) := by
    unfold AfterAfterBody_startTagHtml; exact RecRNSG.S _ _ (by simp) ho
  haveI : RN (AfterAfterFrameset_startTagHtml r tok) := by
    unfold AfterAfterFrameset_startTagHtml; exact RecRNSG.S _ _ (by simp) ho
  haveI : RN (AfterAfterFrameset_startTagNoFrames r tok) := by
    unfold AfterAfterFrameset_startTagNoFrames; exact RecRNSG.S _ _ (by simp) ho
  haveI : RN (InCaption_startTagOther r tok) := by
    unfold InCaption_startTagOther; exact RecRNSG.S _ _ (by simp) ho
  haveI : RN (InCell_startTagOther r tok) := by
    unfold InCell_startTagOther; exact RecRNSG.S _ _ (by simp) ho
  haveI : RN (InRow_startTagOther r tok) := by
    unfold InRow_startTagOther; exact RecRNSG.S _ _ (by simp) ho
  haveI : RN (InTableBody_startTagOther r tok) := by
    unfold InTableBody_startTagOther; exact RecRNSG.S _ _ (by simp) ho
  haveI : RN (InSelectInTable_startTagOther r tok) := by
    unfold InSelectInTable_startTagOther; exact RecRNSG.S _ _ (by simp) ho
  have hr : True := trivial
  have hn : True := trivial
  have hi : True := trivial
  have hreg : q = "InTableTextPhase.processStartTag" → True := fun _ => trivial
  delta runTagHandler
  delta runTagHandler.match_1
  repeat (refine RetLe_dite _ _ _ _ (fun heq => ?_) (fun _ => ?_); (· subst heq; dsimp only [Eq.ndrec_symm]; rks_close))
  exact RetLe_none _ _ _

end H5.Props.C03f
