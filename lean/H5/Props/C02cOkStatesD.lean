/-
  Property C02 "total", clean corollary — invariant preservation for the state methods proved by hand
  (`bogusCommentState`, `cdataSectionState`: the `assert char == ">"` of the inner loop cannot fail,
  `markupDeclarationOpenState`, `afterDoctypeNameState`: `charStack[-1]` exists, `attributeNameState`).
-/
import H5.Props.C02cOkTactics
set_option linter.unusedSimpArgs false
namespace H5.Props.C02c
open H5 H5.Gen H5.Model H5.Model.Tokenizer

theorem matchExpected_cons_ne_nil (e : List Nat) (more : List (List Nat)) (i : List Nat) :
    (matchExpected (e :: more) i).2.1.getLast? ≠ none := by
  simp only [matchExpected]
  split <;> simp

theorem bogusCommentState_ok (s : St) (_hs : s.state = .bogusCommentState) (_hi : Inv s) :
    OPost (bogusCommentState s) (fun r => r.1 = true → Inv r.2) := by
  simp [bogusCommentState, ok, OPost, Inv, invB, St.to]

theorem cdataSectionState_ok (s : St) (_hs : s.state = .cdataSectionState) (_hi : Inv s) :
    OPost (cdataSectionState s) (fun r => r.1 = true → Inv r.2) := by
  simp only [cdataSectionState, ok, OPost_bind]
  refine OPost_mono (cdataLoop_ok _ _ _ (Nat.lt_succ_self _)) ?_
  rintro ⟨pieces, i⟩ _
  simp [OPost, Inv, invB, St.to]

theorem markupDeclarationOpenState_ok (s : St) (hs : s.state = .markupDeclarationOpenState) (hi : Inv s) :
    OPost (markupDeclarationOpenState s) (fun r => r.1 = true → Inv r.2) := by
  obtain ⟨st, input, cur, tb, q, cd⟩ := s
  simp only at hs
  subst hs
  rcases input with _ | ⟨c0, rest⟩
  · state_unfold markupDeclarationOpenState
    ok_loop
    all_goals ok_finish
  · generalize hm1 : matchExpected [[111, 79], [99, 67], [116, 84], [121, 89], [112, 80], [101, 69]] rest = p1
    generalize hm2 : matchExpected [[67], [68], [65], [84], [65], [91]] rest = p2
    obtain ⟨m1, cs1, i1⟩ := p1
    obtain ⟨m2, cs2, i2⟩ := p2
    rcases rest with _ | ⟨c1, r⟩
    all_goals state_unfold markupDeclarationOpenState
    all_goals simp only [hm1, hm2]
    all_goals ok_loop
    all_goals ok_finish

theorem afterDoctypeNameState_ok (s : St) (hs : s.state = .afterDoctypeNameState) (hi : Inv s) :
    OPost (afterDoctypeNameState s) (fun r => r.1 = true → Inv r.2) := by
  obtain ⟨st, input, cur, tb, q, cd⟩ := s
  simp only at hs
  subst hs
  simp only [Inv, invB, Bool.and_eq_true] at hi
  rcases curtok_shapes cur with h | ⟨n, sc, h⟩ | ⟨n, init, a, sc, h⟩ | ⟨n, sc, h⟩ | ⟨n, init, a, sc, h⟩
    | ⟨n, h⟩ | ⟨d, h⟩ | ⟨n, c, h⟩ | ⟨n, p, c, h⟩ | ⟨n, sy, c, h⟩ | ⟨n, p, sy, c, h⟩
  all_goals subst h
  ok_kill
  all_goals rcases input with _ | ⟨c0, rest⟩
  all_goals try (
    have g1 := matchExpected_cons_ne_nil [117, 85] [[98, 66], [108, 76], [105, 73], [99, 67]] rest
    have g2 := matchExpected_cons_ne_nil [121, 89] [[115, 83], [116, 84], [101, 69], [109, 77]] rest
    generalize hm1 : matchExpected [[117, 85], [98, 66], [108, 76], [105, 73], [99, 67]] rest = p1 at g1
    generalize hm2 : matchExpected [[121, 89], [115, 83], [116, 84], [101, 69], [109, 77]] rest = p2 at g2
    obtain ⟨m1, cs1, i1⟩ := p1
    obtain ⟨m2, cs2, i2⟩ := p2
    simp only at g1 g2
    cases hl1 : cs1.getLast? <;> cases hl2 : cs2.getLast? <;> simp only [hl1, hl2, ne_eq, not_true_eq_false] at g1 g2)
  all_goals state_unfold afterDoctypeNameState
  all_goals try simp only [hm1, hm2, hl1, hl2]
  all_goals ok_loop
  all_goals ok_finish

set_option maxHeartbeats 1000000 in
theorem attributeNameState_ok (s : St) (hs : s.state = .attributeNameState) (hi : Inv s) :
    OPost (attributeNameState s) (fun r => r.1 = true → Inv r.2) := by
  state_ok attributeNameState

end H5.Props.C02c
