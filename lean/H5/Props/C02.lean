/-
  Property C02 — tokenizer output equals the WHATWG tokenization (model side).
  Model: H5.Model.Tokenizer (hand model of _tokenizer.py, one function per state method; tied by ops
  tok / toksteps / tokpull on >50k inputs per quick run).  The simulation against H5.Spec.Tokenizer is
  not proved yet: theorems below are the clause-level facts that are; the rest is decided by search.
-/
import H5.Model.Tokenizer
namespace H5.Props.C02
open H5 H5.Gen H5.Model

/-- TableOK: `asciiUpper2Lower` is the ASCII upper→lower map. -/
theorem upper2lower_small : ∀ c ∈ List.range 128, (asciiUpper2Lower.lookup c).getD c = asciiLowerChar c := by
  decide +kernel

theorem upper2lower_keys : asciiUpper2Lower.all (fun kv => decide (kv.1 < 128)) = true := by decide +kernel

theorem lookup_none_of_large {β} (t : List (Nat × β)) (n : Nat) (h : t.all (fun kv => decide (kv.1 < 128)) = true)
    (hn : 128 ≤ n) : t.lookup n = none := by
  induction t with
  | nil => rfl
  | cons kv rest ih =>
    simp only [List.all_cons, Bool.and_eq_true, decide_eq_true_eq] at h
    have : (n == kv.1) = false := by simp; omega
    simp [List.lookup, this, ih h.2]

/-- **C02 (names are ASCII-lowercased, nothing else).** tag names are lower-cased exactly on A–Z. -/
theorem C02_lower (s : Str) : translateUpper2Lower s = s.asciiLower := by
  unfold translateUpper2Lower Str.asciiLower
  apply List.map_congr_left
  intro c _
  by_cases h : c < 128
  · exact upper2lower_small c (List.mem_range.mpr h)
  · rw [lookup_none_of_large _ c upper2lower_keys (by omega)]
    simp [asciiLowerChar]; omega

theorem C02_lower_idem (s : Str) : translateUpper2Lower (translateUpper2Lower s) = translateUpper2Lower s := by
  simp only [C02_lower, Str.asciiLower, List.map_map]
  apply List.map_congr_left
  intro c _
  simp only [Function.comp, asciiLowerChar]
  split <;> (try split) <;> omega

end H5.Props.C02
