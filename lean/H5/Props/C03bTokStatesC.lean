/-
  Property C03b (parser fuel), tokenizer part — per-state lemmas (comment and DOCTYPE states).
  Each lemma: a call of the state method from a state of weight `w` with `n` characters left and `q` queued tokens
  either stops, fails with an error that is not `outOfFuel`, or leaves
  `8·|input'| + 3·w state' + |queue'| ≤ 8·n + 3·w + q`: the call pays for the tokens it queues.
-/
import H5.Props.C03bTokHelpers
set_option linter.unusedSimpArgs false
namespace H5.Props.C03b
open H5 H5.Gen H5.Model H5.Model.Tokenizer
open H5.Props.C02c

theorem commentStartDashState_pay (s : St) (hs : s.state = .commentStartDashState) :
    Post (commentStartDashState s) (Pay s.input.length (w s.state) s.tokenQueue.length) := by
  state_pay commentStartDashState

theorem commentState_pay (s : St) (hs : s.state = .commentState) :
    Post (commentState s) (Pay s.input.length (w s.state) s.tokenQueue.length) := by
  state_pay commentState

theorem commentEndDashState_pay (s : St) (hs : s.state = .commentEndDashState) :
    Post (commentEndDashState s) (Pay s.input.length (w s.state) s.tokenQueue.length) := by
  state_pay commentEndDashState

theorem commentEndState_pay (s : St) (hs : s.state = .commentEndState) :
    Post (commentEndState s) (Pay s.input.length (w s.state) s.tokenQueue.length) := by
  state_pay commentEndState

theorem commentEndBangState_pay (s : St) (hs : s.state = .commentEndBangState) :
    Post (commentEndBangState s) (Pay s.input.length (w s.state) s.tokenQueue.length) := by
  state_pay commentEndBangState

theorem doctypeState_pay (s : St) (hs : s.state = .doctypeState) :
    Post (doctypeState s) (Pay s.input.length (w s.state) s.tokenQueue.length) := by
  state_pay doctypeState

theorem beforeDoctypeNameState_pay (s : St) (hs : s.state = .beforeDoctypeNameState) :
    Post (beforeDoctypeNameState s) (Pay s.input.length (w s.state) s.tokenQueue.length) := by
  state_pay beforeDoctypeNameState

theorem doctypeNameState_pay (s : St) (hs : s.state = .doctypeNameState) :
    Post (doctypeNameState s) (Pay s.input.length (w s.state) s.tokenQueue.length) := by
  state_pay doctypeNameState

theorem afterDoctypePublicKeywordState_pay (s : St) (hs : s.state = .afterDoctypePublicKeywordState) :
    Post (afterDoctypePublicKeywordState s) (Pay s.input.length (w s.state) s.tokenQueue.length) := by
  state_pay afterDoctypePublicKeywordState

theorem beforeDoctypePublicIdentifierState_pay (s : St) (hs : s.state = .beforeDoctypePublicIdentifierState) :
    Post (beforeDoctypePublicIdentifierState s) (Pay s.input.length (w s.state) s.tokenQueue.length) := by
  state_pay beforeDoctypePublicIdentifierState

theorem doctypePublicIdentifierDoubleQuotedState_pay (s : St) (hs : s.state = .doctypePublicIdentifierDoubleQuotedState) :
    Post (doctypePublicIdentifierDoubleQuotedState s) (Pay s.input.length (w s.state) s.tokenQueue.length) := by
  state_pay doctypePublicIdentifierDoubleQuotedState

theorem doctypePublicIdentifierSingleQuotedState_pay (s : St) (hs : s.state = .doctypePublicIdentifierSingleQuotedState) :
    Post (doctypePublicIdentifierSingleQuotedState s) (Pay s.input.length (w s.state) s.tokenQueue.length) := by
  state_pay doctypePublicIdentifierSingleQuotedState

theorem afterDoctypePublicIdentifierState_pay (s : St) (hs : s.state = .afterDoctypePublicIdentifierState) :
    Post (afterDoctypePublicIdentifierState s) (Pay s.input.length (w s.state) s.tokenQueue.length) := by
  state_pay afterDoctypePublicIdentifierState

theorem betweenDoctypePublicAndSystemIdentifiersState_pay (s : St) (hs : s.state = .betweenDoctypePublicAndSystemIdentifiersState) :
    Post (betweenDoctypePublicAndSystemIdentifiersState s) (Pay s.input.length (w s.state) s.tokenQueue.length) := by
  state_pay betweenDoctypePublicAndSystemIdentifiersState

theorem afterDoctypeSystemKeywordState_pay (s : St) (hs : s.state = .afterDoctypeSystemKeywordState) :
    Post (afterDoctypeSystemKeywordState s) (Pay s.input.length (w s.state) s.tokenQueue.length) := by
  state_pay afterDoctypeSystemKeywordState

theorem beforeDoctypeSystemIdentifierState_pay (s : St) (hs : s.state = .beforeDoctypeSystemIdentifierState) :
    Post (beforeDoctypeSystemIdentifierState s) (Pay s.input.length (w s.state) s.tokenQueue.length) := by
  state_pay beforeDoctypeSystemIdentifierState

theorem doctypeSystemIdentifierDoubleQuotedState_pay (s : St) (hs : s.state = .doctypeSystemIdentifierDoubleQuotedState) :
    Post (doctypeSystemIdentifierDoubleQuotedState s) (Pay s.input.length (w s.state) s.tokenQueue.length) := by
  state_pay doctypeSystemIdentifierDoubleQuotedState

theorem doctypeSystemIdentifierSingleQuotedState_pay (s : St) (hs : s.state = .doctypeSystemIdentifierSingleQuotedState) :
    Post (doctypeSystemIdentifierSingleQuotedState s) (Pay s.input.length (w s.state) s.tokenQueue.length) := by
  state_pay doctypeSystemIdentifierSingleQuotedState

theorem afterDoctypeSystemIdentifierState_pay (s : St) (hs : s.state = .afterDoctypeSystemIdentifierState) :
    Post (afterDoctypeSystemIdentifierState s) (Pay s.input.length (w s.state) s.tokenQueue.length) := by
  state_pay afterDoctypeSystemIdentifierState

theorem bogusDoctypeState_pay (s : St) (hs : s.state = .bogusDoctypeState) :
    Post (bogusDoctypeState s) (Pay s.input.length (w s.state) s.tokenQueue.length) := by
  state_pay bogusDoctypeState

end H5.Props.C03b
