/-
  Property C02 (part b) — duplicate attributes of a start tag: the FIRST occurrence wins and the order of the first
  occurrences is kept.  Python (`_tokenizer.py`, `emitCurrentToken`, lines 236-241):
      raw = token["data"]; data = attributeMap(raw)
      if len(raw) > len(data): data.update(raw[::-1])     # "we had some duplicated attribute, fix so first wins"
  Model: `H5.Model.Tokenizer.emitCurrentToken` with `dictSet` / `dictUpdate` / `dictOfPairs` (insertion-ordered dict).
-/
import H5.Model.Tokenizer
namespace H5.Props.C02b
open H5 H5.Gen H5.Model H5.Model.Tokenizer

/-- exactly the expression of `emitCurrentToken` -/
def finalAttrs (raw : List (Str × Str)) : List (Str × Str) :=
  let data := dictOfPairs raw
  if raw.length > data.length then dictUpdate data raw.reverse else data

/-- keep a pair iff its key is not in `seen` and did not occur earlier -/
def dedupFrom (seen : List Str) : List (Str × Str) → List (Str × Str)
  | [] => []
  | kv :: r => if kv.1 ∈ seen then dedupFrom seen r else kv :: dedupFrom (seen ++ [kv.1]) r

/-- first occurrence of every key wins, original order -/
def dedupFirst (raw : List (Str × Str)) : List (Str × Str) := dedupFrom [] raw

/-! ### association lists: keys and lookup -/

def keys (d : List (Str × Str)) : List Str := d.map Prod.fst

/-- value of the first pair with key `k` -/
def get : List (Str × Str) → Str → Option Str
  | [], _ => none
  | (k', v') :: r, k => if k' = k then some v' else get r k

theorem get_none_iff (d : List (Str × Str)) (k : Str) : get d k = none ↔ k ∉ keys d := by
  induction d with
  | nil => simp [get, keys]
  | cons kv r ih =>
    obtain ⟨k', v'⟩ := kv
    by_cases h : k' = k
    · simp [get, keys, h]
    · simp only [get, h, if_false, ih, keys, List.map_cons, List.mem_cons]
      constructor
      · rintro h1 (h2 | h2)
        · exact h h2.symm
        · exact h1 h2
      · intro h1 h2; exact h1 (Or.inr h2)

theorem get_append (a b : List (Str × Str)) (k : Str) : get (a ++ b) k = (get a k).or (get b k) := by
  induction a with
  | nil => simp [get]
  | cons kv r ih =>
    obtain ⟨k', v'⟩ := kv
    by_cases h : k' = k <;> simp [get, h, ih]

/-- extensionality: an association list with pairwise distinct keys is determined by its key list and its lookup -/
theorem alist_ext : ∀ (d1 d2 : List (Str × Str)), keys d1 = keys d2 → (keys d1).Nodup →
    (∀ k, get d1 k = get d2 k) → d1 = d2 := by
  intro d1
  induction d1 with
  | nil => intro d2 hk _ _; cases d2 <;> simp_all [keys]
  | cons kv1 r1 ih =>
    intro d2 hk hnd hg
    cases d2 with
    | nil => simp [keys] at hk
    | cons kv2 r2 =>
      obtain ⟨k1, v1⟩ := kv1
      obtain ⟨k2, v2⟩ := kv2
      simp only [keys, List.map_cons, List.cons.injEq] at hk
      obtain ⟨hk1, hkr⟩ := hk
      subst hk1
      simp only [keys, List.map_cons, List.nodup_cons] at hnd
      have hv : v1 = v2 := by
        have := hg k1
        simpa [get] using this
      subst hv
      congr 1
      apply ih r2 hkr hnd.2
      intro k
      by_cases h : k1 = k
      · subst h
        have h1 : get r1 k1 = none := (get_none_iff r1 k1).mpr hnd.1
        have h2 : get r2 k1 = none := (get_none_iff r2 k1).mpr (by
          have : keys r2 = keys r1 := hkr.symm
          rw [this]; exact hnd.1)
        rw [h1, h2]
      · have := hg k
        simpa [get, h] using this

/-! ### `d[k] = v` and `d.update(pairs)` by keys and lookup -/

theorem keys_dictSet (d : List (Str × Str)) (k v : Str) :
    keys (dictSet d k v) = if k ∈ keys d then keys d else keys d ++ [k] := by
  induction d with
  | nil => simp [dictSet, keys]
  | cons kv r ih =>
    obtain ⟨k', v'⟩ := kv
    by_cases h : k' = k
    · simp [dictSet, keys, h]
    · have h2 : ¬ k = k' := fun e => h e.symm
      simp only [keys] at ih
      simp only [dictSet, h, if_false, keys, List.map_cons, List.mem_cons, h2, false_or, ih]
      by_cases hm : k ∈ List.map Prod.fst r <;> simp [hm]

theorem get_dictSet (d : List (Str × Str)) (k v q : Str) :
    get (dictSet d k v) q = if k = q then some v else get d q := by
  induction d with
  | nil => simp [dictSet, get]
  | cons kv r ih =>
    obtain ⟨k', v'⟩ := kv
    by_cases h : k' = k
    · subst h
      by_cases h2 : k' = q <;> simp [dictSet, get, h2]
    · by_cases h2 : k' = q
      · subst h2
        have : ¬ k = k' := fun e => h e.symm
        simp [dictSet, get, h, this]
      · simp [dictSet, get, h, h2, ih]

/-- key order after inserting the keys `l` one by one -/
def addKeys : List Str → List Str → List Str
  | ks, [] => ks
  | ks, k :: r => addKeys (if k ∈ ks then ks else ks ++ [k]) r

theorem dictUpdate_cons (d : List (Str × Str)) (kv : Str × Str) (ps : List (Str × Str)) :
    dictUpdate d (kv :: ps) = dictUpdate (dictSet d kv.1 kv.2) ps := rfl

theorem keys_dictUpdate (ps : List (Str × Str)) : ∀ d, keys (dictUpdate d ps) = addKeys (keys d) (keys ps) := by
  induction ps with
  | nil => intro d; rfl
  | cons kv r ih =>
    intro d
    rw [dictUpdate_cons, ih, keys_dictSet]
    rfl

/-- after `d.update(ps)`: the LAST pair of `ps` with that key, else the old value -/
theorem get_dictUpdate (ps : List (Str × Str)) : ∀ d k, get (dictUpdate d ps) k = (get ps.reverse k).or (get d k) := by
  induction ps with
  | nil => intro d k; simp [dictUpdate, get]
  | cons kv r ih =>
    intro d k
    obtain ⟨k', v'⟩ := kv
    rw [dictUpdate_cons, ih, get_dictSet, List.reverse_cons, get_append]
    by_cases h : k' = k <;> simp [get, h]

theorem addKeys_of_subset (l : List Str) : ∀ ks, (∀ k ∈ l, k ∈ ks) → addKeys ks l = ks := by
  induction l with
  | nil => intro ks _; rfl
  | cons k r ih =>
    intro ks h
    have hk : k ∈ ks := h k (by simp)
    simp only [addKeys, hk, if_true]
    exact ih ks (fun q hq => h q (by simp [hq]))

/-- the keys inserted are the first occurrences of the new keys, in order -/
theorem addKeys_eq (raw : List (Str × Str)) : ∀ ks, addKeys ks (keys raw) = ks ++ keys (dedupFrom ks raw) := by
  induction raw with
  | nil => intro ks; simp [addKeys, keys, dedupFrom]
  | cons kv r ih =>
    intro ks
    by_cases h : kv.1 ∈ ks
    · have := ih ks
      simp only [keys] at this
      simp [addKeys, keys, dedupFrom, h, this]
    · have := ih (ks ++ [kv.1])
      simp only [keys] at this
      simp [addKeys, keys, dedupFrom, h, this]

theorem dedupFrom_keys (raw : List (Str × Str)) : ∀ seen, (keys (dedupFrom seen raw)).Nodup ∧
    (∀ k ∈ keys (dedupFrom seen raw), k ∉ seen) ∧ (∀ k ∈ keys raw, k ∈ seen ∨ k ∈ keys (dedupFrom seen raw)) := by
  induction raw with
  | nil => intro seen; simp [dedupFrom, keys]
  | cons kv r ih =>
    intro seen
    by_cases h : kv.1 ∈ seen
    · obtain ⟨h1, h2, h3⟩ := ih seen
      simp only [dedupFrom, h, if_true]
      refine ⟨h1, h2, ?_⟩
      intro k hk
      simp only [keys, List.map_cons, List.mem_cons] at hk
      rcases hk with rfl | hk
      · exact Or.inl h
      · exact h3 k hk
    · obtain ⟨h1, h2, h3⟩ := ih (seen ++ [kv.1])
      simp only [dedupFrom, h, if_false]
      refine ⟨?_, ?_, ?_⟩
      · simp only [keys, List.map_cons, List.nodup_cons]
        refine ⟨?_, h1⟩
        intro hm
        exact h2 kv.1 hm (by simp)
      · intro k hk
        simp only [keys, List.map_cons, List.mem_cons] at hk
        rcases hk with rfl | hk
        · exact h
        · intro hs; exact h2 k hk (by simp [hs])
      · intro k hk
        simp only [keys, List.map_cons, List.mem_cons] at hk ⊢
        rcases hk with rfl | hk
        · exact Or.inr (Or.inl rfl)
        · rcases h3 k hk with h4 | h4
          · simp only [List.mem_append, List.mem_singleton] at h4
            rcases h4 with h4 | h4
            · exact Or.inl h4
            · exact Or.inr (Or.inl h4)
          · exact Or.inr (Or.inr h4)

/-- lookup in the de-duplicated list is lookup of the FIRST occurrence in the raw list -/
theorem get_dedupFrom (raw : List (Str × Str)) : ∀ seen k,
    get (dedupFrom seen raw) k = if k ∈ seen then none else get raw k := by
  induction raw with
  | nil => intro seen k; simp [dedupFrom, get]
  | cons kv r ih =>
    intro seen k
    obtain ⟨k', v'⟩ := kv
    by_cases h : k' ∈ seen
    · simp only [dedupFrom, h, if_true, ih, get]
      by_cases hk : k ∈ seen
      · simp [hk]
      · have : ¬ k' = k := fun e => hk (e ▸ h)
        simp [hk, this]
    · simp only [dedupFrom, h, if_false, get, ih]
      by_cases hk : k' = k
      · subst hk; simp [h]
      · have hk2 : ¬ k = k' := fun e => hk e.symm
        simp [hk, hk2]

theorem dedupFrom_length (raw : List (Str × Str)) : ∀ seen, (dedupFrom seen raw).length ≤ raw.length ∧
    ((dedupFrom seen raw).length = raw.length → dedupFrom seen raw = raw) := by
  induction raw with
  | nil => intro seen; simp [dedupFrom]
  | cons kv r ih =>
    intro seen
    by_cases h : kv.1 ∈ seen
    · have := (ih seen).1
      simp only [dedupFrom, h, if_true, List.length_cons]
      exact ⟨by omega, by omega⟩
    · have := ih (seen ++ [kv.1])
      simp only [dedupFrom, h, if_false, List.length_cons, List.cons.injEq, true_and]
      exact ⟨by omega, fun e => this.2 (by omega)⟩

/-- with pairwise distinct keys the last occurrence is the first one -/
theorem get_reverse_of_nodup (l : List (Str × Str)) (h : (keys l).Nodup) (k : Str) : get l.reverse k = get l k := by
  induction l with
  | nil => rfl
  | cons kv r ih =>
    obtain ⟨k', v'⟩ := kv
    simp only [keys, List.map_cons, List.nodup_cons] at h
    rw [List.reverse_cons, get_append, ih h.2]
    by_cases hk : k' = k
    · subst hk
      have : get r k' = none := (get_none_iff r k').mpr h.1
      simp [get, this]
    · simp [get, hk]

theorem length_keys (d : List (Str × Str)) : (keys d).length = d.length := by simp [keys]

theorem keys_dictOfPairs (raw : List (Str × Str)) : keys (dictOfPairs raw) = keys (dedupFirst raw) := by
  rw [dictOfPairs, keys_dictUpdate, addKeys_eq]
  simp [keys, dedupFirst]

/-- `len(dict(raw)) == len(raw)` iff the keys of `raw` are pairwise distinct -/
theorem length_dictOfPairs_iff (raw : List (Str × Str)) :
    (dictOfPairs raw).length = raw.length ↔ (keys raw).Nodup := by
  rw [← length_keys (dictOfPairs raw), keys_dictOfPairs, length_keys]
  constructor
  · intro h
    have := (dedupFrom_length raw []).2 h
    have h2 := (dedupFrom_keys raw []).1
    rw [this] at h2
    exact h2
  · intro h
    -- with distinct keys nothing is dropped
    suffices ∀ (raw : List (Str × Str)) seen, (keys raw).Nodup → (∀ k ∈ keys raw, k ∉ seen) →
        dedupFrom seen raw = raw by
      rw [dedupFirst, this raw [] h (by simp)]
    intro raw
    induction raw with
    | nil => intro seen _ _; rfl
    | cons kv r ih =>
      intro seen hnd hs
      simp only [keys, List.map_cons, List.nodup_cons, List.mem_cons] at hnd hs
      have h1 : kv.1 ∉ seen := hs kv.1 (Or.inl rfl)
      simp only [dedupFrom, h1, if_false, List.cons.injEq, true_and]
      apply ih _ hnd.2
      intro k hk hks
      simp only [List.mem_append, List.mem_singleton] at hks
      rcases hks with hks | hks
      · exact hs k (Or.inr hk) hks
      · subst hks; exact hnd.1 hk

/-- `dedupFrom` only depends on the SET of seen keys; one more seen key filters that key out -/
theorem dedupFrom_filter (k : Str) (raw : List (Str × Str)) : ∀ seen seen2 : List Str,
    (∀ q, q ∈ seen2 ↔ q ∈ seen ∨ q = k) →
    dedupFrom seen2 raw = (dedupFrom seen raw).filter (fun p => decide (p.1 ≠ k)) := by
  induction raw with
  | nil => intro _ _ _; rfl
  | cons kv r ih =>
    intro seen seen2 hs
    by_cases h1 : kv.1 ∈ seen
    · have h2 : kv.1 ∈ seen2 := (hs _).mpr (Or.inl h1)
      simp only [dedupFrom, h1, h2, if_true]
      exact ih seen seen2 hs
    · by_cases hk : kv.1 = k
      · have h2 : kv.1 ∈ seen2 := (hs _).mpr (Or.inr hk)
        simp only [dedupFrom, h1, h2, if_true, if_false, List.filter_cons]
        simp only [hk, ne_eq, not_true_eq_false, decide_false, Bool.false_eq_true, if_false]
        apply ih
        intro q
        simp only [List.mem_append, List.mem_singleton, hs]
        constructor
        · intro h; exact Or.inl h
        · rintro (h | h)
          · exact h
          · exact Or.inr h
      · have h2 : kv.1 ∉ seen2 := fun h => by
          rcases (hs _).mp h with h | h
          · exact h1 h
          · exact hk h
        simp only [dedupFrom, h1, h2, if_false, List.filter_cons, ne_eq, hk, not_false_eq_true, decide_true,
          if_true, List.cons.injEq, true_and]
        apply ih
        intro q
        simp only [List.mem_append, List.mem_singleton, hs]
        constructor
        · rintro ((h | h) | h)
          · exact Or.inl (Or.inl h)
          · exact Or.inr h
          · exact Or.inl (Or.inr h)
        · rintro ((h | h) | h)
          · exact Or.inl (Or.inl h)
          · exact Or.inr h
          · exact Or.inl (Or.inr h)

/-- accumulator-free reading of `dedupFirst`: the head is kept, its key is removed from the rest -/
theorem dedupFirst_cons (kv : Str × Str) (r : List (Str × Str)) :
    dedupFirst (kv :: r) = kv :: (dedupFirst r).filter (fun p => decide (p.1 ≠ kv.1)) := by
  simp only [dedupFirst, dedupFrom, List.not_mem_nil, if_false, List.nil_append, List.cons.injEq, true_and]
  exact dedupFrom_filter kv.1 r [] [kv.1] (by simp)

/-- **C02 (first attribute wins).** the attribute dict of an emitted start tag is the raw attribute list with every
later duplicate of a name removed: first value, position of the first occurrence. -/
theorem C02_attrs_first_wins (raw : List (Str × Str)) : finalAttrs raw = dedupFirst raw := by
  have hkeys := keys_dictOfPairs raw
  have hnd : (keys (dedupFirst raw)).Nodup := (dedupFrom_keys raw []).1
  have hget : ∀ k, get (dedupFirst raw) k = get raw k := by
    intro k; simp [dedupFirst, get_dedupFrom]
  have hgetD : ∀ k, get (dictOfPairs raw) k = get raw.reverse k := by
    intro k; simp [dictOfPairs, get_dictUpdate, get]
  unfold finalAttrs
  simp only
  split
  · -- duplicates: `data.update(raw[::-1])`
    apply alist_ext
    · rw [keys_dictUpdate, addKeys_of_subset, hkeys]
      intro k hk
      have hk2 : k ∈ keys raw := by simpa [keys] using hk
      rw [hkeys]
      have := (dedupFrom_keys raw []).2.2 k hk2
      simpa [dedupFirst] using this
    · rw [keys_dictUpdate, addKeys_of_subset, hkeys]
      · exact hnd
      · intro k hk
        have hk2 : k ∈ keys raw := by simpa [keys] using hk
        rw [hkeys]
        have := (dedupFrom_keys raw []).2.2 k hk2
        simpa [dedupFirst] using this
    · intro k
      rw [get_dictUpdate, List.reverse_reverse, hgetD, hget]
      cases h : get raw k with
      | some v => simp
      | none =>
        have : k ∉ keys raw.reverse := by
          have := (get_none_iff raw k).mp h
          simpa [keys] using this
        simp [(get_none_iff raw.reverse k).mpr this]
  · -- no duplicates
    rename_i hlen
    have hlen2 : (dedupFirst raw).length = raw.length := by
      have h1 := (dedupFrom_length raw []).1
      have h2 : (dictOfPairs raw).length = (dedupFirst raw).length := by
        rw [← length_keys, hkeys, length_keys]
      simp only [dedupFirst] at h2 ⊢
      omega
    have heq : dedupFirst raw = raw := (dedupFrom_length raw []).2 hlen2
    apply alist_ext _ _ hkeys (hkeys ▸ hnd)
    intro k
    rw [hgetD, hget]
    exact get_reverse_of_nodup raw (heq ▸ hnd) k

/-- **C02 (first attribute wins, emitted token).** `emitCurrentToken` on a start tag appends the start tag token with
lower-cased name and first-wins attributes at the end of the token queue (and touches nothing else of the queue). -/
theorem C02_attrs_emit (s : St) (name : Str) (raw : List (Str × Str)) (sc : Bool)
    (h : s.currentToken = some (.startTag name raw sc)) :
    ∃ s2, emitCurrentToken s = .ok s2 ∧
      s2.tokenQueue = s.tokenQueue ++ [.startTag (translateUpper2Lower name) (dedupFirst raw) sc] ∧
      s2.tokenQueue.getLast? = some (.startTag (translateUpper2Lower name) (dedupFirst raw) sc) := by
  have hf := C02_attrs_first_wins raw
  unfold finalAttrs at hf
  simp only at hf
  have he : emitCurrentToken s = .ok ({ s.emit (.startTag (translateUpper2Lower name) (dedupFirst raw) sc) with
      currentToken := some (.emittedStartTag (translateUpper2Lower name)) }.to .dataState) := by
    unfold emitCurrentToken
    simp only [St.cur, h]
    rw [← hf]
    rfl
  exact ⟨_, he, by simp [St.emit, St.to], by simp [St.emit, St.to]⟩

/-- non-vacuity / sanity: `a=1 b=2 a=3 b=4 c=5` keeps `a=1 b=2 c=5` -/
example : dedupFirst [([97], [49]), ([98], [50]), ([97], [51]), ([98], [52]), ([99], [53])] =
    [([97], [49]), ([98], [50]), ([99], [53])] := by decide
example : finalAttrs [([97], [49]), ([98], [50]), ([97], [51]), ([98], [52]), ([99], [53])] =
    [([97], [49]), ([98], [50]), ([99], [53])] := by decide
/-- without the `update(raw[::-1])` repair the LAST value would win -/
example : dictOfPairs [([97], [49]), ([97], [51])] = [([97], [51])] := by decide

end H5.Props.C02b
