/-
  C03f — end tags of the family `famE2` through the dispatcher (as C03dEndRound).
-/
import H5.Props.C03fEndForeign
set_option linter.unusedSimpArgs false
set_option linter.unusedVariables false
namespace H5.Props.C03f
open H5 H5.Model H5.Model.TB H5.Model.Dom
open H5.Props.C02c (NF Post Post_bind Post_mono Post_pure Post_ok Post_error Post_throw Post_ite
  NF_typeError NF_keyError NF_indexError NF_assertFail NF_valueError NF_lookupError)
open H5.Props.C03b H5.Props.C03c H5.Props.C03d H5.Props.C03e

set_option maxHeartbeats 8000000 in
theorem plainEG_rank {r : Rec} [hrn : RecRN r] {n : Nat} (hr : RecInv r n) (hn : 0 < n) (q : String) (hq : q ∈ plainE)
    (tok : Token) (ho : inFamE2 tok = true) (st : PState) (hi : C03c.Inv st)
    (hreg : q = "InTableTextPhase.processEndTag" → st.phase = some .inTableText) :
    RetLe (runProcessPlain r q tok) st (retBoundE2 q) := by
  delta runProcessPlain
  delta runProcessPlain.match_1
  repeat (refine RetLe_dite _ _ _ _ (fun heq => ?_) (fun _ => ?_); (· subst heq; dsimp only [Eq.ndrec_symm]; rke2_close))
  exact RetLe_none _ _ _

/-- `Phase.processEndTag` for an end tag of the family: the handler selected for the name is fine -/
theorem phaseEG_sel {r : Rec} [hrn : RecRN r] [hre : RecRNEG r] (p : Phase) (tok : Token) (ho : inFamE2 tok = true)
    (st : PState) (t : Token) (st' : PState) (hrun : (Phase_processEndTag r p tok).run st = .ok (some t, st')) :
    ∃ h k, lookupHandler Gen.endTagHandlers "endTagHandler" p (tokName tok) = .ok h ∧ retBoundE2 h = some k ∧
      psi st'.phase ≤ k := by
  revert t st'
  unfold Phase_processEndTag
  refine run_liftE_bind _ _ _ _ ?_
  intro d hdt
  refine run_liftE_bind _ _ _ _ ?_
  intro h hl
  rw [tag_name hdt] at hl
  have hok := (famE2_ok (inFamE2_name ho)) p
  unfold okE2 at hok
  rw [hl] at hok
  simp only [Bool.and_eq_true, List.contains_eq_mem, decide_eq_true_eq] at hok
  intro t st' hrun
  obtain ⟨k, hk, hle⟩ := tagEG_rank h hok.1.1 tok ho st t st' hrun
  exact ⟨h, k, hl, hk, hle⟩

theorem phaseEG_dec {r : Rec} [hrn : RecRN r] [hre : RecRNEG r] (p : Phase) (tok : Token) (ho : inFamE2 tok = true)
    (st : PState) (t : Token) (st' : PState) (hrun : (Phase_processEndTag r p tok).run st = .ok (some t, st')) :
    psi st'.phase < psi (some p) := by
  obtain ⟨h, k, hl, hk, hle⟩ := phaseEG_sel p tok ho st t st' hrun
  have hok := (famE2_ok (inFamE2_name ho)) p
  unfold okE2 at hok
  rw [hl] at hok
  dsimp only at hok
  rw [hk] at hok
  simp only [Bool.and_eq_true, decide_eq_true_eq] at hok
  exact Nat.lt_of_le_of_lt hle hok.2

/-- … and in the phases that other handlers hand the tag to, it is never handed back -/
theorem phaseEG_rn {r : Rec} [hrn : RecRN r] [hre : RecRNEG r] (p : Phase) (hp : nestedPh p = true) (tok : Token)
    (ho : inFamE2 tok = true) : RN (Phase_processEndTag r p tok) := by
  refine RN_of_RetLe_none ?_
  intro st t st' hrun
  exfalso
  obtain ⟨h, k, hl, hk, _⟩ := phaseEG_sel p tok ho st t st' hrun
  have hok := (famE2_ok (inFamE2_name ho)) p
  unfold okE2 at hok
  rw [hl] at hok
  dsimp only at hok
  rw [hp] at hok
  simp only [Bool.and_eq_true, Bool.not_true, Bool.false_or, List.contains_eq_mem, decide_eq_true_eq] at hok
  -- a handler of `rnTag` has no bound
  have : ∀ x ∈ rnTag, retBoundE2 x = none := by decide +kernel
  rw [this h hok.1.2] at hk
  cases hk

def rankOKEG (p : Phase) : Bool :=
  match resolveMethod p "processEndTag" with
  | .ok q =>
    if q = "Phase.processEndTag" then p != .inForeignContent
    else if q = "InForeignContentPhase.processEndTag" then p == .inForeignContent
    else q != "Phase.processStartTag" && q != "InBodyPhase.<slot>" && plainE.contains q &&
      (match retBoundE2 q with
       | some k => decide (k < psi (some p)) && p != .inForeignContent &&
           (q != "InTableTextPhase.processEndTag" || p == .inTableText)
       | none => true)
  | .error _ => true

theorem rankEG_static : ∀ p ∈ Phase.all, rankOKEG p = true := by decide +kernel

/-- `phases[p].processEndTag(token)` for an "other" end tag, `p` the phase register or `InForeignContentPhase` -/
theorem runProcessEG_rank {r : Rec} [hrn : RecRN r] [hre : RecRNEG r] {n : Nat} (hr : RecInv r n) (hn : 0 < n)
    (p : Phase) (hdec : p = .inForeignContent → RecDecEG r) (tok : Token) (ho : inFamE2 tok = true) (hNs : NsNone tok) (st : PState)
    (hi : C03c.Inv st) (hreg : p = .inForeignContent ∨ st.phase = some p) :
    ∀ t st', (runProcess r p "processEndTag" tok).run st = .ok (some t, st') → psi st'.phase < psi st.phase := by
  have hs := rankEG_static p (Phase.mem_all p)
  unfold rankOKEG at hs
  unfold runProcess
  refine run_liftE_bind _ _ _ _ ?_
  intro q hq
  rw [hq] at hs
  dsimp only at hs
  split
  · simp at hs
  · -- the generic method: the handler selected for the name
    rw [if_pos rfl] at hs
    have hnf : p ≠ .inForeignContent := by simpa using hs
    have hph : st.phase = some p := by
      rcases hreg with h' | h'
      · exact absurd h' hnf
      · exact h'
    intro t st' hrun
    have := phaseEG_dec (r := r) p tok ho st t st' hrun
    rw [hph]; exact this
  · simp at hs
  · rename_i h1 h2 h3
    rw [if_neg h2] at hs
    by_cases hfq : q = "InForeignContentPhase.processEndTag"
    · subst hfq
      rw [if_pos rfl] at hs
      have hpf : p = .inForeignContent := by simpa using hs
      rw [runPlain_foreignE]
      exact foreignEG_rank (hdec hpf) tok ho hNs st hi
    · rw [if_neg hfq] at hs
      simp only [Bool.and_eq_true, List.contains_eq_mem, decide_eq_true_eq, bne_iff_ne, ne_eq] at hs
      obtain ⟨⟨_, hmem⟩, hb⟩ := hs
      cases hbd : retBoundE2 q with
      | none =>
        have := plainEG_rank hr hn q hmem tok ho st hi (fun he => by rw [he] at hbd; exact absurd hbd (by decide))
        rw [hbd] at this
        intro t st' hrun
        obtain ⟨k, hk, _⟩ := this t st' hrun
        cases hk
      | some k =>
        rw [hbd] at hb
        simp only [Bool.and_eq_true, decide_eq_true_eq, bne_iff_ne, ne_eq, Bool.or_eq_true, beq_iff_eq] at hb
        obtain ⟨⟨hlt, hnf⟩, hitt⟩ := hb
        have hph : st.phase = some p := by
          rcases hreg with h' | h'
          · exact absurd h' hnf
          · exact h'
        have := plainEG_rank hr hn q hmem tok ho st hi (fun he => by
          rcases hitt with h' | h'
          · exact absurd he h'
          · rw [hph, h'])
        rw [hbd] at this
        intro t st' hrun
        obtain ⟨k', hk', hle⟩ := this t st' hrun
        cases hk'
        rw [hph]; omega

end H5.Props.C03f
