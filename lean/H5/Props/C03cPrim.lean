/-
  C03c — the helpers that assign the phase register: `resetInsertionMode` (the phase it selects has its stack clause),
  `parseRCDataRawtext`, the two "return to the original phase" assignments.
-/
import H5.Props.C03cRec
set_option linter.unusedSimpArgs false
set_option linter.unusedVariables false
namespace H5.Props.C03c
open H5 H5.Model H5.Model.TB H5.Model.Dom
open H5.Props.C02c (NF Post Post_bind Post_mono Post_pure Post_ok Post_error Post_throw Post_ite
  NF_typeError NF_keyError NF_indexError NF_assertFail NF_valueError NF_lookupError)
open H5.Props.C03b

/-! ### `resetInsertionMode` -/

/-- what an entry of `newModes` says about the phase it selects -/
theorem newModes_facts :
    ∀ p ∈ Gen.Lit.HTMLParser_resetInsertionMode_0, ∀ q,
      Phase.all.find? (fun q => q.key == String.ofList (p.2.map Char.ofNat)) = some q →
        NTp (some q) ∧ q ≠ .inSelectInTable ∧ ¬ headish (some q) ∧ (q = .inCell → p.1 = nTd ∨ p.1 = nTh) ∧
          (q = .inRow → p.1 = nTr) := by
  decide

/-- every protected name is a key of `newModes` -/
theorem newModes_PN : ∀ n ∈ PN, (Gen.Lit.HTMLParser_resetInsertionMode_0.find? (fun p => p.1 == n)).isSome = true := by
  decide

theorem notPN_of_newModes_none {nm : Str}
    (h : Gen.Lit.HTMLParser_resetInsertionMode_0.find? (fun p => p.1 == nm) = none) : PN.contains nm = false := by
  cases hc : PN.contains nm with
  | false => rfl
  | true =>
    have := newModes_PN nm (by simpa using hc)
    rw [h] at this; cases this

/-- an element of the default namespace has an HTML name tuple -/
theorem isH_dns (cfg : Cfg) (n : Str) : isH (cfg.defaultNamespace, n) = true := by
  have h1 : (Gen.Lit.defaultNamespaceTrue.getD htmlNs == htmlNs) = true := by decide
  have h2 : (Gen.Lit.defaultNamespaceFalse.getD htmlNs == htmlNs) = true := by decide
  unfold Cfg.defaultNamespace isH
  cases cfg.namespaceHTMLElements
  · exact h2
  · exact h1

theorem tsc_snoc (targets : List Str) (p : List Str) (n : Str) :
    tsc targets (p ++ [n]) = (if targets.contains n then true else if n == nHtml || n == nTable then false
      else tsc targets p) := by
  unfold tsc
  rw [List.reverse_append]
  rfl

theorem tsc_snoc_hit (targets : List Str) (p : List Str) (n : Str) (h : targets.contains n = true) :
    tsc targets (p ++ [n]) = true := by rw [tsc_snoc, h]; rfl
theorem tsc_snoc_html (targets : List Str) (p : List Str) (h : targets.contains nHtml = false) :
    tsc targets (p ++ [nHtml]) = false := by
  rw [tsc_snoc, h]
  have : (nHtml == nHtml || nHtml == nTable) = true := by decide
  rw [this]; rfl

theorem CELL_html (p : List Str) : CELL (p ++ [nHtml]) = true := by
  unfold CELL
  rw [tsc_snoc_html _ _ (by decide), tsc_snoc_html _ _ (by decide)]
  rfl
theorem ROW_html (p : List Str) : ROW (p ++ [nHtml]) = true := by
  unfold ROW
  rw [tsc_snoc_html _ _ (by decide), tsc_snoc_html _ _ (by decide)]
  rfl
theorem CELL_td (p : List Str) : CELL (p ++ [nTd]) = true := by
  unfold CELL; rw [tsc_snoc_hit _ _ _ (by decide)]; rfl
theorem CELL_th (p : List Str) : CELL (p ++ [nTh]) = true := by
  unfold CELL; rw [tsc_snoc_hit _ _ _ (by decide)]; rfl
theorem ROW_tr (p : List Str) : ROW (p ++ [nTr]) = true := by
  unfold ROW; rw [tsc_snoc_hit _ _ _ (by decide)]; rfl

/-- the protected names of `pre ++ [e] ++ above` for a protected `e` under unprotected elements -/
theorem P_found (pre : List El) (e : El) (above : List El) (he : prot e = true)
    (ha : ∀ x ∈ above, prot x = false) : P (pre ++ e :: above) = P pre ++ [e.2] := by
  rw [show pre ++ e :: above = (pre ++ [e]) ++ above by simp, P_append_unprot _ _ ha, P_append]
  simp [P, he]

/-- the result of the `resetInsertionMode` loop -/
def ResetOK (K : List El) (r : Option Phase) : Prop :=
  NTp r ∧ r ≠ some .inSelectInTable ∧ ¬ headish r ∧ (r = some .inCell → CELL (P K) = true) ∧
    (r = some .inRow → ROW (P K) = true)

theorem ResetOK_inBody (K : List El) : ResetOK K (some .inBody) :=
  And.intro (by decide) (And.intro (by decide) (And.intro (by decide) (And.intro (fun h => nomatch h) (fun h => nomatch h))))

theorem ResetOK_html (pre above : List El) (e : El) (he : e.2 = nHtml) (hp : prot e = true)
    (ha : ∀ x ∈ above, prot x = false) (r : Option Phase) (h1 : NTp r) (h2 : r ≠ some .inSelectInTable)
    (h3 : ¬ headish r) :
    ResetOK (pre ++ e :: above) r := by
  refine ⟨h1, h2, h3, fun _ => ?_, fun _ => ?_⟩
  · rw [P_found pre e above hp ha, he]; exact CELL_html _
  · rw [P_found pre e above hp ha, he]; exact ROW_html _

theorem resetLoop_lookup {β : Type} (site : String) (nm : Str) (st : PState) (k : M (Option Phase))
    (Q : Option Phase → PState → Prop)
    (hfound : ∀ p q, Gen.Lit.HTMLParser_resetInsertionMode_0.find? (fun p => p.1 == nm) = some p →
      Phase.all.find? (fun q => q.key == String.ofList (p.2.map Char.ofNat)) = some q → Q (some q) st)
    (hnone : Gen.Lit.HTMLParser_resetInsertionMode_0.find? (fun p => p.1 == nm) = none → Tr k st Q) :
    Tr (match Gen.Lit.HTMLParser_resetInsertionMode_0.find? (fun p => p.1 == nm) with
        | some p => do
          let ph ← liftM (Phase.ofKey site (String.ofList (p.2.map Char.ofNat)))
          pure (some ph)
        | none => k) st Q := by
  split
  · rename_i p hp
    simp only [Tr_bind, Tr_lift, Tr_pure]
    cases h : Phase.ofKey site (String.ofList (List.map Char.ofNat p.snd)) with
    | ok a => exact hfound p a hp (ofKey_ok _ _ _ h)
    | error e =>
      have := (ENF_ofKey site (String.ofList (List.map Char.ofNat p.snd))).out
      rw [h] at this
      exact this
  · rename_i hp
    exact hnone hp

theorem prot_html (cfg : Cfg) : prot (cfg.defaultNamespace, nHtml) = true := by
  unfold prot; rw [isH_dns]; show (true && PN.contains nHtml) = true; decide

theorem ResetOK_none (K : List El) : ResetOK K none :=
  And.intro (by decide) (And.intro (by decide) (And.intro (by decide) (And.intro (fun h => nomatch h) (fun h => nomatch h))))

theorem resetLoop_spec (bottom : NodeId) (st : PState)
    (hb : IsEl st.arena bottom ∧ elemK st.arena bottom = (dnsOf st, nHtml)) :
    ∀ (l : List NodeId) (above : List El), (∀ i ∈ l, IsEl st.arena i) →
      (∀ i ∈ l, isH (elemK st.arena i) = true → (elemK st.arena i).1 = dnsOf st) →
      (∀ x ∈ above, prot x = false) →
      Tr (resetInsertionModeLoop bottom l false) st
        (fun r st' => st' = st ∧ ResetOK (l.reverse.map (elemK st.arena) ++ above) r) := by
  intro l
  induction l with
  | nil =>
    intro above _ _ _
    unfold resetInsertionModeLoop
    exact ⟨rfl, ResetOK_none _⟩
  | cons node rest ih =>
    intro above hel hns habove
    have hn : IsEl st.arena node := hel node (List.mem_cons_self ..)
    have hK : (node :: rest).reverse.map (elemK st.arena) ++ above =
        rest.reverse.map (elemK st.arena) ++ elemK st.arena node :: above := by simp
    rw [hK]
    unfold resetInsertionModeLoop
    simp only [Tr_bind, Tr_getCfg, Tr_nodeName hn]
    by_cases hnb : (node == bottom) = true
    · -- the bottom of the stack: the `html` element
      have hnode : node = bottom := beq_iff_eq.1 hnb
      have hKn : elemK st.arena node = (st.cfg.defaultNamespace, nHtml) := by rw [hnode]; exact hb.2
      have hfin : ∀ r, NTp r → r ≠ some .inSelectInTable → ¬ headish r →
          ResetOK (rest.reverse.map (elemK st.arena) ++ elemK st.arena node :: above) r := by
        intro r h1 h2 h3
        exact ResetOK_html _ _ _ (by rw [hKn]) (by rw [hKn]; exact prot_html _) habove r h1 h2 h3
      rw [if_pos hnb]
      simp only [Tr_bind]
      apply Tr_RO; intro _
      split
      · rename_i s hs
        simp only [Tr_bind, Tr_nodeNs hn, Bool.not_true, Bool.false_and, Bool.false_eq_true, if_false]
        have hlook : ∀ site, Tr (match Gen.Lit.HTMLParser_resetInsertionMode_0.find? (fun p => p.1 == s) with
            | some p => do
              let ph ← liftM (Phase.ofKey site (String.ofList (p.2.map Char.ofNat)))
              pure (some ph)
            | none => if True then pure (some Phase.inBody) else resetInsertionModeLoop bottom rest true) st
            (fun r st' => st' = st ∧
              ResetOK (rest.reverse.map (elemK st.arena) ++ elemK st.arena node :: above) r) := by
          intro site
          refine resetLoop_lookup (β := Unit) site s st _ _ ?_ ?_
          · intro p q hp hq
            obtain ⟨g1, g2, g3, _, _⟩ := newModes_facts p (List.mem_of_find?_eq_some hp) q hq
            exact ⟨rfl, hfin _ g1 (by intro h; cases h; exact g2 rfl) g3⟩
          · intro _
            rw [if_pos trivial]
            exact ⟨rfl, hfin _ (by decide : NTp (some Phase.inBody)) (by decide : some Phase.inBody ≠ some Phase.inSelectInTable)
              (by decide : ¬ headish (some Phase.inBody))⟩
        split
        · simp only [Tr_bind]
          apply Tr_RO; intro _
          exact hlook _
        · exact hlook _
      · simp only [Tr_bind, Tr_throw]
        exact NF_assertFail _
    · have hnb' : (node == bottom) = false := by simpa using hnb
      rw [if_neg hnb]
      simp only [Tr_bind, Tr_nodeNs hn, Bool.not_false, Bool.true_and]
      have hrec : prot (elemK st.arena node) = false →
          Tr (resetInsertionModeLoop bottom rest false) st (fun r st' => st' = st ∧
            ResetOK (rest.reverse.map (elemK st.arena) ++ elemK st.arena node :: above) r) := by
        intro hp
        exact ih (elemK st.arena node :: above) (fun i hi => hel i (List.mem_cons_of_mem _ hi))
          (fun i hi => hns i (List.mem_cons_of_mem _ hi))
          (by intro x hx; rcases List.mem_cons.1 hx with h | h; rw [h]; exact hp; exact habove x h)
      by_cases hforeign : ((elemK st.arena node).1 != st.cfg.defaultNamespace) = true
      · rw [if_pos hforeign]
        apply hrec
        cases hp : prot (elemK st.arena node) with
        | false => rfl
        | true =>
          exfalso
          have hH : isH (elemK st.arena node) = true := by
            simp only [prot, Bool.and_eq_true] at hp; exact hp.1
          have := hns node (List.mem_cons_self ..) hH
          simp only [bne_iff_ne, ne_eq] at hforeign
          exact hforeign this
      · rw [if_neg hforeign]
        have hdns : (elemK st.arena node).1 = st.cfg.defaultNamespace := by
          simpa using hforeign
        have hKn : elemK st.arena node = (st.cfg.defaultNamespace, (elemK st.arena node).2) := by
          rw [← hdns]
        have hlook : ∀ site, Tr (match Gen.Lit.HTMLParser_resetInsertionMode_0.find?
              (fun p => p.1 == (elemK st.arena node).2) with
            | some p => do
              let ph ← liftM (Phase.ofKey site (String.ofList (p.2.map Char.ofNat)))
              pure (some ph)
            | none => if false = true then pure (some Phase.inBody) else resetInsertionModeLoop bottom rest false) st
            (fun r st' => st' = st ∧
              ResetOK (rest.reverse.map (elemK st.arena) ++ elemK st.arena node :: above) r) := by
          intro site
          refine resetLoop_lookup (β := Unit) site _ st _ _ ?_ ?_
          · intro p q hp hq
            obtain ⟨g1, g2, g2', g3, g4⟩ := newModes_facts p (List.mem_of_find?_eq_some hp) q hq
            have hpn : p.1 = (elemK st.arena node).2 := by
              have := List.find?_some hp; simpa using this
            refine ⟨rfl, g1, by intro h; cases h; exact g2 rfl, g2', ?_, ?_⟩
            · intro h; cases h
              have hname := g3 rfl
              rw [hpn] at hname
              have hprot : prot (elemK st.arena node) = true := by
                rw [hKn]; unfold prot; rw [isH_dns]
                rcases hname with h' | h' <;> rw [h'] <;> decide
              rw [P_found _ _ _ hprot habove]
              rcases hname with h' | h' <;> rw [h']
              · exact CELL_td _
              · exact CELL_th _
            · intro h; cases h
              have hname := g4 rfl
              rw [hpn] at hname
              have hprot : prot (elemK st.arena node) = true := by
                rw [hKn]; unfold prot; rw [isH_dns, hname]; decide
              rw [P_found _ _ _ hprot habove, hname]
              exact ROW_tr _
          · intro hnone
            rw [if_neg (by decide)]
            exact hrec (prot_of_name (notPN_of_newModes_none hnone))
        split
        · simp only [Tr_bind]
          apply Tr_RO; intro _
          exact hlook _
        · exact hlook _

/-- `resetInsertionMode` establishes the invariant from its structural part -/
instance Pz_resetInsertionMode : Pz resetInsertionMode := ⟨fun st hs hr => by
  unfold resetInsertionMode
  simp only [Tr_bind, Tr_openElems]
  split
  · rename_i hnil
    unfold setPhaseO
    simp only [Tr_modify]
    exact Inv_setPhase hs hr none (by decide) (PCL_free (by decide) _) (by decide) (fun h => nomatch h)
  · rename_i bottom tl hl
    simp only [Tr_bind]
    have hbel : IsEl st.arena bottom := hs.elem bottom (by rw [hl]; exact List.mem_cons_self ..)
    have hbk : elemK st.arena bottom = (dnsOf st, nHtml) :=
      hs.bot _ (by unfold stackK; rw [hl]; rfl)
    have hspec := resetLoop_spec bottom st ⟨hbel, hbk⟩ st.openElements.reverse []
      (fun i hi => hs.elem i (List.mem_reverse.1 hi))
      (fun i hi => hs.ns _ (List.mem_map.2 ⟨i, List.mem_reverse.1 hi, rfl⟩))
      (fun _ h => nomatch h)
    refine Tr_mono hspec ?_
    rintro ph st' ⟨hst', hok⟩
    rw [hst']
    unfold setPhaseO
    simp only [Tr_modify]
    have hK : stackK st = st.openElements.reverse.reverse.map (elemK st.arena) ++ [] := by
      unfold stackK; simp
    rw [← hK] at hok
    exact Inv_setPhase hs hr ph hok.1 ⟨hok.2.2.2.1, hok.2.2.2.2, fun h => absurd (Or.inr (Or.inr h)) hok.2.2.1⟩ hok.2.2.1
      (fun h => absurd h hok.2.1)⟩

/-- the assignment of one of the phases around `head`: the clause on the `head` element is supplied -/
theorem Inv_setPhase_h {st : PState} (hs : ST st) (hr : REG st) (p : Phase) (h : NTp (some p))
    (hc : PCL (some p) (P (stackK st))) (hh : HSH { st with phase := some p })
    (hsl : p ≠ .inSelectInTable) : Inv { st with phase := some p } := by
  have he : effP ({ st with phase := some p } : PState) = some p :=
    effP_eq_phase (st := { st with phase := some p }) h
  have hne : ¬ (({ st with phase := some p } : PState).phase = some .text) := h.1
  refine Inv_of_regs (st := st) rfl rfl (ST_of_same (st := st) rfl rfl rfl rfl rfl (Ext.refl _) hs)
    (REG_setPhase hr _ h) (fun h => absurd h hne) ?_ hh ?_
  · rw [he]; exact hc
  · rw [he]; intro hp; cases hp; exact absurd rfl hsl

/-! ### pushing the token's element -/

/-- `insertElement(token)` for an unprotected token without a namespace: an unprotected element of the default
namespace, named like the token, is pushed -/
theorem insertElementTok_pushed (tok : Token) (site : String) (st : PState) (hs : ST st) (hn : NsNone tok)
    (hp : notPN tok) :
    Tr (insertElementTok tok site) st (fun x st' => ∃ e, PushedU st st' x e ∧ e = (dnsOf st, tokName tok) ∧
      prot e = false) := by
  unfold insertElementTok
  simp only [Tr_bind, Tr_monadLift]
  cases ht : tok.tag site with
  | error e =>
    have := (ENF_tag tok site).out
    rw [ht] at this; exact this
  | ok d =>
    simp only [Post_ok]
    refine Tr_mono (insertElement_spec d st hs.elem) ?_
    intro x st' hpu
    have hok := dOK_of_tag ht hn hp (dnsOf st)
    have he : dEl (dnsOf st) d = (dnsOf st, tokName tok) := by
      unfold dEl; rw [tag_ns ht hn, tag_name ht]
    exact ⟨_, ST_pushed hs hpu hok, he, hok.1⟩

/-- `self.parser.phase = self.parser.originalPhase` after popping the current node, in the `text` phase -/
theorem textPop_tr (st : PState) (hi : Inv st) (hp : st.phase = some .text) :
    Inv { st with openElements := st.openElements.dropLast, phase := st.originalPhase } := by
  have hoph := hi.reg.oph hp
  obtain ⟨e, hlast, hdns, hprot, _⟩ := hi.txt hp
  have hst1 : ST (wo st st.openElements.dropLast) := ST_pop hi.str
  have heff : effP st = st.originalPhase := by unfold effP; rw [if_pos hp]
  have hsk : stackK (wo st st.openElements.dropLast) = (stackK st).dropLast := by
    unfold stackK; simp [List.map_dropLast]
  have hP : P ((stackK st).dropLast) = P (stackK st) := by
    have h := list_snoc_of_getLast? hlast
    conv => rhs; rw [h]
    rw [P_append_unprot]
    intro x hx; simp only [List.mem_singleton] at hx; rw [hx]; exact hprot
  refine Inv_of_regs (st := wo st st.openElements.dropLast) rfl rfl
    (ST_of_same (st := wo st st.openElements.dropLast) rfl rfl rfl rfl rfl (Ext.refl _) hst1)
    ⟨⟨hoph.2.2, hi.reg.ph.2.1, hi.reg.ph.2.2⟩, fun he => absurd he hoph.1, fun he => absurd he hoph.2.1⟩
    (fun he => absurd he hoph.1) ?_ ?_ ?_
  · have he : effP ({ st with openElements := st.openElements.dropLast, phase := st.originalPhase } : PState) =
        st.originalPhase := effP_eq_phase (st := { st with openElements := st.openElements.dropLast, phase := st.originalPhase }) hoph
    rw [he, hsk, hP, ← heff]; exact hi.pcl
  · have he : effP ({ st with openElements := st.openElements.dropLast, phase := st.originalPhase } : PState) =
        st.originalPhase := effP_eq_phase (st := { st with openElements := st.openElements.dropLast, phase := st.originalPhase }) hoph
    have hc : cIds ({ st with openElements := st.openElements.dropLast, phase := st.originalPhase } : PState) = cIds st := by
      unfold cIds
      rw [if_pos hp, if_neg (show ¬ (({ st with openElements := st.openElements.dropLast, phase := st.originalPhase } : PState).phase = some .text) from hoph.1)]
    have hh := hi.hsh
    unfold HSH at hh ⊢
    rw [he, hc, ← heff]
    exact ⟨hh.1, hh.2.1, fun h1 h h2 hm => hh.2.2 h1 h h2 (List.dropLast_subset _ hm)⟩
  · have he : effP ({ st with openElements := st.openElements.dropLast, phase := st.originalPhase } : PState) =
        st.originalPhase := effP_eq_phase (st := { st with openElements := st.openElements.dropLast, phase := st.originalPhase }) hoph
    rw [he]; intro h
    have hne : ¬ (({ st with openElements := st.openElements.dropLast, phase := st.originalPhase } : PState).phase = some .text) :=
      hoph.1
    rw [if_neg hne, hsk]
    have := hi.sel (heff.trans h)
    unfold selStack at this
    rw [if_pos hp] at this
    exact this

/-- `self.parser.phase = self.originalPhase` in the `inTableText` phase: back to an ordinary phase -/
theorem restoreTableTextPhase_tr (st : PState) (hi : Inv st) (hp : st.phase = some .inTableText) :
    Tr InTableText_restorePhase st (fun _ st' => Inv st' ∧ NT st') := by
  unfold InTableText_restorePhase
  simp only [Tr_modify]
  have h := hi.reg.tph hp
  have heff : effP st = st.tableTextOriginalPhase := by
    unfold effP; rw [if_neg (by rw [hp]; decide), if_pos hp]
  have he : effP ({ st with phase := st.tableTextOriginalPhase } : PState) = st.tableTextOriginalPhase :=
    effP_eq_phase (st := { st with phase := st.tableTextOriginalPhase }) h.1
  refine ⟨?_, h.1, h.2.1, h.2.2⟩
  refine Inv_of_regs (st := st) rfl rfl (ST_of_same (st := st) rfl rfl rfl rfl rfl (Ext.refl _) hi.str)
    ⟨⟨h.1.2.2, hi.reg.ph.2.1, hi.reg.ph.2.2⟩, fun he => absurd he h.1.1, fun he => absurd he h.1.2.1⟩
    (fun he => absurd he h.1.1) ?_ (HSH_free (by rw [he]; exact h.2.2)) ?_
  · rw [he, ← heff]; exact hi.pcl
  · rw [he]; intro h'; exact absurd h' h.2.1.2

/-- entering the `text` phase right after pushing an unprotected element of the default namespace, from any phase
other than `text` / `inTableText` (the select phases included) -/
theorem Inv_toText_push {st st2 : PState} (hi : Inv st) (hn : NTp st.phase) (hs2 : ST st2) (hk : Keep st st2)
    {e : El} (hstack : stackK st2 = stackK st ++ [e]) (he : e.1 = dnsOf st) (hpe : prot e = false)
    (hne : e.2 ≠ nHead) {x : NodeId} (hop : st2.openElements = st.openElements ++ [x])
    (hhd : st2.headPointer = st.headPointer) (hfresh : st.arena.nodes.size ≤ x) :
    Inv { st2 with originalPhase := st2.phase, phase := some .text } := by
  have hph : st2.phase = st.phase := phase_of_F hk.f
  have hr2 : REG st2 := REG_of_F hk.f hi.reg
  have hn2 : NTp st2.phase := by rw [hph]; exact hn
  have heff0 : effP st = st.phase := effP_eq_phase hn
  have heff : effP ({ st2 with originalPhase := st2.phase, phase := some .text } : PState) = st.phase := by
    show (if some Phase.text = some Phase.text then st2.phase else _) = _
    rw [if_pos rfl, hph]
  have hP : P (stackK st2) = P (stackK st) := by
    rw [hstack, P_append_unprot]; intro x hx; simp only [List.mem_singleton] at hx; rw [hx]; exact hpe
  have hd : dnsOf st2 = dnsOf st := dnsOf_of_cfg hk.cf
  refine Inv_of_regs (st := st2) rfl rfl (ST_of_same (st := st2) rfl rfl rfl rfl rfl (Ext.refl _) hs2)
    ⟨⟨by simp, hn2.2.2, hr2.ph.2.2⟩, fun _ => hn2, by simp⟩
    (fun _ => ⟨e, by rw [hstack]; simp, by rw [hd]; exact he, hpe, hne⟩) ?_ ?_ ?_
  · rw [heff, hP, ← heff0]; exact hi.pcl
  · have hc : cIds ({ st2 with originalPhase := st2.phase, phase := some .text } : PState) = cIds st := by
      unfold cIds
      rw [if_pos rfl, if_neg hn.1]
      show st2.openElements.dropLast = _
      rw [hop, List.dropLast_concat]
    have hh := hi.hsh
    unfold HSH at hh ⊢
    rw [heff, hc, ← heff0]
    refine ⟨by rw [show ({ st2 with originalPhase := st2.phase, phase := some .text } : PState).headPointer = st.headPointer from hhd]; exact hh.1,
      ?_, ?_⟩
    · intro he1
      obtain ⟨pre, hd', n, g1, g2, g3⟩ := hh.2.1 he1
      refine ⟨pre, hd', n, g1, by rw [← g2]; exact hhd, ?_⟩
      have hnm : n ∈ st.openElements := cIds_sub st n (by rw [g1]; simp)
      show (elemK st2.arena n).1 = dnsOf st2
      rw [((hi.str.elem n hnm).ext hk.ar).2, hd]; exact g3
    intro h1 h h2 hm
    have h2' : st.headPointer = some h := by rw [← hhd]; exact h2
    have hm' : h ∈ st.openElements ++ [x] := by rw [← hop]; exact hm
    rcases List.mem_append.1 hm' with hm' | hm'
    · exact hh.2.2 h1 h h2' hm'
    · simp only [List.mem_singleton] at hm'
      exact absurd (IsEl_lt (hi.str.hp h h2').1) (by rw [hm']; exact Nat.not_lt.2 hfresh)
  · rw [heff]; intro h
    rw [if_pos rfl, hstack, List.dropLast_concat, hd]
    have := hi.sel (heff0.trans h)
    unfold selStack at this
    rw [if_neg hn.1] at this
    exact this

/-- `parseRCDataRawtext` from a phase other than `text` / `inTableText`, for an unprotected token -/
theorem parseRCDataRawtext_tr (t : Token) (c : String) (st : PState) (hi : Inv st) (hn : NTp st.phase) (hns : NsNone t)
    (hp : notPN t) (hh : notHead t) : Tr (parseRCDataRawtext t c) st (fun _ st' => Inv st') := by
  unfold parseRCDataRawtext
  simp only [Tr_bind]
  apply Tr_RO; intro _
  refine Tr_mono (insertElementTok_pushed t _ st hi.str hns hp) ?_
  rintro x st1 ⟨e, hpu, he, hpe⟩
  have fin : ∀ s, Tr (do setTokState s; modify (fun st => { st with originalPhase := st.phase }); setPhase .text : M Unit)
      st1 (fun _ st' => Inv st') := by
    intro s
    unfold setTokState setPhase
    simp only [Tr_bind, Tr_modify]
    exact Inv_toText_push (st2 := { st1 with tokSwitch := some s }) hi hn
      (ST_of_same (st := st1) rfl rfl rfl rfl rfl (Ext.refl _) hpu.str) ⟨hpu.keep.f, hpu.keep.cf, hpu.keep.ar⟩
      hpu.stack (by rw [he]) hpe (by rw [he]; exact hh) hpu.op hpu.hd hpu.fresh
  split
  · have := fin .rawtext; simpa only [Tr_bind] using this
  · have := fin .rcdata; simpa only [Tr_bind] using this

/-- from any phase other than `text` / `inTableText` (the select phases and the phases around `head` included) -/
class Pe {α : Type} (m : M α) : Prop where
  out : ∀ st, Inv st → NTp st.phase → Tr m st (fun _ st' => Inv st')

/-- in the phase `p` -/
class Ph (p : Phase) {α : Type} (m : M α) : Prop where
  out : ∀ st, Inv st → st.phase = some p → Tr m st (fun _ st' => Inv st')

instance (priority := 20) Pe_of_Pu {α : Type} (m : M α) [h : Pu m] : Pe m := ⟨fun st hi _ => h.out st hi⟩
instance (priority := 15) Pk_of_Pe {α : Type} (m : M α) [h : Pe m] : Pk m := ⟨fun st hi hn => h.out st hi hn.1⟩
theorem Ph_of_Pe (p : Phase) (hp : NTp (some p)) {α : Type} (m : M α) [h : Pe m] : Ph p m :=
  ⟨fun st hi hph => h.out st hi (by rw [hph]; exact hp)⟩
instance (priority := 15) Ph_of_Pu (p : Phase) {α : Type} (m : M α) [h : Pu m] : Ph p m := ⟨fun st hi _ => h.out st hi⟩
theorem Pe_bind_u {α β : Type} (m : M α) (f : α → M β) (h1 : Pe m) [h2 : ∀ a, Pu (f a)] : Pe (m >>= f) :=
  ⟨fun st hi hn => (Tr_bind ..).2 (Tr_mono (h1.out st hi hn) (fun a st' h => (h2 a).out st' h))⟩
theorem Ph_bind_u (p : Phase) {α β : Type} (m : M α) (f : α → M β) (h1 : Ph p m) [h2 : ∀ a, Pu (f a)] :
    Ph p (m >>= f) :=
  ⟨fun st hi hn => (Tr_bind ..).2 (Tr_mono (h1.out st hi hn) (fun a st' h => (h2 a).out st' h))⟩
/-- read-only / stack-keeping bookkeeping first -/
theorem Pe_bind_sv {α β : Type} (m : M α) (f : α → M β) [h1 : SV m] (h2 : ∀ a, Pe (f a)) : Pe (m >>= f) :=
  ⟨fun st hi hn => (Tr_bind ..).2 (Tr_mono (h1.out st) (fun a st' e =>
    (h2 a).out st' (Inv_of_Same e hi) (by rw [phase_of_F e.f]; exact hn)))⟩
theorem Ph_bind_sv (p : Phase) {α β : Type} (m : M α) (f : α → M β) [h1 : SV m] (h2 : ∀ a, Ph p (f a)) :
    Ph p (m >>= f) :=
  ⟨fun st hi hn => (Tr_bind ..).2 (Tr_mono (h1.out st) (fun a st' e =>
    (h2 a).out st' (Inv_of_Same e hi) (by rw [phase_of_F e.f]; exact hn)))⟩
theorem Pe_ite {α : Type} (c : Prop) [Decidable c] (a b : M α) (h1 : Pe a) (h2 : Pe b) :
    Pe (if c then a else b) := by split <;> assumption
theorem Ph_ite (p : Phase) {α : Type} (c : Prop) [Decidable c] (a b : M α) (h1 : Ph p a) (h2 : Ph p b) :
    Ph p (if c then a else b) := by split <;> assumption

theorem RecInv.peHeadLeaf {r n} (hr : RecInv r n) (tok : Token) (h : needS .inHead tok < n) (hns : NsNone tok)
    (hh : isHeadLeaf tok) : Pe (r.processStartTag .inHead tok) :=
  ⟨fun st hi hn => hr.SheadLeaf tok hh h hns st hi hn⟩

/-- in an ordinary phase without a stack clause the invariant is its structural part -/
theorem Inv_of_free {st : PState} (hs : ST st) (hr : REG st) (hn : NT st) (hf : freeP st.phase) : Inv st := by
  have he : effP st = st.phase := effP_eq_phase hn.1
  refine ⟨hr, hs, fun h => absurd h hn.1.1, ?_, HSH_free (by rw [he]; exact hf.2.2.2), ?_⟩
  · rw [he]; exact PCL_free hf _
  · rw [he]; intro h; exact absurd h hf.2.2.1

/-- from an ordinary phase without a stack clause, to one: any admissible stack manipulation is allowed -/
class Pf {α : Type} (m : M α) : Prop where
  out : ∀ st, ST st → REG st → NT st → freeP st.phase →
    Tr m st (fun _ st' => ST st' ∧ REG st' ∧ NT st' ∧ freeP st'.phase)

instance (priority := 30) Pf_of_KS {α : Type} (m : M α) [h : KS m] : Pf m :=
  ⟨fun st hs hr hn hf => Tr_mono (h.out st hs) (fun _ st' e =>
    ⟨e.1, REG_of_F e.2.f hr, NT_of_F e.2.f hn, by rw [phase_of_F e.2.f]; exact hf⟩)⟩
instance Pf_bind {α β : Type} (m : M α) (f : α → M β) [h1 : Pf m] [h2 : ∀ a, Pf (f a)] : Pf (m >>= f) :=
  ⟨fun st hs hr hn hf => (Tr_bind ..).2 (Tr_mono (h1.out st hs hr hn hf)
    (fun a st' h => (h2 a).out st' h.1 h.2.1 h.2.2.1 h.2.2.2))⟩
instance Pf_ite {α : Type} (c : Prop) [Decidable c] (a b : M α) [h1 : Pf a] [h2 : Pf b] :
    Pf (if c then a else b) := by split <;> assumption
theorem Pf_setPhase (p : Phase) (h : NTp (some p) ∧ NSel (some p)) (hf : freeP (some p)) : Pf (setPhase p) :=
  ⟨fun st hs hr _ _ => by
    unfold setPhase
    simp only [Tr_modify]
    exact ⟨ST_of_same (st := st) rfl rfl rfl rfl rfl (Ext.refl _) hs, REG_setPhase hr _ h.1, ⟨h.1, h.2, hf.2.2.2⟩, hf⟩⟩
instance : Pf (setPhase .inTable) := Pf_setPhase _ (by decide) (by decide)
instance : Pf (setPhase .inTableBody) := Pf_setPhase _ (by decide) (by decide)
instance : Pf (setPhase .inBody) := Pf_setPhase _ (by decide) (by decide)
instance : Pf (setPhase .inCaption) := Pf_setPhase _ (by decide) (by decide)
instance : Pf (setPhase .inColumnGroup) := Pf_setPhase _ (by decide) (by decide)
instance : Pf (setPhase .afterFrameset) := Pf_setPhase _ (by decide) (by decide)
instance : Pf (setPhase .inFrameset) := Pf_setPhase _ (by decide) (by decide)
instance : Pf (setPhase .afterBody) := Pf_setPhase _ (by decide) (by decide)

/-- a `Pf` computation in a given phase without a stack clause -/
theorem Ph_of_Pf (p : Phase) (hp : NTp (some p) ∧ NSel (some p)) (hf : freeP (some p)) {α : Type} (m : M α)
    [h : Pf m] : Ph p m :=
  ⟨fun st hi hph => Tr_mono (h.out st hi.str hi.reg (by unfold NT; rw [hph]; exact ⟨hp.1, hp.2, hf.2.2.2⟩)
    (by rw [hph]; exact hf)) (fun _ st' e => Inv_of_free e.1 e.2.1 e.2.2.1 e.2.2.2)⟩

macro "pf_step" : tactic => `(tactic| first
  | assumption
  | infer_instance
  | (with_reducible refine @Pf_bind _ _ _ _ ?_ ?_)
  | (intro _)
  | (dsimp only)
  | split)
macro "pf_auto" : tactic => `(tactic| repeat' pf_step)

set_option hygiene false in
macro "pe_step" : tactic => `(tactic| first
  | assumption
  | infer_instance
  | exact RecInv.peHeadLeaf hr _ (by need_tac) (by first | assumption | exact Fct.out | rfl) (by first | assumption | exact Fct.out)
  | (refine Pe_bind_sv _ _ ?_; intro _)
  | (refine Pe_bind_u _ _ ?_)
  | (refine Pe_ite _ _ _ ?_ ?_)
  | (dsimp only)
  | split)
macro "pe_auto" : tactic => `(tactic| repeat' pe_step)

/-- the nested dispatches of `InSelectInTablePhase` to `InSelectPhase` -/
theorem RecInv.phSelS {r n} (hr : RecInv r n) (tok : Token) (h : needS .inSelect tok < n) (hns : NsNone tok) :
    Ph .inSelectInTable (r.processStartTag .inSelect tok) :=
  ⟨fun st hi hp => hr.S .inSelect tok h hns st hi (Or.inr hp)⟩
theorem RecInv.phSelE {r n} (hr : RecInv r n) (tok : Token) (h : needE .inSelect tok < n) (hns : NsNone tok) :
    Ph .inSelectInTable (r.processEndTag .inSelect tok) :=
  ⟨fun st hi hp => hr.E .inSelect tok h hns st hi (Or.inr hp) (CE_of_ne (by decide))⟩
theorem RecInv.phSelCh {r n} (hr : RecInv r n) (tok : Token) (h : needCh .inSelect < n) (hns : NsNone tok) :
    Ph .inSelectInTable (r.processCharacters .inSelect tok) :=
  ⟨fun st hi hp => hr.Ch .inSelect tok h hns st hi (Or.inr hp)⟩
theorem RecInv.phSelEOF {r n} (hr : RecInv r n) (h : needEOF .inSelect < n) :
    Ph .inSelectInTable (r.processEOF .inSelect) :=
  ⟨fun st hi hp => hr.EOF .inSelect h st hi (Or.inr hp)⟩

set_option hygiene false in
macro "ph_step" : tactic => `(tactic| first
  | assumption
  | infer_instance
  | exact RecInv.phSelS hr _ (by need_tac) (by first | assumption | exact Fct.out | rfl)
  | exact RecInv.phSelE hr _ (by need_tac) (by first | assumption | exact Fct.out | rfl)
  | exact RecInv.phSelCh hr _ (by need_tac) (by first | assumption | exact Fct.out | trivial)
  | exact RecInv.phSelEOF hr (by need_tac)
  | (refine Ph_of_Pe _ (by decide) _)
  | (refine Ph_bind_sv _ _ _ ?_; intro _)
  | (refine Ph_bind_u _ _ _ ?_)
  | (refine Ph_ite _ _ _ _ ?_ ?_)
  | (dsimp only)
  | split)
macro "ph_auto" : tactic => `(tactic| repeat' ph_step)

instance Pe_parseRCDataRawtext (t c) [hns : Fct (NsNone t)] [hp : Fct (notPN t)] [hh : Fct (notHead t)] :
    Pe (parseRCDataRawtext t c) :=
  ⟨fun st hi hn => parseRCDataRawtext_tr t c st hi hn hns.out hp.out hh.out⟩

/-- `InHeadPhase.startTagScript`, also from the select phases -/
theorem T_InHead_startTagScript (tok : Token) (st : PState) (hi : Inv st) (hn : NTp st.phase) (hns : NsNone tok)
    (hp : notPN tok) (hh : notHead tok) : Tr (InHead_startTagScript tok) st (fun _ st' => Inv st') := by
  unfold InHead_startTagScript
  simp only [Tr_bind]
  refine Tr_mono (insertElementTok_pushed tok _ st hi.str hns hp) ?_
  rintro x st1 ⟨e, hpu, he, hpe⟩
  unfold setTokState setPhase
  simp only [Tr_bind, Tr_modify, Tr_pure]
  exact Inv_toText_push (st2 := { st1 with tokSwitch := some .scriptData }) hi hn
    (ST_of_same (st := st1) rfl rfl rfl rfl rfl (Ext.refl _) hpu.str) ⟨hpu.keep.f, hpu.keep.cf, hpu.keep.ar⟩
    hpu.stack (by rw [he]) hpe (by rw [he]; exact hh) hpu.op hpu.hd hpu.fresh

instance Pe_InHead_startTagScript (tok) [hns : Fct (NsNone tok)] [hp : Fct (notPN tok)] [hh : Fct (notHead tok)] :
    Pe (InHead_startTagScript tok) :=
  ⟨fun st hi hn => T_InHead_startTagScript tok st hi hn hns.out hp.out hh.out⟩

/-! ### the root element and the pointers -/

theorem pairOK_html (x : El) (cfg : Cfg) : pairOK x (cfg.defaultNamespace, nHtml) = true := by
  unfold pairOK
  rw [prot_html]
  have h1 : (nHtml == nTr) = false := by decide
  have h2 : [nTbody, nThead, nTfoot].contains nHtml = false := by decide
  have h3 : (nHtml == nTd || nHtml == nTh) = false := by decide
  simp only [if_true, h1, h2, h3, Bool.false_eq_true, if_false]

theorem adjOK_snoc_html : ∀ (s : List El) (cfg : Cfg), adjOK s = true → adjOK (s ++ [(cfg.defaultNamespace, nHtml)]) = true
  | [], _, _ => rfl
  | [x], cfg, _ => by simp [adjOK, pairOK_html]
  | x :: y :: s, cfg, h => by
    simp only [List.cons_append, adjOK, Bool.and_eq_true] at h ⊢
    exact ⟨h.1, adjOK_snoc_html (y :: s) cfg h.2⟩

theorem adjJ_snoc_html (s : List El) (cfg : Cfg) (h : adjJ s = true) :
    adjJ (s ++ [(cfg.defaultNamespace, nHtml)]) = true := by
  unfold adjJ at h ⊢
  have hj : junk (cfg.defaultNamespace, nHtml) = false := by
    unfold junk; rw [isH_dns]; show (true && FMT.contains nHtml) = false; decide
  rw [nj_append, nj_cons_nj hj]
  simp only [nj, List.filter_nil]
  exact adjOK_snoc_html _ _ h

/-- pushing the `html` element -/
theorem ST_push_html {st : PState} (hs : ST st) {x : NodeId} (hx : IsEl st.arena x)
    (hk : elemK st.arena x = (dnsOf st, nHtml)) (hnin : x ∉ st.openElements) : ST (wo st (st.openElements ++ [x])) := by
  have hsk : stackK (wo st (st.openElements ++ [x])) = stackK st ++ [(st.cfg.defaultNamespace, nHtml)] := by
    rw [stackK_wo, List.map_append]; simp only [List.map_cons, List.map_nil, hk]; rfl
  refine ⟨?_, ?_, hs.hp, hs.fp, ?_, ?_, ?_, hs.afe⟩
  · intro i hi
    rcases List.mem_append.1 hi with h | h
    · exact hs.elem i h
    · simp only [List.mem_singleton] at h; subst h; exact hx
  · exact List.nodup_append.2 ⟨hs.nodup, by simp, by
      intro a ha b hb; simp only [List.mem_singleton] at hb; subst hb; intro hab; subst hab; exact hnin ha⟩
  · intro e he
    rw [hsk] at he
    rcases List.mem_append.1 he with h | h
    · exact hs.ns e h
    · simp only [List.mem_singleton] at h; subst h; intro _; rfl
  · rw [hsk]; exact adjJ_snoc_html _ _ hs.adj
  · intro e he
    rw [hsk] at he
    cases hst : stackK st with
    | nil => rw [hst] at he; simp at he; rw [← he]; rfl
    | cons y r => rw [hst] at he; refine hs.bot e ?_; rw [hst]; simpa using he

/-- `insertRoot` of the `html` element -/
instance KS_insertRoot_html (attrs : Attrs) : KS (insertRoot { name := lit "html", attrs := attrs }) :=
  ⟨fun st hs => by
    unfold insertRoot createElement
    simp only [Tr_bind, Tr_getCfg, Tr_allocNode]
    unfold openPush
    simp only [Tr_modify, Tr_bind, Tr_get]
    obtain ⟨hel, hk⟩ := IsEl_alloc st.arena st.cfg.defaultNamespace (lit "html") attrs
    have hext0 : Ext st.arena (st.arena.alloc (.element st.cfg.defaultNamespace (lit "html")) attrs).1 := Ext_alloc _ _ _
    have hsame : Same st { st with arena := (st.arena.alloc (.element st.cfg.defaultNamespace (lit "html")) attrs).1 } :=
      Same_arena st _ hext0
    have hs1 := ST_of_Same hsame hs
    have hsA := ST_push_html hs1 hel (by rw [hk]; rfl) (by
      intro hm; exact absurd (IsEl_lt (hs.elem _ hm)) (Nat.lt_irrefl _))
    refine Tr_mono ((SV_modifyArena _).out _) ?_
    intro _ st' h
    exact ⟨ST_of_Same h hsA, ⟨h.f, h.cf, hext0.trans h.ar⟩⟩⟩

/-- `self.tree.headPointer = self.tree.openElements[-1]` for an unprotected current node -/
theorem ST_setHead {st : PState} (hs : ST st) (x : NodeId) (hx : IsEl st.arena x)
    (hu : elemK st.arena x = (dnsOf st, nHead)) : ST { st with headPointer := some x } :=
  ⟨hs.elem, hs.nodup, fun i hi => by cases hi; exact ⟨hx, hu⟩, hs.fp, hs.ns, hs.adj, hs.bot, hs.afe⟩

theorem ST_setForm {st : PState} (hs : ST st) (x : Option NodeId)
    (hx : ∀ i, x = some i → IsEl st.arena i ∧ okU (dnsOf st) (elemK st.arena i)) : ST { st with formPointer := x } :=
  ⟨hs.elem, hs.nodup, hs.hp, hx, hs.ns, hs.adj, hs.bot, hs.afe⟩

/-! ### list facts -/

theorem erase_split {α : Type} [BEq α] [LawfulBEq α] : ∀ (l : List α) (x : α), x ∈ l →
    ∃ a b, l = a ++ x :: b ∧ l.erase x = a ++ b
  | [], x, h => by cases h
  | y :: l, x, h => by
    by_cases hxy : y = x
    · subst hxy
      exact ⟨[], l, rfl, by simp⟩
    · have hx : x ∈ l := by
        rcases List.mem_cons.1 h with h | h
        · exact absurd h.symm hxy
        · exact h
      obtain ⟨a, b, h1, h2⟩ := erase_split l x hx
      refine ⟨y :: a, b, by rw [h1]; rfl, ?_⟩
      rw [List.erase_cons_tail (by simpa using hxy), h2]; rfl

/-- a non-empty stack has a protected element: `html` at the bottom -/
theorem P_ne_nil {st : PState} (hs : ST st) (h : st.openElements ≠ []) : P (stackK st) ≠ [] := by
  cases hk : stackK st with
  | nil => unfold stackK at hk; exact absurd (List.map_eq_nil_iff.1 hk) h
  | cons e r =>
    have he := hs.bot e (by rw [hk]; rfl)
    have hp : prot e = true := by rw [he]; exact prot_html _
    simp [P, List.filter_cons, hp]

theorem Tr_pyAssert (c : Bool) (site : String) (st : PState) (Q : Unit → PState → Prop) :
    Tr (pyAssert c site) st Q ↔ (c = true → Q () st) := by
  unfold pyAssert
  cases c
  · simp only [Bool.false_eq_true, if_false, Tr_throw, false_implies, iff_true]; exact NF_assertFail _
  · simp only [if_true, Tr_pure, true_implies]

/-! ### `Tr`-mode helpers -/

theorem Tr_of_Pu {α : Type} (m : M α) [h : Pu m] (st : PState) (hi : Inv st) : Tr m st (fun _ st' => Inv st') :=
  h.out st hi
theorem Tr_of_Pk {α : Type} (m : M α) (h : Pk m) (st : PState) (hi : Inv st) (hn : NT st) :
    Tr m st (fun _ st' => Inv st') := h.out st hi hn

/-- `Tr m st Inv`, then register-independent bookkeeping -/
theorem Tr_then_Pu {α β : Type} {m : M α} {st : PState} (f : α → M β) [hf : ∀ a, Pu (f a)]
    (h : Tr m st (fun _ st' => Inv st')) : Tr (m >>= f) st (fun _ st' => Inv st') :=
  (Tr_bind ..).2 (Tr_mono h (fun a st' hi => (hf a).out st' hi))

/-- stepping over a computation that keeps everything -/
theorem Tr_SV_keep {α : Type} (m : M α) [h : SV m] (st : PState) (hi : Inv st) (Q : α → PState → Prop)
    (hq : ∀ a st', Inv st' → Same st st' → Q a st') : Tr m st Q :=
  Tr_mono (h.out st) (fun a st' e => hq a st' (Inv_of_Same e hi) e)

end H5.Props.C03c
