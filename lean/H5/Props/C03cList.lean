/-
  C03c — the stack of open elements as a list of (namespace, name) pairs: the pure notions the invariant is made of.

  * `prot e`   : `e` is an HTML element named `html`, `table`, `td`, `th`, `tr`, `tbody`, `thead` or `tfoot` — the elements
                 that the table-scope questions of the stuck states are about ("protected": handlers of the body never
                 pop or push them);
  * `P s`      : the names of the protected elements of the stack `s` (bottom first); "X in table scope" for a protected
                 name X is a function of `P s` (`tsc`);
  * `adjOK s`  : a `tr` sits directly on a `tbody`/`thead`/`tfoot` (or on `html`), those directly on a `table` (or `html`),
                 a cell directly on a `tr` (or `html`);
  * `CELL`, `ROW`, `SEL` : the clauses for the phases `inCell`, `inRow`, `inSelect(InTable)`.
-/
import H5.Props.C03cArena
set_option linter.unusedSimpArgs false
set_option linter.unusedVariables false
namespace H5.Props.C03c
open H5 H5.Model H5.Model.TB H5.Model.Dom

/-- an open element: (raw namespace, name) -/
abbrev El := Option Str × Str

def htmlNs : Str := lit "http://www.w3.org/1999/xhtml"

/-- `node.nameTuple` -/
def tup (e : El) : Str × Str := (e.1.getD htmlNs, e.2)

/-- an HTML element (by its name tuple) -/
def isH (e : El) : Bool := e.1.getD htmlNs == htmlNs

def nHtml : Str := lit "html"
def nTable : Str := lit "table"
def nTd : Str := lit "td"
def nTh : Str := lit "th"
def nTr : Str := lit "tr"
def nTbody : Str := lit "tbody"
def nThead : Str := lit "thead"
def nTfoot : Str := lit "tfoot"
def nSelect : Str := lit "select"
def nOption : Str := lit "option"
def nOptgroup : Str := lit "optgroup"
def nHead : Str := lit "head"

/-- the protected names -/
def PN : List Str := [nHtml, nTable, nTd, nTh, nTr, nTbody, nThead, nTfoot]

def prot (e : El) : Bool := isH e && PN.contains e.2

/-- the names of the protected elements, bottom first -/
def P (s : List El) : List Str := (s.filter prot).map (·.2)

/-- table scope on the protected names, scanning from the current node (the list is reversed: head = current node) -/
def tscRev (targets : List Str) : List Str → Bool
  | [] => false
  | n :: r => if targets.contains n then true else if n == nHtml || n == nTable then false else tscRev targets r

/-- one of `targets` (protected names) is in table scope -/
def tsc (targets : List Str) (p : List Str) : Bool := tscRev targets p.reverse

def CELL (p : List Str) : Bool := tsc [nTd, nTh] p || !tsc [nTable, nTbody, nTfoot, nThead, nTr] p
def ROW (p : List Str) : Bool := tsc [nTr] p || !tsc [nTbody, nThead, nTfoot] p

/-- the element below a protected table part -/
def pairOK (below e : El) : Bool :=
  if prot e then
    if e.2 == nTr then isH below && [nTbody, nThead, nTfoot, nHtml].contains below.2
    else if [nTbody, nThead, nTfoot].contains e.2 then isH below && [nTable, nHtml].contains below.2
    else if e.2 == nTd || e.2 == nTh then isH below && [nTr, nHtml].contains below.2
    else true
  else true

def adjOK : List El → Bool
  | p :: e :: rest => pairOK p e && adjOK (e :: rest)
  | _ => true

/-- `option` / `optgroup` HTML elements (what `elementInScope(…, "select")` skips) -/
def isOpt (e : El) : Bool := tup e == (htmlNs, nOption) || tup e == (htmlNs, nOptgroup)

/-- `select` is in select scope (the list is reversed: head = current node), and the elements down to it are in the
default namespace `dns` (so that `mainLoop` never selects the foreign-content phase there) -/
def selRev (dns : Option Str) : List El → Bool
  | [] => false
  | e :: r => if tup e == (htmlNs, nSelect) then e.1 == dns
              else if isOpt e then e.1 == dns && selRev dns r else false

def SEL (dns : Option Str) (s : List El) : Bool := selRev dns s.reverse

/-- names of the formatting elements (the only elements in the list of active formatting elements) -/
def FMT : List Str :=
  [lit "a", lit "b", lit "big", lit "code", lit "em", lit "font", lit "i", lit "nobr", lit "s", lit "small",
   lit "strike", lit "strong", lit "tt", lit "u"]

/-- an HTML formatting element: the adoption agency may insert clones of those anywhere above its furthest block,
also between a table part and its parent -/
def junk (e : El) : Bool := isH e && FMT.contains e.2

/-- the stack without the formatting elements -/
def nj (s : List El) : List El := s.filter (fun e => !junk e)

/-- table parts sit on their parents, formatting elements apart -/
def adjJ (s : List El) : Bool := adjOK (nj s)

/-! ### basic facts -/

theorem P_append (a b : List El) : P (a ++ b) = P a ++ P b := by simp [P]

theorem P_unprot {b : List El} (h : ∀ e ∈ b, prot e = false) : P b = [] := by
  unfold P
  rw [List.filter_eq_nil_iff.2 (fun e he => by simp [h e he])]
  rfl

/-- pushing / popping unprotected elements does not change the protected names -/
theorem P_append_unprot (a b : List El) (h : ∀ e ∈ b, prot e = false) : P (a ++ b) = P a := by
  rw [P_append, P_unprot h, List.append_nil]

theorem adjOK_append_left : ∀ (a b : List El), adjOK (a ++ b) = true → adjOK a = true
  | [], _, _ => rfl
  | [x], _, _ => rfl
  | x :: y :: a, b, h => by
    simp only [List.cons_append, adjOK, Bool.and_eq_true] at h ⊢
    exact ⟨h.1, adjOK_append_left (y :: a) b h.2⟩

theorem adjOK_take (s : List El) (n : Nat) (h : adjOK s = true) : adjOK (s.take n) = true := by
  have := List.take_append_drop n s
  rw [← this] at h
  exact adjOK_append_left _ _ h

/-- pushing an unprotected element keeps `adjOK` -/
theorem adjOK_push_unprot : ∀ (s : List El) (e : El), adjOK s = true → prot e = false → adjOK (s ++ [e]) = true
  | [], e, _, _ => rfl
  | [x], e, _, he => by simp [adjOK, pairOK, he]
  | x :: y :: s, e, h, he => by
    simp only [List.cons_append, adjOK, Bool.and_eq_true] at h ⊢
    exact ⟨h.1, adjOK_push_unprot (y :: s) e h.2 he⟩

/-! ### the reversed view (head = current node) -/

def adjRev : List El → Bool
  | e :: p :: rest => pairOK p e && adjRev (p :: rest)
  | _ => true

theorem adjOK_snoc2 : ∀ (s : List El) (a b : El), adjOK (s ++ [a, b]) = (adjOK (s ++ [a]) && pairOK a b)
  | [], a, b => by simp [adjOK]
  | [x], a, b => by simp [adjOK, Bool.and_assoc]
  | x :: y :: s, a, b => by
    have ih := adjOK_snoc2 (y :: s) a b
    simp only [List.cons_append, adjOK] at ih ⊢
    rw [ih, Bool.and_assoc]

theorem adjOK_eq_adjRev_aux : ∀ (r : List El) (s : List El), s = r.reverse → adjOK s = adjRev r
  | [], s, h => by subst h; rfl
  | [b], s, h => by subst h; rfl
  | b :: a :: r, s, h => by
    have ih := adjOK_eq_adjRev_aux (a :: r) _ rfl
    subst h
    simp only [List.reverse_cons, List.append_assoc, List.singleton_append] at ih ⊢
    rw [adjOK_snoc2, ih]
    simp [adjRev, Bool.and_comm]

theorem adjOK_eq_adjRev (s : List El) : adjOK s = adjRev s.reverse :=
  adjOK_eq_adjRev_aux s.reverse s (by simp)

theorem adjRev_tail {e : El} {r : List El} (h : adjRev (e :: r) = true) : adjRev r = true := by
  cases r with
  | nil => rfl
  | cons p rest => simp only [adjRev, Bool.and_eq_true] at h; exact h.2

/-- `elementInScope` on the reversed stack: `none` = the loop runs off the stack (`assert False`) -/
def scopeRev (tgt : Str × Str) (elems : List (Str × Str)) (invert : Bool) : List El → Option Bool
  | [] => none
  | e :: r => if tup e == tgt then some true
              else if (invert != elems.contains (tup e)) then some false else scopeRev tgt elems invert r

/-- from the current node down to the first element satisfying `p`, everything is unprotected -/
def safeRev (p : El → Bool) : List El → Bool
  | [] => false
  | e :: r => !prot e && (p e || safeRev p r)

def mHtml : Str × Str := (htmlNs, nHtml)
def mTable : Str × Str := (htmlNs, nTable)
def mTd : Str × Str := (htmlNs, nTd)
def mTh : Str × Str := (htmlNs, nTh)

theorem isH_iff (e : El) : isH e = true ↔ (tup e).1 = htmlNs := by simp [isH, tup]

theorem tup_eq {e : El} {n : Str} (h : tup e = (htmlNs, n)) : isH e = true ∧ e.2 = n := by
  simp only [tup, Prod.mk.injEq] at h
  exact ⟨by simp [isH, h.1], h.2⟩

theorem tup_of {e : El} (h : isH e = true) : tup e = (htmlNs, e.2) := by
  simp only [isH, beq_iff_eq] at h
  simp [tup, h]

/-- a protected element is `html`, `table`, `td`, `th` (scope markers of every non-inverted scope used) or one of
`tr`, `tbody`, `thead`, `tfoot` -/
theorem prot_cases {e : El} (h : prot e = true) :
    (tup e = mHtml ∨ tup e = mTable ∨ tup e = mTd ∨ tup e = mTh) ∨
    (isH e = true ∧ (e.2 = nTr ∨ e.2 = nTbody ∨ e.2 = nThead ∨ e.2 = nTfoot)) := by
  simp only [prot, Bool.and_eq_true] at h
  obtain ⟨h1, h2⟩ := h
  have ht := tup_of h1
  simp only [PN, List.contains_cons, List.contains_nil, Bool.or_false, Bool.or_eq_true, beq_iff_eq] at h2
  rcases h2 with h2 | h2 | h2 | h2 | h2 | h2 | h2 | h2
  · left; left; rw [ht, h2]; rfl
  · left; right; left; rw [ht, h2]; rfl
  · left; right; right; left; rw [ht, h2]; rfl
  · left; right; right; right; rw [ht, h2]; rfl
  · right; exact ⟨h1, Or.inl h2⟩
  · right; exact ⟨h1, Or.inr (Or.inl h2)⟩
  · right; exact ⟨h1, Or.inr (Or.inr (Or.inl h2))⟩
  · right; exact ⟨h1, Or.inr (Or.inr (Or.inr h2))⟩

theorem FMT_notPN : ∀ nm, FMT.contains nm = true → PN.contains nm = false := by
  have h : FMT.all (fun n => !PN.contains n) = true := by decide
  intro nm hn
  have := List.all_eq_true.1 h nm (by simpa using hn)
  simpa using this

theorem junk_unprot {e : El} (h : junk e = true) : prot e = false := by
  simp only [junk, Bool.and_eq_true] at h
  unfold prot; rw [FMT_notPN _ h.2]; simp

theorem nj_append (a b : List El) : nj (a ++ b) = nj a ++ nj b := by simp [nj]
theorem nj_reverse (a : List El) : nj a.reverse = (nj a).reverse := by simp [nj]
theorem nj_cons_junk {e : El} (h : junk e = true) (r : List El) : nj (e :: r) = nj r := by simp [nj, h]
theorem nj_cons_nj {e : El} (h : junk e = false) (r : List El) : nj (e :: r) = e :: nj r := by simp [nj, h]

theorem adjJ_append_left (a b : List El) (h : adjJ (a ++ b) = true) : adjJ a = true := by
  unfold adjJ at h ⊢; rw [nj_append] at h; exact adjOK_append_left _ _ h

theorem adjJ_push_unprot (s : List El) (e : El) (h : adjJ s = true) (he : prot e = false) :
    adjJ (s ++ [e]) = true := by
  unfold adjJ at h ⊢
  rw [nj_append]
  cases hj : junk e with
  | true => rw [nj_cons_junk hj]; simpa [nj] using h
  | false => rw [nj_cons_nj hj]; simp only [nj, List.filter_nil]; exact adjOK_push_unprot _ _ h he

/-- inserting or removing a formatting element does not matter -/
theorem adjJ_junk (a : List El) (e : El) (b : List El) (he : junk e = true) :
    adjJ (a ++ e :: b) = adjJ (a ++ b) := by
  unfold adjJ; rw [nj_append, nj_append, nj_cons_junk he]

/-- what the scan of `elementInScope` for a name that is neither protected nor a formatting element does on the
formatting elements: it passes them, or stops with `false` -/
theorem scopeRev_junk (nm : Str) (elems : List (Str × Str)) (hf : FMT.contains nm = false) {e : El}
    (he : junk e = true) (r : List El) (h : scopeRev (htmlNs, nm) elems false (e :: r) = some true) :
    scopeRev (htmlNs, nm) elems false r = some true := by
  simp only [scopeRev] at h
  have hne : (tup e == (htmlNs, nm)) = false := by
    cases hc : (tup e == (htmlNs, nm)) with
    | false => rfl
    | true =>
      have := (tup_eq (beq_iff_eq.1 hc)).2
      simp only [junk, Bool.and_eq_true] at he
      rw [this, hf] at he; exact absurd he.2 (by decide)
  rw [hne] at h
  simp only [Bool.false_eq_true, if_false] at h
  split at h
  · cases h
  · exact h

/-- a marker (`html`, `table`) first among the non-formatting elements blocks the scope -/
theorem scope_blocked_marker (nm : Str) (elems : List (Str × Str)) (hnm : PN.contains nm = false)
    (hf : FMT.contains nm = false) (g : El) (hg : isH g = true)
    (hgm : elems.contains (htmlNs, g.2) = true) (hgp : PN.contains g.2 = true) :
    ∀ (r : List El) (rest : List El), nj r = g :: rest → scopeRev (htmlNs, nm) elems false r ≠ some true
  | [], _, h, _ => by simp [nj] at h
  | e :: r, rest, h, hs => by
    cases hj : junk e with
    | true =>
      rw [nj_cons_junk hj] at h
      exact scope_blocked_marker nm elems hnm hf g hg hgm hgp r rest h (scopeRev_junk nm elems hf hj r hs)
    | false =>
      rw [nj_cons_nj hj] at h
      simp only [List.cons.injEq] at h
      obtain ⟨h1, _⟩ := h
      subst h1
      simp only [scopeRev] at hs
      have hne : (tup e == (htmlNs, nm)) = false := by
        rw [tup_of hg]
        cases hc : ((htmlNs, e.2) == (htmlNs, nm)) with
        | false => rfl
        | true =>
          have := beq_iff_eq.1 hc
          simp only [Prod.mk.injEq, true_and] at this
          rw [this, hnm] at hgp; cases hgp
      rw [hne] at hs
      simp only [Bool.false_eq_true, if_false] at hs
      rw [tup_of hg, hgm] at hs
      simp at hs

/-- a row group first among the non-formatting elements blocks the scope: it sits on `table` / `html` -/
theorem scope_blocked_group (nm : Str) (elems : List (Str × Str)) (hm : elems.contains mHtml = true ∧
      elems.contains mTable = true ∧ elems.contains mTd = true ∧ elems.contains mTh = true)
    (hnm : PN.contains nm = false) (hf : FMT.contains nm = false) (g : El) (hg : isH g = true)
    (hgn : [nTbody, nThead, nTfoot].contains g.2 = true) :
    ∀ (r : List El) (rest : List El), nj r = g :: rest → adjRev (g :: rest) = true →
      scopeRev (htmlNs, nm) elems false r ≠ some true
  | [], _, h, _, _ => by simp [nj] at h
  | e :: r, rest, h, ha, hs => by
    cases hj : junk e with
    | true =>
      rw [nj_cons_junk hj] at h
      exact scope_blocked_group nm elems hm hnm hf g hg hgn r rest h ha (scopeRev_junk nm elems hf hj r hs)
    | false =>
      rw [nj_cons_nj hj] at h
      simp only [List.cons.injEq] at h
      obtain ⟨h1, h2⟩ := h
      subst h1
      have hPN : PN.contains e.2 = true := by
        simp only [List.contains_cons, List.contains_nil, Bool.or_false, Bool.or_eq_true, beq_iff_eq] at hgn
        rcases hgn with h' | h' | h' <;> rw [h'] <;> decide
      have hprot : prot e = true := by unfold prot; rw [hg, hPN]; rfl
      simp only [scopeRev] at hs
      have hne : (tup e == (htmlNs, nm)) = false := by
        rw [tup_of hg]
        cases hc : ((htmlNs, e.2) == (htmlNs, nm)) with
        | false => rfl
        | true =>
          have := beq_iff_eq.1 hc
          simp only [Prod.mk.injEq, true_and] at this
          rw [this, hnm] at hPN; cases hPN
      rw [hne] at hs
      simp only [Bool.false_eq_true, if_false] at hs
      split at hs
      · cases hs
      · -- continue below the group: the next non-formatting element is `table` or `html`
        cases rest with
        | nil =>
          -- nothing but formatting elements below: the scan runs off the stack
          have : ∀ (l : List El), nj l = [] → scopeRev (htmlNs, nm) elems false l ≠ some true := by
            intro l
            induction l with
            | nil => intro _ h; simp [scopeRev] at h
            | cons x l ih =>
              intro hl h
              cases hx : junk x with
              | true => rw [nj_cons_junk hx] at hl; exact ih hl (scopeRev_junk nm elems hf hx l h)
              | false => rw [nj_cons_nj hx] at hl; cases hl
          exact this r h2 hs
        | cons t rest' =>
          simp only [adjRev, Bool.and_eq_true] at ha
          have hpair := ha.1
          have hne' : (e.2 == nTr) = false := by
            simp only [List.contains_cons, List.contains_nil, Bool.or_false, Bool.or_eq_true, beq_iff_eq] at hgn
            rcases hgn with h' | h' | h' <;> rw [h'] <;> decide
          simp only [pairOK, hprot, if_true, hne', Bool.false_eq_true, if_false, hgn, Bool.and_eq_true,
            List.contains_cons, List.contains_nil, Bool.or_false, Bool.or_eq_true, beq_iff_eq] at hpair
          obtain ⟨ht, htn⟩ := hpair
          refine scope_blocked_marker nm elems hnm hf t ht ?_ ?_ r rest' h2 hs
          · rcases htn with h' | h' <;> rw [h']
            · exact hm.2.1
            · exact hm.1
          · rcases htn with h' | h' <;> rw [h'] <;> decide

/-- **pop safety**: if a name that is neither protected nor a formatting element is in a scope whose markers include
`html`, `table`, `td`, `th`, then everything from the current node down to the element found is unprotected -/
theorem scope_safe (nm : Str) (elems : List (Str × Str)) (hm : elems.contains mHtml = true ∧
      elems.contains mTable = true ∧ elems.contains mTd = true ∧ elems.contains mTh = true)
    (hnm : PN.contains nm = false) (hf : FMT.contains nm = false) :
    ∀ (r : List El), adjRev (nj r) = true → scopeRev (htmlNs, nm) elems false r = some true →
      safeRev (fun e => tup e == (htmlNs, nm)) r = true
  | [], _, h => by simp [scopeRev] at h
  | e :: r, ha, h => by
    have h0 := h
    simp only [scopeRev] at h
    simp only [safeRev, Bool.and_eq_true, Bool.not_eq_true', Bool.or_eq_true]
    by_cases ht : (tup e == (htmlNs, nm)) = true
    · refine ⟨?_, Or.inl ht⟩
      obtain ⟨h1, h2⟩ := tup_eq (beq_iff_eq.1 ht)
      unfold prot; rw [h2, hnm]; simp
    · rw [if_neg ht] at h
      have hmk : elems.contains (tup e) = false := by
        cases hc : elems.contains (tup e) with
        | false => rfl
        | true => rw [hc] at h; simp at h
      rw [hmk] at h
      simp only [Bool.false_bne, Bool.false_eq_true, if_false] at h
      cases hj : junk e with
      | true =>
        rw [nj_cons_junk hj] at ha
        exact ⟨junk_unprot hj, Or.inr (scope_safe nm elems hm hnm hf r ha h)⟩
      | false =>
        rw [nj_cons_nj hj] at ha
        have hpe : prot e = false := by
          cases hp : prot e with
          | false => rfl
          | true =>
            exfalso
            rcases prot_cases hp with hmark | ⟨hH, hpart⟩
            · rcases hmark with h' | h' | h' | h' <;> rw [h'] at hmk
              · rw [hm.1] at hmk; cases hmk
              · rw [hm.2.1] at hmk; cases hmk
              · rw [hm.2.2.1] at hmk; cases hmk
              · rw [hm.2.2.2] at hmk; cases hmk
            · rcases hpart with hn | hn
              · -- `tr`: the next non-formatting element is a row group or `html`
                cases hrest : nj r with
                | nil =>
                  have : ∀ (l : List El), nj l = [] → scopeRev (htmlNs, nm) elems false l ≠ some true := by
                    intro l
                    induction l with
                    | nil => intro _ h; simp [scopeRev] at h
                    | cons x l ih =>
                      intro hl h
                      cases hx : junk x with
                      | true => rw [nj_cons_junk hx] at hl; exact ih hl (scopeRev_junk nm elems hf hx l h)
                      | false => rw [nj_cons_nj hx] at hl; cases hl
                  exact this r hrest h
                | cons g rest =>
                  rw [hrest] at ha
                  simp only [adjRev, Bool.and_eq_true] at ha
                  have hpair := ha.1
                  simp only [pairOK, hp, if_true, hn, beq_self_eq_true, Bool.and_eq_true, List.contains_cons,
                    List.contains_nil, Bool.or_false, Bool.or_eq_true, beq_iff_eq] at hpair
                  obtain ⟨hg, hgn⟩ := hpair
                  rcases hgn with h' | h' | h' | h'
                  · exact scope_blocked_group nm elems hm hnm hf g hg (by rw [h']; decide) r rest hrest ha.2 h
                  · exact scope_blocked_group nm elems hm hnm hf g hg (by rw [h']; decide) r rest hrest ha.2 h
                  · exact scope_blocked_group nm elems hm hnm hf g hg (by rw [h']; decide) r rest hrest ha.2 h
                  · exact scope_blocked_marker nm elems hnm hf g hg (by rw [h']; exact hm.1) (by rw [h']; decide)
                      r rest hrest h
              · -- a row group
                have hgn : [nTbody, nThead, nTfoot].contains e.2 = true := by
                  rcases hn with h' | h' | h' <;> rw [h'] <;> decide
                exact scope_blocked_group nm elems hm hnm hf e hH hgn (e :: r) (nj r) (nj_cons_nj hj r) ha h0
        exact ⟨hpe, Or.inr (scope_safe nm elems hm hnm hf r (adjRev_tail ha) h)⟩

/-- removing an unprotected element keeps `adjOK` and the protected names -/
theorem adjOK_remove : ∀ (a : List El) (e : El) (b : List El), adjOK (a ++ e :: b) = true → prot e = false →
    adjOK (a ++ b) = true
  | [], e, b, h, _ => by
    cases b with
    | nil => rfl
    | cons x b => simp only [List.nil_append, adjOK, Bool.and_eq_true] at h; exact h.2
  | [x], e, [], _, _ => rfl
  | [x], e, y :: b, h, he => by
    simp only [List.cons_append, List.nil_append, adjOK, Bool.and_eq_true] at h ⊢
    obtain ⟨_, h2, h3⟩ := h
    refine ⟨?_, h3⟩
    -- `y` sat on the unprotected `e`: it is not a table part
    simp only [pairOK] at h2 ⊢
    by_cases hy : prot y = true
    · rw [if_pos hy] at h2 ⊢
      have hHe : isH e = true → PN.contains e.2 = false := by
        intro hh; simpa [prot, hh] using he
      by_cases h1 : (y.2 == nTr) = true
      · rw [if_pos h1] at h2
        simp only [Bool.and_eq_true] at h2
        have := hHe h2.1
        exfalso
        have h22 := h2.2
        simp only [List.contains_cons, List.contains_nil, Bool.or_false, Bool.or_eq_true, beq_iff_eq] at h22
        rcases h22 with h' | h' | h' | h' <;> rw [h'] at this <;> revert this <;> decide
      · rw [if_neg h1] at h2 ⊢
        by_cases h3' : [nTbody, nThead, nTfoot].contains y.2 = true
        · rw [if_pos h3'] at h2
          simp only [Bool.and_eq_true] at h2
          have := hHe h2.1
          exfalso
          have h22 := h2.2
          simp only [List.contains_cons, List.contains_nil, Bool.or_false, Bool.or_eq_true, beq_iff_eq] at h22
          rcases h22 with h' | h' <;> rw [h'] at this <;> revert this <;> decide
        · rw [if_neg h3'] at h2 ⊢
          by_cases h4 : (y.2 == nTd || y.2 == nTh) = true
          · rw [if_pos h4] at h2
            simp only [Bool.and_eq_true] at h2
            have := hHe h2.1
            exfalso
            have h22 := h2.2
            simp only [List.contains_cons, List.contains_nil, Bool.or_false, Bool.or_eq_true, beq_iff_eq] at h22
            rcases h22 with h' | h' <;> rw [h'] at this <;> revert this <;> decide
          · rw [if_neg h4]
    · simp [hy]
  | x :: y :: a, e, b, h, he => by
    simp only [List.cons_append, adjOK, Bool.and_eq_true] at h ⊢
    exact ⟨h.1, adjOK_remove (y :: a) e b h.2 he⟩

theorem P_remove (a : List El) (e : El) (b : List El) (he : prot e = false) : P (a ++ e :: b) = P (a ++ b) := by
  simp [P, List.filter_cons, he]

/-- inserting an unprotected element below an unprotected one (or on top) keeps `adjOK` -/
theorem adjOK_insert : ∀ (a : List El) (e : El) (b : List El), adjOK (a ++ b) = true → prot e = false →
    (∀ y, b.head? = some y → prot y = false) → adjOK (a ++ e :: b) = true
  | [], e, [], _, _, _ => rfl
  | [], e, y :: b, h, he, hb => by
    simp only [List.nil_append, adjOK, Bool.and_eq_true] at h ⊢
    exact ⟨by simp [pairOK, hb y rfl], h⟩
  | [x], e, [], _, he, _ => by simp [adjOK, pairOK, he]
  | [x], e, y :: b, h, he, hb => by
    simp only [List.cons_append, List.nil_append, adjOK, Bool.and_eq_true] at h ⊢
    exact ⟨by simp [pairOK, he], by simp [pairOK, hb y rfl], h.2⟩
  | x :: y :: a, e, b, h, he, hb => by
    simp only [List.cons_append, adjOK, Bool.and_eq_true] at h ⊢
    exact ⟨h.1, adjOK_insert (y :: a) e b h.2 he hb⟩

/-! ### table scope for the cells -/

/-- the scan for `td` / `th` in table scope -/
abbrev TS (nm : Str) (r : List El) : Option Bool := scopeRev (htmlNs, nm) [mHtml, mTable] false r

theorem TS_junk {nm : Str} (hf : FMT.contains nm = false) {e : El} (he : junk e = true) {r : List El}
    (h : TS nm (e :: r) = some true) : TS nm r = some true := scopeRev_junk nm _ hf he r h

theorem TS_runoff {nm : Str} (hf : FMT.contains nm = false) : ∀ (l : List El), nj l = [] → TS nm l ≠ some true
  | [], _, h => by simp [TS, scopeRev] at h
  | x :: l, hl, h => by
    cases hx : junk x with
    | true => rw [nj_cons_junk hx] at hl; exact TS_runoff hf l hl (TS_junk hf hx h)
    | false => rw [nj_cons_nj hx] at hl; cases hl

/-- one step of the scan over a non-formatting HTML element that is not the target -/
theorem TS_step {nm : Str} {g : El} (hg : isH g = true) (hne : g.2 ≠ nm) {r : List El} (h : TS nm (g :: r) = some true) :
    [mHtml, mTable].contains (htmlNs, g.2) = false ∧ TS nm r = some true := by
  simp only [TS, scopeRev] at h
  have hne' : (tup g == (htmlNs, nm)) = false := by
    rw [tup_of hg]
    cases hc : ((htmlNs, g.2) == (htmlNs, nm)) with
    | false => rfl
    | true =>
      have := beq_iff_eq.1 hc
      simp only [Prod.mk.injEq, true_and] at this
      exact absurd this hne
  rw [hne', tup_of hg] at h
  simp only [Bool.false_eq_true, if_false] at h
  cases hm : [mHtml, mTable].contains (htmlNs, g.2) with
  | true => rw [hm] at h; simp at h
  | false => rw [hm] at h; simp only [Bool.false_bne, Bool.false_eq_true, if_false] at h; exact ⟨rfl, h⟩

theorem TS_blocked_marker {nm : Str} (hf : FMT.contains nm = false) (g : El) (hg : isH g = true)
    (hgn : g.2 = nHtml ∨ g.2 = nTable) (hne : g.2 ≠ nm) :
    ∀ (r rest : List El), nj r = g :: rest → TS nm r ≠ some true
  | [], _, h, _ => by simp [nj] at h
  | e :: r, rest, h, hs => by
    cases hj : junk e with
    | true => rw [nj_cons_junk hj] at h; exact TS_blocked_marker hf g hg hgn hne r rest h (TS_junk hf hj hs)
    | false =>
      rw [nj_cons_nj hj] at h
      simp only [List.cons.injEq] at h
      obtain ⟨h1, _⟩ := h
      subst h1
      have := (TS_step hg hne hs).1
      rcases hgn with h' | h' <;> rw [h'] at this <;> revert this <;> decide

theorem TS_blocked_group {nm : Str} (hf : FMT.contains nm = false) (hnm : nm = nTd ∨ nm = nTh) (g : El)
    (hg : isH g = true) (hgn : [nTbody, nThead, nTfoot].contains g.2 = true) :
    ∀ (r rest : List El), nj r = g :: rest → adjRev (g :: rest) = true → TS nm r ≠ some true
  | [], _, h, _, _ => by simp [nj] at h
  | e :: r, rest, h, ha, hs => by
    cases hj : junk e with
    | true => rw [nj_cons_junk hj] at h; exact TS_blocked_group hf hnm g hg hgn r rest h ha (TS_junk hf hj hs)
    | false =>
      rw [nj_cons_nj hj] at h
      simp only [List.cons.injEq] at h
      obtain ⟨h1, h2⟩ := h
      subst h1
      have hne : e.2 ≠ nm := by
        intro he; rw [he] at hgn
        rcases hnm with h' | h' <;> rw [h'] at hgn <;> revert hgn <;> decide
      have hs' := (TS_step hg hne hs).2
      have hPN : PN.contains e.2 = true := by
        simp only [List.contains_cons, List.contains_nil, Bool.or_false, Bool.or_eq_true, beq_iff_eq] at hgn
        rcases hgn with h' | h' | h' <;> rw [h'] <;> decide
      have hprot : prot e = true := by unfold prot; rw [hg, hPN]; rfl
      cases rest with
      | nil => exact TS_runoff hf r h2 hs'
      | cons t rest' =>
        simp only [adjRev, Bool.and_eq_true] at ha
        have hpair := ha.1
        have hne' : (e.2 == nTr) = false := by
          simp only [List.contains_cons, List.contains_nil, Bool.or_false, Bool.or_eq_true, beq_iff_eq] at hgn
          rcases hgn with h' | h' | h' <;> rw [h'] <;> decide
        simp only [pairOK, hprot, if_true, hne', Bool.false_eq_true, if_false, hgn, Bool.and_eq_true,
          List.contains_cons, List.contains_nil, Bool.or_false, Bool.or_eq_true, beq_iff_eq] at hpair
        obtain ⟨ht, htn⟩ := hpair
        refine TS_blocked_marker hf t ht (by rcases htn with h' | h'; exact Or.inr h'; exact Or.inl h') ?_ r rest' h2 hs'
        intro he
        rcases htn with h' | h' <;> rw [h'] at he <;> rcases hnm with h'' | h'' <;> rw [h''] at he <;> revert he <;> decide

theorem TS_blocked_tr {nm : Str} (hf : FMT.contains nm = false) (hnm : nm = nTd ∨ nm = nTh) (g : El)
    (hg : isH g = true) (hgn : g.2 = nTr) :
    ∀ (r rest : List El), nj r = g :: rest → adjRev (g :: rest) = true → TS nm r ≠ some true
  | [], _, h, _, _ => by simp [nj] at h
  | e :: r, rest, h, ha, hs => by
    cases hj : junk e with
    | true => rw [nj_cons_junk hj] at h; exact TS_blocked_tr hf hnm g hg hgn r rest h ha (TS_junk hf hj hs)
    | false =>
      rw [nj_cons_nj hj] at h
      simp only [List.cons.injEq] at h
      obtain ⟨h1, h2⟩ := h
      subst h1
      have hne : e.2 ≠ nm := by
        intro he; rw [hgn] at he
        rcases hnm with h' | h' <;> rw [h'] at he <;> revert he <;> decide
      have hs' := (TS_step hg hne hs).2
      have hprot : prot e = true := by unfold prot; rw [hg, hgn]; rfl
      cases rest with
      | nil => exact TS_runoff hf r h2 hs'
      | cons t rest' =>
        simp only [adjRev, Bool.and_eq_true] at ha
        have hpair := ha.1
        simp only [pairOK, hprot, if_true, hgn, beq_self_eq_true, Bool.and_eq_true, List.contains_cons,
          List.contains_nil, Bool.or_false, Bool.or_eq_true, beq_iff_eq] at hpair
        obtain ⟨ht, htn⟩ := hpair
        rcases htn with h' | h' | h' | h'
        · exact TS_blocked_group hf hnm t ht (by rw [h']; decide) r rest' h2 ha.2 hs'
        · exact TS_blocked_group hf hnm t ht (by rw [h']; decide) r rest' h2 ha.2 hs'
        · exact TS_blocked_group hf hnm t ht (by rw [h']; decide) r rest' h2 ha.2 hs'
        · refine TS_blocked_marker hf t ht (Or.inl h') ?_ r rest' h2 hs'
          intro he; rw [h'] at he
          rcases hnm with h'' | h'' <;> rw [h''] at he <;> revert he <;> decide

/-- a cell of the other kind above the target: it sits on `tr` / `html`, which block the scan -/
theorem TS_blocked_cell_aux {nm : Str} (hf : FMT.contains nm = false) (hnm : nm = nTd ∨ nm = nTh) (e : El)
    (hH : isH e = true) (hen : e.2 = nTd ∨ e.2 = nTh) (hne : e.2 ≠ nm) (r : List El)
    (ha : adjRev (nj (e :: r)) = true) (hej : junk e = false) (hs : TS nm r = some true) : False := by
  rw [nj_cons_nj hej] at ha
  have hPN : PN.contains e.2 = true := by rcases hen with h' | h' <;> rw [h'] <;> decide
  have hprot : prot e = true := by unfold prot; rw [hH, hPN]; rfl
  cases hnr : nj r with
  | nil => exact TS_runoff hf r hnr hs
  | cons g tl =>
    rw [hnr] at ha
    simp only [adjRev, Bool.and_eq_true] at ha
    have hpair := ha.1
    have h1 : (e.2 == nTr) = false := by rcases hen with h' | h' <;> rw [h'] <;> decide
    have h2 : [nTbody, nThead, nTfoot].contains e.2 = false := by rcases hen with h' | h' <;> rw [h'] <;> decide
    have h3 : (e.2 == nTd || e.2 == nTh) = true := by rcases hen with h' | h' <;> rw [h'] <;> decide
    simp only [pairOK, hprot, if_true, h1, h2, h3, Bool.false_eq_true, if_false, Bool.and_eq_true,
      List.contains_cons, List.contains_nil, Bool.or_false, Bool.or_eq_true, beq_iff_eq] at hpair
    obtain ⟨hg, hgn⟩ := hpair
    rcases hgn with h' | h'
    · exact TS_blocked_tr hf hnm g hg h' r tl hnr ha.2 hs
    · refine TS_blocked_marker hf g hg (Or.inl h') ?_ r tl hnr hs
      intro he; rw [h'] at he
      rcases hnm with h'' | h'' <;> rw [h''] at he <;> revert he <;> decide

/-- the first non-formatting element of a list -/
theorem nj_head : ∀ (l : List El) (g : El) (tl : List El), nj l = g :: tl →
    ∃ js rest, l = js ++ g :: rest ∧ (∀ j ∈ js, junk j = true) ∧ nj rest = tl
  | [], _, _, h => by simp [nj] at h
  | x :: l, g, tl, h => by
    cases hx : junk x with
    | true =>
      rw [nj_cons_junk hx] at h
      obtain ⟨js, rest, h1, h2, h3⟩ := nj_head l g tl h
      exact ⟨x :: js, rest, by rw [h1]; rfl, by
        intro j hj; rcases List.mem_cons.1 hj with hj | hj
        · rw [hj]; exact hx
        · exact h2 j hj, h3⟩
    | false =>
      rw [nj_cons_nj hx] at h
      simp only [List.cons.injEq] at h
      exact ⟨[], l, by rw [h.1]; rfl, (fun _ hj => nomatch hj), h.2⟩

/-- **the cell that is in table scope**: everything above it is unprotected, and it sits on `tr` or `html` -/
theorem cell_scope {nm : Str} (hnm : nm = nTd ∨ nm = nTh) :
    ∀ (r : List El), adjRev (nj r) = true → (∃ b, r.getLast? = some b ∧ junk b = false ∧ b.2 = nHtml) →
      TS nm r = some true →
      ∃ above t below, r = above ++ t :: below ∧ t.2 = nm ∧ prot t = true ∧ (∀ e ∈ above, prot e = false) ∧
        ∃ p0 q, (q = nTr ∨ q = nHtml) ∧ P below.reverse = p0 ++ [q]
  | [], _, _, h => by simp [TS, scopeRev] at h
  | e :: r, ha, hb, h => by
    have hf : FMT.contains nm = false := by rcases hnm with h' | h' <;> rw [h'] <;> decide
    by_cases ht : (tup e == (htmlNs, nm)) = true
    · -- found
      obtain ⟨hH, hn⟩ := tup_eq (beq_iff_eq.1 ht)
      have hPN : PN.contains e.2 = true := by rw [hn]; rcases hnm with h' | h' <;> rw [h'] <;> decide
      have hprot : prot e = true := by unfold prot; rw [hH, hPN]; rfl
      have hej : junk e = false := by
        cases hj : junk e with
        | false => rfl
        | true => rw [junk_unprot hj] at hprot; cases hprot
      rw [nj_cons_nj hej] at ha
      refine ⟨[], e, r, rfl, hn, hprot, (fun _ h' => nomatch h'), ?_⟩
      -- what the cell sits on
      cases hnr : nj r with
      | nil =>
        exfalso
        obtain ⟨b, hb1, hb2, hb3⟩ := hb
        cases r with
        | nil =>
          simp at hb1; rw [← hb1] at hb3; rw [hn] at hb3
          rcases hnm with h' | h' <;> rw [h'] at hb3 <;> revert hb3 <;> decide
        | cons y r' =>
          have hbm : b ∈ y :: r' := by
            rw [List.getLast?_cons_cons] at hb1
            exact List.mem_of_getLast? hb1
          have : b ∈ nj (y :: r') := by simp [nj, hbm, hb2]
          rw [hnr] at this; cases this
      | cons g tl =>
        rw [hnr] at ha
        simp only [adjRev, Bool.and_eq_true] at ha
        have hpair := ha.1
        have h1 : (e.2 == nTr) = false := by rw [hn]; rcases hnm with h' | h' <;> rw [h'] <;> decide
        have h2 : [nTbody, nThead, nTfoot].contains e.2 = false := by
          rw [hn]; rcases hnm with h' | h' <;> rw [h'] <;> decide
        have h3 : (e.2 == nTd || e.2 == nTh) = true := by rw [hn]; rcases hnm with h' | h' <;> rw [h'] <;> decide
        simp only [pairOK, hprot, if_true, h1, h2, h3, Bool.false_eq_true, if_false, Bool.and_eq_true,
          List.contains_cons, List.contains_nil, Bool.or_false, Bool.or_eq_true, beq_iff_eq] at hpair
        obtain ⟨hg, hgn⟩ := hpair
        obtain ⟨js, rest, e1, e2, _⟩ := nj_head r g tl hnr
        have hgprot : prot g = true := by
          unfold prot; rw [hg]; rcases hgn with h' | h' <;> rw [h'] <;> rfl
        refine ⟨P rest.reverse, g.2, hgn, ?_⟩
        rw [e1]
        simp only [List.reverse_append, List.reverse_cons, List.append_assoc, List.singleton_append]
        rw [show rest.reverse ++ g :: js.reverse = rest.reverse ++ ([g] ++ js.reverse) by simp, ← List.append_assoc,
          P_append_unprot _ _ (by
            intro x hx; rw [List.mem_reverse] at hx; exact junk_unprot (e2 x hx)), P_append]
        simp [P, hgprot]
    · -- not the cell: not a marker, and not protected
      have ht' : (tup e == (htmlNs, nm)) = false := by simpa using ht
      have hs' : TS nm r = some true ∧ [mHtml, mTable].contains (tup e) = false := by
        simp only [TS, scopeRev, ht', Bool.false_eq_true, if_false] at h
        cases hm : [mHtml, mTable].contains (tup e) with
        | true => rw [hm] at h; simp at h
        | false => rw [hm] at h; simp only [Bool.false_bne, Bool.false_eq_true, if_false] at h; exact ⟨h, rfl⟩
      have hbr : ∃ b, r.getLast? = some b ∧ junk b = false ∧ b.2 = nHtml := by
        obtain ⟨b, hb1, hb2, hb3⟩ := hb
        cases r with
        | nil =>
          exfalso
          simp [TS, scopeRev] at hs'
        | cons y r' => exact ⟨b, by rw [List.getLast?_cons_cons] at hb1; exact hb1, hb2, hb3⟩
      have hpe : prot e = false := by
        cases hp : prot e with
        | false => rfl
        | true =>
          exfalso
          have hej : junk e = false := by
            cases hj : junk e with
            | false => rfl
            | true => rw [junk_unprot hj] at hp; cases hp
          have hH : isH e = true := by simp only [prot, Bool.and_eq_true] at hp; exact hp.1
          rcases prot_cases hp with hmark | ⟨_, hpart⟩
          · rcases hmark with h' | h' | h' | h'
            · rw [h'] at hs'; exact absurd hs'.2 (by decide)
            · rw [h'] at hs'; exact absurd hs'.2 (by decide)
            · -- the other kind of cell: it sits on `tr` / `html`
              have hen : e.2 = nTd := (tup_eq h').2
              have hne : e.2 ≠ nm := by
                intro he; apply ht; rw [tup_of hH, he]; simp
              exact TS_blocked_cell_aux hf hnm e hH (Or.inl hen) hne r ha hej hs'.1
            · have hen : e.2 = nTh := (tup_eq h').2
              have hne : e.2 ≠ nm := by
                intro he; apply ht; rw [tup_of hH, he]; simp
              exact TS_blocked_cell_aux hf hnm e hH (Or.inr hen) hne r ha hej hs'.1
          · rcases hpart with hn | hn
            · exact TS_blocked_tr hf hnm e hH hn (e :: r) (nj r) (nj_cons_nj hej r) (by rw [← nj_cons_nj hej]; exact ha) h
            · have hgn : [nTbody, nThead, nTfoot].contains e.2 = true := by
                rcases hn with h' | h' | h' <;> rw [h'] <;> decide
              exact TS_blocked_group hf hnm e hH hgn (e :: r) (nj r) (nj_cons_nj hej r)
                (by rw [← nj_cons_nj hej]; exact ha) h
      have har : adjRev (nj r) = true := by
        cases hj : junk e with
        | true => rw [nj_cons_junk hj] at ha; exact ha
        | false => rw [nj_cons_nj hj] at ha; exact adjRev_tail ha
      obtain ⟨above, t, below, e1, e2, e3, e4, e5⟩ := cell_scope hnm r har hbr hs'.1
      exact ⟨e :: above, t, below, by rw [e1]; rfl, e2, e3, by
        intro x hx; rcases List.mem_cons.1 hx with hx | hx
        · rw [hx]; exact hpe
        · exact e4 x hx, e5⟩

/-- removing an unprotected element keeps `adjJ` -/
theorem adjJ_remove (a : List El) (e : El) (b : List El) (h : adjJ (a ++ e :: b) = true) (he : prot e = false) :
    adjJ (a ++ b) = true := by
  cases hj : junk e with
  | true => rw [adjJ_junk a e b hj] at h; exact h
  | false =>
    unfold adjJ at h ⊢
    rw [nj_append, nj_cons_nj hj] at h
    rw [nj_append]
    exact adjOK_remove _ _ _ h he

end H5.Props.C03c
