/-
  Property C03b (parser fuel), tokenizer part — specifications (in `Post` form) of the helpers the state methods are
  built from, now also saying by how much the token queue grows, and the tactic `state_pay` that proves the
  per-state lemmas `Post (xState s) (Pay …)`.

  Every specification is a conjunction of *linear* facts about `input.length`, `w state` and
  `tokenQueue.length`, so that `omega` can combine them.
-/
import H5.Props.C03bTokCore
set_option linter.unusedSimpArgs false
namespace H5.Props.C03b
open H5 H5.Gen H5.Model H5.Model.Tokenizer
open H5.Props.C02c

theorem modCur_pay (s : St) (g : CurTok → Except PyErr CurTok) (hg : ∀ t, Post (g t) (fun _ => True)) :
    Post (s.modCur g) (fun s' => s'.input.length = s.input.length ∧ w s'.state = w s.state
      ∧ s'.tokenQueue.length = s.tokenQueue.length) := by
  unfold St.modCur
  simp only [Post_bind]
  refine Post_mono (cur_post s) ?_
  intro t _
  refine Post_mono (hg t) ?_
  intro t' _
  exact ⟨rfl, rfl, rfl⟩

/-- `tokenQueue.append(currentToken)`: one token -/
theorem emitCur_pay (s : St) :
    Post s.emitCur (fun s' => s'.input.length = s.input.length ∧ w s'.state = w s.state
      ∧ s'.tokenQueue.length = s.tokenQueue.length + 1) := by
  unfold St.emitCur
  simp only [Post_bind]
  refine Post_mono (cur_post s) ?_
  intro t _
  refine Post_mono (nf_toTTok t) ?_
  intro t' _
  refine ⟨rfl, rfl, ?_⟩
  simp [St.emit]

theorem addTempBuf_pay (s : St) (x : Str) :
    Post (s.addTempBuf x) (fun s' => s'.input.length = s.input.length ∧ w s'.state = w s.state
      ∧ s'.tokenQueue.length = s.tokenQueue.length) := by
  unfold St.addTempBuf
  simp only [Post_bind]
  refine Post_mono (tempBuf_post s) ?_
  intro b _
  exact ⟨rfl, rfl, rfl⟩

theorem newEndTagFromBuffer_pay (s : St) :
    Post s.newEndTagFromBuffer (fun s' => s'.input.length = s.input.length ∧ w s'.state = w s.state
      ∧ s'.tokenQueue.length = s.tokenQueue.length) := by
  unfold St.newEndTagFromBuffer
  simp only [Post_bind]
  refine Post_mono (tempBuf_post s) ?_
  intro b _
  exact ⟨rfl, rfl, rfl⟩

/-- `emitCurrentToken`: the token, plus at most two parse errors for an end tag -/
theorem emitCurrentToken_pay (s : St) :
    Post (emitCurrentToken s) (fun s' => s'.input.length = s.input.length ∧ w s'.state = 0
      ∧ s'.tokenQueue.length ≤ s.tokenQueue.length + 3) := by
  unfold emitCurrentToken
  simp only [Post_bind]
  refine Post_mono (cur_post s) ?_
  intro t _
  split
  · refine ⟨rfl, rfl, ?_⟩
    simp [St.to, St.emit]
  · refine ⟨?_, rfl, ?_⟩
    · simp only [St.to]
      split <;> split <;> rfl
    · simp only [St.to, St.emit, St.parseError]
      split <;> split <;> simp
  · exact NF_keyError _
  · simp only [Post_bind]
    refine Post_mono (emitCur_pay s) ?_
    intro s' h
    refine ⟨h.1, rfl, ?_⟩
    simp only [St.to]; omega
  · simp only [Post_bind]
    refine Post_mono (emitCur_pay s) ?_
    intro s' h
    refine ⟨h.1, rfl, ?_⟩
    simp only [St.to]; omega

theorem emitCurToData_pay (s : St) :
    Post s.emitCurToData (fun r => r.2.input.length = s.input.length ∧ w r.2.state = 0
      ∧ r.2.tokenQueue.length = s.tokenQueue.length + 1) := by
  unfold St.emitCurToData
  simp only [Post_bind]
  refine Post_mono (emitCur_pay s) ?_
  intro s' h
  exact ⟨h.1, rfl, h.2.2⟩

/-- parse error + the doctype token -/
theorem failDoctype_pay (s : St) (code : String) :
    Post (s.failDoctype code) (fun r => r.2.input.length = s.input.length ∧ w r.2.state = 0
      ∧ r.2.tokenQueue.length = s.tokenQueue.length + 2) := by
  unfold St.failDoctype
  simp only [Post_bind]
  refine Post_mono (modCur_pay _ _ nf_setIncorrect) ?_
  intro s' h
  refine Post_mono (emitCurToData_pay s') ?_
  intro r hr
  simp only [St.parseError, St.emit, List.length_append, List.length_cons, List.length_nil] at h
  refine ⟨by omega, hr.2.1, by omega⟩

/-- `consumeEntity`: the errors of `consumeEntityCore` (at most one more than the characters consumed) plus,
outside an attribute, the Characters / SpaceCharacters token -/
theorem consumeEntity_pay (s : St) (ac : Option Nat) (fa : Bool) :
    Post (consumeEntity s ac fa) (fun s' => s'.input.length ≤ s.input.length ∧ w s'.state = w s.state
      ∧ s'.tokenQueue.length + s'.input.length ≤ s.tokenQueue.length + s.input.length + 2) := by
  unfold consumeEntity
  simp only [Post_bind]
  refine Post_mono (consumeEntityCore_post2 ac fa s.input) ?_
  rintro ⟨o, e, i⟩ h
  simp only at h ⊢
  split
  · refine Post_mono (modCur_pay _ _ (nf_addAttrValue o)) ?_
    intro s' hs
    simp only [List.length_append] at hs
    refine ⟨by omega, hs.2.1, by omega⟩
  · refine ⟨h.2, rfl, ?_⟩
    simp only [St.emit, List.length_append, List.length_cons, List.length_nil]
    omega

/-- at most the `duplicate-attribute` error -/
theorem leaveAttributeName_pay (s : St) :
    Post (leaveAttributeName s) (fun s' => s'.input.length = s.input.length ∧ w s'.state = w s.state
      ∧ s'.tokenQueue.length ≤ s.tokenQueue.length + 1) := by
  unfold leaveAttributeName
  simp only [Post_bind]
  refine Post_mono (modCur_pay _ _ (nf_modLastAttr _)) ?_
  intro s1 h1
  refine Post_mono (cur_post s1) ?_
  intro t _
  refine Post_mono (nf_attrsE t) ?_
  intro d _
  split
  · exact NF_indexError _
  · split
    · simp only [Post_pure, St.parseError, St.emit, List.length_append, List.length_cons, List.length_nil]
      omega
    · simp only [Post_pure]
      omega

theorem markupDeclarationOpenFail_pay (s : St) (cs : List (Option Nat)) :
    Post (markupDeclarationOpenFail s cs)
      (fun r => r.2.input.length = s.input.length + somes cs ∧ w r.2.state = 1
        ∧ r.2.tokenQueue.length = s.tokenQueue.length + 1) := by
  unfold markupDeclarationOpenFail
  have := foldl_unget_input cs.reverse (s.parseError "expected-dashes-or-doctype")
  have hq := foldl_unget_queue cs.reverse (s.parseError "expected-dashes-or-doctype")
  rw [somes_reverse] at this
  refine ⟨this.1, rfl, ?_⟩
  show (List.foldl (fun s c => s.unget c) (s.parseError "expected-dashes-or-doctype")
    cs.reverse).tokenQueue.length = _
  rw [hq]
  simp only [St.parseError, St.emit, List.length_append, List.length_cons, List.length_nil]

theorem afterDoctypeNameFail_pay (s : St) (data : Option Nat) :
    Post (afterDoctypeNameFail s data)
      (fun r => r.2.input.length = s.input.length + somes [data] ∧ w r.2.state = 1
        ∧ r.2.tokenQueue.length = s.tokenQueue.length + 1) := by
  unfold afterDoctypeNameFail
  simp only [Post_bind]
  refine Post_mono (modCur_pay _ _ nf_setIncorrect) ?_
  intro s' h
  refine ⟨?_, rfl, ?_⟩
  · simp only [St.to, h.1, St.emit, St.unget, unget_length]
  · simp only [St.to, h.2.2, St.emit, St.unget, List.length_append, List.length_cons, List.length_nil]

syntax "pay_helper" : tactic
macro_rules | `(tactic| pay_helper) => `(tactic| with_reducible apply Post_mono (modCur_pay _ _ (nf_modName _)))
macro_rules | `(tactic| pay_helper) => `(tactic| with_reducible apply Post_mono (modCur_pay _ _ (nf_appendAttr _)))
macro_rules | `(tactic| pay_helper) => `(tactic| with_reducible apply Post_mono (modCur_pay _ _ (nf_addAttrName _)))
macro_rules | `(tactic| pay_helper) => `(tactic| with_reducible apply Post_mono (modCur_pay _ _ (nf_addAttrValue _)))
macro_rules | `(tactic| pay_helper) => `(tactic| with_reducible apply Post_mono (modCur_pay _ _ (nf_addData _)))
macro_rules | `(tactic| pay_helper) => `(tactic| with_reducible apply Post_mono (modCur_pay _ _ nf_setSelfClosing))
macro_rules | `(tactic| pay_helper) => `(tactic| with_reducible apply Post_mono (modCur_pay _ _ nf_setIncorrect))
macro_rules | `(tactic| pay_helper) => `(tactic| with_reducible apply Post_mono (modCur_pay _ _ nf_initPublicId))
macro_rules | `(tactic| pay_helper) => `(tactic| with_reducible apply Post_mono (modCur_pay _ _ nf_initSystemId))
macro_rules | `(tactic| pay_helper) => `(tactic| with_reducible apply Post_mono (modCur_pay _ _ (nf_addPublicId _)))
macro_rules | `(tactic| pay_helper) => `(tactic| with_reducible apply Post_mono (modCur_pay _ _ (nf_addSystemId _)))
macro_rules | `(tactic| pay_helper) => `(tactic| with_reducible apply Post_mono (emitCurrentToken_pay _))
macro_rules | `(tactic| pay_helper) => `(tactic| with_reducible apply Post_mono (emitCurToData_pay _))
macro_rules | `(tactic| pay_helper) => `(tactic| with_reducible apply Post_mono (failDoctype_pay _ _))
macro_rules | `(tactic| pay_helper) => `(tactic| with_reducible apply Post_mono (consumeEntity_pay _ _ _))
macro_rules | `(tactic| pay_helper) => `(tactic| with_reducible apply Post_mono (leaveAttributeName_pay _))
macro_rules | `(tactic| pay_helper) => `(tactic| with_reducible apply Post_mono (addTempBuf_pay _ _))
macro_rules | `(tactic| pay_helper) => `(tactic| with_reducible apply Post_mono (newEndTagFromBuffer_pay _))
macro_rules | `(tactic| pay_helper) => `(tactic| with_reducible apply Post_mono (tempBuf_post _))
macro_rules | `(tactic| pay_helper) => `(tactic| with_reducible apply Post_mono (bufferIsScript_post _))
macro_rules | `(tactic| pay_helper) => `(tactic| with_reducible apply Post_mono (appropriate_post _))
macro_rules | `(tactic| pay_helper) => `(tactic| with_reducible apply Post_mono (markupDeclarationOpenFail_pay _ _))
macro_rules | `(tactic| pay_helper) => `(tactic| with_reducible apply Post_mono (afterDoctypeNameFail_pay _ _))

/-- push `Post` through binds / ifs / matches, using the helper specifications with queue growth -/
macro "pay_loop" : tactic => `(tactic| repeat' (first
   | post_simp
   | (pay_helper; intro _ _)
   | split ))

/-- closes the arithmetic leaves `Pay n W q (cont, s')` -/
macro "pay_finish" : tactic => `(tactic| (
  simp only [Pay, w, St.to, St.emit, St.parseError, St.emitChars, St.unget, St.setTempBuf, Stream.unget,
    List.length_cons, List.length_drop, List.length_nil, List.length_append, somes, somes_append,
    List.cons_append, List.nil_append,
    and_imp, Prod.forall, Bool.false_eq_true, false_implies, true_implies, forall_const] at *
  first
    | done
    | omega
    | (simp_all only [List.length_cons, List.length_drop, List.length_nil, List.length_append, w]
       first | done | omega)
    | (simp_all; first | done | omega)))

/-- proves `Post (f s) (Pay …)` for a state method `f` that starts with `self.stream.char()`;
expects `s : St` and `hs : s.state = .f` as the last two hypotheses -/
macro "state_pay" f:ident : tactic => `(tactic| (
  rename_i s hs
  obtain ⟨st, input, cur, tb, q, cd⟩ := s
  simp only at hs
  subst hs
  cases input
  all_goals state_unfold $f
  all_goals pay_loop
  all_goals pay_finish))

end H5.Props.C03b
