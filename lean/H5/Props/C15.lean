/-
  Property C15 (filter clause) — inject_meta_charset rewrites existing declarations, injects exactly one
  `<meta charset>` as the first child of head when there is none, and leaves everything else unchanged and in order.
  Model: H5.Model.InjectMeta (hand model tied by op `inject`).
-/
import H5.Model.InjectMeta
namespace H5.Props.C15
open H5 H5.Model.InjectMeta

/-- a tag token (of any kind) whose name lower-cases to "head" -/
def isHeadTag : Tok → Bool
  | .startTag _ n _ | .endTag _ n | .emptyTag _ n _ => n.asciiLower = sHead
  | _ => false

/-- what the filter does to one token outside the head bookkeeping: only `meta` empty tags are touched -/
def rw (enc : Str) : Tok → Tok
  | .emptyTag ns n attrs => if n.asciiLower = sMeta then .emptyTag ns n (rewriteMetaAttrs enc attrs).1 else .emptyTag ns n attrs
  | t => t

/-- the token is a `meta` empty tag carrying a charset / content-type declaration (which gets rewritten) -/
def declares (enc : Str) : Tok → Bool
  | .emptyTag _ n attrs => n.asciiLower = sMeta && (rewriteMetaAttrs enc attrs).2
  | _ => false

theorem head_ne_meta : sHead ≠ sMeta := by decide

theorem runFrom_append (enc : Str) (st : St) (a b : List Tok) :
    runFrom enc st (a ++ b) =
      ((runFrom enc (runFrom enc st a).1 b).1, (runFrom enc st a).2 ++ (runFrom enc (runFrom enc st a).1 b).2) := by
  induction a generalizing st with
  | nil => simp [runFrom]
  | cons t ts ih => simp [runFrom, ih]

/-- outside the head (before `<head>` or after `</head>`): tokens pass through, metas rewritten -/
theorem step_out (enc : Str) (st : St) (t : Tok) (hp : st.phase ≠ .inHead) (ht : isHeadTag t = false) :
    step enc st t = ({ st with found := st.found || declares enc t }, [rw enc t]) := by
  cases t with
  | startTag ns n a =>
    simp only [isHeadTag, decide_eq_false_iff_not] at ht
    simp [step, ht, hp, rw, declares]
  | endTag ns n =>
    simp only [isHeadTag, decide_eq_false_iff_not] at ht
    simp [step, ht, hp, rw, declares]
  | emptyTag ns n a =>
    simp only [isHeadTag, decide_eq_false_iff_not] at ht
    by_cases hm : n.asciiLower = sMeta
    · simp [step, hm, hp, rw, declares]
    · simp [step, hm, ht, hp, rw, declares]
  | doctype n p s => simp [step, hp, rw, declares]
  | chars s => simp [step, hp, rw, declares]
  | space s => simp [step, hp, rw, declares]
  | comment s => simp [step, hp, rw, declares]
  | entity s => simp [step, hp, rw, declares]
  | serr s => simp [step, hp, rw, declares]

theorem run_out (enc : Str) (st : St) (l : List Tok) (hp : st.phase ≠ .inHead) (hl : ∀ t ∈ l, isHeadTag t = false) :
    runFrom enc st l = ({ st with found := st.found || l.any (declares enc) }, l.map (rw enc)) := by
  induction l generalizing st with
  | nil => simp [runFrom]
  | cons t ts ih =>
    simp only [runFrom]
    rw [step_out enc st t hp (hl t List.mem_cons_self)]
    simp only []
    rw [ih { st with found := st.found || declares enc t } hp (fun x hx => hl x (List.mem_cons_of_mem _ hx))]
    simp [Bool.or_assoc]

/-- inside the head: every token is held back in `pending` (metas rewritten), nothing is emitted -/
theorem step_in (enc : Str) (st : St) (t : Tok) (hp : st.phase = .inHead) (ht : isHeadTag t = false) :
    step enc st t = ({ st with found := st.found || declares enc t, pending := st.pending ++ [rw enc t] }, []) := by
  cases t with
  | startTag ns n a =>
    simp only [isHeadTag, decide_eq_false_iff_not] at ht
    simp [step, ht, hp, rw, declares]
  | endTag ns n =>
    simp only [isHeadTag, decide_eq_false_iff_not] at ht
    simp [step, ht, hp, rw, declares]
  | emptyTag ns n a =>
    simp only [isHeadTag, decide_eq_false_iff_not] at ht
    by_cases hm : n.asciiLower = sMeta
    · simp [step, hm, hp, rw, declares]
    · simp [step, hm, ht, hp, rw, declares]
  | doctype n p s => simp [step, hp, rw, declares]
  | chars s => simp [step, hp, rw, declares]
  | space s => simp [step, hp, rw, declares]
  | comment s => simp [step, hp, rw, declares]
  | entity s => simp [step, hp, rw, declares]
  | serr s => simp [step, hp, rw, declares]

theorem run_in (enc : Str) (st : St) (l : List Tok) (hp : st.phase = .inHead) (hl : ∀ t ∈ l, isHeadTag t = false) :
    runFrom enc st l =
      ({ st with found := st.found || l.any (declares enc), pending := st.pending ++ l.map (rw enc) }, []) := by
  induction l generalizing st with
  | nil => simp [runFrom]
  | cons t ts ih =>
    simp only [runFrom]
    rw [step_in enc st t hp (hl t List.mem_cons_self)]
    simp only []
    rw [ih { st with found := st.found || declares enc t, pending := st.pending ++ [rw enc t] } hp
      (fun x hx => hl x (List.mem_cons_of_mem _ hx))]
    simp [Bool.or_assoc]

/-- **C15 (inject).** For a stream with one `<head> … </head>` pair and no other tag named head:
every `meta` declaration anywhere is rewritten, exactly one `<meta charset=enc>` is injected as the first child of
head iff no declaration occurred before `</head>`, and every other token is unchanged and in order. -/
theorem C15_inject (enc : Str) (pre mid post : List Tok) (ns ns' : Option Str) (h h' : Str) (attrs : List Attr)
    (hh : h.asciiLower = sHead) (hh' : h'.asciiLower = sHead)
    (hpre : ∀ t ∈ pre, isHeadTag t = false) (hmid : ∀ t ∈ mid, isHeadTag t = false)
    (hpost : ∀ t ∈ post, isHeadTag t = false) :
    inject enc (pre ++ [.startTag ns h attrs] ++ mid ++ [.endTag ns' h'] ++ post) =
      pre.map (rw enc) ++ [.startTag ns h attrs] ++
      (if (pre ++ mid).any (declares enc) then [] else [metaTok enc]) ++
      mid.map (rw enc) ++ [.endTag ns' h'] ++ post.map (rw enc) := by
  unfold inject
  simp only [List.append_assoc]
  rw [runFrom_append, run_out enc {} pre (by simp) hpre]
  simp only [List.cons_append, List.nil_append]
  -- the `<head>` start tag
  simp only [runFrom]
  have s1 : step enc { found := pre.any (declares enc) } (.startTag ns h attrs) =
      ({ phase := .inHead, found := pre.any (declares enc), pending := [.startTag ns h attrs] }, []) := by
    simp [step, hh]
  simp only [Bool.false_or]
  rw [s1]
  simp only [List.nil_append]
  rw [runFrom_append, run_in enc _ mid rfl hmid]
  simp only [runFrom, List.nil_append]
  -- the `</head>` end tag
  have s2 : step enc { phase := .inHead, found := pre.any (declares enc) || mid.any (declares enc),
                       pending := [Tok.startTag ns h attrs] ++ mid.map (rw enc) } (.endTag ns' h') =
      ({ phase := .postHead, found := true, pending := [] },
       (Tok.startTag ns h attrs :: ((if (pre.any (declares enc) || mid.any (declares enc)) then [] else [metaTok enc]) ++
          mid.map (rw enc))) ++ [.endTag ns' h']) := by
    simp [step, hh']
  rw [s2]
  rw [run_out enc _ post (by simp) hpost]
  simp [List.any_append]

/-- the rewrite leaves every non-`meta` token alone -/
theorem C15_rw_other (enc : Str) (t : Tok) (h : ∀ ns n a, t = .emptyTag ns n a → n.asciiLower ≠ sMeta) : rw enc t = t := by
  cases t <;> simp [rw]
  case emptyTag ns n a => exact fun hm => absurd hm (h ns n a rfl)

/-- a rewritten charset declaration carries the requested encoding -/
theorem C15_charset_rewritten (enc : Str) (a : Attr) (rest : List Attr) (hns : a.ns = none)
    (hn : a.name.asciiLower = sCharset) :
    rewriteMetaAttrs enc (a :: rest) = ({ a with value := enc } :: rest, true) := by
  simp [rewriteMetaAttrs, scanAttrs, hns, hn]

/-- non-vacuity -/
example : inject [117] [.startTag none sHead [], .emptyTag none [116] [], .endTag none sHead, .chars [120]]
    = [.startTag none sHead [], metaTok [117], .emptyTag none [116] [], .endTag none sHead, .chars [120]] := by decide

end H5.Props.C15
