/-
  Property C19 (part b) — a tree rebuilt from the SAX events equals the source tree.
  `H5.Props.C19` proves that `to_sax` over the walker's stream of `t` is a fixed frame around `saxRec t`.
  Here a stack machine over `Ev` (what a tree-building ContentHandler does) rebuilds a forest from the events and
  the result is the source tree with comments/doctypes removed (to_sax drops them by design) and text normalised
  (SAX `characters` calls carry no node boundaries: adjacent text nodes merge, empty ones vanish).
  Text bookkeeping (`addTextN`, `mergeAdj`, `pushForest`, `textToks_spec`) is reused from `H5.Props.C11b`.
-/
import H5.Props.C19
import H5.Props.C11b
namespace H5.Props.C19b
open H5 H5.Gen H5.Model.Sax H5.Model.Walker H5.Spec H5.Props.C19
open H5.Props.C11b (addText addTextN mergeAdj pushForest push1 piece textToks_spec addTextN_addTextN
  pushForest_append pushForest_reverse)

/-! ### 1. the rebuilding stack machine over SAX events -/

/-- an open element: its tag and the (reversed) siblings collected before it -/
structure EFrame where
  ns : Option Str
  name : Str
  attrs : List Attr
  before : List Tree

/-- `st` = open elements (innermost first), `cur` = children of the innermost open element collected so far, in
reverse order.  `startElementNS` pushes a frame, `endElementNS` pops it and must match, `characters` appends text
(merged with a directly preceding text node, an empty string adds nothing); document / prefix-mapping events are
skipped. -/
def rebuildFrom : List EFrame → List Tree → List Ev → Option (List Tree)
  | [], cur, [] => some cur.reverse
  | _ :: _, _, [] => none                                    -- unclosed element
  | st, cur, .startElementNS ns name attrs :: rest => rebuildFrom (⟨ns, name, attrs, cur⟩ :: st) [] rest
  | [], _, .endElementNS _ _ :: _ => none                    -- nothing to close
  | f :: st, cur, .endElementNS ns name :: rest =>
      if f.ns = ns ∧ f.name = name then rebuildFrom st (.elem f.ns f.name f.attrs cur.reverse :: f.before) rest
      else none
  | st, cur, .characters d :: rest => rebuildFrom st (addTextN d cur) rest
  | st, cur, .startDocument :: rest => rebuildFrom st cur rest
  | st, cur, .endDocument :: rest => rebuildFrom st cur rest
  | st, cur, .startPrefixMapping _ _ :: rest => rebuildFrom st cur rest
  | st, cur, .endPrefixMapping _ :: rest => rebuildFrom st cur rest

def rebuildEv (evs : List Ev) : Option (List Tree) := rebuildFrom [] [] evs

/-! ### 2. what is expected back: the tree without comments and doctypes, text normalised -/

mutual
/-- the forest a tree denotes for SAX: `doc`/`frag` nodes are spliced into their children, comments and doctypes
removed, empty text nodes dropped, children normalised recursively (`mergeAdj` merges adjacent text nodes) -/
def flatCD : Tree → List Tree
  | .doc cs => flatCDList cs
  | .frag cs => flatCDList cs
  | .elem ns name attrs cs => [.elem ns name attrs (mergeAdj (flatCDList cs))]
  | .text s => if s = [] then [] else [.text s]
  | .doctype _ _ _ => []
  | .comment _ => []
def flatCDList : List Tree → List Tree
  | [] => []
  | t :: ts => flatCD t ++ flatCDList ts
end

/-- remove comments and doctypes, splice `doc`/`frag`, drop empty text, merge adjacent text — recursively -/
def stripCD (ts : List Tree) : List Tree := mergeAdj (flatCDList ts)

/-! ### 3. step lemmas -/

theorem rebuild_start (st : List EFrame) (cur : List Tree) (ns : Option Str) (name : Str) (attrs : List Attr)
    (rest : List Ev) :
    rebuildFrom st cur (.startElementNS ns name attrs :: rest) = rebuildFrom (⟨ns, name, attrs, cur⟩ :: st) [] rest := by
  cases st <;> simp [rebuildFrom]

theorem rebuild_characters (st : List EFrame) (cur : List Tree) (d : Str) (rest : List Ev) :
    rebuildFrom st cur (.characters d :: rest) = rebuildFrom st (addTextN d cur) rest := by
  cases st <;> simp [rebuildFrom]

theorem rebuild_end (f : EFrame) (st : List EFrame) (cur : List Tree) (rest : List Ev) :
    rebuildFrom (f :: st) cur (.endElementNS f.ns f.name :: rest) =
      rebuildFrom st (.elem f.ns f.name f.attrs cur.reverse :: f.before) rest := by
  simp [rebuildFrom]

/-- the SAX rendering of the tokens of `text()` -/
def tokEv : Tok → Ev
  | .chars d => Ev.characters d
  | .space d => Ev.characters d
  | _ => Ev.characters []

theorem saxRec_text (s : Str) : saxRec (.text s) = (textToks s).map tokEv := by
  simp only [saxRec]
  apply List.map_congr_left
  intro t _
  cases t <;> rfl

theorem rebuild_piece (f : Str → Tok) (hf : ∀ d, tokEv (f d) = .characters d)
    (st : List EFrame) (cur : List Tree) (d : Str) (rest : List Ev) :
    rebuildFrom st cur ((piece f d).map tokEv ++ rest) = rebuildFrom st (addTextN d cur) rest := by
  cases d with
  | nil => simp [piece, addTextN]
  | cons a d => simp [piece, hf, rebuild_characters]

/-- the (at most three) `characters` events of a text node add its whole text, merged with a preceding text node -/
theorem rebuild_text (st : List EFrame) (cur : List Tree) (s : Str) (rest : List Ev) :
    rebuildFrom st cur (saxRec (.text s) ++ rest) = rebuildFrom st (addTextN s cur) rest := by
  obtain ⟨l, m, r, hs, -, -, ht⟩ := textToks_spec s
  rw [saxRec_text, ht, List.map_append, List.map_append, List.append_assoc, List.append_assoc,
    rebuild_piece _ (fun _ => rfl), rebuild_piece _ (fun _ => rfl), rebuild_piece _ (fun _ => rfl),
    addTextN_addTextN, addTextN_addTextN, ← hs, List.append_assoc]

/-- the `characters` events of one text node concatenate to its text and none is empty -/
theorem text_events_concat (s : Str) :
    ((textToks s).map tokEv).flatMap (fun e => match e with | .characters d => d | _ => []) = s ∧
    ∀ e ∈ (textToks s).map tokEv, ∃ d, e = .characters d ∧ d ≠ [] := by
  constructor
  · rw [List.flatMap_map]
    refine Eq.trans ?_ (H5.Props.C11b.C11_text s)
    congr 1
    funext t
    cases t <;> simp [tokEv, H5.Props.C11b.tokData]
  · intro e he
    obtain ⟨t, ht, rfl⟩ := List.mem_map.mp he
    rcases H5.Props.C11b.textToks_tokens s t ht with ⟨d, rfl, hd⟩ | ⟨d, rfl, hd, -⟩
    · exact ⟨d, rfl, hd⟩
    · exact ⟨d, rfl, hd⟩

theorem pushForest_flatCD_text (s : Str) (cur : List Tree) : pushForest (flatCD (.text s)) cur = addTextN s cur := by
  by_cases h : s = [] <;> simp [flatCD, pushForest, addTextN, h, push1]

/-! ### 4. the main induction -/

mutual
theorem rebuild_tree : ∀ t, VoidOk t → ∀ st cur rest,
    rebuildFrom st cur (saxRec t ++ rest) = rebuildFrom st (pushForest (flatCD t) cur) rest
  | .doc cs, h, st, cur, rest => by
      simp only [saxRec, flatCD]; exact rebuild_list cs (by simpa [VoidOk] using h) st cur rest
  | .frag cs, h, st, cur, rest => by
      simp only [saxRec, flatCD]; exact rebuild_list cs (by simpa [VoidOk] using h) st cur rest
  | .doctype _ _ _, _, st, cur, rest => by simp [saxRec, flatCD, pushForest]
  | .comment _, _, st, cur, rest => by simp [saxRec, flatCD, pushForest]
  | .text s, _, st, cur, rest => by
      rw [pushForest_flatCD_text]; exact rebuild_text st cur s rest
  | .elem ns name attrs cs, h, st, cur, rest => by
      simp only [VoidOk] at h
      obtain ⟨hvoid, hcs⟩ := h
      have hp : pushForest [Tree.elem ns name attrs (mergeAdj (flatCDList cs))] cur =
          Tree.elem ns name attrs (mergeAdj (flatCDList cs)) :: cur := rfl
      by_cases hv : isVoid ns name = true
      · have := hvoid hv
        subst this
        simp [saxRec, hv, rebuild_start, rebuildFrom, flatCD, flatCDList, mergeAdj, pushForest, push1]
      · have ih := rebuild_list cs hcs (⟨ns, name, attrs, cur⟩ :: st) [] (.endElementNS ns name :: rest)
        simp only [saxRec, hv]
        simp [rebuild_start, ih, rebuildFrom, pushForest_reverse, flatCD, hp]
theorem rebuild_list : ∀ ts, VoidOkList ts → ∀ st cur rest,
    rebuildFrom st cur (saxList ts ++ rest) = rebuildFrom st (pushForest (flatCDList ts) cur) rest
  | [], _, st, cur, rest => by simp [saxList, flatCDList, pushForest]
  | t :: ts, h, st, cur, rest => by
      simp only [VoidOkList] at h
      simp only [saxList, flatCDList, List.append_assoc, pushForest_append]
      rw [rebuild_tree t h.1, rebuild_list ts h.2]
end

/-- **C19 (rebuild), general form**: inside any context of the stack machine, the events of a forest add exactly
the forest without comments/doctypes, text-normalised, onto the children collected so far. -/
theorem C19_rebuild_from (ts : List Tree) (h : VoidOkList ts) (st : List EFrame) (cur : List Tree) (rest : List Ev) :
    rebuildFrom st cur (saxList ts ++ rest) = rebuildFrom st (pushForest (flatCDList ts) cur) rest :=
  rebuild_list ts h st cur rest

/-- **C19 (rebuild).** the tree rebuilt from the SAX events of `t` is `t` without its comments and doctypes, with
text normalised. -/
theorem C19_rebuild (t : Tree) (h : VoidOk t) : rebuildEv (saxRec t) = some (stripCD [t]) := by
  have := rebuild_tree t h [] [] []
  simp only [List.append_nil] at this
  rw [rebuildEv, this]
  simp [rebuildFrom, pushForest_reverse, stripCD, flatCDList]

theorem C19_rebuild_list (ts : List Tree) (h : VoidOkList ts) : rebuildEv (saxList ts) = some (stripCD ts) := by
  have := rebuild_list ts h [] [] []
  simp only [List.append_nil] at this
  rw [rebuildEv, this]
  simp [rebuildFrom, pushForest_reverse, stripCD]

/-! ### 5. end to end: walker → to_sax → rebuilding handler -/

theorem rebuild_skip_startPrefix (l : List (Str × Str)) (st : List EFrame) (cur : List Tree) (rest : List Ev) :
    rebuildFrom st cur (l.map (fun p => Ev.startPrefixMapping p.1 p.2) ++ rest) = rebuildFrom st cur rest := by
  induction l with
  | nil => rfl
  | cons p l ih => cases st <;> simpa [rebuildFrom] using ih

theorem rebuild_skip_endPrefix (l : List (Str × Str)) (st : List EFrame) (cur : List Tree) (rest : List Ev) :
    rebuildFrom st cur (l.map (fun p => Ev.endPrefixMapping p.1) ++ rest) = rebuildFrom st cur rest := by
  induction l with
  | nil => rfl
  | cons p l ih => cases st <;> simpa [rebuildFrom] using ih

/-- the document frame of `to_sax` is transparent for the rebuilding machine (for ANY prefix table) -/
theorem rebuild_frame (body : List Ev) :
    rebuildEv ([Ev.startDocument] ++ saxPrefixMapping.map (fun p => Ev.startPrefixMapping p.1 p.2) ++ body ++
      saxPrefixMapping.map (fun p => Ev.endPrefixMapping p.1) ++ [Ev.endDocument]) = rebuildEv body := by
  -- push the trailing frame through `body` by induction on the machine state
  have tail : ∀ (evs : List Ev) (st : List EFrame) (cur : List Tree),
      rebuildFrom st cur (evs ++ (saxPrefixMapping.map (fun p => Ev.endPrefixMapping p.1) ++ [Ev.endDocument])) =
      rebuildFrom st cur evs := by
    intro evs
    induction evs with
    | nil =>
      intro st cur
      rw [List.nil_append, rebuild_skip_endPrefix]
      cases st <;> simp [rebuildFrom]
    | cons e evs ih =>
      intro st cur
      cases e <;> cases st <;> simp [rebuildFrom, ih]
  simp only [rebuildEv, List.append_assoc, List.cons_append, List.nil_append]
  rw [show ∀ l, rebuildFrom [] [] (Ev.startDocument :: l) = rebuildFrom [] [] l from fun l => by simp [rebuildFrom],
    rebuild_skip_startPrefix, tail]

/-- **C19 (end to end).** `to_sax(TreeWalker(t), handler)` with a tree-rebuilding handler never raises and the
handler ends up with `t` minus comments/doctypes, text-normalised: the whole event list (document frame, prefix
mappings and body) rebuilds to `stripCD [t]`. -/
theorem C19_walk_sax_rebuild (t : Tree) (h : VoidOk t) :
    ∃ evs, (do let toks ← walk t; toSax toks) = .ok evs ∧ rebuildEv evs = some (stripCD [t]) := by
  obtain ⟨evs, hev, rfl⟩ := C19_tree t h
  exact ⟨_, hev, by rw [rebuild_frame, C19_rebuild t h]⟩

/-- the same for the body alone: the body of `toSax (walk t)` is `saxRec t` and rebuilds to `stripCD [t]` -/
theorem C19_walk_body_rebuild (t : Tree) (h : VoidOk t) :
    ∃ toks body, walk t = .ok toks ∧ bodyEvents toks = .ok body ∧ rebuildEv body = some (stripCD [t]) := by
  refine ⟨walkRec t, saxRec t, H5.Props.C11.C11_walk t, events_of_walk t h, C19_rebuild t h⟩

/-! ### 6. `stripCD` is what it says -/

theorem stripCD_doc (cs : List Tree) : stripCD [.doc cs] = stripCD cs := by simp [stripCD, flatCDList, flatCD]
theorem stripCD_frag (cs : List Tree) : stripCD [.frag cs] = stripCD cs := by simp [stripCD, flatCDList, flatCD]
theorem stripCD_elem (ns : Option Str) (name : Str) (attrs : List Attr) (cs : List Tree) :
    stripCD [.elem ns name attrs cs] = [.elem ns name attrs (stripCD cs)] := by
  simp [stripCD, flatCDList, flatCD, mergeAdj]
theorem stripCD_comment (s : Str) (ts : List Tree) : stripCD (.comment s :: ts) = stripCD ts := by
  simp [stripCD, flatCDList, flatCD]
theorem stripCD_doctype (n p q : Option Str) (ts : List Tree) : stripCD (.doctype n p q :: ts) = stripCD ts := by
  simp [stripCD, flatCDList, flatCD]
theorem stripCD_text_nil (ts : List Tree) : stripCD (.text [] :: ts) = stripCD ts := by
  simp [stripCD, flatCDList, flatCD]

mutual
/-- a tree with no comment, doctype, `doc`/`frag` node, empty text node, nor two adjacent text nodes -/
def Clean : Tree → Prop
  | .elem _ _ _ cs => CleanList cs
  | .text s => s ≠ []
  | _ => False
def CleanList : List Tree → Prop
  | [] => True
  | [t] => Clean t
  | t :: u :: r => Clean t ∧ ¬ ((∃ a, t = .text a) ∧ (∃ b, u = .text b)) ∧ CleanList (u :: r)
end

theorem cleanList_head : ∀ (t : Tree) (ts : List Tree), CleanList (t :: ts) → Clean t ∧ CleanList ts
  | t, [], h => by simp only [CleanList] at h ⊢; exact ⟨h, trivial⟩
  | t, u :: r, h => by simp only [CleanList] at h; exact ⟨h.1, h.2.2⟩

mutual
theorem flatCD_clean : ∀ t, Clean t → flatCD t = [t] ∧ mergeAdj (flatCD t) = [t]
  | .elem ns name attrs cs, h => by
      simp only [Clean] at h
      have := (flatCDList_clean cs h).2
      simp [flatCD, this, mergeAdj]
  | .text s, h => by
      simp only [Clean] at h
      simp [flatCD, h, mergeAdj]
  | .doc _, h => by simp [Clean] at h
  | .frag _, h => by simp [Clean] at h
  | .doctype _ _ _, h => by simp [Clean] at h
  | .comment _, h => by simp [Clean] at h
theorem flatCDList_clean : ∀ ts, CleanList ts → flatCDList ts = ts ∧ mergeAdj (flatCDList ts) = ts
  | [], _ => by simp [flatCDList, mergeAdj]
  | [t], h => by
      simp only [CleanList] at h
      have := flatCD_clean t h
      simp [flatCDList, this.1, H5.Props.C11b.mergeAdj_single]
  | t :: u :: r, h => by
      have h1 := h
      simp only [CleanList] at h1
      obtain ⟨ht, hadj, hr⟩ := h1
      have e1 := (flatCD_clean t ht).1
      have e2 := flatCDList_clean (u :: r) hr
      have e3 : flatCDList (t :: u :: r) = t :: u :: r := by
        rw [flatCDList, e1, e2.1]; rfl
      refine ⟨e3, ?_⟩
      rw [e3]
      have e4 : mergeAdj (u :: r) = u :: r := by have := e2.2; rwa [e2.1] at this
      cases t with
      | text a =>
        simp only [mergeAdj, e4]
        cases u with
        | text b => exact absurd ⟨⟨a, rfl⟩, ⟨b, rfl⟩⟩ hadj
        | _ => rfl
      | elem ns n ats cs => simp [mergeAdj, e4]
      | doc _ => simp [Clean] at ht
      | frag _ => simp [Clean] at ht
      | doctype _ _ _ => simp [Clean] at ht
      | comment _ => simp [Clean] at ht
end

/-- **`stripCD` is the identity on clean forests** — so `C19_rebuild` says: a clean tree is rebuilt EXACTLY. -/
theorem stripCD_clean (ts : List Tree) (h : CleanList ts) : stripCD ts = ts := (flatCDList_clean ts h).2

/-- **C19 (rebuild, clean trees).** a tree without comments/doctypes whose text is already normalised is rebuilt
exactly from its SAX events. -/
theorem C19_rebuild_exact (t : Tree) (h : VoidOk t) (hc : Clean t) : rebuildEv (saxRec t) = some [t] := by
  rw [C19_rebuild t h, stripCD_clean [t] (by simpa [CleanList] using hc)]

/-! ### 7. non-vacuity / sanity -/

/-- `<p>h<!--x-->i<br></p>` + newline: the comment disappears and the two text nodes around it merge -/
example : rebuildEv (saxRec (.doc [.doctype (some [104]) none none,
      .elem none [112] [] [.text [104], .comment [120], .text [], .text [32, 105], .elem none [98, 114] [] []],
      .text [10]]))
    = some [.elem none [112] [] [.text [104, 32, 105], .elem none [98, 114] [] []], .text [10]] := by rfl
example : stripCD [.doc [.doctype (some [104]) none none,
      .elem none [112] [] [.text [104], .comment [120], .text [], .text [32, 105], .elem none [98, 114] [] []],
      .text [10]]]
    = [.elem none [112] [] [.text [104, 32, 105], .elem none [98, 114] [] []], .text [10]] := by rfl
example : VoidOk (.doc [.elem none [112] [] [.text [104], .elem none [98, 114] [] []]]) := by
  simp only [VoidOk, VoidOkList, and_true]; decide
example : Clean (.elem none [112] [] [.text [104], .elem none [98, 114] [] [], .text [105]]) := by
  simp [Clean, CleanList]
example : VoidOk (.elem none [112] [] [.text [104], .elem none [98, 114] [] [], .text [105]]) := by
  simp only [VoidOk, VoidOkList, and_true]; decide
/-- the machine does reject: mismatched, unclosed and unopened elements -/
example : rebuildEv [.startElementNS none [112] [], .endElementNS none [113]] = none := by rfl
example : rebuildEv [.startElementNS none [112] []] = none := by rfl
example : rebuildEv [.endElementNS none [112]] = none := by rfl
/-- `VoidOk` is needed: a void element with children loses them in `saxRec` -/
example : rebuildEv (saxRec (.elem none [98, 114] [] [.text [120]])) = some [.elem none [98, 114] [] []] ∧
    stripCD [.elem none [98, 114] [] [.text [120]]] = [.elem none [98, 114] [] [.text [120]]] := ⟨by rfl, by rfl⟩

end H5.Props.C19b
