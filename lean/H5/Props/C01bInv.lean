/-
  C01b — the invariant of the SPECIFICATION's parser state while a covered document is being built, and the evaluation
  of the stack-level algorithms ("has an element in scope", "generate implied end tags", "reconstruct the active
  formatting elements") under it.
-/
import H5.Props.C01bRun
import H5.Props.C07bGrammar
set_option linter.unusedSimpArgs false
set_option linter.unusedVariables false
namespace H5.Props.C01b
open H5 H5.Spec.TC
open H5.Props.C07b (fmtName fmtNames)

instance : LawfulBEq NS where
  eq_of_beq {a b} h := by cases a <;> cases b <;> first | rfl | cases h
  rfl {a} := by cases a <;> rfl

/-- the token attributes an element was created from -/
def pairsOf (attrs : List Attr) : List (Str × Str) := attrs.map fun a => (a.name, a.value)

theorem plainAttrs_pairsOf (attrs : List Attr) (h : attrs.all (fun a => a.ns == none) = true) :
    plainAttrs (pairsOf attrs) = attrs := by
  induction attrs with
  | nil => rfl
  | cons a rest ih =>
    simp only [List.all_cons, Bool.and_eq_true, beq_iff_eq] at h
    simp only [pairsOf, plainAttrs, List.map_cons, List.map_map] at ih ⊢
    rw [List.cons.injEq]
    refine ⟨?_, ih h.2⟩
    cases a with
    | mk ns name value => simp at h; simp [h.1]

theorem pairsOf_plainAttrs (ps : List (Str × Str)) : pairsOf (plainAttrs ps) = ps := by
  induction ps with
  | nil => rfl
  | cons a rest ih =>
    simp only [pairsOf, plainAttrs, List.map_cons, List.map_map] at ih ⊢
    rw [List.cons.injEq]
    exact ⟨rfl, ih⟩

/-- element type of an arena record -/
def kindType : Kind → Option EType
  | .element ns nm _ => some (ns, nm)
  | _ => none

theorem etypeOf_run_kind (s : St) (i : Nat) (n : Node) (h : s.arena[i]? = some n) :
    (etypeOf i).run s = .ok (kindType n.kind, s) := by
  unfold etypeOf
  simp only [run_bind, getNode_run s i n h, ok_bind]
  cases n.kind <;> rfl

/-- the name of an open HTML element -/
def SFrame.name (g : SFrame) : Str :=
  match g.node.kind with
  | .element _ nm _ => nm
  | _ => []

/-- the entry of the list of active formatting elements of an open formatting element -/
def afeEntry (g : SFrame) : Option AfeEntry :=
  match g.node.kind with
  | .element .html nm attrs => if fmtName nm then some (.elem g.id nm (pairsOf attrs)) else none
  | _ => none

/-- the open elements (the frames without the document frame) -/
def opens (fs : List SFrame) (f : SFrame) : List SFrame := fs.drop 1 ++ [f]

def afeOf (gs : List SFrame) : List AfeEntry := gs.filterMap afeEntry

/-- the parser state while a covered document is being built: `fs` are the open nodes below the current one (the first
is the Document node), `f` the current node -/
structure SInv (m : Mode) (s : St) (fs : List SFrame) (f : SFrame) : Prop where
  mode : s.mode = m
  stack : s.stack = ((opens fs f).map (·.id)).reverse
  afe : s.afe = afeOf (opens fs f)
  ctx : s.context = none
  foster : s.fosterParenting = false
  skip : s.skipNextLF = false
  stopped : s.stopped = false
  tmpl : s.templateModes = []
  docId : s.document = 0
  dev : s.dev = {}
  frames : FramesOK s.arena fs f
  kinds : ∀ g ∈ opens fs f, ∃ nm attrs, g.node.kind = .element .html nm attrs
  content : ∀ g ∈ fs ++ [f], g.node.content = none
  noTextLast : f.txt = none → ∀ d, f.kids.getLast? ≠ some (.text d)
  fsne : fs ≠ []

theorem mem_opens_top (fs : List SFrame) (f : SFrame) : f ∈ opens fs f := by simp [opens]

theorem SInv.topk {m s fs f} (h : SInv m s fs f) : ∃ nm attrs, f.node.kind = .element .html nm attrs :=
  h.kinds f (mem_opens_top fs f)

theorem SInv.topNode {m s fs f} (h : SInv m s fs f) : s.arena[f.id]? = some f.node := h.frames.2.1

theorem SInv.topContent {m s fs f} (h : SInv m s fs f) : f.node.content = none := h.content f (by simp)

theorem SInv.stackCons {m s fs f} (h : SInv m s fs f) : s.stack = f.id :: ((fs.drop 1).map (·.id)).reverse := by
  rw [h.stack]; simp [opens]

theorem mem_of_mem_drop {α : Type} {l : List α} {x : α} {k : Nat} (h : x ∈ l.drop k) : x ∈ l :=
  List.mem_of_mem_drop h

theorem SInv.node_of_mem {m s fs f} (h : SInv m s fs f) : ∀ g ∈ opens fs f, s.arena[g.id]? = some g.node := by
  intro g hg
  rcases List.mem_append.1 hg with hg | hg
  · exact PrefixOK.node_of_mem h.frames.1 g (mem_of_mem_drop hg)
  · simp at hg; subst hg; exact h.topNode

/-! ### the stack of open elements with its element types -/

def typesOf (gs : List SFrame) : List (NodeId × Option EType) := gs.map fun g => (g.id, kindType g.node.kind)

theorem mapM_types_run (s : St) : ∀ (gs : List SFrame), (∀ g ∈ gs, s.arena[g.id]? = some g.node) →
    ((gs.map (·.id)).mapM fun n => do pure (n, ← etypeOf n) : M _).run s = .ok (typesOf gs, s)
  | [], _ => rfl
  | g :: rest, h => by
    have h1 := h g (List.mem_cons_self ..)
    have ih := mapM_types_run s rest (fun x hx => h x (List.mem_cons_of_mem _ hx))
    simp only [List.map_cons, List.mapM_cons, run_bind, etypeOf_run_kind s g.id g.node h1, ok_bind, run_pure, ih]
    rfl

theorem SInv.stackTypes_run {m s fs f} (h : SInv m s fs f) :
    stackTypes.run s = .ok (typesOf (opens fs f).reverse, s) := by
  unfold stackTypes
  simp only [run_bind, get_run, ok_bind]
  rw [h.stack, ← List.map_reverse]
  exact mapM_types_run s _ (fun g hg => h.node_of_mem g (List.mem_reverse.1 hg))

theorem typesOf_opens_reverse (fs : List SFrame) (f : SFrame) :
    typesOf (opens fs f).reverse = (f.id, kindType f.node.kind) :: typesOf (fs.drop 1).reverse := by
  simp [opens, typesOf]

/-! ### "has an element in the specific scope" -/

theorem inScopePure_none (isTarget : NodeId × Option EType → Bool) (stops : EType → Bool) :
    ∀ l, (∀ x ∈ l, isTarget x = false) → inScopePure isTarget stops l = false
  | [], _ => rfl
  | x :: rest, h => by
    unfold inScopePure
    rw [h x (List.mem_cons_self ..)]
    simp only [Bool.false_eq_true, ↓reduceIte]
    have ih := inScopePure_none isTarget stops rest (fun y hy => h y (List.mem_cons_of_mem _ hy))
    split
    · split
      · rfl
      · exact ih
    · exact ih

theorem inScopePure_head (isTarget : NodeId × Option EType → Bool) (stops : EType → Bool) (x) (rest)
    (h : isTarget x = true) : inScopePure isTarget stops (x :: rest) = true := by
  unfold inScopePure; rw [h]; rfl

/-- no open element is an HTML element named `name` -/
def NoneNamed (fs : List SFrame) (f : SFrame) (name : Str) : Prop :=
  ∀ g ∈ opens fs f, kindType g.node.kind ≠ some (NS.html, name)

theorem SInv.hasInScope_false {m s fs f} (h : SInv m s fs f) (sc : Scope) (name : Str) (hn : NoneNamed fs f name) :
    (hasInScope sc name).run s = .ok (false, s) := by
  unfold hasInScope
  have hno : s.dev.nameOnly = false := by rw [h.dev]
  simp only [run_bind, get_run, ok_bind, hno, h.stackTypes_run, Bool.false_eq_true, ↓reduceIte, run_pure]
  rw [inScopePure_none]
  intro x hx
  simp only [typesOf, List.mem_map, List.mem_reverse] at hx
  obtain ⟨g, hg, rfl⟩ := hx
  have := hn g hg
  simpa using this

theorem SInv.hasInScope_top {m s fs f} (h : SInv m s fs f) (sc : Scope) (name : Str)
    (hk : kindType f.node.kind = some (NS.html, name)) : (hasInScope sc name).run s = .ok (true, s) := by
  unfold hasInScope
  have hno : s.dev.nameOnly = false := by rw [h.dev]
  simp only [run_bind, get_run, ok_bind, hno, h.stackTypes_run, Bool.false_eq_true, ↓reduceIte, run_pure]
  rw [typesOf_opens_reverse, inScopePure_head]
  simp [hk]

theorem SInv.hasAnyInScope_top {m s fs f} (h : SInv m s fs f) (sc : Scope) (names : List Str) (nm : Str)
    (hk : kindType f.node.kind = some (NS.html, nm)) (hn : among nm names = true) :
    (hasAnyInScope sc names).run s = .ok (true, s) := by
  unfold hasAnyInScope
  have hno : s.dev.nameOnly = false := by rw [h.dev]
  simp only [run_bind, get_run, ok_bind, hno, h.stackTypes_run, Bool.false_eq_true, ↓reduceIte, run_pure]
  rw [typesOf_opens_reverse, inScopePure_head]
  simp [hk, hn]

theorem SInv.hasNodeInScope_top {m s fs f} (h : SInv m s fs f) (sc : Scope) :
    (hasNodeInScope sc f.id).run s = .ok (true, s) := by
  unfold hasNodeInScope
  simp only [run_bind, h.stackTypes_run, ok_bind, run_pure]
  rw [typesOf_opens_reverse, inScopePure_head]
  simp

/-! ### "generate implied end tags" -/

theorem SInv.impliedTypes_run {m s fs f} (h : SInv m s fs f) :
    impliedTypes.run s = .ok ((typesOf (opens fs f).reverse).map (·.2), s) := by
  unfold impliedTypes
  have hno : s.dev.nameOnly = false := by rw [h.dev]
  simp only [run_bind, get_run, ok_bind, hno, h.stackTypes_run, Bool.false_eq_true, ↓reduceIte, run_pure]

/-- nothing is popped when the current node is not in the list (or is the excepted element) -/
theorem SInv.generateImplied_none {m s fs f} (h : SInv m s fs f) (ex : Option Str) (nm : Str)
    (hk : kindType f.node.kind = some (NS.html, nm))
    (hn : (among nm impliedEndTags && some nm != ex) = false) :
    (generateImpliedEndTags ex).run s = .ok ((), s) := by
  unfold generateImpliedEndTags
  have hr : s.dev.rubyOld = false := by rw [h.dev]
  simp only [run_bind, h.impliedTypes_run, ok_bind, get_run, hr, Bool.false_eq_true, ↓reduceIte, modify_run]
  rw [typesOf_opens_reverse]
  simp only [List.map_cons, hk, impliedPop, impliedCount, hn, Bool.false_eq_true, ↓reduceIte, List.drop_zero]

end H5.Props.C01b
