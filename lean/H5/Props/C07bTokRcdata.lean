/-
  Property C07b (tokenizer side), stage 4 — text inside `<title>` / `<textarea>`: after the tree builder has switched
  the tokenizer to the RCDATA state, escaped text is read back piece by piece as in the data state, and the end
  tag closes the element and returns to the data state.
-/
import H5.Props.C07bTokStart
set_option linter.unusedSimpArgs false
namespace H5.Props.C07b
open H5 H5.Gen H5.Model H5.Model.Tokenizer
open H5.Model.Serializer (escape Opts attrOut)
open H5.Props.C08c

/-- the tokenizer is in the RCDATA state on `inp`, nothing queued, and the last start tag emitted was `<elem>` -/
def RcAt (elem : Str) (ts : St) (inp : Str) : Prop :=
  ts.state = .rcdataState ∧ ts.currentToken = some (.emittedStartTag elem) ∧ ts.input = inp ∧ ts.tokenQueue = []

theorem RcAt.eq {elem : Str} {ts : St} {inp : Str} (h : RcAt elem ts inp) :
    ts = ⟨.rcdataState, inp, some (.emittedStartTag elem), ts.temporaryBuffer, [], ts.cdataAllowed⟩ := by
  obtain ⟨st, i, cur, tb, q, cd⟩ := ts
  obtain ⟨h1, h2, h3, h4⟩ := h
  simp only at h1 h2 h3 h4
  subst h1 h2 h3 h4
  rfl

/-- one pull of escaped text in the RCDATA state (the state stays RCDATA, the last start tag is kept) -/
theorem next_rcdata_text (elem : Str) (ts : St) (d rest : Str) (hd : d ≠ []) (hok : valueOK d = true)
    (hrest : rest = [] ∨ rest.head? = some 60) (h : RcAt elem ts (escape d ++ rest)) :
    ∃ d1 d2 tok ts', d = d1 ++ d2 ∧ d1 ≠ [] ∧ (tok = .chars d1 ∨ tok = .space d1) ∧
      next ts = .ok (some (tok, ts')) ∧ RcAt elem ts' (escape d2 ++ rest) := by
  obtain ⟨d1, d2, tok, e, hne, ht, r⟩ :=
    text_pull true d rest hd hok hrest (some (.emittedStartTag elem)) ts.temporaryBuffer ts.cdataAllowed
  rw [h.eq]
  exact ⟨d1, d2, tok, _, e, hne, ht, next_of_steps r rfl (by len_tac), rfl, rfl, rfl, rfl⟩

theorem run_endTitle (rest : Str) (tb : Option Str) (cd : Bool) :
    run 8 ⟨.rcdataState, [60, 47, 116, 105, 116, 108, 101, 62] ++ rest, some (.emittedStartTag [116, 105, 116, 108, 101]),
        tb, [], cd⟩
      = some ⟨.dataState, rest, some (.endTag [116, 105, 116, 108, 101] [] false), some [116, 105, 116, 108, 101],
          [.endTag [116, 105, 116, 108, 101] [] false], cd⟩ := rfl

/-- `</title>` in the RCDATA state after `<title>` -/
theorem next_rcdata_endTitle (ts : St) (rest : Str) (h : RcAt (lit "title") ts (lit "</title>" ++ rest)) :
    ∃ ts', next ts = .ok (some (.endTag (lit "title") [] false, ts')) ∧ DataAt ts' rest := by
  have e1 : lit "</title>" = [60, 47, 116, 105, 116, 108, 101, 62] := by decide
  have e2 : lit "title" = [116, 105, 116, 108, 101] := by decide
  rw [e1, e2] at h
  rw [e2, h.eq]
  have r := stepsLe_of_run (run_endTitle rest ts.temporaryBuffer ts.cdataAllowed)
  exact ⟨_, next_of_steps r rfl (by len_tac), rfl, rfl, rfl⟩

theorem run_endTextarea (rest : Str) (tb : Option Str) (cd : Bool) :
    run 11 ⟨.rcdataState, [60, 47, 116, 101, 120, 116, 97, 114, 101, 97, 62] ++ rest,
        some (.emittedStartTag [116, 101, 120, 116, 97, 114, 101, 97]), tb, [], cd⟩
      = some ⟨.dataState, rest, some (.endTag [116, 101, 120, 116, 97, 114, 101, 97] [] false),
          some [116, 101, 120, 116, 97, 114, 101, 97], [.endTag [116, 101, 120, 116, 97, 114, 101, 97] [] false], cd⟩ := rfl

/-- `</textarea>` in the RCDATA state after `<textarea>` -/
theorem next_rcdata_endTextarea (ts : St) (rest : Str) (h : RcAt (lit "textarea") ts (lit "</textarea>" ++ rest)) :
    ∃ ts', next ts = .ok (some (.endTag (lit "textarea") [] false, ts')) ∧ DataAt ts' rest := by
  have e1 : lit "</textarea>" = [60, 47, 116, 101, 120, 116, 97, 114, 101, 97, 62] := by decide
  have e2 : lit "textarea" = [116, 101, 120, 116, 97, 114, 101, 97] := by decide
  rw [e1, e2] at h
  rw [e2, h.eq]
  have r := stepsLe_of_run (run_endTextarea rest ts.temporaryBuffer ts.cdataAllowed)
  exact ⟨_, next_of_steps r rfl (by len_tac), rfl, rfl, rfl⟩

end H5.Props.C07b
