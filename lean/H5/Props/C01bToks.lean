/-
  C01b — the token sequences of a covered document (what the walker / serializer / tokenizer chain yields: one start
  tag, the content, one end tag per element; a text node as one or more Characters / SpaceCharacters tokens), and how
  `H5.Spec.TC.runTokens` folds over a token list.
-/
import H5.Props.C01bStep4
set_option linter.unusedSimpArgs false
set_option linter.unusedVariables false
namespace H5.Props.C01b
open H5 H5.Spec.TC
open H5.Props.C07b (fmtName fmtNames catOf voidName Cat okNode okForest G0 headOK docTree commentOKm htmlNs sHtml sHead
  sBody sTitle isText)

/-- the tokens of a text node: its data cut into non-empty pieces, each a Characters or a SpaceCharacters token -/
inductive TextToks : Str → List TTok → Prop
  | one {d : Str} {tok : TTok} : d ≠ [] → (tok = .chars d ∨ tok = .space d) → TextToks d [tok]
  | cons {d1 d2 : Str} {tok : TTok} {rest : List TTok} : d1 ≠ [] → (tok = .chars d1 ∨ tok = .space d1) →
      TextToks d2 rest → TextToks (d1 ++ d2) (tok :: rest)

mutual
/-- the tokens of a node of the body -/
def NodeToks : Tree → List TTok → Prop
  | .text d, ts => TextToks d ts
  | .comment d, ts => ts = [.comment d]
  | .elem _ nm attrs cs, ts =>
    if voidName nm then ts = [.startTag nm (pairsOf attrs) false]
    else ∃ mid, ForestToks cs mid ∧ ts = .startTag nm (pairsOf attrs) false :: (mid ++ [.endTag nm [] false])
  | _, _ => False
def ForestToks : List Tree → List TTok → Prop
  | [], ts => ts = []
  | t :: rest, ts => ∃ a b, NodeToks t a ∧ ForestToks rest b ∧ ts = a ++ b
end

/-- the tokens of the content of `head` -/
def HeadToks : List Tree → List TTok → Prop
  | [], ts => ts = []
  | [.elem _ nm _ cs], ts =>
    ∃ mid, (match cs with
      | [] => mid = []
      | [.text d] => TextToks d mid
      | _ => False) ∧ ts = .startTag nm [] false :: (mid ++ [.endTag nm [] false])
  | _, _ => False

/-- **the token sequences of the covered document** `docTree hd cs` -/
def DocToks (hd cs : List Tree) (ts : List TTok) : Prop :=
  ∃ th tb, HeadToks hd th ∧ ForestToks cs tb ∧
    ts = [.doctype (some sHtml) none none true, .startTag sHtml [] false, .startTag sHead [] false] ++ th ++
      [.endTag sHead [] false, .startTag sBody [] false] ++ tb ++ [.endTag sBody [] false, .endTag sHtml [] false]

/-! ### `runTokens` as a fold -/

/-- one tokenizer token: its tree-construction tokens in order -/
def tokRun (t : TTok) : M Unit := do
  for tk in ofTTok false t do processToken tk

/-- the fold of `runTokens` (`tokSwitch` is reset before every token) -/
def specFold : St → List TTok → Except PyErr St
  | s, [] => .ok s
  | s, t :: rest =>
    match (tokRun t).run { s with tokSwitch := none } with
    | .ok (_, s1) => specFold s1 rest
    | .error e => .error e

theorem specFold_append (s : St) (a b : List TTok) :
    specFold s (a ++ b) = (specFold s a >>= fun s1 => specFold s1 b) := by
  induction a generalizing s with
  | nil => rfl
  | cons t rest ih =>
    simp only [List.cons_append, specFold]
    split
    · exact ih _
    · rfl

theorem go_eq_fold (cfg : Config) (hc : cfg.dev.charsRunUnit = false) (toks : List TTok) :
    ∀ (s : St) (i : Nat) (acc : List (Nat × TokSwitch)) (s' : St), specFold s toks = .ok s' →
      ∃ sws, runTokens.go cfg s i acc toks = .ok (s', sws) := by
  induction toks with
  | nil =>
    intro s i acc s' h
    simp only [specFold] at h
    cases h
    exact ⟨acc.reverse, rfl⟩
  | cons t rest ih =>
    intro s i acc s' h
    simp only [specFold] at h
    unfold runTokens.go
    rw [hc]
    split at h
    · rename_i u s1 hrun
      have hrun' : (tokRun t).run { s with tokSwitch := none } = .ok (u, s1) := hrun
      unfold tokRun at hrun'
      simp only [hrun', ok_bind]
      exact ih s1 _ _ s' h
    · cases h

end H5.Props.C01b
