/-
  C03 fuel part, level 2 — the static call-graph check and `mkRec_ok`.
-/
import H5.Props.C03bDispatch
set_option linter.unusedSimpArgs false
set_option linter.unusedVariables false
namespace H5.Props.C03b
open H5 H5.Model H5.Model.TB H5.Model.Dom
open H5.Props.C02c (NF Post Post_bind Post_mono Post_pure Post_ok Post_error Post_throw Post_ite
  NF_typeError NF_keyError NF_indexError NF_assertFail NF_valueError NF_lookupError)

/-! ### the ranks as functions of the token class -/

/-- `needS` in terms of the two facts about the token name it depends on -/
def needSb (ph : Phase) (html leaf : Bool) : Nat :=
  match ph with
  | .inBody => if leaf then 0 else 3
  | .beforeHead | .inHead | .afterBody | .afterAfterBody => if html then 1 else 0
  | .inHeadNoscript | .afterHead | .afterAfterFrameset | .inTableText => 1
  | .inSelect | .afterFrameset => if html then 0 else 1
  | .inSelectInTable => if html then 1 else 2
  | .inTable | .inCaption | .inCell | .inFrameset => if html then 0 else 4
  | .inTableBody | .inRow => if html then 0 else 5
  | _ => 0

theorem needS_eq (ph : Phase) (tok : Token) :
    needS ph tok = needSb ph (isHtml tok) (leafInBody.contains (tokName tok)) := by
  cases ph <;> rfl

def needEb (ph : Phase) (caption : Bool) : Nat :=
  if caption then
    match ph with
    | .inSelectInTable | .inTableText => 1
    | .inForeignContent => 3
    | _ => 0
  else
    match ph with
    | .inTableBody | .inRow | .inCaption => 2
    | .inTable | .inCell | .inSelectInTable | .inTableText => 1
    | .inForeignContent => 3
    | _ => 0

theorem needE_eq (ph : Phase) (tok : Token) : needE ph tok = needEb ph (isCaption tok) := by
  unfold needE needEb; rfl

/-- upper bound of a requirement for a start tag of the given class -/
def Req.boundS (html leaf : Bool) : Req → Nat
  | .S ph => needSb ph html leaf
  | .K k => k
  | .E _ => 1000

def Req.boundE (caption : Bool) : Req → Nat
  | .E ph => needEb ph caption
  | .K k => k
  | .S _ => 1000

/-! ### the handlers a phase can select -/

/-- the handler selected for the name `nm` (a literal) -/
def exactCand (tbl : List (String × (List (Str × String) × Option String))) (attr : String) (ph : Phase)
    (nm : Str) : List String :=
  match lookupHandler tbl attr ph nm with
  | .ok h => [h]
  | .error _ => []

/-- the handlers selectable for names outside `excl`: the entries with such a key, and the default -/
def otherCands (tbl : List (String × (List (Str × String) × Option String))) (ph : Phase) (excl : List Str) :
    List String :=
  match ph.className with
  | .ok cls =>
    match tbl.find? (fun p => p.1 == cls) with
    | some (_, (items, dflt)) => ((items.filter (fun p => !excl.contains p.1)).map (·.2) ++ dflt.toList).eraseDups
    | none => []
  | .error _ => []

theorem lookup_exact {tbl attr ph nm h} (hl : lookupHandler tbl attr ph nm = .ok h) :
    h ∈ exactCand tbl attr ph nm := by
  unfold exactCand; rw [hl]; simp

theorem lookup_other {tbl attr ph nm h} (excl : List Str) (hl : lookupHandler tbl attr ph nm = .ok h)
    (hn : excl.contains nm = false) : h ∈ otherCands tbl ph excl := by
  unfold lookupHandler at hl
  unfold otherCands
  cases hc : ph.className with
  | error e => rw [hc] at hl; cases hl
  | ok cls =>
    rw [hc] at hl
    simp only [bind, Except.bind] at hl
    dsimp only
    split at hl
    · cases hl
    · rename_i items dflt hfind
      rw [hfind]
      dsimp only
      rw [List.mem_eraseDups]
      split at hl
      · rename_i k hd hf
        cases hl
        have hmem := List.mem_of_find?_eq_some hf
        have hk := List.find?_some hf
        simp only [beq_iff_eq] at hk
        apply List.mem_append_left
        simp only [List.mem_map, List.mem_filter]
        refine ⟨(k, h), ⟨hmem, ?_⟩, rfl⟩
        simp only [hk, hn, Bool.not_false]
      · split at hl
        · cases hl
          apply List.mem_append_right
          simp
        · cases hl

/-! ### the call graph, checked on the generated tables by kernel evaluation -/

/-- start tags, names outside `leafInBody`: every selectable handler only makes nested dispatches of smaller rank -/
theorem graphS_other : ∀ ph ∈ Phase.all, ∀ h ∈ otherCands Gen.startTagHandlers ph leafInBody, ∀ q ∈ reqsOf h,
    q.boundS false false < needSb ph false false := by decide +kernel

/-- start tags `html`, `img`, `form`, `hr`, `label`, `input` -/
theorem graphS_exact : ∀ ph ∈ Phase.all, ∀ nm ∈ leafInBody,
    ∀ h ∈ exactCand Gen.startTagHandlers "startTagHandler" ph nm, ∀ q ∈ reqsOf h,
      q.boundS (nm == nmHtml) true < needSb ph (nm == nmHtml) true := by decide +kernel

/-- end tags other than `</caption>` -/
theorem graphE_other : ∀ ph ∈ Phase.all, ∀ h ∈ otherCands Gen.endTagHandlers ph [nmCaption], ∀ q ∈ reqsOf h,
    q.boundE false < needEb ph false := by decide +kernel

/-- `</caption>` -/
theorem graphE_exact : ∀ ph ∈ Phase.all,
    ∀ h ∈ exactCand Gen.endTagHandlers "endTagHandler" ph nmCaption, ∀ q ∈ reqsOf h,
      q.boundE true < needEb ph true := by decide +kernel

/-- a requirement of the form `k < n` with `k` below the rank `b` of the calling entry point -/
def kOnly (b : Nat) : Req → Bool
  | .K k => k < b
  | _ => false

/-- the method `m` of phase `ph`, when it is not one of the generic `Phase.process*Tag`, only needs `k < n` -/
def plainOK (ph : Phase) (m : String) (b : Nat) : Bool :=
  match resolveMethod ph m with
  | .ok q => (reqsOf q).all (kOnly b)
  | .error _ => true

def minS (ph : Phase) : Nat := min (needSb ph true true) (min (needSb ph false true) (needSb ph false false))
def minE (ph : Phase) : Nat := min (needEb ph true) (needEb ph false)

theorem graphPlain : ∀ ph ∈ Phase.all,
    plainOK ph "processStartTag" (minS ph) = true ∧ plainOK ph "processEndTag" (minE ph) = true ∧
    plainOK ph "processCharacters" (needCh ph) = true ∧ plainOK ph "processSpaceCharacters" (needSp ph) = true ∧
    plainOK ph "processComment" (needCm ph) = true ∧ plainOK ph "processDoctype" 0 = true ∧
    plainOK ph "processEOF" (needEOF ph) = true := by decide +kernel

/-- the generic `Phase.processStartTag` / `Phase.processEndTag` are only ever the start / end tag method -/
theorem resolve_generic : ∀ ph ∈ Phase.all,
    resolveMethod ph "processStartTag" ≠ .ok "Phase.processEndTag" ∧
    resolveMethod ph "processEndTag" ≠ .ok "Phase.processStartTag" ∧
    (∀ m ∈ ["processCharacters", "processSpaceCharacters", "processComment", "processDoctype"],
      resolveMethod ph m ≠ .ok "Phase.processStartTag" ∧ resolveMethod ph m ≠ .ok "Phase.processEndTag") := by
  decide +kernel

theorem Phase.mem_all (ph : Phase) : ph ∈ Phase.all := by cases ph <;> simp [Phase.all]

end H5.Props.C03b
