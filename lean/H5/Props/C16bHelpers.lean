/-
  C16 simulation — `Ob` for the algorithms of Helpers.lean and the loop helpers of InBody.lean.
-/
import H5.Props.C16bPrim
set_option linter.unusedSimpArgs false
set_option linter.unusedVariables false
namespace H5.Props.C16b
open H5 H5.Model H5.Model.TB H5.Model.Dom

/-- the inlined `node.cloneNode()` pattern `let st ← get; let (a, clone) ← st.arena.cloneNode n; set {st with arena := a}` -/
theorem Ob_cloneM (n : NodeId) : Ob (do
      let st ← get
      let x ← (st.arena.cloneNode n : Except PyErr _)
      set { st with arena := x.1 }
      pure x : M (Arena × NodeId)) := ⟨fun st _ => by
  have hp := (PP_arena_cloneNode st.arena n).out
  have hrun : ∀ s : PState, (do
      let st ← get
      let x ← (st.arena.cloneNode n : Except PyErr _)
      set { st with arena := x.1 }
      pure x : M (Arena × NodeId)).run s = match s.arena.cloneNode n with
        | .ok x => .ok (x, { s with arena := x.1 })
        | .error e => .error e := by
    intro s
    show ((liftM (s.arena.cloneNode n) : M _) >>= fun p => (set { s with arena := p.1 } : M Unit) >>= fun _ =>
      (pure p : M (Arena × NodeId))).run s = _
    cases s.arena.cloneNode n <;> rfl
  rw [hrun, hrun]
  show Rel st (match st.arena.cloneNode n with | .ok x => .ok (x, { st with arena := x.1 }) | .error e => .error e)
    (match st.arena.cloneNode n with | .ok x => .ok (x, { flip st with arena := x.1 }) | .error e => .error e)
  cases hg : st.arena.cloneNode n with
  | ok p => exact ⟨rfl, [], by simp, rfl⟩
  | error e => rw [hg] at hp; exact ⟨hp, Or.inl rfl⟩⟩

/-- projection form (what `dsimp only` makes of the destructuring `let`) -/
theorem Ob_get_clone_proj {β : Type} (n : NodeId) (rest : Arena × NodeId → M β) (h : ∀ x, Ob (rest x)) :
    Ob (do
      let st ← get
      let x ← (st.arena.cloneNode n : Except PyErr _)
      set { st with arena := x.1 }
      rest x) := by
  have : (do
      let st ← get
      let x ← (st.arena.cloneNode n : Except PyErr _)
      set { st with arena := x.1 }
      rest x) = ((do
        let st ← get
        let x ← (st.arena.cloneNode n : Except PyErr _)
        set { st with arena := x.1 }
        pure x : M (Arena × NodeId)) >>= rest) := by
    simp only [bind_assoc, pure_bind]
  rw [this]
  haveI := Ob_cloneM n
  infer_instance

/-- destructuring form -/
theorem Ob_get_clone {β : Type} (n : NodeId) (rest : NodeId → M β) (h : ∀ c, Ob (rest c)) :
    Ob (do
      let st ← get
      let (a, clone) ← (st.arena.cloneNode n : Except PyErr _)
      set { st with arena := a }
      rest clone) :=
  Ob_get_clone_proj n (fun x => rest x.2) (fun x => h x.2)

set_option hygiene false in
macro "obc_step" : tactic => `(tactic| first
  | (refine Ob_get_clone _ _ ?_)
  | (refine Ob_get_clone_proj _ _ ?_)
  | ob_step)

/-! ### treebuilders/base.py -/

instance Ob_nodesEqual (a b) : Ob (nodesEqual a b) := by unfold nodesEqual; ob_auto

instance Ob_afeAppendScan (node) : ∀ l n, Ob (afeAppendScan node l n)
  | [], n => by unfold afeAppendScan; ob_auto
  | none :: _, n => by unfold afeAppendScan; ob_auto
  | some e :: rest, n => by
    unfold afeAppendScan
    haveI : ∀ k, Ob (afeAppendScan node rest k) := Ob_afeAppendScan node rest
    ob_auto

instance Ob_afeAppend (node) : Ob (afeAppend node) := by unfold afeAppend; ob_auto

instance Ob_elementInScopeLoop (isTarget : NodeId → M Bool) [h : ∀ n, Ob (isTarget n)] (elems invert) :
    ∀ l, Ob (elementInScopeLoop isTarget elems invert l)
  | [] => by unfold elementInScopeLoop; ob_auto
  | node :: rest => by
    unfold elementInScopeLoop
    haveI := Ob_elementInScopeLoop isTarget elems invert rest
    ob_auto

instance Ob_elementInScope (t v) : Ob (elementInScope t v) := by unfold elementInScope; ob_auto
instance Ob_elementInScopeNode (t v) : Ob (elementInScopeNode t v) := by unfold elementInScopeNode; ob_auto

instance Ob_findTable : ∀ l, Ob (getTableMisnestedNodePosition.findTable l)
  | [] => by unfold getTableMisnestedNodePosition.findTable; ob_auto
  | e :: rest => by
    unfold getTableMisnestedNodePosition.findTable
    haveI := Ob_findTable rest
    ob_auto

instance Ob_getTableMisnestedNodePosition : Ob getTableMisnestedNodePosition := by
  unfold getTableMisnestedNodePosition; ob_auto

instance Ob_createElement (d) : Ob (createElement d) := by unfold createElement; ob_auto
instance Ob_insertElementNormal (d) : Ob (insertElementNormal d) := by unfold insertElementNormal; ob_auto
instance Ob_insertElementTable (d) : Ob (insertElementTable d) := by unfold insertElementTable; ob_auto
instance Ob_insertElement (d) : Ob (insertElement d) := by unfold insertElement; ob_auto
instance Ob_insertElementTok (t s) : Ob (insertElementTok t s) := by unfold insertElementTok; ob_auto
instance Ob_insertText (d) : Ob (insertText d) := by unfold insertText; ob_auto
instance Ob_insertRoot (d) : Ob (insertRoot d) := by unfold insertRoot; ob_auto
instance Ob_insertDoctype (n p s) : Ob (insertDoctype n p s) := by unfold insertDoctype; ob_auto
instance Ob_insertComment (d p) : Ob (insertComment d p) := by unfold insertComment; ob_auto

theorem Ob_generateImpliedEndTagsAux (exclude) : ∀ fuel, Ob (generateImpliedEndTagsAux exclude fuel)
  | 0 => by unfold generateImpliedEndTagsAux; ob_auto
  | fuel + 1 => by
    unfold generateImpliedEndTagsAux
    haveI := Ob_generateImpliedEndTagsAux exclude fuel
    ob_auto
instance Ob_generateImpliedEndTagsAux_inst (exclude fuel) : Ob (generateImpliedEndTagsAux exclude fuel) :=
  Ob_generateImpliedEndTagsAux exclude fuel
instance Ob_generateImpliedEndTags (exclude) : Ob (generateImpliedEndTags exclude) := by
  unfold generateImpliedEndTags; ob_auto

theorem Ob_reconstructRewind (l) : ∀ i entry, Ob (reconstructRewind l i entry)
  | 0, entry => by unfold reconstructRewind; ob_auto
  | i + 1, entry => by
    unfold reconstructRewind
    haveI : ∀ e, Ob (reconstructRewind l i e) := Ob_reconstructRewind l i
    ob_auto
instance Ob_reconstructRewind_inst (l i entry) : Ob (reconstructRewind l i entry) := Ob_reconstructRewind l i entry

theorem Ob_reconstructLoop : ∀ fuel i, Ob (reconstructLoop fuel i)
  | 0, i => by unfold reconstructLoop; ob_auto
  | fuel + 1, i => by
    unfold reconstructLoop
    haveI : ∀ j, Ob (reconstructLoop fuel j) := Ob_reconstructLoop fuel
    repeat' obc_step
instance Ob_reconstructLoop_inst (fuel i) : Ob (reconstructLoop fuel i) := Ob_reconstructLoop fuel i

instance Ob_reconstructActiveFormattingElements : Ob reconstructActiveFormattingElements := by
  unfold reconstructActiveFormattingElements; ob_auto

instance Ob_clearActiveFormattingElements : Ob clearActiveFormattingElements := by
  unfold clearActiveFormattingElements; ob_auto

instance Ob_elementInActiveFormattingElements_loop (name) :
    ∀ l, Ob (elementInActiveFormattingElements.loop name l)
  | [] => by unfold elementInActiveFormattingElements.loop; ob_auto
  | none :: _ => by unfold elementInActiveFormattingElements.loop; ob_auto
  | some item :: rest => by
    unfold elementInActiveFormattingElements.loop
    haveI := Ob_elementInActiveFormattingElements_loop name rest
    ob_auto

instance Ob_elementInActiveFormattingElements (name) : Ob (elementInActiveFormattingElements name) := by
  unfold elementInActiveFormattingElements; ob_auto

instance Ob_getDocument : Ob getDocument := by unfold getDocument; ob_auto
instance Ob_getFragment : Ob getFragment := by unfold getFragment; ob_auto

/-! ### html5parser.py helpers -/

instance Ob_isHTMLIntegrationPoint (e) : Ob (isHTMLIntegrationPoint e) := by unfold isHTMLIntegrationPoint; ob_auto
instance Ob_isMathMLTextIntegrationPoint (e) : Ob (isMathMLTextIntegrationPoint e) := by
  unfold isMathMLTextIntegrationPoint; ob_auto

instance Ob_resetInsertionModeLoop (bottom) : ∀ l last, Ob (resetInsertionModeLoop bottom l last)
  | [], last => by unfold resetInsertionModeLoop; ob_auto
  | node :: rest, last => by
    unfold resetInsertionModeLoop
    haveI : ∀ b, Ob (resetInsertionModeLoop bottom rest b) := Ob_resetInsertionModeLoop bottom rest
    ob_auto

instance Ob_resetInsertionMode : Ob resetInsertionMode := by unfold resetInsertionMode; ob_auto
instance Ob_parseRCDataRawtext (t c) : Ob (parseRCDataRawtext t c) := by unfold parseRCDataRawtext; ob_auto

/-! ### the loop helpers of InBody.lean -/

theorem Ob_popUntilLoop (pred : NodeId → M Bool) [hp : ∀ n, Ob (pred n)] (site) : ∀ fuel, Ob (popUntilLoop pred site fuel)
  | 0 => by unfold popUntilLoop; ob_auto
  | fuel + 1 => by
    unfold popUntilLoop
    haveI := Ob_popUntilLoop pred site fuel
    ob_auto
instance Ob_popUntil (pred : NodeId → M Bool) [hp : ∀ n, Ob (pred n)] (site) : Ob (popUntil pred site) := by
  unfold popUntil
  haveI := Ob_popUntilLoop pred site
  ob_auto

theorem Ob_popWhileLoop (cond : NodeId → M Bool) [hc : ∀ n, Ob (cond n)] (each : NodeId → M Unit)
    [he : ∀ n, Ob (each n)] (site) : ∀ fuel, Ob (popWhileLoop cond each site fuel)
  | 0 => by unfold popWhileLoop; ob_auto
  | fuel + 1 => by
    unfold popWhileLoop
    haveI := Ob_popWhileLoop cond each site fuel
    ob_auto
instance Ob_popWhile (cond : NodeId → M Bool) [hc : ∀ n, Ob (cond n)] (site) (each : NodeId → M Unit)
    [he : ∀ n, Ob (each n)] : Ob (popWhile cond site each) := by
  unfold popWhile
  haveI := Ob_popWhileLoop cond each site
  ob_auto

set_option hygiene false in
macro "obh_step" : tactic => `(tactic| first
  | (refine Ob_get_clone _ _ ?_)
  | (refine Ob_get_clone_proj _ _ ?_)
  | (with_reducible refine @Ob_popWhile _ ?_ _ _ ?_)
  | (with_reducible refine @Ob_popUntil _ ?_ _)
  | ob_step)
macro "obh_auto" : tactic => `(tactic| repeat' obh_step)

end H5.Props.C16b
