/-
  Property C15 (part b) — inject_meta_charset is idempotent on head-shaped streams, and its per-token rewrite only
  ever changes the VALUE of a `charset` / `content` attribute of a `meta` empty tag.
  Model: H5.Model.InjectMeta; base theorem: `H5.Props.C15.C15_inject`.
-/
import H5.Props.C15
namespace H5.Props.C15b
open H5 H5.Model.InjectMeta H5.Props.C15

/-! ### 1. the attribute rewrite: what it may change -/

/-- `b` is `a` with the same key; the value is unchanged, or `a` is a no-namespace `charset` attribute now holding
the encoding, or a no-namespace `content` attribute now holding `text/html; charset=<enc>` -/
def AttrRel (enc : Str) (a b : Attr) : Prop :=
  b.ns = a.ns ∧ b.name = a.name ∧
    (b.value = a.value ∨
     (a.ns = none ∧ ((a.name.asciiLower = sCharset ∧ b.value = enc) ∨
                     (a.name = sContent ∧ b.value = sTextHtmlCharset ++ enc))))

/-- pointwise relation between two lists of the same length (core has no `Forall2`) -/
inductive Forall2 {α : Type} (R : α → α → Prop) : List α → List α → Prop
  | nil : Forall2 R [] []
  | cons {a b : α} {l r : List α} : R a b → Forall2 R l r → Forall2 R (a :: l) (b :: r)

theorem attrRel_refl (enc : Str) (a : Attr) : AttrRel enc a a := ⟨rfl, rfl, Or.inl rfl⟩

theorem forall2_refl (enc : Str) (l : List Attr) : Forall2 (AttrRel enc) l l := by
  induction l with
  | nil => exact .nil
  | cons a l ih => exact .cons (attrRel_refl enc a) ih

/-! step lemmas for `scanAttrs` and `setContent` -/

/-- the result of the loop on `a :: rest` from the result on `rest` when the loop does not `break` at `a` -/
def consRes (a : Attr) (r : Option (List Attr) × Bool) : Option (List Attr) × Bool :=
  match r with
  | (some r, h) => (some (a :: r), h)
  | (none, h) => (none, h)

/-- `name == 'http-equiv' and value.lower() == 'content-type'` -/
def flag (a : Attr) : Bool := decide (a.name = sHttpEquiv) && decide (a.value.asciiLower = sContentType)

theorem scan_cons_skip (enc : Str) (a : Attr) (rest : List Attr) (has : Bool) (h : a.ns.isSome = true) :
    scanAttrs enc (a :: rest) has = consRes a (scanAttrs enc rest has) := by
  simp only [scanAttrs, h, if_true, consRes]
  rcases scanAttrs enc rest has with ⟨o, h0⟩
  cases o <;> rfl

theorem scan_cons_charset (enc : Str) (a : Attr) (rest : List Attr) (has : Bool) (h : a.ns.isSome = false)
    (hc : a.name.asciiLower = sCharset) :
    scanAttrs enc (a :: rest) has = (some ({ a with value := enc } :: rest), has) := by
  simp [scanAttrs, h, hc]

theorem scan_cons_other (enc : Str) (a : Attr) (rest : List Attr) (has : Bool) (h : a.ns.isSome = false)
    (hc : ¬ a.name.asciiLower = sCharset) :
    scanAttrs enc (a :: rest) has = consRes a (scanAttrs enc rest (has || flag a)) := by
  simp only [scanAttrs, h, hc, if_false, Bool.false_eq_true, consRes, flag]
  rcases scanAttrs enc rest (has || (decide (a.name = sHttpEquiv) && decide (a.value.asciiLower = sContentType))) with ⟨o, h0⟩
  cases o <;> rfl

theorem consRes_some (a : Attr) (x : Option (List Attr) × Bool) (r : List Attr) (h : Bool)
    (hx : consRes a x = (some r, h)) : ∃ r0, x = (some r0, h) ∧ r = a :: r0 := by
  rcases x with ⟨o, h0⟩
  cases o with
  | none => simp [consRes] at hx
  | some r0 => simp [consRes] at hx; exact ⟨r0, by simp [hx.2], hx.1.symm⟩

theorem consRes_none (a : Attr) (x : Option (List Attr) × Bool) (h : Bool)
    (hx : consRes a x = (none, h)) : x = (none, h) := by
  rcases x with ⟨o, h0⟩
  cases o with
  | none => simpa [consRes] using hx
  | some r0 => simp [consRes] at hx

/-- the per-attribute function of `setContent` -/
def setC (enc : Str) (a : Attr) : Attr :=
  if a.ns.isNone ∧ a.name = sContent then { a with value := sTextHtmlCharset ++ enc } else a

theorem setContent_eq (enc : Str) (attrs : List Attr) : setContent enc attrs = attrs.map (setC enc) := rfl
theorem setC_ns (enc : Str) (a : Attr) : (setC enc a).ns = a.ns := by unfold setC; split <;> rfl
theorem setC_name (enc : Str) (a : Attr) : (setC enc a).name = a.name := by unfold setC; split <;> rfl
theorem setC_of_not (enc : Str) (a : Attr) (h : ¬ (a.ns.isNone = true ∧ a.name = sContent)) : setC enc a = a := by
  unfold setC; rw [if_neg h]
theorem setC_of (enc : Str) (a : Attr) (h : a.ns.isNone = true ∧ a.name = sContent) :
    setC enc a = { a with value := sTextHtmlCharset ++ enc } := by
  unfold setC; rw [if_pos h]
theorem setC_idem (enc : Str) (a : Attr) : setC enc (setC enc a) = setC enc a := by
  by_cases h : a.ns.isNone = true ∧ a.name = sContent
  · rw [setC_of enc a h]; exact setC_of enc _ h
  · rw [setC_of_not enc a h, setC_of_not enc a h]
theorem content_ne : sContent.asciiLower ≠ sCharset ∧ sContent ≠ sHttpEquiv := by decide
theorem flag_setC (enc : Str) (a : Attr) : flag (setC enc a) = flag a := by
  by_cases hn : a.name = sHttpEquiv
  · rw [setC_of_not]
    intro h; rw [h.2] at hn; exact content_ne.2 hn
  · simp [flag, setC_name, hn]

theorem scan_rel (enc : Str) (attrs : List Attr) : ∀ (has : Bool) (r : List Attr) (h : Bool),
    scanAttrs enc attrs has = (some r, h) → Forall2 (AttrRel enc) attrs r := by
  induction attrs with
  | nil => intro has r h hs; simp [scanAttrs] at hs
  | cons a rest ih =>
    intro has r h hs
    by_cases hns : a.ns.isSome = true
    · rw [scan_cons_skip enc a rest has hns] at hs
      obtain ⟨r0, hx, rfl⟩ := consRes_some a _ r h hs
      exact .cons (attrRel_refl enc a) (ih has r0 h hx)
    · simp only [Bool.not_eq_true] at hns
      by_cases hc : a.name.asciiLower = sCharset
      · rw [scan_cons_charset enc a rest has hns hc] at hs
        simp only [Prod.mk.injEq, Option.some.injEq] at hs
        obtain ⟨rfl, -⟩ := hs
        have hn : a.ns = none := by cases hx : a.ns <;> simp [hx] at hns ⊢
        exact .cons ⟨rfl, rfl, Or.inr ⟨hn, Or.inl ⟨hc, rfl⟩⟩⟩ (forall2_refl enc rest)
      · rw [scan_cons_other enc a rest has hns hc] at hs
        obtain ⟨r0, hx, rfl⟩ := consRes_some a _ r h hs
        exact .cons (attrRel_refl enc a) (ih _ r0 h hx)

theorem setContent_rel (enc : Str) (attrs : List Attr) : Forall2 (AttrRel enc) attrs (setContent enc attrs) := by
  rw [setContent_eq]
  induction attrs with
  | nil => exact .nil
  | cons a rest ih =>
    refine .cons ?_ ih
    by_cases hc : a.ns.isNone = true ∧ a.name = sContent
    · rw [setC_of enc a hc]
      have hn : a.ns = none := by cases hx : a.ns <;> simp [hx] at hc ⊢
      exact ⟨rfl, rfl, Or.inr ⟨hn, Or.inr ⟨hc.2, rfl⟩⟩⟩
    · rw [setC_of_not enc a hc]
      exact attrRel_refl enc a

/-- **the attribute rewrite keeps every key and touches only `charset` / `content` values** -/
theorem rewriteMetaAttrs_rel (enc : Str) (attrs : List Attr) :
    Forall2 (AttrRel enc) attrs (rewriteMetaAttrs enc attrs).1 := by
  unfold rewriteMetaAttrs
  rcases hsc : scanAttrs enc attrs false with ⟨o, h⟩
  cases o with
  | some r => exact scan_rel enc attrs false r h hsc
  | none =>
    simp only []
    split
    · exact setContent_rel enc attrs
    · exact forall2_refl enc attrs

theorem forall2_keys (enc : Str) (l r : List Attr) (h : Forall2 (AttrRel enc) l r) :
    r.map (fun a => (a.ns, a.name)) = l.map (fun a => (a.ns, a.name)) := by
  induction h with
  | nil => rfl
  | cons hab _ ih => simp [hab.1, hab.2.1, ih]

/-- the list of attribute keys `(namespace, name)` — order included — is unchanged -/
theorem rewriteMetaAttrs_keys (enc : Str) (attrs : List Attr) :
    (rewriteMetaAttrs enc attrs).1.map (fun a => (a.ns, a.name)) = attrs.map (fun a => (a.ns, a.name)) :=
  forall2_keys enc _ _ (rewriteMetaAttrs_rel enc attrs)

/-! ### 2. `rw` preserves type, namespace, name and attribute keys -/

/-- attributes of a token (`token["data"]` of a tag) -/
def tokAttrs : Tok → List Attr
  | .startTag _ _ a | .emptyTag _ _ a => a
  | _ => []

/-- namespace of a tag token -/
def tokNs : Tok → Option (Option Str)
  | .startTag ns _ _ | .emptyTag ns _ _ | .endTag ns _ => some ns
  | _ => none

/-- the token with all attribute values erased: what `rw` must leave alone -/
def eraseVals : Tok → Tok
  | .startTag ns n a => .startTag ns n (a.map fun x => { x with value := [] })
  | .emptyTag ns n a => .emptyTag ns n (a.map fun x => { x with value := [] })
  | t => t

theorem forall2_erase (enc : Str) (l r : List Attr) (h : Forall2 (AttrRel enc) l r) :
    r.map (fun x => { x with value := [] }) = l.map (fun x => ({ x with value := [] } : Attr)) := by
  induction h with
  | nil => rfl
  | @cons a b l r hab _ ih =>
    simp only [List.map_cons, ih]
    congr 1
    rw [hab.1, hab.2.1]

/-- **C15 (rw preserves names).** `rw enc` never changes a token's type, namespace or name, nor the list of
attribute keys; apart from attribute values the token is identical (`eraseVals`), and an attribute value can change
only for a no-namespace `charset` (→ `enc`) or `content` (→ `text/html; charset=enc`) attribute of an `EmptyTag`
whose name lower-cases to `meta`. -/
theorem C15_rw_preserves_names (enc : Str) (t : Tok) :
    (rw enc t).typeName = t.typeName ∧ tokNs (rw enc t) = tokNs t ∧ (rw enc t).nameE = t.nameE ∧
    (tokAttrs (rw enc t)).map (fun a => (a.ns, a.name)) = (tokAttrs t).map (fun a => (a.ns, a.name)) ∧
    eraseVals (rw enc t) = eraseVals t ∧
    Forall2 (AttrRel enc) (tokAttrs t) (tokAttrs (rw enc t)) ∧
    (rw enc t ≠ t → ∃ ns n a, t = .emptyTag ns n a ∧ n.asciiLower = sMeta) := by
  cases t with
  | emptyTag ns n a =>
    by_cases hm : n.asciiLower = sMeta
    · have hr := rewriteMetaAttrs_rel enc a
      have e : rw enc (.emptyTag ns n a) = .emptyTag ns n (rewriteMetaAttrs enc a).1 := by simp [rw, hm]
      rw [e]
      exact ⟨rfl, rfl, rfl, forall2_keys enc _ _ hr, by simp only [eraseVals]; rw [forall2_erase enc _ _ hr], hr,
        fun _ => ⟨ns, n, a, rfl, hm⟩⟩
    · have e : rw enc (.emptyTag ns n a) = .emptyTag ns n a := by simp [rw, hm]
      rw [e]
      exact ⟨rfl, rfl, rfl, rfl, rfl, forall2_refl enc _, fun h => absurd rfl h⟩
  | startTag ns n a => exact ⟨rfl, rfl, rfl, rfl, rfl, forall2_refl enc _, fun h => absurd rfl h⟩
  | endTag ns n => exact ⟨rfl, rfl, rfl, rfl, rfl, .nil, fun h => absurd rfl h⟩
  | doctype n p s => exact ⟨rfl, rfl, rfl, rfl, rfl, .nil, fun h => absurd rfl h⟩
  | chars s => exact ⟨rfl, rfl, rfl, rfl, rfl, .nil, fun h => absurd rfl h⟩
  | space s => exact ⟨rfl, rfl, rfl, rfl, rfl, .nil, fun h => absurd rfl h⟩
  | comment s => exact ⟨rfl, rfl, rfl, rfl, rfl, .nil, fun h => absurd rfl h⟩
  | entity s => exact ⟨rfl, rfl, rfl, rfl, rfl, .nil, fun h => absurd rfl h⟩
  | serr s => exact ⟨rfl, rfl, rfl, rfl, rfl, .nil, fun h => absurd rfl h⟩

theorem rw_isHeadTag (enc : Str) (t : Tok) : isHeadTag (rw enc t) = isHeadTag t := by
  cases t with
  | emptyTag ns n a => simp only [rw]; split <;> rfl
  | _ => rfl

/-! ### 3. the rewrite is idempotent -/

theorem scan_some_again (enc : Str) (attrs : List Attr) : ∀ (has : Bool) (r : List Attr) (h : Bool),
    scanAttrs enc attrs has = (some r, h) → ∀ has2, (scanAttrs enc r has2).1 = some r := by
  induction attrs with
  | nil => intro has r h hs; simp [scanAttrs] at hs
  | cons a rest ih =>
    intro has r h hs has2
    by_cases hns : a.ns.isSome = true
    · rw [scan_cons_skip enc a rest has hns] at hs
      obtain ⟨r0, hx, rfl⟩ := consRes_some a _ r h hs
      have := ih has r0 h hx has2
      rw [scan_cons_skip enc a r0 has2 hns]
      rcases hsc2 : scanAttrs enc r0 has2 with ⟨o2, h2⟩
      rw [hsc2] at this
      simp only at this
      subst this
      rfl
    · simp only [Bool.not_eq_true] at hns
      by_cases hc : a.name.asciiLower = sCharset
      · rw [scan_cons_charset enc a rest has hns hc] at hs
        simp only [Prod.mk.injEq, Option.some.injEq] at hs
        obtain ⟨rfl, -⟩ := hs
        rw [scan_cons_charset enc { a with value := enc } rest has2 hns hc]
      · rw [scan_cons_other enc a rest has hns hc] at hs
        obtain ⟨r0, hx, rfl⟩ := consRes_some a _ r h hs
        have := ih _ r0 h hx (has2 || flag a)
        rw [scan_cons_other enc a r0 has2 hns hc]
        rcases hsc2 : scanAttrs enc r0 (has2 || flag a) with ⟨o2, h2⟩
        rw [hsc2] at this
        simp only at this
        subst this
        rfl

theorem scan_none_setContent (enc : Str) (attrs : List Attr) : ∀ (has h : Bool),
    scanAttrs enc attrs has = (none, h) → scanAttrs enc (setContent enc attrs) has = (none, h) := by
  rw [setContent_eq]
  induction attrs with
  | nil => intro has h hs; simpa [scanAttrs] using hs
  | cons a rest ih =>
    intro has h hs
    rw [List.map_cons]
    by_cases hns : a.ns.isSome = true
    · rw [scan_cons_skip enc a rest has hns] at hs
      have hx := consRes_none a _ h hs
      rw [scan_cons_skip enc _ _ has (by rw [setC_ns]; exact hns), ih has h hx]
      rfl
    · simp only [Bool.not_eq_true] at hns
      by_cases hc : a.name.asciiLower = sCharset
      · rw [scan_cons_charset enc a rest has hns hc] at hs
        simp at hs
      · rw [scan_cons_other enc a rest has hns hc] at hs
        have hx := consRes_none a _ h hs
        rw [scan_cons_other enc _ _ has (by rw [setC_ns]; exact hns) (by rw [setC_name]; exact hc), flag_setC,
          ih _ h hx]
        rfl

theorem hasContent_setContent (enc : Str) (attrs : List Attr) : hasContent (setContent enc attrs) = hasContent attrs := by
  rw [setContent_eq]
  induction attrs with
  | nil => rfl
  | cons a rest ih =>
    simp only [hasContent, List.map_cons, List.any_cons] at ih ⊢
    rw [ih, setC_ns, setC_name]

theorem setContent_idem (enc : Str) (attrs : List Attr) : setContent enc (setContent enc attrs) = setContent enc attrs := by
  simp only [setContent_eq, List.map_map]
  apply List.map_congr_left
  intro a _
  exact setC_idem enc a

/-- **the attribute rewrite is idempotent** (attributes and the "declaration found" flag) -/
theorem rewriteMetaAttrs_idem (enc : Str) (attrs : List Attr) :
    rewriteMetaAttrs enc (rewriteMetaAttrs enc attrs).1 = rewriteMetaAttrs enc attrs := by
  unfold rewriteMetaAttrs
  rcases hsc : scanAttrs enc attrs false with ⟨o, h⟩
  cases o with
  | some r =>
    simp only []
    have := scan_some_again enc attrs false r h hsc false
    rcases hsc2 : scanAttrs enc r false with ⟨o2, h2⟩
    rw [hsc2] at this
    simp only at this
    subst this
    rfl
  | none =>
    simp only []
    by_cases hh : (h && hasContent attrs) = true
    · simp only [hh, if_true]
      rw [scan_none_setContent enc attrs false h hsc]
      simp only [hasContent_setContent, hh, if_true, setContent_idem]
    · simp only [hh, if_false, Bool.false_eq_true]
      rw [hsc]
      simp [hh]

theorem rw_idem (enc : Str) (t : Tok) : rw enc (rw enc t) = rw enc t := by
  cases t with
  | emptyTag ns n a =>
    by_cases hm : n.asciiLower = sMeta
    · simp [rw, hm, rewriteMetaAttrs_idem]
    · simp [rw, hm]
  | _ => rfl

theorem declares_rw (enc : Str) (t : Tok) : declares enc (rw enc t) = declares enc t := by
  cases t with
  | emptyTag ns n a =>
    by_cases hm : n.asciiLower = sMeta
    · simp [rw, declares, hm, rewriteMetaAttrs_idem]
    · simp [rw, declares, hm]
  | _ => rfl

theorem rw_metaTok (enc : Str) : rw enc (metaTok enc) = metaTok enc ∧ declares enc (metaTok enc) = true ∧
    isHeadTag (metaTok enc) = false := by
  have h1 : sMeta.asciiLower = sMeta := by decide
  have h2 : sCharset.asciiLower = sCharset := by decide
  have h3 : ¬ sMeta = sHead := by decide
  refine ⟨?_, ?_, ?_⟩
  · simp [rw, metaTok, h1, rewriteMetaAttrs, scanAttrs, h2]
  · simp [declares, metaTok, h1, rewriteMetaAttrs, scanAttrs, h2]
  · simp [isHeadTag, metaTok, h1, h3]

/-! ### 4. idempotence of the filter on head-shaped streams -/

/-- **C15 (idempotent).** on a stream with one `<head> … </head>` pair and no other tag named head, applying the
filter twice (same encoding) equals applying it once: the second pass finds the declaration the first pass wrote or
injected, injects nothing, and rewrites every declaration to the value it already has. -/
theorem C15_idempotent (enc : Str) (pre mid post : List Tok) (ns ns2 : Option Str) (h h2 : Str) (attrs : List Attr)
    (hh : h.asciiLower = sHead) (hh2 : h2.asciiLower = sHead)
    (hpre : ∀ t ∈ pre, isHeadTag t = false) (hmid : ∀ t ∈ mid, isHeadTag t = false)
    (hpost : ∀ t ∈ post, isHeadTag t = false) :
    inject enc (inject enc (pre ++ [.startTag ns h attrs] ++ mid ++ [.endTag ns2 h2] ++ post)) =
      inject enc (pre ++ [.startTag ns h attrs] ++ mid ++ [.endTag ns2 h2] ++ post) := by
  rw [C15_inject enc pre mid post ns ns2 h h2 attrs hh hh2 hpre hmid hpost]
  have hmapHead : ∀ l : List Tok, (∀ t ∈ l, isHeadTag t = false) → ∀ t ∈ l.map (rw enc), isHeadTag t = false := by
    intro l hl t ht
    obtain ⟨u, hu, rfl⟩ := List.mem_map.mp ht
    rw [rw_isHeadTag]; exact hl u hu
  have hmapmap : ∀ l : List Tok, (l.map (rw enc)).map (rw enc) = l.map (rw enc) := by
    intro l; simp [rw_idem]
  have hany : ∀ l : List Tok, (l.map (rw enc)).any (declares enc) = l.any (declares enc) := by
    intro l; simp [List.any_map, Function.comp_def, declares_rw]
  obtain ⟨m1, m2, m3⟩ := rw_metaTok enc
  by_cases hd : (pre ++ mid).any (declares enc) = true
  · simp only [hd, if_true, List.append_nil]
    have := C15_inject enc (pre.map (rw enc)) (mid.map (rw enc)) (post.map (rw enc)) ns ns2 h h2 attrs hh hh2
      (hmapHead pre hpre) (hmapHead mid hmid) (hmapHead post hpost)
    rw [this, hmapmap, hmapmap, hmapmap, ← List.map_append, hany, hd]
    simp
  · simp only [hd, if_false, Bool.false_eq_true]
    have hmid2 : ∀ t ∈ metaTok enc :: mid.map (rw enc), isHeadTag t = false := by
      intro t ht
      rcases List.mem_cons.mp ht with rfl | ht
      · exact m3
      · exact hmapHead mid hmid t ht
    have := C15_inject enc (pre.map (rw enc)) (metaTok enc :: mid.map (rw enc)) (post.map (rw enc)) ns ns2 h h2 attrs
      hh hh2 (hmapHead pre hpre) hmid2 (hmapHead post hpost)
    have e : pre.map (rw enc) ++ [Tok.startTag ns h attrs] ++ [metaTok enc] ++ mid.map (rw enc) ++ [Tok.endTag ns2 h2] ++
        post.map (rw enc) =
        pre.map (rw enc) ++ [Tok.startTag ns h attrs] ++ (metaTok enc :: mid.map (rw enc)) ++ [Tok.endTag ns2 h2] ++
        post.map (rw enc) := by simp
    rw [e, this]
    have hd2 : (pre.map (rw enc) ++ metaTok enc :: mid.map (rw enc)).any (declares enc) = true := by
      simp [List.any_append, m2]
    rw [hd2]
    simp [m1, hmapmap]

/-! ### non-vacuity -/

/-- a head without declaration: the first pass injects, the second changes nothing -/
example : inject [117] (inject [117] [.startTag none sHead [], .emptyTag none [116] [], .endTag none sHead, .chars [120]])
    = inject [117] [.startTag none sHead [], .emptyTag none [116] [], .endTag none sHead, .chars [120]] := by decide
/-- a `meta http-equiv=content-type content=…`: only the `content` value changes -/
example : rw [117] (.emptyTag none sMeta [⟨none, sHttpEquiv, sContentType⟩, ⟨none, sContent, [120]⟩])
    = .emptyTag none sMeta [⟨none, sHttpEquiv, sContentType⟩, ⟨none, sContent, sTextHtmlCharset ++ [117]⟩] := by decide
/-- `rw` does change something: the hypothesis-free theorems are not about the identity -/
example : rw [117] (.emptyTag none sMeta [⟨none, sCharset, [120]⟩]) ≠ .emptyTag none sMeta [⟨none, sCharset, [120]⟩] := by
  decide

end H5.Props.C15b
