/-
  C01b — the invariant across the tree events: start / extend a Text node, add a leaf, open an element, close the
  current element.
-/
import H5.Props.C01bAfe
set_option linter.unusedSimpArgs false
set_option linter.unusedVariables false
namespace H5.Props.C01b
open H5 H5.Spec.TC
open H5.Props.C07b (fmtName fmtNames)

/-- the scalar fields the invariant mentions (all but the insertion mode) are the same -/
structure Core (s s' : St) : Prop where
  ctx : s'.context = s.context
  foster : s'.fosterParenting = s.fosterParenting
  skip : s'.skipNextLF = s.skipNextLF
  stopped : s'.stopped = s.stopped
  tmpl : s'.templateModes = s.templateModes
  docId : s'.document = s.document
  dev : s'.dev = s.dev

theorem Core.refl (s : St) : Core s s := ⟨rfl, rfl, rfl, rfl, rfl, rfl, rfl⟩

theorem afeEntry_congr {g g' : SFrame} (hid : g'.id = g.id) (hk : g'.node.kind = g.node.kind) : afeEntry g' = afeEntry g := by
  unfold afeEntry; rw [hid, hk]

theorem opens_snoc (fs : List SFrame) (p g : SFrame) (hfs : fs ≠ []) : opens (fs ++ [p]) g = opens fs p ++ [g] := by
  unfold opens
  cases fs with
  | nil => exact absurd rfl hfs
  | cons a rest => simp

theorem opens_same_ids {fs : List SFrame} {f f' : SFrame} (hid : f'.id = f.id) :
    (opens fs f').map (·.id) = (opens fs f).map (·.id) := by simp [opens, hid]

theorem afeOf_opens_same {fs : List SFrame} {f f' : SFrame} (hid : f'.id = f.id) (hk : f'.node.kind = f.node.kind) :
    afeOf (opens fs f') = afeOf (opens fs f) := by
  simp [opens, afeOf, List.filterMap_append, List.filterMap_cons, afeEntry_congr hid hk]

/-- the invariant for a state that differs in the arena and in the top frame's record (same id, kind, content) -/
theorem SInv.sameTop {m m' s fs f} (h : SInv m s fs f) {s' : St} {f' : SFrame} (hc : Core s s') (hm : s'.mode = m')
    (hst : s'.stack = s.stack) (hafe : s'.afe = s.afe) (hid : f'.id = f.id) (hk : f'.node.kind = f.node.kind)
    (hcont : f'.node.content = f.node.content) (hfr : FramesOK s'.arena fs f')
    (hnt : f'.txt = none → ∀ d, f'.kids.getLast? ≠ some (.text d)) : SInv m' s' fs f' where
  mode := hm
  stack := by rw [hst, h.stack, opens_same_ids hid]
  afe := by rw [hafe, h.afe, afeOf_opens_same hid hk]
  ctx := by rw [hc.ctx, h.ctx]
  foster := by rw [hc.foster, h.foster]
  skip := by rw [hc.skip, h.skip]
  stopped := by rw [hc.stopped, h.stopped]
  tmpl := by rw [hc.tmpl, h.tmpl]
  docId := by rw [hc.docId, h.docId]
  dev := by rw [hc.dev, h.dev]
  frames := hfr
  kinds := by
    intro g hg
    rcases List.mem_append.1 hg with hg | hg
    · exact h.kinds g (List.mem_append_left _ hg)
    · simp at hg; subst hg; rw [hk]; exact h.topk
  content := by
    intro g hg
    rcases List.mem_append.1 hg with hg | hg
    · exact h.content g (List.mem_append_left _ hg)
    · simp at hg; subst hg; rw [hcont]; exact h.topContent
  noTextLast := hnt
  fsne := h.fsne

/-- the frame after a character was inserted -/
def SFrame.withChar (f : SFrame) (size : Nat) (c : Nat) : SFrame :=
  match f.txt with
  | none => { f with node := { f.node with children := f.node.children ++ [size] }, txt := some [c] }
  | some d => { f with txt := some (d ++ [c]) }

/-- the frame after a leaf (comment, void element) was appended -/
def SFrame.withLeaf (f : SFrame) (size : Nat) (t : Tree) : SFrame :=
  { id := f.id, node := { f.node with children := f.node.children ++ [size] }, kids := f.sealed.kids ++ [t], txt := none }

/-- the frame after an element was opened below it -/
def SFrame.withChild (f : SFrame) (size : Nat) : SFrame :=
  { id := f.id, node := { f.node with children := f.node.children ++ [size] }, kids := f.sealed.kids, txt := none }

/-- the frame of a freshly opened element -/
def newFrame (id parent : Nat) (nm : Str) (attrs : List Attr) : SFrame :=
  { id := id, node := { kind := .element .html nm attrs, parent := some parent }, kids := [] }

theorem SInv.addLeaf {m m' s fs f} (h : SInv m s fs f) {s' : St} (k : Kind) (t : Tree) (hc : Core s s') (hm : s'.mode = m')
    (hst : s'.stack = s.stack) (hafe : s'.afe = s.afe) (ha : s'.arena = addChild s.arena f.id k)
    (hk : SShape (addChild s.arena f.id k) (s.arena.size + 1) s.arena.size t) (hnt : ∀ d, t ≠ .text d) :
    SInv m' s' fs (f.withLeaf s.arena.size t) := by
  have hfr := FramesOK.leaf (h.frames.sealed) f.sealed_txt k t (by rw [f.sealed_id]; exact hk)
  rw [f.sealed_id, f.sealed_node, f.sealed_txt] at hfr
  refine h.sameTop hc hm hst hafe rfl rfl rfl (by rw [ha]; exact hfr) ?_
  intro _ d hd
  simp only [SFrame.withLeaf, List.getLast?_append, List.getLast?_singleton, Option.some_or, Option.some.injEq] at hd
  exact hnt d hd

/-- the arena after "insert a character" -/
def charArena (a : Arena) (f : SFrame) (c : Nat) : Arena :=
  match f.txt with
  | none => addChild a f.id (.text [c])
  | some d => a.modify (a.size - 1) fun n => { n with kind := .text (d ++ [c]) }

theorem SInv.addChar {m m' s fs f} (h : SInv m s fs f) {s' : St} (c : Nat) (hc : Core s s') (hm : s'.mode = m')
    (hst : s'.stack = s.stack) (hafe : s'.afe = s.afe) (ha : s'.arena = charArena s.arena f c) :
    SInv m' s' fs (f.withChar s.arena.size c) := by
  unfold SFrame.withChar
  unfold charArena at ha
  cases ht : f.txt with
  | none =>
    rw [ht] at ha
    refine h.sameTop hc hm hst hafe rfl rfl rfl (by rw [ha]; exact FramesOK.textNew h.frames ht [c]) ?_
    intro hh; cases hh
  | some d =>
    rw [ht] at ha
    refine h.sameTop hc hm hst hafe rfl rfl rfl (by rw [ha]; exact FramesOK.textAppend h.frames ht _) ?_
    intro hh; cases hh

theorem afeEntry_newFrame (id parent : Nat) (nm : Str) (attrs : List Attr) :
    afeEntry (newFrame id parent nm attrs) = if fmtName nm then some (.elem id nm (pairsOf attrs)) else none := rfl

/-- **open an element** below the current node -/
theorem SInv.pushed {m m' s fs f} (h : SInv m s fs f) {s' : St} (nm : Str) (attrs : List Attr) (hc : Core s s') (hm : s'.mode = m')
    (hst : s'.stack = s.arena.size :: s.stack)
    (hafe : s'.afe = s.afe ++ (if fmtName nm then [.elem s.arena.size nm (pairsOf attrs)] else []))
    (ha : s'.arena = addChild s.arena f.id (.element .html nm attrs)) :
    SInv m' s' (fs ++ [f.withChild s.arena.size]) (newFrame s.arena.size f.id nm attrs) := by
  have hfr := FramesOK.push (h.frames.sealed) f.sealed_txt (.element .html nm attrs)
  rw [f.sealed_id, f.sealed_node] at hfr
  have hop : opens (fs ++ [f.withChild s.arena.size]) (newFrame s.arena.size f.id nm attrs) =
      opens fs (f.withChild s.arena.size) ++ [newFrame s.arena.size f.id nm attrs] := opens_snoc _ _ _ h.fsne
  refine ⟨hm, ?_, ?_, by rw [hc.ctx, h.ctx], by rw [hc.foster, h.foster], by rw [hc.skip, h.skip],
    by rw [hc.stopped, h.stopped], by rw [hc.tmpl, h.tmpl], by rw [hc.docId, h.docId], by rw [hc.dev, h.dev], ?_, ?_, ?_,
    ?_, by simp⟩
  · rw [hst, hop, h.stack, List.map_append, List.reverse_append,
      opens_same_ids (f' := f.withChild s.arena.size) (f := f) rfl]
    rfl
  · rw [hafe, hop, afeOf_append, h.afe, afeOf_opens_same (f' := f.withChild s.arena.size) (f := f) rfl rfl]
    congr 1
    simp only [afeOf, List.filterMap_cons, List.filterMap_nil, afeEntry_newFrame]
    split <;> rfl
  · rw [ha]
    rw [f.sealed_txt] at hfr
    exact hfr
  · intro g hg
    rw [hop] at hg
    rcases List.mem_append.1 hg with hg | hg
    · rcases List.mem_append.1 hg with hg | hg
      · exact h.kinds g (List.mem_append_left _ hg)
      · simp at hg; subst hg; exact h.topk
    · simp at hg; subst hg; exact ⟨nm, attrs, rfl⟩
  · intro g hg
    rcases List.mem_append.1 hg with hg | hg
    · rcases List.mem_append.1 hg with hg | hg
      · exact h.content g (List.mem_append_left _ hg)
      · simp at hg; subst hg; exact h.topContent
    · simp at hg; subst hg; rfl
  · intro _ d hd; simp [newFrame] at hd

/-- the frame below after the current element was closed -/
def SFrame.withDone (p g : SFrame) : SFrame := { p with kids := p.kids ++ [g.sealed.tree] }

/-- **close the current element** -/
theorem SInv.popped {m m' s fs p g} (h : SInv m s (fs ++ [p]) g) (hfs : fs ≠ []) {s' : St} (hc : Core s s') (hm : s'.mode = m')
    (hst : s'.stack = s.stack.tail) (hafe : s'.afe = afeOf (opens fs p)) (ha : s'.arena = s.arena) :
    SInv m' s' fs (p.withDone g) := by
  obtain ⟨nm, attrs, hk⟩ := h.topk
  have hfr := FramesOK.pop (h.frames.sealed) g.sealed_txt (by rw [g.sealed_node]; exact h.topContent)
    (Or.inl ⟨_, nm, attrs, by rw [g.sealed_node]; exact hk⟩)
  have hop : opens (fs ++ [p]) g = opens fs p ++ [g] := opens_snoc _ _ _ hfs
  have hpt : p.txt = none := (PrefixOK.unsnoc h.frames.1).2.2.2.1
  refine ⟨hm, ?_, ?_, by rw [hc.ctx, h.ctx], by rw [hc.foster, h.foster], by rw [hc.skip, h.skip],
    by rw [hc.stopped, h.stopped], by rw [hc.tmpl, h.tmpl], by rw [hc.docId, h.docId], by rw [hc.dev, h.dev], ?_, ?_, ?_,
    ?_, hfs⟩
  · rw [hst, h.stack, hop, opens_same_ids (f' := p.withDone g) (f := p) rfl]
    simp
  · rw [hafe, afeOf_opens_same (f' := p.withDone g) (f := p) rfl rfl]
  · rw [ha]; exact hfr
  · intro x hx
    rcases List.mem_append.1 hx with hx | hx
    · exact h.kinds x (by rw [hop]; exact List.mem_append_left _ (List.mem_append_left _ hx))
    · simp at hx; subst hx
      exact h.kinds p (by rw [hop]; exact List.mem_append_left _ (by simp [opens]))
  · intro x hx
    rcases List.mem_append.1 hx with hx | hx
    · exact h.content x (List.mem_append_left _ (List.mem_append_left _ hx))
    · simp at hx; subst hx
      exact h.content p (List.mem_append_left _ (by simp))
  · intro _ d hd
    have ht : g.sealed.tree = .elem (some NS.html.uri) nm attrs (mergeText g.sealed.kids) := by
      unfold SFrame.tree; rw [g.sealed_node, hk]
    simp only [SFrame.withDone, List.getLast?_append, List.getLast?_singleton, Option.some_or, Option.some.injEq, ht] at hd
    cases hd

/-- closing an element that is not a formatting element leaves the list of active formatting elements alone -/
theorem SInv.afe_pop_other {m s fs p g} (h : SInv m s (fs ++ [p]) g) (hfs : fs ≠ []) (hg : afeEntry g = none) :
    s.afe = afeOf (opens fs p) := by
  rw [h.afe, opens_snoc _ _ _ hfs, afeOf_append]
  simp [afeOf, hg]

end H5.Props.C01b
