/-
  Property C02 "total" — per-state decrease lemmas (script-data escaped states and attribute states).
  Each lemma: a call of the state method from a state of weight `w` with `n` characters left either stops,
  fails with an error that is not `outOfFuel`, or leaves a state of potential `< 8·n + w`.
-/
import H5.Props.C02cHelpers
set_option linter.unusedSimpArgs false
namespace H5.Props.C02c
open H5 H5.Gen H5.Model H5.Model.Tokenizer

theorem scriptDataEscapedDashState_dec (s : St) (hs : s.state = .scriptDataEscapedDashState) :
    Post (scriptDataEscapedDashState s) (Dec s.input.length (w s.state)) := by
  state_dec scriptDataEscapedDashState

theorem scriptDataEscapedDashDashState_dec (s : St) (hs : s.state = .scriptDataEscapedDashDashState) :
    Post (scriptDataEscapedDashDashState s) (Dec s.input.length (w s.state)) := by
  state_dec scriptDataEscapedDashDashState

theorem scriptDataEscapedLessThanSignState_dec (s : St) (hs : s.state = .scriptDataEscapedLessThanSignState) :
    Post (scriptDataEscapedLessThanSignState s) (Dec s.input.length (w s.state)) := by
  state_dec scriptDataEscapedLessThanSignState

theorem scriptDataEscapedEndTagOpenState_dec (s : St) (hs : s.state = .scriptDataEscapedEndTagOpenState) :
    Post (scriptDataEscapedEndTagOpenState s) (Dec s.input.length (w s.state)) := by
  state_dec scriptDataEscapedEndTagOpenState

theorem scriptDataEscapedEndTagNameState_dec (s : St) (hs : s.state = .scriptDataEscapedEndTagNameState) :
    Post (scriptDataEscapedEndTagNameState s) (Dec s.input.length (w s.state)) := by
  state_dec scriptDataEscapedEndTagNameState

theorem scriptDataDoubleEscapeStartState_dec (s : St) (hs : s.state = .scriptDataDoubleEscapeStartState) :
    Post (scriptDataDoubleEscapeStartState s) (Dec s.input.length (w s.state)) := by
  state_dec scriptDataDoubleEscapeStartState

theorem scriptDataDoubleEscapedState_dec (s : St) (hs : s.state = .scriptDataDoubleEscapedState) :
    Post (scriptDataDoubleEscapedState s) (Dec s.input.length (w s.state)) := by
  state_dec scriptDataDoubleEscapedState

theorem scriptDataDoubleEscapedDashState_dec (s : St) (hs : s.state = .scriptDataDoubleEscapedDashState) :
    Post (scriptDataDoubleEscapedDashState s) (Dec s.input.length (w s.state)) := by
  state_dec scriptDataDoubleEscapedDashState

theorem scriptDataDoubleEscapedDashDashState_dec (s : St) (hs : s.state = .scriptDataDoubleEscapedDashDashState) :
    Post (scriptDataDoubleEscapedDashDashState s) (Dec s.input.length (w s.state)) := by
  state_dec scriptDataDoubleEscapedDashDashState

theorem scriptDataDoubleEscapedLessThanSignState_dec (s : St) (hs : s.state = .scriptDataDoubleEscapedLessThanSignState) :
    Post (scriptDataDoubleEscapedLessThanSignState s) (Dec s.input.length (w s.state)) := by
  state_dec scriptDataDoubleEscapedLessThanSignState

theorem scriptDataDoubleEscapeEndState_dec (s : St) (hs : s.state = .scriptDataDoubleEscapeEndState) :
    Post (scriptDataDoubleEscapeEndState s) (Dec s.input.length (w s.state)) := by
  state_dec scriptDataDoubleEscapeEndState

theorem beforeAttributeNameState_dec (s : St) (hs : s.state = .beforeAttributeNameState) :
    Post (beforeAttributeNameState s) (Dec s.input.length (w s.state)) := by
  state_dec beforeAttributeNameState

theorem attributeNameState_dec (s : St) (hs : s.state = .attributeNameState) :
    Post (attributeNameState s) (Dec s.input.length (w s.state)) := by
  state_dec attributeNameState

theorem afterAttributeNameState_dec (s : St) (hs : s.state = .afterAttributeNameState) :
    Post (afterAttributeNameState s) (Dec s.input.length (w s.state)) := by
  state_dec afterAttributeNameState

theorem beforeAttributeValueState_dec (s : St) (hs : s.state = .beforeAttributeValueState) :
    Post (beforeAttributeValueState s) (Dec s.input.length (w s.state)) := by
  state_dec beforeAttributeValueState

theorem attributeValueDoubleQuotedState_dec (s : St) (hs : s.state = .attributeValueDoubleQuotedState) :
    Post (attributeValueDoubleQuotedState s) (Dec s.input.length (w s.state)) := by
  state_dec attributeValueDoubleQuotedState

theorem attributeValueSingleQuotedState_dec (s : St) (hs : s.state = .attributeValueSingleQuotedState) :
    Post (attributeValueSingleQuotedState s) (Dec s.input.length (w s.state)) := by
  state_dec attributeValueSingleQuotedState

theorem attributeValueUnQuotedState_dec (s : St) (hs : s.state = .attributeValueUnQuotedState) :
    Post (attributeValueUnQuotedState s) (Dec s.input.length (w s.state)) := by
  state_dec attributeValueUnQuotedState

theorem afterAttributeValueState_dec (s : St) (hs : s.state = .afterAttributeValueState) :
    Post (afterAttributeValueState s) (Dec s.input.length (w s.state)) := by
  state_dec afterAttributeValueState

theorem selfClosingStartTagState_dec (s : St) (hs : s.state = .selfClosingStartTagState) :
    Post (selfClosingStartTagState s) (Dec s.input.length (w s.state)) := by
  state_dec selfClosingStartTagState

theorem commentStartState_dec (s : St) (hs : s.state = .commentStartState) :
    Post (commentStartState s) (Dec s.input.length (w s.state)) := by
  state_dec commentStartState

end H5.Props.C02c
