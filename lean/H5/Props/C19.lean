/-
  Property C19 — the SAX adapter delivers a well-nested event stream equal to the tree.
  Model: H5.Model.Sax (hand model of to_sax, tied by op `sax` with a recording ContentHandler);
  composed with the walker theorem of C11.
-/
import H5.Model.Sax
import H5.Props.C11
import H5.Proofs.ExceptLemmas
namespace H5.Props.C19
open H5 H5.Gen H5.Model.Sax H5.Model.Walker H5.Spec

theorem bodyEvents_append (a b : List Tok) (ea eb : List Ev) (ha : bodyEvents a = .ok ea) (hb : bodyEvents b = .ok eb) :
    bodyEvents (a ++ b) = .ok (ea ++ eb) := by
  induction a generalizing ea with
  | nil => simp [bodyEvents] at ha; subst ha; simpa using hb
  | cons t ts ih =>
    simp only [bodyEvents, List.cons_append] at ha ⊢
    cases ht : tokEvents t with
    | error e => simp [ht] at ha
    | ok x =>
      cases hts : bodyEvents ts with
      | error e => simp [ht, hts] at ha
      | ok y =>
        simp [ht, hts] at ha
        subst ha
        simp [ih y hts]

/-- **C19 (document frame).** exactly one startDocument/endDocument pair around the body, with the same prefixes
started and ended, in the same order. -/
theorem C19_doc (ts : List Tok) (evs : List Ev) (h : toSax ts = .ok evs) :
    ∃ body, bodyEvents ts = .ok body ∧
      evs = [Ev.startDocument] ++ saxPrefixMapping.map (fun p => Ev.startPrefixMapping p.1 p.2) ++ body ++
            saxPrefixMapping.map (fun p => Ev.endPrefixMapping p.1) ++ [Ev.endDocument] := by
  unfold toSax at h
  cases hb : bodyEvents ts with
  | error e => rw [hb] at h; simp at h
  | ok body => rw [hb] at h; simp at h; exact ⟨body, rfl, by simp [← h]⟩

/-- the body never contains document or prefix events -/
theorem body_kinds (ts : List Tok) (body : List Ev) (h : bodyEvents ts = .ok body) :
    ∀ e ∈ body, (∃ ns n a, e = .startElementNS ns n a) ∨ (∃ ns n, e = .endElementNS ns n) ∨ (∃ s, e = .characters s) := by
  induction ts generalizing body with
  | nil => simp [bodyEvents] at h; subst h; simp
  | cons t ts ih =>
    simp only [bodyEvents] at h
    cases ht : tokEvents t with
    | error e => rw [ht] at h; simp at h
    | ok x =>
      rw [ht] at h
      cases hts : bodyEvents ts with
      | error e => rw [hts] at h; simp at h
      | ok y =>
        rw [hts] at h; simp at h; subst h
        intro e he
        simp at he
        rcases he with he | he
        · cases t <;> simp [tokEvents] at ht <;> subst ht <;> simp at he
          all_goals (first | (rcases he with rfl | rfl <;> simp) | (subst he; simp))
        · exact ih y hts e he

-- SAX events of a tree, recursively (comments and the doctype are omitted by design)
mutual
def saxRec : Tree → List Ev
  | .doc cs => saxList cs
  | .frag cs => saxList cs
  | .elem ns name attrs cs =>
      if isVoid ns name then [.startElementNS ns name attrs, .endElementNS ns name]
      else .startElementNS ns name attrs :: (saxList cs ++ [.endElementNS ns name])
  | .doctype .. => []
  | .text s => (textToks s).map fun t => match t with
      | .chars d => Ev.characters d
      | .space d => Ev.characters d
      | _ => Ev.characters []
  | .comment _ => []
def saxList : List Tree → List Ev
  | [] => []
  | t :: ts => saxRec t ++ saxList ts
end

-- no void HTML element has children (an invariant of parsed trees: void start tags are popped at once)
mutual
def VoidOk : Tree → Prop
  | .doc cs => VoidOkList cs
  | .frag cs => VoidOkList cs
  | .elem ns name _ cs => (isVoid ns name = true → cs = []) ∧ VoidOkList cs
  | _ => True
def VoidOkList : List Tree → Prop
  | [] => True
  | t :: ts => VoidOk t ∧ VoidOkList ts
end

theorem text_events (s : Str) :
    bodyEvents (textToks s) = .ok ((textToks s).map fun t => match t with
      | .chars d => Ev.characters d
      | .space d => Ev.characters d
      | _ => Ev.characters []) := by
  unfold textToks
  simp only []
  split <;> split <;> split <;> simp [bodyEvents, tokEvents]

mutual
theorem events_of_walk (t : Tree) (h : VoidOk t) : bodyEvents (walkRec t) = .ok (saxRec t) := by
  cases t with
  | doc cs => simp only [walkRec, saxRec]; exact events_of_walkList cs h
  | frag cs => simp only [walkRec, saxRec]; exact events_of_walkList cs h
  | doctype n p s => simp [walkRec, saxRec, bodyEvents, tokEvents]
  | comment s => simp [walkRec, saxRec, bodyEvents, tokEvents]
  | text s => simp only [walkRec, saxRec]; exact text_events s
  | elem ns name attrs cs =>
    obtain ⟨hv, hcs⟩ := h
    by_cases hvoid : isVoid ns name = true
    · have := hv hvoid
      subst this
      simp [walkRec, saxRec, hvoid, bodyEvents, tokEvents]
    · have ih := events_of_walkList cs hcs
      have e1 : bodyEvents [Tok.endTag ns name] = .ok [Ev.endElementNS ns name] := by simp [bodyEvents, tokEvents]
      have e2 := bodyEvents_append _ _ _ _ ih e1
      simp only [walkRec, saxRec, hvoid]
      simp only [Bool.false_eq_true, if_false, bodyEvents, tokEvents, e2]
      rfl
theorem events_of_walkList (ts : List Tree) (h : VoidOkList ts) : bodyEvents (walkList ts) = .ok (saxList ts) := by
  cases ts with
  | nil => simp [walkList, saxList, bodyEvents]
  | cons t rest =>
    simp only [walkList, saxList]
    exact bodyEvents_append _ _ _ _ (events_of_walk t h.1) (events_of_walkList rest h.2)
end

/-- **C19 (the event stream is the tree).** for every tree whose void elements are childless, to_sax over the
tree walker's stream never raises and its body is exactly the recursive SAX rendering of the tree: elements with
namespaces and attributes, text in document order, properly nested. -/
theorem C19_tree (t : Tree) (h : VoidOk t) :
    ∃ evs, (do let toks ← walk t; toSax toks) = .ok evs ∧
      evs = [Ev.startDocument] ++ saxPrefixMapping.map (fun p => Ev.startPrefixMapping p.1 p.2) ++ saxRec t ++
            saxPrefixMapping.map (fun p => Ev.endPrefixMapping p.1) ++ [Ev.endDocument] := by
  refine ⟨_, ?_, rfl⟩
  rw [H5.Props.C11.C11_walk t]
  simp [toSax, events_of_walk t h]

/-- well-nestedness of an event list against a stack of open elements -/
def nestOk : List (Option Str × Str) → List Ev → Bool
  | st, [] => st.isEmpty
  | st, .startElementNS ns n _ :: r => nestOk ((ns, n) :: st) r
  | (ns', n') :: st, .endElementNS ns n :: r => ns' = ns && n' = n && nestOk st r
  | [], .endElementNS _ _ :: _ => false
  | st, _ :: r => nestOk st r

mutual
theorem nest_saxRec (t : Tree) (st : List (Option Str × Str)) (rest : List Ev) :
    nestOk st (saxRec t ++ rest) = nestOk st rest := by
  cases t with
  | doc cs => simp only [saxRec]; exact nest_saxList cs st rest
  | frag cs => simp only [saxRec]; exact nest_saxList cs st rest
  | doctype n p s => simp [saxRec]
  | comment s => simp [saxRec]
  | text s =>
    simp only [saxRec]
    generalize textToks s = l
    induction l with
    | nil => simp
    | cons x xs ih => cases x <;> simp [nestOk, ih]
  | elem ns name attrs cs =>
    simp only [saxRec]
    split
    · simp [nestOk]
    · simp only [List.cons_append, List.append_assoc, nestOk]
      rw [nest_saxList cs]
      simp [nestOk]
theorem nest_saxList (ts : List Tree) (st : List (Option Str × Str)) (rest : List Ev) :
    nestOk st (saxList ts ++ rest) = nestOk st rest := by
  cases ts with
  | nil => simp [saxList]
  | cons t r =>
    simp only [saxList, List.append_assoc]
    rw [nest_saxRec t, nest_saxList r]
end

/-- **C19 (well nested).** the element events of a walked tree are properly nested and balanced. -/
theorem C19_nested (t : Tree) : nestOk [] (saxRec t) = true := by
  have := nest_saxRec t [] []
  simpa [nestOk] using this

/-- qualified names: every namespaced attribute the parser can create has one (finite check on the extracted
tables: each adjusted foreign attribute maps back to its source name) -/
theorem C19_qname : adjustForeignAttributes.all (fun kv =>
    unadjustForeignAttributes.lookup (kv.2.2.2, kv.2.2.1) == some kv.1) = true := by decide +kernel

end H5.Props.C19
