/-
  Property C03b (parser fuel) — tokenizer part: the potential that also counts queued tokens.

  `Φ s = 8·|s.input| + K·w s.state + |s.tokenQueue|` with `K = 3` and the weight `w ≤ 2` of `H5.Props.C02c`
  (so `Φ s ≤ 8·|input| + 6 + |queue|`, and `Φ = 8·|input|` for a fresh tokenizer in one of the five entry states).

  * `step_phi`   every `self.state()` call that returns `True` pays for the tokens it queues:
                 `#new tokens ≤ 8·(characters consumed) + K·(w state − w state')`  (67 per-state lemmas `x_pay`
                 in `C03bTokStatesA…D`, proved by the tactic `state_pay` from the helper specifications
                 `*_pay` of `C03bTokHelpers`);
  * `next_phi`   a pull `next` strictly decreases `Φ` (it pops one token; the state calls before do not increase `Φ`);
  * `phi_setState_entry`, `phi_init`  what the parser does between two pulls / at the start.

  Hence the parser loop, which pulls one token per iteration, runs at most `Φ(init) = 8·|input|` iterations that
  obtain a token (+1 for the final `none`).
-/
import H5.Props.C03bTokStatesA
import H5.Props.C03bTokStatesB
import H5.Props.C03bTokStatesC
import H5.Props.C03bTokStatesD
import H5.Props.C02c
namespace H5.Props.C03b
open H5 H5.Gen H5.Model H5.Model.Tokenizer
open H5.Props.C02c

/-- every `self.state()` call: stops, fails with a non-fuel error, or pays for the tokens it queues -/
theorem step_pay (s : St) : Post (step s) (Pay s.input.length (w s.state) s.tokenQueue.length) := by
  unfold step
  split
  · exact dataState_pay s ‹_›
  · exact entityDataState_pay s ‹_›
  · exact rcdataState_pay s ‹_›
  · exact characterReferenceInRcdata_pay s ‹_›
  · exact rawtextState_pay s ‹_›
  · exact scriptDataState_pay s ‹_›
  · exact plaintextState_pay s ‹_›
  · exact tagOpenState_pay s ‹_›
  · exact closeTagOpenState_pay s ‹_›
  · exact tagNameState_pay s ‹_›
  · exact rcdataLessThanSignState_pay s ‹_›
  · exact rcdataEndTagOpenState_pay s ‹_›
  · exact rcdataEndTagNameState_pay s ‹_›
  · exact rawtextLessThanSignState_pay s ‹_›
  · exact rawtextEndTagOpenState_pay s ‹_›
  · exact rawtextEndTagNameState_pay s ‹_›
  · exact scriptDataLessThanSignState_pay s ‹_›
  · exact scriptDataEndTagOpenState_pay s ‹_›
  · exact scriptDataEndTagNameState_pay s ‹_›
  · exact scriptDataEscapeStartState_pay s ‹_›
  · exact scriptDataEscapeStartDashState_pay s ‹_›
  · exact scriptDataEscapedState_pay s ‹_›
  · exact scriptDataEscapedDashState_pay s ‹_›
  · exact scriptDataEscapedDashDashState_pay s ‹_›
  · exact scriptDataEscapedLessThanSignState_pay s ‹_›
  · exact scriptDataEscapedEndTagOpenState_pay s ‹_›
  · exact scriptDataEscapedEndTagNameState_pay s ‹_›
  · exact scriptDataDoubleEscapeStartState_pay s ‹_›
  · exact scriptDataDoubleEscapedState_pay s ‹_›
  · exact scriptDataDoubleEscapedDashState_pay s ‹_›
  · exact scriptDataDoubleEscapedDashDashState_pay s ‹_›
  · exact scriptDataDoubleEscapedLessThanSignState_pay s ‹_›
  · exact scriptDataDoubleEscapeEndState_pay s ‹_›
  · exact beforeAttributeNameState_pay s ‹_›
  · exact attributeNameState_pay s ‹_›
  · exact afterAttributeNameState_pay s ‹_›
  · exact beforeAttributeValueState_pay s ‹_›
  · exact attributeValueDoubleQuotedState_pay s ‹_›
  · exact attributeValueSingleQuotedState_pay s ‹_›
  · exact attributeValueUnQuotedState_pay s ‹_›
  · exact afterAttributeValueState_pay s ‹_›
  · exact selfClosingStartTagState_pay s ‹_›
  · exact bogusCommentState_pay s ‹_›
  · exact markupDeclarationOpenState_pay s ‹_›
  · exact commentStartState_pay s ‹_›
  · exact commentStartDashState_pay s ‹_›
  · exact commentState_pay s ‹_›
  · exact commentEndDashState_pay s ‹_›
  · exact commentEndState_pay s ‹_›
  · exact commentEndBangState_pay s ‹_›
  · exact doctypeState_pay s ‹_›
  · exact beforeDoctypeNameState_pay s ‹_›
  · exact doctypeNameState_pay s ‹_›
  · exact afterDoctypeNameState_pay s ‹_›
  · exact afterDoctypePublicKeywordState_pay s ‹_›
  · exact beforeDoctypePublicIdentifierState_pay s ‹_›
  · exact doctypePublicIdentifierDoubleQuotedState_pay s ‹_›
  · exact doctypePublicIdentifierSingleQuotedState_pay s ‹_›
  · exact afterDoctypePublicIdentifierState_pay s ‹_›
  · exact betweenDoctypePublicAndSystemIdentifiersState_pay s ‹_›
  · exact afterDoctypeSystemKeywordState_pay s ‹_›
  · exact beforeDoctypeSystemIdentifierState_pay s ‹_›
  · exact doctypeSystemIdentifierDoubleQuotedState_pay s ‹_›
  · exact doctypeSystemIdentifierSingleQuotedState_pay s ‹_›
  · exact afterDoctypeSystemIdentifierState_pay s ‹_›
  · exact bogusDoctypeState_pay s ‹_›
  · exact cdataSectionState_pay s ‹_›

/-- **a state call never increases the potential**: the tokens it appends to the queue are paid by the characters it
consumes (8 each) and by the drop in state weight (`K = 3` each) -/
theorem step_phi (s s' : St) (h : step s = .ok (true, s')) : Φ s' ≤ Φ s := by
  have := step_pay s
  rw [h] at this
  exact this rfl

/-- relation with the potential `μ` of C02c (`w ≤ K·w`) -/
theorem mu_le_phi (s : St) : μ s ≤ Φ s := by
  simp only [μ, Φ, K]; omega

/-- one `next()` from an arbitrary tokenizer state within `μ s < fuel`: a pull that yields a token strictly
decreases `Φ` -/
theorem nextFuel_phi (fuel : Nat) (s : St) (h : μ s < fuel) :
    Post (nextFuel fuel s) (fun r => ∀ t s', r = some (t, s') → Φ s' + 1 ≤ Φ s) := by
  induction fuel generalizing s with
  | zero => omega
  | succ fuel ih =>
    simp only [nextFuel]
    split
    · rename_i t q hq
      intro t' s' he
      simp only [Option.some.injEq, Prod.mk.injEq] at he
      obtain ⟨_, rfl⟩ := he
      simp only [Φ, hq, List.length_cons]
      omega
    · simp only [Post_bind]
      refine Post_mono (Post_and (step_post s) (step_pay s)) ?_
      rintro ⟨cont, s1⟩ ⟨hd, hp⟩
      cases cont with
      | false =>
        simp only [Bool.not_false, ↓reduceIte, Post_pure]
        intro t s' he; cases he
      | true =>
        have hd := hd rfl
        have hp := hp rfl
        simp only at hd hp
        simp only [Bool.not_true, Bool.false_eq_true, ↓reduceIte]
        refine Post_mono (ih s1 ?_) ?_
        · simp only [μ] at h ⊢; omega
        · intro r hr t s' he
          have := hr t s' he
          simp only [Φ, K] at this ⊢; omega

/-- **a pull pays one unit of potential** -/
theorem next_phi (s s' : St) (t : TTok) (h : next s = .ok (some (t, s'))) : Φ s' + 1 ≤ Φ s := by
  have hμ : μ s < fuelFor s.input + 1 := by
    have := w_le s.state
    simp only [μ, fuelFor]; omega
  have := nextFuel_phi _ s hμ
  unfold next at h
  rw [h] at this
  exact this t s' rfl

/-- switching to an entry state between two pulls (what the tree builder orders) does not increase the potential -/
theorem phi_setState_entry (s : St) (st : State) (b : Bool)
    (hst : st = .dataState ∨ st = .rcdataState ∨ st = .rawtextState ∨ st = .scriptDataState ∨ st = .plaintextState) :
    Φ (setCdataAllowed (setState s st) b) ≤ Φ s := by
  rcases hst with h | h | h | h | h <;> subst h <;> simp [Φ, setState, setCdataAllowed, w]

/-- a fresh tokenizer in an entry state: the potential is `8·|input|` -/
theorem phi_init (st : State)
    (hst : st = .dataState ∨ st = .rcdataState ∨ st = .rawtextState ∨ st = .scriptDataState ∨ st = .plaintextState)
    (last : Option Str) (cd : Bool) (input : Str) :
    Φ (St.init st last cd input) = 8 * input.length := by
  rcases hst with h | h | h | h | h <;> subst h <;> simp [Φ, St.init, w]

/-- from any start state (the harness presets other states): at most `8·|input| + 6` -/
theorem phi_init_le (st : State) (last : Option Str) (cd : Bool) (input : Str) :
    Φ (St.init st last cd input) ≤ 8 * input.length + 6 := by
  have := w_le st
  simp only [Φ, K, St.init, List.length_nil]; omega

/-- `Φ` bounds the number of queued tokens -/
theorem queue_le_phi (s : St) : s.tokenQueue.length ≤ Φ s := by
  simp only [Φ]; omega

/-- the budget is used: `&1` in `entityDataState` queues two tokens (parse error + Characters `&`) without consuming
anything, paid by `K·(w entityDataState − w dataState) = 3` -/
example : (match step { St.init .entityDataState none false [49] with tokenQueue := [] } with
    | .ok (true, s') => s'.tokenQueue.length == 2 && s'.input.length == 1 && s'.state == .dataState
    | _ => false) = true := by decide +kernel

/-- non-vacuity of `next_phi`: a pull that yields a token -/
example : (match next (St.init .dataState none false [60, 97, 62, 120]) with
    | .ok (some (t, s')) => t == .startTag [97] [] false && Φ s' + 1 ≤ Φ (St.init .dataState none false [60, 97, 62, 120])
    | _ => false) = true := by decide +kernel

end H5.Props.C03b
