/-
  C03f — end tags of the family `famE2` in `InForeignContentPhase` (as C03dEndForeign).
-/
import H5.Props.C03fEnd
set_option linter.unusedSimpArgs false
set_option linter.unusedVariables false
namespace H5.Props.C03f
open H5 H5.Model H5.Model.TB H5.Model.Dom
open H5.Props.C02c (NF Post Post_bind Post_mono Post_pure Post_ok Post_error Post_throw Post_ite
  NF_typeError NF_keyError NF_indexError NF_assertFail NF_valueError NF_lookupError)
open H5.Props.C03b H5.Props.C03c H5.Props.C03d H5.Props.C03e

/-- `phases[register].processEndTag(token)` for an "other" end tag decreases the rank when it hands the token back -/
def RecDecEG (r : Rec) : Prop :=
  ∀ p tok, inFamE2 tok = true → NsNone tok → ∀ st, C03c.Inv st → st.phase = some p →
    ∀ t st', (r.processEndTag p tok).run st = .ok (some t, st') → psi st'.phase < psi st.phase

theorem foreign_loop_rankG {r : Rec} (hd : RecDecEG r) (tok : Token) (ho : inFamE2 tok = true) (hNs : NsNone tok)
    (name : Str) (st : PState) (hi : C03c.Inv st) : ∀ (fuel : Nat) (i : Int) (node : NodeId) (t : Token) (st' : PState),
    (InForeignContent_processEndTag_loop r tok name fuel i node).run st = .ok (some t, st') →
      psi st'.phase < psi st.phase := by
  intro fuel
  induction fuel with
  | zero =>
    intro i node t st' h
    unfold InForeignContent_processEndTag_loop at h
    cases h
  | succ fuel ih =>
    intro i node t st' h
    unfold InForeignContent_processEndTag_loop at h
    obtain ⟨nm, s1, h1, h2⟩ := run_bind_inv _ _ _ _ _ h
    have := RO_run _ h1
    subst this
    split at h2
    · -- the node matches: the token is consumed
      exfalso
      refine RN_run (m := _) ?_ h2
      rn_auto
    · obtain ⟨l, s2, h3, h4⟩ := run_bind_inv _ _ _ _ _ h2
      have := RO_run _ h3
      subst this
      obtain ⟨x, s3, h5, h6⟩ := run_bind_inv _ _ _ _ _ h4
      have hs3 : s3 = s2 := by
        split at h5
        · cases h5; rfl
        · cases h5
      subst hs3
      obtain ⟨ns, s4, h7, h8⟩ := run_bind_inv _ _ _ _ _ h6
      have := RO_run _ h7
      subst this
      obtain ⟨cfg, s5, h9, h10⟩ := run_bind_inv _ _ _ _ _ h8
      have := RO_run _ h9
      subst this
      split at h10
      · exact ih _ _ _ _ h10
      · obtain ⟨p, s6, h11, h12⟩ := run_bind_inv _ _ _ _ _ h10
        have hc : Tr (curPhase "InForeignContentPhase.processEndTag") s5 (fun p' s' => s' = s5 ∧ s5.phase = some p') :=
          (Tr_curPhase _ _ _).2 (fun p' hp' => ⟨rfl, hp'⟩)
        unfold Tr at hc
        rw [h11] at hc
        obtain ⟨hs6, hp⟩ := hc
        have hs6' : s6 = s5 := hs6
        subst hs6'
        exact hd p tok ho hNs s6 hi hp t st' h12

theorem foreignEG_rank {r : Rec} (hd : RecDecEG r) (tok : Token) (ho : inFamE2 tok = true) (hNs : NsNone tok)
    (st : PState) (hi : C03c.Inv st) (t : Token) (st' : PState)
    (h : (InForeignContent_processEndTag r tok).run st = .ok (some t, st')) : psi st'.phase < psi st.phase := by
  unfold InForeignContent_processEndTag at h
  dsimp only at h
  obtain ⟨d, s1, h1, h2⟩ := run_bind_inv _ _ _ _ _ h
  have := RO_run _ h1
  subst this
  obtain ⟨l, s2, h3, h4⟩ := run_bind_inv _ _ _ _ _ h2
  have := RO_run _ h3
  subst this
  obtain ⟨node, s3, h5, h6⟩ := run_bind_inv _ _ _ _ _ h4
  have := RO_run _ h5
  subst this
  obtain ⟨u, s4, h7, h8⟩ := run_bind_inv _ _ _ _ _ h6
  have := RO_run _ h7
  subst this
  split at h8
  · obtain ⟨_, s5, h9, h10⟩ := run_bind_inv _ _ _ _ _ h8
    have hsame : Same s4 s5 := by
      have := (inferInstance : SV (parseError "unexpected-end-tag" [("name", d.name)])).out s4
      unfold Tr at this
      rw [h9] at this
      exact this
    have hi5 : C03c.Inv s5 := Inv_of_Same hsame hi
    have := foreign_loop_rankG hd tok ho hNs d.name s5 hi5 _ _ _ t st' h10
    rw [phase_of_F hsame.f] at this
    exact this
  · exact foreign_loop_rankG hd tok ho hNs d.name s4 hi _ _ _ t st' h8

end H5.Props.C03f
