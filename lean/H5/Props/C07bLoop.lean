/-
  C07 identity — the parser loop on the serialization of a covered document: the grammar `G0`, its serialization
  text, and the induction over the tree (tokenizer pulls per `TokFacts`, tree-builder steps per C07bStep).
-/
import H5.Props.C07bStep4
import H5.Props.C08c
import H5.Model.Parser
set_option linter.unusedSimpArgs false
set_option linter.unusedVariables false
namespace H5.Props.C07b
open H5 H5.Model H5.Model.TB H5.Model.Dom
open H5.Props.C08c (tagNameOK startTagOK valueOK startTagText endTagText commentText)
open H5.Model.Serializer (escape)

/-- the tokenizer is in the data state at input `inp`, with nothing queued -/
def DataAtI (ts : Model.Tokenizer.St) (inp : Str) : Prop :=
  ts.state = .dataState ∧ ts.input = inp ∧ ts.tokenQueue = []

/-- what the tree-construction side needs from html5lib's tokenizer model on the serializer's output language
(proved in H5.Props.C07bTok; `cOK` is the predicate on comment data) -/
structure TokFacts (cOK : Str → Bool) : Prop where
  eof : ∀ ts, DataAtI ts [] → Model.Tokenizer.next ts = .ok none
  doctype : ∀ ts rest, DataAtI ts (lit "<!DOCTYPE html>" ++ rest) →
    ∃ ts', Model.Tokenizer.next ts = .ok (some (.doctype (some (lit "html")) none none true, ts')) ∧ DataAtI ts' rest
  endTag : ∀ ts name rest, tagNameOK name = true → DataAtI ts (endTagText name ++ rest) →
    ∃ ts', Model.Tokenizer.next ts = .ok (some (.endTag name [] false, ts')) ∧ DataAtI ts' rest
  startTag : ∀ ts name (attrs : List Attr) rest, startTagOK {} name attrs = true →
    DataAtI ts (startTagText {} name attrs ++ rest) →
    ∃ ts', Model.Tokenizer.next ts = .ok (some (.startTag name (attrs.map fun a => (a.name, a.value)) false, ts')) ∧
      DataAtI ts' rest
  text : ∀ ts d rest, d ≠ [] → valueOK d = true → (rest = [] ∨ rest.head? = some 60) → DataAtI ts (escape d ++ rest) →
    ∃ d1 d2 tok ts', d = d1 ++ d2 ∧ d1 ≠ [] ∧ (tok = .chars d1 ∨ tok = .space d1) ∧
      Model.Tokenizer.next ts = .ok (some (tok, ts')) ∧ DataAtI ts' (escape d2 ++ rest)
  comment : ∀ ts d rest, cOK d = true → DataAtI ts (commentText d ++ rest) →
    ∃ ts', Model.Tokenizer.next ts = .ok (some (.comment d, ts')) ∧ DataAtI ts' rest

/-! ### steps of `Parser.loop` -/

/-- `k` iterations of the loop lead from `(ps, ts)` to `(ps', ts')` -/
def PSteps (k : Nat) (ps : PState) (ts : Model.Tokenizer.St) (ps' : PState) (ts' : Model.Tokenizer.St) : Prop :=
  ∀ fuel, Parser.loop cfg0 (fuel + k) ps ts = Parser.loop cfg0 fuel ps' ts'

theorem PSteps.refl (ps ts) : PSteps 0 ps ts ps ts := fun _ => rfl

theorem PSteps.trans {k1 k2 ps1 ts1 ps2 ts2 ps3 ts3} (h1 : PSteps k1 ps1 ts1 ps2 ts2) (h2 : PSteps k2 ps2 ts2 ps3 ts3) :
    PSteps (k1 + k2) ps1 ts1 ps3 ts3 := by
  intro fuel
  have : fuel + (k1 + k2) = (fuel + k2) + k1 := by omega
  rw [this, h1, h2]

/-- one pull + one tree-builder step without a tokenizer state switch -/
theorem PSteps.one {ps ps' : PState} {ts ts' : Model.Tokenizer.St} {tok : TTok}
    (hn : Model.Tokenizer.next ts = .ok (some (tok, ts'))) (hs : TB.step cfg0 ps tok = .ok (ps', none)) :
    PSteps 1 ps ts ps' (Model.Tokenizer.setCdataAllowed ts' (cdataAllowed ps')) := by
  intro fuel
  show Parser.loop cfg0 (fuel + 1) ps ts = _
  conv => lhs; unfold Parser.loop
  simp only [hn, ok_bind, hs]

/-- one pull and one tree-builder step that orders a tokenizer state switch -/
theorem PSteps.oneSw {ps ps' : PState} {ts ts' : Model.Tokenizer.St} {tok : TTok} {s : TokStateSwitch}
    (hn : Model.Tokenizer.next ts = .ok (some (tok, ts'))) (hs : TB.step cfg0 ps tok = .ok (ps', some s)) :
    PSteps 1 ps ts ps'
      (Model.Tokenizer.setCdataAllowed (Model.Tokenizer.setState ts' (Parser.tokStateOf s)) (cdataAllowed ps')) := by
  intro fuel
  show Parser.loop cfg0 (fuel + 1) ps ts = _
  conv => lhs; unfold Parser.loop
  simp only [hn, ok_bind, hs]

theorem DataAtI.setCdata {ts : Model.Tokenizer.St} {inp : Str} (h : DataAtI ts inp) (b : Bool) :
    DataAtI (Model.Tokenizer.setCdataAllowed ts b) inp := h

/-! ### the serialization of covered body content (the grammar itself: H5.Props.C07bGrammar) -/

mutual
def serNode : Tree → Str
  | .text d => escape d
  | .comment d => commentText d
  | .elem _ nm attrs cs =>
    if Gen.voidElements.elem nm then startTagText {} nm attrs
    else startTagText {} nm attrs ++ serForest cs ++ endTagText nm
  | _ => []
def serForest : List Tree → Str
  | [] => []
  | t :: rest => serNode t ++ serForest rest
end

theorem voidName_void {nm : Str} (h : voidName nm = true) : Gen.voidElements.elem nm = true := by
  simp only [voidName, Bool.and_eq_true] at h; exact h.1.2

theorem headingNames_facts : Gen.headingElements.all (fun nm =>
    decide (headingStart nm) && decide (headingEnd nm) && !Gen.Lit.TB_TreeBuilder_generateImpliedEndTags_0.contains nm &&
    !C08c.specialElements.elem nm && !Gen.voidElements.elem nm && !(nm == sP)) = true := by
  decide +kernel

theorem headingName_facts {nm : Str} (h : headingName nm = true) :
    headingStart nm ∧ headingEnd nm ∧ Gen.Lit.TB_TreeBuilder_generateImpliedEndTags_0.contains nm = false ∧
    C08c.specialElements.elem nm = false ∧ Gen.voidElements.elem nm = false ∧ nm ≠ sP ∧ nm ∈ Gen.headingElements := by
  have hm : nm ∈ Gen.headingElements := by simpa [headingName] using h
  have := List.all_eq_true.1 headingNames_facts nm hm
  simp only [Bool.and_eq_true, decide_eq_true_eq, Bool.not_eq_true', beq_eq_false_iff_ne, ne_eq] at this
  obtain ⟨⟨⟨⟨⟨h1, h2⟩, h3⟩, h4⟩, h5⟩, h6⟩ := this
  exact ⟨h1, h2, h3, h4, h5, h6, hm⟩

theorem itemName_cases {nm : Str} (h : itemName nm = true) : nm = lit "li" ∨ nm = lit "dt" ∨ nm = lit "dd" := by
  have : (nm = lit "li" ∨ nm = lit "dt") ∨ nm = lit "dd" := by simpa [itemName] using h
  rcases this with (h | h) | h
  · exact Or.inl h
  · exact Or.inr (Or.inl h)
  · exact Or.inr (Or.inr h)

theorem catOf_facts {nm : Str} {c : Cat} (h : catOf nm = some c) :
    Gen.voidElements.elem nm = false ∧ C08c.specialElements.elem nm = false := by
  unfold catOf at h
  split at h
  · rename_i ho
    simp only [ordinaryName, Bool.and_eq_true, Bool.not_eq_true'] at ho
    exact ⟨ho.2, ho.1.2⟩
  · split at h
    · rename_i hb
      simp only [blockName, Bool.and_eq_true, Bool.not_eq_true'] at hb
      exact ⟨hb.1.2, hb.1.1.2⟩
    · split at h
      · rename_i hp
        have : nm = sP := by simpa using hp
        subst this
        exact ⟨by decide, by decide⟩
      · split at h
        · rename_i hf
          have := fmtName_facts hf
          exact ⟨this.2.2.2.2.1, this.2.2.2.1⟩
        · split at h
          · rename_i hh
            have := headingName_facts hh
            exact ⟨this.2.2.2.2.1, this.2.2.2.1⟩
          · split at h
            · rename_i hi
              rcases itemName_cases hi with rfl | rfl | rfl <;> exact ⟨by decide, by decide⟩
            · cases h

/-- the frame is the same open node (more children may have been completed) -/
def SameFrame (f f' : Frame) : Prop :=
  f'.id = f.id ∧ f'.node.kind = f.node.kind ∧ f'.node.attrs = f.node.attrs

theorem SameFrame.refl (f : Frame) : SameFrame f f := ⟨rfl, rfl, rfl⟩
theorem SameFrame.trans {a b c : Frame} (h1 : SameFrame a b) (h2 : SameFrame b c) : SameFrame a c :=
  ⟨h2.1.trans h1.1, h2.2.1.trans h1.2.1, h2.2.2.trans h1.2.2⟩
theorem SameFrame.withLeaf (f : Frame) (c : Nat) (t : Tree) : SameFrame f (withLeaf f c t) := ⟨rfl, rfl, rfl⟩

theorem valueOK_append {a b : Str} (h : valueOK (a ++ b) = true) : valueOK a = true ∧ valueOK b = true := by
  simp only [valueOK, List.all_append, Bool.and_eq_true] at h
  exact h

theorem valueOK_ne_nul {d : Str} (h : valueOK d = true) : d ≠ [0] := by
  intro he
  subst he
  simp [valueOK] at h

/-- a text node: one or more pulls, each a `Characters` / `SpaceCharacters` token appended as a text node -/
theorem text_run {cOK : Str → Bool} (F : TokFacts cOK) : ∀ (n : Nat) (d : Str), d.length = n → d ≠ [] →
    valueOK d = true → ∀ (ps : PState) (fs : List Frame) (f : Frame) (ts : Model.Tokenizer.St) (rest : Str),
    BodyInv ps fs f → DataAtI ts (escape d ++ rest) → (rest = [] ∨ rest.head? = some 60) →
    ∃ k ps' ts' f' ds, PSteps k ps ts ps' ts' ∧ k ≤ d.length ∧ BodyInv ps' fs f' ∧ DataAtI ts' rest ∧ SameFrame f f' ∧
      f'.kids = f.kids ++ ds.map Tree.text ∧ ds.flatten = d ∧ (∀ x ∈ ds, x ≠ []) ∧ ds ≠ [] := by
  intro n
  induction n using Nat.strongRecOn with
  | ind n ih =>
    intro d hn hne hok ps fs f ts rest hinv hat hrest
    obtain ⟨d1, d2, tok, ts1, hd, hd1, htok, hnext, hat1⟩ := F.text ts d rest hne hok hrest hat
    have hok12 : valueOK d1 = true ∧ valueOK d2 = true := by rw [hd] at hok; exact valueOK_append hok
    have hstep : ∃ ps1, TB.step cfg0 ps tok = .ok (ps1, none) ∧
        BodyInv ps1 fs (withLeaf f ps.arena.nodes.size (.text d1)) := by
      rcases htok with rfl | rfl
      · exact step_chars hinv d1 (valueOK_ne_nul hok12.1)
      · exact step_space hinv d1
    obtain ⟨ps1, hs1, hinv1⟩ := hstep
    have hone := PSteps.one hnext hs1
    have hlen1 : 0 < d1.length := List.length_pos_iff.2 hd1
    by_cases h2 : d2 = []
    · subst h2
      refine ⟨1, ps1, _, _, [d1], hone, by rw [hd]; simp; omega, hinv1, ?_, SameFrame.withLeaf _ _ _, rfl, by simp [hd],
        by simp [hd1], by simp⟩
      have he : escape [] = [] := by decide
      have := hat1.setCdata (cdataAllowed ps1)
      rw [he, List.nil_append] at this
      exact this
    · have hlt : d2.length < n := by rw [← hn, hd]; simp; omega
      obtain ⟨k, ps', ts', f', ds, hst, hk, hinv', hat', hsf, hkids, hfl, hall, hdsne⟩ :=
        ih d2.length hlt d2 rfl h2 hok12.2 ps1 fs _ _ rest hinv1 (hat1.setCdata (cdataAllowed ps1)) hrest
      refine ⟨1 + k, ps', ts', f', d1 :: ds, hone.trans hst, by rw [hd]; simp; omega, hinv', hat',
        (SameFrame.withLeaf _ _ _).trans hsf, ?_, by simp [hfl, hd], ?_, by simp⟩
      · rw [hkids]; simp [withLeaf]
      · intro x hx
        rcases List.mem_cons.1 hx with rfl | hx
        · exact hd1
        · exact hall x hx

/-! ### attributes survive: tokenizer pairs → `attrsOfPairs` → arena → `attrToTree` -/

theorem get?_append_singleton (acc : Attrs) (k k' : AttrKey) (v : Str) :
    Attrs.get? (acc ++ [(k', v)]) k = match Attrs.get? acc k with
      | some x => some x
      | none => if k' == k then some v else none := by
  induction acc with
  | nil => simp [Attrs.get?]
  | cons p acc ih =>
    obtain ⟨k0, v0⟩ := p
    simp only [List.cons_append, Attrs.get?]
    split
    · rfl
    · exact ih

theorem attrsOfPairs_fold (attrs : List Attr) : ∀ (acc : Attrs),
    (∀ a ∈ attrs, Attrs.contains acc (.plain a.name) = false) → (attrs.map (·.name)).Nodup →
    (attrs.map fun a => (a.name, a.value)).foldl
        (fun acc p => if Attrs.contains acc (.plain p.1) then acc else acc ++ [(.plain p.1, p.2)]) acc
      = acc ++ attrs.map fun a => (AttrKey.plain a.name, a.value) := by
  induction attrs with
  | nil => intro acc _ _; simp
  | cons a rest ih =>
    intro acc hacc hnd
    have ha := hacc a (by simp)
    simp only [List.map_cons, List.foldl_cons, ha, Bool.false_eq_true, ↓reduceIte]
    rw [ih]
    · simp
    · intro b hb
      have hb0 := hacc b (List.mem_cons_of_mem _ hb)
      simp only [Attrs.contains, get?_append_singleton] at hb0 ⊢
      cases hg : Attrs.get? acc (.plain b.name) with
      | some x => rw [hg] at hb0; simp at hb0
      | none =>
        simp only [List.map_cons, List.nodup_cons, List.mem_map, not_exists, not_and] at hnd
        have hne : a.name ≠ b.name := fun he => hnd.1 b hb he.symm
        have hk : (AttrKey.plain a.name == AttrKey.plain b.name) = (a.name == b.name) := rfl
        rw [hk]
        simpa using hne
    · simp only [List.map_cons, List.nodup_cons] at hnd
      exact hnd.2

theorem attrs_roundtrip (attrs : List Attr) (hp : attrsPlain attrs = true) (hnd : (attrs.map (·.name)).Nodup) :
    (attrsOfPairs (attrs.map fun a => (a.name, a.value))).map attrToTree = attrs := by
  unfold attrsOfPairs
  rw [attrsOfPairs_fold attrs [] (fun _ _ => rfl) hnd]
  simp only [List.nil_append, List.map_map]
  simp only [attrsPlain, List.all_eq_true, beq_iff_eq] at hp
  have : ∀ a ∈ attrs, (attrToTree ∘ fun a => (AttrKey.plain a.name, a.value)) a = a := by
    intro a ha
    have := hp a ha
    cases a
    simp only [Function.comp, attrToTree]
    simp at this
    simp [this]
  rw [List.map_congr_left this]
  simp

/-! ### the pieces of a forest and their merge -/

/-- what the tree builder appends for a forest: every text node as one text node per token, the rest as is -/
inductive Pieces : List Tree → List Tree → Prop
  | nil : Pieces [] []
  | text {d : Str} {ds : List Str} {cs ks : List Tree} : ds ≠ [] → (∀ x ∈ ds, x ≠ []) → ds.flatten = d →
      (cs.head?.map isText).getD false = false → Pieces cs ks → Pieces (.text d :: cs) (ds.map Tree.text ++ ks)
  | other {u : Tree} {cs ks : List Tree} : isText u = false → Pieces cs ks → Pieces (u :: cs) (u :: ks)

theorem mergeText_texts (ds : List Str) (ks cs : List Tree) (hds : ds ≠ []) (hall : ∀ x ∈ ds, x ≠ [])
    (hm : mergeText ks = cs) (hh : (cs.head?.map isText).getD false = false) :
    mergeText (ds.map Tree.text ++ ks) = .text ds.flatten :: cs := by
  induction ds with
  | nil => exact absurd rfl hds
  | cons x r ih =>
    have hx : x ≠ [] := hall x (by simp)
    by_cases hr : r = []
    · subst hr
      simp only [List.map_cons, List.map_nil, List.cons_append, List.nil_append, mergeText, hm, List.flatten_cons,
        List.flatten_nil, List.append_nil]
      cases cs with
      | nil => simp [hx]
      | cons c cs' =>
        cases c <;> simp [isText] at hh <;> simp [hx]
    · have := ih hr (fun y hy => hall y (List.mem_cons_of_mem _ hy))
      simp only [List.map_cons, List.cons_append, mergeText, this, List.flatten_cons]

theorem Pieces.merge {cs ks : List Tree} (h : Pieces cs ks) : mergeText ks = cs := by
  induction h with
  | nil => rfl
  | text h1 h2 h3 h4 _ ih => rw [mergeText_texts _ _ _ h1 h2 ih h4, h3]
  | @other u cs ks h1 _ ih =>
    cases u with
    | text d => simp [isText] at h1
    | _ => simp [mergeText, ih]

/-! ### the induction over covered content -/

/-- what is appended under the current node for one node of the forest -/
def NodePieces (u : Tree) (ks : List Tree) : Prop :=
  match u with
  | .text d => ∃ ds : List Str, ds ≠ [] ∧ (∀ x ∈ ds, x ≠ []) ∧ ds.flatten = d ∧ ks = ds.map Tree.text
  | _ => ks = [u]

theorem startTagText_head (nm : Str) (attrs : List Attr) (r : Str) :
    (startTagText {} nm attrs ++ r).head? = some 60 := by simp [startTagText]
theorem endTagText_head (nm : Str) (r : Str) : (endTagText nm ++ r).head? = some 60 := by simp [endTagText]
theorem commentText_head (d : Str) (r : Str) : (commentText d ++ r).head? = some 60 := by simp [commentText]

theorem serNode_head {cOK : Str → Bool} {x : Ctx} (u : Tree) (hu : okNode cOK x u = true) (ht : isText u = false)
    (r : Str) : (serNode u ++ r).head? = some 60 := by
  cases u with
  | text d => simp [isText] at ht
  | comment d => simp only [serNode]; exact commentText_head d r
  | elem ns nm attrs cs =>
    simp only [serNode]
    split
    · exact startTagText_head nm attrs _
    · simp only [List.append_assoc]; exact startTagText_head nm attrs _
  | doc cs => simp [okNode] at hu
  | frag cs => simp [okNode] at hu
  | doctype a b c => simp [okNode] at hu

theorem startTagText_length_pos (nm : Str) (attrs : List Attr) : 0 < (startTagText {} nm attrs).length := by
  simp [startTagText]
theorem endTagText_length_pos (nm : Str) : 0 < (endTagText nm).length := by simp [endTagText]
theorem commentText_length_pos (d : Str) : 0 < (commentText d).length := by simp [commentText]

theorem escape_length_le (d : Str) : d.length ≤ (escape d).length := by
  induction d with
  | nil => simp
  | cons c r ih =>
    rw [H5.Props.C08.escape_cons]
    have : 1 ≤ (H5.Props.C08.esc1 c).length := by
      unfold H5.Props.C08.esc1
      split <;> (try split) <;> (try split) <;> simp
    simp only [List.length_append, List.length_cons]
    omega

/-- the steps for the start and the end tag of a container element of category `c` -/
theorem cat_steps {nm : Str} {c : Cat} (hc : catOf nm = some c) (x : Ctx) (hal : x.allowed c nm = true) :
    (∀ ps fs f attrs, BodyInv ps fs f → CtxOK x fs f →
      ∃ ps', TB.step cfg0 ps (.startTag nm attrs false) = .ok (ps', none) ∧
        BodyInv ps' (fs ++ [withChild f ps.arena.nodes.size]) (newFrame ps.arena.nodes.size f.id nm (attrsOfPairs attrs)) ∧
        CtxOK (x.inner c nm) (fs ++ [withChild f ps.arena.nodes.size])
          (newFrame ps.arena.nodes.size f.id nm (attrsOfPairs attrs))) ∧
    (∀ ps fs p g, BodyInv ps (fs ++ [p]) g → fs ≠ [] → g.node.kind = .element (some htmlNs) nm →
      (∃ pn, p.node.kind = .element (some htmlNs) pn) → (x.inP = false → HtmlBottom (fs ++ [p]) g) →
      ∃ ps', TB.step cfg0 ps (.endTag nm [] false) = .ok (ps', none) ∧
        BodyInv ps' fs { p with kids := p.kids ++ [g.tree] }) := by
  -- the new frame of a name that is not a formatting name keeps the formatting context
  have keep : ∀ {fs : List Frame} {f : Frame} (c0 : Nat) (attrs : Attrs), fs ≠ [] → fmtName nm = false →
      FmtCtx fs f x.fm → FmtCtx (fs ++ [withChild f c0]) (newFrame c0 f.id nm attrs) x.fm := by
    intro fs f c0 attrs hfs hnf hfm
    refine hfm.push hfs (withChild f c0) (newFrame c0 f.id nm attrs) rfl x.fm (fun _ h => h) ?_
    intro hf
    have : isFmt (newFrame c0 f.id nm attrs) = fmtName nm := rfl
    rw [this, hnf] at hf
    cases hf
  unfold catOf at hc
  split at hc
  · -- ordinary
    rename_i ho
    cases hc
    simp only [ordinaryName, Bool.and_eq_true, decide_eq_true_eq, Bool.not_eq_true'] at ho
    obtain ⟨⟨⟨hos, hoe⟩, _⟩, _⟩ := ho
    have hnp : nm ≠ sP := by
      intro h; subst h; exact absurd hos (by decide)
    have hnf : fmtName nm = false := not_fmt_of_start hos (by decide) (by decide)
    refine ⟨?_, ?_⟩
    · intro ps fs f attrs hinv hctx
      obtain ⟨ps', h1, h2⟩ := step_startTagOther hinv nm attrs hos
      exact ⟨ps', h1, h2, fun hi => (hctx.1 hi).push hinv.fsne _ _ nm rfl rfl hnp, keep _ _ hinv.fsne hnf hctx.2.1, rfl⟩
    · intro ps fs p g hinv hfs hg hpk _
      exact step_endTagOther hinv nm hfs hg hpk hoe
  · split at hc
    · -- block
      rename_i hb
      cases hc
      simp only [blockName, Bool.and_eq_true, decide_eq_true_eq, Bool.not_eq_true', beq_eq_false_iff_ne, ne_eq] at hb
      obtain ⟨⟨⟨⟨⟨⟨hcs, hbe⟩, hpre⟩, himpl⟩, _⟩, _⟩, hnp⟩ := hb
      have hi : x.inP = false := by simpa [Ctx.allowed] using hal
      have hnf : fmtName nm = false := not_fmt_of_start hcs (by decide) (by decide)
      refine ⟨?_, ?_⟩
      · intro ps fs f attrs hinv hctx
        obtain ⟨ps', h1, h2⟩ := step_startTagCloseP hinv (hctx.1 hi) nm attrs hcs
        exact ⟨ps', h1, h2, fun _ => (hctx.1 hi).push hinv.fsne _ _ nm rfl rfl hnp, keep _ _ hinv.fsne hnf hctx.2.1, rfl⟩
      · intro ps fs p g hinv hfs hg hpk _
        exact step_endTagBlock hinv nm hfs hg hpk hbe (by simpa using hpre) himpl
    · split at hc
      · -- p
        rename_i hp
        cases hc
        have : nm = sP := by simpa using hp
        subst this
        have hi : x.inP = false := by simpa [Ctx.allowed] using hal
        refine ⟨?_, ?_⟩
        · intro ps fs f attrs hinv hctx
          obtain ⟨ps', h1, h2⟩ := step_startTagCloseP hinv (hctx.1 hi) sP attrs (by decide)
          exact ⟨ps', h1, h2, fun h => by simp [Ctx.inner] at h, keep _ _ hinv.fsne (by decide) hctx.2.1, rfl⟩
        · intro ps fs p g hinv hfs hg hpk _
          exact step_endTagP hinv hfs hg hpk
      · split at hc
        · -- a formatting element
          rename_i hf
          cases hc
          have hnm : nm ∉ x.fm := by simpa [Ctx.allowed] using hal
          have hnp : nm ≠ sP := (fmtName_facts hf).2.2.2.2.2
          refine ⟨?_, ?_⟩
          · intro ps fs f attrs hinv hctx
            obtain ⟨ps', h1, h2⟩ := step_startTagFormatting hinv nm attrs hf (hctx.2.1.noFmtNamed hnm)
            refine ⟨ps', h1, h2, fun hi => (hctx.1 hi).push hinv.fsne _ _ nm rfl rfl hnp, ?_, rfl⟩
            exact hctx.2.1.push hinv.fsne (withChild f ps.arena.nodes.size)
              (newFrame ps.arena.nodes.size f.id nm (attrsOfPairs attrs)) rfl (nm :: x.fm)
              (fun y hy => List.mem_cons_of_mem _ hy) (fun _ => ⟨nm, by simp, rfl⟩)
          · intro ps fs p g hinv hfs hg hpk _
            exact step_endTagFormatting hinv nm hfs hg hpk hf
        · split at hc
          · -- a heading
            rename_i hh
            cases hc
            obtain ⟨hs, he, himpl, _, _, hnp, hin⟩ := headingName_facts hh
            simp only [Ctx.allowed, Bool.and_eq_true, Bool.not_eq_true'] at hal
            have hnf : fmtName nm = false := not_fmt_of_start hs (by decide) (by decide)
            refine ⟨?_, ?_⟩
            · intro ps fs f attrs hinv hctx
              obtain ⟨ps', h1, h2⟩ := step_startTagHeading hinv (hctx.1 hal.1) nm attrs hs x.parent hctx.2.2 hal.2
              exact ⟨ps', h1, h2, fun hi => (hctx.1 hi).push hinv.fsne _ _ nm rfl rfl hnp,
                keep _ _ hinv.fsne hnf hctx.2.1, rfl⟩
            · intro ps fs p g hinv hfs hg hpk hbot
              exact step_endTagHeading hinv (hbot hal.1) nm hfs hg hpk he hin himpl
          · split at hc
            · -- a list item
              rename_i hit
              cases hc
              simp only [Ctx.allowed, Bool.and_eq_true, Bool.not_eq_true'] at hal
              obtain ⟨hi, hpar⟩ := hal
              have hfacts : itemStart nm ∧ itemEnd nm ∧ nm ≠ sP ∧ fmtName nm = false ∧
                  ∃ stop, Gen.Lit.InBodyPhase_startTagListItem_0.find? (fun q => q.1 == nm) = some (nm, stop) ∧
                    stop.contains x.parent = false ∧ Gen.specialElements.contains (htmlNs, x.parent) = true ∧
                    Gen.Lit.InBodyPhase_startTagListItem_1.contains x.parent = false := by
                rcases itemName_cases hit with rfl | rfl | rfl
                · have hp' : x.parent = lit "ul" ∨ x.parent = lit "ol" := by simpa using hpar
                  refine ⟨by unfold itemStart; decide +kernel, by unfold itemEnd; decide +kernel, by decide, by decide,
                    _, rfl, ?_⟩
                  rcases hp' with h | h <;> rw [h] <;> decide +kernel
                · have hne : (lit "dt" == lit "li") = false := by decide
                  have hp' : x.parent = lit "dl" := by simpa [hne] using hpar
                  refine ⟨by unfold itemStart; decide +kernel, by unfold itemEnd; decide +kernel, by decide, by decide,
                    _, rfl, ?_⟩
                  rw [hp']; decide +kernel
                · have hne : (lit "dd" == lit "li") = false := by decide
                  have hp' : x.parent = lit "dl" := by simpa [hne] using hpar
                  refine ⟨by unfold itemStart; decide +kernel, by unfold itemEnd; decide +kernel, by decide, by decide,
                    _, rfl, ?_⟩
                  rw [hp']; decide +kernel
              obtain ⟨hs, he, hnp, hnf, stop, hfind, hstop, hsp, hex⟩ := hfacts
              refine ⟨?_, ?_⟩
              · intro ps fs f attrs hinv hctx
                obtain ⟨ps', h1, h2⟩ := step_startTagListItem hinv (hctx.1 hi) nm attrs hs x.parent hctx.2.2 stop hfind
                  hstop hsp hex
                exact ⟨ps', h1, h2, fun _ => (hctx.1 hi).push hinv.fsne _ _ nm rfl rfl hnp,
                  keep _ _ hinv.fsne hnf hctx.2.1, rfl⟩
              · intro ps fs p g hinv hfs hg hpk _
                exact step_endTagListItem hinv nm hfs hg hpk he
            · cases hc

/-- the step for a void element -/
theorem void_step {nm : Str} (hv : voidName nm = true) (x : Ctx) (hal : x.voidAllowed nm = true) {ps fs f}
    (h : BodyInv ps fs f) (hctx : CtxOK x fs f) (attrs : List (Str × Str)) :
    ∃ ps', TB.step cfg0 ps (.startTag nm attrs false) = .ok (ps', none) ∧
      BodyInv ps' fs (withVoid f ps.arena.nodes.size nm (attrsOfPairs attrs)) := by
  simp only [voidName, Bool.and_eq_true, Bool.or_eq_true, decide_eq_true_eq, beq_iff_eq] at hv
  rcases hv.1.1 with (h1 | h1) | h1
  · exact step_voidFormatting h nm attrs h1
  · exact step_paramSource h nm attrs h1
  · subst h1
    have hi : x.inP = false := by simpa [Ctx.voidAllowed] using hal
    exact step_hr h (hctx.1 hi) attrs

mutual
theorem node_run {cOK : Str → Bool} (F : TokFacts cOK) (x : Ctx) : ∀ (u : Tree), okNode cOK x u = true →
    ∀ (ps : PState) (fs : List Frame) (f : Frame) (ts : Model.Tokenizer.St) (rest : Str),
    BodyInv ps fs f → CtxOK x fs f → DataAtI ts (serNode u ++ rest) →
    (isText u = true → rest.head? = some 60) →
    ∃ k ps' ts' f' ks, PSteps k ps ts ps' ts' ∧ k ≤ (serNode u).length ∧ BodyInv ps' fs f' ∧ DataAtI ts' rest ∧
      SameFrame f f' ∧ f'.kids = f.kids ++ ks ∧ NodePieces u ks
  | .text d, hu, ps, fs, f, ts, rest, hinv, hnop, hat, hrest => by
    simp only [okNode, Bool.and_eq_true, Bool.not_eq_true', List.isEmpty_eq_false_iff] at hu
    obtain ⟨k, ps', ts', f', ds, h1, h2, h3, h4, h5, h6, h7, h8, h9⟩ :=
      text_run F d.length d rfl hu.1 hu.2 ps fs f ts rest hinv hat (Or.inr (hrest rfl))
    exact ⟨k, ps', ts', f', _, h1, Nat.le_trans h2 (escape_length_le d), h3, h4, h5, h6, ds, h9, h8, h7, rfl⟩
  | .comment d, hu, ps, fs, f, ts, rest, hinv, hnop, hat, hrest => by
    obtain ⟨ts1, hn, hat1⟩ := F.comment ts d rest hu hat
    obtain ⟨ps1, hs1, hinv1⟩ := step_comment hinv d
    exact ⟨1, ps1, _, _, [.comment d], PSteps.one hn hs1, commentText_length_pos d, hinv1,
      hat1.setCdata _, SameFrame.withLeaf _ _ _, rfl, rfl⟩
  | .elem ns nm attrs cs, hu, ps, fs, f, ts, rest, hinv, hnop, hat, hrest => by
    simp only [okNode, Bool.and_eq_true, beq_iff_eq] at hu
    obtain ⟨⟨⟨hns, hplain⟩, hst⟩, hbody⟩ := hu
    have hnameOK : tagNameOK nm = true := by
      simp only [startTagOK, Bool.and_eq_true] at hst
      exact hst.1.1
    have hnd : (attrs.map (·.name)).Nodup := by
      simp only [startTagOK, Bool.and_eq_true, C08c.namesDistinct, decide_eq_true_eq] at hst
      exact hst.2
    by_cases hv : voidName nm = true
    · -- a void element: one start tag
      simp only [hv, if_true, List.isEmpty_iff, Bool.and_eq_true] at hbody
      obtain ⟨hbody, hval⟩ := hbody
      subst hbody
      have hat0 : DataAtI ts (startTagText {} nm attrs ++ rest) := by
        have := hat
        simp only [serNode, voidName_void hv, if_true] at this
        exact this
      obtain ⟨ts1, hn1, hat1⟩ := F.startTag ts nm attrs _ hst hat0
      obtain ⟨ps1, hs1, hinv1⟩ := void_step hv x hval hinv hnop (attrs.map fun a => (a.name, a.value))
      have htree : (newFrame ps.arena.nodes.size f.id nm (attrsOfPairs (attrs.map fun a => (a.name, a.value)))).tree =
          .elem ns nm attrs [] := by
        show Tree.elem (some htmlNs) nm ((attrsOfPairs (attrs.map fun a => (a.name, a.value))).map attrToTree)
          (mergeText []) = _
        rw [attrs_roundtrip attrs hplain hnd, hns]
        rfl
      refine ⟨1, ps1, _, _, [.elem ns nm attrs []], PSteps.one hn1 hs1, ?_, hinv1, hat1.setCdata _, ⟨rfl, rfl, rfl⟩, ?_, rfl⟩
      · simp only [serNode, voidName_void hv, if_true]
        exact startTagText_length_pos nm attrs
      · show f.kids ++ [_] = _
        rw [htree]
    · -- a container
      have hv' : voidName nm = false := by simpa using hv
      simp only [hv', Bool.false_eq_true, if_false] at hbody
      cases hc : catOf nm with
      | none => simp [hc] at hbody
      | some c =>
        simp only [hc, Bool.and_eq_true] at hbody
        obtain ⟨hal, hcs⟩ := hbody
        obtain ⟨hstart, hend⟩ := cat_steps hc x hal
        have hnv : Gen.voidElements.elem nm = false := (catOf_facts hc).1
        -- the start tag
        have hat0 : DataAtI ts (startTagText {} nm attrs ++ (serForest cs ++ (endTagText nm ++ rest))) := by
          have := hat
          simp only [serNode, hnv, Bool.false_eq_true, if_false, List.append_assoc] at this
          exact this
        obtain ⟨ts1, hn1, hat1⟩ := F.startTag ts nm attrs _ hst hat0
        obtain ⟨ps1, hs1, hinv1, hnop1⟩ := hstart ps fs f (attrs.map fun a => (a.name, a.value)) hinv hnop
        -- the children
        obtain ⟨k, ps2, ts2, g, ks, hsteps, hk, hinv2, hat2, hsf, hkids, hpieces⟩ :=
          forest_run F (x.inner c nm) cs hcs ps1 _ _ _ (endTagText nm ++ rest) hinv1 hnop1 (hat1.setCdata _)
            (endTagText_head nm rest)
        -- the end tag
        obtain ⟨ts3, hn3, hat3⟩ := F.endTag ts2 nm rest hnameOK hat2
        have hgk : g.node.kind = .element (some htmlNs) nm := hsf.2.1
        have hbot : x.inP = false → HtmlBottom (fs ++ [withChild f ps.arena.nodes.size]) g := fun hi =>
          (((hnop.1 hi).htmlBottom.push hinv.fsne (withChild f ps.arena.nodes.size)
            (newFrame ps.arena.nodes.size f.id nm (attrsOfPairs (attrs.map fun a => (a.name, a.value)))) nm rfl rfl).same
            hgk)
        obtain ⟨ps3, hs3, hinv3⟩ := hend ps2 fs _ g hinv2 hinv.fsne hgk hinv.topk hbot
        have htree : g.tree = .elem ns nm attrs cs := by
          unfold Frame.tree
          rw [hgk]
          have ha : g.node.attrs = attrsOfPairs (attrs.map fun a => (a.name, a.value)) := hsf.2.2
          have hk' : g.kids = ks := by rw [hkids]; rfl
          rw [ha, attrs_roundtrip attrs hplain hnd, hk', hpieces.merge, hns]
        refine ⟨1 + k + 1, ps3, _, _, [.elem ns nm attrs cs],
          ((PSteps.one hn1 hs1).trans hsteps).trans (PSteps.one hn3 hs3), ?_,
          hinv3, hat3.setCdata _, ⟨rfl, rfl, rfl⟩, ?_, rfl⟩
        · have h1 := startTagText_length_pos nm attrs
          have h2 := endTagText_length_pos nm
          simp only [serNode, hnv, Bool.false_eq_true, if_false, List.length_append]
          omega
        · show (withChild f ps.arena.nodes.size).kids ++ [g.tree] = _
          rw [htree]; rfl
  | .doc cs, hu, _, _, _, _, _, _, _, _, _ => by simp [okNode] at hu
  | .frag cs, hu, _, _, _, _, _, _, _, _, _ => by simp [okNode] at hu
  | .doctype a b c, hu, _, _, _, _, _, _, _, _, _ => by simp [okNode] at hu
theorem forest_run {cOK : Str → Bool} (F : TokFacts cOK) (x : Ctx) : ∀ (cs : List Tree), okForest cOK x cs = true →
    ∀ (ps : PState) (fs : List Frame) (f : Frame) (ts : Model.Tokenizer.St) (rest : Str),
    BodyInv ps fs f → CtxOK x fs f → DataAtI ts (serForest cs ++ rest) → rest.head? = some 60 →
    ∃ k ps' ts' f' ks, PSteps k ps ts ps' ts' ∧ k ≤ (serForest cs).length ∧ BodyInv ps' fs f' ∧ DataAtI ts' rest ∧
      SameFrame f f' ∧ f'.kids = f.kids ++ ks ∧ Pieces cs ks
  | [], _, ps, fs, f, ts, rest, hinv, _, hat, _ =>
    ⟨0, ps, ts, f, [], PSteps.refl ps ts, Nat.le_refl _, hinv, hat, SameFrame.refl f, by simp, .nil⟩
  | u :: cs, hu, ps, fs, f, ts, rest, hinv, hnop, hat, hrest => by
    simp only [okForest, Bool.and_eq_true, Bool.not_eq_true'] at hu
    obtain ⟨⟨hu1, hadj⟩, hcs⟩ := hu
    have hat0 : DataAtI ts (serNode u ++ (serForest cs ++ rest)) := by
      simpa [serForest, List.append_assoc] using hat
    have hnext : isText u = true → (serForest cs ++ rest).head? = some 60 := by
      intro ht
      cases cs with
      | nil => simpa [serForest] using hrest
      | cons v cs' =>
        have hv : isText v = false := by simpa [ht] using hadj
        simp only [okForest, Bool.and_eq_true] at hcs
        simp only [serForest, List.append_assoc]
        exact serNode_head v hcs.1.1 hv _
    obtain ⟨k1, ps1, ts1, f1, ks1, hst1, hk1, hinv1, hat1, hsf1, hkids1, hp1⟩ :=
      node_run F x u hu1 ps fs f ts _ hinv hnop hat0 hnext
    obtain ⟨k2, ps2, ts2, f2, ks2, hst2, hk2, hinv2, hat2, hsf2, hkids2, hp2⟩ :=
      forest_run F x cs hcs ps1 fs f1 ts1 rest hinv1 (hnop.same hsf1.2.1) hat1 hrest
    refine ⟨k1 + k2, ps2, ts2, f2, ks1 ++ ks2, hst1.trans hst2, ?_, hinv2, hat2, hsf1.trans hsf2, ?_, ?_⟩
    · simp only [serForest, List.length_append]; omega
    · rw [hkids2, hkids1, List.append_assoc]
    · cases u with
      | text d =>
        obtain ⟨ds, h1, h2, h3, h4⟩ := hp1
        rw [h4]
        refine .text h1 h2 h3 ?_ hp2
        cases cs with
        | nil => rfl
        | cons v cs' => simpa [isText] using hadj
      | comment d => have : ks1 = [.comment d] := hp1; rw [this]; exact .other rfl hp2
      | elem a b c e => have : ks1 = [.elem a b c e] := hp1; rw [this]; exact .other rfl hp2
      | doc e => simp [okNode] at hu1
      | frag e => simp [okNode] at hu1
      | doctype a b c => simp [okNode] at hu1
end

end H5.Props.C07b
