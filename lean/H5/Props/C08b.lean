/-
  Property C08 (continued) — text written by the serializer re-tokenises to itself.

  `escape` (H5.Model.Serializer, model of `xml.sax.saxutils.escape` as the serializer uses it for
  character data) followed by the WHATWG tokenizer written from the standard (H5.Spec.Tokenizer) in
  the data state gives back exactly the text: `C08_text_roundtrip`.

  The named-reference lookup of the Spec is characterised from the table facts `TableOK`
  (H5.Props.C14b): a name ending in `;` that is in the table is the longest match whatever follows.
-/
import H5.Props.C08
import H5.Props.C14b
import H5.Spec.Tokenizer
import H5.Spec.Compare
namespace H5.Props.C08
open H5 H5.Gen H5.Spec H5.Spec.Tokenizer
open H5.Model.Serializer (escape)
open H5.Props.C14 (TableOK entities_TableOK)

/-! ### (a) `escape` is a character-by-character substitution -/

/-- what `escape` writes for one character -/
def esc1 (c : Nat) : Str :=
  if c = 38 then [38, 97, 109, 112, 59]        -- &amp;
  else if c = 60 then [38, 108, 116, 59]       -- &lt;
  else if c = 62 then [38, 103, 116, 59]       -- &gt;
  else [c]

theorem replaceChar_append (a b : Str) (o : Nat) (n : Str) :
    (a ++ b).replaceChar o n = a.replaceChar o n ++ b.replaceChar o n := by
  simp [Str.replaceChar]

theorem replaceChar_cons (x : Nat) (xs : Str) (o : Nat) (n : Str) :
    Str.replaceChar (x :: xs) o n = (if x = o then n else [x]) ++ Str.replaceChar xs o n := by
  simp [Str.replaceChar]

theorem escape_cons (c : Nat) (s : Str) : escape (c :: s) = esc1 c ++ escape s := by
  unfold escape
  rw [replaceChar_cons, replaceChar_append, replaceChar_append]
  congr 1
  by_cases h1 : c = 38
  · subst h1; decide
  · by_cases h2 : c = 60
    · subst h2; decide
    · by_cases h3 : c = 62
      · subst h3; decide
      · simp [h1, h2, h3, esc1, Str.replaceChar]

/-- **C08 (a).** `escape` replaces `&`, `<`, `>` one by one and keeps every other character. -/
theorem C08_escape_flatMap (s : Str) : escape s = s.flatMap esc1 := by
  induction s with
  | nil => rfl
  | cons c s ih => rw [escape_cons, ih]; simp

/-! ### The Spec's named-reference lookup on a name that ends in `;` -/

/-- the Spec's lookup is `Spec.longestMatch` (H5.Props.C14b) on html5lib's table -/
theorem longestNamedReference_eq (input : Str) :
    longestNamedReference input = longestMatch entities input := rfl

theorem entry_unique {tbl : List (Str × Str)} (ok : TableOK tbl) {k v v2 : Str} (h1 : (k, v) ∈ tbl) (h2 : (k, v2) ∈ tbl) :
    v2 = v := by
  have a := H5.Props.C14.lookup_of_mem_nodup tbl k v ok.nodup h1
  have b := H5.Props.C14.lookup_of_mem_nodup tbl k v2 ok.nodup h2
  rw [a] at b
  exact (Option.some.inj b).symm

/-- in a table satisfying `TableOK`, a key `k` ending in `;` dominates every key that is a prefix of `k ++ rest` -/
theorem semicolon_key_dominates {tbl : List (Str × Str)} (ok : TableOK tbl) {k v : Str} (hm : (k, v) ∈ tbl)
    (hlast : k.getLast? = some 59) (rest : Str) :
    ∀ e ∈ tbl, e.1 <+: k ++ rest → e.1.length < k.length ∨ e = (k, v) := by
  intro e he hp
  by_cases hl : e.1.length < k.length
  · left; exact hl
  · right
    have hk : k <+: e.1 := List.prefix_of_prefix_length_le (List.prefix_append k rest) hp (by omega)
    obtain ⟨t, ht⟩ := hk
    cases t with
    | nil =>
      obtain ⟨e1, e2⟩ := e
      simp only [List.append_nil] at ht
      subst ht
      rw [entry_unique ok hm he]
    | cons c t =>
      exfalso
      have hne := H5.Props.C14.no_extension ok hlast c
      have : H5.Model.hasKeysWithPrefix tbl (k ++ [c]) = true := by
        simp only [H5.Model.hasKeysWithPrefix, List.any_eq_true]
        refine ⟨e, he, ?_⟩
        simp only [List.isPrefixOf_iff_prefix]
        exact ⟨t, by rw [← ht]; simp⟩
      rw [hne] at this
      exact absurd this (by simp)

/-- **Spec lookup.** "consume the maximum number of characters possible": a table name ending in `;`
is the match, whatever follows it. -/
theorem longestNamedReference_semicolon {k v : Str} (hm : (k, v) ∈ entities) (hlast : k.getLast? = some 59)
    (rest : Str) : longestNamedReference (k ++ rest) = some (k, v) := by
  rw [longestNamedReference_eq]
  apply H5.Props.C14.foldl_pick_max (k ++ rest) (k, v) entities none
  · exact semicolon_key_dominates entities_TableOK hm hlast rest
  · right
    exact ⟨hm, List.prefix_append k rest, by simp⟩

/-- **Model follows the Spec's lookup.** html5lib's `consumeNamedEntity` (model) decodes according to the
standard's "maximum number of characters possible" match `longestNamedReference` (Spec), in the sense of
`H5.Props.C14.NamedResult` (value of the longest match, the attribute exception, nothing lost otherwise). -/
theorem C14_named_model_vs_spec (fromAttribute : Bool) (c0 : Nat) (s2 : Str) (m : Option (Str × Str))
    (h : longestNamedReference (c0 :: s2) = m) : H5.Props.C14.NamedResult entities fromAttribute c0 s2 m :=
  H5.Props.C14.C14_named_longest_entities fromAttribute c0 s2 m ((longestNamedReference_eq _).symm.trans h)

/-! ### (b) macro steps of the Spec machine in the data state -/

theorem run_succ (f : Nat) (m : M) (input : Str) (n : Nat) :
    run (f + 1) m input n =
      if m.done then .ok (m.out.reverse, n) else run f (Tokenizer.step m input).1 (Tokenizer.step m input).2 (n + 1) := rfl

/-- the part of the machine the data-state walk depends on -/
structure DataInv (m : M) : Prop where
  state : m.state = .data
  returnState : m.returnState = .data
  notDone : m.done = false

theorem step_data_plain (m : M) (hs : m.state = .data) (c : Nat) (rest : Str)
    (h1 : c ≠ 38) (h2 : c ≠ 60) (h3 : c ≠ 0) : Tokenizer.step m (c :: rest) = (m.emitChar c, rest) := by
  simp [Tokenizer.step, hs, dataState, h1, h2, h3]

theorem step_data_eof (m : M) (hs : m.state = .data) : Tokenizer.step m [] = (m.emitEOF, []) := by
  simp [Tokenizer.step, hs, dataState]

/-- **C08 (b1).** a character other than `&`, `<`, NUL is emitted as itself; the machine stays in the data state -/
theorem run_plain (f : Nat) (m : M) (inv : DataInv m) (c : Nat) (rest : Str) (n : Nat)
    (h1 : c ≠ 38) (h2 : c ≠ 60) (h3 : c ≠ 0) :
    run (f + 1) m (c :: rest) n = run f (m.emitChar c) rest (n + 1) ∧ DataInv (m.emitChar c) := by
  refine ⟨?_, ⟨inv.state, inv.returnState, inv.notDone⟩⟩
  rw [run_succ, step_data_plain m inv.state c rest h1 h2 h3]
  simp [inv.notDone]

theorem emitChars_eq (v : Str) : ∀ (m : M),
    m.emitChars v = { m with out := (v.map fun c => TTok.chars [c]).reverse ++ m.out } := by
  induction v with
  | nil => intro m; rfl
  | cons c v ih =>
    intro m
    show (m.emitChar c).emitChars v = _
    rw [ih]
    simp [M.emitChar, M.emit]

/-- the machine after `&name;` has been read in the data state -/
def afterRef (m : M) (v : Str) : M :=
  { m with returnState := .data, temporaryBuffer := v, state := .data,
           out := (v.map fun c => TTok.chars [c]).reverse ++ m.out }

theorem afterRef_inv (m : M) (v : Str) (inv : DataInv m) : DataInv (afterRef m v) :=
  ⟨rfl, rfl, inv.notDone⟩

/-- the machine after `&` has been read in the data state -/
def refM1 (m : M) : M := { m with returnState := .data, state := .characterReference }
/-- … and after the character reference state has seen an alphanumeric -/
def refM2 (m : M) : M := { m with returnState := .data, temporaryBuffer := [0x26], state := .namedCharacterReference }

theorem step_ref1 (m : M) (hs : m.state = .data) (input : Str) : Tokenizer.step m (38 :: input) = (refM1 m, input) := by
  simp [Tokenizer.step, hs, dataState, M.switchTo, refM1]

theorem step_ref2 (m : M) (c0 : Nat) (r : Str) (hc0 : isASCIIAlphanumeric c0 = true) :
    Tokenizer.step (refM1 m) (c0 :: r) = (refM2 m, c0 :: r) := by
  simp [Tokenizer.step, refM1, refM2, characterReferenceState, hc0, M.switchTo]

theorem step_ref3 (m : M) (k v rest : Str) (hl : longestNamedReference (k ++ rest) = some (k, v))
    (hlast : k.getLast? = some 59) : Tokenizer.step (refM2 m) (k ++ rest) = (afterRef m v, rest) := by
  have hd : List.drop k.length (k ++ rest) = rest := List.drop_left
  have hst : (refM2 m).state = .namedCharacterReference := rfl
  have e1 : Tokenizer.step (refM2 m) (k ++ rest) = namedCharacterReferenceState (refM2 m) (k ++ rest) := by
    rw [Tokenizer.step, hst]
  rw [e1]
  unfold namedCharacterReferenceState
  split
  · rename_i name value heq
    rw [hl] at heq
    cases heq
    simp only [hd, hlast]
    have b1 : (State.data == State.attributeValueDoubleQuoted) = false := by decide
    have b2 : (State.data == State.attributeValueSingleQuoted) = false := by decide
    have b3 : (State.data == State.attributeValueUnquoted) = false := by decide
    simp [M.consumedAsPartOfAnAttribute, M.flushCodePoints, emitChars_eq, afterRef, M.switchTo, refM2, b1, b2, b3]
  · rename_i heq
    rw [hl] at heq
    cases heq

/-- **C08 (b2).** `&name;` (name in the table, ending in `;`, starting with an ASCII alphanumeric) in the data
state: three steps (data → character reference → named character reference → data) emit exactly the
characters of the table value, no parse error, and the machine is back in the data state on what follows. -/
theorem run_ref (f : Nat) (m : M) (inv : DataInv m) {c0 : Nat} {k' v : Str} (hm : (c0 :: k', v) ∈ entities)
    (hlast : (c0 :: k').getLast? = some 59) (hc0 : isASCIIAlphanumeric c0 = true) (rest : Str) (n : Nat) :
    run (f + 3) m (38 :: ((c0 :: k') ++ rest)) n = run f (afterRef m v) rest (n + 3) := by
  have hl := longestNamedReference_semicolon hm hlast rest
  have d1 : (refM1 m).done = false := inv.notDone
  have d2 : (refM2 m).done = false := inv.notDone
  rw [show f + 3 = (f + 2) + 1 from rfl, run_succ, step_ref1 m inv.state]
  simp only [inv.notDone, Bool.false_eq_true, if_false]
  rw [show f + 2 = (f + 1) + 1 from rfl, run_succ, List.cons_append, step_ref2 m c0 _ hc0]
  simp only [d1, Bool.false_eq_true, if_false]
  rw [run_succ, ← List.cons_append, step_ref3 m _ v rest hl hlast]
  simp only [d2, Bool.false_eq_true, if_false]

theorem amp_mem : (([97, 109, 112, 59] : Str), ([38] : Str)) ∈ entities := by decide +kernel
theorem lt_mem : (([108, 116, 59] : Str), ([60] : Str)) ∈ entities := by decide +kernel
theorem gt_mem : (([103, 116, 59] : Str), ([62] : Str)) ∈ entities := by decide +kernel

/-! ### (c) the walk over the whole escaped text -/

/-- **C08 (c).** the Spec machine, started in the data state on `escape s` with enough fuel, emits one character
token per character of `s` (and nothing else: no parse error), then the end-of-file token. -/
theorem run_escape : ∀ (s : Str), (∀ c ∈ s, c ≠ 0) → ∀ (m : M), DataInv m → ∀ (fuel n : Nat),
    3 * (escape s).length + 2 ≤ fuel →
    ∃ n2, run fuel m (escape s) n = .ok (m.out.reverse ++ s.map (fun c => TTok.chars [c]), n2) := by
  intro s
  induction s with
  | nil =>
    intro _ m inv fuel n hf
    obtain ⟨f, rfl⟩ : ∃ f, fuel = f + 2 := ⟨fuel - 2, by omega⟩
    refine ⟨n + 1, ?_⟩
    show run (f + 1 + 1) m [] n = _
    rw [run_succ, step_data_eof m inv.state]
    simp only [inv.notDone, Bool.false_eq_true, if_false]
    rw [run_succ]
    simp [M.emitEOF]
  | cons c s ih =>
    intro h0 m inv fuel n hf
    have hc0 : c ≠ 0 := h0 c (by simp)
    have hs0 : ∀ d ∈ s, d ≠ 0 := fun d hd => h0 d (List.mem_cons_of_mem _ hd)
    rw [escape_cons] at hf ⊢
    by_cases h1 : c = 38
    · subst h1
      have e : esc1 38 = 38 :: (97 :: [109, 112, 59] : Str) := by decide
      rw [e] at hf ⊢
      simp only [List.length_append, List.length_cons, List.length_nil] at hf
      obtain ⟨f, rfl⟩ : ∃ f, fuel = f + 3 := ⟨fuel - 3, by omega⟩
      have hr := run_ref f m inv amp_mem (by decide) (by decide) (escape s) n
      obtain ⟨n2, h⟩ := ih hs0 (afterRef m [38]) (afterRef_inv m _ inv) f (n + 3) (by omega)
      refine ⟨n2, ?_⟩
      refine Eq.trans hr ?_
      rw [h]
      simp [afterRef]
    · by_cases h2 : c = 60
      · subst h2
        have e : esc1 60 = 38 :: (108 :: [116, 59] : Str) := by decide
        rw [e] at hf ⊢
        simp only [List.length_append, List.length_cons, List.length_nil] at hf
        obtain ⟨f, rfl⟩ : ∃ f, fuel = f + 3 := ⟨fuel - 3, by omega⟩
        have hr := run_ref f m inv lt_mem (by decide) (by decide) (escape s) n
        obtain ⟨n2, h⟩ := ih hs0 (afterRef m [60]) (afterRef_inv m _ inv) f (n + 3) (by omega)
        refine ⟨n2, ?_⟩
        refine Eq.trans hr ?_
        rw [h]
        simp [afterRef]
      · by_cases h3 : c = 62
        · subst h3
          have e : esc1 62 = 38 :: (103 :: [116, 59] : Str) := by decide
          rw [e] at hf ⊢
          simp only [List.length_append, List.length_cons, List.length_nil] at hf
          obtain ⟨f, rfl⟩ : ∃ f, fuel = f + 3 := ⟨fuel - 3, by omega⟩
          have hr := run_ref f m inv gt_mem (by decide) (by decide) (escape s) n
          obtain ⟨n2, h⟩ := ih hs0 (afterRef m [62]) (afterRef_inv m _ inv) f (n + 3) (by omega)
          refine ⟨n2, ?_⟩
          refine Eq.trans hr ?_
          rw [h]
          simp [afterRef]
        · have e : esc1 c = [c] := by simp [esc1, h1, h2, h3]
          rw [e] at hf ⊢
          simp only [List.length_append, List.length_cons, List.length_nil] at hf
          obtain ⟨f, rfl⟩ : ∃ f, fuel = f + 1 := ⟨fuel - 1, by omega⟩
          obtain ⟨hr, inv2⟩ := run_plain f m inv c (escape s) n h1 h2 hc0
          obtain ⟨n2, h⟩ := ih hs0 (m.emitChar c) inv2 f (n + 1) (by omega)
          refine ⟨n2, ?_⟩
          show run (f + 1) m (c :: escape s) n = _
          rw [hr, h]
          simp [M.emitChar, M.emit]

/-! ### (d) through `canon` -/

theorem filterMap_canonTok_chars (s : Str) :
    (s.map fun c => TTok.chars [c]).filterMap canonTok = s.map fun c => TTok.chars [c] := by
  induction s with
  | nil => rfl
  | cons c s ih => simp [canonTok, ih]

theorem mergeChars_chars (s : Str) :
    mergeChars (s.map fun c => TTok.chars [c]) = if s = [] then [] else [TTok.chars s] := by
  induction s with
  | nil => rfl
  | cons c s ih =>
    simp only [List.map_cons, mergeChars, ih]
    cases s <;> simp

theorem canon_chars (s : Str) : canon (s.map fun c => TTok.chars [c]) = if s = [] then [] else [TTok.chars s] := by
  rw [canon, filterMap_canonTok_chars, mergeChars_chars]

/-- the uncanonicalised token list: one character token per character, no parse error -/
theorem C08_text_roundtrip_tokens (s : Str) (h : ∀ c ∈ s, c ≠ 0) :
    Spec.tokenize .data none false (escape s) = .ok (s.map fun c => TTok.chars [c]) := by
  obtain ⟨n2, hr⟩ := run_escape s h (initial .data none false) ⟨rfl, rfl, rfl⟩ (fuelFor (escape s)) 0
    (by simp [fuelFor])
  rw [Spec.tokenize, hr]
  simp [Except.map, initial]

/-- **C08 (text round trip).** Character data written by the serializer (`escape`) is read back by the
standard's tokenizer in the data state as exactly that text: no markup, no parse error, no character changed.
(NUL is excluded because the data state reports it; CR because the tokenizer input is newline-normalised.) -/
theorem C08_text_roundtrip (s : Str) (h : ∀ c ∈ s, c ≠ 0 ∧ c ≠ 13) :
    (Spec.tokenize .data none false (escape s)).map canon = .ok (if s = [] then [] else [.chars s]) := by
  rw [C08_text_roundtrip_tokens s (fun c hc => (h c hc).1)]
  simp [Except.map, canon_chars]

/-! ### Non-vacuity -/

-- `a<b&c>` is written `a&lt;b&amp;c&gt;` and read back
example : escape [97, 60, 98, 38, 99, 62] =
    [97, 38, 108, 116, 59, 98, 38, 97, 109, 112, 59, 99, 38, 103, 116, 59] := by decide
example : (∀ c ∈ ([97, 60, 98, 38, 99, 62] : Str), c ≠ 0 ∧ c ≠ 13) := by decide
example : (Spec.tokenize .data none false (escape [97, 60, 98, 38, 99, 62])).map canon
    = .ok [.chars [97, 60, 98, 38, 99, 62]] := by
  rw [C08_text_roundtrip _ (by decide)]; rfl
-- the hypothesis on NUL is needed: the data state reports it
example : Spec.tokenize .data none false (escape [0]) ≠ .ok [.chars [0]] := by decide +kernel

end H5.Props.C08
