/-
  Property C18 — the alphabetical-attributes filter only reorders, deterministically.
  `attrKey` is translated from /repo on every run (H5.Gen.AlphabeticalAttributes); the loop is
  the hand model H5.Model.Alphabetical (tied by correspondence op `alpha`).
-/
import H5.Model.Alphabetical
import H5.Proofs.ExceptLemmas
namespace H5.Props.C18
open H5 H5.Gen H5.Model.Alphabetical

/-- the documented key: (namespace or "", local name) -/
def specKey (a : Attr) : Str × Str := (a.ns.getD [], a.name)

/-- The translated `_attr_key` never raises and is the documented key. -/
theorem C18_key_spec (a : Attr) : attrKey a = .ok (specKey a) := by
  unfold attrKey specKey
  cases h : a.ns with
  | none => simp
  | some s => cases s <;> simp

theorem strLe_refl (a : Str) : strLe a a = true := by
  induction a with
  | nil => rfl
  | cons x xs ih => simp [strLe, ih]

theorem strLe_total (a b : Str) : (strLe a b || strLe b a) = true := by
  induction a generalizing b with
  | nil => simp [strLe]
  | cons x xs ih =>
    cases b with
    | nil => simp [strLe]
    | cons y ys =>
      simp only [strLe]
      by_cases h1 : x < y
      · simp [h1]
      · by_cases h2 : y < x
        · simp [h1, h2]
        · simp [h1, h2]; simpa using ih ys

theorem strLe_antisymm (a b : Str) : strLe a b = true → strLe b a = true → a = b := by
  induction a generalizing b with
  | nil => cases b <;> simp [strLe]
  | cons x xs ih =>
    cases b with
    | nil => simp [strLe]
    | cons y ys =>
      simp only [strLe]
      by_cases h1 : x < y
      · have : ¬ y < x := by omega
        simp [h1, this]
      · by_cases h2 : y < x
        · simp [h1, h2]
        · simp only [h1, h2, if_false]
          intro h3 h4
          have : x = y := by omega
          rw [this, ih ys h3 h4]

theorem strLe_cons (x y : Nat) (xs ys : Str) :
    strLe (x :: xs) (y :: ys) = true ↔ x < y ∨ (x = y ∧ strLe xs ys = true) := by
  simp only [strLe]
  by_cases h1 : x < y
  · simp [h1]
  · by_cases h2 : y < x
    · simp [h1, h2]; omega
    · have : x = y := by omega
      simp [h1, h2, this]

theorem strLe_trans (a b c : Str) : strLe a b = true → strLe b c = true → strLe a c = true := by
  induction a generalizing b c with
  | nil => simp [strLe]
  | cons x xs ih =>
    cases b with
    | nil => simp [strLe]
    | cons y ys =>
      cases c with
      | nil => simp [strLe]
      | cons z zs =>
        rw [strLe_cons, strLe_cons, strLe_cons]
        rintro (h1 | ⟨h1, h1'⟩) (h2 | ⟨h2, h2'⟩)
        · left; omega
        · left; omega
        · left; omega
        · right; exact ⟨by omega, ih ys zs h1' h2'⟩

theorem pairLe_total (x y : Str × Str) : (pairLe x y || pairLe y x) = true := by
  unfold pairLe
  by_cases h : x.1 = y.1
  · simp [h]; simpa using strLe_total x.2 y.2
  · have h' : ¬ y.1 = x.1 := fun e => h e.symm
    simp [h, h']; simpa using strLe_total x.1 y.1

theorem pairLe_antisymm (x y : Str × Str) : pairLe x y = true → pairLe y x = true → x = y := by
  unfold pairLe
  by_cases h : x.1 = y.1
  · simp [h]
    intro h1 h2
    exact Prod.ext h (strLe_antisymm _ _ h1 h2)
  · have h' : ¬ y.1 = x.1 := fun e => h e.symm
    simp [h, h']
    intro h1 h2
    exact absurd (strLe_antisymm _ _ h1 h2) h

theorem pairLe_trans (x y z : Str × Str) : pairLe x y = true → pairLe y z = true → pairLe x z = true := by
  obtain ⟨x1, x2⟩ := x; obtain ⟨y1, y2⟩ := y; obtain ⟨z1, z2⟩ := z
  simp only [pairLe]
  by_cases h1 : x1 = y1 <;> by_cases h2 : y1 = z1
  · subst h1; subst h2; simp; exact strLe_trans _ _ _
  · subst h1; simp [h2]
  · subst h2; simp [h1]; exact fun h _ => h
  · simp only [h1, h2, if_false]
    intro h3 h4
    have h5 := strLe_trans _ _ _ h3 h4
    by_cases h6 : x1 = z1
    · subst h6
      exact absurd (strLe_antisymm _ _ h4 h3) h2
    · simp [h6, h5]

theorem keyLe_eq (a b : Attr) : keyLe a b = pairLe (specKey a) (specKey b) := by
  simp [keyLe, C18_key_spec]

/-- **C18 (nothing lost, merged or altered).** the output attributes are a permutation of the input:
values travel with their names. -/
theorem C18_perm (attrs : List Attr) : (sortAttrs attrs).Perm attrs :=
  List.mergeSort_perm attrs keyLe

/-- **C18 (ordered).** the output is ordered by (namespace or "", local name). -/
theorem C18_sorted (attrs : List Attr) :
    (sortAttrs attrs).Pairwise (fun a b => pairLe (specKey a) (specKey b) = true) := by
  have := List.pairwise_mergeSort (le := keyLe)
    (fun a b c => by simp only [keyLe_eq]; exact pairLe_trans _ _ _)
    (fun a b => by simp only [keyLe_eq]; exact pairLe_total _ _) attrs
  simpa [sortAttrs, keyLe_eq] using this

/-- All non-tag tokens are passed through untouched; tags keep namespace and name. -/
theorem C18_other (t : Tok) : (∀ ns n a, t ≠ .startTag ns n a) → (∀ ns n a, t ≠ .emptyTag ns n a) →
    filterTok t = t := by
  intro h1 h2
  cases t <;> simp_all [filterTok]

theorem C18_length (ts : List Tok) : (filter ts).length = ts.length := by simp [filter]

/-- `(None, x)` and `(ns, x)` never collide: on lint-clean attributes (`ns ≠ ""`) the key is injective. -/
theorem C18_key_inj (a b : Attr) (ha : a.ns ≠ some []) (hb : b.ns ≠ some []) :
    specKey a = specKey b → a.ns = b.ns ∧ a.name = b.name := by
  unfold specKey
  intro h
  have h1 := congrArg Prod.fst h
  have h2 := congrArg Prod.snd h
  simp at h1 h2
  refine ⟨?_, h2⟩
  cases ha' : a.ns <;> cases hb' : b.ns <;> simp_all

/-- attribute lists as a `dict` holds them: one value per (namespace, name), lint-clean namespaces -/
def DictLike (l : List Attr) : Prop :=
  (∀ a ∈ l, a.ns ≠ some []) ∧ (∀ a ∈ l, ∀ b ∈ l, a.ns = b.ns → a.name = b.name → a = b)

/-- **C18 (independent of the incoming order).** -/
theorem C18_order_indep (l₁ l₂ : List Attr) (hd : DictLike l₁) (hp : l₁.Perm l₂) :
    sortAttrs l₁ = sortAttrs l₂ := by
  have p : (sortAttrs l₁).Perm (sortAttrs l₂) :=
    (C18_perm l₁).trans (hp.trans (C18_perm l₂).symm)
  refine List.Perm.eq_of_pairwise (le := fun a b => pairLe (specKey a) (specKey b) = true) ?_
    (C18_sorted l₁) (C18_sorted l₂) p
  intro a b ha hb hab hba
  have ha1 : a ∈ l₁ := (C18_perm l₁).mem_iff.mp ha
  have hb1 : b ∈ l₁ := hp.mem_iff.mpr ((C18_perm l₂).mem_iff.mp hb)
  have hk := pairLe_antisymm _ _ hab hba
  obtain ⟨h1, h2⟩ := C18_key_inj a b (hd.1 a ha1) (hd.1 b hb1) hk
  exact hd.2 a ha1 b hb1 h1 h2

/-- non-vacuity: equal local names across namespaces are kept apart and ordered -/
example : (sortAttrs [⟨some [120], [97], [49]⟩, ⟨none, [98], [50]⟩, ⟨none, [97], [51]⟩]).Perm
    [⟨none, [97], [51]⟩, ⟨none, [98], [50]⟩, ⟨some [120], [97], [49]⟩] :=
  (C18_perm _).trans (by decide)
example : DictLike [⟨some [120], [97], [49]⟩, ⟨none, [97], [51]⟩] := by
  refine ⟨by simp, ?_⟩
  intro a ha b hb; simp at ha hb
  rcases ha with rfl | rfl <;> rcases hb with rfl | rfl <;> simp

/-- the excluded point of `C18_key_inj` / `C18_order_indep` is a real counter-example (recorded finding): with one attribute
in no namespace and one in the EMPTY-STRING namespace under the same local name the keys coincide and the (stable) sort
keeps the arrival order (observed on the real filter by the harness), so the result depends on the incoming order. -/
theorem C18_key_collision_witness :
    specKey { ns := none, name := [104], value := [49] } = specKey { ns := some [], name := [104], value := [50] } ∧
    ({ ns := none, name := [104], value := [49] } : Attr) ≠ { ns := some [], name := [104], value := [50] } := by decide

end H5.Props.C18
