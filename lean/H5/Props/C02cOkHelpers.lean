/-
  Property C02 "total", clean corollary — the invariant on `currentToken` / `temporaryBuffer` that each state
  relies on, success specifications of the helpers under that invariant, and the tactic `state_ok`.
-/
import H5.Props.C02cOkCore
set_option linter.unusedSimpArgs false
namespace H5.Props.C02c
open H5 H5.Gen H5.Model H5.Model.Tokenizer

/-! ### token shapes -/

/-- absent, or the `{"type":…, "name":…}` stub planted for "last start tag" -/
def plain : Option CurTok → Bool
  | none | some (.emittedStartTag _) => true
  | _ => false
/-- a tag under construction -/
def isTag : Option CurTok → Bool
  | some (.startTag ..) | some (.endTag ..) => true
  | _ => false
/-- a tag under construction with at least one attribute -/
def isTagA : Option CurTok → Bool
  | some (.startTag _ d _) | some (.endTag _ d _) => !d.isEmpty
  | _ => false
def isComment : Option CurTok → Bool
  | some (.comment _) => true
  | _ => false
def isDoctype : Option CurTok → Bool
  | some (.doctype ..) => true
  | _ => false
def isDoctypeP : Option CurTok → Bool
  | some (.doctype _ (some _) _ _) => true
  | _ => false
def isDoctypeS : Option CurTok → Bool
  | some (.doctype _ _ (some _) _) => true
  | _ => false
/-- what `emitCurrentToken` / `tokenQueue.append(currentToken)` accept -/
def emittable : Option CurTok → Bool
  | some (.startTag ..) | some (.endTag ..) | some (.comment _) | some (.doctype ..) => true
  | _ => false

/-- the shape of `currentToken` / `temporaryBuffer` each state method expects -/
def invB : State → Option CurTok → Option Str → Bool
  | .dataState, _, _ | .entityDataState, _, _ | .tagOpenState, _, _ | .closeTagOpenState, _, _
  | .markupDeclarationOpenState, _, _ | .bogusCommentState, _, _ | .cdataSectionState, _, _ => true
  | .rcdataState, c, _ | .characterReferenceInRcdata, c, _ | .rawtextState, c, _ | .scriptDataState, c, _
  | .plaintextState, c, _ | .rcdataLessThanSignState, c, _ | .rawtextLessThanSignState, c, _
  | .scriptDataLessThanSignState, c, _ | .scriptDataEscapeStartState, c, _
  | .scriptDataEscapeStartDashState, c, _ | .scriptDataEscapedState, c, _
  | .scriptDataEscapedDashState, c, _ | .scriptDataEscapedDashDashState, c, _
  | .scriptDataEscapedLessThanSignState, c, _ | .scriptDataDoubleEscapedState, c, _
  | .scriptDataDoubleEscapedDashState, c, _ | .scriptDataDoubleEscapedDashDashState, c, _
  | .scriptDataDoubleEscapedLessThanSignState, c, _ | .scriptDataEscapedEndTagOpenState, c, _ => plain c
  | .rcdataEndTagOpenState, c, b | .rcdataEndTagNameState, c, b | .rawtextEndTagOpenState, c, b
  | .rawtextEndTagNameState, c, b | .scriptDataEndTagOpenState, c, b | .scriptDataEndTagNameState, c, b
  | .scriptDataEscapedEndTagNameState, c, b | .scriptDataDoubleEscapeStartState, c, b
  | .scriptDataDoubleEscapeEndState, c, b => plain c && b.isSome
  | .tagNameState, c, _ | .beforeAttributeNameState, c, _ | .selfClosingStartTagState, c, _
  | .afterAttributeValueState, c, _ => isTag c
  | .attributeNameState, c, _ | .beforeAttributeValueState, c, _ | .attributeValueDoubleQuotedState, c, _
  | .attributeValueSingleQuotedState, c, _ | .attributeValueUnQuotedState, c, _
  | .afterAttributeNameState, c, _ => isTagA c
  | .commentStartState, c, _ | .commentStartDashState, c, _ | .commentState, c, _
  | .commentEndDashState, c, _ | .commentEndState, c, _ | .commentEndBangState, c, _ => isComment c
  | .doctypeState, c, _ | .beforeDoctypeNameState, c, _ | .doctypeNameState, c, _
  | .afterDoctypeNameState, c, _ | .afterDoctypePublicKeywordState, c, _
  | .beforeDoctypePublicIdentifierState, c, _ | .afterDoctypePublicIdentifierState, c, _
  | .betweenDoctypePublicAndSystemIdentifiersState, c, _ | .afterDoctypeSystemKeywordState, c, _
  | .beforeDoctypeSystemIdentifierState, c, _ | .afterDoctypeSystemIdentifierState, c, _
  | .bogusDoctypeState, c, _ => isDoctype c
  | .doctypePublicIdentifierDoubleQuotedState, c, _ | .doctypePublicIdentifierSingleQuotedState, c, _ => isDoctypeP c
  | .doctypeSystemIdentifierDoubleQuotedState, c, _ | .doctypeSystemIdentifierSingleQuotedState, c, _ => isDoctypeS c

/-- the invariant (independent of the input and of the token queue) -/
def Inv (s : St) : Prop := invB s.state s.currentToken s.temporaryBuffer = true

/-! ### evaluation of the small helpers on known shapes (non-definitional rewriting lemmas) -/

theorem modCur_some (st : State) (i : List Nat) (t : CurTok) (tb : Option Str) (q : List TTok) (cd : Bool)
    (g : CurTok → Except PyErr CurTok) :
    St.modCur ⟨st, i, some t, tb, q, cd⟩ g = (g t >>= fun t' => .ok ⟨st, i, some t', tb, q, cd⟩) := by
  simp [St.modCur, St.cur, ok_bind]; rfl

theorem modLastAttr_startTag (f : Str × Str → Str × Str) (n : Str) (d : List (Str × Str)) (a : Str × Str)
    (sc : Bool) : CurTok.modLastAttr f (.startTag n (d ++ [a]) sc) = .ok (.startTag n (d ++ [f a]) sc) := by
  simp [CurTok.modLastAttr, CurTok.attrsE, CurTok.setAttrs, ok_bind, List.getLast?_concat]
theorem modLastAttr_endTag (f : Str × Str → Str × Str) (n : Str) (d : List (Str × Str)) (a : Str × Str)
    (sc : Bool) : CurTok.modLastAttr f (.endTag n (d ++ [a]) sc) = .ok (.endTag n (d ++ [f a]) sc) := by
  simp [CurTok.modLastAttr, CurTok.attrsE, CurTok.setAttrs, ok_bind, List.getLast?_concat]
theorem appendAttr_startTag (x n : Str) (d : List (Str × Str)) (sc : Bool) :
    CurTok.appendAttr x (.startTag n d sc) = .ok (.startTag n (d ++ [(x, [])]) sc) := by
  simp [CurTok.appendAttr, CurTok.attrsE, CurTok.setAttrs, ok_bind]
theorem appendAttr_endTag (x n : Str) (d : List (Str × Str)) (sc : Bool) :
    CurTok.appendAttr x (.endTag n d sc) = .ok (.endTag n (d ++ [(x, [])]) sc) := by
  simp [CurTok.appendAttr, CurTok.attrsE, CurTok.setAttrs, ok_bind]

theorem tempBuf_some (st : State) (i : List Nat) (c : Option CurTok) (b : Str) (q : List TTok) (cd : Bool) :
    St.tempBuf ⟨st, i, c, some b, q, cd⟩ = .ok b := by simp [St.tempBuf]
theorem addTempBuf_some (st : State) (i : List Nat) (c : Option CurTok) (b x : Str) (q : List TTok) (cd : Bool) :
    St.addTempBuf ⟨st, i, c, some b, q, cd⟩ x = .ok ⟨st, i, c, some (b ++ x), q, cd⟩ := by
  simp [St.addTempBuf, St.tempBuf, ok_bind]; rfl
theorem newEndTagFromBuffer_some (st : State) (i : List Nat) (c : Option CurTok) (b : Str) (q : List TTok)
    (cd : Bool) :
    St.newEndTagFromBuffer ⟨st, i, c, some b, q, cd⟩ = .ok ⟨st, i, some (.endTag b [] false), some b, q, cd⟩ := by
  simp [St.newEndTagFromBuffer, St.tempBuf, ok_bind]; rfl
theorem bufferIsScript_some (st : State) (i : List Nat) (c : Option CurTok) (b : Str) (q : List TTok) (cd : Bool) :
    St.bufferIsScript ⟨st, i, c, some b, q, cd⟩ = .ok (pyLower b == lit "script") := by
  simp [St.bufferIsScript, St.tempBuf, ok_bind]; rfl
theorem appropriate_none (st : State) (i : List Nat) (tb : Option Str) (q : List TTok) (cd : Bool) :
    appropriate ⟨st, i, none, tb, q, cd⟩ = .ok false := by simp [appropriate]
theorem appropriate_emitted (st : State) (i : List Nat) (n b : Str) (q : List TTok) (cd : Bool) :
    appropriate ⟨st, i, some (.emittedStartTag n), some b, q, cd⟩ = .ok (pyLower n == pyLower b) := by
  simp [appropriate, CurTok.nameE, St.tempBuf, ok_bind]; rfl

/-! ### helper specifications under the invariant -/

theorem emitCur_ok (s : St) (h : emittable s.currentToken = true) :
    OPost s.emitCur (fun s' => s'.state = s.state) := by
  obtain ⟨st, i, c, tb, q, cd⟩ := s
  rcases c with _ | (_ | _ | _ | _ | _) <;> simp [emittable] at h <;>
    simp [St.emitCur, St.cur, CurTok.toTTok, ok_bind, OPost, pure, Except.pure, St.emit]

theorem emitCurToData_ok (s : St) (h : emittable s.currentToken = true) :
    OPost s.emitCurToData (fun r => r.2.state = .dataState) := by
  unfold St.emitCurToData
  simp only [OPost_bind]
  refine OPost_mono (emitCur_ok s h) ?_
  intro s' _
  rfl

theorem emitCurrentToken_ok (s : St) (h : emittable s.currentToken = true) :
    OPost (emitCurrentToken s) (fun s' => s'.state = .dataState) := by
  obtain ⟨st, i, c, tb, q, cd⟩ := s
  rcases c with _ | (_ | _ | _ | _ | _) <;> simp [emittable] at h
  · simp [emitCurrentToken, St.cur, ok_bind, OPost, pure, Except.pure, St.to]
  · simp [emitCurrentToken, St.cur, ok_bind, OPost, pure, Except.pure, St.to]
  · simp only [emitCurrentToken, St.cur, ok_bind, OPost_bind]
    refine OPost_mono (emitCur_ok _ rfl) ?_
    intro s' _; rfl
  · simp only [emitCurrentToken, St.cur, ok_bind, OPost_bind]
    refine OPost_mono (emitCur_ok _ rfl) ?_
    intro s' _; rfl

theorem failDoctype_ok (s : St) (code : String) (h : isDoctype s.currentToken = true) :
    OPost (s.failDoctype code) (fun r => r.2.state = .dataState) := by
  obtain ⟨st, i, c, tb, q, cd⟩ := s
  rcases c with _ | (_ | _ | _ | _ | _) <;> simp [isDoctype] at h
  simp only [St.failDoctype, St.parseError, St.emit, modCur_some, CurTok.setIncorrect, ok_bind]
  exact emitCurToData_ok _ rfl

theorem leaveAttributeName_ok (s : St) (h : isTagA s.currentToken = true) :
    OPost (leaveAttributeName s)
      (fun s' => s'.state = s.state ∧ isTagA s'.currentToken = true ∧ isTag s'.currentToken = true ∧
        emittable s'.currentToken = true) := by
  obtain ⟨st, i, c, tb, q, cd⟩ := s
  rcases c with _ | (⟨n, d, sc⟩ | ⟨n, d, sc⟩ | _ | _ | _) <;> simp [isTagA] at h
  all_goals rcases List.eq_nil_or_concat d with rfl | ⟨init, a, rfl⟩
  all_goals try (exact absurd rfl h)
  all_goals simp only [List.concat_eq_append, leaveAttributeName, modCur_some, modLastAttr_startTag,
    modLastAttr_endTag, ok_bind, St.cur, CurTok.attrsE, List.getLast?_concat, OPost_bind, OPost_ok]
  all_goals split
  all_goals simp [OPost, pure, Except.pure, St.parseError, St.emit, isTagA, isTag, emittable]

theorem consumeEntity_plain_ok (s : St) (ac : Option Nat) :
    OPost (consumeEntity s ac false)
      (fun s' => s'.state = s.state ∧ s'.currentToken = s.currentToken ∧ s'.temporaryBuffer = s.temporaryBuffer) := by
  unfold consumeEntity
  simp only [OPost_bind]
  refine OPost_mono (consumeEntityCore_ok ac false s.input) ?_
  rintro ⟨o, e, i⟩ _
  simp [OPost, pure, Except.pure, St.emit]

theorem consumeEntity_attr_ok (s : St) (ac : Option Nat) (h : isTagA s.currentToken = true) :
    OPost (consumeEntity s ac true) (fun s' => s'.state = s.state ∧ isTagA s'.currentToken = true) := by
  unfold consumeEntity
  simp only [OPost_bind]
  refine OPost_mono (consumeEntityCore_ok ac true s.input) ?_
  rintro ⟨o, e, i⟩ _
  obtain ⟨st, i0, c, tb, q, cd⟩ := s
  rcases c with _ | (⟨n, d, sc⟩ | ⟨n, d, sc⟩ | _ | _ | _) <;> simp [isTagA] at h
  all_goals rcases List.eq_nil_or_concat d with rfl | ⟨init, a, rfl⟩
  all_goals try (exact absurd rfl h)
  all_goals simp [List.concat_eq_append, modCur_some, CurTok.addAttrValue, modLastAttr_startTag,
    modLastAttr_endTag, ok_bind, OPost, isTagA]

theorem afterDoctypeNameFail_ok (s : St) (data : Option Nat) (h : isDoctype s.currentToken = true) :
    OPost (afterDoctypeNameFail s data)
      (fun r => r.2.state = .bogusDoctypeState ∧ isDoctype r.2.currentToken = true) := by
  obtain ⟨st, i, c, tb, q, cd⟩ := s
  rcases c with _ | (_ | _ | _ | _ | _) <;> simp [isDoctype] at h
  simp [afterDoctypeNameFail, St.unget, St.emit, modCur_some, CurTok.setIncorrect, ok_bind, OPost, ok, St.to,
    isDoctype]

theorem markupDeclarationOpenFail_ok (s : St) (cs : List (Option Nat)) :
    OPost (markupDeclarationOpenFail s cs) (fun r => r.2.state = .bogusCommentState) := by
  simp [markupDeclarationOpenFail, ok, OPost, St.to]

/-! ### the inner loop of `cdataSectionState`: its `assert char == ">"` never fails -/

theorem dropWhile_head {α : Type} (p : α → Bool) (l : List α) :
    match l.drop (l.takeWhile p).length with
    | [] => True
    | a :: _ => p a = false := by
  induction l with
  | nil => simp
  | cons a r ih =>
    cases h : p a
    · simp [List.takeWhile, h]
    · simpa [List.takeWhile, h] using ih

theorem charsUntil_gt_head (i : List Nat) :
    (Stream.char (Stream.charsUntil i [Ch.gt]).2).1 = none ∨ (Stream.char (Stream.charsUntil i [Ch.gt]).2).1 = some Ch.gt := by
  have h := dropWhile_head (fun c => if false = true then [Ch.gt].contains c else ![Ch.gt].contains c) i
  simp only [Stream.charsUntil, List.span, span_loop_snd]
  generalize List.drop _ i = l at h ⊢
  cases l with
  | nil => left; rfl
  | cons a r => right; simp at h; simp [Stream.char, h]

theorem cdataLoop_ok (fuel : Nat) (data : List Str) (i : List Nat) (h : i.length < fuel) :
    OPost (cdataLoop fuel data i) (fun _ => True) := by
  induction fuel generalizing data i with
  | zero => omega
  | succ fuel ih =>
    simp only [cdataLoop]
    have l1 := charsUntil_length i [Ch.rbracket] false
    have l2 := charsUntil_length (Stream.charsUntil i [Ch.rbracket]).snd [Ch.gt] false
    have l3 := char_length (Stream.charsUntil (Stream.charsUntil i [Ch.rbracket]).snd [Ch.gt]).snd
    have hg := charsUntil_gt_head (Stream.charsUntil i [Ch.rbracket]).snd
    split
    · trivial
    · split
      · rename_i h1 h2
        rcases hg with hg | hg
        · exact absurd hg h1
        · exact absurd hg h2
      · split
        · trivial
        · generalize (Stream.char (Stream.charsUntil (Stream.charsUntil i [Ch.rbracket]).snd [Ch.gt]).snd) = p at *
          obtain ⟨c, i3⟩ := p
          rcases hg with hg | hg
          · simp_all
          · simp only at hg
            subst hg
            simp only [somes] at l3
            exact ih _ i3 (by omega)

end H5.Props.C02c
