/-
  C03c — pop safety: an element that is in (default / button / list item) scope can be popped, with everything above
  it, without touching the protected part of the stack.
-/
import H5.Props.C03cPrim
set_option linter.unusedSimpArgs false
set_option linter.unusedVariables false
namespace H5.Props.C03c
open H5 H5.Model H5.Model.TB H5.Model.Dom
open H5.Props.C02c (NF Post Post_bind Post_mono Post_pure Post_ok Post_error Post_throw Post_ite
  NF_typeError NF_keyError NF_indexError NF_assertFail NF_valueError NF_lookupError)
open H5.Props.C03b

/-- from the current node down to the first element with one of the HTML names `nms`, everything is unprotected -/
def SafeN (nms : List Str) (st : PState) : Prop :=
  safeRev (fun e => isH e && nms.contains e.2) (stackK st).reverse = true

theorem safeRev_mono {q q' : El → Bool} (h : ∀ e, q e = true → q' e = true) :
    ∀ l, safeRev q l = true → safeRev q' l = true
  | [], hl => by simp [safeRev] at hl
  | e :: r, hl => by
    simp only [safeRev, Bool.and_eq_true, Bool.or_eq_true] at hl ⊢
    refine ⟨hl.1, ?_⟩
    rcases hl.2 with h1 | h1
    · exact Or.inl (h e h1)
    · exact Or.inr (safeRev_mono h r h1)

/-- what is in scope is safe to pop -/
theorem SafeN_of_scope {st : PState} (hs : ST st) (nm : Str) (hnm : PN.contains nm = false)
    (hf : FMT.contains nm = false) (elems : List (Str × Str)) (hm : elems.contains mHtml = true ∧
      elems.contains mTable = true ∧ elems.contains mTd = true ∧ elems.contains mTh = true)
    (h : scopeRev (htmlNs, nm) elems false (stackK st).reverse = some true) : SafeN [nm] st := by
  unfold SafeN
  have hadj : adjRev (nj (stackK st).reverse) = true := by
    rw [nj_reverse, ← adjOK_eq_adjRev]; exact hs.adj
  refine safeRev_mono ?_ _ (scope_safe nm elems hm hnm hf _ hadj h)
  intro e he
  obtain ⟨h1, h2⟩ := tup_eq (beq_iff_eq.1 he)
  simp [h1, h2]

theorem SafeN_sub {nms nms' : List Str} {st : PState} (hsub : ∀ n, nms.contains n = true → nms'.contains n = true)
    (h : SafeN nms st) : SafeN nms' st := by
  unfold SafeN at h ⊢
  refine safeRev_mono ?_ _ h
  intro e he
  simp only [Bool.and_eq_true] at he ⊢
  exact ⟨he.1, hsub _ he.2⟩

theorem SafeN_of_stack {nms : List Str} {st st' : PState} (h : stackK st' = stackK st) (hs : SafeN nms st) :
    SafeN nms st' := by unfold SafeN; rw [h]; exact hs

/-- popping elements that do not have one of the names keeps the property -/
theorem SafeN_prefix {nms : List Str} {st : PState} {pre post : List NodeId}
    (h : SafeN nms (wo st (pre ++ post)))
    (hp : ∀ y ∈ post, nms.contains (elemK st.arena y).2 = false) : SafeN nms (wo st pre) := by
  unfold SafeN at h ⊢
  rw [stackK_wo] at h ⊢
  rw [List.map_append, List.reverse_append] at h
  have : ∀ (l : List El), (∀ e ∈ l, nms.contains e.2 = false) → ∀ r,
      safeRev (fun e => isH e && nms.contains e.2) (l ++ r) = true →
      safeRev (fun e => isH e && nms.contains e.2) r = true := by
    intro l
    induction l with
    | nil => intro _ r h; exact h
    | cons e l ih =>
      intro hl r h
      simp only [List.cons_append, safeRev, Bool.and_eq_true, Bool.or_eq_true] at h
      have he := hl e (List.mem_cons_self ..)
      rcases h.2 with h1 | h1
      · rw [he] at h1; simp at h1
      · exact ih (fun x hx => hl x (List.mem_cons_of_mem _ hx)) r h1
  refine this _ ?_ _ h
  intro e he
  rw [List.mem_reverse] at he
  obtain ⟨y, hy, rfl⟩ := List.mem_map.1 he
  exact hp y hy

/-- the elements from the topmost one named like one of `nms` (any namespace) to the current node are unprotected -/
theorem SafeN_unprot {nms : List Str} : ∀ (l1 : List El) (x : El) (l2 : List El),
    safeRev (fun e => isH e && nms.contains e.2) (l1 ++ x :: l2) = true →
    (∀ y ∈ l1, nms.contains y.2 = false) → ∀ y ∈ l1 ++ [x], prot y = false
  | [], x, l2, h, _, y, hy => by
    simp only [List.nil_append, List.mem_singleton] at hy
    subst hy
    simp only [List.nil_append, safeRev, Bool.and_eq_true, Bool.not_eq_true'] at h
    exact h.1
  | e :: l1, x, l2, h, hl, y, hy => by
    simp only [List.cons_append, safeRev, Bool.and_eq_true, Bool.not_eq_true', Bool.or_eq_true] at h
    have he := hl e (List.mem_cons_self ..)
    rcases List.mem_cons.1 hy with hy | hy
    · subst hy; exact h.1
    · rcases h.2 with h1 | h1
      · rw [he] at h1; simp at h1
      · exact SafeN_unprot l1 x l2 h1 (fun z hz => hl z (List.mem_cons_of_mem _ hz)) y hy

/-- `popUntil` on a test by name, when an element with one of the names is safely reachable -/
theorem popUntil_kp (pred : NodeId → M Bool) (site : String) (nms : List Str) (st : PState) (hs : ST st)
    (hp : ∀ l n, IsEl st.arena n → ∀ Q, Tr (pred n) (wo st l) Q ↔ Q (nms.contains (elemK st.arena n).2) (wo st l))
    (hsafe : SafeN nms st) :
    Tr (popUntil pred site) st (fun _ st' => KPpost st st') := by
  refine Tr_mono (popUntil_spec pred site st (fun n => nms.contains (elemK st.arena n).2) hp hs.elem) ?_
  rintro r st' ⟨pre, post, h1, h2, h3, h4⟩
  subst h2
  have hs' : ST (wo st (pre ++ r :: post)) := by rw [← h1]; exact hs
  refine ⟨ST_prefix hs', Keep_wo _ _, ?_⟩
  have hK : (stackK st).reverse = (post.map (elemK st.arena)).reverse ++ elemK st.arena r ::
      (pre.map (elemK st.arena)).reverse := by
    unfold stackK; rw [h1]; simp
  unfold SafeN at hsafe
  rw [hK] at hsafe
  have hun := SafeN_unprot _ _ _ hsafe (by
    intro y hy
    rw [List.mem_reverse] at hy
    obtain ⟨z, hz, rfl⟩ := List.mem_map.1 hy
    exact h4 z hz)
  have := P_prefix (st := st) (pre := pre) (post := r :: post) (by
    intro y hy
    apply hun
    rcases List.mem_cons.1 hy with hy | hy
    · subst hy; simp
    · apply List.mem_append_left
      rw [List.mem_reverse]
      exact List.mem_map.2 ⟨y, hy, rfl⟩)
  rw [this, ← h1]

/-- the two forms of the test by name -/
theorem pred_name_view (nm : Str) (st : PState) :
    ∀ l n, IsEl st.arena n → ∀ Q, Tr (do return (← nodeName n) == nm : M Bool) (wo st l) Q ↔
      Q ([nm].contains (elemK st.arena n).2) (wo st l) := by
  intro l n hn Q
  have hn' : IsEl (wo st l).arena n := hn
  simp only [Tr_bind, Tr_nodeName hn', Tr_pure, List.contains_cons, List.contains_nil, Bool.or_false]

theorem pred_nameIs_view (nm : String) (st : PState) :
    ∀ l n, IsEl st.arena n → ∀ Q, Tr (nameIs n nm) (wo st l) Q ↔
      Q ([lit nm].contains (elemK st.arena n).2) (wo st l) := by
  intro l n hn Q
  have hn' : IsEl (wo st l).arena n := hn
  simp only [Tr_nameIs hn', List.contains_cons, List.contains_nil, Bool.or_false]

/-- `generateImpliedEndTags(exclude)` keeps the property when the names are excluded or not implied -/
theorem generateImplied_safe (exclude : Option Str) (nms : List Str) (st : PState) (hs : ST st) (hsafe : SafeN nms st)
    (hn : ∀ n, nms.contains n = true → Gen.Lit.TB_TreeBuilder_generateImpliedEndTags_0.contains n = true →
      exclude = some n) :
    Tr (generateImpliedEndTags exclude) st (fun _ st' => KPpost st st' ∧ SafeN nms st') := by
  refine Tr_mono (generateImpliedEndTags_spec exclude st hs.elem) ?_
  rintro _ st' ⟨pre, post, h1, h2, h3⟩
  subst h2
  have hs' : ST (wo st (pre ++ post)) := by rw [← h1]; exact hs
  refine ⟨⟨ST_prefix hs', Keep_wo _ _, ?_⟩, ?_⟩
  · rw [P_prefix (post := post) (fun y hy => prot_of_name (implied_unprot _ (h3 y hy).1)), ← h1]
  · refine SafeN_prefix (post := post) (by rw [← h1]; exact hsafe) ?_
    intro y hy
    cases hc : nms.contains (elemK st.arena y).2 with
    | false => rfl
    | true =>
      exfalso
      have := hn _ hc (h3 y hy).1
      exact (h3 y hy).2 this.symm

/-! ### more stack primitives -/

theorem popWhileLoop_popped (cond : NodeId → M Bool) [hc : ∀ n, RO (cond n)] (site : String) :
    ∀ fuel st, st.openElements.length + 1 ≤ fuel →
      Tr (popWhileLoop cond (fun _ => pure ()) site fuel) st (fun _ st' => Popped st st') := by
  intro fuel
  induction fuel with
  | zero => intro st h; omega
  | succ fuel ih =>
    intro st h
    unfold popWhileLoop
    simp only [Tr_bind, Tr_openLast]
    intro x hx
    apply Tr_RO
    intro b
    split
    · simp only [Tr_bind, Tr_pure, Tr_openPop]
      intro y hy
      have hpos := getLast?_length_pos hy
      refine Tr_mono (ih _ ?_) ?_
      · simp; omega
      · intro _ st' hp; exact (Popped.dropLast st).trans hp
    · exact Popped.refl st

instance KS_popWhile (cond : NodeId → M Bool) [hc : ∀ n, RO (cond n)] (site : String) : KS (popWhile cond site) :=
  KS_of_Popped _ (fun st => by
    unfold popWhile
    simp only [Tr_bind, Tr_openElems]
    exact popWhileLoop_popped cond site _ st (by omega))

/-- popping a current node whose name is not protected -/
theorem openPop_kp (site : String) (st : PState) (hs : ST st)
    (hname : ∀ x, st.openElements.getLast? = some x → prot (elemK st.arena x) = false) :
    Tr (openPop site) st (fun _ st' => KPpost st st') := by
  simp only [Tr_openPop]
  intro x hx
  exact KP_pop hs hx (hname x hx)

/-- removing an unprotected element from the stack -/
theorem ST_remove {st : PState} (hs : ST st) {a b : List NodeId} {x : NodeId} (h1 : st.openElements = a ++ x :: b)
    (hpx : prot (elemK st.arena x) = false) :
    ST (wo st (a ++ b)) ∧ P (stackK (wo st (a ++ b))) = P (stackK st) := by
  have hK : stackK st = a.map (elemK st.arena) ++ elemK st.arena x :: b.map (elemK st.arena) := by
    unfold stackK; rw [h1]; simp
  have hK' : stackK (wo st (a ++ b)) = a.map (elemK st.arena) ++ b.map (elemK st.arena) := by
    rw [stackK_wo]; simp
  have ha : a ≠ [] := by
    intro h
    have := hs.bot (elemK st.arena x) (by rw [hK, h]; rfl)
    rw [this] at hpx
    have := prot_html st.cfg
    unfold dnsOf at hpx; rw [this] at hpx; cases hpx
  refine ⟨⟨?_, ?_, hs.hp, hs.fp, ?_, ?_, ?_, hs.afe⟩, by rw [hK, hK', P_remove _ _ _ hpx]⟩
  · intro i h
    refine hs.elem i ?_
    rw [h1]
    rcases List.mem_append.1 h with h | h
    · exact List.mem_append_left _ h
    · exact List.mem_append_right _ (List.mem_cons_of_mem _ h)
  · have := hs.nodup
    rw [h1] at this
    exact List.nodup_append.2
      ⟨(List.nodup_append.1 this).1, (List.nodup_cons.1 (List.nodup_append.1 this).2.1).2, fun u hu v hv =>
        (List.nodup_append.1 this).2.2 u hu v (List.mem_cons_of_mem _ hv)⟩
  · intro e he
    refine hs.ns e ?_
    rw [hK]; rw [hK'] at he
    rcases List.mem_append.1 he with h | h
    · exact List.mem_append_left _ h
    · exact List.mem_append_right _ (List.mem_cons_of_mem _ h)
  · rw [hK']; have := hs.adj; rw [hK] at this; exact adjJ_remove _ _ _ this hpx
  · intro e he
    refine hs.bot e ?_
    rw [hK]; rw [hK'] at he
    cases a with
    | nil => exact absurd rfl ha
    | cons y a => simpa using he

/-- `openElements.remove(x)` for an unprotected `x` -/
theorem openRemove_kp (x : NodeId) (site : String) (st : PState) (hs : ST st)
    (hx : IsEl st.arena x → prot (elemK st.arena x) = false) :
    Tr (openRemove x site) st (fun _ st' => KPpost st st') := by
  unfold openRemove
  simp only [Tr_bind, Tr_openElems]
  split
  · rename_i hc
    have hmem : x ∈ st.openElements := by simpa using hc
    have hpx := hx (hs.elem x hmem)
    simp only [Tr_setOpen]
    obtain ⟨a, b, h1, h2⟩ := erase_split st.openElements x hmem
    rw [h2]
    obtain ⟨g1, g2⟩ := ST_remove hs h1 hpx
    exact ⟨g1, Keep_wo _ _, g2⟩
  · exact NF_valueError _

theorem erase_mid {α : Type} [BEq α] [LawfulBEq α] : ∀ (a : List α) (x : α) (b : List α), x ∉ a →
    (a ++ x :: b).erase x = a ++ b
  | [], x, b, _ => by simp
  | y :: a, x, b, h => by
    have hne : y ≠ x := fun e => h (by rw [e]; simp)
    have : x ∉ a := fun hm => h (List.mem_cons_of_mem _ hm)
    rw [List.cons_append, List.erase_cons_tail (by simpa using hne), erase_mid a x b this]; rfl

/-- the token names a formatting element -/
def isFMT (tok : Token) : Prop := FMT.contains (tokName tok) = true

instance Fct_notPN_of_FMT (tok : Token) [h : Fct (isFMT tok)] : Fct (notPN tok) := ⟨FMT_unprot _ h.out⟩

/-! ### threading "reachable safely" through a handler -/

/-- since `st0` only unprotected elements were pushed / popped, and an element named like one of `nms` is safely
reachable -/
def Good (nms : List Str) (st0 st : PState) : Prop := KPpost st0 st ∧ SafeN nms st

theorem Good.init {nms : List Str} {st : PState} (hs : ST st) (h : SafeN nms st) : Good nms st st :=
  ⟨KPpost.refl hs, h⟩

theorem Tr_Good_SV {α : Type} (m : M α) [h : SV m] {nms : List Str} {st0 st : PState} (hg : Good nms st0 st)
    (Q : α → PState → Prop) (hq : ∀ a st', Good nms st0 st' → Q a st') : Tr m st Q :=
  Tr_mono (h.out st) (fun a st' e => hq a st'
    ⟨hg.1.trans ⟨ST_of_Same e hg.1.1, Keep_of_Same e, by rw [stackK_of_Same e hg.1.1]⟩,
     SafeN_of_stack (stackK_of_Same e hg.1.1) hg.2⟩)

theorem Tr_Good_implied (exclude : Option Str) {nms : List Str} {st0 st : PState} (hg : Good nms st0 st)
    (hn : ∀ n, nms.contains n = true → Gen.Lit.TB_TreeBuilder_generateImpliedEndTags_0.contains n = true →
      exclude = some n)
    (Q : Unit → PState → Prop) (hq : ∀ st', Good nms st0 st' → Q () st') :
    Tr (generateImpliedEndTags exclude) st Q :=
  Tr_mono (generateImplied_safe exclude nms st hg.1.1 hg.2 hn) (fun _ st' h => hq st' ⟨hg.1.trans h.1, h.2⟩)

theorem Tr_Good_popUntil (pred : NodeId → M Bool) (site : String) {nms : List Str} {st0 st : PState}
    (hg : Good nms st0 st)
    (hp : ∀ l n, IsEl st.arena n → ∀ Q, Tr (pred n) (wo st l) Q ↔ Q (nms.contains (elemK st.arena n).2) (wo st l))
    (Q : NodeId → PState → Prop) (hq : ∀ a st', KPpost st0 st' → Q a st') :
    Tr (popUntil pred site) st Q :=
  Tr_mono (popUntil_kp pred site nms st hg.1.1 hp hg.2) (fun a st' h => hq a st' (hg.1.trans h))

/-- `elementInScope(name, variant)` for the three scopes of `InBodyPhase`: when it holds the element is safe to pop -/
theorem Tr_inScope_safe (nm : Str) (v : Option String) (hv : v = none ∨ v = some "button" ∨ v = some "list")
    (hnm : PN.contains nm = false) (hfm : FMT.contains nm = false) (st : PState) (hs : ST st) (Q : Bool → PState → Prop)
    (ht : SafeN [nm] st → Q true st) (hf : Q false st) : Tr (elementInScope nm v) st Q := by
  have key : ∀ elems, listElements (v.map lit) = .ok (elems, false) → (elems.contains mHtml = true ∧
      elems.contains mTable = true ∧ elems.contains mTd = true ∧ elems.contains mTh = true) →
      Tr (elementInScope nm v) st Q := by
    intro elems hl hm
    rw [Tr_elementInScope nm v elems false hl st hs.elem]
    intro b hb
    cases b with
    | true => exact ht (SafeN_of_scope hs nm hnm hfm elems hm hb)
    | false => exact hf
  rcases hv with rfl | rfl | rfl
  · have h := scDefault_markers
    exact key scDefault.1 (by rw [listElements_default, h.1]) h.2
  · have h := scButton_markers
    exact key scButton.1 (by rw [listElements_button, h.1]) h.2
  · have h := scList_markers
    exact key scList.1 (by rw [listElements_list, h.1]) h.2

theorem p_notPN : PN.contains (lit "p") = false := by decide
theorem p_notFMT : FMT.contains (lit "p") = false := by decide

/-- the name of the token is not that of a formatting element -/
def notFMT (tok : Token) : Prop := FMT.contains (tokName tok) = false

/-! ### `Tr`-mode composition of `KP` / `SV` steps -/

theorem Tr_KP_step {α : Type} (m : M α) [h : KP m] {st0 st : PState} (hk : KPpost st0 st)
    (Q : α → PState → Prop) (hq : ∀ a st', KPpost st0 st' → Q a st') : Tr m st Q :=
  Tr_mono (h.out st hk.1) (fun a st' e => hq a st' (hk.trans e))

theorem Tr_SV_step {α : Type} (m : M α) [h : SV m] {st0 st : PState} (hk : KPpost st0 st)
    (Q : α → PState → Prop) (hq : ∀ a st', KPpost st0 st' → Same st st' → Q a st') : Tr m st Q :=
  Tr_mono (h.out st) (fun a st' e =>
    hq a st' (hk.trans ⟨ST_of_Same e hk.1, Keep_of_Same e, by rw [stackK_of_Same e hk.1]⟩) e)

/-- the current node after a step that keeps the stack -/
theorem top_of_Same {st st' : PState} (hs : ST st) (e : Same st st') {x y : NodeId}
    (hx : st.openElements.getLast? = some x) (hy : st'.openElements.getLast? = some y) :
    y = x ∧ elemK st'.arena y = elemK st.arena x := by
  rw [e.op, hx] at hy
  have := Option.some.inj hy
  subst this
  exact ⟨rfl, ((top_el hs hx).ext e.ar).2⟩

theorem KPpost_of_Same {st st' : PState} (hs : ST st) (e : Same st st') : KPpost st st' :=
  ⟨ST_of_Same e hs, Keep_of_Same e, by rw [stackK_of_Same e hs]⟩

theorem KPpost.okF {st st' : PState} (h : KPpost st st') {i : NodeId} (hi : okF st i) : okF st' i :=
  okF_of_Keep h.2.1 hi

theorem IsEl_of_Keep {st st' : PState} (hk : Keep st st') {i : NodeId} (h : IsEl st.arena i) :
    IsEl st'.arena i ∧ elemK st'.arena i = elemK st.arena i := h.ext hk.ar

/-- in a phase without a stack clause any admissible stack manipulation keeps the invariant -/
theorem Inv_of_KS_free {st st' : PState} (hi : Inv st) (hn : NT st) (hf : freeP st.phase) (hst : ST st')
    (hk : Keep st st') : Inv st' := by
  have hph : st'.phase = st.phase := phase_of_F hk.f
  have hn' : NT st' := NT_of_F hk.f hn
  have he : effP st' = st.phase := by rw [effP_eq_phase hn'.1, hph]
  refine ⟨REG_of_F hk.f hi.reg, hst, fun h => absurd h hn'.1.1, ?_, HSH_free (by rw [he]; exact hf.2.2.2), ?_⟩
  · rw [he]; exact PCL_free hf _
  · rw [he]; intro h; exact absurd h hf.2.2.1

/-- the split of a list at the last occurrence of `x` is unique -/
theorem last_split_unique {α : Type} [DecidableEq α] (x : α) : ∀ (a a' b b' : List α),
    a ++ x :: b = a' ++ x :: b' → x ∉ b → x ∉ b' → a = a' ∧ b = b'
  | [], [], b, b', h, _, _ => by simp at h; exact ⟨rfl, h⟩
  | [], y :: a', b, b', h, hb, _ => by
    simp only [List.nil_append, List.cons_append, List.cons.injEq] at h
    exfalso; apply hb; rw [h.2]; simp
  | y :: a, [], b, b', h, _, hb' => by
    simp only [List.nil_append, List.cons_append, List.cons.injEq] at h
    exfalso; apply hb'; rw [← h.2]; simp
  | y :: a, z :: a', b, b', h, hb, hb' => by
    simp only [List.cons_append, List.cons.injEq] at h
    obtain ⟨g1, g2⟩ := last_split_unique x a a' b b' h.2 hb hb'
    exact ⟨by rw [h.1, g1], g2⟩

/-- `elementInActiveFormattingElements(name)` finds an entry of the list -/
theorem elementInAfe_loop_spec (name : Str) (st : PState) : ∀ (l : List (Option NodeId)) (Q : Option NodeId → PState → Prop),
    (∀ r, (∀ i, r = some i → some i ∈ l) → Q r st) →
    Tr (elementInActiveFormattingElements.loop name l) st Q
  | [], Q, h => by unfold elementInActiveFormattingElements.loop; exact h none (fun _ hh => nomatch hh)
  | none :: _, Q, h => by unfold elementInActiveFormattingElements.loop; exact h none (fun _ hh => nomatch hh)
  | some item :: rest, Q, h => by
    unfold elementInActiveFormattingElements.loop
    simp only [Tr_bind]
    apply Tr_RO; intro nm
    split
    · exact h (some item) (fun i hi => by cases hi; exact List.mem_cons_self ..)
    · exact elementInAfe_loop_spec name st rest Q (fun r hr => h r (fun i hi => List.mem_cons_of_mem _ (hr i hi)))

theorem elementInAfe_spec (name : Str) (st : PState) (Q : Option NodeId → PState → Prop)
    (h : ∀ r, (∀ i, r = some i → some i ∈ st.activeFormattingElements) → Q r st) :
    Tr (elementInActiveFormattingElements name) st Q := by
  unfold elementInActiveFormattingElements
  simp only [Tr_bind, Tr_afe]
  exact elementInAfe_loop_spec name st _ Q (fun r hr => h r (fun i hi => List.mem_reverse.1 (hr i hi)))

/-- `insertElement` of an unprotected tag, in `Tr` mode -/
theorem Tr_insertElement_kp (d : TagData) {st0 st : PState} (hk : KPpost st0 st) (hd : ∀ dns, dOK dns d)
    (Q : NodeId → PState → Prop)
    (hq : ∀ x st', KPpost st0 st' → PushedU st st' x (dEl (dnsOf st) d) → Q x st') : Tr (insertElement d) st Q :=
  Tr_mono (insertElement_spec d st hk.1.elem) (fun x st' hp =>
    let r := ST_pushed hk.1 hp (hd _); hq x st' (hk.trans ⟨r.str, r.keep, r.p⟩) r)

/-- popping the element that was just pushed -/
theorem Tr_pop_pushed (site : String) {st0 st1 st2 : PState} {x : NodeId} {e : El} (hk : KPpost st0 st2)
    (hp : PushedU st1 st2 x e) (he : prot e = false) (Q : NodeId → PState → Prop)
    (hq : ∀ st', KPpost st0 st' → Q x st') : Tr (openPop site) st2 Q := by
  simp only [Tr_openPop]
  intro y hy
  have hxy : y = x := by rw [hp.op] at hy; simpa using hy.symm
  subst hxy
  exact hq _ (hk.trans (KP_pop hp.str hy (by rw [hp.k]; exact he)))

theorem heading_unprot : ∀ nm, Gen.headingElements.contains nm = true → PN.contains nm = false := by
  have h : Gen.headingElements.all (fun n => !PN.contains n) = true := by decide
  intro nm hn
  have := List.all_eq_true.1 h nm (by simpa using hn)
  simpa using this

instance Fct_isFMT_impliedEnd_a : Fct (isFMT (impliedEnd "a")) := ⟨(by decide : FMT.contains (lit "a") = true)⟩
instance Fct_isFMT_impliedEnd_nobr : Fct (isFMT (impliedEnd "nobr")) := ⟨(by decide : FMT.contains (lit "nobr") = true)⟩

end H5.Props.C03c
