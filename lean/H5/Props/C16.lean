/-
  Property C16 — every parse error that can be recorded has a message template that formats with the
  variables supplied at the site (so strict mode raises ParseError, never KeyError).
  `errorSites` / `errorTemplates` are extracted from /repo's AST and from constants.E on every run.
-/
import H5.Gen.ErrorSites
namespace H5.Props.C16
open H5 H5.Gen

def siteOk (s : String × Str × List Str) : Bool :=
  match errorTemplates.lookup s.2.1 with
  | some placeholders => placeholders.all (fun p => s.2.2.elem p)
  | none => false

/-- **C16 (sites).** every literal parse-error site names a code that has a template, and supplies every
variable that template mentions. -/
theorem C16_sites : errorSites.all siteOk = true := by decide +kernel

theorem C16_sites_mem (s : String × Str × List Str) (h : s ∈ errorSites) :
    ∃ ph, errorTemplates.lookup s.2.1 = some ph ∧ ∀ p ∈ ph, p ∈ s.2.2 := by
  have := List.all_eq_true.mp C16_sites s h
  unfold siteOk at this
  split at this
  · rename_i ph hph
    refine ⟨ph, hph, ?_⟩
    intro p hp
    have := List.all_eq_true.mp this p hp
    simpa using this
  · simp at this

/-- only the two known forwarding sites pass a non-literal code on (tokenizer `__iter__`, parser `mainLoop`) -/
theorem C16_forwarders : forwarderCount = 2 := by decide

/-- non-vacuity: there are sites, and some supply variables -/
example : errorSites.length > 200 := by decide +kernel
example : (errorSites.filter (fun s => !s.2.2.isEmpty)).length > 50 := by decide +kernel

end H5.Props.C16
