/-
  C07 identity — more tree-construction steps under `BodyInv`: void elements (`startTagVoidFormatting`,
  `startTagParamSource`), the block elements of `startTagCloseP` / `endTagBlock`, and `p` (`startTagCloseP` / `endTagP`).
-/
import H5.Props.C07bPrefix
set_option linter.unusedSimpArgs false
set_option linter.unusedVariables false
namespace H5.Props.C07b
open H5 H5.Model H5.Model.TB H5.Model.Dom

theorem runTag_InBody_startTagCloseP (r : Rec) (tok : Token) :
    runTagHandler r "InBodyPhase.startTagCloseP" tok = InBody_startTagCloseP tok := by
  glue_eval runTagHandler runTagHandler.match_1

theorem runTag_InBody_endTagBlock (r : Rec) (tok : Token) :
    runTagHandler r "InBodyPhase.endTagBlock" tok = InBody_endTagBlock tok := by
  glue_eval runTagHandler runTagHandler.match_1

theorem runTag_InBody_endTagP (r : Rec) (tok : Token) :
    runTagHandler r "InBodyPhase.endTagP" tok = InBody_endTagP tok := by
  glue_eval runTagHandler runTagHandler.match_1

theorem runTag_InBody_startTagVoidFormatting (r : Rec) (tok : Token) :
    runTagHandler r "InBodyPhase.startTagVoidFormatting" tok = InBody_startTagVoidFormatting tok := by
  glue_eval runTagHandler runTagHandler.match_1

theorem runTag_InBody_startTagParamSource (r : Rec) (tok : Token) :
    runTagHandler r "InBodyPhase.startTagParamSource" tok = InBody_startTagParamSource tok := by
  glue_eval runTagHandler runTagHandler.match_1

/-! ### `elementInScope` -/


theorem nsE_html : nsE "html" = .ok htmlNs := by decide +kernel

/-- the scoping lists all contain `html` -/
theorem listElements_button : ∃ L, listElements (some (lit "button")) = .ok (L, false) ∧ L.contains (htmlNs, sHtml) = true := by
  refine ⟨_, rfl, ?_⟩
  decide +kernel

theorem listElements_none : ∃ L, listElements none = .ok (L, false) ∧ L.contains (htmlNs, sHtml) = true := by
  refine ⟨_, rfl, ?_⟩
  decide +kernel

/-- every open element is an HTML element whose node is known, named by `nms` (top of the stack first) -/
def OpenNamed (st : PState) : List NodeId → List Str → Prop
  | [], [] => True
  | i :: is, nm :: nms => (∃ n, st.arena.nodes[i]? = some n ∧ n.kind = .element (some htmlNs) nm) ∧ OpenNamed st is nms
  | _, _ => False

/-- the scope walk finds no `target`: none of the names up to (and including) `html` is `target` -/
theorem scopeLoop_false (st : PState) (target : Str) (L : List (Str × Str)) (hL : L.contains (htmlNs, sHtml) = true)
    (ht : target ≠ sHtml) : ∀ (ids : List NodeId) (nms : List Str), OpenNamed st ids nms → sHtml ∈ nms →
    (∀ nm ∈ nms, nm ≠ target) →
    (elementInScopeLoop (fun n => do return (← nameTuple n) == (htmlNs, target)) L false ids).run st = .ok (false, st)
  | [], [], _, hm, _ => by simp at hm
  | [], _ :: _, h, _, _ => by simp [OpenNamed] at h
  | _ :: _, [], h, _, _ => by simp [OpenNamed] at h
  | i :: is, nm :: nms, h, hm, hne => by
    obtain ⟨⟨n, hn, hk⟩, hrest⟩ := h
    have hnt : (nm == target) = false := by simpa using hne nm (by simp)
    have htup : ((htmlNs, nm) == (htmlNs, target)) = false := by
      simp only [Prod.mk.injEq, beq_eq_false_iff_ne, ne_eq, not_and]
      intro _ h2; exact hne nm (by simp) h2
    unfold elementInScopeLoop
    simp only [run_bind, nameTuple_run st i n nm hn hk, ok_bind, run_pure, htup, Bool.false_eq_true, ↓reduceIte]
    by_cases hc : L.contains (htmlNs, nm) = true
    · simp only [hc, Bool.false_bne, ↓reduceIte]
      rfl
    · have hc' : L.contains (htmlNs, nm) = false := by simpa using hc
      simp only [hc', Bool.false_bne, Bool.false_eq_true, ↓reduceIte]
      have hm' : sHtml ∈ nms := by
        rcases List.mem_cons.1 hm with h1 | h1
        · rw [← h1] at hc'; rw [hL] at hc'; exact absurd hc' (by simp)
        · exact h1
      exact scopeLoop_false st target L hL ht is nms hrest hm' (fun x hx => hne x (by simp [hx]))

/-- the scope walk stops at the current node when it is the target -/
theorem scopeLoop_top (st : PState) (target : Str) (L : List (Str × Str)) (i : NodeId) (n : Node) (is : List NodeId)
    (hn : st.arena.nodes[i]? = some n) (hk : n.kind = .element (some htmlNs) target) :
    (elementInScopeLoop (fun n => do return (← nameTuple n) == (htmlNs, target)) L false (i :: is)).run st =
      .ok (true, st) := by
  unfold elementInScopeLoop
  simp only [run_bind, nameTuple_run st i n target hn hk, ok_bind, run_pure, beq_self_eq_true, ↓reduceIte]

/-! ### the open elements seen through the frames -/

theorem PrefixOK.node_of_mem {a : Arena} : ∀ {fs : List Frame} {nxt : Nat}, PrefixOK a fs nxt →
    ∀ g ∈ fs, a.nodes[g.id]? = some g.node
  | [], _, _, g, hg => by simp at hg
  | f :: rest, nxt, ⟨h1, _, _, h4⟩, g, hg => by
    rcases List.mem_cons.1 hg with rfl | hg
    · exact h1
    · exact PrefixOK.node_of_mem h4 g hg

def KindsAre : List Frame → List Str → Prop
  | [], [] => True
  | g :: gs, nm :: nms => g.node.kind = .element (some htmlNs) nm ∧ KindsAre gs nms
  | _, _ => False

/-- names of the open elements, current node first -/
def Named (fs : List Frame) (f : Frame) (nms : List Str) : Prop := KindsAre (f :: (fs.drop 1).reverse) nms

theorem openNamed_of_forall2 (st : PState) : ∀ (gs : List Frame) (nms : List Str),
    (∀ g ∈ gs, st.arena.nodes[g.id]? = some g.node) →
    KindsAre gs nms → OpenNamed st (gs.map (·.id)) nms
  | [], [], _, _ => trivial
  | g :: gs, nm :: nms, hn, ⟨h1, h2⟩ =>
    ⟨⟨g.node, hn g (by simp), h1⟩, openNamed_of_forall2 st gs nms (fun x hx => hn x (by simp [hx])) h2⟩
  | [], _ :: _, _, h => by simp [KindsAre] at h
  | _ :: _, [], _, h => by simp [KindsAre] at h

theorem BodyInv.openNamed {ps fs f} (h : BodyInv ps fs f) {nms : List Str} (hn : Named fs f nms) :
    OpenNamed ps ps.openElements.reverse nms := by
  have he : ps.openElements.reverse = (f :: (fs.drop 1).reverse).map (·.id) := by
    rw [h.opens]; simp
  rw [he]
  refine openNamed_of_forall2 ps _ nms ?_ hn
  intro g hg
  rcases List.mem_cons.1 hg with rfl | hg
  · exact h.topNode
  · have hg' : g ∈ fs := by
      have : g ∈ fs.drop 1 := by simpa using hg
      exact List.mem_of_mem_drop this
    exact PrefixOK.node_of_mem h.frames.1 g hg'

/-- no open element is a `p` (and `html` is at the bottom): `p` is not in button scope -/
def NoP (fs : List Frame) (f : Frame) : Prop :=
  ∃ nms, Named fs f nms ∧ sHtml ∈ nms ∧ ∀ nm ∈ nms, nm ≠ sP

theorem NoP.same {fs : List Frame} {f f1 : Frame} (h : NoP fs f) (hk : f1.node.kind = f.node.kind) : NoP fs f1 := by
  obtain ⟨nms, h1, h2, h3⟩ := h
  refine ⟨nms, ?_, h2, h3⟩
  unfold Named at *
  cases nms with
  | nil => simp [KindsAre] at h1
  | cons nm nms => exact ⟨hk.trans h1.1, h1.2⟩

theorem NoP.push {fs : List Frame} {f : Frame} (h : NoP fs f) (hfs : fs ≠ []) (f1 g : Frame) (nm : Str)
    (hk : f1.node.kind = f.node.kind) (hg : g.node.kind = .element (some htmlNs) nm) (hnm : nm ≠ sP) :
    NoP (fs ++ [f1]) g := by
  obtain ⟨nms, h1, h2, h3⟩ := h
  refine ⟨nm :: nms, ?_, by simp [h2], ?_⟩
  · unfold Named at *
    have : ((fs ++ [f1]).drop 1).reverse = f1 :: (fs.drop 1).reverse := by
      cases fs with
      | nil => exact absurd rfl hfs
      | cons e rest => simp
    rw [this]
    cases nms with
    | nil => simp [KindsAre] at h1
    | cons n0 nms => exact ⟨hg, hk.trans h1.1, h1.2⟩
  · intro x hx
    rcases List.mem_cons.1 hx with rfl | hx
    · exact hnm
    · exact h3 x hx

theorem elementInScope_p_false {ps fs f} (h : BodyInv ps fs f) (hnp : NoP fs f) :
    (elementInScope sP (some "button")).run ps = .ok (false, ps) := by
  obtain ⟨nms, h1, h2, h3⟩ := hnp
  obtain ⟨L, hL, hLc⟩ := listElements_button
  unfold elementInScope
  have e1 : nsE "html" = .ok htmlNs := nsE_html
  have e2 : listElements (Option.map lit (some "button")) = .ok (L, false) := hL
  simp only [run_bind, liftExcept_run _ _ _ e1, monadLift_run _ _ _ e1, liftExcept_run _ _ _ e2,
    monadLift_run _ _ _ e2, ok_bind, openElems_run]
  exact scopeLoop_false ps sP L hLc (by decide) _ nms (h.openNamed h1) h2 h3

theorem elementInScope_top {ps fs f} (h : BodyInv ps fs f) (nm : Str) (hk : f.node.kind = .element (some htmlNs) nm)
    (variant : Option String) (hv : variant = none ∨ variant = some "button") :
    (elementInScope nm variant).run ps = .ok (true, ps) := by
  have he : ps.openElements.reverse = f.id :: ((fs.drop 1).reverse).map (·.id) := by
    rw [h.opens]; simp
  have e1 : nsE "html" = .ok htmlNs := nsE_html
  unfold elementInScope
  rcases hv with rfl | rfl
  · obtain ⟨L, hL, _⟩ := listElements_none
    have e2 : listElements (Option.map lit none) = .ok (L, false) := hL
    simp only [run_bind, liftExcept_run _ _ _ e1, monadLift_run _ _ _ e1, liftExcept_run _ _ _ e2,
      monadLift_run _ _ _ e2, ok_bind, openElems_run, he]
    exact scopeLoop_top ps nm L f.id f.node _ h.topNode hk
  · obtain ⟨L, hL, _⟩ := listElements_button
    have e2 : listElements (Option.map lit (some "button")) = .ok (L, false) := hL
    simp only [run_bind, liftExcept_run _ _ _ e1, monadLift_run _ _ _ e1, liftExcept_run _ _ _ e2,
      monadLift_run _ _ _ e2, ok_bind, openElems_run, he]
    exact scopeLoop_top ps nm L f.id f.node _ h.topNode hk

/-! ### a block element: `startTagCloseP` with no `p` in button scope, `endTagBlock` on the current node -/


theorem step_startTagCloseP {ps fs f} (h : BodyInv ps fs f) (hnp : NoP fs f) (nm : Str) (attrs : List (Str × Str))
    (ho : closePStart nm) :
    ∃ ps', TB.step cfg0 ps (.startTag nm attrs false) = .ok (ps', none) ∧
      BodyInv ps' (fs ++ [withChild f ps.arena.nodes.size])
        (newFrame ps.arena.nodes.size f.id nm (attrsOfPairs attrs)) := by
  obtain ⟨fnm, hfk⟩ := h.topk
  have hr := resetFor_BodyInv h
  let d : TagData := { name := nm, attrs := attrsOfPairs attrs, selfClosing := false, orig := true }
  let st' : PState := { resetFor ps with
    arena := addChild ps.arena f.id f.node (.element (some htmlNs) nm) (attrsOfPairs attrs),
    openElements := ps.openElements ++ [ps.arena.nodes.size] }
  have hcall : (callOf (mkRec 48) .inBody (.startTag d)).run (resetFor ps) = .ok (none, st') := by
    show (runProcess (mkRec 47) .inBody "processStartTag" (.startTag d)).run (resetFor ps) = _
    rw [runProcess_inBody_S]
    unfold Phase_processStartTag
    have e1 : (Token.startTag d).tag "Phase.processStartTag" = .ok d := rfl
    simp only [run_bind, liftExcept_run _ _ _ e1, monadLift_run _ _ _ e1, ok_bind]
    have e2 : lookupHandler Gen.startTagHandlers "startTagHandler" .inBody d.name = .ok "InBodyPhase.startTagCloseP" := ho
    simp only [liftExcept_run _ _ _ e2, monadLift_run _ _ _ e2, ok_bind, runTag_InBody_startTagCloseP]
    unfold InBody_startTagCloseP
    have hc : (resetFor ps).cfg.maxRecursion = 999999 + 1 := rfl
    simp only [run_bind, getCfg_run, ok_bind, hc]
    unfold InBody_endTagP_startTagCloseP insertElementTok
    have e3 : (Token.startTag d).tag "InBodyPhase.startTagCloseP" = .ok d := rfl
    have hsc : (elementInScope (lit "p") (some "button")).run (resetFor ps) = .ok (false, resetFor ps) :=
      elementInScope_p_false hr hnp
    simp only [run_bind, hsc, ok_bind, Bool.false_eq_true, ↓reduceIte, run_pure,
      liftExcept_run _ _ _ e3, monadLift_run _ _ _ e3]
    rw [insertElement_run (resetFor ps) d f.id f.node rfl rfl hr.ift hr.last hr.topNode]
    rfl
  refine ⟨st', ?_, ?_⟩
  · exact step_of_call ps st' (.startTag nm attrs false) (.startTag d) f.id f.node fnm .inBody rfl
      (fun d' hd' => by cases hd'; rfl) h.phase h.last h.topNode hfk hcall
  · refine ⟨h.phase, ?_, ?_, h.ift, h.errs, h.dropNl, h.docId, ?_, ⟨nm, rfl⟩, by simp⟩
    rotate_left 1
    · rw [h.afe_push, not_fmt_of_start ho (by decide) (by decide)]
      simp; rfl
    rotate_left 1
    · show ps.openElements ++ [ps.arena.nodes.size] = _
      rw [h.opens]
      cases fs with
      | nil => exact absurd rfl h.fsne
      | cons e rest => simp [withChild, newFrame]
    · exact h.frames.push (.element (some htmlNs) nm) (attrsOfPairs attrs)

theorem generateImplied_run_none (st : PState) (cur : Nat) (n : Node) (ns : Option Str) (nm : Str)
    (hl : st.openElements.getLast? = some cur) (h : st.arena.nodes[cur]? = some n) (hk : n.kind = .element ns nm)
    (hnm : Gen.Lit.TB_TreeBuilder_generateImpliedEndTags_0.contains nm = false) :
    (generateImpliedEndTags none).run st = .ok ((), st) := by
  unfold generateImpliedEndTags
  simp only [run_bind, openElems_run, ok_bind]
  unfold generateImpliedEndTagsAux
  simp only [run_bind, openLast_run st _ cur hl, ok_bind, nodeName_run st cur n ns nm h hk, hnm,
    Bool.false_and, Bool.false_eq_true, ↓reduceIte]
  rfl

/-- the pop at the end of the end-tag handlers: the state and the invariant -/
theorem BodyInv.popped {ps fs p g} (h : BodyInv ps (fs ++ [p]) g) (nm : Str) (hfs : fs ≠ [])
    (hg : g.node.kind = .element (some htmlNs) nm) (hpk : ∃ pn, p.node.kind = .element (some htmlNs) pn)
    (hnf : fmtName nm = false) :
    BodyInv { resetFor ps with openElements := ps.openElements.dropLast } fs { p with kids := p.kids ++ [g.tree] } := by
  refine ⟨h.phase, ?_, ?_, h.ift, h.errs, h.dropNl, h.docId, h.frames.pop (Or.inl ⟨_, _, hg⟩), hpk, hfs⟩
  rotate_left 1
  · have := h.afe_pop hfs (p.kids ++ [g.tree])
    rw [isFmt_of_kind hg, hnf] at this
    show ps.activeFormattingElements = _
    simpa using this
  show ps.openElements.dropLast = _
  rw [h.opens]
  cases fs with
  | nil => exact absurd rfl hfs
  | cons e rest => simp [List.dropLast_append_of_ne_nil]

theorem step_endTagBlock {ps fs p g} (h : BodyInv ps (fs ++ [p]) g) (nm : Str) (hfs : fs ≠ [])
    (hg : g.node.kind = .element (some htmlNs) nm) (hpk : ∃ pn, p.node.kind = .element (some htmlNs) pn)
    (ho : blockEnd nm) (hpre : (nm == lit "pre") = false)
    (himpl : Gen.Lit.TB_TreeBuilder_generateImpliedEndTags_0.contains nm = false) :
    ∃ ps', TB.step cfg0 ps (.endTag nm [] false) = .ok (ps', none) ∧
      BodyInv ps' fs { p with kids := p.kids ++ [g.tree] } := by
  have hr := resetFor_BodyInv h
  let d : TagData := { name := nm, attrs := attrsOfPairs [], selfClosing := false, orig := true }
  let st' : PState := { resetFor ps with openElements := ps.openElements.dropLast }
  have hcall : (callOf (mkRec 48) .inBody (.endTag d)).run (resetFor ps) = .ok (none, st') := by
    show (runProcess (mkRec 47) .inBody "processEndTag" (.endTag d)).run (resetFor ps) = _
    rw [runProcess_inBody_E]
    unfold Phase_processEndTag
    have e1 : (Token.endTag d).tag "Phase.processEndTag" = .ok d := rfl
    simp only [run_bind, liftExcept_run _ _ _ e1, monadLift_run _ _ _ e1, ok_bind]
    have e2 : lookupHandler Gen.endTagHandlers "endTagHandler" .inBody d.name = .ok "InBodyPhase.endTagBlock" := ho
    simp only [liftExcept_run _ _ _ e2, monadLift_run _ _ _ e2, ok_bind, runTag_InBody_endTagBlock]
    unfold InBody_endTagBlock
    have e3 : (Token.endTag d).tag "InBodyPhase.endTagBlock" = .ok d := rfl
    have hdn : d.name = nm := rfl
    simp only [run_bind, ok_bind, liftExcept_run _ _ _ e3, monadLift_run _ _ _ e3, hdn, hpre, Bool.false_eq_true,
      ↓reduceIte, run_pure, elementInScope_top hr nm hg none (Or.inl rfl),
      generateImplied_run_none (resetFor ps) g.id g.node _ nm hr.last hr.topNode hg himpl,
      openLast_run (resetFor ps) _ g.id hr.last, nodeName_run (resetFor ps) g.id g.node _ nm hr.topNode hg,
      bne_self_eq_false]
    unfold popUntil
    simp only [run_bind, openElems_run, ok_bind]
    unfold popUntilLoop
    have hn2 : ({ resetFor ps with openElements := (resetFor ps).openElements.dropLast } : PState).arena.nodes[g.id]? =
        some g.node := hr.topNode
    simp only [run_bind, openPop_run (resetFor ps) _ g.id hr.last, ok_bind, run_pure,
      nodeName_run _ g.id g.node _ nm hn2 hg, beq_self_eq_true, ↓reduceIte]
    rfl
  exact ⟨st', step_of_call ps st' (.endTag nm [] false) (.endTag d) g.id g.node nm .inBody rfl
      (fun d' hd' => by cases hd') h.phase h.last h.topNode hg hcall, h.popped nm hfs hg hpk (not_fmt_of_end ho (by decide))⟩

theorem step_endTagP {ps fs p g} (h : BodyInv ps (fs ++ [p]) g) (hfs : fs ≠ [])
    (hg : g.node.kind = .element (some htmlNs) sP) (hpk : ∃ pn, p.node.kind = .element (some htmlNs) pn) :
    ∃ ps', TB.step cfg0 ps (.endTag sP [] false) = .ok (ps', none) ∧
      BodyInv ps' fs { p with kids := p.kids ++ [g.tree] } := by
  have hr := resetFor_BodyInv h
  let d : TagData := { name := sP, attrs := attrsOfPairs [], selfClosing := false, orig := true }
  let st' : PState := { resetFor ps with openElements := ps.openElements.dropLast }
  have hcall : (callOf (mkRec 48) .inBody (.endTag d)).run (resetFor ps) = .ok (none, st') := by
    show (runProcess (mkRec 47) .inBody "processEndTag" (.endTag d)).run (resetFor ps) = _
    rw [runProcess_inBody_E]
    unfold Phase_processEndTag
    have e1 : (Token.endTag d).tag "Phase.processEndTag" = .ok d := rfl
    simp only [run_bind, liftExcept_run _ _ _ e1, monadLift_run _ _ _ e1, ok_bind]
    have e2 : lookupHandler Gen.endTagHandlers "endTagHandler" .inBody d.name = .ok "InBodyPhase.endTagP" := by
      decide +kernel
    simp only [liftExcept_run _ _ _ e2, monadLift_run _ _ _ e2, ok_bind, runTag_InBody_endTagP]
    unfold InBody_endTagP
    have hc : (resetFor ps).cfg.maxRecursion = 999999 + 1 := rfl
    simp only [run_bind, getCfg_run, ok_bind, hc]
    unfold InBody_endTagP_startTagCloseP
    have hsc : (elementInScope (lit "p") (some "button")).run (resetFor ps) = .ok (true, resetFor ps) :=
      elementInScope_top hr sP hg (some "button") (Or.inr rfl)
    have hgi : (generateImpliedEndTags (some (lit "p"))).run (resetFor ps) = .ok ((), resetFor ps) :=
      generateImplied_run_excluded (resetFor ps) g.id g.node _ sP hr.last hr.topNode hg
    have hni : (nameIs g.id "p").run (resetFor ps) = .ok (true, resetFor ps) := by
      have := nameIs_run (resetFor ps) g.id g.node _ sP "p" hr.topNode hg
      rw [this]; rfl
    simp only [run_bind, hsc, ok_bind, Bool.not_true, Bool.false_eq_true, ↓reduceIte, hgi,
      openLast_run (resetFor ps) _ g.id hr.last, hni, run_pure]
    unfold popUntil
    simp only [run_bind, openElems_run, ok_bind]
    unfold popUntilLoop
    have hn2 : ({ resetFor ps with openElements := (resetFor ps).openElements.dropLast } : PState).arena.nodes[g.id]? =
        some g.node := hr.topNode
    have hni2 : (nameIs g.id "p").run { resetFor ps with openElements := (resetFor ps).openElements.dropLast } =
        .ok (true, { resetFor ps with openElements := (resetFor ps).openElements.dropLast }) := by
      have := nameIs_run { resetFor ps with openElements := (resetFor ps).openElements.dropLast } g.id g.node _ sP "p" hn2 hg
      rw [this]; rfl
    simp only [run_bind, openPop_run (resetFor ps) _ g.id hr.last, ok_bind, run_pure, hni2, ↓reduceIte]
    rfl
  exact ⟨st', step_of_call ps st' (.endTag sP [] false) (.endTag d) g.id g.node sP .inBody rfl
      (fun d' hd' => by cases hd') h.phase h.last h.topNode hg hcall, h.popped sP hfs hg hpk (by decide)⟩

/-! ### void elements -/


/-- the frame after a childless element has been appended to the current node -/
def withVoid (f : Frame) (c : Nat) (nm : Str) (attrs : Attrs) : Frame :=
  { withChild f c with kids := f.kids ++ [(newFrame c f.id nm attrs).tree] }

theorem BodyInv.addVoid {ps ps' : PState} {fs f} (h : BodyInv ps fs f) (nm : Str) (attrs : Attrs)
    (h1 : ps'.phase = ps.phase) (h2 : ps'.openElements = ps.openElements)
    (h3 : ps'.activeFormattingElements = ps.activeFormattingElements) (h4 : ps'.insertFromTable = ps.insertFromTable)
    (h5 : ps'.errors = ps.errors) (h6 : ps'.inBodyDropNewline = ps.inBodyDropNewline)
    (h7 : ps'.arena = addChild ps.arena f.id f.node (.element (some htmlNs) nm) attrs) (h8 : ps'.document = ps.document) :
    BodyInv ps' fs (withVoid f ps.arena.nodes.size nm attrs) := by
  refine ⟨h1.trans h.phase, ?_, (h3.trans h.afe).trans (fmtList_same (f1 := withVoid f ps.arena.nodes.size nm attrs) (f := f) rfl rfl).symm, h4.trans h.ift, h5.trans h.errs, h6.trans h.dropNl, h8.trans h.docId,
    ?_, h.topk, h.fsne⟩
  · rw [h2, h.opens]; simp [withVoid, withChild]
  · rw [h7]
    exact (h.frames.push (.element (some htmlNs) nm) attrs).pop (Or.inl ⟨_, _, rfl⟩)

theorem step_voidFormatting {ps fs f} (h : BodyInv ps fs f) (nm : Str) (attrs : List (Str × Str))
    (ho : voidFmtStart nm) :
    ∃ ps', TB.step cfg0 ps (.startTag nm attrs false) = .ok (ps', none) ∧
      BodyInv ps' fs (withVoid f ps.arena.nodes.size nm (attrsOfPairs attrs)) := by
  obtain ⟨fnm, hfk⟩ := h.topk
  have hr := resetFor_BodyInv h
  let d : TagData := { name := nm, attrs := attrsOfPairs attrs, selfClosing := false, orig := true }
  let st' : PState := { resetFor ps with
    arena := addChild ps.arena f.id f.node (.element (some htmlNs) nm) (attrsOfPairs attrs),
    selfClosingAcknowledged := true, framesetOK := false }
  have hcall : (callOf (mkRec 48) .inBody (.startTag d)).run (resetFor ps) = .ok (none, st') := by
    show (runProcess (mkRec 47) .inBody "processStartTag" (.startTag d)).run (resetFor ps) = _
    rw [runProcess_inBody_S]
    unfold Phase_processStartTag
    have e1 : (Token.startTag d).tag "Phase.processStartTag" = .ok d := rfl
    simp only [run_bind, liftExcept_run _ _ _ e1, monadLift_run _ _ _ e1, ok_bind]
    have e2 : lookupHandler Gen.startTagHandlers "startTagHandler" .inBody d.name =
      .ok "InBodyPhase.startTagVoidFormatting" := ho
    simp only [liftExcept_run _ _ _ e2, monadLift_run _ _ _ e2, ok_bind, runTag_InBody_startTagVoidFormatting]
    unfold InBody_startTagVoidFormatting
    have e3 : (Token.startTag d).tag "InBodyPhase.startTagVoidFormatting" = .ok d := rfl
    simp only [run_bind, hr.reconstruct, ok_bind, liftExcept_run _ _ _ e3, monadLift_run _ _ _ e3]
    rw [insertElement_run (resetFor ps) d f.id f.node rfl rfl hr.ift hr.last hr.topNode]
    simp only [ok_bind]
    rw [openPop_run _ _ (resetFor ps).arena.nodes.size (by simp)]
    simp only [ok_bind, List.dropLast_concat]
    rfl
  refine ⟨st', ?_, ?_⟩
  · exact step_of_call ps st' (.startTag nm attrs false) (.startTag d) f.id f.node fnm .inBody rfl
      (fun d' hd' => by cases hd'; rfl) h.phase h.last h.topNode hfk hcall
  · exact h.addVoid nm (attrsOfPairs attrs) rfl rfl rfl rfl rfl rfl rfl rfl

theorem step_paramSource {ps fs f} (h : BodyInv ps fs f) (nm : Str) (attrs : List (Str × Str))
    (ho : paramSourceStart nm) :
    ∃ ps', TB.step cfg0 ps (.startTag nm attrs false) = .ok (ps', none) ∧
      BodyInv ps' fs (withVoid f ps.arena.nodes.size nm (attrsOfPairs attrs)) := by
  obtain ⟨fnm, hfk⟩ := h.topk
  have hr := resetFor_BodyInv h
  let d : TagData := { name := nm, attrs := attrsOfPairs attrs, selfClosing := false, orig := true }
  let st' : PState := { resetFor ps with
    arena := addChild ps.arena f.id f.node (.element (some htmlNs) nm) (attrsOfPairs attrs),
    selfClosingAcknowledged := true }
  have hcall : (callOf (mkRec 48) .inBody (.startTag d)).run (resetFor ps) = .ok (none, st') := by
    show (runProcess (mkRec 47) .inBody "processStartTag" (.startTag d)).run (resetFor ps) = _
    rw [runProcess_inBody_S]
    unfold Phase_processStartTag
    have e1 : (Token.startTag d).tag "Phase.processStartTag" = .ok d := rfl
    simp only [run_bind, liftExcept_run _ _ _ e1, monadLift_run _ _ _ e1, ok_bind]
    have e2 : lookupHandler Gen.startTagHandlers "startTagHandler" .inBody d.name =
      .ok "InBodyPhase.startTagParamSource" := ho
    simp only [liftExcept_run _ _ _ e2, monadLift_run _ _ _ e2, ok_bind, runTag_InBody_startTagParamSource]
    unfold InBody_startTagParamSource
    have e3 : (Token.startTag d).tag "InBodyPhase.startTagParamSource" = .ok d := rfl
    simp only [run_bind, ok_bind, liftExcept_run _ _ _ e3, monadLift_run _ _ _ e3]
    rw [insertElement_run (resetFor ps) d f.id f.node rfl rfl hr.ift hr.last hr.topNode]
    simp only [ok_bind]
    rw [openPop_run _ _ (resetFor ps).arena.nodes.size (by simp)]
    simp only [ok_bind, List.dropLast_concat]
    rfl
  refine ⟨st', ?_, ?_⟩
  · exact step_of_call ps st' (.startTag nm attrs false) (.startTag d) f.id f.node fnm .inBody rfl
      (fun d' hd' => by cases hd'; rfl) h.phase h.last h.topNode hfk hcall
  · exact h.addVoid nm (attrsOfPairs attrs) rfl rfl rfl rfl rfl rfl rfl rfl

end H5.Props.C07b
