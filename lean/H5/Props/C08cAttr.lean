/-
  Property C08 (continued, markup) — attribute values written by the serializer re-tokenise to themselves.

  * `C08_attr_value_roundtrip`: the QUOTED form chosen by the model's `attrOut` (H5.Model.Serializer), read by the
    standard's tokenizer (H5.Spec.Tokenizer) in the attribute value (double- or single-quoted) state.
  * `C08_unquoted_value_roundtrip`: the UNQUOTED form, read in the attribute value (unquoted) state.
  Technique: that of H5.Props.C08b (`run_ref`), with the walks expressed by `Reach` (H5.Proofs.TokReach) so that
  they compose into whole tags (H5.Props.C08cTag) and token streams (H5.Props.C08c).
-/
import H5.Props.C08b
import H5.Proofs.TokReach
namespace H5.Props.C08c
open H5 H5.Gen H5.Spec H5.Spec.Tokenizer
open H5.Model.Serializer
open H5.Props.C08 (mem_replaceChar replaceChar_cons replaceChar_append longestNamedReference_semicolon amp_mem lt_mem)

/-! ### The scratch registers of the character-reference states -/

/-- set the state and the three registers only the character-reference states write (return state, temporary
buffer, character reference code): the walks below are exact on every other field -/
def scr (m : M) (s rs : State) (tb : Str) (code : Nat) : M :=
  { m with state := s, returnState := rs, temporaryBuffer := tb, characterReferenceCode := code }

@[simp] theorem scr_scr (m : M) (s rs : State) (tb : Str) (code : Nat) (s2 rs2 : State) (tb2 : Str) (code2 : Nat) :
    scr (scr m s rs tb code) s2 rs2 tb2 code2 = scr m s2 rs2 tb2 code2 := rfl
@[simp] theorem scr_state (m : M) (s rs : State) (tb : Str) (code : Nat) : (scr m s rs tb code).state = s := rfl
@[simp] theorem scr_done (m : M) (s rs : State) (tb : Str) (code : Nat) : (scr m s rs tb code).done = m.done := rfl
@[simp] theorem scr_tag (m : M) (s rs : State) (tb : Str) (code : Nat) : (scr m s rs tb code).tag = m.tag := rfl
@[simp] theorem scr_out (m : M) (s rs : State) (tb : Str) (code : Nat) : (scr m s rs tb code).out = m.out := rfl
@[simp] theorem scr_lastStartTagName (m : M) (s rs : State) (tb : Str) (code : Nat) :
    (scr m s rs tb code).lastStartTagName = m.lastStartTagName := rfl
theorem scr_appendAttrValue (m : M) (s rs : State) (tb : Str) (code : Nat) (v : Str) :
    (scr m s rs tb code).appendAttrValue v = scr (m.appendAttrValue v) s rs tb code := rfl
theorem scr_self (m : M) : scr m m.state m.returnState m.temporaryBuffer m.characterReferenceCode = m := rfl
theorem switchTo_eq_scr (m : M) (s : State) :
    m.switchTo s = scr m s m.returnState m.temporaryBuffer m.characterReferenceCode := rfl

/-! ### Character references consumed as part of an attribute -/

/-- the three attribute-value states ("consumed as part of an attribute") -/
def isAttrRet (s : State) : Bool :=
  s == .attributeValueDoubleQuoted || s == .attributeValueSingleQuoted || s == .attributeValueUnquoted

theorem consumed_eq (m : M) : m.consumedAsPartOfAnAttribute = isAttrRet m.returnState := rfl

/-- the machine after `&` has been read in an attribute value state `self` -/
def refA1 (m : M) (self : State) : M := { m with returnState := self, state := .characterReference }

theorem step_refA_alnum (m : M) (self : State) (c0 : Nat) (r : Str) (hc0 : isASCIIAlphanumeric c0 = true) :
    Tokenizer.step (refA1 m self) (c0 :: r) =
      ({ m with returnState := self, temporaryBuffer := [0x26], state := .namedCharacterReference }, c0 :: r) := by
  simp [Tokenizer.step, refA1, characterReferenceState, hc0, M.switchTo]

theorem step_refA_named (m : M) (self : State) (hself : isAttrRet self = true) (k v rest : Str)
    (hl : longestNamedReference (k ++ rest) = some (k, v)) (hlast : k.getLast? = some 59) :
    Tokenizer.step { m with returnState := self, temporaryBuffer := [0x26], state := .namedCharacterReference } (k ++ rest)
      = (scr (m.appendAttrValue v) self self v m.characterReferenceCode, rest) := by
  have hd : List.drop k.length (k ++ rest) = rest := List.drop_left
  rw [Tokenizer.step]
  show namedCharacterReferenceState _ _ = _
  unfold namedCharacterReferenceState
  split
  · rename_i name value heq
    rw [hl] at heq
    cases heq
    simp only [hd, hlast]
    simp [consumed_eq, hself, M.flushCodePoints, M.switchTo, scr, M.appendAttrValue]
  · rename_i heq
    rw [hl] at heq
    cases heq

/-- `&name;` (name in the table, ending in `;`) inside an attribute value: the characters of the table value are
appended to the current attribute's value, no parse error, back in the attribute value state. -/
theorem reach_refA_named (m : M) (hd : m.done = false) (self : State) (hself : isAttrRet self = true)
    {c0 : Nat} {k' v : Str} (hm : (c0 :: k', v) ∈ entities) (hlast : (c0 :: k').getLast? = some 59)
    (hc0 : isASCIIAlphanumeric c0 = true) (rest : Str) :
    Reach 2 (refA1 m self) ((c0 :: k') ++ rest) (scr (m.appendAttrValue v) self self v m.characterReferenceCode) rest := by
  have hl := longestNamedReference_semicolon hm hlast rest
  have s1 := step_refA_alnum m self c0 (k' ++ rest) hc0
  have s2 := step_refA_named m self hself (c0 :: k') v rest hl hlast
  exact (Reach.single (m := refA1 m self) hd s1).trans (Reach.single (by exact hd) s2)

theorem quot_mem : (([113, 117, 111, 116, 59] : Str), ([34] : Str)) ∈ entities := by decide +kernel

/-- `&#39;` inside an attribute value: seven passes (character reference → numeric → decimal start → decimal ×3 →
numeric end) append `'` to the current attribute's value, no parse error. -/
theorem reach_refA_39 (m : M) (hd : m.done = false) (self : State) (hself : isAttrRet self = true) (rest : Str) :
    Reach 7 (refA1 m self) (35 :: 51 :: 57 :: 59 :: rest) (scr (m.appendAttrValue [39]) self self [39] 39) rest := by
  have s1 : Tokenizer.step (refA1 m self) (35 :: 51 :: 57 :: 59 :: rest) =
      (scr m .numericCharacterReference self [38, 35] m.characterReferenceCode, 51 :: 57 :: 59 :: rest) := by
    simp [Tokenizer.step, refA1, scr, characterReferenceState, M.switchTo, isASCIIAlphanumeric, isASCIIDigit, isASCIIAlpha,
      isASCIIUpperAlpha, isASCIILowerAlpha]
  have s2 : Tokenizer.step (scr m .numericCharacterReference self [38, 35] m.characterReferenceCode)
      (51 :: 57 :: 59 :: rest) = (scr m .decimalCharacterReferenceStart self [38, 35] 0, 51 :: 57 :: 59 :: rest) := by
    simp [Tokenizer.step, scr, numericCharacterReferenceState, M.switchTo]
  have s3 : Tokenizer.step (scr m .decimalCharacterReferenceStart self [38, 35] 0) (51 :: 57 :: 59 :: rest) =
      (scr m .decimalCharacterReference self [38, 35] 0, 51 :: 57 :: 59 :: rest) := by
    simp [Tokenizer.step, scr, decimalCharacterReferenceStartState, M.switchTo, isASCIIDigit]
  have s4 : Tokenizer.step (scr m .decimalCharacterReference self [38, 35] 0) (51 :: 57 :: 59 :: rest) =
      (scr m .decimalCharacterReference self [38, 35] 3, 57 :: 59 :: rest) := by
    simp [Tokenizer.step, scr, decimalCharacterReferenceState, isASCIIDigit]
  have s5 : Tokenizer.step (scr m .decimalCharacterReference self [38, 35] 3) (57 :: 59 :: rest) =
      (scr m .decimalCharacterReference self [38, 35] 39, 59 :: rest) := by
    simp [Tokenizer.step, scr, decimalCharacterReferenceState, isASCIIDigit]
  have s6 : Tokenizer.step (scr m .decimalCharacterReference self [38, 35] 39) (59 :: rest) =
      (scr m .numericCharacterReferenceEnd self [38, 35] 39, rest) := by
    simp [Tokenizer.step, scr, decimalCharacterReferenceState, isASCIIDigit, M.switchTo]
  have nr : numericRef 39 = (39, none) := by decide
  have s7 : Tokenizer.step (scr m .numericCharacterReferenceEnd self [38, 35] 39) rest =
      (scr (m.appendAttrValue [39]) self self [39] 39, rest) := by
    rw [Tokenizer.step]
    show numericCharacterReferenceEndState _ _ = _
    unfold numericCharacterReferenceEndState
    simp only [scr, nr]
    simp [consumed_eq, hself, M.flushCodePoints, M.switchTo, M.appendAttrValue]
  have r1 := Reach.single (m := refA1 m self) hd s1
  have r2 := r1.trans (Reach.single (by exact hd) s2)
  have r3 := r2.trans (Reach.single (by exact hd) s3)
  have r4 := r3.trans (Reach.single (by exact hd) s4)
  have r5 := r4.trans (Reach.single (by exact hd) s5)
  have r6 := r5.trans (Reach.single (by exact hd) s6)
  exact r6.trans (Reach.single (by exact hd) s7)

/-! ### Model side: what `attrOut` writes for a quoted value -/

/-- what the serializer writes for one character of a value quoted with `q` (`lt` = `escape_lt_in_attrs`) -/
def escAttr (lt : Bool) (q : Nat) (c : Nat) : Str :=
  if c = 38 then [38, 97, 109, 112, 59]                              -- &amp;
  else if c = 60 ∧ lt = true then [38, 108, 116, 59]                 -- &lt;
  else if q = 39 then (if c = 39 then [38, 35, 51, 57, 59] else [c]) -- &#39;
  else (if c = 34 then [38, 113, 117, 111, 116, 59] else [c])        -- &quot;

/-- the quote character `attrOut` chooses (serializer.py: `use_best_quote_char`) -/
def chooseQuote (o : Opts) (v : Str) : Nat :=
  if o.useBestQuoteChar then
    if v.elem 39 && !v.elem 34 then 34
    else if v.elem 34 && !v.elem 39 then 39
    else o.quoteChar
  else o.quoteChar

/-- the value as written between the quotes -/
def quotedBody (o : Opts) (v : Str) : Str := v.flatMap (escAttr o.escapeLtInAttrs (chooseQuote o v))

/-- `attrOut` quotes (`quote_attr_values="always"`, an empty value, or a character of the quoting class) -/
def quotes (o : Opts) (v : Str) : Bool :=
  if o.quoteAttrValues = .always || v.isEmpty then true
  else if o.quoteAttrValues = .spec then v.any (inRanges quoteAttributeSpec)
  else v.any (inRanges quoteAttributeLegacy)

/-- the attribute is written without a value (`minimize_boolean_attributes`) -/
def minimized (o : Opts) (tag : Str) (a : Attr) : Bool :=
  o.minimizeBooleanAttributes && ((booleanFor tag).elem a.name || (booleanFor []).elem a.name)

theorem elem_replaceChar_iff (v : Str) (o : Nat) (n : Str) (c : Nat) (hc : c ≠ o) (hn : c ∉ n) :
    (v.replaceChar o n).elem c = v.elem c := by
  have : c ∈ v.replaceChar o n ↔ c ∈ v := by
    rw [mem_replaceChar]
    constructor
    · rintro (⟨h, _⟩ | ⟨_, h⟩)
      · exact h
      · exact absurd h hn
    · intro h; exact Or.inl ⟨h, hc⟩
  simp only [List.elem_eq_mem]
  exact decide_eq_decide.mpr this

theorem replaceChar_eq_flatMap (v : Str) (o : Nat) (n : Str) : v.replaceChar o n = v.flatMap fun c => if c = o then n else [c] := rfl

theorem flatMap_flatMap_char (v : Str) (f g : Nat → Str) : (v.flatMap f).flatMap g = v.flatMap fun c => (f c).flatMap g := by
  induction v with
  | nil => rfl
  | cons c v ih => simp [List.flatMap_cons, List.flatMap_append, ih]

/-- the three successive `replace` calls of `attrOut` are one character-by-character substitution -/
theorem replace3_eq (lt : Bool) (q : Nat) (v : Str) :
    (let v1 := v.replaceChar 38 (lit "&amp;")
     let v2 := if lt then v1.replaceChar 60 (lit "&lt;") else v1
     if q = 39 then v2.replaceChar 39 (lit "&#39;") else v2.replaceChar 34 (lit "&quot;")) = v.flatMap (escAttr lt q) := by
  have e1 : (lit "&amp;") = [38, 97, 109, 112, 59] := by decide
  have e2 : (lit "&lt;") = [38, 108, 116, 59] := by decide
  have e3 : (lit "&#39;") = [38, 35, 51, 57, 59] := by decide
  have e4 : (lit "&quot;") = [38, 113, 117, 111, 116, 59] := by decide
  simp only [e1, e2, e3, e4]
  cases lt <;> by_cases hq : q = 39 <;> simp only [hq, if_true, if_false, Bool.false_eq_true, replaceChar_eq_flatMap,
      flatMap_flatMap_char] <;> congr 1 <;> funext c <;>
    by_cases h1 : c = 38 <;> by_cases h2 : c = 60 <;> by_cases h3 : c = 39 <;> by_cases h4 : c = 34 <;>
      simp_all [escAttr]

/-- **Model.** a non-minimised attribute whose value is quoted: ` name="…"` with the chosen quote character
and the character-by-character escaping `escAttr` -/
theorem attrOut_quoted (o : Opts) (tag : Str) (a : Attr) (hmin : minimized o tag a = false)
    (hq : quotes o a.value = true) :
    attrOut o tag a = ([32] ++ a.name ++ [61] ++ [chooseQuote o a.value] ++ quotedBody o a.value ++ [chooseQuote o a.value], false) := by
  have hm : (!o.minimizeBooleanAttributes || (!(booleanFor tag).elem a.name && !(booleanFor []).elem a.name)) = true := by
    simp only [minimized] at hmin
    cases h1 : o.minimizeBooleanAttributes <;> cases h2 : (booleanFor tag).elem a.name <;>
      cases h3 : (booleanFor []).elem a.name <;> simp_all
  have r := replace3_eq o.escapeLtInAttrs (chooseQuote o a.value) a.value
  simp only [] at r
  have hel : ∀ c, c = 39 ∨ c = 34 →
      (if o.escapeLtInAttrs = true then (a.value.replaceChar 38 (lit "&amp;")).replaceChar 60 (lit "&lt;")
       else a.value.replaceChar 38 (lit "&amp;")).elem c = a.value.elem c := by
    intro c hc
    have n1 : c ∉ (lit "&amp;") := by rcases hc with h | h <;> subst h <;> decide
    have n2 : c ∉ (lit "&lt;") := by rcases hc with h | h <;> subst h <;> decide
    have c1 : c ≠ 38 := by rcases hc with h | h <;> subst h <;> decide
    have c2 : c ≠ 60 := by rcases hc with h | h <;> subst h <;> decide
    split
    · rw [elem_replaceChar_iff _ _ _ _ c2 n2, elem_replaceChar_iff _ _ _ _ c1 n1]
    · rw [elem_replaceChar_iff _ _ _ _ c1 n1]
  unfold attrOut
  simp only [hm, if_true]
  unfold quotes at hq
  simp only [hq, if_true]
  simp only [hel 39 (Or.inl rfl), hel 34 (Or.inr rfl)]
  unfold quotedBody
  rw [← r]
  simp only [chooseQuote]
  rfl

/-! ### Spec side: the walk over a quoted value -/

@[simp] theorem appendAttrValue_state (m : M) (v : Str) : (m.appendAttrValue v).state = m.state := rfl
@[simp] theorem appendAttrValue_done (m : M) (v : Str) : (m.appendAttrValue v).done = m.done := rfl
@[simp] theorem appendAttrValue_out (m : M) (v : Str) : (m.appendAttrValue v).out = m.out := rfl

/-- the attribute value state that a value quoted with `q` is read in -/
def qState (q : Nat) : State := if q = 39 then .attributeValueSingleQuoted else .attributeValueDoubleQuoted

theorem qState_attrRet (q : Nat) : isAttrRet (qState q) = true := by
  unfold qState; split <;> decide

theorem step_qState (q : Nat) (hq : q = 34 ∨ q = 39) (m : M) (hs : m.state = qState q) (i : Str) :
    Tokenizer.step m i = attributeValueQuotedGeneric q (qState q) m i := by
  rcases hq with h | h <;> subst h <;> simp only [qState] at hs ⊢ <;>
    simp [Tokenizer.step, hs, attributeValueDoubleQuotedState, attributeValueSingleQuotedState]

theorem step_q_plain (q : Nat) (hq : q = 34 ∨ q = 39) (m : M) (hs : m.state = qState q) (c : Nat) (rest : Str)
    (h1 : c ≠ q) (h2 : c ≠ 38) (h3 : c ≠ 0) : Tokenizer.step m (c :: rest) = (m.appendAttrValue [c], rest) := by
  rw [step_qState q hq m hs]
  simp [attributeValueQuotedGeneric, h1, h2, h3]

theorem step_q_amp (q : Nat) (hq : q = 34 ∨ q = 39) (m : M) (hs : m.state = qState q) (rest : Str) :
    Tokenizer.step m (38 :: rest) = (refA1 m (qState q), rest) := by
  rw [step_qState q hq m hs]
  have : (38 : Nat) ≠ q := by omega
  simp [attributeValueQuotedGeneric, this, refA1, M.switchTo]

theorem step_q_close (q : Nat) (hq : q = 34 ∨ q = 39) (m : M) (hs : m.state = qState q) (rest : Str) :
    Tokenizer.step m (q :: rest) = (m.switchTo .afterAttributeValueQuoted, rest) := by
  rw [step_qState q hq m hs]
  simp [attributeValueQuotedGeneric]

/-- one more character of the value: compose its walk with the walk over the remaining characters -/
theorem walk_cons (m : M) (c : Nat) (v e X rest : Str) (self : State)
    (h1 : ∃ rs tb code, ReachLe (3 * e.length) m (e ++ (X ++ rest)) (scr (m.appendAttrValue [c]) self rs tb code) (X ++ rest))
    (ih : ∀ m' : M, m'.state = self → m'.done = false →
      ∃ rs tb code, ReachLe (3 * X.length) m' (X ++ rest) (scr (m'.appendAttrValue v) self rs tb code) rest)
    (hd : m.done = false) :
    ∃ rs tb code, ReachLe (3 * (e ++ X).length) m ((e ++ X) ++ rest) (scr (m.appendAttrValue (c :: v)) self rs tb code) rest := by
  obtain ⟨rs, tb, code, r1⟩ := h1
  obtain ⟨rs2, tb2, code2, r2⟩ := ih (scr (m.appendAttrValue [c]) self rs tb code) rfl hd
  refine ⟨rs2, tb2, code2, ?_⟩
  rw [scr_appendAttrValue, scr_scr, appendAttrValue_append] at r2
  rw [List.append_assoc]
  exact (r1.trans r2).mono (by simp [List.length_append]; omega)

/-- a named reference `&name;` for the character `c`, written where the machine is in the attribute value state `self` -/
theorem walk_named (m : M) (hd : m.done = false) (self : State) (hself : isAttrRet self = true)
    (hamp : ∀ r, Tokenizer.step m (38 :: r) = (refA1 m self, r))
    {c0 : Nat} {k' : Str} {c : Nat} (hm : (c0 :: k', [c]) ∈ entities) (hlast : (c0 :: k').getLast? = some 59)
    (hc0 : isASCIIAlphanumeric c0 = true) (Y : Str) :
    ∃ rs tb code, ReachLe (3 * (38 :: c0 :: k').length) m ((38 :: c0 :: k') ++ Y) (scr (m.appendAttrValue [c]) self rs tb code) Y := by
  refine ⟨self, [c], m.characterReferenceCode, ?_⟩
  have r1 := Reach.single hd (hamp ((c0 :: k') ++ Y))
  have r2 := r1.trans (reach_refA_named m hd self hself hm hlast hc0 Y)
  exact ⟨_, by simp only [List.length_cons]; omega, r2⟩

/-- **C08c (quoted value, spec side).** the standard's tokenizer in the attribute value (`q`-quoted) state walks over
the escaped value and appends exactly the characters of `v` to the current attribute's value; no parse error. -/
theorem reach_quoted_body (lt : Bool) (q : Nat) (hq : q = 34 ∨ q = 39) : ∀ (v : Str), (∀ c ∈ v, c ≠ 0) →
    ∀ (m : M), m.state = qState q → m.done = false → ∀ (rest : Str),
    ∃ rs tb code, ReachLe (3 * (v.flatMap (escAttr lt q)).length) m (v.flatMap (escAttr lt q) ++ rest)
      (scr (m.appendAttrValue v) (qState q) rs tb code) rest := by
  intro v
  induction v with
  | nil =>
    intro _ m hs _ rest
    refine ⟨m.returnState, m.temporaryBuffer, m.characterReferenceCode, ?_⟩
    rw [appendAttrValue_nil, ← hs, scr_self]
    exact ReachLe.refl m rest
  | cons c v ih =>
    intro h0 m hs hd rest
    have hc0 : c ≠ 0 := h0 c (by simp)
    have ih2 := fun (m' : M) (a : m'.state = qState q) (b : m'.done = false) =>
      ih (fun d hd' => h0 d (List.mem_cons_of_mem _ hd')) m' a b rest
    rw [List.flatMap_cons]
    have hamp := step_q_amp q hq m hs
    by_cases h1 : c = 38
    · subst h1
      have e : escAttr lt q 38 = 38 :: 97 :: [109, 112, 59] := by simp [escAttr]
      rw [e]
      exact walk_cons m 38 v _ _ rest _
        (walk_named m hd _ (qState_attrRet q) hamp amp_mem (by decide) (by decide) _) ih2 hd
    · by_cases h2 : c = 60 ∧ lt = true
      · obtain ⟨h2, h2b⟩ := h2
        subst h2
        have e : escAttr lt q 60 = 38 :: 108 :: [116, 59] := by simp [escAttr, h2b]
        rw [e]
        exact walk_cons m 60 v _ _ rest _
          (walk_named m hd _ (qState_attrRet q) hamp lt_mem (by decide) (by decide) _) ih2 hd
      · by_cases h3 : c = q
        · subst h3
          rcases hq with hq | hq
          · -- `"` in a double-quoted value: &quot;
            have e : escAttr lt c c = 38 :: 113 :: [117, 111, 116, 59] := by subst hq; simp [escAttr]
            rw [e]
            have hm : ((113 :: [117, 111, 116, 59] : Str), [c]) ∈ entities := by subst hq; exact quot_mem
            exact walk_cons m c v _ _ rest _
              (walk_named m hd _ (qState_attrRet c) hamp hm (by decide) (by decide) _) ih2 hd
          · -- `'` in a single-quoted value: &#39;
            have e : escAttr lt c c = 38 :: [35, 51, 57, 59] := by subst hq; simp [escAttr]
            rw [e]
            refine walk_cons m c v _ _ rest _ ?_ ih2 hd
            refine ⟨qState c, [39], 39, ?_⟩
            have r1 := Reach.single hd (hamp ([35, 51, 57, 59] ++ (v.flatMap (escAttr lt c) ++ rest)))
            have r2 := r1.trans (reach_refA_39 m hd _ (qState_attrRet c) (v.flatMap (escAttr lt c) ++ rest))
            subst hq
            exact ⟨_, by simp, r2⟩
        · have e : escAttr lt q c = [c] := by
            rcases hq with hq | hq <;> subst hq <;> simp only [escAttr] <;> simp_all
          rw [e]
          refine walk_cons m c v _ _ rest _ ?_ ih2 hd
          refine ⟨m.returnState, m.temporaryBuffer, m.characterReferenceCode, ?_⟩
          have r1 := ReachLe.single hd (step_q_plain q hq m hs c (v.flatMap (escAttr lt q) ++ rest) h3 h1 hc0)
          have es : scr (m.appendAttrValue [c]) (qState q) m.returnState m.temporaryBuffer m.characterReferenceCode
              = m.appendAttrValue [c] := by rw [← hs]; rfl
          rw [es]
          exact r1.mono (by simp)

/-! ### Theorem 1: the quoted form -/

/-- no NUL (the tokenizer reports it and substitutes U+FFFD) and no CR (the tokenizer's input is newline-normalised) -/
def valueOK (v : Str) : Bool := v.all fun c => c != 0 && c != 13

/-- `quote_char` is one of the two quote characters of HTML -/
def quoteCharOK (o : Opts) : Bool := o.quoteChar == 34 || o.quoteChar == 39

theorem valueOK_ne0 {v : Str} (h : valueOK v = true) : ∀ c ∈ v, c ≠ 0 := by
  intro c hc
  simp only [valueOK, List.all_eq_true] at h
  have := h c hc
  simp at this
  exact this.1

theorem chooseQuote_ok (o : Opts) (v : Str) (h : quoteCharOK o = true) : chooseQuote o v = 34 ∨ chooseQuote o v = 39 := by
  have h2 : o.quoteChar = 34 ∨ o.quoteChar = 39 := by simpa [quoteCharOK] using h
  unfold chooseQuote
  repeat' split
  all_goals simp_all

/-- **C08c (1) — quoted attribute value round trip.**  For every value `v` without NUL (and CR), whatever the
options (`quote_char` ∈ {`"`, `'`}, `use_best_quote_char`, `escape_lt_in_attrs`), the value as the serializer
model writes it between quotes (`quotedBody`: `&`→`&amp;`, the quote character → `&quot;` / `&#39;`, optionally
`<`→`&lt;`), followed by the closing quote, takes the standard's tokenizer from the attribute value (double- or
single-quoted) state to the after attribute value (quoted) state, having appended exactly `v` to the current
attribute's value: no parse error, no other change to the machine apart from the scratch registers of the
character-reference states, within `3 · length` passes. -/
theorem C08_attr_value_roundtrip (o : Opts) (v : Str) (hq : quoteCharOK o = true) (hv : valueOK v = true)
    (m : M) (hs : m.state = qState (chooseQuote o v)) (hd : m.done = false) (rest : Str) :
    ∃ rs tb code, ReachLe (3 * (quotedBody o v ++ [chooseQuote o v]).length) m
      (quotedBody o v ++ [chooseQuote o v] ++ rest)
      (scr (m.appendAttrValue v) .afterAttributeValueQuoted rs tb code) rest := by
  have hq2 := chooseQuote_ok o v hq
  obtain ⟨rs, tb, code, r⟩ := reach_quoted_body o.escapeLtInAttrs (chooseQuote o v) hq2 v (valueOK_ne0 hv) m hs hd
    ([chooseQuote o v] ++ rest)
  refine ⟨rs, tb, code, ?_⟩
  have r2 := ReachLe.single (m := scr (m.appendAttrValue v) (qState (chooseQuote o v)) rs tb code) hd
    (step_q_close (chooseQuote o v) hq2 _ rfl rest)
  rw [List.append_assoc]
  exact (r.trans r2).mono (by simp [quotedBody]; omega)

/-- the current attribute after the walk: its value is `v` (when it was empty before, as after `name=`) -/
theorem appendAttrValue_attrs (m : M) (pre : List Attribute) (n v : Str) (h : m.tag.attributes = pre ++ [{ name := n, value := [] }]) :
    (m.appendAttrValue v).tag.attributes = pre ++ [{ name := n, value := v }] := by
  simp [M.appendAttrValue, h, modifyLast_append_singleton]

/-! ### Theorem 2: the unquoted form -/

/-- the value as written without quotes -/
def unquotedBody (v : Str) : Str := v.replaceChar 38 [38, 97, 109, 112, 59]

theorem spec_class (c : Nat) (h : inRanges quoteAttributeSpec c = false) :
    c ≠ 9 ∧ c ≠ 10 ∧ c ≠ 12 ∧ c ≠ 13 ∧ c ≠ 32 ∧ c ≠ 34 ∧ c ≠ 39 ∧ c ≠ 60 ∧ c ≠ 61 ∧ c ≠ 62 ∧ c ≠ 96 := by
  simp [inRanges, quoteAttributeSpec] at h
  omega

theorem legacy_superset (c : Nat) (h : inRanges quoteAttributeLegacy c = false) : inRanges quoteAttributeSpec c = false := by
  simp [inRanges, quoteAttributeLegacy] at h
  simp [inRanges, quoteAttributeSpec]
  omega

theorem step_unq (m : M) (hs : m.state = .attributeValueUnquoted) (i : Str) :
    Tokenizer.step m i = attributeValueUnquotedState m i := by
  simp [Tokenizer.step, hs]

theorem step_unq_plain (m : M) (hs : m.state = .attributeValueUnquoted) (c : Nat) (rest : Str)
    (h : inRanges quoteAttributeSpec c = false) (h2 : c ≠ 38) (h3 : c ≠ 0) :
    Tokenizer.step m (c :: rest) = (m.appendAttrValue [c], rest) := by
  have := spec_class c h
  rw [step_unq m hs]
  simp [attributeValueUnquotedState, isWhitespace, h2, h3, this]

theorem step_unq_amp (m : M) (hs : m.state = .attributeValueUnquoted) (rest : Str) :
    Tokenizer.step m (38 :: rest) = (refA1 m .attributeValueUnquoted, rest) := by
  rw [step_unq m hs]
  simp [attributeValueUnquotedState, isWhitespace, refA1, M.switchTo]

/-- **C08c (unquoted value, spec side).** -/
theorem reach_unquoted_body : ∀ (v : Str), (∀ c ∈ v, c ≠ 0 ∧ inRanges quoteAttributeSpec c = false) →
    ∀ (m : M), m.state = .attributeValueUnquoted → m.done = false → ∀ (rest : Str),
    ∃ rs tb code, ReachLe (3 * (unquotedBody v).length) m (unquotedBody v ++ rest)
      (scr (m.appendAttrValue v) .attributeValueUnquoted rs tb code) rest := by
  intro v
  induction v with
  | nil =>
    intro _ m hs _ rest
    refine ⟨m.returnState, m.temporaryBuffer, m.characterReferenceCode, ?_⟩
    rw [appendAttrValue_nil, ← hs, scr_self]
    exact ReachLe.refl m rest
  | cons c v ih =>
    intro h0 m hs hd rest
    obtain ⟨hc0, hcl⟩ := h0 c (by simp)
    have ih2 := fun (m' : M) (a : m'.state = .attributeValueUnquoted) (b : m'.done = false) =>
      ih (fun d hd' => h0 d (List.mem_cons_of_mem _ hd')) m' a b rest
    unfold unquotedBody at ih2 ⊢
    rw [replaceChar_cons]
    by_cases h1 : c = 38
    · subst h1
      simp only [if_true]
      exact walk_cons m 38 v _ _ rest _
        (walk_named m hd _ (by decide) (step_unq_amp m hs) amp_mem (by decide) (by decide) _) ih2 hd
    · simp only [h1, if_false]
      refine walk_cons m c v _ _ rest _ ?_ ih2 hd
      refine ⟨m.returnState, m.temporaryBuffer, m.characterReferenceCode, ?_⟩
      have r1 := ReachLe.single hd (step_unq_plain m hs c (Str.replaceChar v 38 [38, 97, 109, 112, 59] ++ rest) hcl h1 hc0)
      have es : scr (m.appendAttrValue [c]) .attributeValueUnquoted m.returnState m.temporaryBuffer m.characterReferenceCode
          = m.appendAttrValue [c] := by rw [← hs]; rfl
      rw [es]
      exact r1.mono (by simp)

theorem replaceChar_of_not_mem (v : Str) (o : Nat) (n : Str) (h : o ∉ v) : v.replaceChar o n = v := by
  induction v with
  | nil => rfl
  | cons x xs ih =>
    rw [replaceChar_cons]
    have hx : x ≠ o := fun e => h (by simp [e])
    rw [ih (fun hm => h (List.mem_cons_of_mem _ hm))]
    simp [hx]

/-- when `attrOut` does not quote, no character of the value is in the (spec) quoting class, and the value is not empty -/
theorem quotes_false (o : Opts) (v : Str) (h : quotes o v = false) :
    (∀ c ∈ v, inRanges quoteAttributeSpec c = false) ∧ v ≠ [] ∧ o.quoteAttrValues ≠ .always := by
  unfold quotes at h
  by_cases h1 : (o.quoteAttrValues = .always || v.isEmpty) = true
  · simp [h1] at h
  · simp only [h1] at h
    simp only [Bool.or_eq_true, decide_eq_true_eq, not_or] at h1
    refine ⟨?_, by simpa using h1.2, h1.1⟩
    by_cases hs : o.quoteAttrValues = .spec
    · simp only [hs, if_true] at h
      intro c hc
      cases hcc : inRanges quoteAttributeSpec c with
      | false => rfl
      | true =>
        have : v.any (inRanges quoteAttributeSpec) = true := List.any_eq_true.mpr ⟨c, hc, hcc⟩
        simp [this] at h
    · simp only [hs, if_false] at h
      intro c hc
      apply legacy_superset
      cases hcc : inRanges quoteAttributeLegacy c with
      | false => rfl
      | true =>
        have : v.any (inRanges quoteAttributeLegacy) = true := List.any_eq_true.mpr ⟨c, hc, hcc⟩
        simp [this] at h

/-- **Model.** `attrOut` reports "unquoted" exactly when the attribute is not minimised and `quotes` is false; it then
writes ` name=` and the value with `&` → `&amp;` -/
theorem attrOut_unquoted (o : Opts) (tag : Str) (a : Attr) (hmin : minimized o tag a = false)
    (hq : quotes o a.value = false) :
    attrOut o tag a = ([32] ++ a.name ++ [61] ++ unquotedBody a.value, true) := by
  have hm : (!o.minimizeBooleanAttributes || (!(booleanFor tag).elem a.name && !(booleanFor []).elem a.name)) = true := by
    simp only [minimized] at hmin
    cases h1 : o.minimizeBooleanAttributes <;> cases h2 : (booleanFor tag).elem a.name <;>
      cases h3 : (booleanFor []).elem a.name <;> simp_all
  have h60 : 60 ∉ a.value := fun hmem => by
    have := (quotes_false o a.value hq).1 60 hmem
    revert this; decide
  have h60b : 60 ∉ a.value.replaceChar 38 (lit "&amp;") := by
    intro hmem
    rw [mem_replaceChar] at hmem
    rcases hmem with ⟨h, _⟩ | ⟨_, h⟩
    · exact h60 h
    · revert h; decide
  unfold attrOut
  simp only [hm, if_true]
  unfold quotes at hq
  simp only [hq]
  have e1 : (lit "&amp;") = [38, 97, 109, 112, 59] := by decide
  cases hl : o.escapeLtInAttrs
  · simp [unquotedBody, e1]
  · simp only [if_true]
    rw [replaceChar_of_not_mem _ 60 _ h60b]
    simp [unquotedBody, e1]

theorem attrOut_minimized (o : Opts) (tag : Str) (a : Attr) (hmin : minimized o tag a = true) :
    attrOut o tag a = ([32] ++ a.name, false) := by
  have hm : (!o.minimizeBooleanAttributes || (!(booleanFor tag).elem a.name && !(booleanFor []).elem a.name)) = false := by
    simp only [minimized] at hmin
    cases h1 : o.minimizeBooleanAttributes <;> cases h2 : (booleanFor tag).elem a.name <;>
      cases h3 : (booleanFor []).elem a.name <;> simp_all
  unfold attrOut
  simp only [hm, Bool.false_eq_true, if_false]

theorem attrOut_snd (o : Opts) (tag : Str) (a : Attr) :
    (attrOut o tag a).2 = (!minimized o tag a && !quotes o a.value) := by
  cases hmin : minimized o tag a
  · cases hq : quotes o a.value
    · rw [attrOut_unquoted o tag a hmin hq]; rfl
    · rw [attrOut_quoted o tag a hmin hq]; rfl
  · rw [attrOut_minimized o tag a hmin]; rfl

/-- **C08c (2) — unquoted attribute value round trip.**  When the model writes the value unquoted
(`(attrOut o tag a).2 = true`) and the value has no NUL, what it writes after ` name=` is `unquotedBody v`
(only `&` is escaped), it is not empty and does not start with whitespace, a quote or `>` (so the before
attribute value state hands over to the unquoted state on its first character), and the standard's tokenizer in
the attribute value (unquoted) state appends exactly `v` to the current attribute's value over it, without a parse
error; the value then ends at the following whitespace (→ before attribute name state) or `>` (→ the tag token is
emitted). -/
theorem C08_unquoted_value_roundtrip (o : Opts) (tag : Str) (a : Attr) (hu : (attrOut o tag a).2 = true)
    (hv : valueOK a.value = true) :
    (attrOut o tag a).1 = [32] ++ a.name ++ [61] ++ unquotedBody a.value ∧
    (∃ c r, unquotedBody a.value = c :: r ∧ isWhitespace c = false ∧ c ≠ 34 ∧ c ≠ 39 ∧ c ≠ 62) ∧
    ∀ (m : M), m.state = .attributeValueUnquoted → m.done = false → ∀ (rest : Str),
      ∃ rs tb code, ReachLe (3 * (unquotedBody a.value).length) m (unquotedBody a.value ++ rest)
        (scr (m.appendAttrValue a.value) .attributeValueUnquoted rs tb code) rest ∧
        Tokenizer.step (scr (m.appendAttrValue a.value) .attributeValueUnquoted rs tb code) (32 :: rest)
          = (scr (m.appendAttrValue a.value) .beforeAttributeName rs tb code, rest) ∧
        Tokenizer.step (scr (m.appendAttrValue a.value) .attributeValueUnquoted rs tb code) (62 :: rest)
          = ((scr (m.appendAttrValue a.value) .data rs tb code).emitTag, rest) := by
  rw [attrOut_snd] at hu
  have hmin : minimized o tag a = false := by cases h : minimized o tag a <;> simp_all
  have hq : quotes o a.value = false := by cases h : quotes o a.value <;> simp_all
  obtain ⟨hcls, hne, _⟩ := quotes_false o a.value hq
  refine ⟨by rw [attrOut_unquoted o tag a hmin hq], ?_, ?_⟩
  · cases hval : a.value with
    | nil => exact absurd hval hne
    | cons c r =>
      have hc := spec_class c (hcls c (by simp [hval]))
      unfold unquotedBody
      rw [replaceChar_cons]
      by_cases h38 : c = 38
      · subst h38
        exact ⟨38, _, rfl, by decide, by decide, by decide, by decide⟩
      · refine ⟨c, Str.replaceChar r 38 [38, 97, 109, 112, 59], by simp [h38], ?_, hc.2.2.2.2.2.1, hc.2.2.2.2.2.2.1, hc.2.2.2.2.2.2.2.2.2.1⟩
        simp [isWhitespace]; omega
  · intro m hs hd rest
    obtain ⟨rs, tb, code, r⟩ := reach_unquoted_body a.value
      (fun c hc => ⟨valueOK_ne0 hv c hc, hcls c hc⟩) m hs hd rest
    refine ⟨rs, tb, code, r, ?_, ?_⟩
    · rw [step_unq _ rfl]
      simp [attributeValueUnquotedState, isWhitespace, M.switchTo, scr]
    · rw [step_unq _ rfl]
      simp [attributeValueUnquotedState, isWhitespace, M.switchTo, scr]

/-! ### Non-vacuity, and necessity of the hypotheses -/

/-- a machine inside `<a b=` in attribute-value state `s` -/
def exM (s : State) : M := { state := s, tag := { name := [97], attributes := [{ name := [98], value := [] }] } }

-- value `x&"'<`: default options choose `"` and write `x&amp;&quot;'<`; it is read back
example : valueOK [120, 38, 34, 39, 60] = true ∧ quoteCharOK {} = true ∧ chooseQuote {} [120, 38, 34, 39, 60] = 34 ∧
    quotedBody {} [120, 38, 34, 39, 60] = [120, 38, 97, 109, 112, 59, 38, 113, 117, 111, 116, 59, 39, 60] := by decide
example : (run 200 (exM (qState 34)) (quotedBody {} [120, 38, 34, 39, 60] ++ [34] ++ [62]) 0).map (·.1)
    = .ok [.startTag [97] [([98], [120, 38, 34, 39, 60])] false] := by decide +kernel
-- with `quote_char="'"` and `escape_lt_in_attrs`: `x&amp;"&#39;&lt;` (numeric reference), read back
example : quotedBody { quoteChar := 39, escapeLtInAttrs := true } [120, 38, 34, 39, 60]
    = [120, 38, 97, 109, 112, 59, 34, 38, 35, 51, 57, 59, 38, 108, 116, 59] := by decide
example : (run 200 (exM (qState 39))
    (quotedBody { quoteChar := 39, escapeLtInAttrs := true } [120, 38, 34, 39, 60] ++ [39] ++ [62]) 0).map (·.1)
    = .ok [.startTag [97] [([98], [120, 38, 34, 39, 60])] false] := by decide +kernel
-- `valueOK` is needed: a NUL is reported and replaced by U+FFFD
example : (run 200 (exM (qState 34)) (quotedBody {} [0] ++ [34] ++ [62]) 0).map (·.1)
    ≠ .ok [.startTag [97] [([98], [0])] false] := by decide +kernel
-- (`quoteCharOK` is needed: see `quote_char = "A"` in H5.Props.C08cTag)

-- unquoted: `c&d` is written ` b=c&amp;d` and read back
example : attrOut {} [97] ⟨none, [98], [99, 38, 100]⟩ = ([32, 98, 61, 99, 38, 97, 109, 112, 59, 100], true) := by decide
example : (run 200 (exM .attributeValueUnquoted) (unquotedBody [99, 38, 100] ++ [62]) 0).map (·.1)
    = .ok [.startTag [97] [([98], [99, 38, 100])] false] := by decide +kernel
-- `valueOK` is needed for the unquoted form too: with `quote_attr_values="spec"` a NUL is written unquoted
example : attrOut { quoteAttrValues := .spec } [97] ⟨none, [98], [0]⟩ = ([32, 98, 61, 0], true) := by decide
example : (run 200 (exM .attributeValueUnquoted) (unquotedBody [0] ++ [62]) 0).map (·.1)
    ≠ .ok [.startTag [97] [([98], [0])] false] := by decide +kernel

end H5.Props.C08c
