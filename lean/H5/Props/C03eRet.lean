/-
  C03e — `InBodyPhase.endTagP` / `startTagCloseP` (mutually recursive in the model) never hand their token back.
-/
import H5.Props.C03d
set_option linter.unusedVariables false
namespace H5.Props.C03e
open H5 H5.Model H5.Model.TB H5.Model.Dom H5.Props.C03d

instance RN_InBody_endTagP_startTagCloseP (depth : Nat) (b : Bool) (tok : Token) :
    RN (InBody_endTagP_startTagCloseP depth b tok) := by
  cases depth with
  | zero => unfold InBody_endTagP_startTagCloseP; infer_instance
  | succ depth =>
    cases b <;> (unfold InBody_endTagP_startTagCloseP; rn_auto)

instance RN_InBody_endTagP (tok : Token) : RN (InBody_endTagP tok) := by
  unfold InBody_endTagP; rn_auto

instance RN_InBody_startTagCloseP (tok : Token) : RN (InBody_startTagCloseP tok) := by
  unfold InBody_startTagCloseP; rn_auto

end H5.Props.C03e
