/-
  Property C07b (tokenizer side), stage 1 — escaped text in the data state (and in the RCDATA state): one pull
  consumes a non-empty prefix of the text and emits it as ONE `Characters` or `SpaceCharacters` token.
-/
import H5.Props.C07bTokTag
import H5.Props.C14b
set_option linter.unusedSimpArgs false
namespace H5.Props.C07b
open H5 H5.Gen H5.Model H5.Model.Tokenizer
open H5.Model.Serializer (escape Opts attrOut)
open H5.Spec.Tokenizer (isWhitespace isASCIILowerAlpha isASCIIUpperAlpha)
open H5.Props.C08c
open H5.Props.C08 (esc1 escape_cons C08_escape_flatMap amp_mem lt_mem gt_mem)

/-! ### Named character references that end in `;` -/

/-- `consumeEntity`'s core on `name;` + anything, for a name that starts with a lower-case letter: exactly the table
value, no parse error, exactly the name consumed -/
theorem consumeEntityCore_named (allowed : Option Nat) (fromAttr : Bool) {c0 : Nat} {k' v : Str} (i : Str)
    (hm : (c0 :: k', v) ∈ entities) (hlast : (c0 :: k').getLast? = some 59) (hc0 : 97 ≤ c0 ∧ c0 ≤ 122)
    (hal : ∀ a, allowed = some a → a < 97) :
    consumeEntityCore allowed fromAttr (c0 :: (k' ++ i)) = .ok (v, [], i) := by
  have h := H5.Props.C14.C14_named_semicolon_entities hm hlast i fromAttr
  have ha : (allowed.isSome && allowed == some c0) = false := by
    cases allowed with
    | none => rfl
    | some a =>
      have := hal a rfl
      have : a ≠ c0 := by omega
      simp [this]
  unfold consumeEntityCore
  have h1 : c0 ≠ 9 ∧ c0 ≠ 10 ∧ c0 ≠ 12 ∧ c0 ≠ 13 ∧ c0 ≠ 32 ∧ c0 ≠ 60 ∧ c0 ≠ 38 ∧ c0 ≠ 35 := by omega
  simp [Stream.char, isIn, mem_spaceCharacters, h1, ha, Ch.lt, Ch.amp, Ch.hash, h]

/-! ### Text -/

/-- the text state: the data state, or (`rc`) the RCDATA state -/
def textState (rc : Bool) : State := if rc then .rcdataState else .dataState
/-- the state in which the reference after `&` is consumed -/
def refState (rc : Bool) : State := if rc then .characterReferenceInRcdata else .entityDataState

theorem step_text_amp (rc : Bool) (i : Str) (cur : Option CurTok) (tb : Option Str) (cd : Bool) :
    step ⟨textState rc, 38 :: i, cur, tb, [], cd⟩ = .ok (true, ⟨refState rc, i, cur, tb, [], cd⟩) := by
  cases rc <;> rfl

/-- the reference of one of `&amp;` `&lt;` `&gt;` in text: one `Characters` token with the character -/
theorem step_text_ref (rc : Bool) {c0 : Nat} {k' : Str} {c : Nat} (i : Str) (hm : (c0 :: k', [c]) ∈ entities)
    (hlast : (c0 :: k').getLast? = some 59) (hc0 : 97 ≤ c0 ∧ c0 ≤ 122) (hc : c ∉ spaceCharacters)
    (cur : Option CurTok) (tb : Option Str) (cd : Bool) :
    step ⟨refState rc, c0 :: (k' ++ i), cur, tb, [], cd⟩
      = .ok (true, ⟨textState rc, i, cur, tb, [.chars [c]], cd⟩) := by
  have h := consumeEntityCore_named none false i hm hlast hc0 (by simp)
  cases rc <;>
    simp [step, refState, textState, entityDataState, characterReferenceInRcdata, consumeEntity, h, bind, Except.bind,
      pure, Except.pure, St.emit, St.to, Tokenizer.ok, hc]

theorem esc1_cases (c : Nat) :
    (c = 38 ∧ esc1 c = [38, 97, 109, 112, 59]) ∨ (c = 60 ∧ esc1 c = [38, 108, 116, 59]) ∨
    (c = 62 ∧ esc1 c = [38, 103, 116, 59]) ∨ (c ≠ 38 ∧ c ≠ 60 ∧ c ≠ 62 ∧ esc1 c = [c]) := by
  by_cases h1 : c = 38
  · subst h1; left; exact ⟨rfl, by decide⟩
  · by_cases h2 : c = 60
    · subst h2; right; left; exact ⟨rfl, by decide⟩
    · by_cases h3 : c = 62
      · subst h3; right; right; left; exact ⟨rfl, by decide⟩
      · right; right; right; exact ⟨h1, h2, h3, by simp [esc1, h1, h2, h3]⟩

theorem valueOK_spec {v : Str} (h : valueOK v = true) : ∀ c ∈ v, c ≠ 0 ∧ c ≠ 13 := by
  intro c hc
  simp only [valueOK, List.all_eq_true] at h
  simpa using h c hc

/-- one call of the text state on a character that is not `&`, `<`, NUL or a space character -/
theorem step_text_chars (rc : Bool) (c : Nat) (h : c ≠ 38 ∧ c ≠ 60 ∧ c ≠ 0 ∧ c ∉ spaceCharacters) (i : Str)
    (cur : Option CurTok) (tb : Option Str) (cd : Bool) :
    step ⟨textState rc, c :: i, cur, tb, [], cd⟩
      = .ok (true, ⟨textState rc, (i.span fun x => ![38, 60, 0].contains x).2, cur, tb,
          [.chars (c :: (i.span fun x => ![38, 60, 0].contains x).1)], cd⟩) := by
  obtain ⟨h1, h2, h3, h4⟩ := h
  rw [mem_spaceCharacters] at h4
  cases rc <;> tok_simp [textState, dataState, rcdataState, h1, h2, h3, h4]

/-- one call of the text state on a space character -/
theorem step_text_space (rc : Bool) (c : Nat) (h : c ∈ spaceCharacters) (i : Str)
    (cur : Option CurTok) (tb : Option Str) (cd : Bool) :
    step ⟨textState rc, c :: i, cur, tb, [], cd⟩
      = .ok (true, ⟨textState rc, (i.span fun x => spaceCharacters.contains x).2, cur, tb,
          [.space (c :: (i.span fun x => spaceCharacters.contains x).1)], cd⟩) := by
  have h' := (mem_spaceCharacters c).mp h
  have h1 : c ≠ 38 ∧ c ≠ 60 ∧ c ≠ 0 := by omega
  cases rc <;> tok_simp [textState, dataState, rcdataState, h1, h']

/-- **one pull of escaped text** (data state or RCDATA state): at most two calls of state methods consume a non-empty
prefix of the text and queue exactly one `Characters` / `SpaceCharacters` token with it -/
theorem text_pull (rc : Bool) (d rest : Str) (hd : d ≠ []) (hok : valueOK d = true)
    (hrest : rest = [] ∨ rest.head? = some 60) (cur : Option CurTok) (tb : Option Str) (cd : Bool) :
    ∃ d1 d2 tok, d = d1 ++ d2 ∧ d1 ≠ [] ∧ (tok = .chars d1 ∨ tok = .space d1) ∧
      StepsLe 2 ⟨textState rc, escape d ++ rest, cur, tb, [], cd⟩
        ⟨textState rc, escape d2 ++ rest, cur, tb, [tok], cd⟩ := by
  cases d with
  | nil => exact absurd rfl hd
  | cons c d' =>
    have hv := valueOK_spec hok
    have hc := hv c (by simp)
    have hv' : ∀ x ∈ d', x ≠ 0 ∧ x ≠ 13 := fun x hx => hv x (List.mem_cons_of_mem _ hx)
    have hrest' : ∀ p : Nat → Bool, p 60 = false → (rest = [] ∨ ∃ x t, rest = x :: t ∧ p x = false) := by
      intro p hp
      rcases hrest with h | h
      · exact Or.inl h
      · cases rest with
        | nil => exact Or.inl rfl
        | cons x t =>
          simp at h
          subst h
          exact Or.inr ⟨60, t, rfl, hp⟩
    rw [escape_cons]
    have ref : ∀ (c0 : Nat) (k' : Str), esc1 c = 38 :: c0 :: k' → (c0 :: k', [c]) ∈ entities →
        (c0 :: k').getLast? = some 59 → 97 ≤ c0 ∧ c0 ≤ 122 → c ∉ spaceCharacters →
        ∃ d1 d2 tok, c :: d' = d1 ++ d2 ∧ d1 ≠ [] ∧ (tok = .chars d1 ∨ tok = .space d1) ∧
          StepsLe 2 ⟨textState rc, esc1 c ++ escape d' ++ rest, cur, tb, [], cd⟩
            ⟨textState rc, escape d2 ++ rest, cur, tb, [tok], cd⟩ := by
      intro c0 k' he hm hl h0 hs
      refine ⟨[c], d', .chars [c], rfl, by simp, Or.inl rfl, ?_⟩
      rw [he]
      have s1 := StepsLe.single rfl (step_text_amp rc (c0 :: k' ++ escape d' ++ rest) cur tb cd)
      have s2 := StepsLe.single rfl (step_text_ref rc (escape d' ++ rest) hm hl h0 hs cur tb cd)
      simp only [List.cons_append, List.append_assoc] at s1 s2 ⊢
      exact s1.trans s2
    rcases esc1_cases c with ⟨rfl, e⟩ | ⟨rfl, e⟩ | ⟨rfl, e⟩ | ⟨n1, n2, n3, e⟩
    · exact ref 97 [109, 112, 59] e amp_mem (by decide) (by decide) (by decide)
    · exact ref 108 [116, 59] e lt_mem (by decide) (by decide) (by decide)
    · exact ref 103 [116, 59] e gt_mem (by decide) (by decide) (by decide)
    · rw [e, C08_escape_flatMap]
      by_cases hs : c ∈ spaceCharacters
      · -- a run of space characters
        have sp := span_flatMap (fun x => spaceCharacters.contains x) (fun x => spaceCharacters.contains x) esc1 rest
          (hrest' _ (by decide)) d'
          (by
            intro x _ hx
            have hx' := (mem_spaceCharacters x).mp (by simpa using hx)
            refine ⟨?_, hx⟩
            rcases esc1_cases x with ⟨rfl, _⟩ | ⟨rfl, _⟩ | ⟨rfl, _⟩ | ⟨_, _, _, e'⟩
            · omega
            · omega
            · omega
            · exact e')
          (by
            intro x _ hx
            rcases esc1_cases x with ⟨rfl, e'⟩ | ⟨rfl, e'⟩ | ⟨rfl, e'⟩ | ⟨_, _, _, e'⟩
            · exact ⟨_, _, e', by decide⟩
            · exact ⟨_, _, e', by decide⟩
            · exact ⟨_, _, e', by decide⟩
            · exact ⟨_, _, e', hx⟩)
        have s1 := step_text_space rc c hs (d'.flatMap esc1 ++ rest) cur tb cd
        rw [sp] at s1
        refine ⟨c :: d'.takeWhile (fun x => spaceCharacters.contains x), d'.dropWhile (fun x => spaceCharacters.contains x),
          .space _, by simp, by simp, Or.inr rfl, ?_⟩
        rw [C08_escape_flatMap]
        exact (StepsLe.single rfl s1).mono (by omega)
      · -- a run of other characters
        have sp := span_flatMap (fun x => ![38, 60, 0].contains x) (fun x => x != 38 && x != 60 && x != 62) esc1 rest
          (hrest' _ (by decide)) d'
          (by
            intro x hx hq
            have h0 := (hv' x hx).1
            simp at hq
            refine ⟨by simp [esc1, hq], by simp [hq, h0]⟩)
          (by
            intro x _ hq
            rcases esc1_cases x with ⟨rfl, e'⟩ | ⟨rfl, e'⟩ | ⟨rfl, e'⟩ | ⟨m1, m2, m3, e'⟩
            · exact ⟨_, _, e', by decide⟩
            · exact ⟨_, _, e', by decide⟩
            · exact ⟨_, _, e', by decide⟩
            · simp [m1, m2, m3] at hq)
        have s1 := step_text_chars rc c ⟨n1, n2, hc.1, hs⟩ (d'.flatMap esc1 ++ rest) cur tb cd
        rw [sp] at s1
        refine ⟨c :: d'.takeWhile (fun x => x != 38 && x != 60 && x != 62),
          d'.dropWhile (fun x => x != 38 && x != 60 && x != 62), .chars _, by simp, by simp, Or.inl rfl, ?_⟩
        rw [C08_escape_flatMap]
        exact (StepsLe.single rfl s1).mono (by omega)

/-- one pull of escaped text in the data state; the other fields of the tokenizer are untouched -/
theorem next_text_frame (ts : St) (d rest : Str) (hd : d ≠ []) (hok : valueOK d = true)
    (hrest : rest = [] ∨ rest.head? = some 60) (h : DataAt ts (escape d ++ rest)) :
    ∃ d1 d2 tok ts', d = d1 ++ d2 ∧ d1 ≠ [] ∧ (tok = .chars d1 ∨ tok = .space d1) ∧
      next ts = .ok (some (tok, ts')) ∧ DataAt ts' (escape d2 ++ rest) ∧ ts'.currentToken = ts.currentToken ∧
      ts'.temporaryBuffer = ts.temporaryBuffer ∧ ts'.cdataAllowed = ts.cdataAllowed := by
  obtain ⟨st, i, cur, tb, q, cd⟩ := ts
  obtain ⟨h1, h2, h3⟩ := h
  simp only at h1 h2 h3
  subst h1 h2 h3
  obtain ⟨d1, d2, tok, e, hne, ht, r⟩ := text_pull false d rest hd hok hrest cur tb cd
  exact ⟨d1, d2, tok, _, e, hne, ht, next_of_steps r rfl (by len_tac), ⟨rfl, rfl, rfl⟩, rfl, rfl, rfl⟩

theorem next_text (ts : St) (d rest : Str) (hd : d ≠ []) (hok : valueOK d = true)
    (hrest : rest = [] ∨ rest.head? = some 60) (h : DataAt ts (escape d ++ rest)) :
    ∃ d1 d2 tok ts', d = d1 ++ d2 ∧ d1 ≠ [] ∧ (tok = .chars d1 ∨ tok = .space d1) ∧
      next ts = .ok (some (tok, ts')) ∧ DataAt ts' (escape d2 ++ rest) := by
  obtain ⟨d1, d2, tok, ts', h1, h2, h3, h4, h5, _⟩ := next_text_frame ts d rest hd hok hrest h
  exact ⟨d1, d2, tok, ts', h1, h2, h3, h4, h5⟩

end H5.Props.C07b
