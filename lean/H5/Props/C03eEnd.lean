/-
  C03e — the reprocess loop for a computed FAMILY of end tags with a handler of their own (`famE`): the keyed end tag
  names for which, in every phase, the selected handler never hands the token back or leaves a phase register of smaller
  rank `psi` — block elements, `form`, list items, headings, formatting elements, `applet`/`marquee`/`object`, …
  (the list is computed by `famE`; `famE_names` spells it out).  Part 1: the handlers.
-/
import H5.Props.C03eLists
set_option linter.unusedSimpArgs false
set_option linter.unusedVariables false
namespace H5.Props.C03e
open H5 H5.Model H5.Model.TB H5.Model.Dom
open H5.Props.C02c (NF Post Post_bind Post_mono Post_pure Post_ok Post_error Post_throw Post_ite
  NF_typeError NF_keyError NF_indexError NF_assertFail NF_valueError NF_lookupError)
open H5.Props.C03b H5.Props.C03c H5.Props.C03d

/-- the end tag handlers whose lemma we have: never hands the token back (`rnTag`), hands it back with a smaller rank
(`retBoundE`), or is the tail call `phases[inBody|inTable|inSelect].processEndTag(token)` -/
def tailE : List String :=
  ["InCaptionPhase.endTagOther", "InCellPhase.endTagOther", "InRowPhase.endTagOther", "InTableBodyPhase.endTagOther",
   "InSelectInTablePhase.endTagOther"]

def allowedE : List String := rnTag ++ tailE ++ ["InColumnGroupPhase.endTagOther", "AfterBodyPhase.endTagOther"]

def nestedPh (p : Phase) : Bool := p == .inBody || p == .inTable || p == .inSelect

/-- the handler that phase `ph` selects for the end tag `nm` is fine -/
def okE (ph : Phase) (nm : Str) : Bool :=
  match lookupHandler Gen.endTagHandlers "endTagHandler" ph nm with
  | .ok h => allowedE.contains h && (!nestedPh ph || rnTag.contains h) &&
      (match retBoundE h with | some k => decide (k < psi (some ph)) | none => true)
  | .error _ => true

/-- **the family**: the keyed end tag names that are fine in every phase -/
def famE : List Str :=
  keysE.eraseDups.filter (fun nm => !Gen.Lit.BeforeHtmlPhase_processEndTag_0.contains nm &&
    Phase.all.all (fun ph => okE ph nm))

theorem famE_ok {nm : Str} (h : famE.contains nm = true) :
    Gen.Lit.BeforeHtmlPhase_processEndTag_0.contains nm = false ∧ ∀ ph, okE ph nm = true := by
  have hm : nm ∈ famE := by simpa using h
  unfold famE at hm
  have := (List.mem_filter.1 hm).2
  simp only [Bool.and_eq_true, Bool.not_eq_true', List.all_eq_true] at this
  exact ⟨this.1, fun ph => this.2 ph (Phase.mem_all ph)⟩

/-- an end tag of the family -/
def inFamE : Token → Bool
  | .endTag d => famE.contains d.name
  | _ => false

theorem inFamE_name {tok : Token} (h : inFamE tok = true) : famE.contains (tokName tok) = true := by
  cases tok <;> first | (simpa [inFamE, tokName] using h) | cases h

theorem RN_BeforeHtml_processEndTag_fam (tok : Token) (ho : inFamE tok = true) :
    RN (BeforeHtml_processEndTag tok) := by
  have hk := (famE_ok (inFamE_name ho)).1
  unfold BeforeHtml_processEndTag
  refine RN_liftE_bind _ _ ?_
  intro d hd
  have hn : d.name = tokName tok := tag_name hd
  rw [if_pos (by rw [hn, hk]; rfl)]
  rn_auto

/-- the nested `processEndTag` dispatches that never hand an end tag of the family back -/
class RecRNEF (r : Rec) : Prop where
  E : ∀ ph tok, ph ∈ [Phase.inBody, .inTable, .inSelect] → inFamE tok = true → RN (r.processEndTag ph tok)

set_option maxHeartbeats 8000000 in
theorem tagEF_rank {r : Rec} [hrn : RecRN r] [hre : RecRNEF r] (q : String) (hq : q ∈ allowedE) (tok : Token)
    (ho : inFamE tok = true) (st : PState) : RetLe (runTagHandler r q tok) st (retBoundE q) := by
  haveI h1 : RN (InCaption_endTagOther r tok) := by
    unfold InCaption_endTagOther; exact RecRNEF.E _ _ (by simp) ho
  haveI h2 : RN (InCell_endTagOther r tok) := by
    unfold InCell_endTagOther; exact RecRNEF.E _ _ (by simp) ho
  haveI h3 : RN (InRow_endTagOther r tok) := by
    unfold InRow_endTagOther; exact RecRNEF.E _ _ (by simp) ho
  haveI h4 : RN (InTableBody_endTagOther r tok) := by
    unfold InTableBody_endTagOther; exact RecRNEF.E _ _ (by simp) ho
  haveI h5 : RN (InSelectInTable_endTagOther r tok) := by
    unfold InSelectInTable_endTagOther; exact RecRNEF.E _ _ (by simp) ho
  have hr : True := trivial
  have hn : True := trivial
  have hi : True := trivial
  have hreg : q = "InTableTextPhase.processEndTag" → True := fun _ => trivial
  delta runTagHandler
  delta runTagHandler.match_1
  repeat (refine RetLe_dite _ _ _ _ (fun heq => ?_) (fun _ => ?_); (· subst heq; dsimp only [Eq.ndrec_symm]; rke_close))
  exact RetLe_none _ _ _

end H5.Props.C03e
